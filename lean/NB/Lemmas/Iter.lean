/- refinement lemmas for the `U32Digits` state machine (C09) and the serde split (C17) -/
import NB.Lemmas.Bytes
import NB.Model.Iter
namespace NB.Iter
open NB NB.Bytes

/-- both halves of every remaining native digit, least significant first -/
def flat : List Nat → List Nat
  | [] => []
  | x :: xs => lo32 x :: hi32 x :: flat xs

/-- ABSTRACTION: the u32 digits the iterator still has to yield -/
def abs (s : U32Digits) : List Nat :=
  let l := flat s.data
  let l := if s.nextIsLo then l else l.tail
  if s.lastHiIsZero then l.dropLast else l

/-- INVARIANT: proper digits, and an exhausted iterator has its flags reset -/
def Inv (s : U32Digits) : Prop :=
  DigitsOk s.data ∧ (s.data = [] → s.nextIsLo = true ∧ s.lastHiIsZero = false)

instance (s : U32Digits) : Decidable (Inv s) := by unfold Inv; infer_instance

theorem flat_append (a b : List Nat) : flat (a ++ b) = flat a ++ flat b := by
  induction a with
  | nil => rfl
  | cons x xs ih => simp [flat, ih]

theorem flat_length (a : List Nat) : (flat a).length = 2 * a.length := by
  induction a with
  | nil => rfl
  | cons x xs ih => simp [flat, ih]; omega

theorem flat_ne_nil {a : List Nat} (h : a ≠ []) : flat a ≠ [] := by
  cases a with
  | nil => exact absurd rfl h
  | cons x xs => simp [flat]

theorem hi32_eq {x : Nat} (h : x < B) : hi32 x = x / W := by
  unfold hi32
  rw [Nat.shiftRight_eq_div_pow, show halfBits = 32 from rfl, ← W_eq]
  apply Nat.mod_eq_of_lt
  apply Nat.div_lt_of_lt_mul
  rw [W_mul_W]; exact h

theorem lo32_lt (x : Nat) : lo32 x < W := Nat.mod_lt _ (by decide)
theorem hi32_lt (x : Nat) : hi32 x < W := Nat.mod_lt _ (by decide)

theorem lo_hi {x : Nat} (h : x < B) : lo32 x + W * hi32 x = x := by
  rw [hi32_eq h]; unfold lo32; exact Nat.mod_add_div x W

theorem flat_below (a : List Nat) : Below W (flat a) := by
  induction a with
  | nil => exact Below.nil
  | cons x xs ih => exact Below.cons (lo32_lt x) (Below.cons (hi32_lt x) ih)

theorem flat_val {a : List Nat} (h : DigitsOk a) : valBase W (flat a) = val a := by
  induction a with
  | nil => rfl
  | cons x xs ih =>
    simp only [flat, valBase, val, ih h.tail]
    have := lo_hi h.head
    have hw := W_mul_W
    rw [← hw]; conv_rhs => rw [← this]
    ring

/-! ### one step from the front -/

theorem next_spec (s : U32Digits) (hi : Inv s) :
    s.next.1 = (abs s).head? ∧ abs s.next.2 = (abs s).tail ∧ Inv s.next.2 := by
  obtain ⟨data, nil, lhz⟩ := s
  obtain ⟨hok, hemp⟩ := hi
  simp only at hok hemp
  cases data with
  | nil =>
    obtain ⟨h1, h2⟩ := hemp rfl
    subst h1; subst h2
    simp [U32Digits.next, abs, flat, Inv, DigitsOk.nil]
  | cons first rest =>
    cases nil with
    | true =>
      -- yields the low half, stays on the same native digit
      cases lhz with
      | false => simp [U32Digits.next, abs, flat, Inv, hok]
      | true =>
        have : (hi32 first :: flat rest) ≠ [] := by simp
        simp [U32Digits.next, abs, flat, Inv, hok, List.dropLast_cons_of_ne_nil this]
    | false =>
      cases rest with
      | nil =>
        cases lhz with
        | true => simp [U32Digits.next, abs, flat, Inv, DigitsOk.nil]
        | false => simp [U32Digits.next, abs, flat, Inv, DigitsOk.nil]
      | cons r rs =>
        have hne : flat (r :: rs) ≠ [] := by simp [flat]
        cases lhz with
        | true => simp [U32Digits.next, abs, flat, Inv, hok.tail, List.dropLast_cons_of_ne_nil]
        | false => simp [U32Digits.next, abs, flat, Inv, hok.tail]

/-! list helpers -/
theorem dl_two (F : List Nat) (a b : Nat) : (F ++ [a, b]).dropLast = F ++ [a] := by
  rw [show F ++ [a, b] = (F ++ [a]) ++ [b] by simp, List.dropLast_concat]
theorem gl_two (F : List Nat) (a b : Nat) : (F ++ [a, b]).getLast? = some b := by simp
theorem dl_two' (x : Nat) (F : List Nat) (a b : Nat) : (x :: (F ++ [a, b])).dropLast = x :: (F ++ [a]) := by
  rw [← List.cons_append, dl_two]; rfl
theorem dl_one' (x : Nat) (F : List Nat) (a : Nat) : (x :: (F ++ [a])).dropLast = x :: F := by
  rw [← List.cons_append, List.dropLast_concat]
theorem gl_two' (x : Nat) (F : List Nat) (a b : Nat) : (x :: (F ++ [a, b])).getLast? = some b := by
  rw [← List.cons_append, gl_two]
theorem gl_one' (x : Nat) (F : List Nat) (a : Nat) : (x :: (F ++ [a])).getLast? = some a := by
  simp [List.getLast?_cons, List.getLast?_append]

/-! ### one step from the back -/

theorem nextBack_spec (s : U32Digits) (hi : Inv s) :
    s.nextBack.1 = (abs s).getLast? ∧ abs s.nextBack.2 = (abs s).dropLast ∧ Inv s.nextBack.2 := by
  obtain ⟨data, nil, lhz⟩ := s
  obtain ⟨hok, hemp⟩ := hi
  simp only at hok hemp
  rcases List.eq_nil_or_concat data with h | ⟨init, last, rfl⟩
  · subst h
    obtain ⟨h1, h2⟩ := hemp rfl
    subst h1; subst h2
    simp [U32Digits.nextBack, abs, flat, Inv, DigitsOk.nil]
  · simp only [List.concat_eq_append] at *
    have hfl : flat (init ++ [last]) = flat init ++ [lo32 last, hi32 last] := by
      rw [flat_append]; rfl
    have hoki : DigitsOk init := hok.left
    cases lhz with
    | true =>
      -- the high half of the last digit is not to be yielded: yields its low half and drops it
      cases nil with
      | true =>
        simp only [U32Digits.nextBack, abs, hfl, List.getLast?_append, List.dropLast_concat, Inv]
        simp [hoki]
      | false =>
        cases init with
        | nil => simp [U32Digits.nextBack, abs, flat, Inv, DigitsOk.nil]
        | cons i is =>
          simp only [U32Digits.nextBack, abs, hfl, List.getLast?_append, List.dropLast_concat, Inv]
          simp [hoki, flat, dl_two', dl_one', gl_one']
    | false =>
      cases nil with
      | true =>
        simp only [U32Digits.nextBack, abs, hfl, List.getLast?_append, List.dropLast_concat, Inv]
        simp [hok, hfl]
      | false =>
        cases init with
        | nil =>
          have : DigitsOk [last] := by simpa using hok
          simp [U32Digits.nextBack, abs, flat, Inv, this]
        | cons i is =>
          have hok' : DigitsOk (i :: (is ++ [last])) := by simpa using hok
          simp only [U32Digits.nextBack, abs, hfl, List.getLast?_append, List.dropLast_concat, Inv]
          simp [hok', flat, flat_append, gl_two']


/-! ### observers -/

theorem abs_length (s : U32Digits) :
    (abs s).length = 2 * s.data.length - (if s.nextIsLo then 0 else 1) - (if s.lastHiIsZero then 1 else 0) := by
  obtain ⟨data, nil, lhz⟩ := s
  cases nil <;> cases lhz <;> simp [abs, flat_length, List.length_tail, List.length_dropLast]

theorem len_spec (s : U32Digits) (hi : Inv s) : s.len = .ok (abs s).length := by
  rw [abs_length]
  obtain ⟨data, nil, lhz⟩ := s
  obtain ⟨_, hemp⟩ := hi
  simp only at hemp
  cases data with
  | nil =>
    obtain ⟨h1, h2⟩ := hemp rfl
    subst h1; subst h2
    simp [U32Digits.len]
  | cons d ds =>
    cases nil <;> cases lhz <;>
      (simp only [U32Digits.len, List.length_cons, Bool.not_true, Bool.not_false, if_true, if_false,
        Bool.false_eq_true]
       rw [if_neg (by omega), if_neg (by omega)]
       congr 1
       omega)

theorem sizeHint_spec (s : U32Digits) (hi : Inv s) :
    s.sizeHint = .ok ((abs s).length, some (abs s).length) := by
  unfold U32Digits.sizeHint; rw [len_spec s hi]

theorem last_spec (s : U32Digits) (hi : Inv s) : s.last = (abs s).getLast? :=
  (nextBack_spec s hi).1

theorem count_spec (s : U32Digits) (hi : Inv s) : s.count = .ok (abs s).length := len_spec s hi

theorem nth_spec : ∀ (n : Nat) (s : U32Digits), Inv s →
    (U32Digits.nth n s).1 = ((abs s).drop n).head? ∧ abs (U32Digits.nth n s).2 = (abs s).drop (n + 1) ∧
    Inv (U32Digits.nth n s).2 := by
  intro n
  induction n with
  | zero =>
    intro s hi
    obtain ⟨h1, h2, h3⟩ := next_spec s hi
    simp only [U32Digits.nth, List.drop_zero, Nat.zero_add, List.drop_one]
    exact ⟨h1, h2, h3⟩
  | succ n ih =>
    intro s hi
    obtain ⟨h1, h2, h3⟩ := next_spec s hi
    unfold U32Digits.nth
    rcases hn : s.next with ⟨o, s'⟩
    rw [hn] at h1 h2 h3
    simp only at h1 h2 h3
    cases o with
    | none =>
      have hnil : abs s = [] := by
        cases ha : abs s with
        | nil => rfl
        | cons x xs => rw [ha] at h1; simp at h1
      simp only [hnil, List.drop_nil, List.head?_nil, true_and]
      rw [hnil] at h2
      exact ⟨by simpa using h2, h3⟩
    | some x =>
      obtain ⟨i1, i2, i3⟩ := ih s' h3
      simp only
      rw [h2] at i1 i2
      refine ⟨?_, ?_, i3⟩
      · rw [i1]; simp [List.drop_tail]
      · rw [i2]; simp [List.drop_tail]

/-! ### every call sequence -/

theorem run32_spec : ∀ (calls : List Call) (s : U32Digits), Inv s → run32 calls s = specRun calls (abs s) := by
  intro calls
  induction calls with
  | nil => intro s _; rfl
  | cons c cs ih =>
    intro s hi
    cases c with
    | next =>
      obtain ⟨h1, h2, h3⟩ := next_spec s hi
      simp only [run32, specRun, h1, ih _ h3, h2]
    | nextBack =>
      obtain ⟨h1, h2, h3⟩ := nextBack_spec s hi
      simp only [run32, specRun, h1, ih _ h3, h2]
    | len => simp only [run32, specRun, len_spec s hi, resNum, ih s hi]
    | sizeHint => simp only [run32, specRun, sizeHint_spec s hi, resHint, ih s hi]
    | nth k =>
      obtain ⟨h1, h2, h3⟩ := nth_spec k s hi
      simp only [run32, specRun, h1, ih _ h3, h2]
    | last => simp only [run32, specRun, last_spec s hi]
    | count => simp only [run32, specRun, count_spec s hi, resNum]

/-! ### the initial state -/

theorem new_inv (d : List Nat) (h : DigitsOk d) : Inv (U32Digits.new d) := by
  refine ⟨h, ?_⟩
  intro hd
  simp only [U32Digits.new] at hd ⊢
  subst hd
  simp

/-- for a canonical digit vector the abstraction of the fresh iterator is exactly the base-2^32
    positional representation of the value -/
theorem abs_new {d : List Nat} (hc : Canon d) : abs (U32Digits.new d) = Nat.digits W (val d) := by
  rcases List.eq_nil_or_concat d with h | ⟨init, last, rfl⟩
  · subst h; simp [U32Digits.new, abs, flat, val]
  · simp only [List.concat_eq_append] at *
    have hlast0 : last ≠ 0 := by
      intro h0; apply hc.2; simp [h0]
    have hlastB : last < B := hc.1 last (by simp)
    have hfl : flat (init ++ [last]) = flat init ++ [lo32 last, hi32 last] := by
      rw [flat_append]; rfl
    have hval := flat_val hc.1
    have hbelow := flat_below (init ++ [last])
    have hlh := lo_hi hlastB
    have hB : Below W (abs (U32Digits.new (init ++ [last]))) := by
      simp only [U32Digits.new, abs, if_true, List.getLast?_append, List.getLast?_singleton, Option.some_or]
      by_cases hh : hi32 last = 0
      · simp only [hh, beq_self_eq_true, if_true]
        exact fun x hx => hbelow x (List.mem_of_mem_dropLast hx)
      · simp only [beq_iff_eq, hh, if_false]
        exact hbelow
    have hL : (abs (U32Digits.new (init ++ [last]))).getLast? ≠ some 0 := by
      simp only [U32Digits.new, abs, if_true, List.getLast?_append, List.getLast?_singleton, Option.some_or]
      by_cases hh : hi32 last = 0
      · have hlo : lo32 last ≠ 0 := by
          intro h; rw [h, hh] at hlh; omega
        simp [hh, hfl, hlo]
      · simp [hh, hfl]
    have hV : valBase W (abs (U32Digits.new (init ++ [last]))) = val (init ++ [last]) := by
      rw [← hval]
      simp only [U32Digits.new, abs, if_true, List.getLast?_append, List.getLast?_singleton, Option.some_or]
      by_cases hh : hi32 last = 0
      · simp [hh, hfl, valBase_append, valBase]
      · simp [hh]
    have := digits_unique (by decide : 1 < W) hB hL
    rw [hV] at this
    exact this


/-! ### `collect` (fuel sufficiency) and the digit vectors -/

theorem collectFuel_spec : ∀ (f : Nat) (s : U32Digits), Inv s → (abs s).length < f →
    U32Digits.collectFuel f s = abs s := by
  intro f
  induction f with
  | zero => intro s _ h; omega
  | succ f ih =>
    intro s hi hl
    obtain ⟨h1, h2, h3⟩ := next_spec s hi
    unfold U32Digits.collectFuel
    rcases hn : s.next with ⟨o, s'⟩
    rw [hn] at h1 h2 h3
    simp only at h1 h2 h3
    cases ha : abs s with
    | nil =>
      rw [ha] at h1
      simp only [List.head?_nil] at h1
      subst h1; rfl
    | cons x xs =>
      rw [ha] at h1 h2 hl
      simp only [List.head?_cons] at h1
      subst h1
      simp only [List.tail_cons] at h2
      simp only
      rw [ih s' h3 (by rw [h2]; simpa using hl), h2]

theorem toU32Digits_eq_abs (u : List Nat) (h : DigitsOk u) : toU32Digits u = abs (U32Digits.new u) := by
  unfold toU32Digits
  apply collectFuel_spec _ _ (new_inv u h)
  rw [abs_length]
  simp only [U32Digits.new]
  omega

theorem collectFuel64_spec : ∀ (f : Nat) (l : List Nat), l.length < f → U64Digits.collectFuel f ⟨l⟩ = l := by
  intro f
  induction f with
  | zero => intro l h; omega
  | succ f ih =>
    intro l hl
    cases l with
    | nil => simp [U64Digits.collectFuel, U64Digits.next]
    | cons x xs =>
      simp only [U64Digits.collectFuel, U64Digits.next]
      rw [ih xs (by simpa using hl)]

theorem toU64Digits_eq (u : List Nat) : toU64Digits u = u := by
  unfold toU64Digits U64Digits.new
  exact collectFuel64_spec _ _ (by omega)

theorem run64_spec : ∀ (calls : List Call) (l : List Nat), run64 calls ⟨l⟩ = specRun calls l := by
  intro calls
  induction calls with
  | nil => intro l; rfl
  | cons c cs ih =>
    intro l
    cases c with
    | next =>
      cases l with
      | nil => simp [run64, specRun, U64Digits.next, ih]
      | cons x xs => simp [run64, specRun, U64Digits.next, ih]
    | nextBack =>
      rcases List.eq_nil_or_concat l with h | ⟨init, last, rfl⟩
      · subst h; simp [run64, specRun, U64Digits.nextBack, ih]
      · simp [run64, specRun, U64Digits.nextBack, ih]
    | len => simp [run64, specRun, U64Digits.len, ih]
    | sizeHint => simp [run64, specRun, U64Digits.sizeHint, ih]
    | nth k =>
      simp only [run64, specRun, U64Digits.nth]
      by_cases hk : k ≥ l.length
      · have h1 : l.drop k = [] := List.drop_eq_nil_of_le hk
        have h2 : l.drop (k + 1) = [] := List.drop_eq_nil_of_le (by omega)
        simp [hk, h1, h2, ih]
      · simp [hk, ih]
    | last =>
      rcases List.eq_nil_or_concat l with h | ⟨init, last, rfl⟩
      · subst h; simp [run64, specRun, U64Digits.last, U64Digits.nextBack]
      · simp [run64, specRun, U64Digits.last, U64Digits.nextBack]
    | count => simp [run64, specRun, U64Digits.count]

end NB.Iter
