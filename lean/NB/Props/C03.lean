/-
  C03 — Division yields the unique quotient/remainder of each rounding convention; division by
  zero panics; the checked variants return None.

  Every theorem is about the executable model NB.Model.Div (written from
  src/biguint/division.rs, src/bigint/division.rs and the `Integer` impls in src/biguint.rs,
  src/bigint.rs; correspondence-checked against the real crate on every run) and states that the
  model of a code path returns exactly the canonical representation of the mathematical result
  (`Nat` `/ %`, `Int.tdiv/tmod`, `Int.fdiv/fmod`, `Int./ %` (Euclidean), ceiling), that a zero
  divisor gives `attempt to divide by zero` for every unchecked form and `None` for every checked
  form, and — since every result is `.ok _` or `.error .divzero` — that none of the internal
  failure sites (`#DE` of `div`, `u128`/`u64` wrap in the multiply-subtract, the four
  `debug_assert`s of `div_rem_core`, `unreachable!()`) can be reached from canonical operands.

  Nothing here is `_partial`: the Knuth-D loop is proved in full (NB.Lemmas.Div).
-/
import NB.Lemmas.Div
import NB.Lemmas.DivInt
import NB.Model.AsmParams
namespace NB

/-! ## digit-level routines -/

/-- `div_rem_digit`: panics exactly for `b = 0`; otherwise canonical quotient and the remainder.
    `div_wide` never faults because `rem < b` is the loop invariant. -/
theorem div_rem_digit_spec (a : List Nat) (b : Nat) (ha : DigitsOk a) :
    divRemDigit a b = if b = 0 then .error .divzero else .ok (ofNat (val a / b), val a % b) := by
  by_cases hb : b = 0
  · simp [divRemDigit, hb]
  · simp only [hb, if_false]; exact divRemDigit_spec' a b ha hb

theorem rem_digit_spec (a : List Nat) (b : Nat) (ha : DigitsOk a) :
    remDigit a b = if b = 0 then .error .divzero else .ok (val a % b) := by
  by_cases hb : b = 0
  · simp [remDigit, hb]
  · simp only [hb, if_false]; exact remDigit_spec' a b ha hb

/-- `sub_mul_digit_same_len` with the offset-carry trick: `a' + c·b = a + borrow·B^n`,
    `borrow < B`; no `u128` under/overflow and no `u64` underflow is reachable. -/
theorem submul_spec (a b : List Nat) (c : Nat) (hl : a.length = b.length) (ha : DigitsOk a)
    (hb : DigitsOk b) (hc : c < B) :
    ∃ r borrow, subMulDigitSameLen a b c = .ok (r, borrow) ∧
      val r + c * val b = val a + borrow * B ^ a.length ∧ borrow < B ∧
      r.length = a.length ∧ DigitsOk r :=
  subMul_spec a b c hl ha hb hc

/-! ## Knuth D: the quotient-digit estimate

  Notation: window `W = [a0, a1, a2, wl…]` (n+1 digits), divisor `V = [b0, b1, bl…]` (n digits),
  `T3 = a2 + B·(a1 + B·a0)`, `T2 = b1 + B·b0`, `P = B^(n-2)`. -/

/-- the true digit is bounded by the top-3-by-top-2 quotient -/
theorem q_le_top (q V W P T2 T3 bl wl : Nat) (hV : V = bl + P * T2) (hW : W = wl + P * T3)
    (hwl : wl < P) (hq : q * V ≤ W) : q * T2 ≤ T3 :=
  knuth_q_top hV hW hwl hq

/-- `q ≤ q̂` initially: the 2-by-1 estimate (or `MAX` when `a0 = b0`) is never too small, is a
    digit, `div_wide` does not fault and `debug_assert!(a0 == b0)` holds -/
theorem qhat_ge_init (a0 a1 a2 b0 b1 q : Nat) (ha1 : a1 < B) (ha2 : a2 < B) (ha0 : a0 ≤ b0)
    (hq : q * (b1 + B * b0) ≤ a2 + B * (a1 + B * a0)) (hqB : q < B) :
    ∃ qh r, estimate a0 a1 b0 = .ok (qh, r) ∧ r + qh * b0 = a1 + B * a0 ∧ q ≤ qh ∧ qh < B :=
  estimate_spec rfl rfl ha1 ha2 ha0 hq hqB

/-- `q ≤ q̂` is preserved by the 3-by-2 correction loop, which ends with `q̂·T2 ≤ T3` -/
theorem qhat_ge_loop (b0 b1 a0 a1 a2 q qh r : Nat) (hb1 : b1 < B)
    (hq : q * (b1 + B * b0) ≤ a2 + B * (a1 + B * a0))
    (hinv : r + qh * b0 = a1 + B * a0) (hle : q ≤ qh) (hqh : qh < B) :
    q ≤ (corrLoop b0 b1 a2 qh r).1 ∧ (corrLoop b0 b1 a2 qh r).1 ≤ qh ∧
    (corrLoop b0 b1 a2 qh r).1 * (b1 + B * b0) ≤ a2 + B * (a1 + B * a0) :=
  corrLoop_spec rfl rfl hb1 hq qh r hinv hle hqh

/-- `q̂ ≤ q + 1` after the loop (needs only `b0 ≥ 1`, `q̂ < B`) -/
theorem qhat_le (qh V W P bl wl b0 b1 T3 : Nat) (hV : V = bl + P * (b1 + B * b0))
    (hW : W = wl + P * T3) (hbl : bl < P) (hb0 : 1 ≤ b0) (hqh : qh < B) (hVpos : 0 < V)
    (h : qh * (b1 + B * b0) ≤ T3) : qh ≤ W / V + 1 :=
  knuth_qhat_le hV hW hbl rfl hb0 hqh hVpos h

/-- multiply-subtract and add-back: for `q ≤ q̂ ≤ q+1` the step returns the exact digit `q = W / V`
    and window remainder `W % V`; add-back is taken exactly when `q̂ = q+1`; afterwards
    `borrow == a0` (the debug assertion) -/
theorem step_spec (P : Params) (w b : List Nat) (qh a0 : Nat) (hl : w.length = b.length)
    (hw : DigitsOk w) (hb : DigitsOk b) (hqh : qh < B) (hVpos : 0 < val b)
    (hlo : (val w + a0 * B ^ w.length) / val b ≤ qh)
    (hhi : qh ≤ (val w + a0 * B ^ w.length) / val b + 1) :
    ∃ w2, mulSubAddBack P w b qh a0 = .ok ((val w + a0 * B ^ w.length) / val b, w2) ∧
      val w2 = (val w + a0 * B ^ w.length) % val b ∧ w2.length = w.length ∧ DigitsOk w2 :=
  mulSubAddBack_spec P w b qh a0 hl hw hb hqh hVpos hlo hhi

/-- add-back happens exactly when the trial digit is one too large -/
theorem addback_iff (w b : List Nat) (qh a0 : Nat) (hl : w.length = b.length)
    (hw : DigitsOk w) (hb : DigitsOk b) (hqh : qh < B) (hVpos : 0 < val b)
    (hlo : (val w + a0 * B ^ w.length) / val b ≤ qh)
    (hhi : qh ≤ (val w + a0 * B ^ w.length) / val b + 1) :
    ∃ w1 borrow, subMulDigitSameLen w b qh = .ok (w1, borrow) ∧
      (borrow > a0 ↔ qh = (val w + a0 * B ^ w.length) / val b + 1) := by
  have hdm := Nat.div_add_mod (val w + a0 * B ^ w.length) (val b)
  have hR := Nat.mod_lt (val w + a0 * B ^ w.length) hVpos
  generalize (val w + a0 * B ^ w.length) / val b = q at *
  generalize (val w + a0 * B ^ w.length) % val b = R at *
  obtain ⟨w1, borrow, s1, s2, _, s4, s5⟩ := subMul_spec w b qh hl hw hb hqh
  have hVP : val b < B ^ w.length := by rw [hl]; exact val_lt hb
  have hv1 : val w1 < B ^ w.length := by rw [← s4]; exact val_lt s5
  have hdm' : q * val b + R = val w + a0 * B ^ w.length := by rw [Nat.mul_comm]; exact hdm
  refine ⟨w1, borrow, s1, ?_⟩
  rcases addback_arith rfl hdm' hR hVP hv1 s2 (by omega) with ⟨e1, e2, _⟩ | ⟨e1, e2, _⟩ <;> omega

/-- one loop iteration of `div_rem_core` -/
theorem core_step_spec (P : Params) (b : List Nat) (hb : DigitsOk b) (hn : 2 ≤ b.length)
    (hb0 : 1 ≤ b.getLast?.getD 0) (j : Nat) (a : List Nat) (a0 : Nat) (ha : DigitsOk a)
    (hlen : a.length = b.length + j)
    (hinv : val a + a0 * B ^ a.length < val b * B ^ (j + 1)) :
    ∃ q a' a0', coreStep P b (b.getLast?.getD 0) (b.getD (b.length - 2) 0) j a a0 = .ok (q, a', a0') ∧
      q < B ∧ a'.length + 1 = a.length ∧ DigitsOk a' ∧ a0' < B ∧
      (val a' + a0' * B ^ a'.length) + q * val b * B ^ j = val a + a0 * B ^ a.length ∧
      val a' + a0' * B ^ a'.length < val b * B ^ j :=
  coreStep_spec P b hb hn hb0 j a a0 ha hlen hinv

/-- `div_rem_core` on pre-normalised operands (any digit content of `a`, `b` with top bit set):
    `val a = val q · val b + val r ∧ val r < val b` with canonical `q`, `r` — stated as equality
    with the canonical digits of `val a / val b` and `val a % val b` -/
theorem div_rem_core_spec (P : Params) (a b : List Nat) (ha : DigitsOk a) (hb : DigitsOk b)
    (hn : 2 ≤ b.length) (hlen : b.length ≤ a.length) (htop : B / 2 ≤ b.getLast?.getD 0) :
    divRemCore P a b = .ok (ofNat (val a / val b), ofNat (val a % val b)) :=
  divRemCore_spec P a b ha hb hn hlen htop

theorem div_rem_core_euclid (P : Params) (a b : List Nat) (ha : DigitsOk a) (hb : DigitsOk b)
    (hn : 2 ≤ b.length) (hlen : b.length ≤ a.length) (htop : B / 2 ≤ b.getLast?.getD 0) :
    ∃ q r, divRemCore P a b = .ok (q, r) ∧ val a = val q * val b + val r ∧ val r < val b ∧
      Canon q ∧ Canon r := by
  have hVpos : 0 < val b := by
    have hbne : b ≠ [] := by intro h; subst h; simp at hn
    exact canon_val_pos ⟨hb, getLast_ne_zero_of_ge (t := B / 2) (by decide) htop⟩ hbne
  refine ⟨_, _, divRemCore_spec P a b ha hb hn hlen htop, ?_, ?_, ofNat_canon _, ofNat_canon _⟩
  · rw [ofNat_val, ofNat_val, Nat.mul_comm]; exact (Nat.div_add_mod _ _).symm
  · rw [ofNat_val]; exact Nat.mod_lt _ hVpos

/-! ## BigUint API -/

/-- `div_rem_ref` (`Integer::div_rem`, `div_mod_floor`, `div_rem_euclid` for BigUint) -/
theorem div_rem_spec (P : Params) (a b : List Nat) (ha : Canon a) (hb : Canon b) :
    divRemRef P a b = if b = [] then .error .divzero
      else .ok (ofNat (val a / val b), ofNat (val a % val b)) :=
  divRemRef_spec' P a b ha hb

/-- `div_rem` by value (`BigUint / BigUint`, `BigUint % BigUint`) -/
theorem div_rem_val_spec (P : Params) (a b : List Nat) (ha : Canon a) (hb : Canon b) :
    divRemVal P a b = if b = [] then .error .divzero
      else .ok (ofNat (val a / val b), ofNat (val a % val b)) :=
  divRemVal_spec' P a b ha hb

/-- `&a / &b`, `a /= &b`, `div_floor`, `div_euclid` -/
theorem divRef_spec (P : Params) (a b : List Nat) (ha : Canon a) (hb : Canon b) :
    divRef P a b = if b = [] then .error .divzero else .ok (ofNat (val a / val b)) := by
  unfold divRef; rw [div_rem_spec P a b ha hb]; split <;> rfl

theorem modFloor_spec (P : Params) (a b : List Nat) (ha : Canon a) (hb : Canon b) :
    modFloor P a b = if b = [] then .error .divzero else .ok (ofNat (val a % val b)) := by
  unfold modFloor; rw [div_rem_spec P a b ha hb]; split <;> rfl

theorem divVal_spec (P : Params) (a b : List Nat) (ha : Canon a) (hb : Canon b) :
    divVal P a b = if b = [] then .error .divzero else .ok (ofNat (val a / val b)) := by
  unfold divVal; rw [div_rem_val_spec P a b ha hb]; split <;> rfl

/-- the `to_u32` fast path (through `rem_digit`) and the general path agree -/
theorem rem_paths (a b : List Nat) (ha : Canon a) (hb : Canon b)
    (general : Except Panic (List Nat × List Nat))
    (hg : general = if b = [] then .error .divzero else .ok (ofNat (val a / val b), ofNat (val a % val b))) :
    (match toU32 b with
      | some o => (remDigit a o).map fromDigit
      | none => Except.map (fun (p : List Nat × List Nat) => p.2) general) =
      if b = [] then .error .divzero else .ok (ofNat (val a % val b)) := by
  subst hg
  cases b with
  | nil => simp [toU32, remDigit, Except.map]
  | cons d t =>
    cases t with
    | nil =>
      obtain ⟨hd0, hdB⟩ := canon_singleton hb
      have hv : val [d] = d := by simp [val]
      by_cases hd : d < U32
      · simp only [toU32, hd, if_true, remDigit_spec' a d ha.1 hd0, Except.map, hv]
        rw [fromDigit_eq (Nat.lt_trans (Nat.mod_lt _ (Nat.pos_of_ne_zero hd0)) hdB)]
        simp
      · simp [toU32, hd, Except.map]
    | cons e es => simp [toU32, Except.map]

/-- `&a % &b`, `a %= &b`, `rem_euclid` -/
theorem remRef_spec (P : Params) (a b : List Nat) (ha : Canon a) (hb : Canon b) :
    remRef P a b = if b = [] then .error .divzero else .ok (ofNat (val a % val b)) :=
  rem_paths a b ha hb _ (div_rem_spec P a b ha hb)

theorem remVal_spec (P : Params) (a b : List Nat) (ha : Canon a) (hb : Canon b) :
    remVal P a b = if b = [] then .error .divzero else .ok (ofNat (val a % val b)) :=
  rem_paths a b ha hb _ (div_rem_val_spec P a b ha hb)

/-- `Integer::div_ceil for BigUint`: the ceiling of `a / b` -/
theorem divCeil_spec (P : Params) (a b : List Nat) (ha : Canon a) (hb : Canon b) :
    divCeil P a b = if b = [] then .error .divzero
      else .ok (ofNat (if val a % val b = 0 then val a / val b else val a / val b + 1)) := by
  unfold divCeil
  rw [div_rem_spec P a b ha hb]
  by_cases hb0 : b = []
  · simp [hb0]
  · simp only [hb0, if_false, ofNat_eq_nil]
    split
    · rfl
    · rw [addDigit_spec P _ 1 (ofNat_canon _) (by decide), ofNat_val]

/-- the ceiling characterised: the least `q` with `a ≤ q·b` -/
theorem ceil_nat_char (a b : Nat) (hb : 0 < b) :
    let q := if a % b = 0 then a / b else a / b + 1
    a ≤ q * b ∧ ∀ q', a ≤ q' * b → q ≤ q' := by
  have hdm := Nat.div_add_mod a b
  have hlt := Nat.mod_lt a hb
  by_cases h0 : a % b = 0
  · simp only [h0, if_true]
    rw [h0] at hdm
    refine ⟨by rw [Nat.mul_comm]; omega, fun q' hq' => ?_⟩
    by_contra hn
    have : (q' + 1) * b ≤ a / b * b := Nat.mul_le_mul_right _ (by omega)
    have e : (q' + 1) * b = q' * b + b := by ring
    have e2 : b * (a / b) = a / b * b := Nat.mul_comm _ _
    omega
  · simp only [h0, if_false]
    have e : (a / b + 1) * b = b * (a / b) + b := by ring
    refine ⟨by omega, fun q' hq' => ?_⟩
    by_contra hn
    have : q' * b ≤ a / b * b := Nat.mul_le_mul_right _ (by omega)
    have e2 : b * (a / b) = a / b * b := Nat.mul_comm _ _
    omega

/-- every checked BigUint division returns `None` exactly for a zero divisor and never panics -/
theorem checkedDiv_spec (P : Params) (a b : List Nat) (ha : Canon a) (hb : Canon b) :
    checkedDiv P a b = .ok (if b = [] then none else some (ofNat (val a / val b))) := by
  unfold checkedDiv checked
  by_cases hb0 : b = []
  · simp [hb0]
  · simp [hb0, divRef_spec P a b ha hb, Except.map]

theorem checkedDivEuclid_spec (P : Params) (a b : List Nat) (ha : Canon a) (hb : Canon b) :
    checkedDivEuclid P a b = .ok (if b = [] then none else some (ofNat (val a / val b))) := by
  unfold checkedDivEuclid checked
  by_cases hb0 : b = []
  · simp [hb0]
  · simp [hb0, divRef_spec P a b ha hb, Except.map]

theorem checkedRemEuclid_spec (P : Params) (a b : List Nat) (ha : Canon a) (hb : Canon b) :
    checkedRemEuclid P a b = .ok (if b = [] then none else some (ofNat (val a % val b))) := by
  unfold checkedRemEuclid checked
  by_cases hb0 : b = []
  · simp [hb0]
  · simp [hb0, remRef_spec P a b ha hb, Except.map]

theorem checkedDivRemEuclid_spec (P : Params) (a b : List Nat) (ha : Canon a) (hb : Canon b) :
    checkedDivRemEuclid P a b =
      .ok (if b = [] then none else some (ofNat (val a / val b), ofNat (val a % val b))) := by
  unfold checkedDivRemEuclid checked
  by_cases hb0 : b = []
  · simp [hb0]
  · simp [hb0, div_rem_spec P a b ha hb, Except.map]

/-! ## BigInt conventions -/

/-- `Integer::div_rem for BigInt`: truncated division (`r` has the sign of `a`) -/
theorem bigint_divRem_spec (P : Params) (a b : BigInt) (ha : a.Canon) (hb : b.Canon) :
    BigInt.divRem P a b = if b.val = 0 then .error .divzero
      else .ok (BigInt.ofInt (Int.tdiv a.val b.val), BigInt.ofInt (Int.tmod a.val b.val)) := by
  obtain ⟨sa, ma⟩ := a
  obtain ⟨sb, mb⟩ := b
  have hA := canon_sign_cases ha
  have hB := canon_sign_cases hb
  unfold BigInt.divRem
  simp only [div_rem_spec P ma mb ha.1 hb.1]
  rcases hB with ⟨hsb, hmb⟩ | ⟨hsb, hmb, hpb⟩
  · subst hsb; subst hmb; simp [BigInt.val]
  · have hbz : ¬ ((val mb : Int) = 0) := by omega
    have hbz' : ¬ (-(val mb : Int) = 0) := by omega
    have hbn : val mb ≠ 0 := by omega
    simp only [hmb, if_false]
    rcases hA with ⟨hsa, hma⟩ | ⟨hsa, hma, hpa⟩
    · subst hsa; subst hma
      cases sb <;> simp [BigInt.val, val, ofNat_zero, fromBiguint_nosign, neg_ofInt, hbz, hbz', hbn] at hsb ⊢
    · cases sa <;> cases sb <;>
        simp [BigInt.val, Int.neg_tdiv, Int.tdiv_neg, Int.neg_tmod, Int.tmod_neg, tdiv_cast, tmod_cast,
          fromBiguint_ofNat_plus, fromBiguint_ofNat_minus, neg_ofInt, hbz, hbz', hbn] at hsa hsb ⊢

/-- `&a / &b` for BigInt: truncation toward zero -/
theorem bigint_div_spec (P : Params) (a b : BigInt) (ha : a.Canon) (hb : b.Canon) :
    BigInt.div P a b = if b.val = 0 then .error .divzero else .ok (BigInt.ofInt (Int.tdiv a.val b.val)) := by
  unfold BigInt.div; rw [bigint_divRem_spec P a b ha hb]; split <;> rfl

/-- `&a % &b` for BigInt: remainder of truncated division (sign of `a`) -/
theorem bigint_rem_spec (P : Params) (a b : BigInt) (ha : a.Canon) (hb : b.Canon) :
    BigInt.rem P a b = if b.val = 0 then .error .divzero else .ok (BigInt.ofInt (Int.tmod a.val b.val)) := by
  rw [bigint_rem_eq P a b ha hb, bigint_divRem_spec P a b ha hb]; split <;> rfl

/-- `Euclid::div_euclid for BigInt` -/
theorem bigint_divEuclid_spec (P : Params) (a b : BigInt) (ha : a.Canon) (hb : b.Canon) :
    BigInt.divEuclid P a b = if b.val = 0 then .error .divzero else .ok (BigInt.ofInt (a.val / b.val)) := by
  unfold BigInt.divEuclid
  rw [bigint_divRem_spec P a b ha hb]
  by_cases hb0 : b.val = 0
  · simp [hb0]
  · simp only [hb0, if_false, ofInt_sign_minus, canon_sign_plus_iff hb]
    rw [(euclid_from_trunc a.val b.val hb0).1]
    have h1 : (1 : Nat) < B := by decide
    split
    · split
      · rw [subU_spec P _ 1 (bigint_ofInt_canon _) h1, bigint_ofInt_val]; rfl
      · rw [addU_spec P _ 1 (bigint_ofInt_canon _) h1, bigint_ofInt_val]; rfl
    · rfl

/-- `Euclid::rem_euclid for BigInt` -/
theorem bigint_remEuclid_spec (P : Params) (a b : BigInt) (ha : a.Canon) (hb : b.Canon) :
    BigInt.remEuclid P a b = if b.val = 0 then .error .divzero else .ok (BigInt.ofInt (a.val % b.val)) := by
  unfold BigInt.remEuclid
  rw [bigint_rem_spec P a b ha hb]
  by_cases hb0 : b.val = 0
  · simp [hb0]
  · simp only [hb0, if_false, ofInt_sign_minus, canon_sign_plus_iff hb]
    rw [(euclid_from_trunc a.val b.val hb0).2]
    split
    · split
      · rw [bigint_add_spec P _ b (bigint_ofInt_canon _) hb, bigint_ofInt_val]
      · rw [bigint_sub_spec P _ b (bigint_ofInt_canon _) hb, bigint_ofInt_val]
    · rfl

/-- `Euclid::div_rem_euclid for BigInt` -/
theorem bigint_divRemEuclid_spec (P : Params) (a b : BigInt) (ha : a.Canon) (hb : b.Canon) :
    BigInt.divRemEuclid P a b = if b.val = 0 then .error .divzero
      else .ok (BigInt.ofInt (a.val / b.val), BigInt.ofInt (a.val % b.val)) := by
  unfold BigInt.divRemEuclid
  rw [bigint_divRem_spec P a b ha hb]
  by_cases hb0 : b.val = 0
  · simp [hb0]
  · simp only [hb0, if_false, ofInt_sign_minus, canon_sign_plus_iff hb]
    rw [(euclid_from_trunc a.val b.val hb0).1, (euclid_from_trunc a.val b.val hb0).2]
    have h1 : (1 : Nat) < B := by decide
    split
    · split
      · rw [subU_spec P _ 1 (bigint_ofInt_canon _) h1, bigint_ofInt_val,
          bigint_add_spec P _ b (bigint_ofInt_canon _) hb, bigint_ofInt_val]; rfl
      · rw [addU_spec P _ 1 (bigint_ofInt_canon _) h1, bigint_ofInt_val,
          bigint_sub_spec P _ b (bigint_ofInt_canon _) hb, bigint_ofInt_val]; rfl
    · rfl

/-- the ceiling of `a / b` (rounding toward +∞), expressed with floor division -/
def ceilDiv (a b : Int) : Int := -(Int.fdiv (-a) b)

/-- `Integer::div_floor for BigInt` -/
theorem bigint_divFloor_spec (P : Params) (a b : BigInt) (ha : a.Canon) (hb : b.Canon) :
    BigInt.divFloor P a b = if b.val = 0 then .error .divzero else .ok (BigInt.ofInt (Int.fdiv a.val b.val)) := by
  obtain ⟨sa, ma⟩ := a
  obtain ⟨sb, mb⟩ := b
  have hA := canon_sign_cases ha
  have hB := canon_sign_cases hb
  unfold BigInt.divFloor
  simp only [div_rem_spec P ma mb ha.1 hb.1]
  rcases hB with ⟨hsb, hmb⟩ | ⟨hsb, hmb, hpb⟩
  · subst hsb; subst hmb; simp [BigInt.val]
  · have hbz : ¬ ((val mb : Int) = 0) := by omega
    have hbz' : ¬ (-(val mb : Int) = 0) := by omega
    simp only [hmb, if_false]
    rcases hA with ⟨hsa, hma⟩ | ⟨hsa, hma, hpa⟩
    · subst hsa; subst hma
      cases sb <;>
        simp [BigInt.val, val, ofNat_zero, sameSignClass, BigInt.fromBU, BigInt.neg, Sign.neg, ofInt_zero,
          hbz, hbz', Nat.ne_of_gt hpb] at hsb ⊢
    · cases sa <;> cases sb <;> simp only [ne_eq, not_true_eq_false, reduceCtorEq, not_false_eq_true] at hsa hsb <;>
        simp only [BigInt.val, sameSignClass, fromBU_ofNat, floor_adj, hbz, hbz', if_false, fdiv_pp, fdiv_nn, fdiv_np _ _ hpb,
          fdiv_pn _ _ hpb, fromBU_ofNat]

/-- `Integer::mod_floor for BigInt` -/
theorem bigint_modFloor_spec (P : Params) (a b : BigInt) (ha : a.Canon) (hb : b.Canon) :
    BigInt.modFloor P a b = if b.val = 0 then .error .divzero else .ok (BigInt.ofInt (Int.fmod a.val b.val)) := by
  obtain ⟨sa, ma⟩ := a
  obtain ⟨sb, mb⟩ := b
  have hA := canon_sign_cases ha
  have hB := canon_sign_cases hb
  unfold BigInt.modFloor
  simp only [modFloor_spec P ma mb ha.1 hb.1]
  rcases hB with ⟨hsb, hmb⟩ | ⟨hsb, hmb, hpb⟩
  · subst hsb; subst hmb; simp [BigInt.val]
  · have hbz : ¬ ((val mb : Int) = 0) := by omega
    have hbz' : ¬ (-(val mb : Int) = 0) := by omega
    simp only [hmb, if_false]
    rcases hA with ⟨hsa, hma⟩ | ⟨hsa, hma, hpa⟩
    · subst hsa; subst hma
      cases sb <;>
        simp [BigInt.val, val, ofNat_zero, sameSignClass, BigInt.fromBiguint, ofInt_zero,
          hbz, hbz', Nat.ne_of_gt hpb] at hsb ⊢
    · cases sa <;> cases sb <;> simp only [ne_eq, not_true_eq_false, reduceCtorEq, not_false_eq_true] at hsa hsb <;>
        simp only [BigInt.val, sameSignClass, fromBiguint_ofNat_plus, fromBiguint_ofNat_minus, mod_adj P _ hb,
          hbz, hbz', if_false, fmod_pp, fmod_nn, fmod_np _ _ hpb, fmod_pn _ _ hpb] <;>
        (congr 2; split <;> split <;> omega)

/-- `Integer::div_mod_floor for BigInt` -/
theorem bigint_divModFloor_spec (P : Params) (a b : BigInt) (ha : a.Canon) (hb : b.Canon) :
    BigInt.divModFloor P a b = if b.val = 0 then .error .divzero
      else .ok (BigInt.ofInt (Int.fdiv a.val b.val), BigInt.ofInt (Int.fmod a.val b.val)) := by
  obtain ⟨sa, ma⟩ := a
  obtain ⟨sb, mb⟩ := b
  have hA := canon_sign_cases ha
  have hB := canon_sign_cases hb
  unfold BigInt.divModFloor
  simp only [div_rem_spec P ma mb ha.1 hb.1]
  rcases hB with ⟨hsb, hmb⟩ | ⟨hsb, hmb, hpb⟩
  · subst hsb; subst hmb; simp [BigInt.val]
  · have hbz : ¬ ((val mb : Int) = 0) := by omega
    have hbz' : ¬ (-(val mb : Int) = 0) := by omega
    simp only [hmb, if_false]
    rcases hA with ⟨hsa, hma⟩ | ⟨hsa, hma, hpa⟩
    · subst hsa; subst hma
      cases sb <;>
        simp [BigInt.val, val, ofNat_zero, sameSignClass, BigInt.fromBiguint, BigInt.fromBU, BigInt.neg, Sign.neg,
          ofInt_zero, hbz, hbz', Nat.ne_of_gt hpb] at hsb ⊢
    · cases sa <;> cases sb <;> simp only [ne_eq, not_true_eq_false, reduceCtorEq, not_false_eq_true] at hsa hsb <;>
        simp only [BigInt.val, sameSignClass, fromBU_ofNat, fromBiguint_ofNat_plus, fromBiguint_ofNat_minus,
          divmod_adj P _ hb, hbz, hbz', if_false, fdiv_pp, fdiv_nn, fdiv_np _ _ hpb, fdiv_pn _ _ hpb,
          fmod_pp, fmod_nn, fmod_np _ _ hpb, fmod_pn _ _ hpb] <;>
        (congr 2 <;> congr 1 <;> split <;> split <;> omega)

/-- `Integer::div_ceil for BigInt`: rounding toward +∞ -/
theorem bigint_divCeil_spec (P : Params) (a b : BigInt) (ha : a.Canon) (hb : b.Canon) :
    BigInt.divCeil P a b = if b.val = 0 then .error .divzero else .ok (BigInt.ofInt (ceilDiv a.val b.val)) := by
  obtain ⟨sa, ma⟩ := a
  obtain ⟨sb, mb⟩ := b
  have hA := canon_sign_cases ha
  have hB := canon_sign_cases hb
  unfold BigInt.divCeil ceilDiv
  simp only [div_rem_spec P ma mb ha.1 hb.1]
  rcases hB with ⟨hsb, hmb⟩ | ⟨hsb, hmb, hpb⟩
  · subst hsb; subst hmb; simp [BigInt.val]
  · have hbz : ¬ ((val mb : Int) = 0) := by omega
    have hbz' : ¬ (-(val mb : Int) = 0) := by omega
    simp only [hmb, if_false]
    rcases hA with ⟨hsa, hma⟩ | ⟨hsa, hma, hpa⟩
    · subst hsa; subst hma
      cases sb <;>
        simp [BigInt.val, val, ofNat_zero, sameSignClass, BigInt.fromBU, BigInt.neg, Sign.neg, ofInt_zero,
          hbz, hbz', Nat.ne_of_gt hpb] at hsb ⊢
    · cases sa <;> cases sb <;> simp only [ne_eq, not_true_eq_false, reduceCtorEq, not_false_eq_true] at hsa hsb <;>
        simp only [BigInt.val, sameSignClass, fromBU_ofNat, ceil_adj, neg_ofInt, neg_neg, hbz, hbz', if_false,
          fdiv_pp, fdiv_nn, fdiv_np _ _ hpb, fdiv_pn _ _ hpb] <;>
        (congr 2; split <;> omega)

/-- ceiling characterised: for `b ≠ 0`, `cdiv a b` is the least integer `q` with `a ≤ q·b` when
    `b > 0`, resp. `q·b ≤ a` … stated uniformly as `q - 1 < a / b ≤ q` over the rationals cleared of
    denominators: `(q - 1)·b < a ≤ q·b` for `b > 0` and `q·b ≤ a < (q - 1)·b` for `b < 0` -/
theorem cdiv_char (a b : Int) (hb : b ≠ 0) :
    (0 < b → (ceilDiv a b - 1) * b < a ∧ a ≤ ceilDiv a b * b) ∧
    (b < 0 → ceilDiv a b * b ≤ a ∧ a < (ceilDiv a b - 1) * b) := by
  unfold ceilDiv
  have hdef := Int.fmod_def (-a) b
  constructor
  · intro hp
    have h1 := Int.fmod_lt_of_pos (-a) hp
    have h2 : 0 ≤ (-a).fmod b := by
      rw [Int.fmod_eq_emod_of_nonneg _ (by omega)]; exact Int.emod_nonneg _ hb
    constructor <;> nlinarith
  · intro hn
    -- (-a).fmod b ∈ (b, 0]
    have hneg := Int.neg_fmod_neg a (-b)
    rw [neg_neg] at hneg
    have h1 := Int.fmod_lt_of_pos a (show 0 < -b by omega)
    have h2 : 0 ≤ a.fmod (-b) := by
      rw [Int.fmod_eq_emod_of_nonneg _ (by omega)]; exact Int.emod_nonneg _ (by omega)
    constructor <;> nlinarith

/-! ### checked forms: `None` exactly for a zero divisor, never a panic -/

theorem bigint_checkedDiv_spec (P : Params) (a b : BigInt) (ha : a.Canon) (hb : b.Canon) :
    BigInt.checkedDiv P a b = .ok (if b.val = 0 then none else some (BigInt.ofInt (Int.tdiv a.val b.val))) :=
  checked_eq _ _ (bigint_isZero_iff hb) _ _ (bigint_div_spec P a b ha hb)

theorem bigint_checkedDivEuclid_spec (P : Params) (a b : BigInt) (ha : a.Canon) (hb : b.Canon) :
    BigInt.checkedDivEuclid P a b = .ok (if b.val = 0 then none else some (BigInt.ofInt (a.val / b.val))) :=
  checked_eq _ _ (bigint_isZero_iff hb) _ _ (bigint_divEuclid_spec P a b ha hb)

theorem bigint_checkedRemEuclid_spec (P : Params) (a b : BigInt) (ha : a.Canon) (hb : b.Canon) :
    BigInt.checkedRemEuclid P a b = .ok (if b.val = 0 then none else some (BigInt.ofInt (a.val % b.val))) :=
  checked_eq _ _ (bigint_isZero_iff hb) _ _ (bigint_remEuclid_spec P a b ha hb)

theorem bigint_checkedDivRemEuclid_spec (P : Params) (a b : BigInt) (ha : a.Canon) (hb : b.Canon) :
    BigInt.checkedDivRemEuclid P a b = .ok (if b.val = 0 then none
      else some (BigInt.ofInt (a.val / b.val), BigInt.ofInt (a.val % b.val))) :=
  checked_eq _ _ (bigint_isZero_iff hb) _ _ (bigint_divRemEuclid_spec P a b ha hb)


/-! ## the conventions, characterised: existence and uniqueness of `(q, r)` with `a = q·b + r` -/

/-- Euclidean convention: `0 ≤ r < |b|` -/
theorem euclid_unique (a b q r : Int) (_hb : b ≠ 0) (h : a = q * b + r) (h0 : 0 ≤ r)
    (h1 : r < (b.natAbs : Int)) : q = a / b ∧ r = a % b := by
  by_cases hp : 0 < b
  · have := (Int.ediv_emod_unique (a := a) (r := r) (q := q) hp).mpr
      ⟨by rw [h]; ring, h0, by omega⟩
    exact ⟨this.1.symm, this.2.symm⟩
  · have hn : 0 < -b := by omega
    have := (Int.ediv_emod_unique (a := a) (b := -b) (r := r) (q := -q) hn).mpr
      ⟨by rw [h]; ring, h0, by omega⟩
    have e1 : a / b = -(a / -b) := by rw [Int.ediv_neg, neg_neg]
    have e2 : a % b = a % -b := by rw [Int.emod_neg]
    rw [e1, e2, this.1, this.2]; simp

theorem euclid_exists (a b : Int) (hb : b ≠ 0) :
    a = (a / b) * b + a % b ∧ 0 ≤ a % b ∧ a % b < (b.natAbs : Int) :=
  ⟨by have := Int.emod_add_mul_ediv a b; linarith [this], Int.emod_nonneg a hb, Int.emod_lt a hb⟩

/-- flooring convention: `r` has the sign of `b` (`0 ≤ r < b` or `b < r ≤ 0`) -/
theorem floor_unique (a b q r : Int) (h : a = q * b + r)
    (hpos : 0 < b → 0 ≤ r ∧ r < b) (hneg : b < 0 → b < r ∧ r ≤ 0) (hb : b ≠ 0) :
    q = Int.fdiv a b ∧ r = Int.fmod a b := by
  by_cases hp : 0 < b
  · obtain ⟨r0, r1⟩ := hpos hp
    rw [Int.fdiv_eq_ediv_of_nonneg _ (by omega), Int.fmod_eq_emod_of_nonneg _ (by omega)]
    exact euclid_unique a b q r hb h r0 (by omega)
  · have hn : b < 0 := by omega
    obtain ⟨r0, r1⟩ := hneg hn
    have e1 : Int.fdiv a b = Int.fdiv (-a) (-b) := (Int.neg_fdiv_neg a b).symm
    have e2 : Int.fmod a b = -(Int.fmod (-a) (-b)) := by rw [Int.neg_fmod_neg, neg_neg]
    rw [e1, e2, Int.fdiv_eq_ediv_of_nonneg _ (by omega), Int.fmod_eq_emod_of_nonneg _ (by omega)]
    have := euclid_unique (-a) (-b) q (-r) (by omega) (by rw [h]; ring) (by omega) (by omega)
    rw [← this.1, ← this.2]; simp

/-- truncating convention: `|r| < |b|` and `r` has the sign of `a` -/
theorem trunc_unique (a b q r : Int) (hb : b ≠ 0) (h : a = q * b + r)
    (h1 : (r.natAbs : Int) < (b.natAbs : Int)) (hs : 0 ≤ a → 0 ≤ r) (hs' : a ≤ 0 → r ≤ 0) :
    q = Int.tdiv a b ∧ r = Int.tmod a b := by
  by_cases ha : 0 ≤ a
  · rw [Int.tdiv_eq_ediv_of_nonneg ha, Int.tmod_eq_emod_of_nonneg ha]
    exact euclid_unique a b q r hb h (hs ha) (by have := hs ha; omega)
  · have hna : 0 ≤ -a := by omega
    have hr := hs' (by omega)
    have e1 : Int.tdiv a b = -(Int.tdiv (-a) b) := by rw [Int.neg_tdiv, neg_neg]
    have e2 : Int.tmod a b = -(Int.tmod (-a) b) := by rw [Int.neg_tmod, neg_neg]
    rw [e1, e2, Int.tdiv_eq_ediv_of_nonneg hna, Int.tmod_eq_emod_of_nonneg hna]
    have := euclid_unique (-a) b (-q) (-r) hb (by rw [h]; ring) (by omega) (by omega)
    rw [← this.1, ← this.2]; simp

/-- sign of the remainder, per convention (for the record: these are facts about the specs) -/
theorem rem_signs (a b : Int) (hb : b ≠ 0) :
    (0 ≤ a → 0 ≤ Int.tmod a b) ∧ (a ≤ 0 → Int.tmod a b ≤ 0) ∧
    (0 < b → 0 ≤ Int.fmod a b ∧ Int.fmod a b < b) ∧ (b < 0 → b < Int.fmod a b ∧ Int.fmod a b ≤ 0) ∧
    (0 ≤ a % b ∧ a % b < (b.natAbs : Int)) := by
  refine ⟨fun h => ?_, fun h => ?_, fun h => ?_, fun h => ?_, Int.emod_nonneg a hb, Int.emod_lt a hb⟩
  · rw [Int.tmod_eq_emod_of_nonneg h]; exact Int.emod_nonneg a hb
  · have e : Int.tmod a b = -(Int.tmod (-a) b) := by rw [Int.neg_tmod, neg_neg]
    rw [e, Int.tmod_eq_emod_of_nonneg (by omega)]
    have := Int.emod_nonneg (-a) hb; omega
  · rw [Int.fmod_eq_emod_of_nonneg _ (by omega)]
    exact ⟨Int.emod_nonneg a hb, Int.emod_lt_of_pos a h⟩
  · have e : Int.fmod a b = -(Int.fmod (-a) (-b)) := by rw [Int.neg_fmod_neg, neg_neg]
    rw [e, Int.fmod_eq_emod_of_nonneg _ (by omega)]
    have h1 := Int.emod_nonneg (-a) (show -b ≠ 0 by omega)
    have h2 := Int.emod_lt_of_pos (-a) (show 0 < -b by omega)
    omega

/-! ## no internal failure site is reachable from canonical operands -/

theorem not_internal_of_spec {α} {x : Except Panic α} {c : Prop} [Decidable c] {v : α}
    (h : x = if c then .error .divzero else .ok v) (tag : String) : x ≠ .error (.internal tag) := by
  rw [h]; split <;> simp

/-- `div_wide`'s `#DE`, the `u128`/`u64` wrap sites of the multiply-subtract and the four debug
    assertions of `div_rem_core` are unreachable through `div_rem_ref` -/
theorem div_rem_no_internal (P : Params) (a b : List Nat) (ha : Canon a) (hb : Canon b) (tag : String) :
    divRemRef P a b ≠ .error (.internal tag) :=
  not_internal_of_spec (div_rem_spec P a b ha hb) tag

theorem bigint_divRem_no_internal (P : Params) (a b : BigInt) (ha : a.Canon) (hb : b.Canon) (tag : String) :
    BigInt.divRem P a b ≠ .error (.internal tag) :=
  not_internal_of_spec (bigint_divRem_spec P a b ha hb) tag

/-- the `unreachable!()` arms of `div_floor`, `mod_floor`, `div_mod_floor`, `div_ceil` are unreachable
    (a zero divisor panics in `div_rem_ref` first) -/
theorem bigint_floor_no_internal (P : Params) (a b : BigInt) (ha : a.Canon) (hb : b.Canon) (tag : String) :
    BigInt.divFloor P a b ≠ .error (.internal tag) ∧ BigInt.modFloor P a b ≠ .error (.internal tag) ∧
    BigInt.divModFloor P a b ≠ .error (.internal tag) ∧ BigInt.divCeil P a b ≠ .error (.internal tag) ∧
    BigInt.divRemEuclid P a b ≠ .error (.internal tag) :=
  ⟨not_internal_of_spec (bigint_divFloor_spec P a b ha hb) tag,
   not_internal_of_spec (bigint_modFloor_spec P a b ha hb) tag,
   not_internal_of_spec (bigint_divModFloor_spec P a b ha hb) tag,
   not_internal_of_spec (bigint_divCeil_spec P a b ha hb) tag,
   not_internal_of_spec (bigint_divRemEuclid_spec P a b ha hb) tag⟩

/-! ## non-vacuity: the hypotheses hold on concrete, non-trivial operands -/

-- an add-back instance (Knuth 4.3.1 step D6): a = [0,0,2^63,2^63-1], b = [MAX,0,2^63]
example : Canon [0, 0, 9223372036854775808, 9223372036854775807] := by decide
example : Canon [18446744073709551615, 0, 9223372036854775808] := by decide
example : B / 2 ≤ ([18446744073709551615, 0, 9223372036854775808] : List Nat).getLast?.getD 0 := by decide
example : divRemRef NB.Gen.P [0, 0, 9223372036854775808, 9223372036854775807]
      [18446744073709551615, 0, 9223372036854775808] =
    .ok (ofNat (val [0, 0, 9223372036854775808, 9223372036854775807] /
                val [18446744073709551615, 0, 9223372036854775808]),
         ofNat (val [0, 0, 9223372036854775808, 9223372036854775807] %
                val [18446744073709551615, 0, 9223372036854775808])) := by
  rw [div_rem_spec _ _ _ (by decide) (by decide)]; simp
example : (⟨.minus, [5, 7]⟩ : BigInt).Canon := by decide
example : (⟨.plus, [3]⟩ : BigInt).Canon := by decide
example : BigInt.divFloor NB.Gen.P ⟨.minus, [5, 7]⟩ ⟨.plus, [3]⟩ =
    .ok (BigInt.ofInt (Int.fdiv (BigInt.val ⟨.minus, [5, 7]⟩) (BigInt.val ⟨.plus, [3]⟩))) := by
  rw [bigint_divFloor_spec _ _ _ (by decide) (by decide)]
  simp [BigInt.val, val]
example : BigInt.checkedDivRemEuclid NB.Gen.P ⟨.minus, [5, 7]⟩ ⟨.nosign, []⟩ = .ok none := by
  rw [bigint_checkedDivRemEuclid_spec _ _ _ (by decide) (by decide)]; simp [BigInt.val]

end NB
