/-
  NB.Model.Iter — the digit iterators of src/biguint/iter.rs (64-bit digit variants), import-free.

  `U32Digits` is the hand-written state machine `{data, next_is_lo, last_hi_is_zero}`; every
  method is transcribed branch by branch (`&mut self` becomes "return the new state").
  `U64Digits` wraps `core::slice::Iter<u64>` (std; modelled as the remaining list).
  `nth` of `U32Digits` is the default `Iterator::nth` (`advance_by(n)` = up to `n` calls of
  `next`, stopping at the first `None`; then `next`).  `to_u32_digits`/`to_u64_digits` are
  `iter.collect()` = calls of `next` until `None` (fuel: 2·len+1 calls, proved sufficient).
-/
import NB.Base
import NB.Model.Bytes
namespace NB.Iter
open NB NB.Bytes

structure U32Digits where
  data : List Nat
  nextIsLo : Bool
  lastHiIsZero : Bool
  deriving DecidableEq, Repr

/-- `first as u32` -/
def lo32 (x : Nat) : Nat := x % W
/-- `(first >> 32) as u32` -/
def hi32 (x : Nat) : Nat := (x >>> halfBits) % W

/-- `U32Digits::new` -/
def U32Digits.new (data : List Nat) : U32Digits :=
  { data := data
    nextIsLo := true
    lastHiIsZero := match data.getLast? with
      | some last => hi32 last == 0
      | none => false }

/-- `Iterator::next` -/
def U32Digits.next (s : U32Digits) : Option Nat × U32Digits :=
  match s.data with
  | [] => (none, s)
  | first :: data =>
    let nextIsLo := s.nextIsLo
    let s := { s with nextIsLo := !nextIsLo }
    if nextIsLo then (some (lo32 first), s)
    else
      let s := { s with data := data }
      if data.isEmpty && s.lastHiIsZero then (none, { s with lastHiIsZero := false })
      else (some (hi32 first), s)

/-- `DoubleEndedIterator::next_back` -/
def U32Digits.nextBack (s : U32Digits) : Option Nat × U32Digits :=
  match s.data.getLast? with
  | none => (none, s)
  | some last =>
    let data := s.data.dropLast
    let lastIsLo := s.lastHiIsZero
    let s := { s with lastHiIsZero := !lastIsLo }
    if lastIsLo then
      let s := { s with data := data }
      if data.isEmpty && !s.nextIsLo then (none, { s with nextIsLo := true })
      else (some (lo32 last), s)
    else (some (hi32 last), s)

/-- `ExactSizeIterator::len`: `data.len() * 2 - usize::from(last_hi_is_zero) - usize::from(!next_is_lo)`;
    a `usize` underflow (debug: panic, release: wrap) is an explicit outcome -/
def U32Digits.len (s : U32Digits) : Except Panic Nat :=
  let a := s.data.length * 2
  let b := if s.lastHiIsZero then 1 else 0
  let c := if !s.nextIsLo then 1 else 0
  if a < b then .error (.internal "U32Digits::len:underflow")
  else if a - b < c then .error (.internal "U32Digits::len:underflow")
  else .ok (a - b - c)

/-- `Iterator::size_hint` = `(len, Some(len))` -/
def U32Digits.sizeHint (s : U32Digits) : Except Panic (Nat × Option Nat) :=
  match s.len with | .error e => .error e | .ok n => .ok (n, some n)

/-- `Iterator::last(mut self)` = `self.next_back()` -/
def U32Digits.last (s : U32Digits) : Option Nat := s.nextBack.1

/-- `Iterator::count(self)` = `self.len()` -/
def U32Digits.count (s : U32Digits) : Except Panic Nat := s.len

/-- default `Iterator::nth` -/
def U32Digits.nth : Nat → U32Digits → Option Nat × U32Digits
  | 0, s => s.next
  | n + 1, s =>
    match s.next with
    | (none, s') => (none, s')
    | (some _, s') => U32Digits.nth n s'

/-- `Iterator::collect::<Vec<u32>>()` with fuel -/
def U32Digits.collectFuel : Nat → U32Digits → List Nat
  | 0, _ => []
  | f + 1, s =>
    match s.next with
    | (none, _) => []
    | (some x, s') => x :: U32Digits.collectFuel f s'

/-- `BigUint::to_u32_digits` -/
def toU32Digits (u : List Nat) : List Nat :=
  U32Digits.collectFuel (2 * u.length + 1) (U32Digits.new u)

/-- `U64Digits` (64-bit variant): `core::slice::Iter<u64>` as the list of remaining digits -/
structure U64Digits where
  it : List Nat
  deriving DecidableEq, Repr

def U64Digits.new (data : List Nat) : U64Digits := ⟨data⟩
def U64Digits.next (s : U64Digits) : Option Nat × U64Digits :=
  match s.it with
  | [] => (none, s)
  | x :: t => (some x, ⟨t⟩)
def U64Digits.nextBack (s : U64Digits) : Option Nat × U64Digits :=
  match s.it.getLast? with
  | none => (none, s)
  | some x => (some x, ⟨s.it.dropLast⟩)
def U64Digits.len (s : U64Digits) : Nat := s.it.length
def U64Digits.sizeHint (s : U64Digits) : Nat × Option Nat := (s.it.length, some s.it.length)
/-- `slice::Iter::nth`: skips `n` items; past the end it empties the iterator -/
def U64Digits.nth (n : Nat) (s : U64Digits) : Option Nat × U64Digits :=
  if n ≥ s.it.length then (none, ⟨[]⟩)
  else ((s.it.drop n).head?, ⟨s.it.drop (n + 1)⟩)
def U64Digits.last (s : U64Digits) : Option Nat := s.nextBack.1
def U64Digits.count (s : U64Digits) : Nat := s.it.length

/-- `BigUint::to_u64_digits` = `iter_u64_digits().collect()` -/
def U64Digits.collectFuel : Nat → U64Digits → List Nat
  | 0, _ => []
  | f + 1, s =>
    match s.next with
    | (none, _) => []
    | (some x, s') => x :: U64Digits.collectFuel f s'
def toU64Digits (u : List Nat) : List Nat := U64Digits.collectFuel (u.length + 1) (U64Digits.new u)

/-! call sequences -/

inductive Call where
  | next | nextBack | len | sizeHint | nth (k : Nat) | last | count
  deriving DecidableEq, Repr

inductive Res where
  | item (o : Option Nat)
  | num (n : Nat)
  | hint (lo : Nat) (hi : Option Nat)
  | panic (p : Panic)
  deriving DecidableEq, Repr

def resNum : Except Panic Nat → Res
  | .ok n => .num n
  | .error p => .panic p
def resHint : Except Panic (Nat × Option Nat) → Res
  | .ok (a, b) => .hint a b
  | .error p => .panic p

/-- run a call sequence on the `U32Digits` state machine; `last` and `count` consume the
    iterator, so the run ends there -/
def run32 : List Call → U32Digits → List Res
  | [], _ => []
  | .next :: cs, s => let r := s.next; .item r.1 :: run32 cs r.2
  | .nextBack :: cs, s => let r := s.nextBack; .item r.1 :: run32 cs r.2
  | .len :: cs, s => resNum s.len :: run32 cs s
  | .sizeHint :: cs, s => resHint s.sizeHint :: run32 cs s
  | .nth k :: cs, s => let r := U32Digits.nth k s; .item r.1 :: run32 cs r.2
  | .last :: _, s => [.item s.last]
  | .count :: _, s => [resNum s.count]

def run64 : List Call → U64Digits → List Res
  | [], _ => []
  | .next :: cs, s => let r := s.next; .item r.1 :: run64 cs r.2
  | .nextBack :: cs, s => let r := s.nextBack; .item r.1 :: run64 cs r.2
  | .len :: cs, s => .num s.len :: run64 cs s
  | .sizeHint :: cs, s => .hint s.sizeHint.1 s.sizeHint.2 :: run64 cs s
  | .nth k :: cs, s => let r := U64Digits.nth k s; .item r.1 :: run64 cs r.2
  | .last :: _, s => [.item s.last]
  | .count :: _, s => [.num s.count]

/-- the specification: an exact-size double-ended iterator over a list of digits -/
def specRun : List Call → List Nat → List Res
  | [], _ => []
  | .next :: cs, l => .item l.head? :: specRun cs l.tail
  | .nextBack :: cs, l => .item l.getLast? :: specRun cs l.dropLast
  | .len :: cs, l => .num l.length :: specRun cs l
  | .sizeHint :: cs, l => .hint l.length (some l.length) :: specRun cs l
  | .nth k :: cs, l => .item (l.drop k).head? :: specRun cs (l.drop (k + 1))
  | .last :: _, l => [.item l.getLast?]
  | .count :: _, l => [.num l.length]

end NB.Iter
