/-
  C15 — unsafe code stays in bounds (the part that is logic).

  Obligations over the asm programs *generated from the source on every run* (NB.Gen.AsmProg),
  under the mini x86 semantics of NB.Model.Asm:
    * the program has the single-loop shape; it never stores through the `b` pointer;
    * one loop iteration, started with `idx + w ≤ len a, len b`, does not fault, leaves `b`
      untouched, advances `idx` by exactly `w`, changes `a` only inside `[idx, idx+w)` and
      computes the adc/sbb chain there;
    * the whole routine called with `n ≥ 1` iterations and `w*n ≤ len a, len b` does not fault,
      touches only `a[0 .. w*n)`, returns `idx = w*n` and the carry of the chain;
    * on the caller's side: `w * (len / d) ≤ len` (NB.blk_done_le, C01), so the Rust wrappers
      pass lengths that satisfy those preconditions;
    * list-level corollary (C01 tier B): the routine computes exactly `adcZip` / `sbbZip` on the
      first `w*n` digits — which is what NB.add2c / NB.sub2 assume about it.
  What this cannot show: that the machine code rustc emits honours the operand constraints and
  that real memory behaves like the two bounded arrays — observed by the valgrind run instead.
-/
import NB.Lemmas.Asm
import NB.Model.AsmParams
import NB.Props.C01
namespace NB.Asm
open NB NB.Gen

def addLoop : Loop := (splitLoop addProg).getD ⟨[], [], []⟩
def subLoop : Loop := (splitLoop subProg).getD ⟨[], [], []⟩

/-- both generated programs have the shape `pre; L: body; jnz L; post` -/
theorem add_prog_shape : splitLoop addProg = some addLoop := by decide
theorem sub_prog_shape : splitLoop subProg = some subLoop := by decide

def storesThrough (r : Nat) : Instr → Bool
  | .store base _ _ _ => base == r
  | _ => false

/-- no instruction of either program stores through the read-only pointer `b` -/
theorem asm_b_readonly :
    (addProg.all fun i => !storesThrough addReg_b i) = true ∧
    (subProg.all fun i => !storesThrough subReg_b i) = true := by decide

def addCfg (la lb : Nat) : Cfg := ⟨addReg_a, addReg_b, la, lb⟩
def subCfg (la lb : Nat) : Cfg := ⟨subReg_a, subReg_b, la, lb⟩

macro "asm_side" : tactic => `(tactic| first
  | rfl
  | (simp only [addCfg, subCfg, addReg_a, addReg_b, addReg_idx, addReg_size, addReg_c,
                subReg_a, subReg_b, subReg_idx, subReg_size, subReg_c, ne_eq]; decide)
  | (simp [addCfg, subCfg, addReg_idx, addReg_a, addReg_b, addReg_size, subReg_idx, subReg_a, subReg_b, subReg_size, upd] at *; omega))

macro "asm_step" : tactic => `(tactic| first
  | rw [exec_load_a (by asm_side) (by asm_side) (by asm_side) (by asm_side)]
  | rw [exec_load_b (by asm_side) (by asm_side) (by asm_side) (by asm_side) (by asm_side)]
  | rw [exec_store_a (by asm_side) (by asm_side)]
  | rw [exec_adc (by asm_side) (by asm_side)]
  | rw [exec_sbb (by asm_side) (by asm_side)]
  | rw [exec_inc (by asm_side) (by asm_side)]
  | rw [exec_dec (by asm_side) (by asm_side)]
  | rw [exec_setc (by asm_side) (by asm_side)]
  | rw [exec_clc])

/-- block width of the add loop as derived from the generated program -/
theorem add_width : NB.Gen.P.addBlk.w = 5 := by decide
theorem sub_width : NB.Gen.P.subBlk.w = 5 := by decide

/-- what one iteration / the whole loop must establish about the final state -/
structure BodyPost (s' : St) (b : Nat → Nat) (ch : (Nat → Nat) × Bool) (idx' size' : Nat) (rIdx rSize : Nat) : Prop where
  cf : s'.cf = ch.2
  a : s'.a = ch.1
  b : s'.b = b
  zf : s'.zf = decide (s'.regs rSize = 0)
  idx : s'.regs rIdx = idx'
  size : s'.regs rSize = size'

set_option maxRecDepth 4000 in
/-- ONE ITERATION of the add loop: no fault, `b` untouched, `idx += w`, `size -= 1`,
    `a` and CF are exactly the adc chain over `[idx, idx+w)` -/
theorem add_body_spec (la lb : Nat) (regs : Nat → Nat) (cf zf : Bool) (a b : Nat → Nat) (i : Nat)
    (hi : regs addReg_idx = i) (hla : i + NB.Gen.P.addBlk.w ≤ la) (hlb : i + NB.Gen.P.addBlk.w ≤ lb) (hB : la < B) :
    ∃ s', exec (addCfg la lb) addLoop.body ⟨regs, cf, zf, a, b⟩ = some s' ∧
      BodyPost s' b (chainAdd a b cf i NB.Gen.P.addBlk.w) (i + NB.Gen.P.addBlk.w)
        ((regs addReg_size + B - 1) % B) addReg_idx addReg_size := by
  rw [add_width] at *
  simp [addLoop, splitLoop, addProg, isCtl, List.takeWhile]
  repeat (asm_step; try simp (disch := decide) only [upd_ne, upd_same, Nat.add_zero])
  rw [exec_nil]
  simp only [addReg_idx] at hi
  refine ⟨_, rfl, ?_, ?_, rfl, ?_, ?_, ?_⟩
  · simp [chainAdd, adcI, hi]
  · funext j
    simp [chainAdd, adcI, upd, hi]
  · simp (disch := decide) only [addReg_size, upd_ne, upd_same]
  · simp (disch := decide) only [addReg_idx, upd_ne, upd_same, hi]
    have h1 : (i + 1) % B = i + 1 := Nat.mod_eq_of_lt (by omega)
    have h2 : (i + 1 + 1) % B = i + 1 + 1 := Nat.mod_eq_of_lt (by omega)
    have h3 : (i + 1 + 1 + 1) % B = i + 1 + 1 + 1 := Nat.mod_eq_of_lt (by omega)
    have h4 : (i + 1 + 1 + 1 + 1) % B = i + 1 + 1 + 1 + 1 := Nat.mod_eq_of_lt (by omega)
    have h5 : (i + 1 + 1 + 1 + 1 + 1) % B = i + 1 + 1 + 1 + 1 + 1 := Nat.mod_eq_of_lt (by omega)
    rw [h1, h2, h3, h4, h5]
  · simp (disch := decide) only [addReg_size, upd_ne, upd_same]

set_option maxRecDepth 4000 in
/-- ONE ITERATION of the sub loop -/
theorem sub_body_spec (la lb : Nat) (regs : Nat → Nat) (cf zf : Bool) (a b : Nat → Nat) (i : Nat)
    (hi : regs subReg_idx = i) (hla : i + NB.Gen.P.subBlk.w ≤ la) (hlb : i + NB.Gen.P.subBlk.w ≤ lb) (hB : la < B) :
    ∃ s', exec (subCfg la lb) subLoop.body ⟨regs, cf, zf, a, b⟩ = some s' ∧
      BodyPost s' b (chainSub a b cf i NB.Gen.P.subBlk.w) (i + NB.Gen.P.subBlk.w)
        ((regs subReg_size + B - 1) % B) subReg_idx subReg_size := by
  rw [sub_width] at *
  simp [subLoop, splitLoop, subProg, isCtl, List.takeWhile]
  repeat (asm_step; try simp (disch := decide) only [upd_ne, upd_same, Nat.add_zero])
  rw [exec_nil]
  simp only [subReg_idx] at hi
  refine ⟨_, rfl, ?_, ?_, rfl, ?_, ?_, ?_⟩
  · simp [chainSub, sbbI, hi]
  · funext j
    simp [chainSub, sbbI, upd, hi]
  · simp (disch := decide) only [subReg_size, upd_same]
  · simp (disch := decide) only [subReg_idx, upd_ne, upd_same, hi]
    have h1 : (i + 1) % B = i + 1 := Nat.mod_eq_of_lt (by omega)
    have h2 : (i + 1 + 1) % B = i + 1 + 1 := Nat.mod_eq_of_lt (by omega)
    have h3 : (i + 1 + 1 + 1) % B = i + 1 + 1 + 1 := Nat.mod_eq_of_lt (by omega)
    have h4 : (i + 1 + 1 + 1 + 1) % B = i + 1 + 1 + 1 + 1 := Nat.mod_eq_of_lt (by omega)
    have h5 : (i + 1 + 1 + 1 + 1 + 1) % B = i + 1 + 1 + 1 + 1 + 1 := Nat.mod_eq_of_lt (by omega)
    rw [h1, h2, h3, h4, h5]
  · simp (disch := decide) only [subReg_size, upd_same]

/-- THE LOOP, any number of iterations `n ≥ 1`: by induction over `n` from a one-iteration spec -/
theorem loop_spec (k : Cfg) (body : List Instr) (rIdx rSize w : Nat)
    (chain : (Nat → Nat) → (Nat → Nat) → Bool → Nat → Nat → (Nat → Nat) × Bool)
    (hadd : ∀ f g c i n m, chain f g c i (n + m) = chain (chain f g c i n).1 g (chain f g c i n).2 (i + n) m)
    (hbody : ∀ regs cf zf a b i, regs rIdx = i → i + w ≤ k.la → i + w ≤ k.lb →
      ∃ s', exec k body ⟨regs, cf, zf, a, b⟩ = some s' ∧
        BodyPost s' b (chain a b cf i w) (i + w) ((regs rSize + B - 1) % B) rIdx rSize) :
    ∀ n, 1 ≤ n → n < B → ∀ regs cf zf a b i, regs rIdx = i → regs rSize = n →
      i + w * n ≤ k.la → i + w * n ≤ k.lb → ∀ fuel, n ≤ fuel →
      ∃ s', loop k body fuel ⟨regs, cf, zf, a, b⟩ = some s' ∧
        BodyPost s' b (chain a b cf i (w * n)) (i + w * n) 0 rIdx rSize := by
  intro n
  induction n with
  | zero => intro h; omega
  | succ n ih =>
    intro _ hnB regs cf zf a b i hi hsz hla hlb fuel hfuel
    obtain ⟨fuel', rfl⟩ : ∃ f, fuel = f + 1 := ⟨fuel - 1, by omega⟩
    have hw : w * (n + 1) = w + w * n := by rw [Nat.mul_succ, Nat.add_comm]
    obtain ⟨s1, he, hp⟩ := hbody regs cf zf a b i hi (by rw [hw] at hla; omega) (by rw [hw] at hlb; omega)
    simp only [loop, he]
    have hs1size : s1.regs rSize = n := by
      rw [hp.size, hsz]
      have : n + 1 + B - 1 = n + B := by omega
      rw [this, Nat.add_mod_right, Nat.mod_eq_of_lt (by omega)]
    by_cases hn0 : n = 0
    · subst hn0
      have hz : s1.zf = true := by rw [hp.zf, hs1size]; rfl
      simp only [hz, if_true]
      refine ⟨s1, rfl, ?_⟩
      have e : w * (0 + 1) = w := by omega
      rw [e]
      exact ⟨hp.cf, hp.a, hp.b, hp.zf, hp.idx, hs1size⟩
    · have hz : s1.zf = false := by rw [hp.zf, hs1size]; simp [hn0]
      simp only [hz]
      obtain ⟨regs1, cf1, zf1, a1, b1⟩ := s1
      simp only at hp hs1size
      have hb1 : b1 = b := hp.b
      subst hb1
      obtain ⟨s2, he2, hp2⟩ := ih (by omega) (by omega) regs1 cf1 zf1 a1 b1 (i + w) hp.idx hs1size
        (by rw [hw] at hla; omega) (by rw [hw] at hlb; omega) fuel' (by omega)
      refine ⟨s2, by simpa using he2, ?_⟩
      have hc := hadd a b1 cf i w (w * n)
      rw [hw, hc]
      have e1 : a1 = (chain a b1 cf i w).1 := hp.a
      have e2 : cf1 = (chain a b1 cf i w).2 := hp.cf
      rw [← e1, ← e2]
      have e3 : i + (w + w * n) = i + w + w * n := by omega
      rw [e3]
      exact hp2

/-- THE WHOLE ADD ROUTINE: `n ≥ 1` iterations with `w*n` digits available behind both pointers:
    no fault, `b` untouched, `a` = adc chain on `[0, w*n)` (nothing outside is written), returned
    `idx = w*n`, returned `c` = final carry -/
theorem add_run_spec (la lb n : Nat) (hn : 1 ≤ n) (hnB : n < B) (hB : la < B)
    (hla : NB.Gen.P.addBlk.w * n ≤ la) (hlb : NB.Gen.P.addBlk.w * n ≤ lb)
    (regs : Nat → Nat) (cf zf : Bool) (a b : Nat → Nat) (hidx : regs addReg_idx = 0) (hsize : regs addReg_size = n) :
    ∃ s', run (addCfg la lb) addProg (n + 1) ⟨regs, cf, zf, a, b⟩ = some s' ∧
      s'.a = (chainAdd a b false 0 (NB.Gen.P.addBlk.w * n)).1 ∧ s'.b = b ∧
      s'.regs addReg_idx = NB.Gen.P.addBlk.w * n ∧
      s'.regs addReg_c = b2n (chainAdd a b false 0 (NB.Gen.P.addBlk.w * n)).2 := by
  unfold run
  rw [add_prog_shape]
  have hpre : addLoop.pre = [Instr.clc] := by decide
  have hpost : addLoop.post = [Instr.setc addReg_c, Instr.clc] := by decide
  simp only [hpre, hpost]
  rw [exec_clc, exec_nil]
  obtain ⟨s2, he, hp⟩ := loop_spec (addCfg la lb) addLoop.body addReg_idx addReg_size NB.Gen.P.addBlk.w chainAdd
    chainAdd_add (fun regs cf zf a b i hi h1 h2 => add_body_spec la lb regs cf zf a b i hi h1 h2 hB)
    n hn hnB regs false zf a b 0 hidx hsize (by simpa [addCfg, subCfg] using hla) (by simpa [addCfg, subCfg] using hlb) (n + 1) (by omega)
  simp only [he]
  obtain ⟨regs2, cf2, zf2, a2, b2⟩ := s2
  rw [exec_setc (by asm_side) (by asm_side), exec_clc, exec_nil]
  refine ⟨_, rfl, hp.a, hp.b, ?_, ?_⟩
  · have := hp.idx
    simp only [Nat.zero_add] at this
    simp (disch := decide) only [addReg_idx, addReg_c, upd_ne] at this ⊢
    exact this
  · have := hp.cf
    simp only at this
    simp only [addReg_c, upd_same, this]

theorem sub_run_spec (la lb n : Nat) (hn : 1 ≤ n) (hnB : n < B) (hB : la < B)
    (hla : NB.Gen.P.subBlk.w * n ≤ la) (hlb : NB.Gen.P.subBlk.w * n ≤ lb)
    (regs : Nat → Nat) (cf zf : Bool) (a b : Nat → Nat) (hidx : regs subReg_idx = 0) (hsize : regs subReg_size = n) :
    ∃ s', run (subCfg la lb) subProg (n + 1) ⟨regs, cf, zf, a, b⟩ = some s' ∧
      s'.a = (chainSub a b false 0 (NB.Gen.P.subBlk.w * n)).1 ∧ s'.b = b ∧
      s'.regs subReg_idx = NB.Gen.P.subBlk.w * n ∧
      s'.regs subReg_c = b2n (chainSub a b false 0 (NB.Gen.P.subBlk.w * n)).2 := by
  unfold run
  rw [sub_prog_shape]
  have hpre : subLoop.pre = [Instr.clc] := by decide
  have hpost : subLoop.post = [Instr.setc subReg_c, Instr.clc] := by decide
  simp only [hpre, hpost]
  rw [exec_clc, exec_nil]
  obtain ⟨s2, he, hp⟩ := loop_spec (subCfg la lb) subLoop.body subReg_idx subReg_size NB.Gen.P.subBlk.w chainSub
    chainSub_add (fun regs cf zf a b i hi h1 h2 => sub_body_spec la lb regs cf zf a b i hi h1 h2 hB)
    n hn hnB regs false zf a b 0 hidx hsize (by simpa [addCfg, subCfg] using hla) (by simpa [addCfg, subCfg] using hlb) (n + 1) (by omega)
  simp only [he]
  obtain ⟨regs2, cf2, zf2, a2, b2⟩ := s2
  rw [exec_setc (by asm_side) (by asm_side), exec_clc, exec_nil]
  refine ⟨_, rfl, hp.a, hp.b, ?_, ?_⟩
  · have := hp.idx
    simp only [Nat.zero_add] at this
    simp (disch := decide) only [subReg_idx, subReg_c, upd_ne] at this ⊢
    exact this
  · have := hp.cf
    simp only at this
    simp only [subReg_c, upd_same, this]

/-- writes are confined: nothing outside `[0, w*n)` of `a` changes -/
theorem add_run_confined (f g : Nat → Nat) (c : Bool) (m j : Nat) (h : m ≤ j) :
    (chainAdd f g c 0 m).1 j = f j := chainAdd_outside f g c 0 m j (by omega)
theorem sub_run_confined (f g : Nat → Nat) (c : Bool) (m j : Nat) (h : m ≤ j) :
    (chainSub f g c 0 m).1 j = f j := chainSub_outside f g c 0 m j (by omega)

/-! ### list level: the routine computes exactly the `adcZip` / `sbbZip` chain (C01 tier B) -/

theorem range_map_memOf (l : List Nat) : (List.range l.length).map (memOf l) = l := by
  apply List.ext_getElem
  · simp
  · intro i h1 h2
    simp only [List.getElem_map, List.getElem_range]
    exact memOf_lt (by simpa using h2)

theorem map_upd_range (f : Nat → Nat) (len n v : Nat) :
    (List.range len).map (upd f n v) = ((List.range len).map f).set n v := by
  apply List.ext_getElem
  · simp
  · intro i h1 h2
    simp only [List.getElem_map, List.getElem_range, List.getElem_set, upd]
    by_cases h : i = n
    · simp [h]
    · have : ¬ n = i := fun e => h e.symm
      simp [h, this]

theorem adcI_fst (c : Bool) (x y : Nat) : (adcI c x y).1 = (adc (b2n c) x y).1 := rfl
theorem adcI_snd (c : Bool) {x y : Nat} (hx : x < B) (hy : y < B) : b2n (adcI c x y).2 = (adc (b2n c) x y).2 := by
  unfold adcI adc b2n
  simp only
  have hc : (if c then 1 else 0 : Nat) ≤ 1 := by split <;> omega
  by_cases h : B ≤ x + y + (if c then 1 else 0)
  · simp only [h, decide_true, if_true]
    have : (x + y + if c then 1 else 0) / B = 1 := by
      apply Nat.div_eq_of_lt_le <;> omega
    omega
  · simp only [h, decide_false]
    have : (x + y + if c then 1 else 0) / B = 0 := Nat.div_eq_of_lt (by omega)
    simp [this]

theorem sbbI_fst (c : Bool) (x y : Nat) : (sbbI c x y).1 = (sbb (b2n c) x y).1 := by
  unfold sbbI sbb; split <;> rfl
theorem sbbI_snd (c : Bool) (x y : Nat) : b2n (sbbI c x y).2 = (sbb (b2n c) x y).2 := by
  unfold sbbI sbb b2n
  by_cases h : y + (if c then 1 else 0) ≤ x
  · have : ¬ x < y + (if c then 1 else 0) := by omega
    simp [h, this]
  · have : x < y + (if c then 1 else 0) := by omega
    simp [h, this]

theorem take_succ_getElem (l : List Nat) (n : Nat) (h : n < l.length) : l.take (n + 1) = l.take n ++ [l[n]] := by
  rw [List.take_succ_eq_append_getElem h]

/-- the memory-function chain on two lists is the list chain `adcZip` on the first `n` digits -/
theorem chainAdd_list (a b : List Nat) (c : Bool) (n : Nat) (hna : n ≤ a.length) (hnb : n ≤ b.length)
    (ha : DigitsOk a) (hb : DigitsOk b) :
    (List.range a.length).map (chainAdd (memOf a) (memOf b) c 0 n).1 =
        (adcZip (b2n c) (a.take n) (b.take n)).1 ++ a.drop n ∧
    b2n (chainAdd (memOf a) (memOf b) c 0 n).2 = (adcZip (b2n c) (a.take n) (b.take n)).2 := by
  induction n with
  | zero => simp [chainAdd, adcZip, range_map_memOf]
  | succ n ih =>
    obtain ⟨ih1, ih2⟩ := ih (by omega) (by omega)
    have hla : n < a.length := by omega
    have hlb : n < b.length := by omega
    have htl : (a.take n).length = (b.take n).length := by simp [List.length_take]; omega
    have hz := adcZip_append (a.take n) (b.take n) [a[n]] [b[n]] (b2n c) htl
    rw [take_succ_getElem a n hla, take_succ_getElem b n hlb, hz]
    simp only [chainAdd, Nat.zero_add]
    have hzl : (adcZip (b2n c) (a.take n) (b.take n)).1.length = n := by
      have hc : b2n c ≤ 1 := by unfold b2n; split <;> omega
      have := (adcZip_spec (a.take n) (b.take n) (b2n c) htl (ha.take _) (hb.take _) hc).2.1
      rw [this]; simp [List.length_take]; omega
    have hma : memOf a n = a[n] := memOf_lt hla
    have hmb : memOf b n = b[n] := memOf_lt hlb
    have han : a[n] < B := ha _ (List.getElem_mem hla)
    have hbn : b[n] < B := hb _ (List.getElem_mem hlb)
    rw [hma, hmb]
    constructor
    · rw [map_upd_range, ih1]
      simp only [adcZip]
      rw [List.set_append_right _ _ (by omega), hzl, Nat.sub_self, adcI_fst, ih2]
      have hd : a.drop n = a[n] :: a.drop (n + 1) := List.drop_eq_getElem_cons hla
      rw [hd, List.set_cons_zero, List.append_assoc]
      rfl
    · simp only [adcZip]
      rw [adcI_snd _ han hbn, ih2]

theorem chainSub_list (a b : List Nat) (c : Bool) (n : Nat) (hna : n ≤ a.length) (hnb : n ≤ b.length)
    (ha : DigitsOk a) (hb : DigitsOk b) :
    (List.range a.length).map (chainSub (memOf a) (memOf b) c 0 n).1 =
        (sbbZip (b2n c) (a.take n) (b.take n)).1 ++ a.drop n ∧
    b2n (chainSub (memOf a) (memOf b) c 0 n).2 = (sbbZip (b2n c) (a.take n) (b.take n)).2 := by
  induction n with
  | zero => simp [chainSub, sbbZip, range_map_memOf]
  | succ n ih =>
    obtain ⟨ih1, ih2⟩ := ih (by omega) (by omega)
    have hla : n < a.length := by omega
    have hlb : n < b.length := by omega
    have htl : (a.take n).length = (b.take n).length := by simp [List.length_take]; omega
    have hz := sbbZip_append (a.take n) (b.take n) [a[n]] [b[n]] (b2n c) htl
    rw [take_succ_getElem a n hla, take_succ_getElem b n hlb, hz]
    simp only [chainSub, Nat.zero_add]
    have hzl : (sbbZip (b2n c) (a.take n) (b.take n)).1.length = n := by
      have hc : b2n c ≤ 1 := by unfold b2n; split <;> omega
      have := (sbbZip_spec (a.take n) (b.take n) (b2n c) htl (ha.take _) (hb.take _) hc).2.1
      rw [this]; simp [List.length_take]; omega
    have hma : memOf a n = a[n] := memOf_lt hla
    have hmb : memOf b n = b[n] := memOf_lt hlb
    rw [hma, hmb]
    constructor
    · rw [map_upd_range, ih1]
      simp only [sbbZip]
      rw [List.set_append_right _ _ (by omega), hzl, Nat.sub_self, sbbI_fst, ih2]
      have hd : a.drop n = a[n] :: a.drop (n + 1) := List.drop_eq_getElem_cons hla
      rw [hd, List.set_cons_zero, List.append_assoc]
      rfl
    · simp only [sbbZip]
      rw [sbbI_snd, ih2]

def addRegs : Regs := ⟨addReg_size, addReg_a, addReg_b, addReg_c, addReg_idx⟩
def subRegs : Regs := ⟨subReg_size, subReg_a, subReg_b, subReg_c, subReg_idx⟩

/-- REFINEMENT (what NB.add2c assumes about the asm routine): called like the Rust wrapper on
    slices of `size` digits, the generated add program returns carry, `idx = w * (size / d)` and
    the digits of the `adcZip` chain on that prefix, and never faults -/
theorem asm_add_refines (a b : List Nat) (size : Nat) (hsa : size ≤ a.length) (hsb : size ≤ b.length)
    (hB : a.length < B) (ha : DigitsOk a) (hb : DigitsOk b) :
    call addProg addRegs addDiv a b size =
      some (decide ((adcZip 0 (a.take (NB.Gen.P.addBlk.done size)) (b.take (NB.Gen.P.addBlk.done size))).2 > 0),
            NB.Gen.P.addBlk.done size,
            (adcZip 0 (a.take (NB.Gen.P.addBlk.done size)) (b.take (NB.Gen.P.addBlk.done size))).1
              ++ a.drop (NB.Gen.P.addBlk.done size)) := by
  have hv := gen_params_valid_addsub.1
  have hdone := blk_done_le _ hv size
  unfold call
  have hd : NB.Gen.P.addBlk.d = addDiv := rfl
  by_cases hn : size / addDiv = 0
  · have : NB.Gen.P.addBlk.done size = 0 := by simp [Blk.done, hd, hn]
    simp [hn, this, adcZip]
  · simp only [hn, if_false]
    have hdn : NB.Gen.P.addBlk.done size = NB.Gen.P.addBlk.w * (size / addDiv) := rfl
    obtain ⟨s', he, h1, h2, h3, h4⟩ := add_run_spec a.length b.length (size / addDiv) (Nat.pos_of_ne_zero hn)
      (lt_of_le_of_lt (Nat.div_le_self size addDiv) (by omega)) hB (by rw [← hdn]; omega) (by rw [← hdn]; omega)
      (initSt addRegs (size / addDiv) a b).regs false false (memOf a) (memOf b)
      (by simp [initSt, addRegs, upd]) (by simp (disch := decide) [initSt, addRegs, upd_ne, upd, addReg_size, addReg_idx])
    have hcfg : (⟨addRegs.a, addRegs.b, a.length, b.length⟩ : Cfg) = addCfg a.length b.length := rfl
    have hinit : initSt addRegs (size / addDiv) a b =
        ⟨(initSt addRegs (size / addDiv) a b).regs, false, false, memOf a, memOf b⟩ := rfl
    rw [hcfg, hinit, he]
    obtain ⟨l1, l2⟩ := chainAdd_list a b false (NB.Gen.P.addBlk.done size) (by omega) (by omega) ha hb
    have hb0 : b2n false = 0 := rfl
    rw [hb0] at l1 l2
    rw [← hdn] at h1 h3 h4
    simp only [Option.some.injEq, Prod.mk.injEq]
    refine ⟨?_, h3, ?_⟩
    · show decide (s'.regs addReg_c > 0) = _
      rw [h4, ← l2]
    · rw [h1]; exact l1

theorem asm_sub_refines (a b : List Nat) (size : Nat) (hsa : size ≤ a.length) (hsb : size ≤ b.length)
    (hB : a.length < B) (ha : DigitsOk a) (hb : DigitsOk b) :
    call subProg subRegs subDiv a b size =
      some (decide ((sbbZip 0 (a.take (NB.Gen.P.subBlk.done size)) (b.take (NB.Gen.P.subBlk.done size))).2 > 0),
            NB.Gen.P.subBlk.done size,
            (sbbZip 0 (a.take (NB.Gen.P.subBlk.done size)) (b.take (NB.Gen.P.subBlk.done size))).1
              ++ a.drop (NB.Gen.P.subBlk.done size)) := by
  have hv := gen_params_valid_addsub.2
  have hdone := blk_done_le _ hv size
  unfold call
  have hd : NB.Gen.P.subBlk.d = subDiv := rfl
  by_cases hn : size / subDiv = 0
  · have : NB.Gen.P.subBlk.done size = 0 := by simp [Blk.done, hd, hn]
    simp [hn, this, sbbZip]
  · simp only [hn, if_false]
    have hdn : NB.Gen.P.subBlk.done size = NB.Gen.P.subBlk.w * (size / subDiv) := rfl
    obtain ⟨s', he, h1, h2, h3, h4⟩ := sub_run_spec a.length b.length (size / subDiv) (Nat.pos_of_ne_zero hn)
      (lt_of_le_of_lt (Nat.div_le_self size subDiv) (by omega)) hB (by rw [← hdn]; omega) (by rw [← hdn]; omega)
      (initSt subRegs (size / subDiv) a b).regs false false (memOf a) (memOf b)
      (by simp [initSt, subRegs, upd]) (by simp (disch := decide) [initSt, subRegs, upd_ne, upd, subReg_size, subReg_idx])
    have hcfg : (⟨subRegs.a, subRegs.b, a.length, b.length⟩ : Cfg) = subCfg a.length b.length := rfl
    have hinit : initSt subRegs (size / subDiv) a b =
        ⟨(initSt subRegs (size / subDiv) a b).regs, false, false, memOf a, memOf b⟩ := rfl
    rw [hcfg, hinit, he]
    obtain ⟨l1, l2⟩ := chainSub_list a b false (NB.Gen.P.subBlk.done size) (by omega) (by omega) ha hb
    have hb0 : b2n false = 0 := rfl
    rw [hb0] at l1 l2
    rw [← hdn] at h1 h3 h4
    simp only [Option.some.injEq, Prod.mk.injEq]
    refine ⟨?_, h3, ?_⟩
    · show decide (s'.regs subReg_c > 0) = _
      rw [h4, ← l2]
    · rw [h1]; exact l1

/-- the u64-as-u32 view used by `gen_biguint`: `⌈n/32⌉` u32 words always fit in `⌈n/64⌉` u64 digits -/
theorem rand_view_fits (n : Nat) : (n + 31) / 32 ≤ 2 * ((n + 63) / 64) := by omega

/- non-vacuity -/
example : call addProg addRegs addDiv [B - 1, B - 1, B - 1, B - 1, B - 1, 7] [1, 0, 0, 0, 0, 9] 6
    = some (true, 5, [0, 0, 0, 0, 0, 7]) := by decide

end NB.Asm
