/-
  NB.Model.Shift — model of src/biguint/shift.rs (`biguint_shl`, `biguint_shl2`, `biguint_shr`,
  `biguint_shr2`) and src/bigint/shift.rs (`shr_round_down`, `Shl`/`Shr`/`ShlAssign`/`ShrAssign`
  for `BigInt`).

  The shift amount `shift : Int` is the mathematical value of the primitive argument (any of
  u8…u128, usize, i8…i128, isize); the generic code only looks at its sign, at `shift / 64`
  converted `to_usize`, at `shift % 64` and (for `shr_round_down`) at `shift.to_u64()`.
-/
import NB.Base
import NB.Model.AddSub
import NB.Model.Bits
namespace NB.C07

/-- number of values of `usize` / `u64` on the modelled 64-bit target -/
def USIZE_RANGE : Nat := B
def U64_RANGE : Nat := B

/-- the `for elem in data[digits..].iter_mut()` loop of `biguint_shl2` (`0 < shift < 64`):
    `new_carry = *elem >> (64 - shift); *elem = (*elem << shift) | carry` -/
def shlLoop (shift : Nat) : Nat → List Nat → List Nat × Nat
  | carry, [] => ([], carry)
  | carry, e :: es =>
    let newCarry := e >>> (BITS - shift)
    let e' := ((e <<< shift) % B) ||| carry
    let r := shlLoop shift newCarry es
    (e' :: r.1, r.2)

/-- `biguint_shl2(n, digits, shift)` -/
def biguintShl2 (n : List Nat) (digits shift : Nat) : List Nat :=
  let data := if digits = 0 then n else List.replicate digits 0 ++ n
  let data :=
    if shift > 0 then
      let r := shlLoop shift 0 (data.drop digits)
      let d := data.take digits ++ r.1
      if r.2 ≠ 0 then d ++ [r.2] else d
    else data
  normalize data

/-- `biguint_shl(n, shift)` for any primitive shift type -/
def biguintShl (n : List Nat) (shift : Int) : Except Panic (List Nat) :=
  if shift < 0 then .error .negshift else
  if n = [] then .ok n else
  let digits := shift.toNat / BITS
  if digits ≥ USIZE_RANGE then .error .capacity else   -- `.to_usize().expect("capacity overflow")`
  .ok (biguintShl2 n digits (shift.toNat % BITS))

/-- the `for elem in data.iter_mut().rev()` loop of `biguint_shr2` (`0 < shift < 64`), as a
    recursion from the top digit down: returns the new digits and the borrow handed to the digit
    below (`new_borrow = *elem << (64 - shift); *elem = (*elem >> shift) | borrow`) -/
def shrLoop (shift : Nat) : List Nat → List Nat × Nat
  | [] => ([], 0)
  | e :: es =>
    let r := shrLoop shift es
    (((e >>> shift) ||| r.2) :: r.1, (e <<< (BITS - shift)) % B)

/-- `biguint_shr2(n, digits, shift)` -/
def biguintShr2 (n : List Nat) (digits shift : Nat) : List Nat :=
  if digits ≥ n.length then [] else
  let data := n.drop digits
  let data := if shift > 0 then (shrLoop shift data).1 else data
  normalize data

/-- `biguint_shr(n, shift)` for any primitive shift type -/
def biguintShr (n : List Nat) (shift : Int) : Except Panic (List Nat) :=
  if shift < 0 then .error .negshift else
  if n = [] then .ok n else
  let q := shift.toNat / BITS
  let digits := if q < USIZE_RANGE then q else USIZE_RANGE - 1   -- `.to_usize().unwrap_or(usize::MAX)`
  .ok (biguintShr2 n digits (shift.toNat % BITS))

/-- `impl Shl<T> for &BigInt`: `BigInt::from_biguint(self.sign, &self.data << rhs)` -/
def BigInt.shl (x : BigInt) (shift : Int) : Except Panic BigInt :=
  (biguintShl x.mag shift).map (BigInt.fromBiguint x.sign)

/-- `impl ShlAssign<T> for BigInt`: `self.data <<= rhs` (the sign is not touched) -/
def BigInt.shlAssign (x : BigInt) (shift : Int) : Except Panic BigInt :=
  (biguintShl x.mag shift).map (fun d => ⟨x.sign, d⟩)

/-- `shr_round_down(i, shift)` -/
def shrRoundDown (x : BigInt) (shift : Int) : Except Panic Bool :=
  if x.sign = .minus then
    match trailingZerosU x.mag with
    | none => .error (.internal "negative values are non-zero")
    | some zeros =>
      .ok (decide (shift > 0) &&
           (if 0 ≤ shift ∧ shift < U64_RANGE then decide ((zeros : Int) < shift) else true))
  else .ok false

/-- `impl Shr<T> for &BigInt` -/
def BigInt.shr (P : Params) (x : BigInt) (shift : Int) : Except Panic BigInt := do
  let roundDown ← shrRoundDown x shift
  let data ← biguintShr x.mag shift
  let data := if roundDown then addAssignU32 P data 1 else data
  pure (BigInt.fromBiguint x.sign data)

/-- `impl ShrAssign<T> for BigInt` -/
def BigInt.shrAssign (P : Params) (x : BigInt) (shift : Int) : Except Panic BigInt := do
  let roundDown ← shrRoundDown x shift
  let data ← biguintShr x.mag shift
  if roundDown then pure ⟨x.sign, addAssignU32 P data 1⟩
  else if data = [] then pure ⟨.nosign, data⟩
  else pure ⟨x.sign, data⟩

end NB.C07
