"""Per-property configuration for tools/check.py."""
import special

COMMON_ASSUME = [
    "64-bit x86_64 target (u64 digits); the 32-bit digit configuration is not modelled",
    "Vec growth/split/truncate semantics, the allocator and ownership are not modelled (values are immutable lists)",
]

PROPS = {
    "C01": {
        "lean": ["NB.Props.C01"],
        "gens": ["c01"],
        "profiles": ["release", "debug"],
        "trusted": ["_addcarry_u64/_subborrow_u64 = adc/sbb on Nat digits (NB.adc, NB.sbb)",
                    "asm block routine modelled as a chained adc/sbb over the first w*(len/d) digits (w from the generated instruction list, d from `size /= d`)"],
        "assumptions": COMMON_ASSUME,
        "level_text": "Theorems addAssign_spec, addRef_spec, subAssign_spec, subRefVal_spec, checkedSub_spec, bigint_add_spec, bigint_sub_spec: for ALL canonical operands (any length, digit content, sign pair) the model of each code path returns exactly the canonical representation of the mathematical sum/difference, and BigUint subtraction fails exactly when a<b. The model is tied to the source by regenerated asm/block parameters (proof obligation gen_params_valid_addsub) and by a 3-way differential run on structured carry/borrow patterns.",
        "level_note": "Trusted: Lean kernel + {propext, Classical.choice, Quot.sound}; adc/sbb intrinsics and the asm block routine are modelled (chained adc/sbb on Nat digits); Vec/ownership not modelled; correspondence strength bounded by the generators.",
    },
}

PROPS["C15"] = {
    "lean": ["NB.Props.C15"],
    "gens": ["c15"],
    "profiles": ["release", "debug"],
    "special": special.c15_special,
    "trusted": ["mini x86 semantics NB.Model.Asm (adc/sbb/inc/dec/jnz/setc/clc on 64-bit registers, two bounded memories)",
                "tools/extract.py translation of the asm! templates into NB.Gen.AsmProg",
                "valgrind memcheck as the observer of real memory accesses"],
    "assumptions": COMMON_ASSUME + ["rustc honours the asm! operand constraints; real memory behaviour is observed (valgrind, exact-size heap blocks), not proved"],
    "level": "proof",
    "level_text": "PARTIAL by nature: proved, for the asm instruction lists regenerated from the source on every run and under my mini x86 semantics, that both inline-asm routines never fault, never store through the borrowed pointer, write only a[0..w*n), return idx=w*n, and compute exactly the adc/sbb chain (asm_add_refines / asm_sub_refines, all sizes, by symbolic execution of one iteration + induction over iterations), and that the callers pass w*(len/d) <= len digits (blk_done_le). Real memory behaviour of the compiled code (operand constraints honoured by rustc, allocator layout, the div instruction, from_utf8_unchecked, the u64-as-u32 view) is OBSERVED, not proved: every request also runs under valgrind memcheck on exact-size heap blocks, borrowed operands are compared with saved copies, text is validated as ASCII within the radix alphabet.",
    "level_note": "Trusted: Lean kernel + {propext, Classical.choice, Quot.sound}; NB.Model.Asm (my x86 subset semantics); tools/extract.py asm! parser; valgrind. The alphabet theorem for to_str_radix belongs to C06, the div_wide precondition to C03.",
    "technique": "Lean 4 symbolic execution proof over translator-generated asm instruction lists + valgrind-observed correspondence run",
}

PROPS["C16"] = {
    "lean": ["NB.Props.C16"],
    "gens": ["c16"],
    "profiles": ["release", "debug"],
    "special": special.c16_special,
    "trusted": ["cargo/rustc as the judge of 'this configuration compiles'",
                "the harness's feature plumbing (harness/Cargo.toml features std/rand/serde forward to num-bigint)"],
    "assumptions": COMMON_ASSUME + ["compile success is observed by exhaustive enumeration of the finite configuration set, not proved"],
    "level": "proof",
    "level_text": "PARTIAL by nature: the model has no feature parameter at all (every model function is configuration-free by construction), and the only feature-conditional computations are (1) Vec capacity estimates in radix output, which are not an input of any model function, and (2) the initial guess of the root iteration, for which the theorem root_config_independent (C11: the result is the floor root for EVERY guess >= 1) gives equality of results across std/no_std. That every documented configuration COMPILES and produces byte-identical transcripts is observed by exhaustive enumeration: cargo check of all 20 feature sets of ci/test_full.sh and harness transcripts (cross-section of all streams, all radix/root cases) across std/no_std x features x debug/release.",
    "level_note": "Trusted: Lean kernel; cargo/rustc; harness feature plumbing. Compile success and transcript identity are exhaustive observations over the finite configuration set.",
    "technique": "Lean 4 configuration-independence theorems + exhaustive enumeration of the finite feature-configuration set (cargo check + byte-identical transcripts)",
    
}

PROPS["C05"] = {
        "lean": ["NB.Props.C05", "NB.Props.C05D"],
        "gens": ["c05"],
        "profiles": ["release", "debug"],
        "trusted": ["u64/u128 wrapping arithmetic and bit operations = Nat arithmetic mod 2^64 and Nat.land/lor/shiftRight on digits < 2^64 (NB.wadd, wsub, wmul, wnot, hdBorrow)",
                    "BigUint operators used inside modpow/modinv (* % div_rem - + cmp <<): NOT trusted any more - NB.Model.ModPowD calls the digit-level operator models of C01-C03/C07 and NB.Props.C05D proves it equal to the value-level model; what remains trusted is the choice of operator form (e.g. `&a - b` = subRefVal, `a + b` = addRef: Vec capacity, which picks the accumulator of val+val, is not modelled)"],
        "assumptions": COMMON_ASSUME,
        "level_text": "Theorems (all sorry-free, none _partial): modpow_spec — for ALL canonical b, e, m with m != 0 the model of BigUint::modpow returns the canonical digits of b^e mod m, on the odd path (monty_modpow_spec: padding, rr, 16-entry table, 4-bit windows from the top, skipped first squarings, conversion out, last reduction; built on montgomery_spec: n-digit operands not necessarily < m, z < B^n and z*B^n = x*y (mod m), with the digit-level lemmas add_mul_vvw_spec, sub_vv_spec (Hacker's-Delight borrow proved arithmetically), inv_mod_alt_spec k*b = -1 (mod 2^64)) and on the even path (plain_modpow_spec: zero-digit skipping, trailing-zero stripping, early exit, last digit); modinv_spec — Some(x) iff gcd(a,m)=1, then x<m and a*x = 1 (mod m), zero modulus panics; bigint_modpow_spec — negative exponent / zero modulus panic, otherwise BigInt.ofInt (Int.fmod (b^e) m); bigint_modinv_spec — Some(y) iff gcd=1, y canonical, in [0,m) resp. (m,0], m | a*y-1. No internal assertion, overflow site or checked subtraction of the model is reachable. The model is tied to the source by the extracted window width (obligation gen_params_valid_monty: window = 4 = the four literal squarings) Layer link (NB.Props.C05D, all sorry-free, none _partial): the driver's model column for u.modpow, i.modpow, u.modinv, i.modinv, u.plain_modpow, u.monty_modpow is the DIGIT-LEVEL model NB.Model.ModPowD (plain_modpow, modpow dispatch, monty_modpow's x %= m / rr = (1 << 128n) % m / final normalize,>=,-=,>=,%=,normalize, BigUint::modinv with its Euclid loop, the BigInt sign placement &modulus.data - result) built from the digit-vector operator models mulRef, mulAssign, remRef, divRemRef, subAssign, subRefVal, addRef, cmpSlice, biguintShl, normalize with every operator panic propagated; refinement theorems plain_modpowD_refines, monty_modpowD_refines, modpowD_refines, modinvD_refines, bigint_modpowD_refines, bigint_modinvD_refines (digit level = value level incl. panics, canonical inputs, P.ValidModPowD = window 4 and C02's thresholds, obligation gen_params_valid_modpowD; odd path: m.length < 2^57 so that the u64 shift amount 2*n*64 does not overflow) transfer the specs: modpowD_spec, plain_modpowD_spec, monty_modpowD_spec, modinvD_spec, bigint_modpowD_spec, bigint_modinvD_spec, *_zero_mod - so no operator panic, no exhausted modinv loop fuel and no shift overflow is reachable. The model is further tied to the source by a 3-way differential run (real crate release+debug vs compiled model vs independent Nat/Int oracle) on structured moduli/bases/exponents/signs plus the internal hooks montgomery (digit-exact and checked mod m / < B^n, exit branch compared through the MONTY_SUB probe) and inv_mod_alt.",
        "level_note": 'Trusted: Lean kernel + {propext, Classical.choice, Quot.sound} (no bv_decide needed); u64/u128 wrapping arithmetic and & | ! >> modelled as Nat arithmetic mod 2^64 and Nat.land/lor/shiftRight; BigUint operators inside modpow/modinv are the digit-level models of C01-C03/C07 (NB.Model.ModPowD, refinement proved in NB.Props.C05D; trusted there: the mapping of each Rust operator form to its model function, val+val accumulator choice by Vec capacity not modelled); Vec/ownership not modelled; correspondence strength bounded by the generators (quick: ~9.8k requests, probes MONTY_SUB/NOSUB/FINAL_SUB all hit).',
    }

PROPS["C09"] = {
    "lean": ["NB.Props.C09"],
    "gens": ["c09"],
    "profiles": ["release", "debug"],
    "trusted": ["u8/u32/u64 primitive operations (<<, >>, |, &, !, wrapping_add, `as` truncation) = the Nat operations with explicit `% 2^width` used in NB.Model.Bytes / NB.Model.Iter",
                "slice::chunks, slice::Iter<u64> (U64Digits), Iterator::nth default (advance_by + next), Iterator::collect = repeated next: modelled from their std semantics",
                "Mathlib Nat.digits / Nat.ofDigits as the definition of positional digits"],
    "assumptions": COMMON_ASSUME,
    "level_text": "Theorems (NB.Props.C09, all sorry-free, none _partial): to_bytes_le_spec/to_bytes_be_spec (output = [0] for zero, else exactly Nat.digits 256 of the value), from_bytes_val + from_bytes_padding (ANY byte slice incl. empty/all-zero/zero-padded -> canonical ofNat(Nat.ofDigits 256 bs)), bytes_round_trip; to_signed_bytes_spec (output decodes to the value as two's complement AND no non-empty encoding is shorter, incl. the -2^(8k-1) exception; BE = reversed LE), from_signed_bytes_val + tcDecode_sign_extend (any 0x00../0xff.. sign-extension padding), signed_bytes_round_trip; u32_digits_spec / u64_digits_spec (= Nat.digits 2^32 / 2^64), new_from_slice_val + from_slice_padding (odd word counts, trailing zero words, any old contents), bigint_import_val / bigint_export_spec (Sign forms, from_biguint canonicalisation); iterator REFINEMENT: abstraction Iter.abs, invariant Iter.Inv, iter_inv_new, iter_abs_new, iter_next_refines, iter_next_back_refines, iter_observers_refine (len/size_hint/count/last), iter_nth_refines, lifted by induction to ALL call sequences: iter32_refines (run32 calls (new d) = specRun calls (Nat.digits 2^32 (val d))), iter64_refines, iter32_no_panic (len never underflows), d3_fixed. Tie: 3-way differential run (real crate / compiled Lean model / Nat-Int oracle) incl. the exhaustive set of all call prefixes of length <= 6 over {next,next_back,nth(1)} x {len,size_hint,last,count} on 8 values.",
    "level_note": 'Trusted: Lean kernel + {propext, Classical.choice, Quot.sound}; fixed-width u8/u32/u64 operators modelled on Nat with explicit truncation; slice::chunks, slice::Iter (U64Digits), default Iterator::nth and collect modelled from std semantics; Vec capacity/size_hint-driven preallocation not modelled; only the 64-bit digit configuration; correspondence strength bounded by the generators (release profile: a usize underflow in len would wrap, the model marks it as a panic outcome and proves it unreachable).',
}

PROPS["C17"] = {
    "lean": ["NB.Props.C17"],
    "gens": ["c17"],
    "profiles": ["release", "debug"],
    "trusted": ["the serde data model: a Serializer is abstracted to the record of serialize_seq(len)/serialize_element/serialize_i8 calls, a Deserializer to a replayed token list with a size hint; serde's own impls for u32, i8 (range check), tuples and slices",
                "Mathlib Nat.digits / Nat.ofDigits as the definition of positional digits"],
    "assumptions": COMMON_ASSUME,
    "level_text": 'Theorems (NB.Props.C17, all sorry-free, none _partial): ser_len (declared length = number of emitted elements, for every digit vector), ser_spec (elements = Nat.digits 2^32 of the value, LSB first, no trailing zero, empty for 0), ser_eq_u32_digits, de_val (ANY u32 list incl. odd length / trailing zeros, any size hint -> canonical ofNat(Nat.ofDigits 2^32 ws)), de_hint_irrelevant (hint only bounds capacity <= 2^17), de_padding, de_ser (round trip), sign_de_reject / sign_de_accept / sign_round_trip, ser_sign_spec, bigint_ser_spec, bigint_de_val (every (sign, sequence) pair -> ofInt(sign * value), canonicalised like from_biguint; invalid sign -> error), bigint_de_canon, bigint_de_ser. Tie: 3-way differential run through a hand-written recording Serializer and token-replay Deserializer (declared length, element list, tuple shape, all 256 sign bytes and out-of-i8 integers, absent/wrong/huge size hints).',
    "level_note": "Trusted: Lean kernel + {propext, Classical.choice, Quot.sound}; the serde data model and serde's own impls for u32, i8 (range check), tuples and empty slices are abstracted (a Serializer = the record of calls, a Deserializer = a replayed token list with a size hint); ill-typed token streams (elements that are not u32) are out of scope; only the 64-bit digit configuration; correspondence strength bounded by the generators.",
}

PROPS["C10"] = {
    "lean": ["NB.Props.C10", "NB.Props.C10D"],
    "gens": ["c10"],
    "profiles": ["release", "debug"],
    "special": lambda ctx: __import__("c10").special(ctx),
    "trusted": ["layering of the + - * / % scalar forms is PROVED, not trusted: NB.Model.ScalarD re-states every leaf on digit vectors through the digit-level add/sub/mul/div/convert/cmp models and NB.Props.C10D proves it equal to the value-level leaf (dUScalarForm_refines, dIScalarForm_refines, dRemAssignScalar_spec); the driver's model column for these forms is the digit-level model. Still value-level (Nat/Int arithmetic for the BigUint operators): scalar shifts, Pow, and the big-by-big items of Sum/Product",
                "primitive integer semantics: `as` casts wrap modulo 2^N, wrapping_neg, unsigned_abs, `%` on primitives truncates (NB.castTo, NB.wrappingNeg, Int.tmod)",
                "the in-process form matrix of harness/src/c10.rs (1350 forms, each compared with the ref/ref big-by-big operation on converted operands)"],
    "assumptions": COMMON_ASSUME + ["usize/isize are 64 bits wide (UsizePromotion = u64, IsizePromotion = i64)",
                                    "left shifts and powers whose result would not fit in memory are not exercised (only the documented capacity panics and zero/one bases)"],
    "level": "proof",
    "technique": "Lean 4 proofs about a value-level model of the scalar leaf impls and promotion layer, refined by a digit-level model of the same leaves (+ - * / %) + rustc-checked in-process form matrix (1350 forms) with 3-way differential run",
    "level_text": "Leaf scalar semantics proved in Lean: theorems uScalarForm_spec / iScalarForm_spec (every BigUint/BigInt + - * / % form with a primitive scalar of any of the 12 types in any of the three positions, through the promotion cast and the leaf impl's sign/cmp/checked_uabs/digit-count case analysis, equals the canonical big-by-big operation on the losslessly converted scalar, as value or panic class, for EVERY value of the scalar type), uabs_spec (incl. MIN), remAssignScalar_spec (scalar %= BigUint, true also at iN::MIN and 2^(N-1)), shift specs (negative amount panics, BigInt >> rounds toward minus infinity), pow and Sum/Product folds. One layer down (NB.Props.C10D): the same leaves on digit vectors (scalar_mul / mul3 with the two-digit operand, div_rem_digit / rem_digit, From + div_rem, the digit-count match of scalar / big, impl_rem_assign_scalar through the digit-level to_T, the BigInt sign/cmp_slice/checked_uabs matches over them) are proved to refine the value-level leaves, so dUScalarForm_spec / dIScalarForm_spec state the same headline for the digit-level model that the driver runs. The val/ref permutations, compound-assignment forwarding and the capacity-driven operand choice do not exist in the immutable model: they are tied ONLY by the in-process form matrix (each of the 1350 rustc-checked forms run on structured operands and compared with the ref/ref operation, with the value-level model and with the Int oracle).",
    "level_note": "Trusted: Lean kernel + {propext, Classical.choice, Quot.sound}; value-level layering over C01-C03/C07 operator theorems; primitive cast/neg/rem semantics; val/ref/assign permutations and buffer reuse covered by differential execution only, strength bounded by the generators.",
}

PROPS["C18"] = {
        "lean": ["NB.Props.C18"],
        "gens": ["c18"],
        "profiles": ["release", "debug"],
        "trusted": ["the RNG is a tape of u32 words: rand 0.8.8 `Rng::fill(&mut [u32])` stores the next k words of the `next_u32` stream in order (try_fill_bytes on the 4k bytes + to_le; fill_bytes_via_next / next_u64_via_u32 low word first; little-endian target; nothing for k = 0) and `gen::<bool>()` is `(next_u32() as i32) < 0` (read from the pinned rand-0.8.8 / rand_core-0.6.4 sources; exercised by every correspondence run through the harness's tape RngCore)",
                    "a `[u64]` buffer viewed through `as *mut u32` on a little-endian target = pairs (lo, hi) of words (NB.Rand.packWords)",
                    "BigUint/BigInt `+`/`-` of the range forms go through the C01 model and theorems; `impl Ord for BigInt` / `cmp_slice` debug assertions (operands canonical) are hypotheses, not modelled",
                    "constants 32 / 32 / 64 of gen_bits / gen_biguint are re-extracted by tools/extract.py (NB.Gen.randShift, randDiv, randNative; obligation gen_rand_params_valid)"],
        "assumptions": COMMON_ASSUME + ["bit sizes whose digit vector can be allocated (`to_usize().expect(\"capacity overflow\")` cannot fail on 64-bit targets; allocation failure not modelled)",
                                         "an RNG whose fill_bytes is not the next_u32 stream in order (e.g. block RNGs with their own fill_bytes) is covered only through the statement 'gen_biguint is this function of the words fill() delivers'"],
        "level_text": "Theorems over the model of src/bigrand.rs (64-bit digits) for EVERY tape of u32 words, every bit size, every canonical bound/range: gen_biguint_spec (value = first ceil(n/32) words as base-2^32 digits, top word >> (32 - n%32); exact consumption; never panics), gen_biguint_bound (< 2^n, canonical), gen_biguint_uniform_left/right/inj (words <-> (value, discarded bits) is a bijection with explicit inverse), below_spec + below_first (first candidate of width bits(bound) that is < bound; exhausted iff none), biguint_range_spec, bigint_range_spec (all three branches), uniform_u_spec, uniform_i_spec (new / new_inclusive + sample), sample_single_*_spec, *_mem (results in [lo,hi) / [lo,hi]), gen_bigint_spec/_first/_bound (sign word, zero redraw, (-2^n, 2^n)), random_bits_*_spec, *_panic_iff (panic exactly for zero bound / empty / inverted range), *_no_internal (loop fuel and internal assertions unreachable). Tied to the source by re-extracted constants and a 3-way differential run (real crate release+debug vs compiled model vs Nat/Int oracle, including exact word consumption) on structured tapes.",
        "level_note": "Trusted: Lean kernel + {propext, Classical.choice, Quot.sound}; the word-tape encoding of rand 0.8.8's fill / gen::<bool> (read from source, exercised by the harness RngCore); little-endian u64-as-u32 view; C01 operator theorems for the range arithmetic; Vec/allocation/capacity not modelled; correspondence strength bounded by the generators.",
    }

PROPS["C06"] = {
        "lean": ["NB.Props.C06"],
        "gens": ["c06"],
        "profiles": ["release", "debug"],
        "special": special.compose(lambda ctx: __import__("c06").special(ctx), special.nostd_special),
        "trusted": ["core::fmt::Formatter::pad_integral modelled from std's source (NB.Radix.padIntegral); cross-checked in-process against std's own formatting of u128/i128",
                    "core::str::from_utf8 modelled as the Unicode table 3-7 automaton (NB.Radix.utf8Valid)",
                    "general-radix OUTPUT path (to_radix_digits_le): digit level throughout — div_rem_digit, div_rem_ref (Knuth D), mulRef (mac3), cmp_slice are the C02/C03 models on digit vectors (NB.Model.RadixD, run by the driver; refinement theorems to_radix_le_refines & co. under P.ValidMul); the value-level NB.Model.Radix version is the intermediate layer of the proof only",
                    "general-radix INPUT path: the Horner loop is on the digit vector (mac_with_carry sweep + add2); chunk and loop structure, u8/u64 truncations as in the source"],
        "assumptions": COMMON_ASSUME,
        "level_text": "Theorems to_radix_le_spec/_outcome, to_radix_be_spec, bigint_to_radix_le_spec, from_radix_le_spec/_outcome, from_radix_be_spec, bigint_from_radix_spec, from_to_radix, to_from_radix, to_str_spec, bigint_to_str_spec, to_str_alphabet, from_str_radix_u_spec, from_str_radix_i_spec, parse_iff_u, parse_iff_i, parse_bytes_u_spec, parse_bytes_i_spec, parse_to_str_u, parse_to_str_i, fmt_triple_spec, radix_base_spec, big_chunk_spec, horner_step_exact: for ALL canonical values, ALL radices and ALL byte strings / digit slices the model of every code path (exact- and inexact-width bit regrouping, chunked Horner input on the digit vector, chunked division output incl. the big-base super-chunk path for every threshold, sign/underscore/digit validation, UTF-8 gate) returns exactly Nat.digits / the canonical value of Nat.ofDigits / the denotation of the grammar, errors exactly for ill-formed input, panics exactly for a radix outside 2..=36 / 2..=256, and parsing emitted text returns the original value. LAYER LINK: the driver's model column runs the digit-level definition NB.Model.RadixD (to_radix_digits_le on digit vectors with divRemDigit / divRemRef / Mul.mulRef / cmpSlice, every operator panic propagated, both while-loops fuelled with BITS*len iterations); to_radix_digits_le_refines, to_radix_le_refines, bigint_to_radix_refines, format_refines, slow_loop_refines, square_loop_refines, big_loop_refines, radix_fuel_sufficient prove it equal to the value-level model on canonical operands for every P with P.ValidMul, and to_radix_leD_spec/_outcome, to_radix_beD_spec, bigint_to_radixD_spec, big_chunkD_spec, from_to_radixD, to_from_radixD, to_strD_spec, bigint_to_strD_spec, to_strD_outcome, parse_to_strD_u/i, fmt_tripleD_spec, formatD_spec, to_radixD_no_internal, gen_to_radix_leD_spec, gen_to_strD_spec, gen_formatD_spec, drv_model_is_digit_level, drv_model_column_spec restate the output theorems about it and about the driver's model column (no operator panic, assertion or fuel exhaustion reachable). Nothing is _partial. The model is tied to the source by the regenerated big-base threshold and a 3-way differential run (release and debug profiles) over all radices, chunk-length residues, 63/64/65-digit values, grammar-aware text mutants and a 40-entry format table that the harness also cross-checks against std's own u128/i128 formatting.",
        "level_note": "Trusted: Lean kernel + {propext, Classical.choice, Quot.sound}; Formatter::pad_integral and str::from_utf8 are modelled from std (not proved); div_rem_digit, div_rem, BigUint squaring and comparison inside to_radix_digits_le are the digit-level C02/C03 models (NB.Model.RadixD, proved equal to the value-level layer under P.ValidMul = C02's obligation gen_params_valid_mul); usize overflow of big_power and the Vec capacity estimate are not modelled; Vec/ownership not modelled; correspondence strength bounded by the generators (probe RADIX_BIGBASE hit is enforced).",
    }

PROPS["C08"] = {
        "lean": ["NB.Props.C08"],
        "gens": ["c08"],
        "profiles": ["release", "debug"],
        "trusted": ["u64 as f32/f64 = round-to-nearest-even (NB.Conv.castU64); 2.0.powi(e) exact or +inf; multiplying a normal float by a power of two only moves the exponent or overflows to +inf (NB.Conv.fmulPow2)",
                    "f64::trunc, integer_decode_f64 (num-traits 0.2.19), f64::from(f32) modelled on bit patterns (NB.Conv.truncBits, integerDecode, f32ToF64)",
                    "num-traits 0.2.19 ToPrimitive/FromPrimitive defaults and impl_to_primitive_* macros modelled from their source (NB.Conv.primTo)",
                    "BigUint <<= / >>= inside from_f64 modelled at value level (operators are C07's subject)"],
        "assumptions": COMMON_ASSUME + ["usize/isize are 64 bits wide"],
        "level_text": "Theorems (NB.Props.C08, all full strength, none _partial) about the model of convert.rs/num-traits defaults: biguint_to_spec / bigint_to_spec — for ALL canonical values and all 12 primitive types x.to_T() is Some(v) exactly when T::MIN<=v<=T::MAX (MIN edges included) and no overflow site is reachable; *_try_into_spec, biguint_try_from_bigint_spec — TryFrom returns Ok(v) iff it fits, else Err carrying exactly the original; *_from_val / *_fromPrim_val — From/FromPrimitive/TryFrom<iN>/ToBig* give the canonical value, negative into BigUint fails; high_bits_spec — high_bits_to_u64 = floor(v/2^s) | [v mod 2^s != 0]; round_to_odd_rne — the double-rounding lemma (needs >= 2 guard bits); to_float_spec (to_f64_spec, to_f32_spec, bigint_to_float_spec) — the returned bit pattern is the IEEE encoding of v rounded to nearest-even, +-inf exactly when the rounded value >= 2^MAX_EXP; rneNat_repr / rneNat_nearest / rneNat_tie_even / encode_denotes / to_from_f64_roundtrip — the spec functions mean 'nearest representable, ties to even' and the pattern denotes that value; fromF64_spec, fromF32_spec, bigint_from_f64_spec, bigint_from_f32_spec — None for NaN/inf (and values <= -1 into BigUint), otherwise truncation toward zero (-0.0 and (-1,0) give 0); drv_oracle_* — the driver's independently written oracles equal these specs. Tied to the source by a 3-way differential run (real crate vs compiled model vs oracle) on every type x boundary value, tie/half+-1ulp mantissa patterns with the deciding bit up to 40 digits down, overflow thresholds, every f32 exponent and structured/random f64 patterns.",
        "level_note": 'Trusted: Lean kernel + {propext, Classical.choice, Quot.sound}; hardware float behaviour is MODELLED not verified: u64 as f32/f64 is round-to-nearest-even, 2.0.powi(e) exact, multiplication by 2^e exact or +inf, f64::trunc, integer_decode_f64, f64::from(f32) (the harness additionally cross-checks u128/i128 `as` casts in-process); num-traits 0.2.19 defaults modelled from source; BigUint <<= / >>= inside from_f64 at value level (C07); usize/isize = 64 bit; correspondence strength bounded by the generators. Finding D7 (sticky bit of digits 3+ lost in high_bits_to_u64, to_f64(2^128+2^75+2) mis-rounded) was found by this property and is fixed in /repo d40f68d; the model mirrors the fixed line.',
    }

PROPS["C03"] = {
        "lean": ["NB.Props.C03"],
        "gens": ["c03"],
        "profiles": ["release", "debug"],
        "trusted": ["x86 `div` instruction = exact 128/64 division when hi < divisor, #DE otherwise (NB.divWide)",
                    "u64::leading_zeros = 64 - bit length (NB.leadingZeros); u128 temporaries modelled as Nat with explicit wrap checks",
                    "BigUint::to_u32 / BigInt::to_u32 / to_i32 (fast path of Rem) modelled from num-traits defaults (NB.toU32, BigInt.toU32, BigInt.toI32Abs)"],
        "assumptions": COMMON_ASSUME,
        "level_text": "Theorems div_rem_spec, div_rem_val_spec, divRef/remRef/modFloor/divCeil/checked*_spec (BigUint) and bigint_divRem/div/rem/divFloor/modFloor/divModFloor/divCeil/divEuclid/remEuclid/divRemEuclid/checked*_spec (BigInt): for ALL canonical operands (any lengths, digit contents, normalisation shifts, all sign pairs) the model of each code path returns exactly the canonical representation of Nat / %, Int.tdiv/tmod, Int.fdiv/fmod, Euclidean Int / %, resp. the ceiling; a zero divisor gives `attempt to divide by zero` for every unchecked form and None for every checked form; no internal failure site (#DE of div, u128/u64 wrap in sub_mul_digit_same_len, the debug assertions of div_rem_core, unreachable!()) is reachable. Knuth algorithm D is proved in full (div_rem_core_spec via submul_spec, qhat_ge_init, qhat_ge_loop, qhat_le, step_spec, addback_iff, core_step_spec); trunc/floor/euclid_unique + cdiv_char show each spec function is the unique (q,r) of its convention. The model is tied to the source by a 3-way differential run (real crate / compiled model / Nat-Int oracle) on constructed add-back, a0==b0, off-by-one and off-by-two estimate windows at core level and through the public API at every normalisation shift.",
        "level_note": "Trusted: Lean kernel + {propext, Classical.choice, Quot.sound}; the x86 div instruction, u64::leading_zeros, u128 arithmetic and the num-traits to_u32/to_i32 defaults are modelled, not verified; div_half (non-x86 path) is not modelled; Vec/ownership not modelled; correspondence strength bounded by the generators (probe counters DIV_A0_EQ_B0, DIV_CORR, DIV_ADDBACK, DIV_CORE are all hit by the quick tier).",
    }

PROPS["C07"] = {
        "lean": ["NB.Props.C07"],
        "gens": ["c07"],
        "profiles": ["release", "debug"],
        "trusted": ["u64 intrinsics leading_zeros/trailing_zeros/trailing_ones/count_ones modelled by NB.C07.lzDigit/tzDigit/toDigit/popDigit; digit `& | ^ << >>` = Nat.land/lor/xor/shiftLeft/shiftRight on digits < 2^64",
                    "shift amounts of every primitive type are modelled by their mathematical value (Int); usize/u64 range = 2^64"],
        "assumptions": COMMON_ASSUME,
        "level_text": "Theorems (NB.Props.C07, 43, no _partial): for ALL canonical operands of any length and all nine sign pairs the model of each code path returns exactly the canonical representation of the mathematical result: BigUint & | ^ = Nat.land/lor/xor (andAssign/andRef/orAssign/orRef/xorAssign/xorRef_spec); BigUint << >> = v*2^k, v/2^k for every non-negative amount incl. amounts past the length, the usize-saturating arm and the capacity-overflow arm, negative amounts panic (shl_spec, shr_spec, shl_capacity, shl/shr_negative); BigInt << >> <<= >>= = x*2^k and floor(x/2^k) = Int.shiftRight (bigint_shl/shlAssign/shr/shrAssign_spec, bigint_shr_eq_shiftRight); !x = -x-1 for both impls; bit = Nat.testBit / Int.testBit; BigUint and BigInt set_bit = lor / ldiff with 2^k incl. all five set_negative_bit sub-cases (set_bit_*_spec_u, bigint_set_bit_spec, *_testBit); bits = Nat.size, trailing_zeros / trailing_ones = exponent of 2 in v resp. v+1, count_ones = number of set bits; BigInt & | ^ (assign and ref-ref forms) = Mathlib Int.land/Int.lor/Int.xor through the nine bit{and,or,xor}_{pos,neg}_{pos,neg} routines with their extend/truncate/push-1 tails (bigint_and/or/xor{Assign,Ref}_spec); every debug_assert/unwrap/expect/index of these routines is an explicit model error proved unreachable (signed_routines_no_internal, shrRoundDown_no_internal, setNegativeBit_no_internal). Tied to the source by a 3-way differential run (real crate vs compiled model vs Nat/Int oracle computed from the values only) over structured values (0, +-1, +-2^k, +-(2^k+-1), +-(B^j-1), +-B^j, complementary patterns forcing the re-negation carry through every digit, long trailing zero/one runs), all nine sign pairs, equal/unequal lengths, shift amounts around digit boundaries and the value length through every primitive type (u8..u128, usize, i8..i128, isize, incl. negative and maximal amounts), bit indices around the lowest set bit for every trailing-zero count 0..199 and around/beyond the top digit, plus an exhaustive -20..20 corpus.",
        "level_note": "Trusted: Lean kernel + {propext, Classical.choice, Quot.sound}; Mathlib's definitions of Int.land/lor/xor/ldiff/testBit, Nat.size; the u64 intrinsics leading_zeros/trailing_zeros/trailing_ones/count_ones and the digit operators are modelled (NB.C07.lzDigit/tzDigit/toDigit/popDigit, Nat bit ops on digits < 2^64); shift amounts are modelled by their mathematical value with usize/u64 range 2^64; right-shift theorems assume the operand's bit length fits u64 (true of every Vec); Vec/ownership not modelled; correspondence strength bounded by the generators.",
    }

PROPS["C14"] = {
    "lean": ["NB.Props.C14"],
    "gens": ["c14"],
    "profiles": ["release", "debug"],
    "trusted": ["the per-operation outcome theorems of the other properties (imported by NB.Props.C14)",
                "process-level observation of faults/timeouts by the harness runner (signals, watchdog)"],
    "assumptions": COMMON_ASSUME + ["operands whose results do not fit in memory are out of scope (capacity class)"],
    "level": "proof",
    "level_text": "Every modelled operation returns Except Panic: documented panic classes, or .internal for every assert/debug_assert/overflow/precondition/fuel site. The per-property theorems have the shape `model = if <documented condition> then .error <class> else .ok <exact value>`; Props/C14.lean collects the corollaries `Documented x cond cls` / `NeverFails x` for sub, checked_sub, BigInt add/sub, mul, div_rem, checked_div(_rem_euclid), BigInt div_rem, modpow (zeromod/negexp), modinv, to_radix/to_str (radix), shifts (negshift), roots (imaginary/zeroroot), pow (capacity only), bounded sampling (emptyrange); termination is the fuel-sufficiency theorems (fixpoint, pow, Stein gcd, egcd, mac3, rejection loops). PARTIAL for the runtime part: absence of faults, debug-build overflow panics and hangs in the real process is OBSERVED by running a cross-section of every stream (all failure-set requests + a large sample of the rest) in BOTH debug and release profiles under a per-batch watchdog with crash isolation.",
    "level_note": "Trusted: Lean kernel + {propext, Classical.choice, Quot.sound}; the outcome theorems of C01-C03, C05-C07, C11-C13, C18; process-level observation of signals/timeouts. Capacity-class failures (results that do not fit in memory) are out of the property's scope.",
    "technique": "Lean 4 outcome-class theorems (documented panic iff documented condition, no internal error reachable, fuel sufficiency) + debug/release differential run with crash and timeout isolation",

}

PROPS["C11"] = {
    "lean": ["NB.Props.C11"],
    "gens": ["c11"],
    "profiles": ["release", "debug"],
    "special": lambda ctx: __import__("c11").special(ctx),
    "trusted": ["to_u64 fast path: num-integer's primitive Roots for u64 modelled by the spec-level bisection floor root (NB.Roots.floorRoot, proved = Nat.nthRoot)",
                "float arm of the std guess is abstract (F64.Valid: a finite f64 evaluation yields a guess >= 1; to_f64 is finite below 2^1023); the driver instantiates it with Lean's native Float",
                "two-layer model: NB.Model.RootsD (run by the driver) uses the digit-level operator models for every BigUint operator of the Rust text (cmp_slice, bits, <<, >>, div_rem_ref, mulRef/mulAssign inside the pow_impl! loops, scalar_mul, +=, div_rem_digit, to_u64) and is proved to refine the value-level model NB.Model.Roots (roots_refine, bigint_roots_refine; operator theorems of C01-C03, C07 under P.ValidMul, canonical inputs with < 2^64 digits, degree <= 2^64); the capacity-driven operand choice of val+val additions is not modelled (both choices return the same digits); u64 overflow of the bit-count arithmetic (needs >= 2^63 bits) not modelled; the fuel of the digit-level fixpoint is computed from the value of the guess"],
    "assumptions": COMMON_ASSUME,
    "level_text": "Theorems fixpoint_abstract_spec / fixpoint_spec (two-phase loop with saturation returns the floor root from EVERY guess >= 1, fuel g + 2^max_bits + 2 suffices), root_F_ge/lt/gt (Newton step facts, F_ge from Mathlib's Nat.nthRoot.lt_pow_go_succ_aux), nth_root_spec / nth_root_eq / sqrt_spec / cbrt_spec (n >= 1 -> r^n <= x < (r+1)^n = Nat.nthRoot, for every guess source with guesses >= 1), nostd_guess_ok and std_guess_ok (the 1<<max_bits guess, the scaled recursive guess and the fallback are >= 1; recursion depth 2 suffices), root_config_independent (std and no_std models return the same outcome for all x, n), guess_zero_panics (g >= 1 is necessary), bigint_nth_root_spec / bigint_sqrt_spec / bigint_cbrt_spec / bigint_odd_root_neg (sign transfer, imaginary and zero-degree panics). Layer link: roots_refine / bigint_roots_refine / fixpoint_refines / root_steps_refine / pow_digits_spec / nostd_src_refines / std_src_refines (the digit-level transcription NB.Model.RootsD returns, on canonical digit vectors, exactly the canonical digits of what the value-level model returns, same panics, for every pair of related guess sources and all P with P.ValidMul), hence nth_root_spec_D / nth_root_eq_D / sqrt_spec_D / cbrt_spec_D / std_root_spec_D / nostd_root_spec_D / root_config_independent_D / bigint_*_spec_D / gen_root_spec (the same statements about the digit-level functions the driver runs, instantiated at the extracted parameters). Tied to the source by a 3-way differential run (release and debug builds) over value classes x degrees x signs, and by a second harness build with num-bigint's std feature off whose C11 answers must be byte-identical.",
    "level_note": "Trusted: Lean kernel + {propext, Classical.choice, Quot.sound}; num-integer's u64 roots modelled by the spec; IEEE float facts (finite evaluation gives a guess >= 1, to_f64 finite below 2^1023) assumed, not proved; digit-level model proved equal to the value-level one (layer link on C01-C03/C07/C12 operator theorems); the driver runs the digit-level model (std column always, no_std column up to 64 digits, value-level above); correspondence strength bounded by the generators.",
}

PROPS["C12"] = {
    "lean": ["NB.Props.C12"],
    "gens": ["c12"],
    "profiles": ["release", "debug"],
    "trusted": ["primitive exponent ops `& 1`, `>>= 1`, `== 0/1`, `> 1` on u8..u128/usize are Nat ops",
                "layering (proved, not assumed): the digit-level model NB.Model.PowD (every `*` = Mul.mulRef / Mul.mulAssign on digit vectors, BigUint exponents narrowed through the to_u64/to_u128 models, is_one/is_zero/is_odd on digits) refines the value-level model NB.Model.Pow under P.ValidMul (gen_params_valid_mul, C02)"],
    "assumptions": COMMON_ASSUME,
    "level_text": "Theorems pow_spec / pow_forms_spec (the pow_impl! loop returns exactly x^e for ALL x, e, in all four operand forms; one macro body for u8..u128/usize), pow_sq_phase and pow_acc_phase (invariants of the trailing-zero squaring phase and the accumulate phase), pow_fuel_sufficient (both loops terminate within the bit length of the exponent), pow_zero_zero (0^0 = 1), pow_big_spec / pow_big_narrowing (BigUint exponents: short-cuts, u64/u128 narrowing value-preserving, capacity panic exactly when x >= 2 and e >= 2^128), bigint_pow_spec / bigint_pow_big_spec / bigint_pow_sign / powsign_spec (BigInt: exactly x^e on the integers, negative iff x < 0 and e odd). Layer link (digit level): powD_refines / pow_bigD_refines / bigint_powD_refines (+ pow_sq_phaseD_refines, pow_acc_phaseD_refines) show that NB.Model.PowD -- the same control flow on digit vectors with C02's mulRef/mulAssign, the C08 to_u64/to_u128 models and digit-level is_one/is_zero/is_odd, all operator panics propagated -- returns on canonical inputs exactly the value-level outcome mapped through ofNat/BigInt.ofInt, hence powD_spec, pow_bigD_spec, bigint_powD_spec, bigint_pow_bigD_spec, powsign_bigD_spec (canonical digits of x^e; capacity panic iff x >= 2 and e >= 2^128) for all P with P.ValidMul, instantiated at the regenerated parameters (powD_spec_gen, bigint_powD_spec_gen); the driver's MODEL column runs PowD on the received limbs, no size cap. Tied to the source by a 3-way differential run: exponents 0..300 exhaustively for 8 bases, every 10-bit exponent pattern, all 7 exponent types x 4 forms + inherent method, u64/u128 narrowing edges.",
    "level_note": "Trusted: Lean kernel + {propext, Classical.choice, Quot.sound}; the layering on C02 (multiplication) is a proved refinement (PowD -> Pow), not an assumption; exponents >= 2^32 with |base| >= 2 cannot be executed (memory) and are covered by the theorem only; correspondence strength bounded by the generators.",
}

PROPS["C13"] = {
    "lean": ["NB.Props.C13"],
    "gens": ["c13"],
    "profiles": ["release", "debug"],
    "trusted": ["layering (proved, not assumed): the digit-level model NB.Model.GcdD (trailing_zeros, >>= / << through biguint_shr/shl, cmp_slice, -=, / % mod_floor through div_rem_ref, * through mulRef, &a - b / &a + b by-value forms, += 1u32 / -= 1u32, BigInt / * - + cmp mod_floor on records) refines the value-level model NB.Model.Gcd for canonical operands whose digit count fits usize (GcdD.Small, true of every Vec) under P.ValidMul",
                "num-integer 0.1.47 default Integer::extended_gcd modelled from its pinned source; its by-value BigInt operator forms are modelled by the ref/ref forms (differ only in buffer reuse; C10)"],
    "assumptions": COMMON_ASSUME,
    "level_text": "Theorems gcd_spec (Stein's algorithm as coded = Nat.gcd for ALL a, b; stein_loop_spec: invariant, termination, no underflow; twos_valuation), gcd_zero_cases, lcm_spec / gcd_lcm_spec (= Nat.lcm, division by the gcd never fails), bigint_gcd_spec / bigint_lcm_spec / bigint_gcd_lcm_spec (= Int.gcd / Int.lcm, non-negative), egcd_spec / egcd_loop_spec (num-integer's loop: a*x + b*y = g and g = Int.gcd a b, all signs, fuel |b|+1 suffices), egcd_lcm_spec, is_multiple_of_spec / multiple_of_zero / bigint_is_multiple_of_spec (divisibility; only zero is a multiple of zero), next/prev_multiple_spec + _char (least/greatest multiple; divzero iff b = 0; no underflow), bigint_mod_floor_spec (= Int.fmod), bigint_next/prev_multiple_spec + _char (a + (-a) fmod b, a - a fmod b), is_even_spec / is_odd_spec (first digit decides), inc_spec / dec_spec. Layer link (digit level): steinLoopD_refines, gcdD_refines, lcmD_refines, next/prev_multipleD_refines, egcdLoopD_refines, egcdD_refines show that NB.Model.GcdD -- the same control flow on digit vectors / BigInt records with the digit-level operators of C01-C03/C07 (trailingZerosU, biguintShr/Shl, cmpSlice, subAssign, divRef, remRef with its to_u32 fast path, modFloor, mulRef, subRefVal, addAssign, addAssignU32/subAssignU32, BigInt.div/sub/add/modFloor/addU/subU, bigintMul, Core.BigInt.cmp), every operator panic propagated -- returns on canonical inputs exactly the value-level outcome mapped through ofNat/BigInt.ofInt; hence gcdD_spec, lcmD_spec, gcdLcmD_spec, is_multiple_ofD_spec, next/prev_multipleD_spec, incD/decD_spec, bigint_gcdD/lcmD/gcd_lcmD_spec, egcdD_spec (canonical g, x, y with a*x + b*y = g = Int.gcd a b), egcd_lcmD_spec, bigint_is_multiple_ofD_spec, bigint_next/prev_multipleD_spec, bigint_inc_decD_spec; twosD_spec ties trailing_zeros on digits to the 2-adic valuation. Extra hypotheses: GcdD.Small (digit count < usize range) where shifts occur, P.ValidMul where a product occurs (instantiated: lcmD_spec_gen, egcdD_spec_gen). The driver's MODEL column runs GcdD on the received limbs (normalised as the harness's constructors do), no size cap. Tied to the source by a 3-way differential run over zeros, equal, divisibility, common powers of two spanning digits, Fibonacci neighbours, complete sign tables.",
    "level_note": "Trusted: Lean kernel + {propext, Classical.choice, Quot.sound}; the layering on C01-C03/C07 is a proved refinement (GcdD -> Gcd), not an assumption; Bezout coefficients are compared implementation-vs-model (exact) and implementation-vs-oracle through the identity a*x+b*y = gcd; correspondence strength bounded by the generators.",
}

PROPS["C02"] = {
    "lean": ["NB.Props.C02"],
    "gens": ["c02"],
    "profiles": ["release", "debug"],
    "trusted": ["primitive u64/u128 arithmetic of mac_with_carry / mul_with_carry = Nat arithmetic (absence of u128 overflow is proved: mac_with_carry_no_overflow)",
                "Toom-3 intermediate BigInts are modelled as Int values: BigInt + - <<1 *2 are the mathematical operations (justified by C01), /3 = Int.tdiv, >>1 = floor; the five point products go through the model's own multiplication",
                "u64::is_power_of_two / trailing_zeros are modelled by their mathematical definitions"],
    "assumptions": COMMON_ASSUME,
    "level_text": "Theorem mac3_spec: for ALL parameter records satisfying the decidable predicate ValidMul (obligation gen_params_valid_mul over the thresholds/split rules regenerated from the source), all digit slices and every fuel >= b.len+c.len+1, under the precondition every caller establishes (acc.len >= b.len+c.len+1 and acc+b*c < B^(acc.len-1)) the model of mac3 returns ok acc' with val acc' = val acc + val b * val c and the length unchanged - in all four regimes (schoolbook, half-Karatsuba, Karatsuba with every sign of the middle term, Toom-3 incl. Bodrato interpolation and recomposition) and through zero stripping; hence no carry-overflow assertion, no dropped add2 carry, no sub2 underflow, no slice fault is reachable. mul_spec / mulAssign_spec / checked_mul_spec / bigint_mul_spec / bigint_mulAssign_spec: for ALL canonical operands and all nine sign pairs the model of * , *= and checked_mul returns exactly the canonical representation of the mathematical product. Nothing is _partial. The model is tied to the source by the regenerated parameters and by a 3-way differential run (public API, mac3 hook with non-zero / exactly sized accumulators, sub_sign hook) over lengths on both sides of every threshold.",
    "level_note": "Trusted: Lean kernel + {propext, Classical.choice, Quot.sound}; the hand-written model NB.Model.Mul (Toom-3 intermediates as Int values, u128 row arithmetic as Nat arithmetic); Vec/ownership not modelled; correspondence strength bounded by the generators (all six regime probes are hit in the quick tier).",
}

PROPS["C20"] = {
    "lean": ["NB.Props.C20"],
    "gens": ["c20"],
    "profiles": ["release", "debug"],
    "special": lambda ctx: __import__("c20").special(ctx),
    "trusted": ["the work unit is the hook statement crate::verif::work(b.len()) in mac_digit (after the c == 0 early return); NB.Model.Cost mirrors the dispatch of mac3 and is compared for equality with the real counter",
                "the nominal recurrence W (NB.Cost.W) is my formalisation of 'every sub-product at its maximal length'; its relation to the real count (W >= work) is measured, not proved"],
    "assumptions": COMMON_ASSUME + ["growth clauses are proved for the nominal-length recurrence W over the property's finite size table; the exact cost is data dependent and not monotone in the operand lengths, so cost <= W is checked on the measured numbers only"],
    "level_text": "cost_le_schoolbook: for ALL valid parameter records, all operands and every fuel the work count of the Cost model (row length per non-zero multiplier digit, mirroring mac3's dispatch) is at most x.len*y.len. W_doubling_table / W_4096_quarter / W_unbalanced_bank (kernel evaluation over the parameters regenerated from the source, re-elaborated on every threshold change): for n in 256..8192 the nominal recurrence satisfies 4*W(2n,2n) <= 13*W(n,n), 4*W(4096,4096) < 4096^2, and W(n,m) <= n*m on the unbalanced bank (n,2n-1),(n,2n),(n,64n). Tie: on every run the real work counter equals the Cost model on dense and structured operands, W dominates the measured counts, and the property's inequalities are tested on the measured numbers themselves (ratio <= 3.25, 4*work(4096) < 4096^2, unbalanced <= n*m).",
    "level_note": "Trusted: Lean kernel + {propext, Classical.choice, Quot.sound}; Cost model and W hand-written; the growth clauses are theorems about W, connected to the real counter by measurement only (no all-data theorem cost <= W exists: the cost is not monotone in the length across a regime switch).",
}

PROPS["C04"] = {
        "lean": ["NB.Props.C04"],
        "gens": ["c04"],
        "profiles": ["release", "debug"],
        "trusted": ["std's Hasher is not modelled: the model exposes what Hash::hash feeds to it (sign discriminant, then length-prefixed digits, digits skipped for NoSign)",
                    "derived Ord/Hash of `enum Sign` modelled by its discriminant (Minus=0, NoSign=1, Plus=2)",
                    "Vec capacity / buffer reuse (clone_from, mem::replace, shrink_to_fit) is not modelled; it is exercised by the history stream only"],
        "assumptions": COMMON_ASSUME,
        "level_text": "Theorems (all canonical values of any length / sign): biguint_canon_unique, bigint_repr_unique and biguint/bigint_export_congr (a canonical representation, hence every export, is a function of the integer); biguint_eq_iff_val, bigint_eq_iff_val (== exactly for equal integers); biguint_cmp_spec, bigint_cmp_spec, *_le_spec (cmp = numerical order); biguint_hash_iff, bigint_hash_iff (hash input equal exactly for equal integers); nosign_iff_zero; constructor theorems biguint_new/from_slice/assign_from_slice_spec, biguint_from_vec_spec, bigint_from_biguint/new/from_slice/assign_from_slice_spec (ARBITRARY u32 words incl. redundant high zeros and ANY Sign request, also inconsistent, give the canonical value); and the history theorem reachable_eq / reachable_canon / reachable_val: after ANY finite sequence of the in-place operations of NB.Core.uOps/iOps (for both types += -= *= (register operand and u32/u64/u128, BigInt u128/i128, scalar forms) /= %= (zero divisor: documented failure, not executed) <<= >>= &= |= ^= set_bit set_zero set_one clone_from assign_from_slice, and negation for BigInt) started from canonical registers, every register is exactly the canonical representation of the value computed by a spec machine over Nat/Int; history_*_indistinguishable combine both. The model is tied to the source by a 3-way differential run (release+debug) over comparison pairs, constructor inputs and 1500 (thorough 10k) register histories whose raw digit vectors, signs, pairwise ==/cmp/hash and exports are compared.",
        "level_note": "Trusted: Lean kernel + {propext, Classical.choice, Quot.sound}; std's hasher is not modelled (only its input); Vec capacity / buffer reuse not modelled (exercised by the history stream only); the history theorem ranges over the operation list uOps/iOps of NB.Model.Core (all in-place operations named in the property statement); the soundness lemmas of * / % << >> & | ^ set_bit rest on the operation theorems of C02/C03/C07; shift amounts are usize immediates and `>>=` on BigInt treats a (physically impossible) operand of 2^58 or more digits as a capacity failure.",
    }

PROPS["C19"] = {
        "lean": ["NB.Props.C19"],
        "gens": ["c19"],
        "profiles": ["release", "debug"],
        "trusted": ["Vec capacity / buffer reuse is not modelled (clone, clone_from, into_parts are plain copies)"],
        "assumptions": COMMON_ASSUME,
        "level_text": 'Theorems for ALL canonical BigInt/BigUint values: bigint_neg_spec (by value and by reference), bigint_abs_spec, bigint_signum_spec, bigint_is_positive/negative_spec, bigint_sign_spec, bigint_magnitude_spec, bigint_abs_sub_spec (= max(x-y,0), never panics), into_parts_from_biguint, from_biguint_into_parts, from_biguint_inconsistent, from_biguint_val (any Sign request), bigint_to_biguint_spec / _isSome (succeeds iff >= 0, both TryFrom forms), biguint_to_bigint_spec, biguint/bigint_consts, is_zero/is_one specs, set_zero_one_spec (no hypothesis on the old value), sign_neg_table, sign_mul_table. Each result is stated as the canonical representation of the mathematical result. Tied to the source by a 3-way differential run (release+debug) over all helpers on 0, +-1, single/multi-digit values, values cloned into larger buffers, all (Sign, magnitude) pairs, and abs_sub over all sign/order cases.',
        "level_note": 'Trusted: Lean kernel + {propext, Classical.choice, Quot.sound}; Vec capacity / buffer reuse not modelled; correspondence strength bounded by the generators.',
    }

NOT_CLAIMED = {}

if __name__ == "__main__":
    import sys
    if "--lean-modules" in sys.argv:
        mods = []
        for p in PROPS.values():
            for m in p.get("lean", []):
                if m not in mods:
                    mods.append(m)
        print(" ".join(mods))
