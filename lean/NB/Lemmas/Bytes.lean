/- helper lemmas for C09 / C17: positional digits in bases 2^8, 2^32, 2^64 -/
import NB.Lemmas.Base
import NB.Lemmas.Canon
import NB.Model.Bytes
import Mathlib.Data.Nat.Digits.Defs
import Mathlib.Data.Nat.Digits.Lemmas
namespace NB.Bytes
open NB

/-- all elements below the base -/
def Below (b : Nat) (l : List Nat) : Prop := ∀ x ∈ l, x < b

instance (b : Nat) (l : List Nat) : Decidable (Below b l) := by unfold Below; infer_instance

theorem Below.nil {b} : Below b [] := by intro x h; cases h
theorem Below.cons {b d} {l : List Nat} (h : d < b) (hl : Below b l) : Below b (d :: l) := by
  intro x hx; cases hx with
  | head => exact h
  | tail _ h' => exact hl x h'
theorem Below.head {b d} {l : List Nat} (h : Below b (d :: l)) : d < b := h d (by simp)
theorem Below.tail {b d} {l : List Nat} (h : Below b (d :: l)) : Below b l :=
  fun x hx => h x (List.mem_cons_of_mem _ hx)
theorem Below.append {b} {l1 l2 : List Nat} (h1 : Below b l1) (h2 : Below b l2) : Below b (l1 ++ l2) := by
  intro x hx; rcases List.mem_append.mp hx with h | h
  · exact h1 x h
  · exact h2 x h
theorem Below.left {b} {l1 l2 : List Nat} (h : Below b (l1 ++ l2)) : Below b l1 :=
  fun x hx => h x (List.mem_append_left _ hx)
theorem Below.right {b} {l1 l2 : List Nat} (h : Below b (l1 ++ l2)) : Below b l2 :=
  fun x hx => h x (List.mem_append_right _ hx)
theorem Below.take {b} {l : List Nat} (n : Nat) (h : Below b l) : Below b (l.take n) :=
  fun x hx => h x (List.mem_of_mem_take hx)
theorem Below.drop {b} {l : List Nat} (n : Nat) (h : Below b l) : Below b (l.drop n) :=
  fun x hx => h x (List.mem_of_mem_drop hx)
theorem Below.reverse {b} {l : List Nat} (h : Below b l) : Below b l.reverse :=
  fun x hx => h x (List.mem_reverse.mp hx)

theorem below_B_iff (l : List Nat) : Below B l ↔ DigitsOk l := Iff.rfl

theorem valBase_eq_ofDigits (b : Nat) (l : List Nat) : valBase b l = Nat.ofDigits b l := by
  induction l with
  | nil => rfl
  | cons d ds ih => simp [valBase, Nat.ofDigits_cons, ih]

theorem val_eq_valBase (l : List Nat) : val l = valBase B l := by
  induction l with
  | nil => rfl
  | cons d ds ih => simp [val, valBase, ih]

theorem valBase_append (b : Nat) (l1 l2 : List Nat) :
    valBase b (l1 ++ l2) = valBase b l1 + b ^ l1.length * valBase b l2 := by
  induction l1 with
  | nil => simp [valBase]
  | cons d ds ih => simp only [List.cons_append, valBase, ih, List.length_cons, pow_succ]; ring

theorem valBase_lt {b : Nat} {l : List Nat} (h : Below b l) : valBase b l < b ^ l.length := by
  induction l with
  | nil => simp [valBase]
  | cons d ds ih =>
    have h1 := h.head
    have h2 := ih h.tail
    simp only [valBase, List.length_cons, pow_succ]
    nlinarith

theorem digitsBase_eq_digits {b : Nat} (hb : 2 ≤ b) (n : Nat) : digitsBase b n = Nat.digits b n := by
  induction n using Nat.strongRecOn with
  | _ n ih =>
    unfold digitsBase
    by_cases h : n = 0
    · subst h; simp
    · have h' : ¬ (n = 0 ∨ b < 2) := by omega
      simp only [h', dite_false]
      rw [ih (n / b) (Nat.div_lt_self (Nat.pos_of_ne_zero h) (by omega))]
      rw [Nat.digits_def' (by omega) (Nat.pos_of_ne_zero h)]

/-- uniqueness of positional digits: a list of proper digits without a high zero digit is
    `Nat.digits` of its value -/
theorem digits_unique {b : Nat} (hb : 1 < b) {L : List Nat} (hlt : Below b L)
    (hlast : L.getLast? ≠ some 0) : L = Nat.digits b (valBase b L) := by
  rw [valBase_eq_ofDigits]
  symm
  apply Nat.digits_ofDigits b hb L hlt
  intro hne h0
  apply hlast
  rw [List.getLast?_eq_some_getLast hne, h0]

theorem canon_eq_digits {a : List Nat} (h : Canon a) : a = Nat.digits B (val a) := by
  rw [val_eq_valBase]
  exact digits_unique (by decide) h.1 h.2

theorem ofNat_eq_digits (n : Nat) : ofNat n = Nat.digits B n := by
  have := canon_eq_digits (ofNat_canon n)
  rwa [ofNat_val] at this

/-- the canonical digits of a value given by any proper digit list -/
theorem normalize_eq_ofNat {a : List Nat} (h : DigitsOk a) : normalize a = ofNat (val a) := by
  have := canon_eq_ofNat (normalize_canon h)
  rwa [normalize_val] at this

theorem W_eq : W = 2 ^ 32 := by decide
theorem W_mul_W : W * W = B := by decide
theorem B_eq_256 : B = 256 ^ 8 := by decide

/-! ### splitting a 64-bit digit into two 32-bit halves -/

theorem shl32_lt {hi : Nat} (h : hi < W) : (hi <<< halfBits) % B = hi * W := by
  rw [Nat.shiftLeft_eq, show halfBits = 32 from rfl, ← W_eq]
  apply Nat.mod_eq_of_lt
  have := W_mul_W
  nlinarith

theorem or_shl32 {lo hi : Nat} (hl : lo < W) (hh : hi < W) :
    lo ||| ((hi <<< halfBits) % B) = lo + W * hi := by
  rw [shl32_lt hh]
  have h := Nat.shiftLeft_add_eq_or_of_lt (i := 32) (b := lo) (by rwa [← W_eq]) hi
  rw [Nat.shiftLeft_eq, ← W_eq] at h
  rw [Nat.or_comm, ← h]; ring

theorem or_shl32_lt {lo hi : Nat} (hl : lo < W) (hh : hi < W) : lo + W * hi < B := by
  have := W_mul_W
  nlinarith

/-- `chunks 2` on a cons-cons -/
theorem chunks2_cons_cons (a b : Nat) (t : List Nat) : chunks 2 (a :: b :: t) = [a, b] :: chunks 2 t := by
  rw [chunks]; simp
theorem chunks2_single (a : Nat) : chunks 2 [a] = [[a]] := by
  rw [chunks]; simp [chunks]
theorem chunks_nil (n : Nat) : chunks n [] = [] := by
  rw [chunks]; simp

/-- pairwise packing of u32 words (specification side) -/
def pairUp : List Nat → List Nat
  | [] => []
  | [a] => [a]
  | a :: b :: t => (a + W * b) :: pairUp t

theorem pairUp_val : ∀ (ws : List Nat), val (pairUp ws) = valBase W ws
  | [] => rfl
  | [a] => by simp [pairUp, val, valBase]
  | a :: b :: t => by
    simp only [pairUp, val, valBase, pairUp_val t]
    have := W_mul_W
    rw [← this]; ring

theorem pairUp_ok : ∀ (ws : List Nat), Below W ws → DigitsOk (pairUp ws)
  | [], _ => DigitsOk.nil
  | [a], h => DigitsOk.cons (lt_trans (h.head) (by decide)) DigitsOk.nil
  | a :: b :: t, h =>
    DigitsOk.cons (or_shl32_lt h.head h.tail.head) (pairUp_ok t h.tail.tail)

theorem mapM_chunks2 : ∀ (ws : List Nat), Below W ws →
    mapM' u32ChunkToU64 (chunks 2 ws) = .ok (pairUp ws)
  | [], _ => by simp [chunks_nil, mapM', pairUp]
  | [a], _ => by simp [chunks2_single, mapM', pairUp, u32ChunkToU64]
  | a :: b :: t, h => by
    rw [chunks2_cons_cons]
    simp only [mapM', u32ChunkToU64, mapM_chunks2 t h.tail.tail, pairUp]
    rw [or_shl32 h.head h.tail.head]

theorem assignFromSlice_eq (old ws : List Nat) (h : Below W ws) :
    assignFromSlice old ws = .ok (ofNat (valBase W ws)) := by
  unfold assignFromSlice
  rw [mapM_chunks2 ws h]
  simp only
  rw [normalize_eq_ofNat (pairUp_ok ws h), pairUp_val]

/-! ### bytes → digits (`from_bitwise_digits_le` with 8-bit digits) -/

theorem foldChunk_eq_foldr (bits : Nat) (chunk : List Nat) :
    foldChunk bits chunk = chunk.foldr (fun c acc => ((acc <<< bits) % B) ||| c) 0 := by
  unfold foldChunk; rw [List.foldl_reverse]

theorem foldChunk8 : ∀ (chunk : List Nat), Below 256 chunk → chunk.length ≤ 8 →
    foldChunk 8 chunk = valBase 256 chunk := by
  intro chunk hb hl
  rw [foldChunk_eq_foldr]
  induction chunk with
  | nil => rfl
  | cons c cs ih =>
    simp only [List.foldr_cons, valBase]
    have hl' : cs.length ≤ 7 := by simp only [List.length_cons] at hl; omega
    rw [ih hb.tail (by omega)]
    have hv := valBase_lt hb.tail
    have hp : 256 ^ cs.length ≤ 256 ^ 7 := Nat.pow_le_pow_right (by decide) hl'
    have hc := hb.head
    have h1 : (valBase 256 cs <<< 8) % B = valBase 256 cs <<< 8 := by
      apply Nat.mod_eq_of_lt
      rw [Nat.shiftLeft_eq]
      have : (256:Nat) ^ 7 * 2 ^ 8 = B := by decide
      nlinarith
    rw [h1, ← Nat.shiftLeft_add_eq_or_of_lt (by simpa using hc), Nat.shiftLeft_eq]
    ring

theorem chunks8_val : ∀ (n : Nat) (bs : List Nat), bs.length ≤ n → Below 256 bs →
    val ((chunks 8 bs).map (foldChunk 8)) = valBase 256 bs ∧
    DigitsOk ((chunks 8 bs).map (foldChunk 8)) := by
  intro n
  induction n with
  | zero =>
    intro bs hl _
    have : bs = [] := List.length_eq_zero_iff.mp (by omega)
    subst this
    simp [chunks_nil, val, valBase, DigitsOk.nil]
  | succ n ih =>
    intro bs hl hb
    by_cases hne : bs = []
    · subst hne; simp [chunks_nil, val, valBase, DigitsOk.nil]
    · rw [chunks]
      have hc : ¬ ((8:Nat) = 0 ∨ bs = []) := by simp [hne]
      simp only [hc, dite_false, List.map_cons, val]
      have hpos : 0 < bs.length := List.length_pos_iff.mpr hne
      have hdl : (bs.drop 8).length ≤ n := by simp only [List.length_drop]; omega
      obtain ⟨iv, iok⟩ := ih (bs.drop 8) hdl (hb.drop 8)
      have htl : (bs.take 8).length ≤ 8 := by simp [List.length_take]
      have hf := foldChunk8 (bs.take 8) (hb.take 8) htl
      rw [hf, iv]
      constructor
      · conv_rhs => rw [← List.take_append_drop 8 bs]
        rw [valBase_append]
        by_cases hlen : bs.length ≤ 8
        · have : bs.drop 8 = [] := List.drop_eq_nil_of_le hlen
          simp [this, valBase]
        · have : (bs.take 8).length = 8 := by simp [List.length_take]; omega
          rw [this, ← B_eq_256]
      · refine DigitsOk.cons ?_ iok
        have := valBase_lt (hb.take 8)
        calc valBase 256 (bs.take 8) < 256 ^ (bs.take 8).length := this
          _ ≤ 256 ^ 8 := Nat.pow_le_pow_right (by decide) htl
          _ = B := B_eq_256.symm

theorem all_lt_of_below {bs : List Nat} (h : Below 256 bs) : (bs.all fun c => decide (c < 1 <<< 8)) = true := by
  rw [List.all_eq_true]
  intro x hx
  have := h x hx
  simpa using this

theorem fromBytesLe_eq (bs : List Nat) (h : Below 256 bs) :
    fromBytesLe bs = .ok (ofNat (valBase 256 bs)) := by
  unfold fromBytesLe
  by_cases hne : bs = []
  · subst hne; simp [valBase, ofNat]
  · have he : bs.isEmpty = false := by simpa using hne
    simp only [he, Bool.false_eq_true, if_false]
    unfold fromBitwiseDigitsLe
    have h8 : byteBits = 8 := rfl
    simp only [h8, show (8:Nat) ≠ 0 by decide, if_false, he, show digitBits % 8 = 0 by decide,
      show digitBits / 8 = 8 by decide, all_lt_of_below h]
    simp only [Bool.false_eq_true, le_refl, not_true_eq_false, ne_eq, or_self, if_false]
    obtain ⟨hv, hok⟩ := chunks8_val bs.length bs (le_refl _) h
    rw [normalize_eq_ofNat hok, hv]

theorem fromBytesBe_eq (bs : List Nat) (h : Below 256 bs) :
    fromBytesBe bs = .ok (ofNat (valBase 256 bs.reverse)) := by
  unfold fromBytesBe
  by_cases hne : bs = []
  · subst hne; simp [valBase, ofNat]
  · have he : bs.isEmpty = false := by simpa using hne
    simp only [he, Bool.false_eq_true, if_false]
    exact fromBytesLe_eq _ h.reverse


/-! ### digits → bytes (`to_bitwise_digits_le` with 8-bit digits) -/

theorem and255 (r : Nat) : (r &&& 255) % byteBase = r % 256 := by
  have := Nat.and_two_pow_sub_one_eq_mod r 8
  simp only [show (2:Nat) ^ 8 = 256 by decide] at this
  rw [this, show byteBase = 256 from rfl, Nat.mod_mod]

theorem fullDigits_spec : ∀ (k r : Nat),
    (fullDigits 255 8 k r).length = k ∧ Below 256 (fullDigits 255 8 k r) ∧
    valBase 256 (fullDigits 255 8 k r) = r % 256 ^ k := by
  intro k
  induction k with
  | zero => intro r; simp [fullDigits, valBase, Below.nil, Nat.mod_one]
  | succ k ih =>
    intro r
    obtain ⟨h1, h2, h3⟩ := ih (r >>> 8)
    simp only [fullDigits, and255, List.length_cons, h1, valBase, h3, true_and]
    refine ⟨Below.cons (Nat.mod_lt _ (by decide)) h2, ?_⟩
    rw [Nat.shiftRight_eq_div_pow, show (2:Nat) ^ 8 = 256 by decide, pow_succ,
      Nat.mul_comm (256 ^ k) 256, Nat.mod_mul]

theorem whileDigits_spec (r : Nat) : whileDigits 255 8 r = Nat.digits 256 r := by
  induction r using Nat.strongRecOn with
  | _ r ih =>
    rw [whileDigits]
    by_cases h : r = 0
    · subst h; simp
    · have h' : ¬ (r = 0 ∨ (8:Nat) = 0) := by omega
      simp only [h', dite_false, and255]
      have hlt : r >>> 8 < r := by
        rw [Nat.shiftRight_eq_div_pow]
        exact Nat.div_lt_self (Nat.pos_of_ne_zero h) (by decide)
      rw [ih _ hlt, Nat.shiftRight_eq_div_pow, show (2:Nat) ^ 8 = 256 by decide]
      rw [Nat.digits_def' (by decide) (Nat.pos_of_ne_zero h)]

theorem flatMap_full_spec : ∀ (init : List Nat), DigitsOk init →
    Below 256 (init.flatMap (fun r => fullDigits 255 8 8 r)) ∧
    (init.flatMap (fun r => fullDigits 255 8 8 r)).length = 8 * init.length ∧
    valBase 256 (init.flatMap (fun r => fullDigits 255 8 8 r)) = val init := by
  intro init
  induction init with
  | nil => intro _; simp [valBase, val, Below.nil]
  | cons d ds ih =>
    intro h
    obtain ⟨i1, i2, i3⟩ := ih h.tail
    obtain ⟨f1, f2, f3⟩ := fullDigits_spec 8 d
    simp only [List.flatMap_cons, List.length_append, f1, i2, List.length_cons, valBase_append, f3, i3, val]
    refine ⟨f2.append i1, by omega, ?_⟩
    rw [← B_eq_256, Nat.mod_eq_of_lt h.head]

/-- structure of the byte export of a non-zero canonical magnitude -/
theorem toBytesLe_struct {u : List Nat} (hc : Canon u) (hne : u ≠ []) :
    ∃ bytes, toBytesLe u = .ok bytes ∧ Below 256 bytes ∧ bytes.getLast? ≠ some 0 ∧ bytes ≠ [] ∧
      valBase 256 bytes = val u := by
  rcases List.eq_nil_or_concat u with h | ⟨init, last, rfl⟩
  · exact absurd h hne
  · simp only [List.concat_eq_append] at *
    have hlast0 : last ≠ 0 := by
      intro h0; apply hc.2; simp [h0]
    have hlastB : last < B := hc.1 last (by simp)
    unfold toBytesLe
    have he : (init ++ [last]).isEmpty = false := by simp
    simp only [he, Bool.false_eq_true, if_false]
    unfold toBitwiseDigitsLe
    have h8 : byteBits = 8 := rfl
    simp only [h8, show (8:Nat) ≠ 0 by decide, if_false, he, show digitBits % 8 = 0 by decide,
      show digitBits / 8 = 8 by decide, show ((1:Nat) <<< 8) % B - 1 = 255 by decide]
    simp only [Bool.false_eq_true, le_refl, not_true_eq_false, ne_eq, or_self, if_false,
      List.dropLast_concat, List.getLast?_append, List.getLast?_singleton, Option.some_or, Option.getD_some]
    obtain ⟨f1, f2, f3⟩ := flatMap_full_spec init hc.1.left
    refine ⟨_, rfl, ?_, ?_, ?_, ?_⟩
    · rw [whileDigits_spec]
      exact f1.append (fun x hx => Nat.digits_lt_base (by decide) hx)
    · rw [whileDigits_spec]
      have hdn : Nat.digits 256 last ≠ [] := Nat.digits_ne_nil_iff_ne_zero.mpr hlast0
      have hg := List.getLast?_eq_some_getLast hdn
      have hz := Nat.getLast_digit_ne_zero 256 hlast0
      rw [List.getLast?_append, hg]
      simpa using hz
    · rw [whileDigits_spec]
      have hdn : Nat.digits 256 last ≠ [] := Nat.digits_ne_nil_iff_ne_zero.mpr hlast0
      simp [hdn]
    · rw [whileDigits_spec, valBase_append, f2, f3, val_append]
      rw [valBase_eq_ofDigits, Nat.ofDigits_digits]
      simp only [val, Nat.mul_zero, Nat.add_zero]
      rw [B_eq_256, ← pow_mul]


/-! ### two's complement -/

set_option maxRecDepth 100000 in
theorem xor255 : ∀ d, d < 256 → d ^^^ 255 = 255 - d := by decide

theorem twosGo_length : ∀ (bs : List Nat) (c : Bool), (twosGo c bs).length = bs.length := by
  intro bs
  induction bs with
  | nil => intro c; rfl
  | cons d ds ih =>
    intro c
    cases c <;> simp [twosGo, ih]

theorem twosGo_false_spec : ∀ (bs : List Nat), Below 256 bs →
    (twosGo false bs).length = bs.length ∧ Below 256 (twosGo false bs) ∧
    valBase 256 (twosGo false bs) + valBase 256 bs + 1 = 256 ^ bs.length := by
  intro bs
  induction bs with
  | nil => intro _; simp [twosGo, valBase, Below.nil]
  | cons d ds ih =>
    intro h
    obtain ⟨i1, i2, i3⟩ := ih h.tail
    have hd := h.head
    simp only [twosGo, Bool.false_eq_true, if_false, xor255 d hd, List.length_cons, i1, valBase, pow_succ, true_and]
    refine ⟨Below.cons (by omega) i2, ?_⟩
    generalize valBase 256 (twosGo false ds) = x at *
    generalize valBase 256 ds = y at *
    generalize 256 ^ ds.length = p at *
    omega

theorem twosGo_true_spec : ∀ (bs : List Nat), Below 256 bs →
    (twosGo true bs).length = bs.length ∧ Below 256 (twosGo true bs) ∧
    valBase 256 (twosGo true bs) + valBase 256 bs = if valBase 256 bs = 0 then 0 else 256 ^ bs.length := by
  intro bs
  induction bs with
  | nil => intro _; simp [twosGo, valBase, Below.nil]
  | cons d ds ih =>
    intro h
    obtain ⟨i1, i2, i3⟩ := ih h.tail
    obtain ⟨f1, f2, f3⟩ := twosGo_false_spec ds h.tail
    have hd := h.head
    simp only [twosGo, if_true, xor255 d hd, show byteBase = 256 from rfl]
    by_cases hd0 : d = 0
    · subst hd0
      simp only [show (255 - 0 + 1) % 256 = 0 by decide, beq_self_eq_true, List.length_cons, i1, valBase,
        Nat.zero_add, pow_succ, true_and]
      refine ⟨Below.cons (by decide) i2, ?_⟩
      generalize valBase 256 (twosGo true ds) = x at *
      generalize valBase 256 ds = y at *
      generalize 256 ^ ds.length = p at *
      by_cases hy : y = 0
      · simp only [hy, if_true] at i3 ⊢; omega
      · have : ¬ (256 * y = 0) := by omega
        simp only [hy, this, if_false] at i3 ⊢; omega
    · have e : (255 - d + 1) % 256 = 256 - d := by omega
      have ne : ((256 - d == 0) = false) := by
        simp only [beq_eq_false_iff_ne, ne_eq]; omega
      simp only [e, ne, List.length_cons, f1, valBase, pow_succ, true_and]
      refine ⟨Below.cons (by omega) f2, ?_⟩
      generalize valBase 256 (twosGo false ds) = x at *
      generalize valBase 256 ds = y at *
      generalize 256 ^ ds.length = p at *
      have : ¬ (d + 256 * y = 0) := by omega
      simp only [this, if_false]; omega

/-- list form of "all other bytes are zero" -/
theorem all_zero_iff_valBase (b : Nat) (hb : 0 < b) : ∀ (l : List Nat), (l.all (· == 0)) = true ↔ valBase b l = 0
  | [] => by simp [valBase]
  | d :: ds => by
    simp only [List.all_cons, Bool.and_eq_true, beq_iff_eq, valBase, all_zero_iff_valBase b hb ds]
    constructor
    · rintro ⟨h1, h2⟩; simp [h1, h2]
    · intro h
      have h1 : d = 0 := by omega
      have h2 : b * valBase b ds = 0 := by omega
      rcases Nat.mul_eq_zero.mp h2 with h3 | h3
      · omega
      · exact ⟨h1, h3⟩

/-- `tcDecode` in terms of the unsigned value and the half-range threshold -/
theorem tcDecode_snoc (init : List Nat) (t : Nat) :
    tcDecode (init ++ [t]) =
      if t > 127 then (valBase 256 (init ++ [t]) : Int) - ((256 ^ (init.length + 1) : Nat) : Int)
      else (valBase 256 (init ++ [t]) : Int) := by
  unfold tcDecode
  simp

theorem top_gt_iff {init : List Nat} {t : Nat} (hi : Below 256 init) :
    t > 127 ↔ 128 * 256 ^ init.length ≤ valBase 256 (init ++ [t]) := by
  have hv := valBase_lt hi
  rw [valBase_append]
  simp only [valBase, Nat.mul_zero, Nat.add_zero]
  generalize valBase 256 init = x at *
  have hp : 0 < 256 ^ init.length := Nat.pow_pos (by decide)
  generalize 256 ^ init.length = p at *
  constructor
  · intro h
    have : 128 * p ≤ p * t := by nlinarith
    omega
  · intro h
    by_contra hc
    have : p * t ≤ p * 127 := Nat.mul_le_mul_left _ (by omega)
    omega

/-- range of an `n`-byte two's-complement string -/
theorem tcDecode_range {bs : List Nat} (hb : Below 256 bs) (hne : bs ≠ []) :
    - ((128 * 256 ^ (bs.length - 1) : Nat) : Int) ≤ tcDecode bs ∧
    tcDecode bs < ((128 * 256 ^ (bs.length - 1) : Nat) : Int) := by
  rcases List.eq_nil_or_concat bs with h | ⟨init, t, rfl⟩
  · exact absurd h hne
  · simp only [List.concat_eq_append] at *
    rw [tcDecode_snoc]
    have hv := valBase_lt hb
    have hiff := top_gt_iff (t := t) hb.left
    simp only [List.length_append, List.length_cons, List.length_nil, Nat.zero_add, Nat.add_sub_cancel] at *
    rw [pow_succ] at hv ⊢
    generalize valBase 256 (init ++ [t]) = v at *
    generalize 256 ^ init.length = p at *
    by_cases ht : t > 127
    · simp only [ht, if_true]
      have := hiff.mp ht
      push_cast
      omega
    · simp only [ht, if_false]
      have : ¬ (128 * p ≤ v) := fun h => ht (hiff.mpr h)
      push_cast
      omega


theorem tcDecode_eq {bs : List Nat} (hb : Below 256 bs) (hne : bs ≠ []) :
    tcDecode bs =
      if 128 * 256 ^ (bs.length - 1) ≤ valBase 256 bs
      then (valBase 256 bs : Int) - ((256 ^ bs.length : Nat) : Int) else (valBase 256 bs : Int) := by
  rcases List.eq_nil_or_concat bs with h | ⟨init, t, rfl⟩
  · exact absurd h hne
  · simp only [List.concat_eq_append] at *
    rw [tcDecode_snoc]
    have hiff := top_gt_iff (t := t) hb.left
    simp only [List.length_append, List.length_cons, List.length_nil, Nat.zero_add, Nat.add_sub_cancel]
    by_cases ht : t > 127
    · simp only [ht, if_true, hiff.mp ht]
    · have : ¬ (128 * 256 ^ init.length ≤ valBase 256 (init ++ [t])) := fun h => ht (hiff.mpr h)
      simp only [ht, this, if_false]

/-- an encoding whose value lies outside the range of the next shorter length is a shortest one -/
theorem minimal_of_outside {v : Int} {n : Nat} (hn : 1 ≤ n)
    (hout : 2 ≤ n → (v < - ((128 * 256 ^ (n - 2) : Nat) : Int) ∨ ((128 * 256 ^ (n - 2) : Nat) : Int) ≤ v)) :
    ∀ bs, Below 256 bs → bs ≠ [] → tcDecode bs = v → n ≤ bs.length := by
  intro bs hb hne hv
  by_contra hlt
  have hlen : 0 < bs.length := List.length_pos_iff.mpr hne
  have h2 : 2 ≤ n := by omega
  obtain ⟨r1, r2⟩ := tcDecode_range hb hne
  have hp : 256 ^ (bs.length - 1) ≤ 256 ^ (n - 2) := Nat.pow_le_pow_right (by decide) (by omega)
  rw [hv] at r1 r2
  generalize 256 ^ (bs.length - 1) = a at *
  generalize 256 ^ (n - 2) = b at *
  rcases hout h2 with h | h <;> push_cast at * <;> omega

/-- the decision core of `to_signed_bytes_le` on the bytes `init ++ [t]` of a non-zero magnitude -/
theorem signed_core (init : List Nat) (t : Nat) (hb : Below 256 (init ++ [t])) (ht0 : t ≠ 0) (neg : Bool) :
    let bytes := init ++ [t]
    let b2 := if t > 127 ∧ ¬ (t = 128 ∧ (bytes.reverse.drop 1).all (· == 0) ∧ neg = true) then bytes ++ [0] else bytes
    let out := if neg = true then twosGo true b2 else b2
    let m : Int := (valBase 256 bytes : Int)
    let v : Int := if neg = true then - m else m
    Below 256 out ∧ out ≠ [] ∧ tcDecode out = v ∧
    (2 ≤ out.length → (v < - ((128 * 256 ^ (out.length - 2) : Nat) : Int) ∨ ((128 * 256 ^ (out.length - 2) : Nat) : Int) ≤ v)) := by
  intro bytes b2 out m v
  have hbi := hb.left
  have htlt : t < 256 := hb t (by simp)
  have hvi := valBase_lt hbi
  have hall : ((bytes.reverse.drop 1).all (· == 0)) = true ↔ valBase 256 init = 0 := by
    have : bytes.reverse.drop 1 = init.reverse := by simp [bytes]
    rw [this, List.all_reverse]
    exact all_zero_iff_valBase 256 (by decide) init
  have hm : valBase 256 bytes = valBase 256 init + 256 ^ init.length * t := by
    simp [bytes, valBase_append, valBase]
  have hp : 0 < 256 ^ init.length := Nat.pow_pos (by decide)
  have hlen : bytes.length = init.length + 1 := by simp [bytes]
  have hbb : Below 256 bytes := hb
  have hb0 : Below 256 (bytes ++ [0]) := hbb.append (Below.cons (by decide) Below.nil)
  have hv0 : valBase 256 (bytes ++ [0]) = valBase 256 bytes := by simp [valBase_append, valBase]
  -- the predecessor power, for the minimality clause
  have hq : init.length ≥ 1 → 256 ^ init.length = 256 * 256 ^ (init.length - 1) := by
    intro h
    obtain ⟨k, hk⟩ : ∃ k, init.length = k + 1 := ⟨init.length - 1, by omega⟩
    rw [hk, pow_succ]; simp; ring
  by_cases hext : t > 127 ∧ ¬ (t = 128 ∧ (bytes.reverse.drop 1).all (· == 0) ∧ neg = true)
  · -- extended by one zero byte
    have hb2 : b2 = bytes ++ [0] := if_pos hext
    have hb2len : b2.length = init.length + 2 := by rw [hb2]; simp [hlen]
    cases hneg : neg with
    | false =>
      have ho : out = bytes ++ [0] := by simp only [out, hneg, hb2]; simp
      have hvv : v = m := by simp only [v, hneg]; simp
      rw [ho, hvv]
      refine ⟨hb0, by simp, ?_, ?_⟩
      · rw [tcDecode_snoc]; simp only [show ¬ (0 > 127) by decide, if_false, hv0]; rfl
      · intro _
        right
        simp only [List.length_append, hlen, List.length_cons, List.length_nil]
        have := (top_gt_iff (t := t) hbi).mp hext.1
        simp only [m]
        rw [show init.length + 1 + (0 + 1) - 2 = init.length by omega]
        exact_mod_cast this
    | true =>
      obtain ⟨t1, t2, t3⟩ := twosGo_true_spec (bytes ++ [0]) hb0
      have ho : out = twosGo true (bytes ++ [0]) := by simp only [out, hneg, hb2]; simp
      have hvv : v = - m := by simp only [v, hneg]; simp
      have hgt : 128 * 256 ^ init.length < valBase 256 bytes := by
        have h1 := (top_gt_iff (t := t) hbi).mp hext.1
        have h2 : ¬ (t = 128 ∧ valBase 256 init = 0) := by
          intro h; exact hext.2 ⟨h.1, hall.mpr h.2, hneg⟩
        rw [hm] at h1 ⊢
        by_contra hc
        have heq : valBase 256 init + 256 ^ init.length * t = 128 * 256 ^ init.length := by omega
        generalize valBase 256 init = x at *
        generalize 256 ^ init.length = p at *
        have ht : t = 128 := by
          by_contra hne
          rcases Nat.lt_or_ge t 128 with h | h
          · omega
          · have : p * 129 ≤ p * t := Nat.mul_le_mul_left _ (by omega)
            omega
        subst ht
        exact h2 ⟨rfl, by omega⟩
      have hmlt : valBase 256 bytes < 256 ^ (init.length + 1) := by
        have := valBase_lt hbb; rwa [hlen] at this
      have hone : out.length = init.length + 2 := by rw [ho, t1]; simp [hlen]
      have hne : out ≠ [] := by intro h; rw [h] at hone; simp at hone
      rw [hvv]
      refine ⟨by rw [ho]; exact t2, hne, ?_, ?_⟩
      · rw [tcDecode_eq (by rw [ho]; exact t2) hne, hone]
        rw [ho]
        rw [hv0] at t3
        have hmne : ¬ (valBase 256 bytes = 0) := by omega
        simp only [hmne, if_false, List.length_append, hlen, List.length_cons, List.length_nil] at t3
        have e1 : 256 ^ (init.length + 1) = 256 * 256 ^ init.length := by ring
        have e2 : 256 ^ (init.length + 2) = 65536 * 256 ^ init.length := by ring
        rw [show init.length + 2 - 1 = init.length + 1 by omega]
        rw [show init.length + 1 + (0 + 1) = init.length + 2 by omega] at t3
        rw [e1] at hmlt ⊢
        rw [e2] at t3 ⊢
        simp only [m]
        generalize valBase 256 (twosGo true (bytes ++ [0])) = V at *
        generalize valBase 256 bytes = M at *
        generalize 256 ^ init.length = p at *
        have : 128 * (256 * p) ≤ V := by omega
        simp only [this, if_true]
        push_cast
        omega
      · intro _
        left
        rw [hone, show init.length + 2 - 2 = init.length by omega]
        simp only [m]
        have : ((128 * 256 ^ init.length : Nat) : Int) < (valBase 256 bytes : Int) := by exact_mod_cast hgt
        omega
  · -- not extended
    have hb2 : b2 = bytes := if_neg hext
    have hmin : 2 ≤ init.length + 1 → 128 * 256 ^ (init.length + 1 - 2) < valBase 256 bytes ∨
        128 * 256 ^ (init.length + 1 - 2) ≤ valBase 256 bytes := by
      intro h2
      right
      have := hq (by omega)
      rw [show init.length + 1 - 2 = init.length - 1 by omega, hm]
      generalize valBase 256 init = x at *
      generalize 256 ^ (init.length - 1) = q at *
      rw [this]
      have : 256 * q * 1 ≤ 256 * q * t := Nat.mul_le_mul_left _ (by omega)
      omega
    cases hneg : neg with
    | false =>
      have ho : out = bytes := by simp only [out, hneg, hb2]; simp
      have hvv : v = m := by simp only [v, hneg]; simp
      have ht : ¬ (t > 127) := by
        intro h; apply hext; refine ⟨h, ?_⟩; rintro ⟨_, _, h3⟩; rw [hneg] at h3; cases h3
      rw [ho, hvv]
      refine ⟨hbb, by simp [bytes], ?_, ?_⟩
      · simp only [bytes]; rw [tcDecode_snoc]; simp only [ht, if_false, m, bytes]
      · intro h2
        right
        rw [hlen] at h2 ⊢
        rcases hmin h2 with h | h
        · simp only [m]; exact_mod_cast (le_of_lt h)
        · simp only [m]; exact_mod_cast h
    | true =>
      obtain ⟨t1, t2, t3⟩ := twosGo_true_spec bytes hbb
      have ho : out = twosGo true bytes := by simp only [out, hneg, hb2]; simp
      have hvv : v = - m := by simp only [v, hneg]; simp
      have hle : valBase 256 bytes ≤ 128 * 256 ^ init.length := by
        rw [hm]
        by_cases ht : t > 127
        · have : t = 128 ∧ valBase 256 init = 0 := by
            by_contra hc
            apply hext
            refine ⟨ht, ?_⟩
            rintro ⟨h1, h2, _⟩
            exact hc ⟨h1, hall.mp h2⟩
          rw [this.1, this.2]; omega
        · generalize valBase 256 init = x at *
          generalize 256 ^ init.length = p at *
          have : p * t ≤ p * 127 := Nat.mul_le_mul_left _ (by omega)
          omega
      have hmpos : 0 < valBase 256 bytes := by
        rw [hm]
        have : 256 ^ init.length * 1 ≤ 256 ^ init.length * t := Nat.mul_le_mul_left _ (by omega)
        omega
      have hone : out.length = init.length + 1 := by rw [ho, t1, hlen]
      have hne : out ≠ [] := by intro h; rw [h] at hone; simp at hone
      rw [hvv]
      refine ⟨by rw [ho]; exact t2, hne, ?_, ?_⟩
      · rw [tcDecode_eq (by rw [ho]; exact t2) hne, hone]
        rw [ho]
        have hmne : ¬ (valBase 256 bytes = 0) := by omega
        simp only [hmne, if_false, hlen] at t3
        have e1 : 256 ^ (init.length + 1) = 256 * 256 ^ init.length := by ring
        rw [show init.length + 1 - 1 = init.length by omega]
        rw [e1] at t3 ⊢
        simp only [m]
        generalize valBase 256 (twosGo true bytes) = V at *
        generalize valBase 256 bytes = M at *
        generalize 256 ^ init.length = p at *
        have : 128 * p ≤ V := by omega
        simp only [this, if_true]
        push_cast
        omega
      · intro h2
        left
        rw [hone] at h2 ⊢
        simp only [m]
        rcases hmin h2 with h | h
        · have : ((128 * 256 ^ (init.length + 1 - 2) : Nat) : Int) < (valBase 256 bytes : Int) := by exact_mod_cast h
          omega
        · -- equality cannot happen: the magnitude is at least 256^(L-1) > 128·256^(L-2)
          have hq' := hq (by omega)
          rw [show init.length + 1 - 2 = init.length - 1 by omega] at h ⊢
          have hge : 256 ^ init.length ≤ valBase 256 bytes := by
            rw [hm]
            have : 256 ^ init.length * 1 ≤ 256 ^ init.length * t := Nat.mul_le_mul_left _ (by omega)
            omega
          have hqpos : 0 < 256 ^ (init.length - 1) := Nat.pow_pos (by decide)
          have : ((128 * 256 ^ (init.length - 1) : Nat) : Int) < (valBase 256 bytes : Int) := by
            have : 128 * 256 ^ (init.length - 1) < valBase 256 bytes := by
              rw [hq'] at hge; omega
            exact_mod_cast this
          omega


/-- what `to_signed_bytes_le` returns when the magnitude bytes are `init ++ [t]` -/
def coreOut (init : List Nat) (t : Nat) (neg : Bool) : List Nat :=
  let bytes := init ++ [t]
  let b2 := if t > 127 ∧ ¬ (t = 128 ∧ (bytes.reverse.drop 1).all (· == 0) ∧ neg = true) then bytes ++ [0] else bytes
  if neg = true then twosGo true b2 else b2

theorem signed_core' (init : List Nat) (t : Nat) (hb : Below 256 (init ++ [t])) (ht0 : t ≠ 0) (neg : Bool) :
    Below 256 (coreOut init t neg) ∧ coreOut init t neg ≠ [] ∧
    tcDecode (coreOut init t neg) = (if neg = true then - (valBase 256 (init ++ [t]) : Int) else (valBase 256 (init ++ [t]) : Int)) ∧
    (2 ≤ (coreOut init t neg).length →
      ((if neg = true then - (valBase 256 (init ++ [t]) : Int) else (valBase 256 (init ++ [t]) : Int))
          < - ((128 * 256 ^ ((coreOut init t neg).length - 2) : Nat) : Int) ∨
       ((128 * 256 ^ ((coreOut init t neg).length - 2) : Nat) : Int)
          ≤ (if neg = true then - (valBase 256 (init ++ [t]) : Int) else (valBase 256 (init ++ [t]) : Int)))) :=
  signed_core init t hb ht0 neg

theorem toSignedBytesLe_eq_core (s : Sign) (m init : List Nat) (t : Nat) (h1 : toBytesLe m = .ok (init ++ [t])) :
    toSignedBytesLe ⟨s, m⟩ = .ok (coreOut init t (decide (s = .minus))) := by
  unfold toSignedBytesLe coreOut
  simp only [h1]
  cases s <;> simp [twosComplementLe]

end NB.Bytes
