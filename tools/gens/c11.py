"""C11 — integer roots request generator.

Structure: value class (x < 2^64: primitive fast path; 2^64..2^1024: finite f64 guess; > 2^1024:
scaled recursive guess or the 1<<max_bits fallback; the to_f64 overflow edge 2^1024 - 2^970)
x shape (random, perfect power r^n, r^n +- 1, powers of two, all-ones) x degree
(1,2,3,4,5,7,16,63,64,65, bits-1, bits, bits+1, u32::MAX, 0) x sign (BigInt);
plus a few 300..1200-digit operands so that the multiplications/divisions inside the Newton closures reach
Karatsuba, Toom-3 and long Knuth division (the model column is the digit-level model NB.Model.RootsD).
"""
from genlib import *

U32MAX = (1 << 32) - 1
DEGREES = [1, 2, 3, 4, 5, 7, 16, 63, 64, 65]

def iroot(x, n):
    """python floor root (only used to build perfect powers)"""
    if x < 2:
        return x
    lo, hi = 1, 1 << (x.bit_length() // n + 1)
    while hi - lo > 1:
        mid = (lo + hi) // 2
        if mid ** n <= x:
            lo = mid
        else:
            hi = mid
    return lo

def rand_bits(rng, nb):
    if nb <= 0:
        return 0
    return (1 << (nb - 1)) | rng.getrandbits(nb - 1) if nb > 1 else 1

def emit(reqs, rng, x, n, signed_too=True):
    """one BigUint request and (sometimes) BigInt requests of both signs"""
    if n == 2 and rng.randrange(2):
        reqs.append("C11 u.sqrt %s" % wu(x))
    elif n == 3 and rng.randrange(2):
        reqs.append("C11 u.cbrt %s" % wu(x))
    else:
        reqs.append("C11 u.nth_root %s %d" % (wu(x), n))
    if signed_too:
        k = rng.randrange(6)
        if k == 0:
            reqs.append("C11 i.nth_root %s %d" % (wi(-x), n))
        elif k == 1:
            reqs.append("C11 i.nth_root %s %d" % (wi(x), n))
        elif k == 2 and n == 2:
            reqs.append("C11 i.sqrt %s" % wi(signed(rng, x)))
        elif k == 2 and n == 3:
            reqs.append("C11 i.cbrt %s" % wi(signed(rng, x)))

def degrees_for(rng, x):
    b = x.bit_length()
    ds = list(DEGREES)
    for d in (b - 1, b, b + 1, b // 2, b // 2 + 1):
        if 1 <= d <= U32MAX:
            ds.append(d)
    ds += [U32MAX, U32MAX - 1]
    return ds

def gen(rng, tier):
    thorough = tier == "thorough"
    reqs = []
    # -- small values: everything near the short-cuts, all degrees incl. 0
    smalls = [0, 1, 2, 3, 4, 7, 8, 9, 15, 16, 17, 26, 27, 28, 63, 64, 65, 255, 256, (1 << 32) - 1, 1 << 32, (1 << 63) - 1,
              1 << 63, (1 << 64) - 1, 1 << 64, (1 << 64) + 1]
    for x in smalls:
        for n in [0, 1, 2, 3, 4, 5, 63, 64, 65, U32MAX]:
            reqs.append("C11 u.nth_root %s %d" % (wu(x), n))
            reqs.append("C11 i.nth_root %s %d" % (wi(x), n))
            if x:
                reqs.append("C11 i.nth_root %s %d" % (wi(-x), n))
        reqs.append("C11 u.sqrt %s" % wu(x)); reqs.append("C11 u.cbrt %s" % wu(x))
        reqs.append("C11 i.sqrt %s" % wi(x)); reqs.append("C11 i.cbrt %s" % wi(x))
        if x:
            reqs.append("C11 i.sqrt %s" % wi(-x)); reqs.append("C11 i.cbrt %s" % wi(-x))
    # -- bit-length classes
    cls_small = [rng.randrange(2, 65) for _ in range(10 if not thorough else 60)]
    cls_mid = [65, 66, 100, 127, 128, 129, 500, 1000, 1022, 1023, 1024] + [rng.randrange(65, 1025) for _ in range(12 if not thorough else 150)]
    big_hi = 8000 if thorough else 3000
    cls_big = [1025, 1026, 1030, 1088, 1089, 1100, 2047, 2048, 2049] + [rng.randrange(1025, big_hi) for _ in range(10 if not thorough else 120)]
    for nb in cls_small + cls_mid + cls_big:
        shapes = [rand_bits(rng, nb), (1 << nb) - 1, 1 << (nb - 1), (1 << (nb - 1)) + 1]
        if nb > 64:
            shapes.append(val(canon(digits(rng, (nb + 63) // 64), rng)))
        for x in shapes:
            ds = degrees_for(rng, x)
            if not thorough:
                ds = DEGREES[:4] + rng.sample(ds, 5)
            for n in ds:
                emit(reqs, rng, x, n)
    # -- the to_f64 overflow edge (finite below 2^1024 - 2^970, infinite from there on)
    edge = (1 << 1024) - (1 << 970)
    for x in [edge - 1, edge, edge + 1, (1 << 1024) - 1, 1 << 1024, (1 << 1023) - 1, 1 << 1023]:
        for n in [2, 3, 4, 5, 7, 64, 511, 512, 1023, 1024, 1025]:
            emit(reqs, rng, x, n)
    # -- perfect powers r^n, r^n +- 1 in every class
    targets = [40, 64, 65, 130, 700, 1024, 1025, 1100, 2100] + ([5000] if thorough else [])
    for n in DEGREES[1:] + [9, 33]:
        for tb in targets:
            rb = max(1, tb // n)
            for _ in range(2 if not thorough else 6):
                r = rand_bits(rng, rb) if rng.randrange(3) else (1 << rb) - 1
                p = r ** n
                for x in (p - 1, p, p + 1):
                    if x >= 0:
                        emit(reqs, rng, x, n)
                # neighbours: degree off by one on a perfect power
                emit(reqs, rng, p, n + 1, signed_too=False)
    # -- large degree relative to bit length above 2^1024 (fallback arm of the scaled guess)
    for nb in [1025, 1500, 2047, 2048] + ([6000] if thorough else []):
        x = rand_bits(rng, nb)
        for n in [nb // 2 - 1, nb // 2, nb // 2 + 1, nb - 1024, max(4, nb - 1025), nb // 3, nb - 2, nb - 1, nb, nb + 1]:
            if n >= 1:
                emit(reqs, rng, x, n)
    # -- values that are exactly representable as floats (few significant bits) and whose root sits just
    #    below / at / above an integer: the regime where a float-based guess or shortcut looks "exact".
    #    Sparse roots r = 2^a + 2^b, 2^a ± 1, m·2^s; x = r^n, r^n ± 1, and x = m·2^s itself.
    for n in (2, 3, 4, 5, 7):
        for tb in (66, 70, 80, 90, 100, 104, 105, 106, 107, 120, 128, 160, 200, 400, 1000):
            rb = max(2, tb // n)
            cands = [(1 << rb) + 1, (1 << rb) - 1, (1 << rb) + (1 << rng.randrange(rb)), 3 << (rb - 1),
                     (rng.randrange(1, 1 << min(rb, 20)) | 1) << max(0, rb - 20)]
            for r in cands[: (5 if thorough else 3)]:
                p = r ** n
                for x in (p - 1, p, p + 1):
                    emit(reqs, rng, x, n, signed_too=False)
            # x = m * 2^s with m < 2^53 (lossless f64), random and all-ones mantissas
            for m in (rng.randrange(1, 1 << 53), (1 << 53) - 1, 1, 3):
                s_ = max(0, tb - m.bit_length())
                emit(reqs, rng, m << s_, n, signed_too=False)
    # -- squares / cubes of all-ones and of B^k (carry-heavy)
    for k in ([1, 2, 3, 8, 17] + ([40] if thorough else [])):
        for r in (val([MAX] * k), 1 << (64 * k), (1 << (64 * k)) + 1):
            for n in (2, 3, 4):
                p = r ** n
                for x in (p - 1, p, p + 1):
                    emit(reqs, rng, x, n)
    # -- large operands (300..1200 digits): the BigUint operators inside the closures leave the schoolbook
    #    regime -- s*s and s.pow(n-1) go through Karatsuba / half-Karatsuba / Toom-3 (smaller factor > 256
    #    digits for cbrt at 800 and n=4 at 1100 digits), self / .. through long Knuth divisions.  The driver's
    #    model column runs these on digit lists (NB.Model.RootsD), so they are kept few.
    big = [(300, 2), (800, 3), (1100, 4), (700, 5)]
    if thorough:
        big += [(520, 2), (900, 3), (1200, 4), (400, 7), (600, 6), (330, 2), (790, 3)]
    for nd, n in big:
        x = rand_bits(rng, 64 * nd - rng.randrange(64))
        emit(reqs, rng, x, n, signed_too=False)
        if thorough or n == 3:
            r = rand_bits(rng, (64 * nd) // n)
            for x in (r ** n - 1, r ** n):
                emit(reqs, rng, x, n, signed_too=False)
    # -- near-perfect powers of LARGE operands, every residue of the bit length mod 2n (a divide-and-conquer root that
    #    splits the operand and corrects once is wrong for one residue class and only just below a perfect power;
    #    C11-v1: sqrt above 16384 bits, bit length = 2 mod 4): x = (a·2^k)^n − d, d = 0, 1, 2, and (a·2^k)^n + small,
    #    at 1030 … 16500 bits (quick: square roots at four sizes, one cube root)
    sizes = [(1030, 2), (4100, 2), (16390, 2), (16500, 2), (9000, 3)] + ([(8200, 2), (20000, 2), (33000, 2), (16400, 3), (16400, 4), (5000, 5)] if thorough else [])
    for tb, n in sizes:
        for res in range(2 * n):
            bits = tb + res
            rb = -(-bits // n)                     # the root has about bits/n bits
            j = rng.randrange(2, 30)
            a = rng.randrange((1 << j) * 5 // 7, 1 << (j + 1)) | 1
            k = max(0, rb - a.bit_length())
            r = a << k
            p = r ** n
            for x in ((p - 1, p) if not thorough else (p - 2, p - 1, p, p + 1)):
                emit(reqs, rng, x, n, signed_too=False)
    # -- tiny roots with large degrees: x = Q·r^(n-1) + small with the Newton quotient floor(x / r^(n-1)) = Q at and above the
    #    machine-word boundaries (2^64, 2^64 + 1, 2^65, 2^127, 2^128 …) while the root is still r: an iteration carried
    #    in a machine word with the quotient narrowed instead of saturated overshoots exactly there (C11-y1)
    for r in (2, 3, 4, 7):
        for Q in (1 << 64, (1 << 64) + 1, (1 << 64) + r - 1, 1 << 65, (1 << 127) + 1, 1 << 128, (1 << 128) + 1, 3 << 64, (1 << 63) + 1, 1 << 32):
            n = 2
            while Q * r ** (n - 1) >= (r + 1) ** n:
                n += 1
            for nn in ((n, n + 1, n + 7, 2 * n) if thorough else (n, n + rng.randrange(1, 9))):
                base = Q * r ** (nn - 1)
                for x in (base, base + 1, base + rng.randrange(r ** (nn - 1))):
                    if x < (r + 1) ** nn:
                        emit(reqs, rng, x, nn, signed_too=(nn % 2 == 1))
    # -- perfect powers of TINY bases at large degrees, r^n − 1, r^n, r^n + 1 for r = 2 … 7, 10 and a spread of degrees up
    #    to 2000 (3000): a shortcut "the root is 1 / 2 / r when the bit length is below c·n" with a rounded constant is
    #    wrong only in a narrow band just above r^n for particular degrees (C11-j1: log2 3 rounded to 1.585)
    degs = [26, 53, 64, 65, 100, 106, 200, 253, 306, 359, 400, 453, 500, 506, 1000, 1024, 2000] + ([127, 128, 300, 600, 1500, 2048, 3000] if thorough else [])
    for r in (2, 3, 4, 5, 6, 7, 10):
        for n in (degs if thorough or r in (2, 3) else rng.sample(degs, 6)):
            p = r ** n
            for x in (p - 1, p, p + 1):
                emit(reqs, rng, x, n, signed_too=(n % 2 == 1 and r == 3))
    # -- operands of 100 … 112 bits of the form r² + k·r, r² + k·r ± 1 (r of 50 … 56 bits): where an f64 estimate of the
    #    root is within 1 below 2^53 and within 2 above, and the input itself is rounded (C11-h1)
    for rb in range(50, 57):
        for _ in range((12 if rb not in (54, 55) else 120) if not thorough else 300):
            r = rng.randrange(1 << (rb - 1), 1 << rb)
            k = rng.choice([0, 1, 2, r - 1, r, r + 1, 2 * r - 1, 2 * r, rng.randrange(2 * r), rng.randrange(2 * r), rng.randrange(2 * r)])
            for x in (r * r + k, r * r + k - 1 if r * r + k > 0 else 0, r * r + k * 1 + 1):
                emit(reqs, rng, x, 2, signed_too=False)
    reqs += inherent_methods(rng, thorough)
    return reqs


def inherent_methods(rng, thorough):
    """api-coverage block: the INHERENT `BigUint::{sqrt,cbrt,nth_root}` / `BigInt::{sqrt,cbrt,nth_root}` (ops `*_m`) on
    every regime of the trait stream: short-cuts (0, 1, n = 0/1, bits <= n), the u64 path, the finite-f64 guess,
    the scaled guess above 2^1024, perfect powers and their neighbours, negative BigInt with even/odd degree."""
    out = []
    xs = [0, 1, 2, 3, 8, 9, 26, 27, 28, (1 << 64) - 1, 1 << 64, (1 << 64) + 1]
    for nb in [70, 127, 128, 129, 640, 1023, 1024, 1025, 1100, 2049] + ([4000, 7000] if thorough else []):
        xs += [rand_bits(rng, nb), (1 << nb) - 1, 1 << (nb - 1)]
    for n in (2, 3, 5, 7):
        for tb in (60, 130, 700, 1100) + ((3000,) if thorough else ()):
            r = rand_bits(rng, max(1, tb // n))
            p = r ** n
            xs += [p - 1, p, p + 1]
    edge = (1 << 1024) - (1 << 970)
    xs += [edge - 1, edge, edge + 1]
    for x in xs:
        out.append("C11 u.sqrt_m %s" % wu(x)); out.append("C11 u.cbrt_m %s" % wu(x))
        out.append("C11 i.sqrt_m %s" % wi(x)); out.append("C11 i.cbrt_m %s" % wi(x))
        if x:
            out.append("C11 i.sqrt_m %s" % wi(-x)); out.append("C11 i.cbrt_m %s" % wi(-x))
        b = x.bit_length()
        for n in [0, 1, 2, 3, 4, 5, 64] + [d for d in (b - 1, b, b + 1) if 1 <= d <= U32MAX] + [U32MAX]:
            out.append("C11 u.nth_root_m %s %d" % (wu(x), n))
            out.append("C11 i.nth_root_m %s %d" % (wi(x if rng.randrange(2) else -x), n))
    return out


def _parse(t):
    neg = t.startswith("-")
    body = t[1:] if (t[0] in "+-" or t.startswith("0.")) else t
    v = 0
    if body not in (".", ""):
        for d in reversed(body.split(",")):
            v = (v << 64) | int(d, 16)
    return -v if neg else v

PATHS = ["imaginary", "zeroroot", "x in {0,1}", "n=1", "bits<=n", "sqrt:u64", "sqrt:f64", "sqrt:scaled", "cbrt:u64", "cbrt:f64",
         "cbrt:scaled", "nth:u64", "nth:f64", "nth:scaled", "nth:fallback"]

def paths(lines):
    """which arm of nth_root/sqrt/cbrt each request reaches (computed from the request alone; the
    f64 arm is finite below 2^1024 - 2^970)"""
    edge = (1 << 1024) - (1 << 970)
    c = {k: 0 for k in PATHS}
    for r in lines:
        t = r.split()
        if len(t) < 3 or t[0] != "C11":
            continue
        op, x = t[1], _parse(t[2])
        n = int(t[3]) if len(t) > 3 else (2 if "sqrt" in op else 3)
        if op.startswith("i.") and x < 0 and n % 2 == 0:
            c["imaginary"] += 1; continue
        x = abs(x)
        if n == 0:
            c["zeroroot"] += 1; continue
        if x < 2:
            c["x in {0,1}"] += 1; continue
        if n == 1:
            c["n=1"] += 1; continue
        b = x.bit_length()
        kind = "sqrt" if n == 2 else "cbrt" if n == 3 else "nth"
        if kind == "nth" and b <= n:
            c["bits<=n"] += 1
        elif x < (1 << 64):
            c[kind + ":u64"] += 1
        elif x < edge:
            c[kind + ":f64"] += 1
        elif kind != "nth":
            c[kind + ":scaled"] += 1
        else:
            e = b - 1023
            sc = -(-e // n) * n
            c["nth:scaled" if (sc < b and b - sc > n) else "nth:fallback"] += 1
    return c


def special(ctx):
    """config independence on the real crate: build the harness a second time with num-bigint's `std`
    feature off (the `#[cfg(not(feature = "std"))]` guess `1 << max_bits` is compiled instead of the
    f64 guesses) and require its answers on the whole C11 stream to be byte-identical to the std build."""
    import os, random
    out = {"coverage": {}, "violations": [], "errors": [], "notes": []}
    std_bin = ctx["bins"].get("release")
    if not std_bin:
        return out
    verif = ctx["verif"]
    tdir = os.path.join(verif, "build", "cargo-nostd")
    rc, log = ctx["sh"](["cargo", "build", "--offline", "--release", "--no-default-features"],
                        cwd=os.path.join(verif, "harness"), timeout=1800, env={"CARGO_TARGET_DIR": tdir})
    if rc != 0:
        # the crate itself no longer builds without std: that is C16's subject, here only a note
        out["notes"].append("no_std harness build failed; config-independence run skipped: " + log[-200:])
        out["coverage"]["nostd_build"] = False
        return out
    nostd_bin = os.path.join(tdir, "release", "nbharness")
    lines = ctx.get("lines")
    if not lines:
        lines = []
        cpath = os.path.join(verif, "corpus", "C11.txt")
        if os.path.exists(cpath):
            lines += [l.strip() for l in open(cpath) if l.strip() and not l.startswith("#")]
        lines += gen(random.Random(ctx["seed"]), ctx["tier"])
    pc = paths(lines)
    out["coverage"]["paths"] = pc
    if not ctx.get("replay"):
        missing = [k for k, v in pc.items() if v == 0]
        if missing:
            out["errors"].append("C11 generator insufficient: no request reaches " + ", ".join(missing))
    def run_once(binp, timeout):
        """whole stream in one process (line-flushed); returns (complete result lines, status)"""
        import subprocess
        try:
            p = subprocess.run([binp, "--flush"], input="\n".join(lines) + "\n", stdout=subprocess.PIPE,
                               stderr=subprocess.DEVNULL, text=True, timeout=timeout)
            res, status = p.stdout.split("\n"), ("ok" if p.returncode == 0 else "fault:exit%s" % p.returncode)
        except subprocess.TimeoutExpired as e:
            so = e.stdout or ""
            if isinstance(so, bytes):
                so = so.decode(errors="replace")
            res, status = so.split("\n"), "timeout"
        if res and not (status == "ok" and res[-1] != ""):
            res.pop()          # drop the empty tail / a partial last line
        return res, status
    tmo = 120 + len(lines) // 200
    a, sa = run_once(std_bin, tmo)
    b, sb = run_once(nostd_bin, tmo)
    n = min(len(a), len(b), len(lines))
    diff = [i for i in range(n) if a[i] != b[i]]
    if (sa != "ok" or sb != "ok" or len(a) != len(lines) or len(b) != len(lines)) and n < len(lines):
        # one build stopped answering (non-termination / crash) at request n
        a = a + [sa if len(a) == n else "?"] * (len(lines) - len(a))
        b = b + [sb if len(b) == n else "?"] * (len(lines) - len(b))
        if a[n] != b[n]:
            diff.append(n)
        else:
            out["errors"].append("both harness builds stopped at request %d (%s/%s)" % (n, sa, sb))
    out["coverage"].update({"nostd_build": True, "nostd_requests": len(lines), "nostd_differences": len(diff)})
    if diff:
        diff.sort(key=lambda i: (a[i] in ("timeout",) or b[i] in ("timeout",), len(lines[i])))
        i = diff[0]
        try:
            m, o = ctx["run_driver"]([lines[i]])[0]
        except Exception:  # noqa: BLE001
            m, o = "?", "?"
        path = ctx["write_replay"](ctx["pid"], {"property": ctx["pid"], "kind": "config-dependence", "request": lines[i],
                                                "impl": a[i], "impl_nostd": b[i], "oracle": o, "model": m,
                                                "explanation": "std and no_std builds of the crate disagree on this request"})
        out["violations"].append((path, ""))
    return out
