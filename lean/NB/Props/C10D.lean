/-
  C10, one layer down — the DIGIT-level scalar leaves (NB.Model.ScalarD, namespace `NB.SD`) compute the
  value-level leaves of NB.Model.Scalar.

  NB.Props.C10 proves the value-level leaf impls (`uMulAssign`, `uDiv`, `iAddU`, …: the case analysis of the
  Rust source over mathematical `+ - * / %`) equal to the canonical big-by-big operations
  (`uScalarForm_spec`, `iScalarForm_spec`).  Here every leaf is re-stated on digit vectors, with each
  BigUint operator replaced by its digit-level model, and proved to REFINE the value-level leaf:

      digitLeaf P … a …  =  (valueLeaf … (val a) …).map ofNat            (BigUint; `a` canonical)
      digitLeaf P … a …  =  (valueLeaf … (toV a) …).map ofV              (BigInt;  `a` canonical)

  for every scalar value of the leaf type, under `P.ValidMul` where `mul3` is involved
  (`gen_params_valid_mul` instantiates it).  The operator theorems used: `dAddAssign_spec`,
  `dSubAssign_spec`, `dSubRev_spec` (C10 over C01), `scalar_mul_val`, `mul3_spec` (C02),
  `divRemDigit_spec'`, `remDigit_spec'`, `divRemVal_spec'` (the statements of C03's `div_rem_digit_spec`,
  `rem_digit_spec`, `div_rem_val_spec`, taken from NB.Lemmas.Div because NB.Props.C03 and NB.Props.C08 cannot
  be imported together: both declare `NB.neg_ofInt`), `biguint_to_spec`, `bigint_from_val` (C08),
  `cmpSlice_spec`, `fromU64_eq_ofNat`, `fromU128_eq_ofNat`.

  Headline: `dUScalarForm_refines`, `dIScalarForm_refines` (the whole promotion + leaf routing), and the
  transferred specs `dUScalarForm_spec`, `dIScalarForm_spec`: every `+ - * / %` form with a primitive scalar, on
  digit vectors, returns the canonical digits of the canonical operation (or its panic class).
  Nothing here is `_partial`.  The driver (NB.Drv.C10) computes the model column of these forms with
  `NB.SD.uScalarForm` / `NB.SD.iScalarForm` / `NB.SD.dRemAssignScalar`.
-/
import NB.Props.C10
import NB.Props.C02
import NB.Props.C08
import NB.Lemmas.Div
import NB.Lemmas.ScalarD
namespace NB
open NB.Conv

/-! ## BigUint leaves -/

theorem two_digits_ok {s : Nat} (hs : s < B * B) : DigitsOk [s % B, s / B] :=
  DigitsOk.cons (Nat.mod_lt _ B_pos) (DigitsOk.cons (Nat.div_lt_of_lt_mul hs) DigitsOk.nil)

theorem two_digits_val (s : Nat) : val [s % B, s / B] = s := by
  simp only [val, Nat.mul_zero, Nat.add_zero]; exact Nat.mod_add_div s B

/-- `MulAssign<u32|u64|u128> for BigUint` on digits (`scalar_mul`, or `mul3` with the two-digit operand
    `[lo, hi]`) returns the canonical digits of the value-level leaf, i.e. of `a * s` -/
theorem dMulAssign_spec (t : STy) (P : Params) (hP : P.ValidMul) (a : List Nat) (s : Nat) (ha : Canon a)
    (hs : s < SD.bound t) :
    SD.dMulAssign t P a s = .ok (ofNat (uMulAssign t (val a) s)) := by
  rw [uMulAssign_spec]
  unfold SD.dMulAssign
  cases t <;> simp only [SD.bound, reduceCtorEq, if_false, if_true] at hs <;>
    try (simp only []; rw [scalar_mul_val a s ha hs])
  by_cases h : s < B
  · simp only [h, if_true]; rw [scalar_mul_val a s ha h]
  · simp only [h, if_false]
    rw [mul3_spec P hP a _ ha.1 (two_digits_ok hs), two_digits_val]

theorem ofNat_ne_nil {n : Nat} (h : n ≠ 0) : ofNat n ≠ [] := fun e => h ((SD.ofNat_eq_nil_iff n).1 e)

/-- `div_rem(self, From::from(other))` for a scalar divisor -/
theorem divRemVal_scalar (P : Params) (a : List Nat) (t : STy) (s : Nat) (ha : Canon a) :
    divRemVal P a (SD.uFrom t s) =
      if s = 0 then .error .divzero else .ok (ofNat (val a / s), ofNat (val a % s)) := by
  rw [SD.uFrom_eq, divRemVal_spec' P a _ ha (ofNat_canon s), ofNat_val]
  by_cases h : s = 0
  · subst h; simp [SD.ofNat_zero]
  · simp only [ofNat_ne_nil h, h, if_false]

/-- `Div<u32> for BigUint` through `div_rem_digit`, `Div<u64|u128>` through `From` + `div_rem` -/
theorem dDiv_spec (t : STy) (P : Params) (a : List Nat) (s : Nat) (ha : Canon a) :
    SD.dDiv t P a s = (uDiv t (val a) s).map ofNat := by
  rw [uDiv_spec]
  have gen : (divRemVal P a (SD.uFrom t s)).map (·.1)
      = (if s = 0 then Except.error Panic.divzero else .ok (val a / s)).map ofNat := by
    rw [divRemVal_scalar P a t s ha]; split <;> rfl
  unfold SD.dDiv
  cases t <;> simp only [] <;> try exact gen
  by_cases h : s = 0
  · subst h; simp [divRemDigit, Except.map]
  · rw [divRemDigit_spec' a s ha.1 h]; simp only [h, if_false]; rfl

/-- `Rem<u32> for &BigUint` through `rem_digit`, `Rem<u64|u128>` through `From` + `div_rem` -/
theorem dRem_spec (t : STy) (P : Params) (a : List Nat) (s : Nat) (ha : Canon a) :
    SD.dRem t P a s = (uRem t (val a) s).map ofNat := by
  rw [uRem_spec]
  have gen : (divRemVal P a (SD.uFrom t s)).map (·.2)
      = (if s = 0 then Except.error Panic.divzero else .ok (val a % s)).map ofNat := by
    rw [divRemVal_scalar P a t s ha]; split <;> rfl
  unfold SD.dRem
  cases t <;> simp only [] <;> try exact gen
  by_cases h : s = 0
  · subst h; simp [remDigit, Except.map]
  · rw [remDigit_spec' a s ha.1 h]; simp only [h, if_false]
    show Except.ok (U.fromU64 (val a % s)) = _
    rw [fromU64_eq_ofNat]; rfl

/-- `Div<BigUint> for u32|u64|u128` through the digit-count match: a normalised divisor never hits the
    primitive division-by-zero, more digits than the scalar type holds give quotient zero -/
theorem dDivRev_spec (t : STy) (s : Nat) (a : List Nat) (ha : Canon a) :
    SD.dDivRev t s a = (uDivRev t s (val a)).map ofNat := by
  have h1 : ∀ d0, Canon [d0] → d0 ≠ 0 ∧ val [d0] = d0 := by
    intro d0 h; exact ⟨(canon_singleton h).1, by simp [val]⟩
  have h2 : ∀ d0 d1, Canon [d0, d1] → d1 * B + d0 ≠ 0 ∧ val [d0, d1] = d1 * B + d0 := by
    intro d0 d1 h
    have hd1 : d1 ≠ 0 := by
      intro e; subst e; exact h.2 (by simp)
    refine ⟨?_, by simp [val]; ring⟩
    have : 0 < d1 * B := Nat.mul_pos (Nat.pos_of_ne_zero hd1) B_pos
    omega
  unfold SD.dDivRev uDivRev
  rw [SD.nd_val ha]
  rcases a with _ | ⟨d0, _ | ⟨d1, _ | ⟨d2, r⟩⟩⟩
  · cases t <;> rfl
  · obtain ⟨hne, hv⟩ := h1 d0 ha
    cases t <;> simp only [List.length, hne, if_false, hv, Except.map, fromU64_eq_ofNat, fromU128_eq_ofNat]
  · obtain ⟨hne, hv⟩ := h2 d0 d1 ha
    cases t <;> simp only [List.length, hne, if_false, hv, Except.map, fromU128_eq_ofNat, SD.ofNat_zero]
  · cases t <;> simp only [List.length, Except.map, SD.ofNat_zero]

/-- `impl_rem_assign_scalar!` on digits (digit-level `to_T`, `BigInt::from(*self).magnitude() == other` as
    digit-vector equality) is the value-level leaf — for all 12 scalar types and every scalar value -/
theorem dRemAssignScalar_spec (t : STy) (s : Int) (a : List Nat) (ha : Canon a) (h : t.InRange s) :
    SD.dRemAssignScalar t s a = remAssignScalar t s (val a) := by
  unfold SD.dRemAssignScalar remAssignScalar toT
  rw [biguint_to_spec (SD.pty t) a ha, SD.pty_minV, SD.pty_maxV]
  have hlo : t.lo ≤ (val a : Int) := le_trans (SD.lo_nonpos t) (by omega)
  by_cases hfit : (val a : Int) ≤ t.hi
  · simp only [hlo, hfit, and_self, if_true]
    rcases hv : val a with _ | n
    · simp
    · have : ¬ (((n + 1 : Nat) : Int) = 0) := by omega
      simp only [this, if_false]
  · simp only [hlo, hfit, and_false, if_false]
    rw [bigint_from_val (SD.pty t) s ((SD.pty_inRange t s).2 h)]
    simp only [SD.ofInt_mag]
    by_cases he : magOf s = val a
    · have he' : s.natAbs = val a := he
      have : ofNat s.natAbs = a := by rw [he']; exact (canon_eq_ofNat ha).symm
      rw [if_pos this, if_pos he]
    · have : ¬ ofNat s.natAbs = a := by
        intro e; apply he; rw [← e, ofNat_val]; rfl
      rw [if_neg this, if_neg he]

/-- `Rem<&BigUint> for u32`, `Rem<BigUint> for u64|u128` on digits -/
theorem dRemRev_spec (t : STy) (s : Nat) (a : List Nat) (ha : Canon a) (hs : t.InRange (s : Int)) :
    SD.dRemRev t s a = (uRemRev t s (val a)).map ofNat := by
  unfold SD.dRemRev uRemRev
  rw [dRemAssignScalar_spec t s a ha hs, SD.map_map]
  exact SD.map_congr _ (fun r => SD.uFrom_eq t _)

/-! ## BigInt ± scalar -/

theorem bigint_neg_canon {a : BigInt} (h : a.Canon) : a.neg.Canon := by
  obtain ⟨sg, m⟩ := a
  obtain ⟨hc, hs⟩ := h
  refine ⟨hc, ?_⟩
  simp only [BigInt.neg] at hs ⊢
  rw [← hs]
  cases sg <;> simp [Sign.neg]

/-- `Add<u32|u64|u128> for BigInt` on digits: sign match, `cmp_slice` against `From::from(other)`, the
    digit-level `+=`, `-=`, `scalar - big` -/
theorem iAddU_refines (t : STy) (P : Params) (a : BigInt) (u : Nat) (ha : a.Canon) (hu : u < SD.bound t) :
    SD.iAddU t P a u = (iAddU t (SD.toV a) u).map SD.ofV := by
  obtain ⟨sg, m⟩ := a
  obtain ⟨hc, _⟩ := ha
  simp only at hc
  cases sg <;> simp only [SD.iAddU, iAddU, SD.toV]
  · rw [SD.cmpSlice_ofNat hc]
    cases cmpNat (val m) u <;> simp only []
    · rw [dSubRev_spec t u m hc hu]; exact SD.map_ofNat_ofV _ _ _ SD.fromBiguint_ofNat
    · show Except.ok _ = Except.ok _
      rw [SD.ofV_zero]
    · rw [dSubAssign_spec t P m u hc hu]
      exact SD.map_ofNat_ofV _ _ _ (fun n => by rw [SD.fromBiguint_ofNat, SD.ofV_neg])
  · show Except.ok _ = Except.ok _
    rw [SD.iFromU_eq]
  · rw [dAddAssign_spec t P m u hc hu]
    show Except.ok _ = Except.ok _
    rw [SD.fromBiguint_ofNat]

/-- `Sub<u32|u64|u128> for BigInt` on digits -/
theorem iSubU_refines (t : STy) (P : Params) (a : BigInt) (u : Nat) (ha : a.Canon) (hu : u < SD.bound t) :
    SD.iSubU t P a u = (iSubU t (SD.toV a) u).map SD.ofV := by
  obtain ⟨sg, m⟩ := a
  obtain ⟨hc, _⟩ := ha
  simp only at hc
  cases sg <;> simp only [SD.iSubU, iSubU, SD.toV]
  · rw [dAddAssign_spec t P m u hc hu]
    show Except.ok _ = Except.ok _
    rw [SD.fromBiguint_ofNat, SD.ofV_neg]
  · show Except.ok _ = Except.ok _
    rw [SD.iFromU_eq, SD.ofV_neg]
  · rw [SD.cmpSlice_ofNat hc]
    cases cmpNat (val m) u <;> simp only []
    · rw [dSubRev_spec t u m hc hu]
      exact SD.map_ofNat_ofV _ _ _ (fun n => by rw [SD.fromBiguint_ofNat, SD.ofV_neg])
    · show Except.ok _ = Except.ok _
      rw [SD.ofV_zero]
    · rw [dSubAssign_spec t P m u hc hu]; exact SD.map_ofNat_ofV _ _ _ SD.fromBiguint_ofNat

/-- `Sub<BigInt> for u32|u64|u128` on digits -/
theorem uSubI_refines (t : STy) (P : Params) (u : Nat) (a : BigInt) (ha : a.Canon) (hu : u < SD.bound t) :
    SD.uSubI t P u a = (uSubI t u (SD.toV a)).map SD.ofV := by
  unfold SD.uSubI uSubI
  rw [iSubU_refines t P a u ha hu, SD.map_map, SD.map_map]
  exact SD.map_congr _ (fun v => SD.ofV_neg v)

/-- what `checked_uabs` hands to the unsigned leaf fits the leaf's digit bound and its type -/
theorem uabs_bound (t : STy) (s : Int) (ht : t.signed = true) (h : t.InRange s) :
    (checkedUabs t s = .positive s ∧ s.toNat < SD.bound t.unsignedOf ∧ t.unsignedOf.InRange (s.toNat : Int)) ∨
    (checkedUabs t s = .negative (-s) ∧ (-s).toNat < SD.bound t.unsignedOf ∧
      t.unsignedOf.InRange ((-s).toNat : Int)) := by
  have hfit := (uabs_spec t s ht h).2
  have hus : t.unsignedOf.signed = false := by cases t <;> simp [STy.signed] at ht <;> rfl
  rcases uabs_cases t s ht h with ⟨hpos, e, hc⟩ | ⟨hneg, e, hc⟩
  · left
    rw [abs_of_nonneg hpos] at hfit
    exact ⟨e, SD.bound_of_inRange _ hus s hfit, by rw [hc]; exact hfit⟩
  · right
    rw [abs_of_neg hneg] at hfit
    exact ⟨e, SD.bound_of_inRange _ hus (-s) hfit, by rw [hc]; exact hfit⟩

theorem iAddS_refines (t : STy) (P : Params) (a : BigInt) (s : Int) (ht : t.signed = true) (h : t.InRange s)
    (ha : a.Canon) : SD.iAddS t P a s = (iAddS t (SD.toV a) s).map SD.ofV := by
  unfold SD.iAddS iAddS
  rcases uabs_bound t s ht h with ⟨e, hb, _⟩ | ⟨e, hb, _⟩ <;> rw [e] <;> simp only []
  · exact iAddU_refines _ P a _ ha hb
  · exact iSubU_refines _ P a _ ha hb

theorem iSubS_refines (t : STy) (P : Params) (a : BigInt) (s : Int) (ht : t.signed = true) (h : t.InRange s)
    (ha : a.Canon) : SD.iSubS t P a s = (iSubS t (SD.toV a) s).map SD.ofV := by
  unfold SD.iSubS iSubS
  rcases uabs_bound t s ht h with ⟨e, hb, _⟩ | ⟨e, hb, _⟩ <;> rw [e] <;> simp only []
  · exact iSubU_refines _ P a _ ha hb
  · exact iAddU_refines _ P a _ ha hb

theorem sSubI_refines (t : STy) (P : Params) (s : Int) (a : BigInt) (ht : t.signed = true) (h : t.InRange s)
    (ha : a.Canon) : SD.sSubI t P s a = (sSubI t s (SD.toV a)).map SD.ofV := by
  unfold SD.sSubI sSubI
  rcases uabs_bound t s ht h with ⟨e, hb, _⟩ | ⟨e, hb, _⟩ <;> rw [e] <;> simp only []
  · exact uSubI_refines _ P _ a ha hb
  · exact iSubU_refines _ P a.neg _ (bigint_neg_canon ha) hb

/-! ## BigInt * scalar -/

theorem iMulU_refines (t : STy) (P : Params) (hP : P.ValidMul) (a : BigInt) (u : Nat) (ha : a.Canon)
    (hu : u < SD.bound t) : SD.iMulU t P a u = .ok (SD.ofV (iMulU t (SD.toV a) u)) := by
  unfold SD.iMulU iMulU
  rw [dMulAssign_spec t P hP a.mag u ha.1 hu]
  show Except.ok _ = Except.ok _
  rw [SD.bigFromBiguint_ofNat]; rfl

theorem iMulAssignU_refines (t : STy) (P : Params) (hP : P.ValidMul) (a : BigInt) (u : Nat) (ha : a.Canon)
    (hu : u < SD.bound t) : SD.iMulAssignU t P a u = .ok (SD.ofV (iMulAssignU t (SD.toV a) u)) := by
  unfold SD.iMulAssignU iMulAssignU
  rw [dMulAssign_spec t P hP a.mag u ha.1 hu]
  show Except.ok _ = Except.ok _
  rw [SD.fixZero_ofNat]; rfl

theorem iMulS_refines (t : STy) (P : Params) (hP : P.ValidMul) (a : BigInt) (s : Int) (ht : t.signed = true)
    (h : t.InRange s) (ha : a.Canon) : SD.iMulS t P a s = .ok (SD.ofV (iMulS t (SD.toV a) s)) := by
  unfold SD.iMulS iMulS
  rcases uabs_bound t s ht h with ⟨e, hb, _⟩ | ⟨e, hb, _⟩ <;> rw [e] <;> simp only []
  · exact iMulU_refines _ P hP a _ ha hb
  · exact iMulU_refines _ P hP a.neg _ (bigint_neg_canon ha) hb

theorem iMulAssignS_refines (t : STy) (P : Params) (hP : P.ValidMul) (a : BigInt) (s : Int)
    (ht : t.signed = true) (h : t.InRange s) (ha : a.Canon) :
    SD.iMulAssignS t P a s = .ok (SD.ofV (iMulAssignS t (SD.toV a) s)) := by
  unfold SD.iMulAssignS iMulAssignS
  rcases uabs_bound t s ht h with ⟨e, hb, _⟩ | ⟨e, hb, _⟩ <;> rw [e] <;> simp only []
  · exact iMulAssignU_refines _ P hP a _ ha hb
  · rw [dMulAssign_spec _ P hP a.mag _ ha.1 hb]; rfl

/-! ## BigInt / scalar, scalar / BigInt, BigInt % scalar, scalar % BigInt -/

theorem iDivU_refines (t : STy) (P : Params) (a : BigInt) (u : Nat) (ha : a.Canon) :
    SD.iDivU t P a u = (iDivU t (SD.toV a) u).map SD.ofV := by
  unfold SD.iDivU iDivU
  rw [dDiv_spec t P a.mag u ha.1]
  exact SD.map_ofNat_ofV _ _ _ (SD.bigFromBiguint_ofNat a.sign)

theorem iDivAssignU_refines (t : STy) (P : Params) (a : BigInt) (u : Nat) (ha : a.Canon) :
    SD.iDivAssignU t P a u = (iDivAssignU t (SD.toV a) u).map SD.ofV := by
  unfold SD.iDivAssignU iDivAssignU
  rw [dDiv_spec t P a.mag u ha.1]
  exact SD.map_ofNat_ofV _ _ _ (SD.fixZero_ofNat a.sign)

theorem uDivI_refines (t : STy) (u : Nat) (a : BigInt) (ha : a.Canon) :
    SD.uDivI t u a = (uDivI t u (SD.toV a)).map SD.ofV := by
  unfold SD.uDivI uDivI
  rw [dDivRev_spec t u a.mag ha.1]
  exact SD.map_ofNat_ofV _ _ _ (SD.bigFromBiguint_ofNat a.sign)

theorem iDivS_refines (t : STy) (P : Params) (a : BigInt) (s : Int) (ha : a.Canon) :
    SD.iDivS t P a s = (iDivS t (SD.toV a) s).map SD.ofV := by
  unfold SD.iDivS iDivS
  cases checkedUabs t s <;> simp only []
  · exact iDivU_refines _ P a _ ha
  · exact iDivU_refines _ P a.neg _ (bigint_neg_canon ha)

theorem iDivAssignS_refines (t : STy) (P : Params) (a : BigInt) (s : Int) (ha : a.Canon) :
    SD.iDivAssignS t P a s = (iDivAssignS t (SD.toV a) s).map SD.ofV := by
  unfold SD.iDivAssignS iDivAssignS
  cases checkedUabs t s <;> simp only []
  · exact iDivAssignU_refines _ P a _ ha
  · exact iDivAssignU_refines _ P a.neg _ (bigint_neg_canon ha)

theorem sDivI_refines (t : STy) (s : Int) (a : BigInt) (ha : a.Canon) :
    SD.sDivI t s a = (sDivI t s (SD.toV a)).map SD.ofV := by
  unfold SD.sDivI sDivI
  cases checkedUabs t s <;> simp only []
  · exact uDivI_refines _ _ a ha
  · exact uDivI_refines _ _ a.neg (bigint_neg_canon ha)

theorem iRemU_refines (t : STy) (P : Params) (a : BigInt) (u : Nat) (ha : a.Canon) :
    SD.iRemU t P a u = (iRemU t (SD.toV a) u).map SD.ofV := by
  unfold SD.iRemU iRemU
  rw [dRem_spec t P a.mag u ha.1]
  exact SD.map_ofNat_ofV _ _ _ (SD.bigFromBiguint_ofNat a.sign)

theorem iRemAssignU_refines (t : STy) (P : Params) (a : BigInt) (u : Nat) (ha : a.Canon) :
    SD.iRemAssignU t P a u = (iRemAssignU t (SD.toV a) u).map SD.ofV := by
  unfold SD.iRemAssignU iRemAssignU
  rw [dRem_spec t P a.mag u ha.1]
  exact SD.map_ofNat_ofV _ _ _ (SD.fixZero_ofNat a.sign)

theorem uRemI_refines (t : STy) (u : Nat) (a : BigInt) (ha : a.Canon) (hu : t.InRange (u : Int)) :
    SD.uRemI t u a = (uRemI t u (SD.toV a)).map SD.ofV := by
  unfold SD.uRemI uRemI
  rw [dRemRev_spec t u a.mag ha.1 hu]
  exact SD.map_ofNat_ofV _ _ _ SD.fromBiguint_ofNat

theorem iRemS_refines (t : STy) (P : Params) (a : BigInt) (s : Int) (ha : a.Canon) :
    SD.iRemS t P a s = (iRemS t (SD.toV a) s).map SD.ofV :=
  iRemU_refines _ P a _ ha

theorem iRemAssignS_refines (t : STy) (P : Params) (a : BigInt) (s : Int) (ha : a.Canon) :
    SD.iRemAssignS t P a s = (iRemAssignS t (SD.toV a) s).map SD.ofV :=
  iRemAssignU_refines _ P a _ ha

theorem sRemI_refines (t : STy) (s : Int) (a : BigInt) (ht : t.signed = true) (h : t.InRange s) (ha : a.Canon) :
    SD.sRemI t s a = (sRemI t s (SD.toV a)).map SD.ofV := by
  unfold SD.sRemI sRemI
  rcases uabs_bound t s ht h with ⟨e, _, hr⟩ | ⟨e, _, hr⟩ <;> rw [e] <;> simp only []
  · exact uRemI_refines _ _ a ha hr
  · rw [uRemI_refines _ _ a ha hr, SD.map_map, SD.map_map]
    exact SD.map_congr _ (fun v => SD.ofV_neg v)

/-! ## headline: the whole promotion + leaf routing on digits refines the value-level routing -/

/-- EVERY BigUint scalar form on digit vectors (5 operators × 3 positions × 6 unsigned scalar types × every
    value of the type × every canonical big operand) returns the canonical digits of what the value-level
    form returns, or the same panic -/
theorem dUScalarForm_refines (P : Params) (hP : P.ValidMul) (op : AOp) (pos : SPos) (t : STy) (a : List Nat)
    (s : Int) (ha : Canon a) (ht : t.signed = false) (h : t.InRange s) :
    SD.uScalarForm P op pos t a s = (uScalarForm op pos t (val a) s).map ofNat := by
  obtain ⟨hc, hp⟩ := promo_lossless t s h
  have hps : t.promo.signed = false := by rw [promo_signed]; exact ht
  have hb := SD.bound_of_inRange t.promo hps s hp
  have h0 := inRange_unsigned_nonneg _ s hps hp
  have hsn : ((s.toNat : Nat) : Int) = s := by omega
  unfold SD.uScalarForm uScalarForm
  simp only [hc]
  cases op <;> cases pos <;> simp only []
  all_goals first
    | (rw [dAddAssign_spec _ P a _ ha hb]; rfl)
    | (rw [dMulAssign_spec _ P hP a _ ha hb]; rfl)
    | exact dSubRev_spec _ _ a ha hb
    | exact dSubAssign_spec _ P a _ ha hb
    | exact dDivRev_spec _ _ a ha
    | exact dDiv_spec _ P a _ ha
    | exact dRemRev_spec _ _ a ha (by rw [hsn]; exact hp)
    | exact dRem_spec _ P a _ ha

/-- EVERY BigInt scalar form on digit vectors (5 operators × 3 positions × 12 scalar types × every value of
    the type × every canonical big operand) returns the canonical BigInt of what the value-level form
    returns, or the same panic -/
theorem dIScalarForm_refines (P : Params) (hP : P.ValidMul) (op : AOp) (pos : SPos) (t : STy) (a : BigInt)
    (s : Int) (ha : a.Canon) (h : t.InRange s) :
    SD.iScalarForm P op pos t a s = (iScalarForm op pos t (SD.toV a) s).map SD.ofV := by
  obtain ⟨hc, hp⟩ := promo_lossless t s h
  unfold SD.iScalarForm iScalarForm
  simp only [hc]
  by_cases hsg : t.promo.signed = true
  · simp only [hsg, if_true]
    cases op <;> cases pos <;> simp only []
    all_goals first
      | exact iAddS_refines _ P a s hsg hp ha
      | exact iSubS_refines _ P a s hsg hp ha
      | exact sSubI_refines _ P s a hsg hp ha
      | (rw [iMulS_refines _ P hP a s hsg hp ha]; rfl)
      | (rw [iMulAssignS_refines _ P hP a s hsg hp ha]; rfl)
      | exact iDivS_refines _ P a s ha
      | exact iDivAssignS_refines _ P a s ha
      | exact sDivI_refines _ s a ha
      | exact iRemS_refines _ P a s ha
      | exact iRemAssignS_refines _ P a s ha
      | exact sRemI_refines _ s a hsg hp ha
  · have hus : t.promo.signed = false := by simpa using hsg
    have hb := SD.bound_of_inRange t.promo hus s hp
    have h0 := inRange_unsigned_nonneg _ s hus hp
    have hsn : ((s.toNat : Nat) : Int) = s := by omega
    simp only [hus, Bool.false_eq_true, if_false]
    cases op <;> cases pos <;> simp only []
    all_goals first
      | exact iAddU_refines _ P a _ ha hb
      | exact iSubU_refines _ P a _ ha hb
      | exact uSubI_refines _ P _ a ha hb
      | (rw [iMulU_refines _ P hP a _ ha hb]; rfl)
      | (rw [iMulAssignU_refines _ P hP a _ ha hb]; rfl)
      | exact iDivU_refines _ P a _ ha
      | exact iDivAssignU_refines _ P a _ ha
      | exact uDivI_refines _ _ a ha
      | exact iRemU_refines _ P a _ ha
      | exact iRemAssignU_refines _ P a _ ha
      | exact uRemI_refines _ _ a ha (by rw [hsn]; exact hp)

/-! ## transfer of the C10 headline specs to the digit level -/

/-- the canonical `&BigInt ∘ &BigInt` operations with digit-level results (`canonI` through `ofV`) -/
def canonBI (op : AOp) (x y : Int) : Except Panic BigInt :=
  match op with
  | .add => .ok (BigInt.ofInt (x + y))
  | .sub => .ok (BigInt.ofInt (x - y))
  | .mul => .ok (BigInt.ofInt (x * y))
  | .div => if y = 0 then .error .divzero else .ok (BigInt.ofInt (Int.tdiv x y))
  | .rem => if y = 0 then .error .divzero else .ok (BigInt.ofInt (Int.tmod x y))

def placeBI (op : AOp) (pos : SPos) (a s : Int) : Except Panic BigInt :=
  match pos with
  | .scalarBig => canonBI op s a
  | _ => canonBI op a s

theorem canonI_map_ofV (op : AOp) (x y : Int) : (canonI op x y).map SD.ofV = canonBI op x y := by
  cases op <;> simp only [canonI, canonBI]
  · show Except.ok _ = Except.ok _; rw [SD.ofV_ofInt]
  · show Except.ok _ = Except.ok _; rw [SD.ofV_ofInt]
  · show Except.ok _ = Except.ok _; rw [SD.ofV_ofInt]
  · rw [SD.map_ite, SD.ofV_ofInt]
  · rw [SD.map_ite, SD.ofV_ofInt]

theorem placeI_map_ofV (op : AOp) (pos : SPos) (a s : Int) :
    (placeI op pos a s).map SD.ofV = placeBI op pos a s := by
  cases pos <;> exact canonI_map_ofV op _ _

/-- **digit-level `uScalarForm_spec`**: every BigUint `+ - * / %` form with a primitive scalar, computed on
    digit vectors through the digit-level add/sub/mul/div/convert models, returns the canonical digits of
    the canonical operation on `BigUint::from(s)` — or its panic class (underflow, divzero) -/
theorem dUScalarForm_spec (P : Params) (hP : P.ValidMul) (op : AOp) (pos : SPos) (t : STy) (a : List Nat)
    (s : Int) (ha : Canon a) (ht : t.signed = false) (h : t.InRange s) :
    SD.uScalarForm P op pos t a s = (placeU op pos (val a) s.toNat).map ofNat := by
  rw [dUScalarForm_refines P hP op pos t a s ha ht h, uScalarForm_spec op pos t (val a) s ht h]

/-- **digit-level `iScalarForm_spec`**: every BigInt `+ - * / %` form with a primitive scalar of any of the 12
    types, computed on (sign, digit vector) through the digit-level models, returns the canonical BigInt of
    the canonical operation on `BigInt::from(s)` (`/ %` truncating) — or divzero -/
theorem dIScalarForm_spec (P : Params) (hP : P.ValidMul) (op : AOp) (pos : SPos) (t : STy) (a : BigInt)
    (s : Int) (ha : a.Canon) (h : t.InRange s) :
    SD.iScalarForm P op pos t a s = placeBI op pos a.val s := by
  rw [dIScalarForm_refines P hP op pos t a s ha h, iScalarForm_spec op pos t (SD.toV a) s h (SD.toV_canon ha),
    SD.toV_val, placeI_map_ofV]

/-- `scalar %= BigUint` on digits: truncated remainder for every scalar type and value (incl. `iN::MIN`) -/
theorem dRemAssignScalar_tmod (t : STy) (s : Int) (a : List Nat) (ha : Canon a) (h : t.InRange s) :
    SD.dRemAssignScalar t s a = if val a = 0 then .error .divzero else .ok (Int.tmod s (val a)) := by
  rw [dRemAssignScalar_spec t s a ha h, remAssignScalar_spec t s (val a) h]

/-- what the driver runs: the forms at the parameters regenerated from the source -/
theorem drv_uScalarForm_spec (op : AOp) (pos : SPos) (t : STy) (a : List Nat) (s : Int) (ha : Canon a)
    (ht : t.signed = false) (h : t.InRange s) :
    SD.uScalarForm NB.Gen.P op pos t a s = (placeU op pos (val a) s.toNat).map ofNat :=
  dUScalarForm_spec NB.Gen.P gen_params_valid_mul op pos t a s ha ht h

theorem drv_iScalarForm_spec (op : AOp) (pos : SPos) (t : STy) (a : BigInt) (s : Int) (ha : a.Canon)
    (h : t.InRange s) :
    SD.iScalarForm NB.Gen.P op pos t a s = placeBI op pos a.val s :=
  dIScalarForm_spec NB.Gen.P gen_params_valid_mul op pos t a s ha h

/-! ## non-vacuity: concrete digit-level runs (two-digit scalar through `mul3`, Knuth division by `[lo, hi]`,
    the digit-count match, `MIN %= 2^(N-1)`, the sign/cmp match).
    `decide +kernel`: `ofNat`, `From<u64>` are well-founded recursions, which only the kernel unfolds. -/

example : SD.dMulAssign .u128 NB.Gen.P [3, 5] (2 * B + 7) = .ok [21, 41, 10] := by decide +kernel
example : SD.dDiv .u128 NB.Gen.P [0, 0, 1] (B + 1) = .ok [18446744073709551615] := by decide +kernel
example : SD.dRem .u32 NB.Gen.P [1, 1] 10 = .ok [7] := by decide +kernel
example : SD.dDivRev .u128 (5 * B) [0, 2] = .ok [2] := by decide +kernel
example : SD.dDivRev .u64 5 [0, 2] = .ok [] := by decide +kernel
example : SD.dRemAssignScalar .i8 (-128) [128] = .ok 0 := by decide +kernel
example : SD.dRemAssignScalar .i64 (-9223372036854775808) [9223372036854775808] = .ok 0 := by decide +kernel
example : SD.iScalarForm NB.Gen.P .add .bigScalar .i8 ⟨.plus, [128]⟩ (-128) = .ok ⟨.nosign, []⟩ := by decide +kernel
example : SD.iScalarForm NB.Gen.P .sub .scalarBig .u64 ⟨.plus, [0, 1]⟩ 5 = .ok ⟨.minus, [18446744073709551611]⟩ := by
  decide +kernel
example : SD.uScalarForm NB.Gen.P .sub .bigScalar .u8 [254] 255 = .error .underflow := by decide +kernel
example : SD.uScalarForm NB.Gen.P .div .assign .u64 [1, 2, 3] 0 = .error .divzero := by decide +kernel

end NB
