/- symbolic execution lemmas for the mini x86 interpreter -/
import NB.Model.Asm
import NB.Lemmas.AddSub
namespace NB.Asm
open NB

@[simp] theorem upd_same (f : Nat → Nat) (i v : Nat) : upd f i v i = v := by simp [upd]
theorem upd_other (f : Nat → Nat) {i j : Nat} (v : Nat) (h : j ≠ i) : upd f i v j = f j := by simp [upd, h]

@[simp] theorem exec_nil (k : Cfg) (s : St) : exec k [] s = some s := rfl
theorem exec_cons (k : Cfg) (i : Instr) (is : List Instr) (s : St) :
    exec k (i :: is) s = (match step k i s with | none => none | some s' => exec k is s') := rfl

/-- one adc as the interpreter computes it (Bool carry) -/
def adcI (c : Bool) (x y : Nat) : Nat × Bool := ((x + y + b2n c) % B, decide (B ≤ x + y + b2n c))
/-- one sbb as the interpreter computes it -/
def sbbI (c : Bool) (x y : Nat) : Nat × Bool :=
  (if y + b2n c ≤ x then x - (y + b2n c) else x + B - (y + b2n c), decide (x < y + b2n c))

/-- sequential carry chain on memory functions: digits `i … i+n-1` of `f` get `f + g + carry` -/
def chainAdd (f g : Nat → Nat) (c : Bool) (i : Nat) : Nat → (Nat → Nat) × Bool
  | 0 => (f, c)
  | n + 1 =>
    let r := chainAdd f g c i n
    let o := adcI r.2 (f (i + n)) (g (i + n))
    (upd r.1 (i + n) o.1, o.2)

def chainSub (f g : Nat → Nat) (c : Bool) (i : Nat) : Nat → (Nat → Nat) × Bool
  | 0 => (f, c)
  | n + 1 =>
    let r := chainSub f g c i n
    let o := sbbI r.2 (f (i + n)) (g (i + n))
    (upd r.1 (i + n) o.1, o.2)

theorem chainAdd_outside (f g : Nat → Nat) (c : Bool) (i n j : Nat) (h : j < i ∨ i + n ≤ j) :
    (chainAdd f g c i n).1 j = f j := by
  induction n with
  | zero => rfl
  | succ n ih =>
    simp only [chainAdd]
    rw [upd_other _ _ (by omega)]
    exact ih (by omega)

theorem chainSub_outside (f g : Nat → Nat) (c : Bool) (i n j : Nat) (h : j < i ∨ i + n ≤ j) :
    (chainSub f g c i n).1 j = f j := by
  induction n with
  | zero => rfl
  | succ n ih =>
    simp only [chainSub]
    rw [upd_other _ _ (by omega)]
    exact ih (by omega)

/-- chains compose: n digits from i, then m digits from i+n -/
theorem chainAdd_add (f g : Nat → Nat) (c : Bool) (i n m : Nat) :
    chainAdd f g c i (n + m) =
      chainAdd (chainAdd f g c i n).1 g (chainAdd f g c i n).2 (i + n) m := by
  induction m with
  | zero => rfl
  | succ m ih =>
    have e : n + (m + 1) = (n + m) + 1 := by omega
    rw [e]
    simp only [chainAdd]
    rw [ih]
    have h1 : (chainAdd f g c i n).1 (i + n + m) = f (i + (n + m)) := by
      rw [chainAdd_outside _ _ _ _ _ _ (by omega)]; congr 1; omega
    have e2 : i + n + m = i + (n + m) := by omega
    rw [h1, e2]

theorem chainSub_add (f g : Nat → Nat) (c : Bool) (i n m : Nat) :
    chainSub f g c i (n + m) =
      chainSub (chainSub f g c i n).1 g (chainSub f g c i n).2 (i + n) m := by
  induction m with
  | zero => rfl
  | succ m ih =>
    have e : n + (m + 1) = (n + m) + 1 := by omega
    rw [e]
    simp only [chainSub]
    rw [ih]
    have h1 : (chainSub f g c i n).1 (i + n + m) = f (i + (n + m)) := by
      rw [chainSub_outside _ _ _ _ _ _ (by omega)]; congr 1; omega
    have e2 : i + n + m = i + (n + m) := by omega
    rw [h1, e2]

theorem memOf_lt {l : List Nat} {i : Nat} (h : i < l.length) : memOf l i = l[i] := by
  simp [memOf, List.getD, h]

theorem upd_ne {f : Nat → Nat} {i j v : Nat} (h : j ≠ i) : upd f i v j = f j := by simp [upd, h]

section
variable {k : Cfg} {regs : Nat → Nat} {cf zf : Bool} {a b : Nat → Nat} {is : List Instr}

theorem exec_clc : exec k (.clc :: is) ⟨regs, cf, zf, a, b⟩ = exec k is ⟨regs, false, zf, a, b⟩ := by
  simp [exec_cons, step]

theorem exec_load_a {dst base idx off : Nat} (hb : base = k.aReg) (hd1 : dst ≠ k.aReg) (hd2 : dst ≠ k.bReg)
    (h : regs idx + off < k.la) :
    exec k (.load dst base idx off :: is) ⟨regs, cf, zf, a, b⟩ = exec k is ⟨upd regs dst (a (regs idx + off)), cf, zf, a, b⟩ := by
  simp [exec_cons, step, doLoad, rd, hb, hd1, hd2, h]

theorem exec_load_b {dst base idx off : Nat} (hb : base = k.bReg) (hab : k.bReg ≠ k.aReg) (hd1 : dst ≠ k.aReg) (hd2 : dst ≠ k.bReg)
    (h : regs idx + off < k.lb) :
    exec k (.load dst base idx off :: is) ⟨regs, cf, zf, a, b⟩ = exec k is ⟨upd regs dst (b (regs idx + off)), cf, zf, a, b⟩ := by
  simp [exec_cons, step, doLoad, rd, hb, hab, hd1, hd2, h]

theorem exec_store_a {base idx off src : Nat} (hb : base = k.aReg) (h : regs idx + off < k.la) :
    exec k (.store base idx off src :: is) ⟨regs, cf, zf, a, b⟩ = exec k is ⟨regs, cf, zf, upd a (regs idx + off) (regs src), b⟩ := by
  simp [exec_cons, step, doStore, hb, h]

theorem exec_adc {dst src : Nat} (hd1 : dst ≠ k.aReg) (hd2 : dst ≠ k.bReg) :
    exec k (.adc dst src :: is) ⟨regs, cf, zf, a, b⟩ =
      exec k is ⟨upd regs dst (adcI cf (regs dst) (regs src)).1, (adcI cf (regs dst) (regs src)).2,
                 decide ((adcI cf (regs dst) (regs src)).1 = 0), a, b⟩ := by
  simp [exec_cons, step, doAdc, hd1, hd2, adcI]
  rfl

theorem exec_sbb {dst src : Nat} (hd1 : dst ≠ k.aReg) (hd2 : dst ≠ k.bReg) :
    exec k (.sbb dst src :: is) ⟨regs, cf, zf, a, b⟩ =
      exec k is ⟨upd regs dst (sbbI cf (regs dst) (regs src)).1, (sbbI cf (regs dst) (regs src)).2,
                 decide ((sbbI cf (regs dst) (regs src)).1 = 0), a, b⟩ := by
  simp [exec_cons, step, doSbb, hd1, hd2, sbbI]
  rfl

theorem exec_inc {r : Nat} (hd1 : r ≠ k.aReg) (hd2 : r ≠ k.bReg) :
    exec k (.inc r :: is) ⟨regs, cf, zf, a, b⟩ =
      exec k is ⟨upd regs r ((regs r + 1) % B), cf, decide ((regs r + 1) % B = 0), a, b⟩ := by
  simp [exec_cons, step, hd1, hd2]

theorem exec_dec {r : Nat} (hd1 : r ≠ k.aReg) (hd2 : r ≠ k.bReg) :
    exec k (.dec r :: is) ⟨regs, cf, zf, a, b⟩ =
      exec k is ⟨upd regs r ((regs r + B - 1) % B), cf, decide ((regs r + B - 1) % B = 0), a, b⟩ := by
  simp [exec_cons, step, hd1, hd2]

theorem exec_setc {r : Nat} (hd1 : r ≠ k.aReg) (hd2 : r ≠ k.bReg) :
    exec k (.setc r :: is) ⟨regs, cf, zf, a, b⟩ = exec k is ⟨upd regs r (b2n cf), cf, zf, a, b⟩ := by
  simp [exec_cons, step, hd1, hd2]
end

end NB.Asm
