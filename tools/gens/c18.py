"""C18 — random generation over a word tape: request generator.

Every request carries the RNG as a tape of u32 words (`w<hex>,…`).  Structure:
  bit sizes   0, 1..=130, 32k and 64k with ±1, a few large
  bounds      1, 2^k, 2^k ± 1, random of every width class
  ranges      width 1, positive, negative, zero-crossing, lbound = 0, ubound = 0, inclusive,
              empty and inverted (must panic)
  tapes       counter, all-zeros, all-ones (endless rejection -> tape-exhausted), splitmix,
              adversarial (k rejected candidates at the boundary values, then an accepted one),
              exactly long enough, one word short, with trailing surplus words
"""
from genlib import *

M32 = (1 << 32) - 1

def wlen(n):
    return (n + 31) // 32

def encode(n, v, d):
    """the ceil(n/32) words gen_biguint(n) turns into value v (discarded low bits of the top word = d)"""
    ln = wlen(n)
    r = n % 32
    if ln == 0:
        return []
    ws = [(v >> (32 * i)) & M32 for i in range(ln)]
    if r:
        top = v >> (32 * (ln - 1))
        assert top < (1 << r)
        ws[-1] = (top << (32 - r)) | (d & ((1 << (32 - r)) - 1))
    return ws

def splitmix(rng, k):
    x = rng.getrandbits(64)
    out = []
    while len(out) < k:
        x = (x + 0x9E3779B97F4A7C15) & MAX
        z = x
        z = ((z ^ (z >> 30)) * 0xBF58476D1CE4E5B9) & MAX
        z = ((z ^ (z >> 27)) * 0x94D049BB133111EB) & MAX
        z ^= z >> 31
        out += [z & M32, z >> 32]
    return out[:k]

def plain_tape(rng, kind, k):
    if kind == "zeros":
        return [0] * k
    if kind == "ones":
        return [M32] * k
    if kind == "counter":
        s = rng.choice([0, 1, 0x7ffffffe, 0xfffffff0])
        step = rng.choice([1, 1, 0x01010101, 0x10000000])
        return [(s + i * step) & M32 for i in range(k)]
    if kind == "splitmix":
        return splitmix(rng, k)
    if kind == "edges":
        return [rng.choice([0, 1, M32, 0x80000000, 0x7fffffff, 0x40000000, rng.getrandbits(32)]) for _ in range(k)]
    raise ValueError(kind)

KINDS = ["zeros", "ones", "counter", "splitmix", "edges"]

def cand_words(rng, n, v):
    return encode(n, v, rng.getrandbits(32))

def adversarial(rng, bound, k):
    """k rejected candidates then an accepted one, for gen_biguint_below(bound)"""
    n = bound.bit_length()
    top = (1 << n) - 1
    ws = []
    for _ in range(k):
        v = rng.choice([bound, top, min(bound + 1, top), rng.randrange(bound, top + 1)])
        ws += cand_words(rng, n, v)
    acc = rng.choice([bound - 1, 0, bound // 2, rng.randrange(bound)])
    ws += cand_words(rng, n, acc)
    return ws

def below_tapes(rng, bound, tier):
    """tapes for a rejection loop with the given positive bound"""
    n = bound.bit_length()
    ln = wlen(n)
    out = []
    for k in (0, 1, 2, rng.randrange(3, 7)):
        t = adversarial(rng, bound, k)
        out.append(t + splitmix(rng, rng.randrange(0, 3)))
        if k == 1:
            out.append(t[:-1])                       # one word short of the accepted candidate
    # long rejection runs: the loop must keep redrawing however often it is refused (no give-up / fallback
    # after N rejections); one-word candidates keep these tapes short
    if ln <= 2:
        for k in (31, 32, 33, 63, 64, 65, 66, 100, 127, 128, 129, 257):
            if tier == "thorough" or rng.randrange(4) == 0 or k in (64, 65):
                out.append(adversarial(rng, bound, k) + splitmix(rng, rng.randrange(0, 2)))
    out.append([M32] * (ln * rng.randrange(1, 4) + rng.randrange(0, ln + 1)))   # endless rejection
    out.append([0] * ln)
    out.append(plain_tape(rng, rng.choice(["counter", "splitmix", "edges"]), ln * 6 + 1))
    if tier == "thorough":
        out.append(splitmix(rng, ln * 12))
        out.append(adversarial(rng, bound, rng.randrange(7, 20)))
    return out

def bit_sizes(rng, tier):
    s = list(range(0, 131))
    for k in range(1, 41 if tier != "thorough" else 130):
        s += [32 * k - 1, 32 * k, 32 * k + 1]
    s += [rng.randrange(131, 3000) for _ in range(10)]
    if tier == "thorough":
        s += [8191, 8192, 8193, 16384, 65535, 65536 + 33] + [rng.randrange(131, 20000) for _ in range(40)]
    return sorted(set(s))

def bounds(rng, tier):
    ks = list(range(0, 70)) + [95, 96, 97, 127, 128, 129, 130, 159, 160, 191, 192, 193, 255, 256, 257]
    if tier == "thorough":
        ks += list(range(70, 131)) + [511, 512, 513, 1023, 1024, 1025, 4095, 4096]
    out = [1, 2, 3]
    for k in ks:
        out += [1 << k, (1 << k) + 1]
        if k > 0:
            out.append((1 << k) - 1)
    for k in ks[::3]:
        out.append(rng.randrange(1 << k, 2 << k))
    return sorted(set(b for b in out if b > 0))

def W(t):
    return wwords(t)

def endpoint_reqs(rng):
    """ranges with an endpoint at 0 (the special-cased branches of the BigInt samplers), half-open and inclusive, with the
    candidate forced to the lowest and to the highest value of the range: both endpoints of an inclusive range must be
    reachable, the upper end of a half-open one must not (C18-h1: `gen_range(low..=0)` never returns 0)"""
    out = []
    for lo in (-1, -2, -5, -(1 << 32), -(1 << 64), -(1 << 64) - 3, -((1 << 130) + 7)):
        for incl in (0, 1):
            width = -lo + incl                      # number of values in [lo, 0) / [lo, 0]
            n = width.bit_length()
            for cand in (0, width - 1, max(0, width - 2)):
                t = encode(n, cand, rng.getrandbits(32)) + splitmix(rng, 2)
                out.append("C18 gen_range_i %s %s %d %s" % (wi(lo), wi(0 - incl) if False else wi(0) if incl else wi(0), incl, W(t)))
                out.append("C18 gen_range_i %s %s %d %s" % (wi(0), wi(-lo - 1 + (0 if incl else 1)) if incl else wi(-lo), incl, W(t)))
    return out

def gen(rng, tier):
    reqs = endpoint_reqs(rng)
    rounds = 6 if tier == "thorough" else 1
    # ---- large bit sizes around power-of-two WORD counts (2^8 … 2^14 words; 2^15 in the thorough tier): a fill done in
    # pieces (a chunked `fill`, a staged buffer) treats the last piece specially, and the top-word shift must happen
    # exactly once whatever the piece count (C18-u1: pieces of 2^14 words, shift skipped when the remainder is empty)
    if True:
        for k in ([8, 10, 12, 13, 14] + ([9, 11, 15] if tier == "thorough" else [])):
            words = 1 << k
            for n in (32 * words - 31, 32 * words - 1, 32 * words, 32 * words + 1, 32 * words - 17):
                ln = wlen(n)
                kind = rng.choice(["ones", "mix"])
                t = [M32] * ln if kind == "ones" else splitmix(rng, ln)
                reqs.append("C18 gen_biguint %d %s" % (n, W(t)))
                if n % 32 == 31 or tier == "thorough":
                    reqs.append("C18 gen_bigint %d %s" % (n, W([M32] * ln + [rng.choice([0, M32, 1 << 31])])))
    for _ in range(rounds):
        # ---- gen_biguint / RandomBits<BigUint> / gen_bigint / RandomBits<BigInt>
        for n in bit_sizes(rng, tier):
            ln = wlen(n)
            for kind in KINDS:
                extra = rng.randrange(0, 3)
                t = plain_tape(rng, kind, ln + extra)
                op = "gen_biguint" if rng.randrange(4) else "random_bits_u"
                reqs.append("C18 %s %d %s" % (op, n, W(t)))
            # exactly long enough / one word short
            t = splitmix(rng, ln)
            reqs.append("C18 gen_biguint %d %s" % (n, W(t)))
            if ln:
                reqs.append("C18 gen_biguint %d %s" % (n, W(t[:-1])))
            # top word patterns: only the kept bits set / only the discarded bits set
            if n % 32:
                r = n % 32
                lo = splitmix(rng, ln - 1)
                reqs.append("C18 gen_biguint %d %s" % (n, W(lo + [((1 << r) - 1) << (32 - r)])))
                reqs.append("C18 gen_biguint %d %s" % (n, W(lo + [(1 << (32 - r)) - 1])))
                reqs.append("C18 gen_biguint %d %s" % (n, W([0] * (ln - 1) + [1 << (32 - r)])))
            # gen_bigint: candidate words then the sign word
            iop = "gen_bigint" if rng.randrange(4) else "random_bits_i"
            for kind in KINDS:
                t = plain_tape(rng, kind, (ln + 1) * 3 + rng.randrange(0, 2))
                reqs.append("C18 %s %d %s" % (iop, n, W(t)))
            v = rng.getrandbits(n) if n else 0
            for sign_word in (0, 0x7fffffff, 0x80000000, M32):
                reqs.append("C18 %s %d %s" % (iop, n, W(cand_words(rng, n, v) + [sign_word])))
            # zero candidate: k redraws (sign word top bit set), then accept zero / a non-zero value
            for k in (0, 1, 3):
                t = []
                for _ in range(k):
                    t += cand_words(rng, n, 0) + [rng.choice([0x80000000, M32, 0x80000001])]
                t1 = t + cand_words(rng, n, 0) + [rng.choice([0, 0x7fffffff, 1])]
                reqs.append("C18 %s %d %s" % (iop, n, W(t1 + splitmix(rng, rng.randrange(0, 2)))))
                if n:
                    t2 = t + cand_words(rng, n, rng.randrange(1, 1 << n)) + [rng.getrandbits(32)]
                    reqs.append("C18 %s %d %s" % (iop, n, W(t2)))
                reqs.append("C18 %s %d %s" % (iop, n, W(t1[:-1])))      # sign word missing
        # ---- gen_biguint_below
        bs = bounds(rng, tier)
        for b in bs:
            for t in below_tapes(rng, b, tier):
                reqs.append("C18 gen_biguint_below %s %s" % (wu(b), W(t)))
        reqs.append("C18 gen_biguint_below . %s" % W(splitmix(rng, 4)))
        reqs.append("C18 gen_biguint_below . w")
        # ---- ranges
        los_u = [0, 1, 2, M32, MAX, MAX + 1, (1 << 128) - 1, rng.getrandbits(64), rng.getrandbits(200)]
        for w in bs[::2] + [1, 2, 3]:
            tapes = below_tapes(rng, w, "quick")
            for lo in (0, rng.choice(los_u), rng.choice(los_u)):
                hi = lo + w
                t = rng.choice(tapes)
                op = rng.choice(["gen_biguint_range", "gen_biguint_range", "sample_single_u"])
                reqs.append("C18 %s %s %s %s" % (op, wu(lo), wu(hi), W(t)))
                t = rng.choice(tapes)
                reqs.append("C18 uniform_u %s %s 0 %s" % (wu(lo), wu(hi), W(t)))
                reqs.append("C18 uniform_u %s %s 1 %s" % (wu(lo), wu(hi - 1), W(t)))
                # empty / inverted
                if rng.randrange(10) == 0:
                    reqs.append("C18 gen_biguint_range %s %s %s" % (wu(hi), wu(lo), W(t)))
                    reqs.append("C18 gen_biguint_range %s %s %s" % (wu(hi), wu(hi), W(t)))
                    reqs.append("C18 uniform_u %s %s 0 %s" % (wu(hi), wu(hi), W(t)))
                    reqs.append("C18 uniform_u %s %s 1 %s" % (wu(hi), wu(lo), W(t)))
                    reqs.append("C18 uniform_u %s %s 1 %s" % (wu(hi), wu(hi), W(t)))   # inclusive, width 1: fine
                    reqs.append("C18 sample_single_u %s %s %s" % (wu(hi), wu(lo), W(t)))
            # signed: lbound = 0, ubound = 0, negative, zero-crossing, positive
            big = rng.choice([1, MAX, MAX + 1, rng.getrandbits(130) + 1])
            los_i = [0, -w, -w - big, -(w // 2) if w > 1 else -w - 1, big, -1 if w > 1 else 0, 1 - w if w > 1 else -big]
            for lo in los_i:
                hi = lo + w
                t = rng.choice(tapes)
                op = rng.choice(["gen_bigint_range", "gen_bigint_range", "sample_single_i"])
                reqs.append("C18 %s %s %s %s" % (op, wi(lo), wi(hi), W(t)))
                t = rng.choice(tapes)
                reqs.append("C18 uniform_i %s %s 0 %s" % (wi(lo), wi(hi), W(t)))
                reqs.append("C18 uniform_i %s %s 1 %s" % (wi(lo), wi(hi - 1), W(t)))
                if rng.randrange(10) == 0:
                    reqs.append("C18 gen_bigint_range %s %s %s" % (wi(hi), wi(lo), W(t)))
                    reqs.append("C18 gen_bigint_range %s %s %s" % (wi(lo), wi(lo), W(t)))
                    reqs.append("C18 uniform_i %s %s 0 %s" % (wi(lo), wi(lo), W(t)))
                    reqs.append("C18 uniform_i %s %s 1 %s" % (wi(hi), wi(lo), W(t)))
                    reqs.append("C18 uniform_i %s %s 1 %s" % (wi(lo), wi(lo), W(t)))
                    reqs.append("C18 sample_single_i %s %s %s" % (wi(hi), wi(lo), W(t)))
    reqs += generic_front_ends(rng, tier)
    return reqs


def generic_front_ends(rng, tier):
    """api-coverage block: `SampleUniform for BigUint/BigInt` through `Rng::gen_range` (half-open and inclusive) and
    `rand::distributions::Uniform::{new, new_inclusive, from(range), from(range_inclusive)}`: widths from `bounds`
    with their rejection tapes (accept at once, reject k times, exhausted tape), offsets 0 / multi-digit / negative /
    zero-crossing; empty and inverted ranges for the `Uniform` constructors (the crate's own assertions)"""
    reqs = []
    bs = bounds(rng, tier)
    los_u = [0, 1, MAX, MAX + 1, rng.getrandbits(64), rng.getrandbits(200)]
    for w in bs[:: (1 if tier == "thorough" else 5)] + [1, 2, 3]:
        tapes = below_tapes(rng, w, "quick")
        for lo in (0, rng.choice(los_u)):
            hi = lo + w
            for incl in (0, 1):
                t = rng.choice(tapes)
                reqs.append("C18 gen_range_u %s %s %d %s" % (wu(lo), wu(hi - incl), incl, W(t)))
            for incl in (0, 1, 2, 3):
                t = rng.choice(tapes)
                reqs.append("C18 dist_uniform_u %s %s %d %s" % (wu(lo), wu(hi - incl % 2), incl, W(t)))
        big_ = rng.choice([1, MAX, MAX + 1, rng.getrandbits(130) + 1])
        for lo in (0, -w, -w - big_, -(w // 2) if w > 1 else -w - 1, big_):
            hi = lo + w
            for incl in (0, 1):
                t = rng.choice(tapes)
                reqs.append("C18 gen_range_i %s %s %d %s" % (wi(lo), wi(hi - incl), incl, W(t)))
            for incl in (0, 1, 2, 3):
                t = rng.choice(tapes)
                reqs.append("C18 dist_uniform_i %s %s %d %s" % (wi(lo), wi(hi - incl % 2), incl, W(t)))
        if rng.randrange(4) == 0:
            t = rng.choice(tapes)
            lo = rng.choice(los_u); hi = lo + w
            for incl in (0, 2):
                reqs.append("C18 dist_uniform_u %s %s %d %s" % (wu(hi), wu(lo), incl, W(t)))
                reqs.append("C18 dist_uniform_u %s %s %d %s" % (wu(hi), wu(hi), incl, W(t)))
                reqs.append("C18 dist_uniform_i %s %s %d %s" % (wi(-lo), wi(-hi), incl, W(t)))
                reqs.append("C18 dist_uniform_i %s %s %d %s" % (wi(-lo), wi(-lo), incl, W(t)))
            for incl in (1, 3):
                reqs.append("C18 dist_uniform_u %s %s %d %s" % (wu(hi), wu(lo), incl, W(t)))
                reqs.append("C18 dist_uniform_i %s %s %d %s" % (wi(hi), wi(lo), incl, W(t)))
                reqs.append("C18 dist_uniform_u %s %s %d %s" % (wu(hi), wu(hi), incl, W(t)))   # inclusive, width 1
    return reqs
