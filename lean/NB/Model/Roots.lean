/-
  NB.Model.Roots — value-level model of `impl Roots for BigUint` (src/biguint.rs: `fixpoint`,
  `nth_root`, `sqrt`, `cbrt`) and `impl Roots for BigInt` (src/bigint.rs).

  The Rust code is written with BigUint operators (`/ * + >> << pow bits`), so the model works on
  `Nat` with the mathematical operators (layering justified by C01–C03/C07) and keeps the control
  flow of the source: the assertion, the 0/1 short-cuts, the dispatch on `n`, the `bits <= n`
  short-cut, the `to_u64` fast path, `max_bits`, the cfg-dependent initial guess, and the two-phase
  `fixpoint` loop with saturation at `2^max_bits`.

  * The initial guess is NOT computed by the core functions: they take a *guess source*
    `S : GuessSrc` (one function per root kind, called exactly where the Rust code evaluates
    `let guess = …`).  Three sources are defined separately:
      - `nostdSrc`            `#[cfg(not(feature = "std"))]`:  `1 << max_bits`
      - `stdSrc F d`          `#[cfg(feature = "std")]`: the f64 arm (abstract float evaluation `F`)
                              or, when `to_f64` is not finite, the scaled recursive call / fallback
      - `floatF64`            an executable `F` built on Lean's native `Float` (IEEE double); it is
                              opaque to the kernel, theorems quantify over every `F`.
    All theorems hold for every source that returns some `g ≥ 1`.
  * `fixpoint` takes fuel; `fixFuel` is the bound proved sufficient (NB.Props.C11.fixpoint_spec).
  * The `to_u64` fast path calls num-integer's `Roots for u64` (outside this crate).  It is modelled
    by the spec-level floor root `floorRoot` (bisection on Nat) — trusted, correspondence-checked.
  * `f64::MAX_EXP` is a language constant (1024), `u64` range is `B = 2^64`.
  * u64 overflow of `root_scale * n64` etc. is not modelled (needs a value of ≥ 2^63 bits).
-/
import NB.Base
import NB.Model.IntVal
namespace NB.Roots
open NB.IntVal

/-- `BigUint::bits` -/
def bits (x : Nat) : Nat := if x = 0 then 0 else Nat.log2 x + 1

/-- `f64::MAX_EXP` -/
def f64MaxExp : Nat := 1024

/-! ### spec-level floor root (bisection); also the model of num-integer's `Roots for u64` -/

/-- invariant: `lo^n ≤ x < hi^n` -/
def bisect (x n : Nat) : Nat → Nat → Nat → Nat
  | 0, lo, _ => lo
  | f + 1, lo, hi =>
    if hi ≤ lo + 1 then lo else
      let mid := (lo + hi) / 2
      if mid ^ n ≤ x then bisect x n f mid hi else bisect x n f lo mid

/-- the unique `r` with `r^n ≤ x < (r+1)^n` (for `n ≥ 1`) -/
def floorRoot (x n : Nat) : Nat :=
  bisect x n (bits x / n + 2) 0 (2 ^ (bits x / n + 1))

/-! ### `fixpoint` -/

/-- first loop: `while x < xn { x = if xn.bits() > max_bits { 1 << max_bits } else { xn }; xn = f(&x) }` -/
def climb (f : Nat → Except Panic Nat) (maxBits : Nat) : Nat → Nat → Nat → Except Panic (Nat × Nat)
  | 0, _, _ => .error (.internal "fuel")
  | fuel + 1, x, xn =>
    if x < xn then
      let x' := if bits xn > maxBits then 1 <<< maxBits else xn
      match f x' with
      | .error e => .error e
      | .ok xn' => climb f maxBits fuel x' xn'
    else .ok (x, xn)

/-- second loop: `while x > xn { x = xn; xn = f(&x) }; x` -/
def descend (f : Nat → Except Panic Nat) : Nat → Nat → Nat → Except Panic Nat
  | 0, _, _ => .error (.internal "fuel")
  | fuel + 1, x, xn =>
    if x > xn then
      match f xn with
      | .error e => .error e
      | .ok xn' => descend f fuel xn xn'
    else .ok x

/-- `fn fixpoint(x, max_bits, f)` -/
def fixpoint (fuel : Nat) (x : Nat) (maxBits : Nat) (f : Nat → Except Panic Nat) : Except Panic Nat :=
  match f x with
  | .error e => .error e
  | .ok xn =>
    match climb f maxBits fuel x xn with
    | .error e => .error e
    | .ok (x, xn) => descend f fuel x xn

/-- fuel proved sufficient for `fixpoint` started at guess `g` -/
def fixFuel (g maxBits : Nat) : Nat := g + 2 ^ maxBits + 2

/-! ### Newton steps (the closures passed to `fixpoint`) -/

/-- `|s| { let q = self / s.pow(n_min_1); let t = n_min_1 * s + q; t / n }` -/
def stepNth (x n : Nat) (s : Nat) : Except Panic Nat :=
  let nMin1 := n - 1
  let d := s ^ nMin1
  if d = 0 then .error .divzero else
  let q := x / d
  let t := nMin1 * s + q
  if n = 0 then .error .divzero else .ok (t / n)

/-- `|s| { let q = self / s; let t = s + q; t >> 1 }` -/
def stepSqrt (x : Nat) (s : Nat) : Except Panic Nat :=
  if s = 0 then .error .divzero else
  let q := x / s
  let t := s + q
  .ok (t >>> 1)

/-- `|s| { let q = self / (s * s); let t = (s << 1) + q; t / 3u32 }` -/
def stepCbrt (x : Nat) (s : Nat) : Except Panic Nat :=
  if s * s = 0 then .error .divzero else
  let q := x / (s * s)
  let t := (s <<< 1) + q
  .ok (t / 3)

/-! ### guess sources -/

/-- where `let guess = …` is evaluated: arguments are `self`, (`n`,) `bits`, `max_bits` -/
structure GuessSrc where
  nth : Nat → Nat → Nat → Nat → Except Panic Nat
  sqrt : Nat → Nat → Nat → Except Panic Nat
  cbrt : Nat → Nat → Nat → Except Panic Nat

/-! ### the three root functions, parameterised by the guess source -/

/-- `BigUint::sqrt` -/
def sqrtG (S : GuessSrc) (x : Nat) : Except Panic Nat :=
  if x = 0 ∨ x = 1 then .ok x else
  -- `if let Some(x) = self.to_u64() { return x.sqrt().into() }`
  if x < B then .ok (floorRoot x 2) else
  let bits := bits x
  let maxBits := bits / 2 + 1
  match S.sqrt x bits maxBits with
  | .error e => .error e
  | .ok guess => fixpoint (fixFuel guess maxBits) guess maxBits (stepSqrt x)

/-- `BigUint::cbrt` -/
def cbrtG (S : GuessSrc) (x : Nat) : Except Panic Nat :=
  if x = 0 ∨ x = 1 then .ok x else
  if x < B then .ok (floorRoot x 3) else
  let bits := bits x
  let maxBits := bits / 3 + 1
  match S.cbrt x bits maxBits with
  | .error e => .error e
  | .ok guess => fixpoint (fixFuel guess maxBits) guess maxBits (stepCbrt x)

/-- `BigUint::nth_root` -/
def nthRootG (S : GuessSrc) (x n : Nat) : Except Panic Nat :=
  -- `assert!(n > 0, "root degree n must be at least 1")`
  if n = 0 then .error .zeroroot else
  if x = 0 ∨ x = 1 then .ok x else
  if n = 1 then .ok x else
  if n = 2 then sqrtG S x else
  if n = 3 then cbrtG S x else
  -- The root of non-zero values less than 2ⁿ can only be 1.
  let bits := bits x
  if bits ≤ n then .ok 1 else
  -- `if let Some(x) = self.to_u64() { return x.nth_root(n).into() }`
  if x < B then .ok (floorRoot x n) else
  let maxBits := bits / n + 1
  match S.nth x n bits maxBits with
  | .error e => .error e
  | .ok guess => fixpoint (fixFuel guess maxBits) guess maxBits (stepNth x n)

/-- `#[cfg(not(feature = "std"))] let guess = BigUint::one() << max_bits;` -/
def nostdSrc : GuessSrc where
  nth := fun _ _ _ maxBits => .ok (1 <<< maxBits)
  sqrt := fun _ _ maxBits => .ok (1 <<< maxBits)
  cbrt := fun _ _ maxBits => .ok (1 <<< maxBits)

/-- Abstract evaluation of the float arm `Some(f) if f.is_finite() => from_f64(<float root>).unwrap()`:
    `some g` when `self.to_f64()` is finite (g = the truncated float root), `none` for the `_` arm. -/
structure F64 where
  nth : Nat → Nat → Option Nat
  sqrt : Nat → Option Nat
  cbrt : Nat → Option Nat

/-- `Integer::div_ceil` for `u64` (num-integer) -/
def divCeil (a b : Nat) : Nat :=
  let q := a / b
  let r := a % b
  if r > 0 then q + 1 else q

/-- `bits - (f64::MAX_EXP as u64 - 1)` with the overflow check made explicit -/
def extraBits (bits : Nat) : Except Panic Nat :=
  if bits < f64MaxExp - 1 then .error (.internal "attempt_to_subtract_with_overflow")
  else .ok (bits - (f64MaxExp - 1))

/-- `#[cfg(feature = "std")] let guess = match self.to_f64() { … }`; `d` bounds the depth of the
    scaled recursive call (`d ≥ 2` is proved sufficient). -/
def stdSrc (F : F64) : Nat → GuessSrc
  | 0 =>
    { nth := fun _ _ _ _ => .error (.internal "depth")
      sqrt := fun _ _ _ => .error (.internal "depth")
      cbrt := fun _ _ _ => .error (.internal "depth") }
  | d + 1 =>
    { nth := fun x n bits maxBits =>
        match F.nth x n with
        | some g => .ok g
        | none =>
          -- Try to guess by scaling down such that it does fit in `f64`.
          match extraBits bits with
          | .error e => .error e
          | .ok extra =>
            let rootScale := divCeil extra n
            let scale := rootScale * n
            if scale < bits ∧ bits - scale > n then
              match nthRootG (stdSrc F d) (x >>> scale) n with
              | .error e => .error e
              | .ok r => .ok (r <<< rootScale)
            else .ok (1 <<< maxBits)
      sqrt := fun x bits _ =>
        match F.sqrt x with
        | some g => .ok g
        | none =>
          match extraBits bits with
          | .error e => .error e
          | .ok extra =>
            let rootScale := (extra + 1) / 2
            let scale := rootScale * 2
            match sqrtG (stdSrc F d) (x >>> scale) with
            | .error e => .error e
            | .ok r => .ok (r <<< rootScale)
      cbrt := fun x bits _ =>
        match F.cbrt x with
        | some g => .ok g
        | none =>
          match extraBits bits with
          | .error e => .error e
          | .ok extra =>
            let rootScale := (extra + 2) / 3
            let scale := rootScale * 3
            match cbrtG (stdSrc F d) (x >>> scale) with
            | .error e => .error e
            | .ok r => .ok (r <<< rootScale) }

/-- recursion depth handed to `stdSrc` by the driver -/
def stdDepth : Nat := 2

/-! ### `impl Roots for BigInt` (value level: `Int`, sign = sign of the value, `data` = `natAbs`) -/

def bigintNthRoot (S : GuessSrc) (x : Int) (n : Nat) : Except Panic Int :=
  -- `assert!(!(self.is_negative() && n.is_even()), "root of degree {} is imaginary", n)`
  if x < 0 ∧ n % 2 = 0 then .error .imaginary else
  match nthRootG S x.natAbs n with
  | .error e => .error e
  | .ok r => .ok (fromBiguint (signOf x) r)

def bigintSqrt (S : GuessSrc) (x : Int) : Except Panic Int :=
  if x < 0 then .error .imaginary else
  match sqrtG S x.natAbs with
  | .error e => .error e
  | .ok r => .ok (fromBiguint (signOf x) r)

def bigintCbrt (S : GuessSrc) (x : Int) : Except Panic Int :=
  match cbrtG S x.natAbs with
  | .error e => .error e
  | .ok r => .ok (fromBiguint (signOf x) r)

/-! ### an executable float evaluation for the driver (native IEEE double; opaque to proofs) -/

/-- `BigUint::from_f64` on a finite non-negative float: truncation toward zero -/
def natOfFloat (f : Float) : Option Nat :=
  if f.isNaN || f.isInf || f < 0 then none else
  let (m, e) := f.frExp              -- f = m * 2^e, 0.5 ≤ m < 1 (or m = 0)
  let mant := (m.scaleB 64).toUInt64.toNat
  if e ≥ 64 then some (mant <<< (e - 64).toNat) else some (mant >>> (64 - e).toNat)

def floatF64 : F64 where
  nth := fun x n =>
    let f := Float.ofNat x
    if f.isFinite then natOfFloat (Float.exp (Float.log f / Float.ofNat n)) else none
  sqrt := fun x =>
    let f := Float.ofNat x
    if f.isFinite then natOfFloat f.sqrt else none
  cbrt := fun x =>
    let f := Float.ofNat x
    if f.isFinite then natOfFloat f.cbrt else none

end NB.Roots
