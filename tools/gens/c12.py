"""C12 — exponentiation request generator.

bases 0, +-1, +-2, small, multi-digit x exponents 0..300 exhaustively (small bases), every 10-bit
exponent pattern (tiny bases: all trailing-zero counts, exp == 1 exit, every accumulate pattern),
x exponent type (u8 u16 u32 u64 u128 usize, BigUint) x operand form (vv vr rv rr, inherent method),
BigUint exponents at the u64/u128 narrowing edges with base 0 / 1 / -1 and the capacity panic.
"""
from genlib import *

TYPES = [("u8", 8), ("u16", 16), ("u32", 32), ("u64", 64), ("usize", 64), ("u128", 128)]
FORMS = ["vv", "vr", "rv", "rr"]

def exp_tok(rng, e, k):
    """exponent token in a type that fits, chosen by counter k (cycles through all types incl. BigUint)"""
    fits = [t for (t, w) in TYPES if e < (1 << w)]
    choice = k % (len(fits) + 1)
    if choice == len(fits):
        return "big:" + wu(e)
    return "%s:%d" % (fits[choice], e)

def gen(rng, tier):
    thorough = tier == "thorough"
    reqs = []
    k = 0
    def emit(x, e, signed_base=True, tok=None):
        nonlocal k
        k += 1
        t = tok or exp_tok(rng, e, k)
        f = FORMS[(k // 7) % 4]
        if x >= 0:
            reqs.append("C12 u.pow.%s %s %s" % (f, wu(x), t))
        if signed_base or x < 0:
            reqs.append("C12 i.pow.%s %s %s" % (FORMS[(k // 3) % 4], wi(x), t))
    # exponents 0..300 exhaustively for small bases
    for x in [0, 1, -1, 2, -2, 3, -3, 10]:
        for e in range(0, 1201 if thorough else 301):
            emit(x, e)
    # every 10-bit exponent pattern for tiny bases
    for x in [2, -3]:
        for e in range(0, 4096 if thorough else 1024):
            emit(x, e, signed_base=(x < 0))
    # all (type, form) combinations incl. the inherent method on a fixed set
    for x in [0, 1, 2, 5, -5, (1 << 64) + 3, -((1 << 70) - 1)]:
        for e in [0, 1, 2, 3, 4, 6, 7, 8, 12, 31, 32, 33, 96, 255]:
            for (t, w) in TYPES + [("big", 0)]:
                tok = ("big:" + wu(e)) if t == "big" else "%s:%d" % (t, e)
                for f in FORMS:
                    if x >= 0:
                        reqs.append("C12 u.pow.%s %s %s" % (f, wu(x), tok))
                    reqs.append("C12 i.pow.%s %s %s" % (f, wi(x), tok))
            if x >= 0:
                reqs.append("C12 u.pow.m %s u32:%d" % (wu(x), e))
            reqs.append("C12 i.pow.m %s u32:%d" % (wi(x), e))
    # multi-digit bases, moderate exponents
    nb = 40 if not thorough else 300
    for _ in range(nb):
        la = rng.choice([1, 1, 2, 2, 3, 5, 9] + ([20, 40] if thorough else []))
        x = big(rng, la)
        emax = max(2, (600 if thorough else 200) // la)
        for e in {0, 1, 2, 3, rng.randrange(emax), rng.randrange(emax), 1 << rng.randrange(1, max(2, emax.bit_length())),
                  (1 << rng.randrange(1, max(2, emax.bit_length()))) - 1}:
            emit(signed(rng, x), e)
    # squarings that cross the Karatsuba / Toom-3 thresholds of the digit-level `&base * &base` (mulRef) and
    # unbalanced `acc *= &base` (half-Karatsuba): base^(2^k) and base^(2^k + small)
    for (la, e) in [(3, 64), (5, 48), (9, 33), (5, 128), (7, 96)] + ([(40, 17), (90, 9), (20, 40)] if thorough else []):
        emit(signed(rng, big(rng, la)), e)
    # powers of two as bases (long zero runs), all-ones bases
    for la in [1, 2, 3]:
        for x in [1 << (64 * la - 1), 1 << (64 * la), val([MAX] * la)]:
            for e in [2, 3, 5, 8, 13, 16, 17]:
                emit(signed(rng, x), e)
    # squaring in the recursive multiplication regimes with the operand patterns that stress a scratch buffer without
    # headroom (C12-v1: pow squares into a 2n-digit accumulator; Karatsuba's running sum p2 + p0 overflows it for an odd
    # digit count with the top half all ones): all-ones / top-half-ones / bottom-half-ones bases with odd and even digit
    # counts inside and at the edges of the Karatsuba regime, exponents 2, 3, 4
    import c02 as _c02
    tS, tK = _c02.thresholds()
    ns = [tS, tS + 1, tS + 2, 2 * tS + 1, 65, 66, 129, tK - 1, tK, tK + 1] if tier == "thorough" else [tS + 1, tS + 2, 65, tK - 1, tK + 1]
    for n in ns:
        h = n // 2
        shapes = [[MAX] * n, [rng.randrange(B) for _ in range(h)] + [MAX] * (n - h), [MAX] * (n - h) + [rng.randrange(B) for _ in range(h - 1)] + [1],
                  [0] * (h - 1) + [1] + [MAX] * (n - h)]
        for ds in (shapes if tier == "thorough" else shapes[:2] + [rng.choice(shapes[2:])]):
            for e in ((2, 3, 4) if tier == "thorough" else (2, 3)):
                emit(signed(rng, val(ds)), e)
    # sparse bases (1 + B^k, B^j + B^k + 1, one magic digit) through TWO and more squarings: the operand of the second
    # squaring is itself sparse with zero top digits in its halves (C12-z1: a dedicated Karatsuba squaring that skips
    # the half comparison on an odd split)
    for n in ([tS + 2, 65, 66, 100, 131] + ([tK + 2, 200] if tier == "thorough" else [])):
        for ds in ([1] + [0] * (n - 2) + [1], [1] + [0] * (n // 2 - 1) + [1] + [0] * (n - n // 2 - 2) + [1],
                   [MAX] + [0] * (n - 2) + [rng.choice([1, MAX, 0xAAAAAAAAAAAAAAAB])]):
            for e in ((2, 3, 4, 5, 8) if tier == "thorough" else (2, 4, rng.choice([3, 5, 6]))):
                if n * e <= 700:
                    emit(signed(rng, val(ds)), e)
    # type maxima with bases 0 / +-1 (the loop runs its full width)
    for (t, w) in TYPES:
        for e in [(1 << w) - 1, (1 << w) - 2, 1 << (w - 1), (1 << (w - 1)) + 1]:
            for x in [0, 1, -1]:
                emit(x, e, tok="%s:%d" % (t, e))
    # BigUint exponents at the narrowing edges
    edges = [0, 1, 2, 3, (1 << 32) - 1, 1 << 32, (1 << 64) - 1, 1 << 64, (1 << 64) + 1, (1 << 64) + 2, (1 << 128) - 1,
             (1 << 128) - 2, 1 << 128, (1 << 128) + 1, (1 << 128) + 2, 1 << 200, (1 << 200) + 1]
    for e in edges:
        for x in [0, 1, -1]:
            for f in FORMS:
                if x >= 0:
                    reqs.append("C12 u.pow.%s %s big:%s" % (f, wu(x), wu(e)))
                reqs.append("C12 i.pow.%s %s big:%s" % (f, wi(x), wu(e)))
    # capacity panic: base >= 2 and exponent >= 2^128 (never 2^32 <= e < 2^128 with |base| >= 2: would allocate)
    for e in [1 << 128, (1 << 128) + 1, (1 << 129) - 1, 1 << 200]:
        for x in [2, -2, 3, (1 << 64) + 1, -(1 << 64)]:
            for f in FORMS:
                if x >= 0:
                    reqs.append("C12 u.pow.%s %s big:%s" % (f, wu(x), wu(e)))
                reqs.append("C12 i.pow.%s %s big:%s" % (f, wi(x), wu(e)))
    return reqs
