/-
  NB.Model.RadixD — DIGIT-LEVEL model of the general-radix output path
    src/biguint/convert.rs  to_radix_digits_le  (and the callers to_radix_le, to_str_radix_reversed,
    to_radix_be, to_str_radix, the `fmt` impls)

  NB.Model.Radix models `to_radix_digits_le` with the BigUint operators at value level (`Nat`
  `/ % * <` inside the exact loop / chunk / super-chunk structure).  Here every one of those operators
  is the digit-level model of the function the Rust code really calls, on the digit vectors
  (`List Nat`, little-endian 64-bit digits), with every operator panic propagated:

      BigUint::from(base)                  NB.fromDigit            (Model/Div.lean)
      &big_base * &big_base                NB.Mul.mulRef P         (Model/Mul.lean: scalar path, mac3 …)
      big_base.data.len() < target_len     List.length
      digits > big_base                    NB.cmpSlice … = .gt     (Base.lean: `Ord::cmp` = `cmp_slice`)
      digits.div_rem(&big_base)            NB.divRemRef P          (`Integer::div_rem` = `div_rem_ref`: Knuth D)
      div_rem_digit(big_r, base)           NB.divRemDigit          (the `div_wide` loop + `normalized()`)
      div_rem_digit(digits, base)          NB.divRemDigit
      digits.data.len() > 1                List.length
      digits.data[0]                       head of the list (`.internal "index"` when empty)

  The primitive-integer parts (`r % radix`, `r /= radix` on a `u64`, the `as u8` truncation) are the
  functions `emitN` / `lastDigits` of NB.Model.Radix, unchanged.

  The two `while` loops are not structurally recursive (`digits = q`), so they take a fuel argument
  (exhaustion = `.error diverge`, "the Rust loop would not terminate"); `toRadixDigitsLeD` passes
  `BITS * u.len()`, which NB.Lemmas.RadixD proves sufficient (every iteration at least halves the
  value).  NB.Lemmas.RadixD proves `toRadixDigitsLeD P u r = toRadixDigitsLe P u r` for canonical `u`
  (under `P.ValidMul`, the hypothesis of C02's `mul_spec`), so every theorem of NB.Props.C06 about the
  value-level model transfers to this one (`…D` theorems there).
-/
import NB.Base
import NB.Model.AddSub
import NB.Model.Mul
import NB.Model.Div
import NB.Model.Radix
set_option linter.unusedVariables false
namespace NB.Radix
open NB

/-! ### the loops of `to_radix_digits_le` on digit vectors -/

/-- `while digits.data.len() > 1 { let (q, mut r) = div_rem_digit(digits, base);
       for _ in 0..power { res.push((r % radix) as u8); r /= radix; }  digits = q; }`
    followed by `let mut r = digits.data[0]; while r != 0 { … }`. -/
def slowLoopD (radix power base : Nat) : Nat → List Nat → Except Panic (List Nat)
  | fuel, digits =>
    if 1 < digits.length then
      match fuel with
      | 0 => .error diverge
      | f + 1 =>
        match divRemDigit digits base with
        | .error e => .error e
        | .ok (q, r) =>
          match slowLoopD radix power base f q with
          | .ok tl => .ok (emitN radix power r ++ tl)
          | .error e => .error e
    else
      match digits with
      | [] => .error (.internal "index")                  -- `digits.data[0]`
      | r :: _ => lastDigits radix r

/-- `for _ in 0..big_power { let (q, mut r) = div_rem_digit(big_r, base); big_r = q;
       for _ in 0..power { res.push((r % radix) as u8); r /= radix; } }` -/
def emitChunksD (radix power base : Nat) : Nat → List Nat → Except Panic (List Nat)
  | 0, _ => .ok []
  | k + 1, bigR =>
    match divRemDigit bigR base with
    | .error e => .error e
    | .ok (q, r) =>
      match emitChunksD radix power base k q with
      | .ok tl => .ok (emitN radix power r ++ tl)
      | .error e => .error e

/-- `while big_base.data.len() < target_len { big_base = &big_base * &big_base; big_power *= 2; }`
    (fuelled like `squareLoop`; the caller passes `BITS * target_len + 1`) -/
def squareLoopD (P : Params) (targetLen : Nat) : Nat → List Nat → Nat → Except Panic (List Nat × Nat)
  | fuel, bigBase, bigPower =>
    if bigBase.length < targetLen then
      match fuel with
      | 0 => .error diverge
      | f + 1 =>
        match Mul.mulRef P bigBase bigBase with
        | .error e => .error e
        | .ok bb => squareLoopD P targetLen f bb (bigPower * 2)
    else .ok (bigBase, bigPower)

/-- `while digits > big_base { let (q, mut big_r) = digits.div_rem(&big_base); digits = q; for … }`,
    then the remaining loops of `to_radix_digits_le` (with the fuel that is left) -/
def bigLoopD (P : Params) (radix power base : Nat) (bigBase : List Nat) (bigPower : Nat) :
    Nat → List Nat → Except Panic (List Nat)
  | fuel, digits =>
    if cmpSlice digits bigBase = .gt then
      match fuel with
      | 0 => .error diverge
      | f + 1 =>
        match divRemRef P digits bigBase with
        | .error e => .error e
        | .ok (q, bigR) =>
          match emitChunksD radix power base bigPower bigR with
          | .error e => .error e
          | .ok ch =>
            match bigLoopD P radix power base bigBase bigPower f q with
            | .ok tl => .ok (ch ++ tl)
            | .error e => .error e
    else slowLoopD radix power base fuel digits

/-- iteration budget of the two division loops: every iteration divides by at least 2 -/
def radixFuel (u : List Nat) : Nat := BITS * u.length

/-- `to_radix_digits_le(u, radix)` on the digit vector (u non-zero, radix not a power of two) -/
def toRadixDigitsLeD (P : Params) (u : List Nat) (radix : Nat) : Except Panic (List Nat) :=
  match getRadixBase radix with
  | .error e => .error e
  | .ok (base, power) =>
    -- `let mut digits = u.clone();`
    if P.bigBase ≤ u.length then
      let targetLen := Nat.sqrt u.length
      match squareLoopD P targetLen (BITS * targetLen + 1) (fromDigit base) 1 with
      | .error e => .error e
      | .ok (bigBase, bigPower) => bigLoopD P radix power base bigBase bigPower (radixFuel u) u
    else slowLoopD radix power base (radixFuel u) u

/-! ### the callers (identical to NB.Model.Radix except for the general-radix arm) -/

/-- `convert::to_radix_le(u, radix)` -/
def toRadixLeD (P : Params) (u : List Nat) (radix : Nat) : Except Panic (List Nat) :=
  if ¬ (2 ≤ radix ∧ radix ≤ digRadixMax) then .error .radix
  else if u = [] then .ok [0]
  else if isPow2 radix then
    let bits := ilog2 radix
    if BITS % bits = 0 then toBitwiseDigitsLe u bits else toInexactBitwiseDigitsLe u bits
  else toRadixDigitsLeD P u radix

/-- `BigUint::to_radix_be` -/
def toRadixBeD (P : Params) (u : List Nat) (radix : Nat) : Except Panic (List Nat) :=
  match toRadixLeD P u radix with
  | .ok v => .ok v.reverse
  | .error e => .error e

/-- `BigInt::to_radix_le` -/
def BigInt.toRadixLeD (P : Params) (x : BigInt) (radix : Nat) : Except Panic (Sign × List Nat) :=
  match Radix.toRadixLeD P x.mag radix with
  | .ok v => .ok (x.sign, v)
  | .error e => .error e

/-- `BigInt::to_radix_be` -/
def BigInt.toRadixBeD (P : Params) (x : BigInt) (radix : Nat) : Except Panic (Sign × List Nat) :=
  match Radix.toRadixBeD P x.mag radix with
  | .ok v => .ok (x.sign, v)
  | .error e => .error e

/-- `to_str_radix_reversed(u, radix)` -/
def toStrRadixReversedD (P : Params) (u : List Nat) (radix : Nat) : Except Panic (List Nat) :=
  if ¬ (2 ≤ radix ∧ radix ≤ strRadixMax) then .error .radix
  else if u = [] then .ok [48]
  else match toRadixLeD P u radix with
    | .ok res => .ok (res.map asciiDigit)
    | .error e => .error e

/-- `BigUint::to_str_radix` -/
def toStrRadixUD (P : Params) (u : List Nat) (radix : Nat) : Except Panic (List Nat) :=
  match toStrRadixReversedD P u radix with
  | .ok v => .ok v.reverse
  | .error e => .error e

/-- `BigInt::to_str_radix` -/
def toStrRadixID (P : Params) (x : BigInt) (radix : Nat) : Except Panic (List Nat) :=
  match toStrRadixReversedD P x.mag radix with
  | .ok v => .ok ((if x.sign = .minus then v ++ [45] else v).reverse)
  | .error e => .error e

/-- the triple `(is_nonnegative, prefix, buf)` that the `fmt` impl hands to `pad_integral` -/
def fmtTripleD (P : Params) (k : FmtKind) (x : BigInt) : Except Panic (Bool × List Nat × List Nat) :=
  match toStrRadixUD P x.mag (fmtRadix k) with
  | .ok s => .ok (decide (x.sign ≠ .minus), fmtPrefix k, if k = .upperHex then s.map asciiUpper else s)
  | .error e => .error e

/-- `format!(spec, x)` -/
def formatD (P : Params) (k : FmtKind) (f : FmtSpec) (x : BigInt) : Except Panic (List Nat) :=
  match fmtTripleD P k x with
  | .ok t => .ok (padIntegral f t.1 t.2.1 t.2.2)
  | .error e => .error e

end NB.Radix
