/- helper lemmas for C17: the serde split / join of 64-bit digits -/
import NB.Lemmas.Iter
import NB.Model.Serde
namespace NB.Serde
open NB NB.Bytes NB.Iter

theorem flatMap_eq_flat (init : List Nat) :
    init.flatMap (fun x => [x % W, (x >>> halfBits) % W]) = flat init := by
  induction init with
  | nil => rfl
  | cons x xs ih => simp [flat, lo32, hi32, ih]

/-- the emitted elements are exactly what a fresh `U32Digits` iterator would yield -/
theorem ser_elems_eq_abs (d : List Nat) : (ser d).elems = Iter.abs (U32Digits.new d) := by
  rcases List.eq_nil_or_concat d with h | ⟨init, last, rfl⟩
  · subst h; simp [ser, U32Digits.new, Iter.abs, flat]
  · simp only [List.concat_eq_append]
    have hfl : flat (init ++ [last]) = flat init ++ [lo32 last, hi32 last] := by
      rw [flat_append]; rfl
    simp only [ser, U32Digits.new, Iter.abs, if_true, List.getLast?_append, List.getLast?_singleton, Option.some_or,
      List.dropLast_concat, flatMap_eq_flat, hfl]
    by_cases hh : hi32 last = 0
    · have hh' : (last >>> halfBits) % W = 0 := hh
      simp [hh, hh', lo32]
    · have hh' : ¬ ((last >>> halfBits) % W = 0) := hh
      simp [hh', lo32, hi32]

theorem ser_declared (d : List Nat) : (ser d).declared = some (ser d).elems.length := by
  rcases List.eq_nil_or_concat d with h | ⟨init, last, rfl⟩
  · subst h; simp [ser]
  · simp only [List.concat_eq_append]
    simp only [ser, List.getLast?_append, List.getLast?_singleton, Option.some_or, List.dropLast_concat,
      flatMap_eq_flat, List.length_append, flat_length, List.length_cons, List.length_nil]
    by_cases hh : (last >>> halfBits) % W = 0
    · simp [hh]; omega
    · simp [hh]; omega

theorem joinPairs_eq_pairUp : ∀ (ws : List Nat), Below W ws → joinPairs ws = pairUp ws
  | [], _ => rfl
  | [a], _ => rfl
  | a :: b :: t, h => by
    simp only [joinPairs, pairUp, joinPairs_eq_pairUp t h.tail.tail]
    rw [or_shl32 h.head h.tail.head]

theorem de_eq (hint : Option Nat) (ws : List Nat) (h : Below W ws) : de hint ws = ofNat (valBase W ws) := by
  unfold de visitSeq
  simp only
  rw [joinPairs_eq_pairUp ws h, normalize_eq_ofNat (pairUp_ok ws h), pairUp_val]

theorem cautious_le (hint : Option Nat) : cautious hint ≤ 262144 := by
  unfold cautious
  exact Nat.le_trans (Nat.min_le_right _ _) (by decide)

end NB.Serde
