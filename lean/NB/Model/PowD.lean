/-
  NB.Model.PowD — DIGIT-LEVEL model of src/biguint/power.rs (`pow_impl!`, `Pow<&BigUint>`) and
  src/bigint/power.rs (`powsign`, `pow_impl!`) on digit vectors (`List Nat`) / `NB.BigInt` records.

  Same control flow as the value-level model NB.Model.Pow (kept as the intermediate layer of the
  refinement), but the BigUint operators are the digit-level models and their panics propagate:

    `&base * &base`                 NB.Mul.mulRef      (`impl_mul!`, ref × ref)
    `acc *= &base`                  NB.Mul.mulAssign   (`impl_mul_assign!`)
    `BigUint::one()`                `[1]`
    `self.is_one()`                 `data[..] == [1]`
    `exp.is_zero()`, `self.is_zero()`  `data.is_empty()`
    `exp.to_u64()`, `exp.to_u128()`  NB.Conv.U.toU64 / NB.Conv.U.toU128 (NB.Model.Convert; the `+=` of `to_u64` is an
                                    overflow site of the model and propagates)
    `other.is_odd()` on a BigUint   NB.Gcd.isOdd (first digit only)
    `BigInt::from_biguint`          NB.BigInt.fromBiguint

  The primitive exponent (`u8 … u128`, `usize`) is a machine integer: `exp & 1`, `exp >>= 1`,
  `exp == 0/1`, `exp > 1` are `Nat` operations, as in the value-level model.
  Loops take the fuel of the value-level model (`NB.Pow.powFuel e`, the bit length of the exponent).
-/
import NB.Base
import NB.Model.Mul
import NB.Model.Convert
import NB.Model.Gcd
import NB.Model.Pow
namespace NB.PowD
open NB.Pow (Form powFuel)

/-- `BigUint::one()` -/
def one : List Nat := [1]

/-- `while exp & 1 == 0 { base = &base * &base; exp >>= 1; }` -/
def sqLoop (P : Params) : Nat → List Nat → Nat → Except Panic (List Nat × Nat)
  | 0, _, _ => .error (.internal "fuel")
  | fuel + 1, base, exp =>
    if exp &&& 1 = 0 then
      match NB.Mul.mulRef P base base with
      | .error e => .error e
      | .ok base => sqLoop P fuel base (exp >>> 1)
    else .ok (base, exp)

/-- `while exp > 1 { exp >>= 1; base = &base * &base; if exp & 1 == 1 { acc *= &base; } }` -/
def accLoop (P : Params) : Nat → List Nat → Nat → List Nat → Except Panic (List Nat)
  | 0, _, _, _ => .error (.internal "fuel")
  | fuel + 1, base, exp, acc =>
    if exp > 1 then
      let exp := exp >>> 1
      match NB.Mul.mulRef P base base with
      | .error e => .error e
      | .ok base =>
        if exp &&& 1 = 1 then
          match NB.Mul.mulAssign P acc base with
          | .error e => .error e
          | .ok acc => accLoop P fuel base exp acc
        else accLoop P fuel base exp acc
    else .ok acc

/-- `impl Pow<$T> for BigUint` -/
def powVV (P : Params) (x : List Nat) (e : Nat) : Except Panic (List Nat) :=
  if e = 0 then .ok one else
  match sqLoop P (powFuel e) x e with
  | .error p => .error p
  | .ok (base, exp) =>
    if exp = 1 then .ok base else
    -- `let mut acc = base.clone();`
    accLoop P (powFuel e) base exp base

/-- `impl Pow<&$T> for BigUint`: `Pow::pow(self, *exp)` -/
def powVR (P : Params) (x : List Nat) (e : Nat) : Except Panic (List Nat) := powVV P x e

/-- `impl Pow<$T> for &BigUint`: `if exp == 0 { return one }; Pow::pow(self.clone(), exp)` -/
def powRV (P : Params) (x : List Nat) (e : Nat) : Except Panic (List Nat) :=
  if e = 0 then .ok one else powVV P x e

/-- `impl Pow<&$T> for &BigUint`: `Pow::pow(self, *exp)` -/
def powRR (P : Params) (x : List Nat) (e : Nat) : Except Panic (List Nat) := powRV P x e

def powPrim (P : Params) : Form → List Nat → Nat → Except Panic (List Nat)
  | .vv => powVV P | .vr => powVR P | .rv => powRV P | .rr => powRR P

/-! ### BigUint exponent (a digit vector) -/

/-- `impl Pow<&BigUint> for BigUint` -/
def powBigVR (P : Params) (x e : List Nat) : Except Panic (List Nat) :=
  if x = [1] ∨ e = [] then .ok one
  else if x = [] then .ok []
  else
    match NB.Conv.U.toU64 e with
    | .error p => .error p
    | .ok (some k) => powVV P x k
    | .ok none =>
      match NB.Conv.U.toU128 e with
      | some k => powVV P x k
      | none =>
        -- `panic!("memory overflow")`
        .error .capacity

/-- `impl Pow<BigUint> for BigUint` -/
def powBigVV (P : Params) (x e : List Nat) : Except Panic (List Nat) := powBigVR P x e

/-- `impl Pow<&BigUint> for &BigUint` -/
def powBigRR (P : Params) (x e : List Nat) : Except Panic (List Nat) :=
  if x = [1] ∨ e = [] then .ok one
  else if x = [] then .ok []
  else powBigVR P x e

/-- `impl Pow<BigUint> for &BigUint` -/
def powBigRV (P : Params) (x e : List Nat) : Except Panic (List Nat) := powBigRR P x e

def powBig (P : Params) : Form → List Nat → List Nat → Except Panic (List Nat)
  | .vv => powBigVV P | .vr => powBigVR P | .rv => powBigRV P | .rr => powBigRR P

/-! ### BigInt -/

/-- `fn powsign<T: Integer>(sign, other: &T) -> Sign`, given `other.is_zero()` and `other.is_odd()` -/
def powsignOf (sign : Sign) (isZero isOdd : Bool) : Sign :=
  if isZero then .plus
  else if sign ≠ .minus ∨ isOdd then sign
  else sign.neg

/-- `powsign` for a primitive exponent -/
def powsign (sign : Sign) (e : Nat) : Sign := powsignOf sign (decide (e = 0)) (decide (e % 2 = 1))

/-- `powsign` for a BigUint exponent: `is_zero` = no digits, `is_odd` looks at the first digit -/
def powsignBig (sign : Sign) (e : List Nat) : Sign := powsignOf sign (decide (e = [])) (NB.Gcd.isOdd e)

/-- bigint `pow_impl!($T)`: `BigInt::from_biguint(powsign(self.sign, &rhs), self.data.pow(rhs))`
    (by-value base uses `self.data.pow`, by-reference base uses `Pow::pow(&self.data, rhs)`) -/
def bigintPow (P : Params) (f : Form) (x : BigInt) (e : Nat) : Except Panic BigInt :=
  let s := powsign x.sign e
  match powPrim P f x.mag e with
  | .error p => .error p
  | .ok m => .ok (BigInt.fromBiguint s m)

/-- bigint `pow_impl!(BigUint)` -/
def bigintPowBig (P : Params) (f : Form) (x : BigInt) (e : List Nat) : Except Panic BigInt :=
  let s := powsignBig x.sign e
  match powBig P f x.mag e with
  | .error p => .error p
  | .ok m => .ok (BigInt.fromBiguint s m)

end NB.PowD
