//! stream C18: random generation, the RNG being a tape of u32 words passed on the request line.
//!
//! `Tape` implements `rand::RngCore`: `next_u32` pops the next word; `next_u64` and `fill_bytes`
//! are verbatim copies of `rand_core::impls::{next_u64_via_u32, fill_bytes_via_next}` (rand_core
//! 0.6.4; the harness has no direct dependency on rand_core).  When the tape runs out `next_u32`
//! panics with `TAPE_MSG`, reported as the result `tape-exhausted`.
//! Result: `ok <value> <words consumed>` | `tape-exhausted` | `panic <class>`.
#![cfg(feature = "rand")]
use crate::wire::*;
use num_bigint::{BigInt, BigUint, RandBigInt, RandomBits, UniformBigInt, UniformBigUint};
use rand::distributions::uniform::UniformSampler;
use rand::distributions::Distribution;
use rand::{Error, RngCore};
use std::panic::{self, AssertUnwindSafe};

const TAPE_MSG: &str = "C18 tape exhausted";

pub struct Tape {
    words: Vec<u32>,
    pos: usize,
}

impl RngCore for Tape {
    fn next_u32(&mut self) -> u32 {
        if self.pos >= self.words.len() {
            panic!("{}", TAPE_MSG);
        }
        let w = self.words[self.pos];
        self.pos += 1;
        w
    }
    fn next_u64(&mut self) -> u64 {
        // rand_core::impls::next_u64_via_u32
        let x = u64::from(self.next_u32());
        let y = u64::from(self.next_u32());
        (y << 32) | x
    }
    fn fill_bytes(&mut self, dest: &mut [u8]) {
        // rand_core::impls::fill_bytes_via_next
        let mut left = dest;
        while left.len() >= 8 {
            let (l, r) = { left }.split_at_mut(8);
            left = r;
            let chunk: [u8; 8] = self.next_u64().to_le_bytes();
            l.copy_from_slice(&chunk);
        }
        let n = left.len();
        if n > 4 {
            let chunk: [u8; 8] = self.next_u64().to_le_bytes();
            left.copy_from_slice(&chunk[..n]);
        } else if n > 0 {
            let chunk: [u8; 4] = self.next_u32().to_le_bytes();
            left.copy_from_slice(&chunk[..n]);
        }
    }
    fn try_fill_bytes(&mut self, dest: &mut [u8]) -> Result<(), Error> {
        self.fill_bytes(dest);
        Ok(())
    }
}

/// run `f` on a fresh tape; map the tape-exhausted panic, re-raise every other panic (classified
/// by main through `wire::classify`)
fn run<T>(tape: &str, show: impl Fn(&T) -> String, f: impl FnOnce(&mut Tape) -> T) -> Option<String> {
    let mut t = Tape { words: parse_words(tape)?, pos: 0 };
    let r = panic::catch_unwind(AssertUnwindSafe(|| f(&mut t)));
    Some(match r {
        Ok(v) => format!("ok {} {}", show(&v), t.pos),
        Err(e) => {
            let is_tape = e.downcast_ref::<String>().map(|s| s.contains(TAPE_MSG)).unwrap_or(false)
                || e.downcast_ref::<&str>().map(|s| s.contains(TAPE_MSG)).unwrap_or(false);
            if is_tape {
                "tape-exhausted".to_string()
            } else {
                panic::resume_unwind(e)
            }
        }
    })
}

fn su(v: &BigUint) -> String {
    show_u(v)
}
fn si(v: &BigInt) -> String {
    show_i(v)
}

pub fn handle(op: &str, a: &[&str]) -> Option<String> {
    match (op, a) {
        ("gen_biguint", [n, t]) => {
            let n: u64 = n.parse().ok()?;
            run(t, su, |r| r.gen_biguint(n))
        }
        ("gen_bigint", [n, t]) => {
            let n: u64 = n.parse().ok()?;
            run(t, si, |r| r.gen_bigint(n))
        }
        ("random_bits_u", [n, t]) => {
            let n: u64 = n.parse().ok()?;
            run(t, su, |r| -> BigUint { RandomBits::new(n).sample(r) })
        }
        ("random_bits_i", [n, t]) => {
            let n: u64 = n.parse().ok()?;
            run(t, si, |r| -> BigInt { RandomBits::new(n).sample(r) })
        }
        ("gen_biguint_below", [b, t]) => {
            let b = parse_u(b)?;
            run(t, su, |r| r.gen_biguint_below(&b))
        }
        ("gen_biguint_range", [lo, hi, t]) => {
            let (lo, hi) = (parse_u(lo)?, parse_u(hi)?);
            run(t, su, |r| r.gen_biguint_range(&lo, &hi))
        }
        ("gen_bigint_range", [lo, hi, t]) => {
            let (lo, hi) = (parse_i(lo)?, parse_i(hi)?);
            run(t, si, |r| r.gen_bigint_range(&lo, &hi))
        }
        ("sample_single_u", [lo, hi, t]) => {
            let (lo, hi) = (parse_u(lo)?, parse_u(hi)?);
            run(t, su, |r| UniformBigUint::sample_single(&lo, &hi, r))
        }
        ("sample_single_i", [lo, hi, t]) => {
            let (lo, hi) = (parse_i(lo)?, parse_i(hi)?);
            run(t, si, |r| UniformBigInt::sample_single(&lo, &hi, r))
        }
        ("uniform_u", [lo, hi, incl, t]) => {
            let (lo, hi) = (parse_u(lo)?, parse_u(hi)?);
            let incl: u32 = incl.parse().ok()?;
            run(t, su, |r| {
                let u = if incl == 0 { UniformBigUint::new(&lo, &hi) } else { UniformBigUint::new_inclusive(&lo, &hi) };
                u.sample(r)
            })
        }
        ("uniform_i", [lo, hi, incl, t]) => {
            let (lo, hi) = (parse_i(lo)?, parse_i(hi)?);
            let incl: u32 = incl.parse().ok()?;
            run(t, si, |r| {
                let u = if incl == 0 { UniformBigInt::new(&lo, &hi) } else { UniformBigInt::new_inclusive(&lo, &hi) };
                u.sample(r)
            })
        }
        // api-coverage: `impl SampleUniform for BigUint / BigInt` (`type Sampler = UniformBig*`), reached through
        // rand's generic front ends: `Rng::gen_range(lo..hi)` (→ `Sampler::sample_single`), `gen_range(lo..=hi)`
        // (→ the provided `sample_single_inclusive` = `new_inclusive(..).sample(..)`), and
        // `Uniform::new / new_inclusive / from(range)` (→ `Sampler::new / new_inclusive`, then `sample`).
        // `gen_range` itself asserts a non-empty range (rand's own message), so empty ranges are not requests here.
        ("gen_range_u", [lo, hi, incl, t]) => {
            let (lo, hi) = (parse_u(lo)?, parse_u(hi)?);
            let incl: u32 = incl.parse().ok()?;
            if (incl == 0 && lo >= hi) || (incl != 0 && lo > hi) {
                return None;
            }
            run(t, su, |r| {
                use rand::Rng;
                if incl == 0 {
                    r.gen_range(lo.clone()..hi.clone())
                } else {
                    r.gen_range(lo.clone()..=hi.clone())
                }
            })
        }
        ("gen_range_i", [lo, hi, incl, t]) => {
            let (lo, hi) = (parse_i(lo)?, parse_i(hi)?);
            let incl: u32 = incl.parse().ok()?;
            if (incl == 0 && lo >= hi) || (incl != 0 && lo > hi) {
                return None;
            }
            run(t, si, |r| {
                use rand::Rng;
                if incl == 0 {
                    r.gen_range(lo.clone()..hi.clone())
                } else {
                    r.gen_range(lo.clone()..=hi.clone())
                }
            })
        }
        ("dist_uniform_u", [lo, hi, incl, t]) => {
            let (lo, hi) = (parse_u(lo)?, parse_u(hi)?);
            let incl: u32 = incl.parse().ok()?;
            run(t, su, |r| {
                use rand::distributions::Uniform;
                let d: Uniform<BigUint> = match incl {
                    0 => Uniform::new(&lo, &hi),
                    1 => Uniform::new_inclusive(&lo, &hi),
                    2 => Uniform::from(lo.clone()..hi.clone()),
                    _ => Uniform::from(lo.clone()..=hi.clone()),
                };
                d.sample(r)
            })
        }
        ("dist_uniform_i", [lo, hi, incl, t]) => {
            let (lo, hi) = (parse_i(lo)?, parse_i(hi)?);
            let incl: u32 = incl.parse().ok()?;
            run(t, si, |r| {
                use rand::distributions::Uniform;
                let d: Uniform<BigInt> = match incl {
                    0 => Uniform::new(&lo, &hi),
                    1 => Uniform::new_inclusive(&lo, &hi),
                    2 => Uniform::from(lo.clone()..hi.clone()),
                    _ => Uniform::from(lo.clone()..=hi.clone()),
                };
                d.sample(r)
            })
        }
        _ => None,
    }
}
