/-
  NB.Model.Bytes — byte and digit-vector import/export (C09), import-free.

  Source map (64-bit digit configuration, `u64_digit`):
    src/biguint.rs          u32_chunk_to_u64, new, from_slice, assign_from_slice,
                            from_bytes_be/le, to_bytes_be/le
    src/biguint/convert.rs  from_bitwise_digits_le, to_bitwise_digits_le   (only the `bits` that
                            evenly divide the digit width; called here with bits = 8)
    src/bigint/convert.rs   twos_complement(_le/_be), from_signed_bytes_be/le, to_signed_bytes_be/le
    src/bigint.rs           new, from_slice, assign_from_slice, from_bytes_*, to_bytes_*,
                            to_u32_digits, to_u64_digits (sign + the BigUint routine)

  Bytes are `Nat < 256`, u32 words `Nat < 2^32`, u64 digits `Nat < B`.  Fixed-width primitive
  operations are written with the same operators as the source (`<<<`, `>>>`, `|||`, `&&&`,
  `^^^`) and an explicit truncation `% 2^width` wherever the Rust type would truncate.
  `Vec::with_capacity` arguments are not modelled (capacity is behaviourally invisible).
-/
import NB.Base
namespace NB.Bytes
open NB

/-- `big_digit::BITS` for `u64` digits -/
def digitBits : Nat := 64
/-- width of the `u32` halves -/
def halfBits : Nat := 32
/-- 2^32 -/
def W : Nat := 4294967296
/-- width of `u8` -/
def byteBits : Nat := 8
/-- 2^8 -/
def byteBase : Nat := 256

/-- `slice.chunks(n)`; `n = 0` panics in Rust (never the case here: n = 2 or 64/bits) and
    yields no chunk in the model -/
def chunks (n : Nat) (l : List Nat) : List (List Nat) :=
  if h : n = 0 ∨ l = [] then [] else l.take n :: chunks n (l.drop n)
termination_by l.length
decreasing_by
  have h1 : n ≠ 0 := fun e => h (Or.inl e)
  have h2 : l ≠ [] := fun e => h (Or.inr e)
  have : 0 < l.length := List.length_pos_iff.mpr h2
  simp only [List.length_drop]; omega

/-- `u32_chunk_to_u64`: chunk length is 1 or 2 (`chunk[0]` on an empty chunk would panic) -/
def u32ChunkToU64 : List Nat → Except Panic Nat
  | [] => .error (.internal "u32_chunk_to_u64:index")
  | [lo] => .ok lo
  | lo :: hi :: _ => .ok (lo ||| ((hi <<< halfBits) % B))

/-- `Iterator::map(f).collect()` for a fallible `f` (a panic aborts the whole call) -/
def mapM' {α β} (f : α → Except Panic β) : List α → Except Panic (List β)
  | [] => .ok []
  | a :: as => match f a with
    | .error e => .error e
    | .ok b => match mapM' f as with
      | .error e => .error e
      | .ok bs => .ok (b :: bs)

/-- `BigUint::assign_from_slice` (the old contents are cleared first, hence ignored) -/
def assignFromSlice (_old : List Nat) (slice : List Nat) : Except Panic (List Nat) :=
  match mapM' u32ChunkToU64 (chunks 2 slice) with
  | .error e => .error e
  | .ok data => .ok (normalize data)

/-- `BigUint::from_slice` -/
def fromSlice (slice : List Nat) : Except Panic (List Nat) := assignFromSlice [] slice

/-- `BigUint::new` (64-bit arm: `big.assign_from_slice(&digits)`) -/
def new (digits : List Nat) : Except Panic (List Nat) := assignFromSlice [] digits

/-- one chunk of `from_bitwise_digits_le`:
    `chunk.iter().rev().fold(0, |acc, &c| (acc << bits) | BigDigit::from(c))` -/
def foldChunk (bits : Nat) (chunk : List Nat) : Nat :=
  chunk.reverse.foldl (fun acc c => ((acc <<< bits) % B) ||| c) 0

/-- `convert::from_bitwise_digits_le(v, bits)`; the two `debug_assert!`s are explicit outcomes -/
def fromBitwiseDigitsLe (v : List Nat) (bits : Nat) : Except Panic (List Nat) :=
  if bits = 0 then .error .divzero            -- `big_digit::BITS % bits`
  else if v.isEmpty ∨ ¬ bits ≤ 8 ∨ digitBits % bits ≠ 0 then
    .error (.internal "from_bitwise_digits_le:assert1")
  else if ¬ v.all (fun c => c < 1 <<< bits) then
    .error (.internal "from_bitwise_digits_le:assert2")
  else
    let digitsPerBigDigit := digitBits / bits
    let data := (chunks digitsPerBigDigit v).map (foldChunk bits)
    .ok (normalize data)                        -- biguint_from_vec

/-- `BigUint::from_bytes_le` -/
def fromBytesLe (bytes : List Nat) : Except Panic (List Nat) :=
  if bytes.isEmpty then .ok [] else fromBitwiseDigitsLe bytes byteBits

/-- `BigUint::from_bytes_be` -/
def fromBytesBe (bytes : List Nat) : Except Panic (List Nat) :=
  if bytes.isEmpty then .ok [] else fromBytesLe bytes.reverse

/-- the inner `for _ in 0..digits_per_big_digit { res.push((r & mask) as u8); r >>= bits }` -/
def fullDigits (mask bits : Nat) : Nat → Nat → List Nat
  | 0, _ => []
  | k + 1, r => ((r &&& mask) % byteBase) :: fullDigits mask bits k (r >>> bits)

/-- the final `while r != 0 { res.push((r & mask) as u8); r >>= bits }`.  With `bits = 0` the
    Rust loop would not terminate; that case is excluded before the loop is reached. -/
def whileDigits (mask bits : Nat) (r : Nat) : List Nat :=
  if h : r = 0 ∨ bits = 0 then [] else ((r &&& mask) % byteBase) :: whileDigits mask bits (r >>> bits)
termination_by r
decreasing_by
  have h1 : r ≠ 0 := fun e => h (Or.inl e)
  have h2 : bits ≠ 0 := fun e => h (Or.inr e)
  rw [Nat.shiftRight_eq_div_pow]
  exact Nat.div_lt_self (Nat.pos_of_ne_zero h1) (Nat.one_lt_two_pow h2)

/-- `convert::to_bitwise_digits_le(u, bits)` -/
def toBitwiseDigitsLe (u : List Nat) (bits : Nat) : Except Panic (List Nat) :=
  if bits = 0 then .error .divzero
  else if u.isEmpty ∨ ¬ bits ≤ 8 ∨ digitBits % bits ≠ 0 then
    .error (.internal "to_bitwise_digits_le:assert")
  else
    let mask := ((1 <<< bits) % B) - 1
    let digitsPerBigDigit := digitBits / bits
    let res := u.dropLast.flatMap (fun r => fullDigits mask bits digitsPerBigDigit r)
    let r := u.getLast?.getD 0
    .ok (res ++ whileDigits mask bits r)

/-- `BigUint::to_bytes_le` -/
def toBytesLe (u : List Nat) : Except Panic (List Nat) :=
  if u.isEmpty then .ok [0] else toBitwiseDigitsLe u byteBits

/-- `BigUint::to_bytes_be` -/
def toBytesBe (u : List Nat) : Except Panic (List Nat) :=
  match toBytesLe u with
  | .error e => .error e
  | .ok v => .ok v.reverse

/-- `twos_complement` over the bytes from the least significant one:
    `*d = !*d; if carry { *d = d.wrapping_add(1); carry = d.is_zero() }` -/
def twosGo : Bool → List Nat → List Nat
  | _, [] => []
  | carry, d :: ds =>
    let d1 := d ^^^ 255
    if carry then
      let d2 := (d1 + 1) % byteBase
      d2 :: twosGo (d2 == 0) ds
    else d1 :: twosGo false ds

/-- `twos_complement_le` -/
def twosComplementLe (digits : List Nat) : List Nat := twosGo true digits
/-- `twos_complement_be`: the same walk over `digits.iter_mut().rev()` -/
def twosComplementBe (digits : List Nat) : List Nat := (twosGo true digits.reverse).reverse

/-- `from_signed_bytes_le` -/
def fromSignedBytesLe (digits : List Nat) : Except Panic BigInt :=
  match digits.getLast? with
  | none => .ok ⟨.nosign, []⟩
  | some v =>
    let sign := if v > 127 then Sign.minus else Sign.plus
    if sign = .minus then
      match fromBytesLe (twosComplementLe digits) with
      | .error e => .error e
      | .ok m => .ok (BigInt.fromBiguint sign m)
    else
      match fromBytesLe digits with
      | .error e => .error e
      | .ok m => .ok (BigInt.fromBiguint sign m)

/-- `from_signed_bytes_be` -/
def fromSignedBytesBe (digits : List Nat) : Except Panic BigInt :=
  match digits.head? with
  | none => .ok ⟨.nosign, []⟩
  | some v =>
    let sign := if v > 127 then Sign.minus else Sign.plus
    if sign = .minus then
      match fromBytesBe (twosComplementBe digits) with
      | .error e => .error e
      | .ok m => .ok (BigInt.fromBiguint sign m)
    else
      match fromBytesBe digits with
      | .error e => .error e
      | .ok m => .ok (BigInt.fromBiguint sign m)

/-- `to_signed_bytes_le` -/
def toSignedBytesLe (x : BigInt) : Except Panic (List Nat) :=
  match toBytesLe x.mag with
  | .error e => .error e
  | .ok bytes =>
    let lastByte := bytes.getLast?.getD 0
    let bytes :=
      if lastByte > 127 ∧
          ¬ (lastByte = 128 ∧ (bytes.reverse.drop 1).all (· == 0) ∧ x.sign = .minus)
      then bytes ++ [0] else bytes
    .ok (if x.sign = .minus then twosComplementLe bytes else bytes)

/-- `to_signed_bytes_be` -/
def toSignedBytesBe (x : BigInt) : Except Panic (List Nat) :=
  match toBytesBe x.mag with
  | .error e => .error e
  | .ok bytes =>
    let firstByte := bytes.head?.getD 0
    let bytes :=
      if firstByte > 127 ∧
          ¬ (firstByte = 128 ∧ (bytes.drop 1).all (· == 0) ∧ x.sign = .minus)
      then 0 :: bytes else bytes
    .ok (if x.sign = .minus then twosComplementBe bytes else bytes)

/-! BigInt wrappers (src/bigint.rs) -/

def liftU (s : Sign) : Except Panic (List Nat) → Except Panic BigInt
  | .error e => .error e
  | .ok m => .ok (BigInt.fromBiguint s m)

/-- `BigInt::new` -/
def inew (s : Sign) (digits : List Nat) : Except Panic BigInt := liftU s (new digits)
/-- `BigInt::from_slice` -/
def ifromSlice (s : Sign) (slice : List Nat) : Except Panic BigInt := liftU s (fromSlice slice)
/-- `BigInt::assign_from_slice` -/
def iassignFromSlice (self : BigInt) (s : Sign) (slice : List Nat) : Except Panic BigInt :=
  if s = .nosign then .ok ⟨.nosign, []⟩          -- set_zero
  else match assignFromSlice self.mag slice with
    | .error e => .error e
    | .ok data => .ok ⟨if data.isEmpty then .nosign else s, data⟩
/-- `BigInt::from_bytes_le/be` -/
def ifromBytesLe (s : Sign) (bytes : List Nat) : Except Panic BigInt := liftU s (fromBytesLe bytes)
def ifromBytesBe (s : Sign) (bytes : List Nat) : Except Panic BigInt := liftU s (fromBytesBe bytes)
/-- `BigInt::to_bytes_le/be` -/
def itoBytesLe (x : BigInt) : Except Panic (Sign × List Nat) :=
  match toBytesLe x.mag with | .error e => .error e | .ok v => .ok (x.sign, v)
def itoBytesBe (x : BigInt) : Except Panic (Sign × List Nat) :=
  match toBytesBe x.mag with | .error e => .error e | .ok v => .ok (x.sign, v)

/-! import-free oracles (proved equal to Mathlib's `Nat.digits` / `Nat.ofDigits` in NB.Lemmas.Bytes) -/

/-- `Nat.digits b n` for `b ≥ 2` -/
def digitsBase (b : Nat) (n : Nat) : List Nat :=
  if h : n = 0 ∨ b < 2 then [] else (n % b) :: digitsBase b (n / b)
termination_by n
decreasing_by
  have h1 : n ≠ 0 := fun e => h (Or.inl e)
  have h2 : ¬ b < 2 := fun e => h (Or.inr e)
  exact Nat.div_lt_self (Nat.pos_of_ne_zero h1) (by omega)

/-- `Nat.ofDigits b l` -/
def valBase (b : Nat) : List Nat → Nat
  | [] => 0
  | d :: ds => d + b * valBase b ds

/-- value of a two's-complement little-endian byte string (empty = 0) -/
def tcDecode (bs : List Nat) : Int :=
  match bs.getLast? with
  | none => 0
  | some t => if t > 127 then (valBase 256 bs : Int) - ((256 ^ bs.length : Nat) : Int) else (valBase 256 bs : Int)

end NB.Bytes
