//! stream C20: work count of the multiply-accumulate row routine around one product
use crate::wire::*;
use num_bigint::BigUint;

/// digit `i` of operand `k` for pattern id `p` (identical to `NB.Cost.denseDigit`)
#[allow(dead_code)]
fn dense_digit(p: u64, k: u64, i: u64) -> u64 {
    (i.wrapping_add(1))
        .wrapping_mul(0x9E37_79B9_7F4A_7C15)
        .wrapping_add(p)
        .wrapping_add(k.wrapping_mul(0xD1B5_4A32_D192_ED03))
        | 1
}

#[allow(dead_code)]
fn dense(p: u64, k: u64, n: usize) -> BigUint {
    let mut w = Vec::with_capacity(2 * n);
    for i in 0..n {
        let d = dense_digit(p, k, i as u64);
        w.push(d as u32);
        w.push((d >> 32) as u32);
    }
    BigUint::new(w)
}

#[allow(dead_code)]
fn measure(a: &BigUint, b: &BigUint) -> String {
    #[cfg(num_bigint_verif)]
    {
        num_bigint::verif::reset();
        let prod = a * b;
        let w = num_bigint::verif::work_count();
        std::hint::black_box(&prod);
        return format!("ok {}", w);
    }
    #[cfg(not(num_bigint_verif))]
    {
        let _ = (a, b);
        "unsupported".to_string()
    }
}

pub fn handle(op: &str, a: &[&str]) -> Option<String> {
    Some(match (op, a) {
        #[cfg(num_bigint_verif)]
        ("work", [n, m, p]) => {
            let n: usize = n.parse().ok()?;
            let m: usize = m.parse().ok()?;
            let p: u64 = p.parse().ok()?;
            measure(&dense(p, 0, n), &dense(p, 1, m))
        }
        #[cfg(num_bigint_verif)]
        ("workv", [x, y]) => measure(&parse_u(x)?, &parse_u(y)?),
        _ => return None,
    })
}
