/-
  NB.Model.AsmCheck — executable, import-free CHECKER for the inline-asm digit loops.

  `checkLoop isSub prog regs nregs = some w` is a syntactic certificate that `prog` (any
  instruction list of the subset of NB.Model.AsmDefs) is a `w`-way unrolled carry-chain loop:

      pre            only `clc` (at least one): the chain starts with CF = 0 whatever the
                     flags were at asm entry
      L: body        executed ONCE symbolically (see `symStep`): for t = 0 … w-1 in order it does
                     a[idx+t] := adc/sbb(a[idx+t], b[idx+t], carry) with the carry entering from
                     the previous iteration's final CF; every memory access is at digit
                     idx + p with p < w; the only stores are `a[idx+p] := result p`; idx advances
                     by exactly w (inc / lea); size is decremented exactly once by a `dec` that is
                     the last flag writer; CF at the end of the body is the carry after position
                     w-1 (no instruction clobbers it: inc/dec/lea/mov/setc preserve CF)
      jnz L
      post           only `setc`/`clc`; `setc {c}` reads the live CF (before any `clc`), `idx`
                     is not written: the Rust wrapper reads `(c > 0, idx)`

  Soundness (NB.Props.C15G.checkLoop_sound): such a program, called like the Rust wrapper,
  never faults and computes the schoolbook chain on the first `w * (size / d)` digits.
  Everything the checker does not understand is rejected (`none`); a rejection is not a proof
  that the program is wrong.
-/
import NB.Model.Asm
namespace NB.Asm

/-- symbolic value of a register during one iteration started at `idx = i`, `size = n` -/
inductive SVal where
  /-- nothing known -/
  | unk
  /-- `i + c` -/
  | idx (c : Nat)
  /-- `n` -/
  | size0
  /-- `n - 1` (as computed by `dec`) -/
  | size1
  /-- the digit `a[i+t]` as it was at the start of the iteration -/
  | aDig (t : Nat)
  /-- the digit `b[i+t]` -/
  | bDig (t : Nat)
  /-- result digit `t` of the chain -/
  | res (t : Nat)
  deriving DecidableEq, Repr, Inhabited

/-- symbolic carry flag -/
inductive SCF where
  /-- the carry entering chain position `t` (`t = 0`: CF at the start of the iteration) -/
  | chain (t : Nat)
  | clob
  deriving DecidableEq, Repr, Inhabited

structure Sym where
  regs : Nat → SVal
  cf : SCF
  /-- ZF is the one written by `dec {size}` -/
  zfOk : Bool
  /-- `a[i+p]` already holds result digit `p` -/
  wr : Nat → Bool

def updS (f : Nat → SVal) (i : Nat) (v : SVal) : Nat → SVal := fun j => if j = i then v else f j
def updB (f : Nat → Bool) (i : Nat) (v : Bool) : Nat → Bool := fun j => if j = i then v else f j

/-- digit offset (relative to `i`) of the operand `[… + 8*{idxReg} + 8*off]`; must be `< w` -/
def symAddr (σ : Sym) (w idxReg off : Nat) : Option Nat :=
  match σ.regs idxReg with
  | .idx c => if c + off < w then some (c + off) else none
  | _ => none

/-- symbolic value read from memory -/
def symRead (R : Regs) (σ : Sym) (w base idxReg off : Nat) : Option SVal :=
  match symAddr σ w idxReg off with
  | none => none
  | some p =>
    if base = R.a then some (if σ.wr p then .res p else .aDig p)
    else if base = R.b then some (.bDig p)
    else none

def symSet (R : Regs) (σ : Sym) (dst : Nat) (v : SVal) : Option Sym :=
  if dst = R.a ∨ dst = R.b then none else some { σ with regs := updS σ.regs dst v }

/-- chain step `t`: `dst` holds `a[i+t]`, the source is `b[i+t]` (or the other way round for
    the commutative `adc`), CF is the carry entering position `t` -/
def symChain (isSub : Bool) (R : Regs) (σ : Sym) (dst : Nat) (sv : SVal) : Option Sym :=
  if dst = R.a ∨ dst = R.b then none else
  match σ.cf with
  | .clob => none
  | .chain t =>
    if (σ.regs dst = .aDig t ∧ sv = .bDig t) ∨ (isSub = false ∧ σ.regs dst = .bDig t ∧ sv = .aDig t) then
      some { σ with regs := updS σ.regs dst (.res t), cf := .chain (t + 1), zfOk := false }
    else none

/-- one instruction of the body on the symbolic state; `none` = not understood / rejected -/
def symStep (isSub : Bool) (R : Regs) (w : Nat) (i : Instr) (σ : Sym) : Option Sym :=
  match i with
  | .clc => some { σ with cf := .clob }
  | .load dst base idx off =>
    match symRead R σ w base idx off with
    | none => none
    | some v => symSet R σ dst v
  | .store base idx off src =>
    if base = R.a then
      match symAddr σ w idx off with
      | none => none
      | some p => if σ.regs src = .res p then some { σ with wr := updB σ.wr p true } else none
    else none
  | .adc dst src => if isSub then none else symChain isSub R σ dst (σ.regs src)
  | .sbb dst src => if isSub then symChain isSub R σ dst (σ.regs src) else none
  | .adcm dst base idx off =>
    if isSub then none else
    match symRead R σ w base idx off with
    | none => none
    | some v => symChain isSub R σ dst v
  | .sbbm dst base idx off =>
    if isSub then
      match symRead R σ w base idx off with
      | none => none
      | some v => symChain isSub R σ dst v
    else none
  | .inc r =>
    if r = R.a ∨ r = R.b then none else
    match σ.regs r with
    | .idx c => if c + 1 ≤ w then some { σ with regs := updS σ.regs r (.idx (c + 1)), zfOk := false } else none
    | _ => some { σ with regs := updS σ.regs r .unk, zfOk := false }
  | .dec r =>
    if r = R.a ∨ r = R.b then none else
    match σ.regs r with
    | .size0 => some { σ with regs := updS σ.regs r .size1, zfOk := true }
    | _ => some { σ with regs := updS σ.regs r .unk, zfOk := false }
  | .lea dst src imm =>
    if dst = R.a ∨ dst = R.b then none else
    match σ.regs src with
    | .idx c => if c + imm ≤ w then some { σ with regs := updS σ.regs dst (.idx (c + imm)) } else none
    | _ => some { σ with regs := updS σ.regs dst .unk }
  | .setc r => symSet R σ r .unk
  | .addi r _ =>
    if r = R.a ∨ r = R.b then none else
    some { σ with regs := updS σ.regs r .unk, cf := .clob, zfOk := false }
  | .subi r _ =>
    if r = R.a ∨ r = R.b then none else
    some { σ with regs := updS σ.regs r .unk, cf := .clob, zfOk := false }
  -- accesses without an index register hit the same digit in every iteration: never part of the loop
  | .loadn _ _ _ => none
  | .storen _ _ _ => none
  | .adcmn _ _ _ => none
  | .sbbmn _ _ _ => none
  | .label _ => none
  | .jnz _ => none

def symExec (isSub : Bool) (R : Regs) (w : Nat) : List Instr → Sym → Option Sym
  | [], σ => some σ
  | i :: is, σ => match symStep isSub R w i σ with
    | none => none
    | some σ' => symExec isSub R w is σ'

/-- symbolic state at the loop label: `idx = i`, `size = n`, CF = incoming carry, nothing written -/
def sym0 (R : Regs) : Sym :=
  { regs := updS (updS (fun _ => .unk) R.size .size0) R.idx (.idx 0), cf := .chain 0, zfOk := false,
    wr := fun _ => false }

/-- end of the body: `idx = i + w`, `size = n - 1` with ZF from that `dec`, CF = carry after
    position `w - 1`, every `a[i+p]`, `p < w`, holds result digit `p` -/
def symFinal (R : Regs) (w : Nat) (σ : Sym) : Bool :=
  decide (σ.regs R.idx = .idx w) && decide (σ.regs R.size = .size1) && decide (σ.cf = .chain w) &&
    σ.zfOk && (List.range w).all σ.wr

def isChainOp : Instr → Bool
  | .adc _ _ => true | .sbb _ _ => true
  | .adcm _ _ _ _ => true | .sbbm _ _ _ _ => true
  | .adcmn _ _ _ => true | .sbbmn _ _ _ => true
  | _ => false

/-- candidate unroll factor: number of adc/sbb instructions of the body -/
def chainLen (body : List Instr) : Nat := (body.filter isChainOp).length

/-- prologue: nothing but `clc`, at least one -/
def checkPre : List Instr → Bool
  | [] => false
  | l => l.all (fun i => i == Instr.clc)

/-- epilogue: only `setc`/`clc`; `c` receives the live CF; `idx` and the pointers are not written -/
def checkPost (R : Regs) : List Instr → Bool → Bool → Bool
  | [], _, cSet => cSet
  | .clc :: is, _, cSet => checkPost R is false cSet
  | .setc r :: is, live, cSet =>
    if r = R.a ∨ r = R.b ∨ r = R.idx then false
    else if r = R.c then (if live then checkPost R is live true else false)
    else checkPost R is live cSet
  | _ :: _, _, _ => false

/-- the five roles are five different registers -/
def regsDistinct (R : Regs) : Bool :=
  decide (R.a ≠ R.b ∧ R.idx ≠ R.size ∧ R.idx ≠ R.a ∧ R.idx ≠ R.b ∧ R.size ≠ R.a ∧ R.size ≠ R.b ∧
          R.c ≠ R.a ∧ R.c ≠ R.b ∧ R.c ≠ R.idx ∧ R.c ≠ R.size)

def instrRegs : Instr → List Nat
  | .clc => [] | .label _ => [] | .jnz _ => []
  | .load d b i _ => [d, b, i] | .store b i _ s => [b, i, s]
  | .loadn d b _ => [d, b] | .storen b _ s => [b, s]
  | .adc d s => [d, s] | .sbb d s => [d, s]
  | .adcm d b i _ => [d, b, i] | .sbbm d b i _ => [d, b, i]
  | .adcmn d b _ => [d, b] | .sbbmn d b _ => [d, b]
  | .inc r => [r] | .dec r => [r] | .setc r => [r]
  | .lea d s _ => [d, s] | .addi r _ => [r] | .subi r _ => [r]

/-- THE CHECKER.  `some w`: `prog` is a certified `w`-way unrolled add (`isSub = false`) or
    subtract (`isSub = true`) loop for the register roles `R`; `nregs` = number of asm operands. -/
def checkLoop (isSub : Bool) (prog : List Instr) (R : Regs) (nregs : Nat) : Option Nat :=
  match splitLoop prog with
  | none => none
  | some l =>
    let w := chainLen l.body
    if !(regsDistinct R && [R.size, R.a, R.b, R.c, R.idx].all (· < nregs) &&
         prog.all (fun i => (instrRegs i).all (· < nregs)) && decide (0 < w)) then none
    else if !(checkPre l.pre) then none
    else if !(checkPost R l.post true false) then none
    else match symExec isSub R w l.body (sym0 R) with
      | none => none
      | some σ => if symFinal R w σ then some w else none

end NB.Asm
