/-
  NB.Model.Core — model of the identity / comparison / hashing / sign layer of
  src/biguint.rs, src/bigint.rs, src/bigint/convert.rs (ToBigInt/ToBigUint/From/TryFrom between the
  two types) and `Mul<Sign> for Sign` of src/bigint/multiplication.rs, plus a small register
  machine for HISTORIES of in-place public operations (properties C04 and C19).

  A BigUint is its digit vector `data : Vec<u64>` (`List Nat`, little-endian); a BigInt is
  `{sign, data}` (`NB.BigInt`).  `Vec` capacity is not modelled, so `clone`, `clone_from`,
  `mem::replace` are plain copies and `data.clear()` is `[]`.

  Everything lives in namespace `NB.Core` (generic names such as `BigInt.isZero`, `BigInt.fromU`,
  `Sign.toInt`, `Regs` are used by other model files in `NB`).  Functions on `Sign` defined here
  (`Sign.disc`, `Sign.cmp`, `Sign.toInt`, `Sign.ofInt`, `Sign.ofCode`) are therefore applied
  prefix, not with dot notation.

  Only the 64-bit digit configuration is described (the second arm of `cfg_digit_expr!`).
-/
import NB.Base
import NB.Model.AddSub
import NB.Model.Mul
import NB.Model.Div
import NB.Model.Bits
import NB.Model.Shift
namespace NB.Core

/-! ## u32 input words -/

/-- number of bits of the `u32` input words of `new` / `from_slice` / `assign_from_slice`
    (the literal `32` in `u32_chunk_to_u64`; a property of the type `u32`, not a tunable) -/
def u32Bits : Nat := 32
def B32 : Nat := 2 ^ u32Bits

/-- all words are proper `u32`s (the type invariant of `&[u32]`) -/
def WordsOk (ws : List Nat) : Prop := ∀ w ∈ ws, w < B32
instance (ws : List Nat) : Decidable (WordsOk ws) := by unfold WordsOk; infer_instance

/-- the natural number denoted by little-endian `u32` words -/
def val32 : List Nat → Nat
  | [] => 0
  | w :: ws => w + B32 * val32 ws

/-- `slice.chunks(2)` -/
def chunks2 : List Nat → List (List Nat)
  | [] => []
  | [a] => [[a]]
  | a :: b :: t => [a, b] :: chunks2 t

/-- `u32_chunk_to_u64`: `digit = chunk[0] as u64; if let Some(&hi) = chunk.get(1) { digit |= (hi as u64) << 32 }`.
    (`chunks(2)` only yields chunks of length 1 or 2; `chunk[0]` on an empty chunk would be an
    index panic, unreachable — modelled as 0.) -/
def u32ChunkToU64 : List Nat → Nat
  | [] => 0
  | [lo] => lo
  | lo :: hi :: _ => lo ||| (hi <<< u32Bits)

namespace BigUint

/-! ## BigUint: constructors -/

/-- `biguint_from_vec(digits)` = `BigUint { data: digits }.normalized()` -/
def fromVec (digits : List Nat) : List Nat := normalize digits

/-- `assign_from_slice(&mut self, slice)`: `self.data.clear(); self.data.extend(slice.chunks(2).map(u32_chunk_to_u64)); self.normalize()` -/
def assignFromSlice (_self : List Nat) (slice : List Nat) : List Nat :=
  normalize ((chunks2 slice).map u32ChunkToU64)

/-- `BigUint::ZERO` / `zero()` / `default()` -/
def zero : List Nat := []

/-- `from_slice(slice)`: `let mut big = Self::ZERO; big.assign_from_slice(slice); big` -/
def fromSlice (slice : List Nat) : List Nat := assignFromSlice zero slice

/-- `new(digits: Vec<u32>)` (64-bit arm: `big.assign_from_slice(&digits)`) -/
def new (digits : List Nat) : List Nat := assignFromSlice zero digits

def default : List Nat := zero

/-- `one()`: `BigUint { data: vec![1] }` -/
def one : List Nat := [1]

/-! ## BigUint: Eq, Ord, Hash -/

/-- `PartialEq::eq`: `self.data == other.data` -/
def eq (a b : List Nat) : Bool := a == b

/-- `Ord::cmp`: `cmp_slice(&self.data[..], &other.data[..])` -/
def cmp (a b : List Nat) : Ordering := cmpSlice a b

/-- what `Hash::hash` feeds to the hasher: `self.data.hash(state)` = length prefix, then the digits
    (std's hasher itself is not modelled) -/
def hashInput (a : List Nat) : List Nat := a.length :: a

/-! ## BigUint: identity helpers -/

/-- `set_zero`: `self.data.clear()` -/
def setZero (_self : List Nat) : List Nat := []

/-- `is_zero`: `self.data.is_empty()` -/
def isZero (a : List Nat) : Bool := a.isEmpty

/-- `set_one`: `self.data.clear(); self.data.push(1)` -/
def setOne (_self : List Nat) : List Nat := [] ++ [1]

/-- `is_one`: `self.data[..] == [1]` -/
def isOne (a : List Nat) : Bool := a == [1]

/-- `clone()` -/
def clone (a : List Nat) : List Nat := a

/-- `clone_from(&mut self, other)`: `self.data.clone_from(&other.data)` -/
def cloneFrom (_self other : List Nat) : List Nat := other

/-- `to_u64_digits()`: `self.iter_u64_digits().collect()` (64-bit: the stored digits) -/
def toU64Digits (a : List Nat) : List Nat := a

/-- `ToBigUint for BigUint`: `Some(self.clone())` -/
def toBiguint (a : List Nat) : Option (List Nat) := some (clone a)

end BigUint

/-! ## Sign -/

/-- discriminant of `enum Sign { Minus, NoSign, Plus }`: drives the derived `Ord` and `Hash` -/
def Sign.disc : Sign → Nat
  | .minus => 0 | .nosign => 1 | .plus => 2

/-- derived `Ord for Sign` -/
def Sign.cmp (a b : Sign) : Ordering :=
  if Sign.disc a < Sign.disc b then .lt else if Sign.disc a > Sign.disc b then .gt else .eq

/-- default `PartialOrd::le` on top of `cmp` -/
def ordIsLe : Ordering → Bool
  | .gt => false
  | _ => true

namespace BigInt

/-! ## BigInt: constructors (`from_biguint` itself is `NB.BigInt.fromBiguint` in NB.Base) -/

/-- `BigInt::ZERO` -/
def zero : BigInt := ⟨.nosign, BigUint.zero⟩

def default : BigInt := zero

/-- `one()` -/
def one : BigInt := ⟨.plus, BigUint.one⟩

/-- `new(sign, digits)` -/
def new (s : Sign) (digits : List Nat) : BigInt := BigInt.fromBiguint s (BigUint.new digits)

/-- `from_slice(sign, slice)` -/
def fromSlice (s : Sign) (slice : List Nat) : BigInt := BigInt.fromBiguint s (BigUint.fromSlice slice)

/-- `set_zero`: `self.data.set_zero(); self.sign = NoSign` -/
def setZero (x : BigInt) : BigInt := ⟨.nosign, BigUint.setZero x.mag⟩

/-- `assign_from_slice(&mut self, sign, slice)` -/
def assignFromSlice (x : BigInt) (s : Sign) (slice : List Nat) : BigInt :=
  if s = .nosign then setZero x
  else
    let d := BigUint.assignFromSlice x.mag slice
    ⟨if BigUint.isZero d then .nosign else s, d⟩

/-- `From<BigUint> for BigInt` -/
def fromU (n : List Nat) : BigInt :=
  if BigUint.isZero n then zero else ⟨.plus, n⟩

/-! ## BigInt: Eq, Ord, Hash -/

/-- `PartialEq::eq`: `self.sign == other.sign && (self.sign == NoSign || self.data == other.data)` -/
def eq (a b : BigInt) : Bool :=
  (a.sign == b.sign) && ((a.sign == .nosign) || BigUint.eq a.mag b.mag)

/-- `Ord::cmp`: sign first, then magnitude, reversed for `Minus` -/
def cmp (a b : BigInt) : Ordering :=
  let scmp := Sign.cmp a.sign b.sign
  if scmp ≠ .eq then scmp
  else match a.sign with
    | .nosign => .eq
    | .plus => BigUint.cmp a.mag b.mag
    | .minus => BigUint.cmp b.mag a.mag

/-- hash input: `self.sign.hash(state); if self.sign != NoSign { self.data.hash(state) }` -/
def hashInput (x : BigInt) : List Nat :=
  Sign.disc x.sign :: (if x.sign ≠ .nosign then BigUint.hashInput x.mag else [])

/-! ## BigInt: sign helpers -/

def clone (x : BigInt) : BigInt := ⟨x.sign, BigUint.clone x.mag⟩

/-- `clone_from`: `self.sign = other.sign; self.data.clone_from(&other.data)` -/
def cloneFrom (x other : BigInt) : BigInt := ⟨other.sign, BigUint.cloneFrom x.mag other.mag⟩

/-- `Neg for BigInt` (by value): `self.sign = -self.sign; self` -/
def negVal (x : BigInt) : BigInt := ⟨x.sign.neg, x.mag⟩

/-- `Neg for &BigInt`: `-self.clone()` -/
def negRef (x : BigInt) : BigInt := negVal (clone x)

/-- `Signed::abs` -/
def abs (x : BigInt) : BigInt :=
  match x.sign with
  | .plus | .nosign => clone x
  | .minus => fromU (BigUint.clone x.mag)

/-- `Signed::signum` -/
def signum (x : BigInt) : BigInt :=
  match x.sign with
  | .plus => one
  | .minus => negVal one
  | .nosign => zero

/-- `Signed::abs_sub`: `if *self <= *other { ZERO } else { self - other }` (ref − ref: `NB.BigInt.sub`) -/
def absSub (P : Params) (x y : BigInt) : Except Panic BigInt :=
  if ordIsLe (cmp x y) then .ok zero else BigInt.sub P x y

def isPositive (x : BigInt) : Bool := x.sign == .plus
def isNegative (x : BigInt) : Bool := x.sign == .minus

/-- `sign()` -/
def getSign (x : BigInt) : Sign := x.sign
/-- `magnitude()` -/
def magnitude (x : BigInt) : List Nat := x.mag
/-- `into_parts()` -/
def intoParts (x : BigInt) : Sign × List Nat := (x.sign, x.mag)

/-- `BigInt::to_biguint` (and `ToBigUint for BigInt`, `TryFrom<&BigInt> for BigUint`) -/
def toBiguint (x : BigInt) : Option (List Nat) :=
  match x.sign with
  | .plus => some (BigUint.clone x.mag)
  | .nosign => some BigUint.zero
  | .minus => none

/-- `TryFrom<BigInt> for BigUint` (by value): `if value.sign() == Minus { Err } else { Ok(value.data) }` -/
def tryIntoBiguint (x : BigInt) : Option (List Nat) :=
  if x.sign = .minus then none else some x.mag

/-- `ToBigInt for BigInt` -/
def toBigint (x : BigInt) : Option BigInt := some (clone x)

/-- `is_zero`: `self.sign == NoSign` -/
def isZero (x : BigInt) : Bool := x.sign == .nosign

/-- `set_one`: `self.data.set_one(); self.sign = Plus` -/
def setOne (x : BigInt) : BigInt := ⟨.plus, BigUint.setOne x.mag⟩

/-- `is_one`: `self.sign == Plus && self.data.is_one()` -/
def isOne (x : BigInt) : Bool := (x.sign == .plus) && BigUint.isOne x.mag

/-! ## BigInt `+=` / `-=` (`let n = mem::replace(self, ZERO); *self = n + other`, i.e. the
    (value, &reference) instances of `bigint_add!` / `bigint_sub!`) -/

/-- the magnitude-difference arm in the (value, &reference) form:
    `Less => from_biguint(sLess, &b.data - a.data)` (`Sub<BigUint> for &BigUint`, reuses a's buffer),
    `Greater => from_biguint(sGreater, a.data - &b.data)` (`Sub<&BigUint> for BigUint` = `-=`) -/
def subMagValRef (P : Params) (sLess sGreater : Sign) (ma mb : List Nat) : Except Panic BigInt :=
  match cmpSlice ma mb with
  | .lt => (subRefVal P mb ma).map (BigInt.fromBiguint sLess)
  | .gt => (NB.subAssign P ma mb).map (BigInt.fromBiguint sGreater)
  | .eq => .ok zero

/-- `impl AddAssign<&BigInt> for BigInt` -/
def addAssign (P : Params) (a b : BigInt) : Except Panic BigInt :=
  match a.sign, b.sign with
  | _, .nosign => .ok a
  | .nosign, _ => .ok (clone b)
  | .plus, .plus | .minus, .minus => .ok (BigInt.fromBiguint a.sign (NB.addAssign P a.mag b.mag))
  | .plus, .minus | .minus, .plus => subMagValRef P b.sign a.sign a.mag b.mag

/-- `impl SubAssign<&BigInt> for BigInt` -/
def subAssign (P : Params) (a b : BigInt) : Except Panic BigInt :=
  match a.sign, b.sign with
  | _, .nosign => .ok a
  | .nosign, _ => .ok (negVal (clone b))
  | .plus, .minus | .minus, .plus => .ok (BigInt.fromBiguint a.sign (NB.addAssign P a.mag b.mag))
  | .plus, .plus | .minus, .minus => subMagValRef P a.sign.neg a.sign a.mag b.mag

end BigInt

/-- `impl ToBigInt for BigUint` -/
def BigUint.toBigint (a : List Nat) : Option BigInt :=
  if BigUint.isZero a then some BigInt.zero else some ⟨.plus, BigUint.clone a⟩

/-! ## Histories: a register machine over in-place public operations

  An operation instance names an implementation (`name`), a target register `dst`, a source
  register `src` (ignored by operations without a second operand) and immediate arguments
  `imm` (u32 words, a sign code, later: shift amounts, bit indices, …).

  To add an operation: define one `UOpImpl` / `IOpImpl` (like `uAddOp`), append it to `uOps` /
  `iOps` below, prove `<op>.Sound` and append that lemma to the tuple in `uOps_sound` /
  `iOps_sound` of NB.Props.C04 (plus one arm in harness/src/c04.rs `hist` and one emitter in
  tools/gens/c04.py).

  `step` is the model of the in-place operation (returns the new value of `*self`, or the panic);
  `spec` is the mathematical effect on the denoted value (`none` = documented failure: the
  operation is not executed, the register keeps its value — the harness restores the target
  from a clone taken before the attempt).
-/

structure UOpImpl where
  name : String
  /-- well-formedness of the extracted parameters this operation relies on -/
  valid : Params → Bool
  /-- typing of the immediates (e.g. all words `< 2^32`) -/
  immOk : List Nat → Bool
  step : Params → List Nat → List Nat → List Nat → Except Panic (List Nat)
  spec : Nat → Nat → List Nat → Option Nat

structure IOpImpl where
  name : String
  valid : Params → Bool
  immOk : List Nat → Bool
  step : Params → BigInt → BigInt → List Nat → Except Panic BigInt
  spec : Int → Int → List Nat → Option Int

def wordsOkB (ws : List Nat) : Bool := decide (WordsOk ws)

/-- sign code used in immediates and on the wire: the discriminant -/
def Sign.ofCode : Nat → Option Sign
  | 0 => some .minus | 1 => some .nosign | 2 => some .plus | _ => none

def Sign.toInt : Sign → Int
  | .minus => -1 | .nosign => 0 | .plus => 1

/-- the sign of an integer (spec side) -/
def Sign.ofInt (v : Int) : Sign := if v < 0 then .minus else if v = 0 then .nosign else .plus

/-- `imm = signcode :: words` for `BigInt::assign_from_slice` -/
def iAsgOk : List Nat → Bool
  | c :: ws => (Sign.ofCode c).isSome && wordsOkB ws
  | [] => false

def iAsgStep (x : BigInt) : List Nat → BigInt
  | c :: ws => match Sign.ofCode c with
    | some s => BigInt.assignFromSlice x s ws
    | none => x
  | [] => x

def iAsgSpec : List Nat → Option Int
  | c :: ws => match Sign.ofCode c with
    | some s => some (Sign.toInt s * (val32 ws : Int))
    | none => none
  | [] => none

/-! in-place operations on a BigUint register -/

/-- `a += &b` -/
def uAddOp : UOpImpl :=
  { name := "add", valid := fun _ => true, immOk := fun _ => true,
    step := fun P a b _ => .ok (addAssign P a b), spec := fun x y _ => some (x + y) }
/-- `a -= &b` (panics when a < b) -/
def uSubOp : UOpImpl :=
  { name := "sub", valid := fun _ => true, immOk := fun _ => true,
    step := fun P a b _ => subAssign P a b, spec := fun x y _ => if x < y then none else some (x - y) }
def uZeroOp : UOpImpl :=
  { name := "zero", valid := fun _ => true, immOk := fun _ => true,
    step := fun _ a _ _ => .ok (BigUint.setZero a), spec := fun _ _ _ => some 0 }
def uOneOp : UOpImpl :=
  { name := "one", valid := fun _ => true, immOk := fun _ => true,
    step := fun _ a _ _ => .ok (BigUint.setOne a), spec := fun _ _ _ => some 1 }
def uCloneOp : UOpImpl :=
  { name := "clone", valid := fun _ => true, immOk := fun _ => true,
    step := fun _ a b _ => .ok (BigUint.cloneFrom a b), spec := fun _ y _ => some y }
/-- `a.assign_from_slice(imm)` -/
def uAsgOp : UOpImpl :=
  { name := "asg", valid := fun _ => true, immOk := wordsOkB,
    step := fun _ a _ imm => .ok (BigUint.assignFromSlice a imm), spec := fun _ _ imm => some (val32 imm) }


/-! ### value-level bit operations for the spec machine (import-free, executable)

  Verbatim copies of Mathlib's `Nat.ldiff`, `Int.land`, `Int.lor`, `Int.xor`, `Int.ldiff`
  (infinite two's complement); NB.Lemmas.Core proves them equal to Mathlib's by `rfl`. -/

def natLdiff : Nat → Nat → Nat := Nat.bitwise fun a b => a && !b

def intLand : Int → Int → Int
  | .ofNat m, .ofNat n => ((m &&& n : Nat) : Int)
  | .ofNat m, .negSucc n => ((natLdiff m n : Nat) : Int)
  | .negSucc m, .ofNat n => ((natLdiff n m : Nat) : Int)
  | .negSucc m, .negSucc n => Int.negSucc (m ||| n)

def intLor : Int → Int → Int
  | .ofNat m, .ofNat n => ((m ||| n : Nat) : Int)
  | .ofNat m, .negSucc n => Int.negSucc (natLdiff n m)
  | .negSucc m, .ofNat n => Int.negSucc (natLdiff m n)
  | .negSucc m, .negSucc n => Int.negSucc (m &&& n)

def intXor : Int → Int → Int
  | .ofNat m, .ofNat n => ((m ^^^ n : Nat) : Int)
  | .ofNat m, .negSucc n => Int.negSucc (m ^^^ n)
  | .negSucc m, .ofNat n => Int.negSucc (m ^^^ n)
  | .negSucc m, .negSucc n => ((m ^^^ n : Nat) : Int)

def intLdiff : Int → Int → Int
  | .ofNat m, .ofNat n => ((natLdiff m n : Nat) : Int)
  | .ofNat m, .negSucc n => ((m &&& n : Nat) : Int)
  | .negSucc m, .ofNat n => Int.negSucc (m ||| n)
  | .negSucc m, .negSucc n => ((natLdiff n m : Nat) : Int)

/-! ### scalar multiplication forms (64-bit digits) -/

/-- the decidable well-formedness condition of the multiplication parameters, restated here
    because `Params.ValidMul` lives in a Mathlib-importing file; `validMulB_iff` in
    NB.Lemmas.Core proves `validMulB P = true ↔ P.ValidMul` -/
def validMulB (P : Params) : Bool :=
  decide (1 ≤ P.karaSlack ∧ 1 ≤ P.mulSlack ∧ 2 ≤ P.halfDen ∧ P.halfDen ≤ P.tSchool + 1 ∧
    2 ≤ P.karaDen ∧ P.karaDen ≤ P.tSchool + 1 ∧ 1 ≤ P.toomAdd ∧ P.halfMul + 1 ≤ P.toomDen ∧
    (P.halfMul + 1) * (P.toomAdd + 1) ≤ P.tKara + 1)

/-- `impl MulAssign<u128> for BigUint`: `if let Some(d) = BigDigit::from_u128(other) { scalar_mul(self, d) }
    else { let (hi, lo) = from_doublebigdigit(other); *self = mul3(&self.data, &[lo, hi]) }`.
    NOTE: no zero test on `self` before `mul3`. -/
def BigUint.mulAssignU128 (P : Params) (a : List Nat) (s : Nat) : Except Panic (List Nat) :=
  if s < B then .ok (Mul.scalarMul a s)
  else Mul.mul3 P a [s % B, s / B]

/-- `impl MulAssign<u128> for BigInt`: `self.data *= other; if self.data.is_zero() { self.sign = NoSign }` -/
def BigInt.mulAssignU128 (P : Params) (x : BigInt) (s : Nat) : Except Panic BigInt :=
  (BigUint.mulAssignU128 P x.mag s).map fun d => ⟨if BigUint.isZero d then .nosign else x.sign, d⟩

/-- `impl MulAssign<i128> for BigInt`: `match other.checked_uabs() { Positive(u) => *self *= u,
    Negative(u) => { self.sign = -self.sign; self.data *= u } }` -/
def BigInt.mulAssignI128 (P : Params) (x : BigInt) (neg : Bool) (u : Nat) : Except Panic BigInt :=
  if neg then (BigUint.mulAssignU128 P x.mag u).map fun d => ⟨x.sign.neg, d⟩
  else BigInt.mulAssignU128 P x u

/-- `impl ShrAssign<usize> for BigUint` / `for BigInt` are modelled in NB.C07; a register of
    `2^58` or more digits cannot exist (`Vec` allocation beyond `isize::MAX` bytes panics with
    "capacity overflow"), which is what `shr_round_down`'s `u64` bit count relies on: such a
    (physically impossible) operand is a capacity failure in the machine -/
def physOk (len : Nat) : Bool := decide (C07.BITS * len < C07.U64_RANGE)

/-- number of base-2^64 digits of a natural number (spec side of `physOk`) -/
def digitLen (n : Nat) : Nat := (ofNat n).length

/-! immediates -/
def immU64 : List Nat → Bool
  | [k] => decide (k < B)
  | _ => false
def immU32 : List Nat → Bool
  | [k] => decide (k < B32)
  | _ => false
/-- a `u128` as `[lo, hi]` -/
def immU128 : List Nat → Bool
  | [lo, hi] => decide (lo < B) && decide (hi < B)
  | _ => false
/-- an `i128` as `[neg, lo, hi]`: `neg = 1` with `1 ≤ |v| ≤ 2^127`, or `neg = 0` with `v < 2^127` -/
def immI128 : List Nat → Bool
  | [neg, lo, hi] => decide (lo < B) && decide (hi < B) &&
      ((neg == 0 && decide (lo + B * hi < 2 ^ 127)) || (neg == 1 && decide (1 ≤ lo + B * hi) && decide (lo + B * hi ≤ 2 ^ 127)))
  | _ => false
/-- `(bit index : u64, value : bool)` -/
def immBit : List Nat → Bool
  | [k, v] => decide (k < B) && decide (v < 2)
  | _ => false
def imm0 (imm : List Nat) : Nat := imm.getD 0 0
def imm1 (imm : List Nat) : Nat := imm.getD 1 0
def imm2 (imm : List Nat) : Nat := imm.getD 2 0

/-- `a *= &b` -/
def uMulOp : UOpImpl :=
  { name := "mul", valid := validMulB, immOk := fun _ => true,
    step := fun P a b _ => Mul.mulAssign P a b, spec := fun x y _ => some (x * y) }
/-- `a *= imm as u32` (`scalar_mul(self, other as BigDigit)`) -/
def uMul32Op : UOpImpl :=
  { name := "mul32", valid := fun _ => true, immOk := immU32,
    step := fun _ a _ imm => .ok (Mul.scalarMul a (imm0 imm)), spec := fun x _ imm => some (x * imm0 imm) }
/-- `a *= imm as u64` -/
def uMul64Op : UOpImpl :=
  { name := "mul64", valid := fun _ => true, immOk := immU64,
    step := fun _ a _ imm => .ok (Mul.scalarMul a (imm0 imm)), spec := fun x _ imm => some (x * imm0 imm) }
/-- `a *= (lo + 2^64 hi) as u128` -/
def uMul128Op : UOpImpl :=
  { name := "mul128", valid := validMulB, immOk := immU128,
    step := fun P a _ imm => BigUint.mulAssignU128 P a (imm0 imm + B * imm1 imm),
    spec := fun x _ imm => some (x * (imm0 imm + B * imm1 imm)) }
/-- `a /= &b` (`*self = &*self / other`; panics on a zero divisor) -/
def uDivOp : UOpImpl :=
  { name := "div", valid := fun _ => true, immOk := fun _ => true,
    step := fun P a b _ => divRef P a b, spec := fun x y _ => if y = 0 then none else some (x / y) }
/-- `a %= &b` -/
def uRemOp : UOpImpl :=
  { name := "rem", valid := fun _ => true, immOk := fun _ => true,
    step := fun P a b _ => remRef P a b, spec := fun x y _ => if y = 0 then none else some (x % y) }
/-- `a <<= imm as usize` -/
def uShlOp : UOpImpl :=
  { name := "shl", valid := fun _ => true, immOk := immU64,
    step := fun _ a _ imm => C07.biguintShl a (imm0 imm : Nat), spec := fun x _ imm => some (x * 2 ^ imm0 imm) }
/-- `a >>= imm as usize` -/
def uShrOp : UOpImpl :=
  { name := "shr", valid := fun _ => true, immOk := immU64,
    step := fun _ a _ imm => C07.biguintShr a (imm0 imm : Nat), spec := fun x _ imm => some (x / 2 ^ imm0 imm) }
def uAndOp : UOpImpl :=
  { name := "and", valid := fun _ => true, immOk := fun _ => true,
    step := fun _ a b _ => .ok (C07.andAssign a b), spec := fun x y _ => some (x &&& y) }
def uOrOp : UOpImpl :=
  { name := "or", valid := fun _ => true, immOk := fun _ => true,
    step := fun _ a b _ => .ok (C07.orAssign a b), spec := fun x y _ => some (x ||| y) }
def uXorOp : UOpImpl :=
  { name := "xor", valid := fun _ => true, immOk := fun _ => true,
    step := fun _ a b _ => .ok (C07.xorAssign a b), spec := fun x y _ => some (x ^^^ y) }
/-- `a.set_bit(imm[0], imm[1] != 0)` -/
def uSetBitOp : UOpImpl :=
  { name := "setbit", valid := fun _ => true, immOk := immBit,
    step := fun _ a _ imm => .ok (C07.setBitU a (imm0 imm) (imm1 imm == 1)),
    spec := fun x _ imm => some (if imm1 imm == 1 then x ||| 2 ^ imm0 imm else natLdiff x (2 ^ imm0 imm)) }

/-- THE LIST of in-place BigUint operations the history theorem ranges over -/
def uOps : List UOpImpl := [uAddOp, uSubOp, uZeroOp, uOneOp, uCloneOp, uAsgOp,
  uMulOp, uMul32Op, uMul64Op, uMul128Op, uDivOp, uRemOp, uShlOp, uShrOp, uAndOp, uOrOp, uXorOp, uSetBitOp]

/-! in-place operations on a BigInt register -/

def iAddOp : IOpImpl :=
  { name := "add", valid := fun _ => true, immOk := fun _ => true,
    step := fun P a b _ => BigInt.addAssign P a b, spec := fun x y _ => some (x + y) }
def iSubOp : IOpImpl :=
  { name := "sub", valid := fun _ => true, immOk := fun _ => true,
    step := fun P a b _ => BigInt.subAssign P a b, spec := fun x y _ => some (x - y) }
def iZeroOp : IOpImpl :=
  { name := "zero", valid := fun _ => true, immOk := fun _ => true,
    step := fun _ a _ _ => .ok (BigInt.setZero a), spec := fun _ _ _ => some 0 }
def iOneOp : IOpImpl :=
  { name := "one", valid := fun _ => true, immOk := fun _ => true,
    step := fun _ a _ _ => .ok (BigInt.setOne a), spec := fun _ _ _ => some 1 }
def iCloneOp : IOpImpl :=
  { name := "clone", valid := fun _ => true, immOk := fun _ => true,
    step := fun _ a b _ => .ok (BigInt.cloneFrom a b), spec := fun _ y _ => some y }
/-- `a.assign_from_slice(sign, words)` with `imm = signcode :: words` -/
def iAsgOp : IOpImpl :=
  { name := "asg", valid := fun _ => true, immOk := iAsgOk,
    step := fun _ a _ imm => .ok (iAsgStep a imm), spec := fun _ _ imm => iAsgSpec imm }
/-- `a = -a` -/
def iNegOp : IOpImpl :=
  { name := "neg", valid := fun _ => true, immOk := fun _ => true,
    step := fun _ a _ _ => .ok (BigInt.negVal a), spec := fun x _ _ => some (-x) }


/-- `a *= &b` -/
def iMulOp : IOpImpl :=
  { name := "mul", valid := validMulB, immOk := fun _ => true,
    step := fun P a b _ => Mul.bigintMulAssign P a b, spec := fun x y _ => some (x * y) }
/-- `a *= (lo + 2^64 hi) as u128` -/
def iMul128Op : IOpImpl :=
  { name := "mul128", valid := validMulB, immOk := immU128,
    step := fun P a _ imm => BigInt.mulAssignU128 P a (imm0 imm + B * imm1 imm),
    spec := fun x _ imm => some (x * ((imm0 imm + B * imm1 imm : Nat) : Int)) }
/-- `a *= (±(lo + 2^64 hi)) as i128`, `imm = [neg, lo, hi]` -/
def iMulI128Op : IOpImpl :=
  { name := "muli128", valid := validMulB, immOk := immI128,
    step := fun P a _ imm => BigInt.mulAssignI128 P a (imm0 imm == 1) (imm1 imm + B * imm2 imm),
    spec := fun x _ imm => some (x * (if imm0 imm == 1 then -((imm1 imm + B * imm2 imm : Nat) : Int)
                                       else ((imm1 imm + B * imm2 imm : Nat) : Int))) }
/-- `a /= &b` (`*self = &*self / other`: truncated division; panics on a zero divisor) -/
def iDivOp : IOpImpl :=
  { name := "div", valid := fun _ => true, immOk := fun _ => true,
    step := fun P a b _ => NB.BigInt.div P a b, spec := fun x y _ => if y = 0 then none else some (Int.tdiv x y) }
/-- `a %= &b` (remainder of truncated division) -/
def iRemOp : IOpImpl :=
  { name := "rem", valid := fun _ => true, immOk := fun _ => true,
    step := fun P a b _ => NB.BigInt.rem P a b, spec := fun x y _ => if y = 0 then none else some (Int.tmod x y) }
/-- `a <<= imm as usize` -/
def iShlOp : IOpImpl :=
  { name := "shl", valid := fun _ => true, immOk := immU64,
    step := fun _ a _ imm => C07.BigInt.shlAssign a (imm0 imm : Nat), spec := fun x _ imm => some (x * 2 ^ imm0 imm) }
/-- `a >>= imm as usize` (floor); see `physOk` -/
def iShrOp : IOpImpl :=
  { name := "shr", valid := fun _ => true, immOk := immU64,
    step := fun P a _ imm => if physOk a.mag.length then C07.BigInt.shrAssign P a (imm0 imm : Nat) else .error .capacity,
    spec := fun x _ imm => if physOk (digitLen x.natAbs) then some (x / 2 ^ imm0 imm) else none }
def iAndOp : IOpImpl :=
  { name := "and", valid := fun _ => true, immOk := fun _ => true,
    step := fun _ a b _ => C07.BigInt.andAssign a b, spec := fun x y _ => some (intLand x y) }
def iOrOp : IOpImpl :=
  { name := "or", valid := fun _ => true, immOk := fun _ => true,
    step := fun _ a b _ => C07.BigInt.orAssign a b, spec := fun x y _ => some (intLor x y) }
def iXorOp : IOpImpl :=
  { name := "xor", valid := fun _ => true, immOk := fun _ => true,
    step := fun _ a b _ => C07.BigInt.xorAssign a b, spec := fun x y _ => some (intXor x y) }
/-- `a.set_bit(imm[0], imm[1] != 0)` on the infinite two's complement expansion -/
def iSetBitOp : IOpImpl :=
  { name := "setbit", valid := fun _ => true, immOk := immBit,
    step := fun _ a _ imm => C07.BigInt.setBit a (imm0 imm) (imm1 imm == 1),
    spec := fun x _ imm => some (if imm1 imm == 1 then intLor x ((2 ^ imm0 imm : Nat) : Int)
                                 else intLdiff x ((2 ^ imm0 imm : Nat) : Int)) }

/-- THE LIST of in-place BigInt operations the history theorem ranges over -/
def iOps : List IOpImpl := [iAddOp, iSubOp, iZeroOp, iOneOp, iCloneOp, iAsgOp, iNegOp,
  iMulOp, iMul128Op, iMulI128Op, iDivOp, iRemOp, iShlOp, iShrOp, iAndOp, iOrOp, iXorOp, iSetBitOp]

/-- an operation is sound: on canonical operands and well-typed immediates it either fails exactly
    when the spec says so, or returns the canonical representation of the spec's value -/
def UOpImpl.Sound (o : UOpImpl) : Prop :=
  ∀ P, o.valid P = true → ∀ a b imm, NB.Canon a → NB.Canon b → o.immOk imm = true →
    (o.step P a b imm).toOption = (o.spec (val a) (val b) imm).map ofNat

def IOpImpl.Sound (o : IOpImpl) : Prop :=
  ∀ P, o.valid P = true → ∀ a b imm, BigInt.Canon a → BigInt.Canon b → o.immOk imm = true →
    (o.step P a b imm).toOption = (o.spec a.val b.val imm).map BigInt.ofInt

def findU (name : String) : Option UOpImpl := uOps.find? (fun o => o.name == name)
def findI (name : String) : Option IOpImpl := iOps.find? (fun o => o.name == name)

/-- every operation's parameter well-formedness condition holds for `P` -/
def OpsValid (P : Params) : Prop :=
  (∀ o ∈ uOps, o.valid P = true) ∧ (∀ o ∈ iOps, o.valid P = true)
instance (P : Params) : Decidable (OpsValid P) := by unfold OpsValid; infer_instance

inductive Op where
  /-- `u[dst] op= (&u[src], imm)` -/
  | u (name : String) (dst src : Nat) (imm : List Nat)
  /-- `i[dst] op= (&i[src], imm)` -/
  | i (name : String) (dst src : Nat) (imm : List Nat)
  deriving Repr

/-- machine state: BigUint registers and BigInt registers -/
structure Regs where
  u : List (List Nat)
  i : List BigInt
  deriving DecidableEq, Repr

/-- spec machine state: the denoted values -/
structure SRegs where
  u : List Nat
  i : List Int
  deriving DecidableEq, Repr

/-- an operation instance is well-formed in a machine with `nu`/`ni` registers -/
def Op.wf (nu ni : Nat) : Op → Bool
  | .u name dst src imm => match findU name with
    | some o => decide (dst < nu) && decide (src < nu) && o.immOk imm
    | none => false
  | .i name dst src imm => match findI name with
    | some o => decide (dst < ni) && decide (src < ni) && o.immOk imm
    | none => false

/-- one step of the model machine.  Ill-formed instances (unknown name, register out of range,
    ill-typed immediates) and operations that fail are not executed. -/
def Regs.step (P : Params) (r : Regs) : Op → Regs
  | .u name dst src imm =>
    match findU name, r.u[dst]?, r.u[src]? with
    | some o, some a, some b =>
      if o.immOk imm then
        match o.step P a b imm with
        | .ok v => { r with u := r.u.set dst v }
        | .error _ => r
      else r
    | _, _, _ => r
  | .i name dst src imm =>
    match findI name, r.i[dst]?, r.i[src]? with
    | some o, some a, some b =>
      if o.immOk imm then
        match o.step P a b imm with
        | .ok v => { r with i := r.i.set dst v }
        | .error _ => r
      else r
    | _, _, _ => r

def Regs.run (P : Params) (ops : List Op) (r : Regs) : Regs := ops.foldl (Regs.step P) r

/-- one step of the spec machine over `Nat` / `Int` -/
def SRegs.step (s : SRegs) : Op → SRegs
  | .u name dst src imm =>
    match findU name, s.u[dst]?, s.u[src]? with
    | some o, some x, some y =>
      if o.immOk imm then
        match o.spec x y imm with
        | some v => { s with u := s.u.set dst v }
        | none => s
      else s
    | _, _, _ => s
  | .i name dst src imm =>
    match findI name, s.i[dst]?, s.i[src]? with
    | some o, some x, some y =>
      if o.immOk imm then
        match o.spec x y imm with
        | some v => { s with i := s.i.set dst v }
        | none => s
      else s
    | _, _, _ => s

def SRegs.run (ops : List Op) (s : SRegs) : SRegs := ops.foldl SRegs.step s

/-- the values denoted by a machine state -/
def Regs.vals (r : Regs) : SRegs := ⟨r.u.map val, r.i.map BigInt.val⟩

/-- the canonical machine state denoting given values -/
def SRegs.repr (s : SRegs) : Regs := ⟨s.u.map ofNat, s.i.map BigInt.ofInt⟩

/-- every register is canonical -/
def Regs.Canon (r : Regs) : Prop := (∀ a ∈ r.u, NB.Canon a) ∧ (∀ x ∈ r.i, x.Canon)

/-! ## API-coverage additions (C04): `PartialOrd`, and the generator impls of src/biguint/arbitrary.rs,
    src/bigint/arbitrary.rs -/

/-- `PartialOrd for BigUint`: `partial_cmp = Some(self.cmp(other))` -/
def BigUint.partialCmp (a b : List Nat) : Option Ordering := some (BigUint.cmp a b)

/-- `PartialOrd for BigInt`: `partial_cmp = Some(self.cmp(other))` -/
def BigInt.partialCmp (a b : BigInt) : Option Ordering := some (BigInt.cmp a b)

/-- core's provided `PartialOrd::{lt, le, gt, ge}` (`matches!(self.partial_cmp(other), Some(Less))` …) -/
def pLt : Option Ordering → Bool | some .lt => true | _ => false
def pLe : Option Ordering → Bool | some .lt => true | some .eq => true | _ => false
def pGt : Option Ordering → Bool | some .gt => true | _ => false
def pGe : Option Ordering → Bool | some .gt => true | some .eq => true | _ => false

/-- number of bytes of one `u64` element (`mem::size_of::<u64>()`; a property of the digit type) -/
def u64Bytes : Nat := 8

/-- `u64::from_le_bytes` of a buffer that `Unstructured::fill_buffer` filled from the (possibly shorter) rest of
    the data and padded with zeros: the little-endian value of the bytes that were there -/
def leBytes : List Nat → Nat
  | [] => 0
  | b :: bs => b + 256 * leBytes bs

/-- `Vec::<u64>::arbitrary(u)` = `u.arbitrary_iter()?.collect()` and `arbitrary_take_rest` =
    `u.arbitrary_take_rest_iter()?.collect()` of the `arbitrary` crate (1.4): both iterators read one
    continuation byte (`u8 & 1 == 1`; an exhausted input reads as 0, i.e. stop), then one zero-padded
    little-endian `u64`.  Returns the elements and the unread rest.  `fuel` bounds the number of elements
    (each consumes at least the continuation byte; callers pass `bytes.length + 1`). -/
def arbVecU64 : Nat → List Nat → List Nat × List Nat
  | 0, bs => ([], bs)
  | _ + 1, [] => ([], [])
  | fuel + 1, b :: rest =>
    if b % 2 = 1 then
      let r := arbVecU64 fuel (rest.drop u64Bytes)
      (leBytes (rest.take u64Bytes) :: r.1, r.2)
    else ([], rest)

/-- `arbitrary::Arbitrary for BigUint` (`arbitrary` and `arbitrary_take_rest` have the same body shape):
    `biguint_from_vec(Vec::<BigDigit>::arbitrary(u)?)` -/
def BigUint.arbitrary (bytes : List Nat) : List Nat :=
  BigUint.fromVec (arbVecU64 (bytes.length + 1) bytes).1

/-- `arbitrary::Arbitrary for BigInt`: `bool::arbitrary` (one byte, 0 when exhausted, `& 1 == 1`) chooses
    `Plus` / `Minus`, then `Self::from_biguint(sign, BigUint::arbitrary(u)?)` -/
def BigInt.arbitrary (bytes : List Nat) : BigInt :=
  let positive := decide (bytes.headD 0 % 2 = 1)
  let sign : Sign := if positive then .plus else .minus
  BigInt.fromBiguint sign (BigUint.arbitrary (bytes.drop 1))

end NB.Core
