"""C03 — division request generator.

Structure first: the divisor `b` is built from (digit count, top-digit pattern = normalisation
shift, low-digit pattern); the dividend is `a = q*b + r` from chosen `(q, r)`, or is assembled
from a *window* `[a0, a1, a2, …]` of Knuth's algorithm D chosen so that a specific branch of
`div_rem_core` runs:

  * `addback`  : top3(window) = t*top2(b) (+ small e), window low digits zero/small, b low digits
                 non-zero, so the refined trial digit is t but the true digit is t-1;
  * `a0_eq_b0` : the previous partial remainder has the same top digit as b;
  * `corr`     : b0 = 2^63, b1 = MAX, a0 close to b0 (2-by-1 estimate too large by 1);
  * `corr2`    : [a0,a1] = t*b0 + e with t near MAX, e tiny, b1 near MAX: the 2-by-1 estimate is too
                 large by 2, both iterations of the 3-by-2 loop run;
  * `maxq`     : every quotient digit MAX;  `zeroq`: quotient digits 0.

Normalised (core-level) operands go to `raw.div_rem_core` verbatim and, shifted right by every
s in 0..63, to the public API (all operators, all four sign combinations).  Zero divisors for
every op.  `raw.submul` gets equal-length slices with c in {0,1,MAX,random} and borrow chains.
"""
from genlib import *

U_OPS = ["u.div", "u.rem", "u.div_rem", "u.div_assign", "u.rem_assign", "u.div_floor", "u.mod_floor",
         "u.div_mod_floor", "u.div_ceil", "u.div_euclid", "u.rem_euclid", "u.div_rem_euclid",
         "u.checked_div", "u.checked_div_euclid", "u.checked_rem_euclid", "u.checked_div_rem_euclid",
         "u.div_vv", "u.rem_vv"]
I_OPS = ["i.div", "i.rem", "i.div_rem", "i.div_assign", "i.rem_assign", "i.div_floor", "i.mod_floor",
         "i.div_mod_floor", "i.div_ceil", "i.div_euclid", "i.rem_euclid", "i.div_rem_euclid",
         "i.checked_div", "i.checked_div_euclid", "i.checked_rem_euclid", "i.checked_div_rem_euclid"]
SIGNS = [(1, 1), (1, -1), (-1, 1), (-1, -1)]


class Emitter:
    """round-robin over ops and sign pairs so that every (op, sign pair) is exercised evenly"""

    def __init__(self, rng):
        self.rng = rng
        self.reqs = []
        self.ui = 0
        self.ii = 0

    def api(self, a, b, nu=1, ni=1):
        for _ in range(nu):
            op = U_OPS[self.ui % len(U_OPS)]
            self.ui += 1
            self.reqs.append("C03 %s %s %s" % (op, wu(a), wu(b)))
        for _ in range(ni):
            op = I_OPS[self.ii % len(I_OPS)]
            sa, sb = SIGNS[(self.ii // len(I_OPS) + self.ii) % 4]
            self.ii += 1
            self.reqs.append("C03 %s %s %s" % (op, wi(sa * a), wi(sb * b)))

    def api_all(self, a, b):
        """every op, every sign pair"""
        for op in U_OPS:
            self.reqs.append("C03 %s %s %s" % (op, wu(a), wu(b)))
        for op in I_OPS:
            for sa, sb in SIGNS:
                self.reqs.append("C03 %s %s %s" % (op, wi(sa * a), wi(sb * b)))

    def core(self, an, bn):
        la, lb = limbs_of(an), limbs_of(bn)
        assert len(lb) >= 2 and lb[-1] >> 63 == 1
        if len(la) < len(lb):
            la = la + [0] * (len(lb) - len(la))
        self.reqs.append("C03 raw.div_rem_core %s %s" % (wl(la), wl(lb)))


def top_digits(rng):
    """top digit patterns: 1, every 2^k (every normalisation shift), 2^63, MAX, random"""
    return [1, MAX, 1 << 63, (1 << 63) + 1, MAX - 1, rng.randrange(1, B)] + [1 << k for k in range(64)] + \
           [(1 << k) | rng.randrange(1 << k) for k in range(0, 64, 7)]


def low_digits(rng, n, pat):
    if n <= 0:
        return []
    if pat == "rand":
        return [rng.randrange(B) for _ in range(n)]
    if pat == "max":
        return [MAX] * n
    if pat == "zero":
        return [0] * n
    if pat == "one":
        return [1] + [0] * (n - 1)
    return digits(rng, n)


def q_value(rng, nq):
    """quotient with digits from {0, 1, MAX, random}; top digit non-zero when nq > 0"""
    if nq == 0:
        return 0
    ds = [rng.choice([0, 1, MAX, rng.randrange(B)]) for _ in range(nq)]
    if ds[-1] == 0:
        ds[-1] = rng.choice([1, MAX, rng.randrange(1, B)])
    return val(ds)


def r_value(rng, b):
    k = rng.randrange(6)
    if k == 0:
        return 0
    if k == 1:
        return b - 1
    if k == 2:
        return 1 if b > 1 else 0
    if k == 3:
        return b // 2
    return rng.randrange(b)


def norm_b(rng, n, kind):
    """normalised divisor (top bit set) with n >= 2 digits, as a digit list"""
    if kind == "maxlow":
        return [MAX] * (n - 2) + [rng.randrange(B), (1 << 63) | rng.randrange(1 << 63)]
    if kind == "corr":
        return low_digits(rng, n - 2, rng.choice(["rand", "max", "zero"])) + [MAX, 1 << 63]
    if kind == "corr2":
        # large b1, any normalised b0 below it: both corrections of the 3-by-2 loop are possible
        b1 = MAX - rng.choice([0, 1, rng.randrange(1 << 60)])
        b0 = (1 << 63) | rng.choice([0, 1, rng.randrange(1 << 62), rng.randrange(1 << 63) & ~(1 << 62)])
        return low_digits(rng, n - 2, rng.choice(["rand", "max", "zero"])) + [b1, b0]
    if kind == "b1zero":
        return low_digits(rng, n - 2, rng.choice(["rand", "max"])) + [0, (1 << 63) | rng.randrange(1 << 63)]
    if kind == "min":
        return [0] * (n - 1) + [1 << 63]
    if kind == "allmax":
        return [MAX] * n
    return low_digits(rng, n - 1, "mixed") + [(1 << 63) | rng.randrange(1 << 63)]


def window_cases(rng, bl):
    """windows W (n+1 digits, W < b*B) for a normalised divisor bl; returns list of (tag, W)"""
    n = len(bl)
    b = val(bl)
    b0, b1 = bl[-1], bl[-2]
    top2 = b0 * B + b1
    P = B ** (n - 2)
    out = []
    # add-back: top3 = t*top2 + e, low digits zero or tiny
    for t in (1, 2, MAX, MAX - 1, rng.randrange(1, B), 1 << 63):
        W = t * top2 * P
        if W < b * B:
            out.append(("addback", W))
        W2 = (t * top2 + rng.randrange(0, 3)) * P + (rng.randrange(P) >> 70 if n > 3 else 0)
        if W2 < b * B:
            out.append(("addback", W2))
    # a0 == b0: partial remainder with the divisor's top digit
    for d in (0, MAX, rng.randrange(B)):
        rprev = b - 1 - rng.choice([0, 0, 1, rng.randrange(1 << 64)])
        if rprev >= 0 and rprev // B ** (n - 1) == b0:
            out.append(("a0_eq_b0", rprev * B + d))
        if b1 > 0:
            r1 = rng.choice([0, b1 - 1, rng.randrange(b1)])
            rprev = val([rng.choice([0, MAX, rng.randrange(B)]) for _ in range(n - 2)] + [r1, b0])
            if rprev < b:
                out.append(("a0_eq_b0", rprev * B + d))
    # 2-by-1 estimate too large: a0 just below b0, a1 = MAX, a2 small / large
    for a2 in (0, 1, MAX, rng.randrange(B)):
        a0 = b0 - rng.choice([1, 1, 2, rng.randrange(1, 1 << 20)])
        W = ((a0 * B + rng.choice([MAX, MAX - 1, rng.randrange(B)])) * B + a2) * P + (rng.randrange(P) if n > 2 else 0)
        if 0 <= W < b * B:
            out.append(("corr", W))
    # 2-by-1 estimate too large by TWO: [a0,a1] = t*b0 + e with e small (tiny partial remainder r) and t
    # large; with a large b1 both 3-by-2 checks fire (r = e, then r = e + b0 <= MAX, then r > MAX)
    for t in (MAX, MAX - 1, MAX - rng.randrange(1 << 32), (1 << 63) + rng.randrange(1 << 63)):
        for e in (0, 1, rng.randrange(1 << 16)):
            hi2 = t * b0 + e
            for a2 in (0, MAX, rng.randrange(B)):
                W = (hi2 * B + a2) * P + (rng.randrange(P) if n > 2 and rng.randrange(2) else 0)
                if hi2 // B < b0 and W < b * B:
                    out.append(("corr2", W))
    # maximal and zero quotient digit
    out.append(("maxq", b * B - 1 - rng.randrange(3)))
    out.append(("maxq", b * MAX + rng.randrange(b)))
    out.append(("zeroq", rng.randrange(b)))
    out.append(("oneq", b + rng.randrange(b)))
    return out


def core_pairs(rng, n, kinds):
    """(tag, a_normalised, b_normalised) triples for an n-digit normalised divisor"""
    res = []
    for kind in kinds:
        bl = norm_b(rng, n, kind)
        b = val(bl)
        wc = window_cases(rng, bl)
        if n > 40:
            wc = rng.sample(wc, min(len(wc), 10))       # large sizes: a sample of the windows per kind
        for tag, W in wc:
            k = rng.choice([0, 0, 1, 2, rng.randrange(0, 6)])
            low = rng.choice([0, rng.randrange(B ** k) if k else 0, B ** k - 1])
            res.append((tag, W * B ** k + low, b))
            # chain: another constructed window right after this one
            if rng.randrange(3) == 0:
                tag2, W2 = rng.choice(window_cases(rng, bl))
                # high part: quotient digits then W2's partial remainder
                hi = q_value(rng, rng.randrange(0, 3)) * b * B ** (n + 1) + W
                res.append((tag + "+" + tag2, hi * B ** (n + 1) + (W2 % B ** (n + 1)), b))
    return res


def gen(rng, tier):
    E = Emitter(rng)
    thorough = tier == "thorough"
    rounds = 6 if thorough else 1
    maxn = 300 if thorough else 40

    # ---- zero divisor: every op, dividends 0 / 1 / big, all sign pairs collapse to b = 0
    for a in (0, 1, 5, B, big(rng, 3), big(rng, 7)):
        for op in U_OPS:
            E.reqs.append("C03 %s %s ." % (op, wu(a)))
        for op in I_OPS:
            for s in (1, -1):
                E.reqs.append("C03 %s %s 0." % (op, wi(s * a)))

    # ---- tiny values, all ops, all signs (the sign conventions proper)
    smalls = [0, 1, 2, 3, 5, 7, 8, 12, 13]
    for a in smalls:
        for b in (1, 2, 3, 5, 8):
            E.api_all(a, b)

    # ---- primitive-type boundaries (operands that just fit / just miss i32, i64, i128, u64, u128): any
    #      native fast path must agree with the big path there, incl. MIN / -1 whose quotient does not fit
    edges = []
    for k in (31, 32, 63, 64, 127, 128):
        edges += [(1 << k) - 1, 1 << k, (1 << k) + 1]
    for a in edges:
        for b in (1, 2, 3, 7, (1 << 31), (1 << 63), (1 << 64) - 1, (1 << 127), (1 << 127) - 1, a, a - 1, a + 1):
            E.api_all(a, b)

    for _ in range(rounds):
        # ---- single-digit divisors and the to_u32 / to_i32 fast paths of Rem
        one_digit = [1, 2, 3, 10, (1 << 31) - 1, 1 << 31, (1 << 31) + 1, (1 << 32) - 1, 1 << 32, (1 << 32) + 1,
                     1 << 63, MAX, MAX - 1, rng.randrange(1, 1 << 32), rng.randrange(1, B)]
        for b in one_digit:
            for la in (0, 1, 2, 3, 6, rng.randrange(1, maxn)):
                a = big(rng, la)
                E.api(a, b, 2, 3)
                E.api(q_value(rng, la) * b + r_value(rng, b), b, 1, 2)
            E.api(b, b); E.api(b - 1, b); E.api(b + 1, b)
        # two-digit divisors just above a digit (to_u32 fails, length-2 path)
        for b in (B, B + 1, B * 2 - 1, (1 << 64) * (1 << 31), B * B - 1):
            E.api(big(rng, rng.randrange(2, 6)), b, 2, 3)

        # ---- a = q*b + r over divisor sizes x top digit (every shift) x low pattern
        sizes = list(range(1, 9)) + [12, 16, 23, 32, 33, 40]
        if thorough:
            sizes += [64, 65, 100, 150, 200, 256, 300]
        sizes = [n for n in sizes if n <= maxn]
        for n in sizes:
            tops = top_digits(rng)
            if n > 8:
                tops = rng.sample(tops, 10)
            for top in tops:
                pat = rng.choice(["rand", "max", "zero", "one", "mixed"])
                b = val(low_digits(rng, n - 1, pat) + [top])
                nq = rng.choice([0, 1, 1, 2, 3, rng.randrange(0, 8 if n > 8 else 20)])
                q = q_value(rng, nq)
                r = r_value(rng, b)
                E.api(q * b + r, b)
            # a < b, a = b, equal lengths, a = b ± 1
            b = big(rng, n)
            for a in (b, b - 1, b + 1, rng.randrange(b), b + rng.randrange(b), val([MAX] * n), B ** (n - 1)):
                E.api(a, b, 1, 1)

        # ---- constructed Knuth-D windows: core level and through the API at every shift
        csizes = [2, 3, 4, 5, 8, 17, 33]
        if thorough:
            csizes += [40, 64, 128, 200]
        kinds = ["maxlow", "corr", "corr2", "b1zero", "min", "allmax", "rand"]
        shift_cycle = 0
        for n in csizes:
            for tag, an, bn in core_pairs(rng, n, kinds):
                E.core(an, bn)
                s = shift_cycle % 64
                shift_cycle += 1
                a, b = an >> s, bn >> s
                if b > 0:
                    E.api(a, b, 1, 1)
        # ---- random operands (minority)
        for _ in range(60):
            la = rng.randrange(1, 20); lb = rng.randrange(1, la + 1)
            E.api(big(rng, la, "rand"), big(rng, lb, "rand"))
            bn = norm_b(rng, max(2, lb), "rand")
            E.core(big(rng, max(la, len(bn)), "rand"), val(bn))

        # ---- sub_mul_digit_same_len on raw slices
        for n in [0, 1, 2, 3, 5, 9, 17, 40] + ([150] if thorough else []):
            for c in (0, 1, MAX, MAX - 1, 1 << 63, rng.randrange(B)):
                for pa, pb in (("rand", "rand"), ("ones", "ones"), ("zeros_top1", "ones"), ("ones", "zeros_top1"),
                               ("mixed", "mixed"), ("lowzero", "half")):
                    a = digits(rng, n, pa); b = digits(rng, n, pb)
                    E.reqs.append("C03 raw.submul %s %s %x" % (wl(a), wl(b), c))
                E.reqs.append("C03 raw.submul %s %s %x" % (wl([0] * n), wl([MAX] * n), c))
    # api-coverage block: inherent `BigInt::checked_div` (op `i.checked_div_m`): zero divisor (None), every sign
    # pair, single-digit / multi-digit divisors, a < b, a = b, a = q*b + r with r = 0 / b-1, one Knuth-D window
    cd = []
    for a in (0, 1, 7, B, big(rng, 3), big(rng, 9)):
        cd.append((a, 0))
    for n in (1, 2, 3, 5, 9) + ((33, 64) if thorough else ()):
        b = big(rng, n)
        q = q_value(rng, rng.choice([1, 2, 3]))
        cd += [(q * b, b), (q * b + b - 1, b), (q * b + r_value(rng, b), b), (b, b), (b - 1, b), (b + 1, b), (rng.randrange(b), b)]
    for tag, an, bn in core_pairs(rng, 3, ["corr", "corr2", "maxlow"])[:12]:
        cd.append((an, bn))
    for (a, b) in cd:
        for (sa, sb) in ((1, 1), (1, -1), (-1, 1), (-1, -1)):
            E.reqs.append("C03 i.checked_div_m %s %s" % (wi(sa * a), wi(sb * b)))
    E.reqs += scalar_requests(rng, thorough)
    # ---- LARGE operands in quick mode too (64 … 260-digit divisors with quotients as long): a recursive (Burnikel-Ziegler /
    #      Newton) division above a size threshold is a plausible optimisation and its block arithmetic has its own
    #      boundary cases: bit-length differences that are exact multiples of the divisor's (padded) size, all-ones
    #      operands, dividend blocks equal to the divisor's top part (C03-j1)
    big_shapes = [(64, 64), (64, 128), (64, 129), (85, 175), (84, 176), (100, 100), (128, 64), (182, 182)] if not thorough else \
                 [(64, 64), (64, 128), (64, 129), (64, 192), (85, 175), (84, 176), (88, 88), (100, 100), (128, 64), (182, 182), (182, 364), (260, 260), (300, 300)]
    for (nd, nq) in big_shapes:
        dvs = [B ** nd - 3, B ** nd - 1, (1 << (64 * nd - 1)) + rng.randrange(B), big(rng, nd), (1 << (64 * nd - 37)) | rng.randrange(1 << 200)]
        for d in (dvs if thorough else [dvs[0]] + rng.sample(dvs[1:], 2)):
            db = d.bit_length()
            for ub in (db + 64 * nq, db + 64 * nq - 1, db + 64 * nq + 1, db + 64 * nd, db + 2 * 64 * nd):
                us = [(1 << ub) - 1, (d << (ub - db)) | rng.randrange(1 << max(1, ub - db)), (1 << (ub - 1)) + rng.randrange(1 << 64)]
                for u in (us if thorough else [us[0], rng.choice(us[1:])]):
                    E.api(u, d)
    # ---- zero and tiny dividends against multi-digit divisors (2^k, 2^k ± 1, random) through every op: a fast path keyed on
    #      the divisor's shape must still treat a zero dividend as an exact multiple (C03-h1: div_ceil via trailing_zeros)
    for d in [1 << 64, (1 << 64) + 1, 1 << 65, 1 << 128, (1 << 128) - 1, 1 << 200, big(rng, 3), B - 1, 2]:
        for a in (0, 1, d - 1, d, d + 1, 2 * d):
            for op in U_OPS:
                E.reqs.append("C03 %s %s %s" % (op, wu(a), wu(d)))
            for op in I_OPS:
                sa, sd = rng.choice(SIGNS)
                E.reqs.append("C03 %s %s %s" % (op, wi(sa * a), wi(sd * d)))
    return E.reqs


SC_BITS = {"u8": 8, "u16": 16, "u32": 32, "u64": 64, "u128": 128, "usize": 64,
           "i8": 8, "i16": 16, "i32": 32, "i64": 64, "i128": 128, "isize": 64}

def scalar_requests(rng, thorough):
    """api-coverage block: the scalar division forms of C03's anchors (ops `u./i. div_s rem_s s_div s_rem div_assign_s
    rem_assign_s`, `s.rem_assign_u`).  Scalars: 0 (zero divisor / zero dividend), 1, -1, MIN, MAX, values needing one and
    two native digits, powers of two; big operand: 0 (zero divisor for the scalar-dividend forms), one / two / three /
    many digits (the digit-count matches of `Div<BigUint> for u32/u64/u128`), |s|, |s|±1, exact multiples and
    multiples ± 1, 2^(N-1) against MIN for `scalar %= big` (D6), all sign combinations for BigInt."""
    out = []
    k = 0
    for t, bits in SC_BITS.items():
        sg = t.startswith("i")
        mx = (1 << (bits - 1)) - 1 if sg else (1 << bits) - 1
        mn = -(1 << (bits - 1)) if sg else 0
        scal = [0, 1, mx, mx - 1, 2, 3, 1 << (bits // 2), (1 << (bits - 2)) + 1, rng.randrange(1, mx + 1)]
        if bits >= 64:
            scal += [(1 << 32) - 1, 1 << 32, (1 << 63) - 1]
        if bits == 128:
            scal += [MAX, B, B + 1, (1 << 96) + 5, rng.randrange(B, mx + 1)]
        if sg:
            scal += [mn, mn + 1, -1, -2, -rng.randrange(1, mx + 1)]
        if thorough:
            scal += [rng.randrange(mn, mx + 1) for _ in range(12)]
        scal = [s for s in dict.fromkeys(scal) if mn <= s <= mx]
        for s in scal:
            a = abs(s)
            q = rng.randrange(1, 1 << 70)
            bigs = [0, 1, a, a + 1, max(a - 1, 0), rng.randrange(1, B), MAX, B, big(rng, 2), big(rng, 3), big(rng, 40),
                    a * q, a * q + 1, max(a * q - 1, 0), 1 << (bits - 1), (1 << bits) - 1, 1 << bits, (1 << 128) + 7]
            rng.shuffle(bigs)
            if not thorough:
                bigs = bigs[:9] + [0, a]
            for i, m in enumerate(bigs):
                tok = "%s:%d" % (t, s)
                k += 1
                if not sg:
                    op = ["div_s", "rem_s", "s_div", "s_rem", "div_assign_s", "rem_assign_s"][k % 6]
                    if op in ("s_div", "s_rem"):
                        out.append("C03 u.%s %s %s" % (op, tok, wu(m)))
                    else:
                        out.append("C03 u.%s %s %s" % (op, wu(m), tok))
                sm = -m if rng.randrange(2) else m
                op = ["div_s", "rem_s", "s_div", "s_rem", "div_assign_s", "rem_assign_s"][(k + 3 + k // 12) % 6]
                if op in ("s_div", "s_rem"):
                    out.append("C03 i.%s %s %s" % (op, tok, wi(sm)))
                else:
                    out.append("C03 i.%s %s %s" % (op, wi(sm), tok))
                if i % 2 == 0:
                    out.append("C03 s.rem_assign_u %s %s" % (tok, wu(m)))
            # small multiples of |s| and of the type's power-of-two boundaries, for every scalar form (always emitted:
            # a comparison "divisor equals |s|" replaced by a bit-pattern test is wrong on exactly these; C03-s1)
            fam = [c * a for c in (2, 3, 5, 6)] + [c << (bits - 1) for c in (3, 5, 7)] + [(3 << bits), a << 64, (a << 64) + a]
            for j, m in enumerate(fam):
                tok = "%s:%d" % (t, s)
                out.append("C03 s.rem_assign_u %s %s" % (tok, wu(m)))
                op = ["rem_s", "s_rem", "rem_assign_s", "div_s", "s_div", "div_assign_s"][(j + k) % 6]
                sm = -m if (j + k) % 3 == 0 else m
                if op in ("s_div", "s_rem"):
                    out.append("C03 i.%s %s %s" % (op, tok, wi(sm)))
                    if not sg:
                        out.append("C03 u.%s %s %s" % (op, tok, wu(m)))
                else:
                    out.append("C03 i.%s %s %s" % (op, wi(sm), tok))
                    if not sg:
                        out.append("C03 u.%s %s %s" % (op, wu(m), tok))
        # the D6 cell for every signed type: MIN %= 2^(N-1)
        if sg:
            out.append("C03 s.rem_assign_u %s:%d %s" % (t, mn, wu(1 << (bits - 1))))
    # two-digit scalar divisors (u128 / i128) on the windows of Knuth's algorithm D that exercise its rare branches
    # (a0 == b0, both corrections of the 3-by-2 refinement, add-back, maximal / zero quotient digits): a dedicated
    # two-digit routine behind the scalar forms has to get exactly these right (C10-x1: quotient digit MAX without
    # refinement when the remainder's top digit equals the divisor's)
    kinds2 = ["maxlow", "corr", "corr2", "b1zero", "min", "allmax", "rand"]
    k = 0
    for tag, a, b in core_pairs(rng, 2, kinds2):
        for sh in ((0, 1, 37) if thorough else (0, rng.choice([1, 5, 63]))):
            d, aa = b >> sh, a >> sh
            if d < (1 << 64):
                continue
            k += 1
            ops = ["div_s", "rem_s", "div_assign_s", "rem_assign_s"]
            for op in (ops if thorough else [ops[k % 4], ops[(k + 1) % 4]]):
                out.append("C03 u.%s %s u128:%d" % (op, wu(aa), d))
                sa = -aa if k % 3 == 0 else aa
                out.append("C03 i.%s %s u128:%d" % (op, wi(sa), d))
                if d < (1 << 127):
                    out.append("C03 i.%s %s i128:%d" % (op, wi(sa), d if k % 2 else -d))
    return out
