/-
  C02 — Multiplication is exact in every algorithm regime and at every size boundary.

  Every theorem is about the model NB.Model.Mul (written from src/biguint/multiplication.rs and
  src/bigint/multiplication.rs, correspondence-checked against the real crate on every run) and
  holds for ALL parameter records `P` satisfying the decidable predicate `P.ValidMul`
  (NB.Lemmas.Mac3); `gen_params_valid_mul` instantiates it at the parameters regenerated from the
  source on every run, so a harmless retune of a threshold re-proves automatically and an
  invalid one (e.g. Karatsuba reachable with a 1-digit operand) is a broken proof obligation.

  Central theorem: `mac3_spec` — under the precondition that all callers establish
  (`acc.length ≥ b.length + c.length + 1` and `val acc + val b * val c < B^(acc.length-1)`) the
  fuelled model of `mac3` returns `.ok acc'` with `val acc' = val acc + val b * val c`, the
  length preserved, for every fuel `≥ b.length + c.length + 1`.  It covers all four regimes
  (schoolbook, half-Karatsuba, Karatsuba with each sign of the middle term, Toom-3 with the
  Bodrato interpolation and the recomposition) and the zero-stripping prologue, by induction on
  the fuel over the open-recursion body (`mac3Body_spec`).  Because the result is `.ok`, none of
  the explicit failure sites of the model is reachable: no `carry overflow during
  multiplication!`, no dropped `add2` carry, no `sub2` underflow, no out-of-range slice, no
  fuel exhaustion.  Nothing here is `_partial`.

  Then: `mul_spec`, `mulAssign_spec` (BigUint `*`, `*=`, hence `checked_mul`), `bigint_mul_spec`,
  `bigint_mulAssign_spec` (all nine sign pairs): the model returns exactly the canonical
  representation of the mathematical product.
-/
import NB.Lemmas.Toom3
import NB.Model.AsmParams
namespace NB
open NB.Mul

/-- proof obligation over the generated parameters (re-elaborated on every run) -/
theorem gen_params_valid_mul : NB.Gen.P.ValidMul := by decide

/-! ### digit level -/

/-- `mac_digit(acc, b, c)`: `acc += b * c` exactly, length preserved, the final-carry assertion
    does not fire — whenever the row fits strictly below the top of `acc`
    (`b.len() < acc.len()`) and the sum fits in `acc`. -/
theorem mac_digit_spec (P : Params) (acc b : List Nat) (c : Nat) (ha : DigitsOk acc) (hb : DigitsOk b)
    (hc : c < B) (hl : b.length < acc.length) (hv : val acc + val b * c < B ^ acc.length) :
    ∃ r, macDigit P acc b c = .ok r ∧ val r = val acc + val b * c ∧ r.length = acc.length ∧ DigitsOk r :=
  macDigit_spec P acc b c ha hb hc hl hv

/-- the row loop's carry is one digit, so the `carry_hi != 0` arm of `mac_digit` — which passes
    `&[carry_hi, carry_lo]`, i.e. the halves in swapped order — is dead code, and the u128
    accumulator of `mac_with_carry` cannot overflow -/
theorem mac_digit_carry_hi_unreachable (c : Nat) (hc : c < B) (a b : List Nat) (hl : a.length = b.length)
    (ha : DigitsOk a) (hb : DigitsOk b) : (macZip c 0 a b).2 / B = 0 :=
  macDigit_carryHi_zero c hc a b hl ha hb

theorem mac_with_carry_no_overflow {carry a b c : Nat} (hcar : carry < B) (ha : a < B) (hb : b < B)
    (hc : c < B) : carry + a + b * c < B * B :=
  macZip_no_u128_overflow hcar ha hb hc

/-- `sub_sign(a, b)` on arbitrary (not necessarily normalised) slices: sign and canonical
    magnitude of the integer `a - b`; the internal `sub2` never underflows -/
theorem sub_sign_spec (P : Params) (a b : List Nat) (ha : DigitsOk a) (hb : DigitsOk b) :
    subSign P a b = .ok ((BigInt.ofInt ((val a : Int) - (val b : Int))).sign,
                         (BigInt.ofInt ((val a : Int) - (val b : Int))).mag) := by
  obtain ⟨s, m, e, c, h⟩ := subSign_spec P a b ha hb
  rw [e]
  unfold BigInt.ofInt
  rcases h with ⟨rfl, hlt, hv⟩ | ⟨rfl, hlt, hv⟩ | ⟨rfl, heq, rfl⟩
  · have h1 : ¬ ((val a : Int) - (val b : Int) < 0) := by omega
    have h2 : ¬ ((val a : Int) - (val b : Int) = 0) := by omega
    have h3 : ((val a : Int) - (val b : Int)).natAbs = val m := by omega
    simp only [h1, h2, if_false, h3]
    rw [← canon_eq_ofNat c]
  · have h1 : ((val a : Int) - (val b : Int) < 0) := by omega
    have h3 : ((val a : Int) - (val b : Int)).natAbs = val m := by omega
    simp only [h1, if_true, h3]
    rw [← canon_eq_ofNat c]
  · have h1 : ¬ ((val a : Int) - (val b : Int) < 0) := by omega
    have h2 : ((val a : Int) - (val b : Int) = 0) := by omega
    simp [h2]

/-- `scalar_mul(a, d)` (zero, one, power-of-two shift and general paths): canonical product -/
theorem scalar_mul_val (a : List Nat) (d : Nat) (ha : Canon a) (hd : d < B) :
    scalarMul a d = ofNat (val a * d) :=
  scalarMul_spec a d ha hd

/-- `Sign * Sign` -/
theorem sign_mul_spec (s t : Sign) :
    (BigInt.val ⟨s.mul t, [1]⟩) = (BigInt.val ⟨s, [1]⟩) * (BigInt.val ⟨t, [1]⟩) := by
  cases s <;> cases t <;> decide

/-- long multiplication (`x.len() <= tSchool`): the row loop `mac_digit(&mut acc[i..], y, x[i])`
    is exact whenever the rows fit (`x.len() + y.len() <= acc.len()`) and the sum fits in `acc` -/
theorem schoolbook_spec (P : Params) (acc x y : List Nat) (ha : DigitsOk acc) (hx : DigitsOk x)
    (hy : DigitsOk y) (hl : x ≠ [] → x.length + y.length ≤ acc.length)
    (hv : val acc + val y * val x < B ^ acc.length) :
    ∃ r, school P acc y x = .ok r ∧ val r = val acc + val y * val x ∧ r.length = acc.length ∧ DigitsOk r :=
  school_spec P y hy x acc hx ha hl hv

/-- the Bodrato sequence of the Toom-3 branch (`/3` truncated, `>>1` floor) recovers the three
    middle coefficients of the product polynomial from the five point values, for all integers -/
theorem toom3_interpolation (x0 x1 x2 y0 y1 y2 : Int) :
    let r0 := x0 * y0
    let r4 := x2 * y2
    let r1 := (x0 + x2 + x1) * (y0 + y2 + y1)
    let r2 := (x0 + x2 - x1) * (y0 + y2 - y1)
    let r3 := ((x0 + x2 - x1 + x2) * 2 - x0) * ((y0 + y2 - y1 + y2) * 2 - y0)
    let c3a := (r3 - r1).tdiv 3
    let c1a := (r1 - r2) >>> 1
    let c2a := r2 - r0
    let c3 := ((c2a - c3a) >>> 1) + r4 * 2
    let c2 := c2a + (c1a - r4)
    let c1 := c1a - c3
    c1 = x0 * y1 + x1 * y0 ∧ c2 = x0 * y2 + x1 * y1 + x2 * y0 ∧ c3 = x1 * y2 + x2 * y1 :=
  toom_interp x0 x1 x2 y0 y1 y2

/-! ### `mac3` -/

theorem mac3_macSpec (P : Params) (hP : P.ValidMul) : ∀ fuel, MacSpec (mac3 P fuel) fuel
  | 0 => fun _ _ _ h _ => absurd h (Nat.not_lt_zero _)
  | fuel + 1 => fun acc b c h hpre =>
    mac3Body_spec P hP (mac3_macSpec P hP fuel) acc b c hpre (by omega)

/-- **`mac3` is exact in every regime.**  For all valid parameters, all digit slices and every
    fuel `≥ b.length + c.length + 1`: if `acc` has room for the product plus one spare digit and
    the final value stays below the top digit (which is what `mul3`, the temporaries of the
    Karatsuba branch and all nested calls establish), then `mac3` succeeds (no assertion, no slice
    fault, no dropped carry) and `acc' = acc + b * c` with the length unchanged. -/
theorem mac3_spec (P : Params) (hP : P.ValidMul) (fuel : Nat) (acc b c : List Nat)
    (hfuel : b.length + c.length + 1 ≤ fuel)
    (ha : DigitsOk acc) (hb : DigitsOk b) (hc : DigitsOk c)
    (hlen : acc.length ≥ b.length + c.length + 1)
    (hval : val acc + val b * val c < B ^ (acc.length - 1)) :
    ∃ acc', mac3 P fuel acc b c = .ok acc' ∧ val acc' = val acc + val b * val c ∧
      acc'.length = acc.length ∧ DigitsOk acc' :=
  mac3_macSpec P hP fuel acc b c (by omega) ⟨ha, hb, hc, hlen, hval⟩

/-- `mul3(x, y)`: canonical product of two arbitrary slices -/
theorem mul3_spec (P : Params) (hP : P.ValidMul) (x y : List Nat) (hx : DigitsOk x) (hy : DigitsOk y) :
    mul3 P x y = .ok (ofNat (val x * val y)) :=
  mul3With_spec P hP (mac3_macSpec P hP (mulFuel x y)) x y hx hy (by unfold mulFuel; omega)

/-! ### public operations -/

/-- `&a * &b` (`impl_mul!`: zero, single-digit and full paths) returns the canonical
    representation of the exact product and never panics -/
theorem mul_spec (P : Params) (hP : P.ValidMul) (a b : List Nat) (ha : Canon a) (hb : Canon b) :
    mulRef P a b = .ok (ofNat (val a * val b)) :=
  mulMagWith_spec P hP (mac3_macSpec P hP (mulFuel a b)) a b ha hb (by unfold mulFuel; omega)

theorem mulAssign_eq_mulRef (P : Params) (a b : List Nat) : mulAssign P a b = mulRef P a b := by
  rcases a with _ | ⟨a1, _ | ⟨a2, at'⟩⟩ <;> rcases b with _ | ⟨b1, _ | ⟨b2, bt⟩⟩ <;> rfl

/-- `a *= &b` (`impl_mul_assign!`) -/
theorem mulAssign_spec (P : Params) (hP : P.ValidMul) (a b : List Nat) (ha : Canon a) (hb : Canon b) :
    mulAssign P a b = .ok (ofNat (val a * val b)) := by
  rw [mulAssign_eq_mulRef]; exact mul_spec P hP a b ha hb

/-- `checked_mul` is `Some(a * b)`: it is never `None` and never panics -/
theorem checked_mul_spec (P : Params) (hP : P.ValidMul) (a b : List Nat) (ha : Canon a) (hb : Canon b) :
    (mulRef P a b).map some = .ok (some (ofNat (val a * val b))) := by
  rw [mul_spec P hP a b ha hb]; rfl

/-- `&a * &b` for BigInt: all nine sign pairs -/
theorem bigint_mul_spec (P : Params) (hP : P.ValidMul) (a b : BigInt) (ha : a.Canon) (hb : b.Canon) :
    bigintMul P a b = .ok (BigInt.ofInt (a.val * b.val)) := by
  obtain ⟨sa, ma⟩ := a
  obtain ⟨sb, mb⟩ := b
  obtain ⟨hca, hsa⟩ := ha
  obtain ⟨hcb, hsb⟩ := hb
  simp only at hca hsa hcb hsb
  unfold bigintMul
  simp only [mul_spec P hP ma mb hca hcb]
  congr 1
  have hc := ofNat_canon (val ma * val mb)
  cases sa <;> cases sb <;> simp only [Sign.mul, BigInt.val]
  all_goals first
    | (rw [fromBiguint_plus hc, ofNat_val, Nat.cast_mul]; first | done | (congr 1; ring))
    | (rw [fromBiguint_minus hc, ofNat_val, Nat.cast_mul]; first | done | (congr 1; ring))
    | (simp [BigInt.fromBiguint, BigInt.ofInt]; done)

/-- `a *= &b` for BigInt: all nine sign pairs -/
theorem bigint_mulAssign_spec (P : Params) (hP : P.ValidMul) (a b : BigInt) (ha : a.Canon) (hb : b.Canon) :
    bigintMulAssign P a b = .ok (BigInt.ofInt (a.val * b.val)) := by
  rw [← bigint_mul_spec P hP a b ha hb]
  obtain ⟨sa, ma⟩ := a
  obtain ⟨sb, mb⟩ := b
  obtain ⟨hca, hsa⟩ := ha
  obtain ⟨hcb, hsb⟩ := hb
  simp only at hca hsa hcb hsb
  unfold bigintMulAssign bigintMul
  simp only [mulAssign_spec P hP ma mb hca hcb, mul_spec P hP ma mb hca hcb]
  congr 1
  by_cases hm : ofNat (val ma * val mb) = []
  · simp [BigInt.fromBiguint, hm]
  · have hs1 : sa ≠ .nosign := by
      intro h
      have : ma = [] := hsa.mp h
      subst this
      simp [val, mx_ofNat_zero] at hm
    have hs2 : sb ≠ .nosign := by
      intro h
      have : mb = [] := hsb.mp h
      subst this
      simp [val, mx_ofNat_zero] at hm
    have hs : sa.mul sb ≠ .nosign := by
      cases sa <;> cases sb <;> simp_all [Sign.mul]
    simp [BigInt.fromBiguint, hm, hs]

/-! ### non-vacuity -/

example : (NB.Gen.P).ValidMul := gen_params_valid_mul
example : MacPre [5, 7, 0, 0] [B - 1] [B - 1, 3] := by
  unfold MacPre; decide
example : Canon [B - 1, B - 1, B - 1] := by decide
example : mulRef NB.Gen.P [B - 1, B - 1] [B - 1, B - 1, B - 1]
    = .ok (ofNat ((B ^ 2 - 1) * (B ^ 3 - 1))) := by
  rw [mul_spec _ gen_params_valid_mul _ _ (by decide) (by decide)]; rfl

end NB
