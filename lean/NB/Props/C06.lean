/-
  C06 — Text and radix conversions are exact, canonical and mutually inverse.

  All theorems are about the model NB.Model.Radix (written from src/biguint/convert.rs,
  src/biguint.rs, src/bigint/convert.rs, src/bigint.rs; correspondence-checked against the real
  crate on every run).  They are stated against Mathlib's `Nat.digits` / `Nat.ofDigits` (the unique
  positional representation) and, for text, against the grammar of the property statement written
  as the decidable predicates `Spec.wellFormedU/I` with the denotation `Spec.denoteMag/denoteInt`.

  Proved for ALL canonical values, ALL radices (in range or not) and ALL byte strings / digit slices:
    * `radix_base_spec`            every table entry is (r^power, power) with r^power ≤ MAX < r^(power+1)
    * `to_radix_le_spec` (+be, BigInt, `_outcome`)   output = `[0]` or `Nat.digits r value`; every path:
      exact-width and inexact-width bit regrouping, chunked division, the ≥ P.bigBase super-chunk path
      (for every value of the extracted threshold `P.bigBase`; no validity condition is needed)
    * `big_chunk_spec`             a super-chunk emits exactly big_power·power zero-padded digits
    * `from_radix_le_spec` (+be, BigInt, `_outcome`) `Some(canonical Σ dᵢ rⁱ)` iff all digits < r, else `None`;
      the Horner loop is modelled on the digit vector (`horner_step_exact`: the pushed zero digit absorbs
      the product, no carry is ever dropped; `add2Digit_eq_add2`: its `add2` is C01's)
    * `from_to_radix`, `to_from_radix`   round trips
    * `to_str_spec`, `to_str_alphabet`, `bigint_to_str_spec`, `to_str_outcome`
    * `from_str_radix_u_spec`, `from_str_radix_i_spec`, `parse_iff_u`, `parse_iff_i`  (language theorem)
    * `parse_bytes_u_spec`, `parse_bytes_i_spec`, `parse_bytes_bad_radix`   (UTF-8 gate first)
    * `parse_to_str_u`, `parse_to_str_i`
    * `fmt_triple_spec`, `format_spec`   what each `fmt` impl hands to `Formatter::pad_integral`
    * `oracle_digits_eq`, `oracle_radix_eq`, `oracle_str_eq`   the driver's run-time oracle IS this spec
  Nothing is `_partial`.  Modelled, not proved: `pad_integral` itself (std), `from_utf8` (std).

  LAYER LINK (section "digit-level general-radix output" at the end).  NB.Model.Radix writes the BigUint
  operators inside `to_radix_digits_le` (`div_rem_digit`, `digits.div_rem(&big_base)`, `&big_base * &big_base`,
  `digits > big_base`, `data.len()`) at value level.  NB.Model.RadixD is the same function on digit vectors
  with those operators replaced by the digit-level models `NB.divRemDigit`, `NB.divRemRef` (Knuth D),
  `NB.Mul.mulRef` (mac3), `NB.cmpSlice`, `List.length`; the driver's model column runs THAT definition.
    * `to_radix_digits_le_refines`, `to_radix_le_refines`   digit level = value level on canonical operands,
      for every `P` with `P.ValidMul` (C02's hypothesis; obligation `gen_params_valid_mul`)
    * `to_radix_leD_spec/_outcome`, `to_radix_beD_spec`, `bigint_to_radixD_spec`, `big_chunkD_spec`,
      `from_to_radixD`, `to_from_radixD`, `to_strD_spec`, `bigint_to_strD_spec`, `to_strD_outcome`,
      `parse_to_strD_u/i`, `fmt_tripleD_spec`, `formatD_spec`: the theorems above, about the digit-level model
    * `to_radixD_no_internal`: no operator panic / assertion / fuel exhaustion is reachable
    * `gen_to_radix_leD_spec`, `gen_to_strD_spec`, `gen_formatD_spec`: instantiated at the generated parameters (what the driver runs)
-/
import NB.Lemmas.RadixText
import NB.Lemmas.RadixD
import NB.Lemmas.AddSub
import NB.Model.AsmParams
import NB.Drv.C06
namespace NB
open NB.Radix

/-! ### specification vocabulary -/

/-- the digit vector of `n` in radix `r`: `[0]` for zero, otherwise `Nat.digits` (little-endian) -/
def digitsOr0 (r n : Nat) : List Nat := if n = 0 then [0] else Nat.digits r n

/-- lower-case ASCII digit of a digit value `< 36` -/
def digitChar (d : Nat) : Nat := if d < 10 then 48 + d else 87 + d

/-- the text of `n` in radix `r`: most significant digit first, no leading zeros, `"0"` for zero -/
def textOf (r n : Nat) : List Nat := ((digitsOr0 r n).map digitChar).reverse

/-- the integer a sign and a magnitude denote (`BigInt::from_biguint`) -/
def signedVal (s : Sign) (n : Nat) : Int :=
  match s with
  | .plus => (n : Int) | .minus => -(n : Int) | .nosign => 0

/-! ### the radix table -/

/-- for every radix 3..255 that is not a power of two the generated table entry is `(r^power, power)`
    with `r^power ≤ big_digit::MAX < r^(power+1)` -/
theorem radix_base_spec (r : Nat) (h3 : 3 ≤ r) (h : r < 256) (hp : isPow2 r = false) :
    getRadixBase r = .ok (radixBaseEntry (B - 1) r) ∧
    (radixBaseEntry (B - 1) r).1 = r ^ (radixBaseEntry (B - 1) r).2 ∧
    (radixBaseEntry (B - 1) r).1 ≤ B - 1 ∧ B - 1 < (radixBaseEntry (B - 1) r).1 * r := by
  obtain ⟨e1, e2, e3, _⟩ := radix_base_table r h h3 hp
  refine ⟨?_, e1, e2, e3⟩
  unfold getRadixBase; rw [if_pos (by omega)]

/-- powers of two get the zero entry (they never reach `get_radix_base`) -/
theorem radix_base_pow2 (r : Nat) (hp : isPow2 r = true) : radixBaseEntry (B - 1) r = (0, 0) := by
  unfold radixBaseEntry; simp [hp]

/-! ### to_radix_le / to_radix_be -/

theorem canon_nil_iff {u : List Nat} (hc : Canon u) : u = [] ↔ val u = 0 :=
  ⟨fun h => by rw [h]; rfl, canon_val_zero hc⟩

/-- `to_radix_le`: for every canonical value and radix 2..=256 the output is the unique positional
    representation (digits `< r`, no leading zero; `[0]` for zero) — on every code path -/
theorem to_radix_le_spec (P : Params) (u : List Nat) (hc : Canon u) (r : Nat) (h2 : 2 ≤ r) (h256 : r ≤ 256) :
    toRadixLe P u r = .ok (digitsOr0 r (val u)) := by
  unfold toRadixLe digitsOr0 digRadixMax
  rw [if_neg (by omega)]
  by_cases hu : u = []
  · rw [if_pos hu, if_pos ((canon_nil_iff hc).1 hu)]
  · have hv : val u ≠ 0 := fun h => hu ((canon_nil_iff hc).2 h)
    rw [if_neg hu, if_neg hv]
    by_cases hp : isPow2 r = true
    · obtain ⟨hr, hb1, hb8⟩ := pow2_bits h2 h256 hp
      simp only [hp, if_true]
      by_cases hdiv : BITS % ilog2 r = 0
      · simp only [hdiv, if_true]
        rw [toBitwiseDigitsLe_spec hb1 hb8 hdiv u hc hu, ← hr]
      · simp only [hdiv, if_false]
        rw [toInexactBitwiseDigitsLe_spec hb1 hb8 u hc, ← hr]
    · have hp' : isPow2 r = false := by simpa using hp
      simp only [hp', Bool.false_eq_true, if_false]
      exact toRadixDigitsLe_spec P h2 h256 hp' u hv

theorem to_radix_le_bad_radix (P : Params) (u : List Nat) (r : Nat) (h : ¬ (2 ≤ r ∧ r ≤ 256)) :
    toRadixLe P u r = .error .radix := by
  unfold toRadixLe digRadixMax; rw [if_pos h]

theorem to_radix_be_spec (P : Params) (u : List Nat) (hc : Canon u) (r : Nat) (h2 : 2 ≤ r) (h256 : r ≤ 256) :
    toRadixBe P u r = .ok (digitsOr0 r (val u)).reverse := by
  unfold toRadixBe; rw [to_radix_le_spec P u hc r h2 h256]

theorem to_radix_be_bad_radix (P : Params) (u : List Nat) (r : Nat) (h : ¬ (2 ≤ r ∧ r ≤ 256)) :
    toRadixBe P u r = .error .radix := by
  unfold toRadixBe; rw [to_radix_le_bad_radix P u r h]

theorem bigint_to_radix_le_spec (P : Params) (x : BigInt) (hc : x.Canon) (r : Nat) (h2 : 2 ≤ r) (h256 : r ≤ 256) :
    Radix.BigInt.toRadixLe P x r = .ok (x.sign, digitsOr0 r x.val.natAbs) ∧
    Radix.BigInt.toRadixBe P x r = .ok (x.sign, (digitsOr0 r x.val.natAbs).reverse) := by
  have hv : x.val.natAbs = val x.mag := by
    unfold BigInt.val
    rcases hs : x.sign with _ | _ | _ <;> simp only [Int.natAbs_neg, Int.natAbs_natCast, Int.natAbs_zero]
    · have : x.mag = [] := hc.2.1 hs
      rw [this]; rfl
  unfold Radix.BigInt.toRadixLe Radix.BigInt.toRadixBe
  rw [to_radix_le_spec P x.mag hc.1 r h2 h256, to_radix_be_spec P x.mag hc.1 r h2 h256, hv]
  exact ⟨rfl, rfl⟩

/-- every output digit is below the radix and the most significant one is non-zero unless the value is 0 -/
theorem to_radix_le_digits (r n : Nat) (h2 : 2 ≤ r) :
    (∀ d ∈ digitsOr0 r n, d < r) ∧ (n ≠ 0 → (digitsOr0 r n).getLast? ≠ some 0) ∧ Nat.ofDigits r (digitsOr0 r n) = n := by
  unfold digitsOr0
  by_cases h0 : n = 0
  · subst h0; simp; omega
  · simp only [h0, if_false]
    refine ⟨fun d hd => Nat.digits_lt_base (by omega) hd, fun _ => ?_, Nat.ofDigits_digits r n⟩
    have hne : Nat.digits r n ≠ [] := Nat.digits_ne_nil_iff_ne_zero.mpr h0
    rw [List.getLast?_eq_some_getLast hne]
    intro h; injection h with h
    exact Nat.getLast_digit_ne_zero r h0 h

/-- the big-base path: a super-chunk (`big_r < base^big_power`) is emitted as exactly
    `big_power * power` digits, namely its positional digits padded with zeros -/
theorem big_chunk_spec (r power bigPower bigR : Nat) (h2 : 2 ≤ r) (h256 : r ≤ 256)
    (hlt : bigR < (r ^ power) ^ bigPower) :
    emitChunks r power (r ^ power) bigPower bigR
      = Nat.digits r bigR ++ List.replicate (bigPower * power - (Nat.digits r bigR).length) 0 ∧
    (emitChunks r power (r ^ power) bigPower bigR).length = bigPower * power := by
  rw [emitChunks_eq]
  refine ⟨emitN_digits h2 h256 _ _ (by rw [← pow_mul, Nat.mul_comm] at hlt; exact hlt), emitN_length _ _ _⟩

/-! ### from_radix_le / from_radix_be -/

theorem any_ge_iff (ds : List Nat) (r : Nat) : (ds.any (fun b => decide (r ≤ b)) = true) ↔ ¬ ∀ d ∈ ds, d < r := by
  simp only [List.any_eq_true, decide_eq_true_eq, not_forall, Nat.not_lt]
  constructor
  · rintro ⟨x, hx, h⟩; exact ⟨x, hx, h⟩
  · rintro ⟨x, hx, h⟩; exact ⟨x, hx, h⟩

/-- `from_radix_le`: `Some` of the canonical value `Σ dᵢ·rⁱ` iff every digit is below the radix -/
theorem from_radix_le_spec (ds : List Nat) (hb : ∀ d ∈ ds, d < 256) (r : Nat) (h2 : 2 ≤ r) (h256 : r ≤ 256) :
    fromRadixLe ds r = .ok (if ∀ d ∈ ds, d < r then some (ofNat (Nat.ofDigits r ds)) else none) := by
  unfold fromRadixLe digRadixMax
  rw [if_neg (by omega)]
  by_cases hnil : ds = []
  · subst hnil; simp [ofNat]
  · rw [if_neg hnil]
    by_cases h256' : r = 256
    · subst h256'
      have hall : ∀ d ∈ ds, d < 256 := hb
      simp only [ne_eq, not_true_eq_false, false_and, if_false]
      rw [digitsToBigUint_spec (by omega) (by omega) ds hnil hall, if_pos hall]
    · have hmod : r % U8 = r := Nat.mod_eq_of_lt (by unfold U8; omega)
      rw [hmod]
      by_cases hall : ∀ d ∈ ds, d < r
      · have hany : (ds.any (fun b => decide (r ≤ b))) = false := by
          have : ¬ (ds.any (fun b => decide (r ≤ b)) = true) := by rw [any_ge_iff]; exact fun h => h hall
          simpa using this
        simp only [hany, Bool.false_eq_true, and_false, if_false]
        rw [digitsToBigUint_spec h2 h256 ds hnil hall, if_pos hall]
      · have hany : ds.any (fun b => decide (r ≤ b)) = true := (any_ge_iff ds r).2 hall
        simp only [hany, ne_eq, h256', not_false_eq_true, and_self, if_true, if_neg hall]

theorem from_radix_be_spec (ds : List Nat) (hb : ∀ d ∈ ds, d < 256) (r : Nat) (h2 : 2 ≤ r) (h256 : r ≤ 256) :
    fromRadixBe ds r = .ok (if ∀ d ∈ ds, d < r then some (ofNat (Nat.ofDigits r ds.reverse)) else none) := by
  unfold fromRadixBe digRadixMax
  rw [if_neg (by omega)]
  by_cases hnil : ds = []
  · subst hnil; simp [ofNat]
  · rw [if_neg hnil]
    have hrn : ds.reverse ≠ [] := by simpa using hnil
    have key : ∀ (hall : ∀ d ∈ ds, d < r), digitsToBigUint r ds.reverse ds = .ok (ofNat (Nat.ofDigits r ds.reverse)) := by
      intro hall
      have := digitsToBigUint_spec h2 h256 ds.reverse hrn (by simpa using hall)
      rwa [List.reverse_reverse] at this
    by_cases h256' : r = 256
    · subst h256'
      simp only [ne_eq, not_true_eq_false, false_and, if_false]
      rw [key hb, if_pos hb]
    · have hmod : r % U8 = r := Nat.mod_eq_of_lt (by unfold U8; omega)
      rw [hmod]
      by_cases hall : ∀ d ∈ ds, d < r
      · have hany : (ds.any (fun b => decide (r ≤ b))) = false := by
          have : ¬ (ds.any (fun b => decide (r ≤ b)) = true) := by rw [any_ge_iff]; exact fun h => h hall
          simpa using this
        simp only [hany, Bool.false_eq_true, and_false, if_false]
        rw [key hall, if_pos hall]
      · have hany : ds.any (fun b => decide (r ≤ b)) = true := (any_ge_iff ds r).2 hall
        simp only [hany, ne_eq, h256', not_false_eq_true, and_self, if_true, if_neg hall]

theorem from_radix_bad_radix (ds : List Nat) (r : Nat) (h : ¬ (2 ≤ r ∧ r ≤ 256)) :
    fromRadixLe ds r = .error .radix ∧ fromRadixBe ds r = .error .radix := by
  unfold fromRadixLe fromRadixBe digRadixMax; rw [if_pos h, if_pos h]; exact ⟨rfl, rfl⟩

theorem fromBiguint_signedVal (s : Sign) (n : Nat) :
    BigInt.fromBiguint s (ofNat n) = BigInt.ofInt (signedVal s n) := by
  cases s with
  | plus => rw [fromBiguint_plus (ofNat_canon n), ofNat_val]; rfl
  | minus => rw [fromBiguint_minus (ofNat_canon n), ofNat_val]; rfl
  | nosign => simp [BigInt.fromBiguint, signedVal, BigInt.ofInt]

/-- `BigInt::from_radix_le/be(sign, digits, radix)`: the canonical BigInt of `± Σ dᵢ·rⁱ` (0 for `NoSign`) -/
theorem bigint_from_radix_spec (s : Sign) (ds : List Nat) (hb : ∀ d ∈ ds, d < 256) (r : Nat) (h2 : 2 ≤ r) (h256 : r ≤ 256) :
    Radix.BigInt.fromRadixLe s ds r
      = .ok (if ∀ d ∈ ds, d < r then some (BigInt.ofInt (signedVal s (Nat.ofDigits r ds))) else none) ∧
    Radix.BigInt.fromRadixBe s ds r
      = .ok (if ∀ d ∈ ds, d < r then some (BigInt.ofInt (signedVal s (Nat.ofDigits r ds.reverse))) else none) := by
  unfold Radix.BigInt.fromRadixLe Radix.BigInt.fromRadixBe
  rw [from_radix_le_spec ds hb r h2 h256, from_radix_be_spec ds hb r h2 h256]
  by_cases hall : ∀ d ∈ ds, d < r
  · rw [if_pos hall, if_pos hall, if_pos hall, if_pos hall]
    simp only [fromBiguint_signedVal]; exact ⟨trivial, trivial⟩
  · rw [if_neg hall, if_neg hall, if_neg hall, if_neg hall]; exact ⟨rfl, rfl⟩

/-- the one-digit `add2` used by the Horner input loop is C01's `add2` for every asm block layout -/
theorem add2Digit_eq_add2 (P : Params) (a : List Nat) (n : Nat) (h : 1 ≤ a.length) :
    add2Digit a n = NB.add2 P a [n] := by
  unfold add2Digit NB.add2
  rw [add2c_eq P a [n] (by simpa using h)]
  rfl

/-- one Horner iteration on the digit vector is exact: the pushed zero digit absorbs the product, neither
    `debug_assert!(carry == 0)` nor the `add2` carry assertion can fire -/
theorem horner_step_exact (radix base : Nat) (data chunk : List Nat) (hd : DigitsOk data) (hne : data ≠ [])
    (hb : base < B) (hn : beFold radix chunk < base) :
    ∃ d', hornerStep radix base data chunk = .ok d' ∧ DigitsOk d' ∧
      val d' = val data * base + beFold radix chunk := by
  obtain ⟨d', h1, h2, _, h4⟩ := hornerStep_spec data chunk hd hne hb hn
  exact ⟨d', h1, h2, h4⟩

/-! ### round trips (digit vectors) -/

/-- `from_radix_le(to_radix_le(u, r), r) == Some(u)` -/
theorem from_to_radix (P : Params) (u : List Nat) (hc : Canon u) (r : Nat) (h2 : 2 ≤ r) (h256 : r ≤ 256) :
    ∃ ds, toRadixLe P u r = .ok ds ∧ fromRadixLe ds r = .ok (some u) ∧ fromRadixBe ds.reverse r = .ok (some u) := by
  refine ⟨digitsOr0 r (val u), to_radix_le_spec P u hc r h2 h256, ?_, ?_⟩
  all_goals
    obtain ⟨hd, _, hv⟩ := to_radix_le_digits r (val u) h2
    have hb : ∀ d ∈ digitsOr0 r (val u), d < 256 := fun d h => Nat.lt_of_lt_of_le (hd d h) h256
  · rw [from_radix_le_spec _ hb r h2 h256, if_pos hd, hv, ← canon_eq_ofNat hc]
  · rw [from_radix_be_spec _ (by simpa using hb) r h2 h256, if_pos (by simpa using hd), List.reverse_reverse, hv,
      ← canon_eq_ofNat hc]

/-- `to_radix_le(from_radix_le(ds, r), r) == ds` for a digit vector without a leading zero -/
theorem to_from_radix (P : Params) (ds : List Nat) (r : Nat) (h2 : 2 ≤ r) (h256 : r ≤ 256)
    (hd : ∀ d ∈ ds, d < r) (hne : ds ≠ []) (hlast : ds.getLast? ≠ some 0) :
    ∃ u, fromRadixLe ds r = .ok (some u) ∧ Canon u ∧ toRadixLe P u r = .ok ds := by
  have hb : ∀ d ∈ ds, d < 256 := fun d h => Nat.lt_of_lt_of_le (hd d h) h256
  refine ⟨ofNat (Nat.ofDigits r ds), ?_, ofNat_canon _, ?_⟩
  · rw [from_radix_le_spec ds hb r h2 h256, if_pos hd]
  · rw [to_radix_le_spec P _ (ofNat_canon _) r h2 h256, ofNat_val]
    have hw : ∀ h : ds ≠ [], ds.getLast h ≠ 0 := by
      intro h e; apply hlast; rw [List.getLast?_eq_some_getLast h, e]
    have hdig := Nat.digits_ofDigits r (by omega) ds hd hw
    unfold digitsOr0
    have hnz : Nat.ofDigits r ds ≠ 0 := by
      intro h0; rw [h0] at hdig; simp at hdig; exact hne hdig
    rw [if_neg hnz, hdig]

/-! ### to_str_radix -/

theorem asciiDigit_eq {d : Nat} (h : d < 36) : asciiDigit d = digitChar d := by
  unfold asciiDigit digitChar U8
  split <;> omega

/-- `BigUint::to_str_radix`: the unique positional text (lower case, no leading zeros) -/
theorem to_str_spec (P : Params) (u : List Nat) (hc : Canon u) (r : Nat) (h2 : 2 ≤ r) (h36 : r ≤ 36) :
    toStrRadixU P u r = .ok (textOf r (val u)) := by
  unfold toStrRadixU toStrRadixReversed strRadixMax textOf
  rw [if_neg (by omega)]
  by_cases hu : u = []
  · subst hu; simp [digitsOr0, val, digitChar]
  · rw [if_neg hu, to_radix_le_spec P u hc r h2 (by omega)]
    dsimp only
    congr 2
    apply List.map_congr_left
    intro d hd
    exact asciiDigit_eq (Nat.lt_of_lt_of_le ((to_radix_le_digits r (val u) h2).1 d hd) h36)

theorem to_str_bad_radix (P : Params) (u : List Nat) (x : BigInt) (r : Nat) (h : ¬ (2 ≤ r ∧ r ≤ 36)) :
    toStrRadixU P u r = .error .radix ∧ toStrRadixI P x r = .error .radix := by
  unfold toStrRadixU toStrRadixI toStrRadixReversed strRadixMax; rw [if_pos h, if_pos h]; exact ⟨rfl, rfl⟩

/-- `BigInt::to_str_radix`: `-` exactly for negative values, then the text of the magnitude -/
theorem bigint_to_str_spec (P : Params) (x : BigInt) (hc : x.Canon) (r : Nat) (h2 : 2 ≤ r) (h36 : r ≤ 36) :
    toStrRadixI P x r = .ok ((if x.sign = .minus then [45] else []) ++ textOf r (val x.mag)) := by
  have h := to_str_spec P x.mag hc.1 r h2 h36
  unfold toStrRadixU at h
  unfold toStrRadixI
  split at h
  · rename_i v hv
    injection h with h
    by_cases hs : x.sign = .minus
    · simp only [hs, if_true, List.reverse_append, List.reverse_cons, List.reverse_nil, List.nil_append, h]
    · simp only [hs, if_false, h, List.nil_append]
  · cases h

theorem digitChar_props {d r : Nat} (hd : d < r) (h36 : r ≤ 36) :
    ((48 ≤ digitChar d ∧ digitChar d ≤ 57) ∨ (97 ≤ digitChar d ∧ digitChar d ≤ 122)) ∧
    Spec.digitVal? (digitChar d) = some d ∧ byteDigit (digitChar d) = d := by
  unfold digitChar
  by_cases h10 : d < 10
  · rw [if_pos h10]
    have c1 : 48 ≤ 48 + d ∧ 48 + d ≤ 57 := by omega
    refine ⟨Or.inl c1, ?_, ?_⟩
    · unfold Spec.digitVal?; rw [if_pos c1]; congr 1; omega
    · unfold byteDigit; rw [if_pos c1]; omega
  · rw [if_neg h10]
    have c1 : ¬ (48 ≤ 87 + d ∧ 87 + d ≤ 57) := by omega
    have c2 : 97 ≤ 87 + d ∧ 87 + d ≤ 122 := by omega
    refine ⟨Or.inr c2, ?_, ?_⟩
    · unfold Spec.digitVal?; rw [if_neg c1, if_pos c2]; congr 1; omega
    · unfold byteDigit; rw [if_neg c1, if_pos c2]; omega

/-- every byte of the text is an ASCII digit or lower-case letter denoting a digit value below the radix -/
theorem to_str_alphabet (r n : Nat) (h2 : 2 ≤ r) (h36 : r ≤ 36) :
    ∀ b ∈ textOf r n, ((48 ≤ b ∧ b ≤ 57) ∨ (97 ≤ b ∧ b ≤ 122)) ∧ Spec.isDigit r b = true ∧
      Spec.digitVal? b = some (byteDigit b) := by
  intro b hb
  unfold textOf at hb
  simp only [List.mem_reverse, List.mem_map] at hb
  obtain ⟨d, hd, rfl⟩ := hb
  have hdr : d < r := (to_radix_le_digits r n h2).1 d hd
  obtain ⟨p1, p2, p3⟩ := digitChar_props hdr h36
  refine ⟨p1, ?_, by rw [p2, p3]⟩
  unfold Spec.isDigit; rw [p2]; simpa using hdr

/-- in a BigInt text `-` can only be the first byte -/
theorem bigint_to_str_alphabet (r n : Nat) (h2 : 2 ≤ r) (h36 : r ≤ 36) : ∀ b ∈ textOf r n, b ≠ 45 ∧ b ≠ 43 ∧ b ≠ 95 ∧ b < 128 := by
  intro b hb
  obtain ⟨h, _, _⟩ := to_str_alphabet r n h2 h36 b hb
  omega

/-! ### from_str_radix: the language theorem -/

/-- `BigUint::from_str_radix` computes exactly the specification `Spec.parseU`: the denoted value
    (canonical) for a well-formed text, `Empty`/`InvalidDigit` otherwise; it never panics -/
theorem from_str_radix_u_spec (s : List Nat) (r : Nat) (h2 : 2 ≤ r) (h36 : r ≤ 36) :
    fromStrRadixU s r = .ok (Spec.parseU r s) := by
  unfold Spec.parseU Spec.wellFormedU Spec.errKindU Spec.denoteMag
  match s with
  | [] => rw [fromStrRadixU_core h2 h36 [] [] stripPlus_nil]; simp [Spec.body]
  | [43] => rw [fromStrRadixU_core h2 h36 [43] [] stripPlus_plus_nil]; simp [Spec.body]
  | 43 :: 43 :: t =>
    rw [fromStrRadixU_core h2 h36 _ _ (stripPlus_plus_plus t)]
    simp [body_false_of_not_digit _ (isDigit_43 r)]
  | 43 :: c :: t =>
    by_cases hc : c = 43
    · subst hc
      rw [fromStrRadixU_core h2 h36 _ _ (stripPlus_plus_plus t)]
      simp [body_false_of_not_digit _ (isDigit_43 r)]
    · rw [fromStrRadixU_core h2 h36 _ _ (stripPlus_plus_cons t hc)]
      simp
  | c :: t =>
    by_cases hc : c = 43
    · subst hc
      cases t with
      | nil => rw [fromStrRadixU_core h2 h36 [43] [] stripPlus_plus_nil]; simp [Spec.body]
      | cons c' t' =>
        by_cases hc' : c' = 43
        · subst hc'
          rw [fromStrRadixU_core h2 h36 _ _ (stripPlus_plus_plus t')]
          simp [body_false_of_not_digit _ (isDigit_43 r)]
        · rw [fromStrRadixU_core h2 h36 _ _ (stripPlus_plus_cons t' hc')]
          simp
    · rw [fromStrRadixU_core h2 h36 _ _ (stripPlus_cons_ne t hc)]
      by_cases hb : Spec.body r (c :: t) = true
      · have hcd : Spec.isDigit r c = true := by
          simp only [Spec.body, Bool.and_eq_true] at hb; exact hb.1
        have h45 : c ≠ 45 := (isDigit_lt_128 hcd).2.2.2
        simp [hb, hc, h45]
      · have hb' : Spec.body r (c :: t) = false := by simpa using hb
        simp [hb', hc]

theorem from_str_radix_bad_radix (s : List Nat) (r : Nat) (h : ¬ (2 ≤ r ∧ r ≤ 36)) :
    fromStrRadixU s r = .error .radix ∧ fromStrRadixI s r = .error .radix := by
  have : fromStrRadixU s r = .error .radix ∧ ∀ s', fromStrRadixU s' r = .error .radix := by
    unfold fromStrRadixU strRadixMax; simp [h]
  refine ⟨this.1, ?_⟩
  unfold fromStrRadixI; dsimp only; rw [this.2]

/-- language theorem, BigUint: accepted iff well-formed, and then the value is the denoted one -/
theorem parse_iff_u (s : List Nat) (r : Nat) (h2 : 2 ≤ r) (h36 : r ≤ 36) (v : List Nat) :
    fromStrRadixU s r = .ok (.ok v) ↔ (Spec.wellFormedU r s = true ∧ v = ofNat (Spec.denoteMag r s)) := by
  rw [from_str_radix_u_spec s r h2 h36]
  unfold Spec.parseU
  by_cases hw : Spec.wellFormedU r s = true
  · simp only [hw, if_true, true_and]
    constructor
    · intro h; injection h with h; injection h with h; exact h.symm
    · intro h; rw [h]
  · simp only [hw]
    constructor
    · intro h; injection h with h; cases h
    · intro h; exact absurd h.1 (by simp)

theorem fromStrRadixI_unfold (s : List Nat) (r : Nat) (h2 : 2 ≤ r) (h36 : r ≤ 36) :
    fromStrRadixI s r = .ok (match Spec.parseU r (stripMinus s).2 with
      | .ok bu => .ok (BigInt.fromBiguint (stripMinus s).1 bu)
      | .error e => .error e) := by
  unfold fromStrRadixI
  dsimp only
  rw [from_str_radix_u_spec _ r h2 h36]
  cases Spec.parseU r (stripMinus s).2 <;> rfl

/-- the text after a `-` that is not followed by `+`: well-formed iff it is a body -/
theorem parseI_minus_aux (r : Nat) (c : Nat) (t : List Nat) (hc : c ≠ 43) :
    (match Spec.parseU r (c :: t) with
      | .ok bu => (.ok (BigInt.fromBiguint .minus bu) : Except ParseErr BigInt)
      | .error e => .error e) = Spec.parseI r (45 :: c :: t) := by
  unfold Spec.parseU Spec.parseI Spec.wellFormedU Spec.wellFormedI Spec.errKindU Spec.errKindI
    Spec.denoteMag Spec.denoteInt
  by_cases hb : Spec.body r (c :: t) = true
  · have hcd : Spec.isDigit r c = true := by
      simp only [Spec.body, Bool.and_eq_true] at hb; exact hb.1
    have h45 : c ≠ 45 := (isDigit_lt_128 hcd).2.2.2
    simp [hb, hc, h45, fromBiguint_minus (ofNat_canon _), ofNat_val]
  · have hb' : Spec.body r (c :: t) = false := by simpa using hb
    simp [hb', hc]

/-- `BigInt::from_str_radix` computes exactly `Spec.parseI` -/
theorem from_str_radix_i_spec (s : List Nat) (r : Nat) (h2 : 2 ≤ r) (h36 : r ≤ 36) :
    fromStrRadixI s r = .ok (Spec.parseI r s) := by
  rw [fromStrRadixI_unfold s r h2 h36]
  congr 1
  match s with
  | [] =>
    rw [stripMinus_nil]
    simp [Spec.parseU, Spec.parseI, Spec.wellFormedU, Spec.wellFormedI, Spec.body, Spec.errKindU, Spec.errKindI]
  | c :: t =>
    by_cases hc : c = 45
    · subst hc
      cases t with
      | nil =>
        rw [stripMinus_minus_nil]
        simp [Spec.parseU, Spec.parseI, Spec.wellFormedU, Spec.wellFormedI, Spec.body, Spec.errKindU, Spec.errKindI]
      | cons c' t' =>
        by_cases hc' : c' = 43
        · subst hc'
          rw [stripMinus_minus_plus]
          simp [Spec.parseU, Spec.parseI, Spec.wellFormedU, Spec.wellFormedI, Spec.errKindU, Spec.errKindI,
            body_false_of_not_digit _ (isDigit_43 r), body_false_of_not_digit _ (isDigit_45 r)]
        · rw [stripMinus_minus_cons t' hc']
          exact parseI_minus_aux r c' t' hc'
    · rw [stripMinus_cons_ne t hc]
      dsimp only
      unfold Spec.parseU Spec.parseI Spec.errKindU Spec.errKindI Spec.denoteInt
      have hw : Spec.wellFormedI r (c :: t) = Spec.wellFormedU r (c :: t) := by
        unfold Spec.wellFormedI Spec.wellFormedU
        by_cases h43 : c = 43
        · subst h43; rfl
        · simp [h43, hc]
      rw [hw]
      by_cases hwf : Spec.wellFormedU r (c :: t) = true
      · simp [hwf, fromBiguint_plus (ofNat_canon _), ofNat_val, hc]
      · have hwf' : Spec.wellFormedU r (c :: t) = false := by simpa using hwf
        simp [hwf', hc]

/-- language theorem, BigInt -/
theorem parse_iff_i (s : List Nat) (r : Nat) (h2 : 2 ≤ r) (h36 : r ≤ 36) (v : BigInt) :
    fromStrRadixI s r = .ok (.ok v) ↔ (Spec.wellFormedI r s = true ∧ v = BigInt.ofInt (Spec.denoteInt r s)) := by
  rw [from_str_radix_i_spec s r h2 h36]
  unfold Spec.parseI
  by_cases hw : Spec.wellFormedI r s = true
  · simp only [hw, if_true, true_and]
    constructor
    · intro h; injection h with h; injection h with h; exact h.symm
    · intro h; rw [h]
  · simp only [hw]
    constructor
    · intro h; injection h with h; cases h
    · intro h; exact absurd h.1 (by simp)

/-! ### parse_bytes -/

theorem wellFormedU_utf8 {r : Nat} {s : List Nat} (h : Spec.wellFormedU r s = true) : utf8Valid s = true := by
  apply utf8Valid_ascii
  unfold Spec.wellFormedU at h
  split at h
  · rename_i t
    intro b hb
    rcases List.mem_cons.1 hb with rfl | hb'
    · omega
    · exact body_ascii t h b hb'
  · exact body_ascii s h

theorem wellFormedI_utf8 {r : Nat} {s : List Nat} (h : Spec.wellFormedI r s = true) : utf8Valid s = true := by
  apply utf8Valid_ascii
  unfold Spec.wellFormedI at h
  split at h
  · rename_i t
    intro b hb
    rcases List.mem_cons.1 hb with rfl | hb'
    · omega
    · exact body_ascii t h b hb'
  · rename_i t
    intro b hb
    rcases List.mem_cons.1 hb with rfl | hb'
    · omega
    · exact body_ascii t h b hb'
  · exact body_ascii s h

/-- `BigUint::parse_bytes`: `Some(denoted value)` exactly for the well-formed texts (which are ASCII, hence
    pass the UTF-8 gate), `None` for every other byte string -/
theorem parse_bytes_u_spec (buf : List Nat) (r : Nat) (h2 : 2 ≤ r) (h36 : r ≤ 36) :
    parseBytesU buf r = .ok (if Spec.wellFormedU r buf then some (ofNat (Spec.denoteMag r buf)) else none) := by
  unfold parseBytesU
  by_cases hw : Spec.wellFormedU r buf = true
  · rw [if_neg (by simp [wellFormedU_utf8 hw]), from_str_radix_u_spec buf r h2 h36]
    simp [Spec.parseU, hw]
  · have hw' : Spec.wellFormedU r buf = false := by simpa using hw
    by_cases hu : utf8Valid buf = true
    · rw [if_neg (by simp [hu]), from_str_radix_u_spec buf r h2 h36]
      simp [Spec.parseU, hw']
    · rw [if_pos hu]; simp [hw']

theorem parse_bytes_i_spec (buf : List Nat) (r : Nat) (h2 : 2 ≤ r) (h36 : r ≤ 36) :
    parseBytesI buf r = .ok (if Spec.wellFormedI r buf then some (BigInt.ofInt (Spec.denoteInt r buf)) else none) := by
  unfold parseBytesI
  by_cases hw : Spec.wellFormedI r buf = true
  · rw [if_neg (by simp [wellFormedI_utf8 hw]), from_str_radix_i_spec buf r h2 h36]
    simp [Spec.parseI, hw]
  · have hw' : Spec.wellFormedI r buf = false := by simpa using hw
    by_cases hu : utf8Valid buf = true
    · rw [if_neg (by simp [hu]), from_str_radix_i_spec buf r h2 h36]
      simp [Spec.parseI, hw']
    · rw [if_pos hu]; simp [hw']

/-- with a radix out of range `parse_bytes` panics iff the bytes are valid UTF-8 (the gate comes first) -/
theorem parse_bytes_bad_radix (buf : List Nat) (r : Nat) (h : ¬ (2 ≤ r ∧ r ≤ 36)) :
    parseBytesU buf r = (if utf8Valid buf then .error .radix else .ok none) ∧
    parseBytesI buf r = (if utf8Valid buf then .error .radix else .ok none) := by
  unfold parseBytesU parseBytesI
  obtain ⟨e1, e2⟩ := from_str_radix_bad_radix buf r h
  rw [e1, e2]
  by_cases hu : utf8Valid buf = true <;> simp [hu]

/-! ### parsing emitted text returns the original value -/

theorem textOf_body (r n : Nat) (h2 : 2 ≤ r) (h36 : r ≤ 36) :
    Spec.body r (textOf r n) = true ∧ Spec.denoteBody r (textOf r n) = n ∧
    (textOf r n).head? ≠ some 43 ∧ (textOf r n).head? ≠ some 45 ∧ textOf r n ≠ [] := by
  have halpha := to_str_alphabet r n h2 h36
  have hne : textOf r n ≠ [] := by
    unfold textOf digitsOr0
    by_cases h0 : n = 0
    · simp [h0]
    · have := (Nat.digits_ne_nil_iff_ne_zero (b := r)).mpr h0
      simpa [h0] using this
  obtain ⟨b, t, hbt⟩ := List.exists_cons_of_ne_nil hne
  have hb := halpha b (by rw [hbt]; simp)
  have hbody : Spec.body r (textOf r n) = true := by
    rw [hbt]
    simp only [Spec.body, Bool.and_eq_true, List.all_eq_true, Bool.or_eq_true, beq_iff_eq]
    exact ⟨hb.2.1, fun c hc => Or.inr (halpha c (by rw [hbt]; simp [hc])).2.1⟩
  refine ⟨hbody, ?_, ?_, ?_, hne⟩
  · -- denotation
    unfold Spec.denoteBody
    have hfilter : (textOf r n).filter (fun b => b != 95) = textOf r n := by
      apply List.filter_eq_self.2
      intro c hc
      have := (bigint_to_str_alphabet r n h2 h36 c hc).2.2.1
      simpa using this
    rw [hfilter]
    have hmap : (textOf r n).map (fun b => (Spec.digitVal? b).getD 0) = (digitsOr0 r n).reverse := by
      unfold textOf
      rw [List.map_reverse, List.map_map]
      congr 1
      conv_rhs => rw [← List.map_id (digitsOr0 r n)]
      apply List.map_congr_left
      intro d hd
      have hdr : d < r := (to_radix_le_digits r n h2).1 d hd
      simp only [Function.comp, id, (digitChar_props hdr h36).2.1, Option.getD_some]
    rw [hmap, beValue_eq_ofDigits, List.reverse_reverse]
    exact (to_radix_le_digits r n h2).2.2
  · rw [hbt]; simp only [List.head?_cons, ne_eq, Option.some.injEq]
    have := hb.1; omega
  · rw [hbt]; simp only [List.head?_cons, ne_eq, Option.some.injEq]
    have := hb.1; omega

/-- `BigUint::from_str_radix(&u.to_str_radix(r), r) == Ok(u)`, also through `parse_bytes` -/
theorem parse_to_str_u (P : Params) (u : List Nat) (hc : Canon u) (r : Nat) (h2 : 2 ≤ r) (h36 : r ≤ 36) :
    ∃ s, toStrRadixU P u r = .ok s ∧ fromStrRadixU s r = .ok (.ok u) ∧ parseBytesU s r = .ok (some u) := by
  refine ⟨textOf r (val u), to_str_spec P u hc r h2 h36, ?_⟩
  obtain ⟨hb, hv, h43, _, hne⟩ := textOf_body r (val u) h2 h36
  have hwf : Spec.wellFormedU r (textOf r (val u)) = true := by
    unfold Spec.wellFormedU
    split
    · rename_i t heq; rw [heq] at h43; simp at h43
    · exact hb
  have hden : Spec.denoteMag r (textOf r (val u)) = val u := by
    unfold Spec.denoteMag
    split
    · rename_i t heq; rw [heq] at h43; simp at h43
    · rename_i t heq
      have := (textOf_body r (val u) h2 h36).2.2.2.1
      rw [heq] at this; simp at this
    · exact hv
  constructor
  · rw [from_str_radix_u_spec _ r h2 h36]
    simp only [Spec.parseU, hwf, if_true, hden, ← canon_eq_ofNat hc]
  · rw [parse_bytes_u_spec _ r h2 h36]
    simp only [hwf, if_true, hden, ← canon_eq_ofNat hc]

/-- `BigInt::from_str_radix(&x.to_str_radix(r), r) == Ok(x)`, also through `parse_bytes` -/
theorem parse_to_str_i (P : Params) (x : BigInt) (hc : x.Canon) (r : Nat) (h2 : 2 ≤ r) (h36 : r ≤ 36) :
    ∃ s, toStrRadixI P x r = .ok s ∧ fromStrRadixI s r = .ok (.ok x) ∧ parseBytesI s r = .ok (some x) := by
  refine ⟨_, bigint_to_str_spec P x hc r h2 h36, ?_⟩
  obtain ⟨hb, hv, h43, h45, hne⟩ := textOf_body r (val x.mag) h2 h36
  obtain ⟨b, t, hbt⟩ := List.exists_cons_of_ne_nil hne
  have hb43 : b ≠ 43 := by rw [hbt] at h43; simpa using h43
  have hb45 : b ≠ 45 := by rw [hbt] at h45; simpa using h45
  have hx := bigint_canon_eq_ofInt hc
  by_cases hs : x.sign = .minus
  · have hxv : x.val = -(val x.mag : Int) := by unfold BigInt.val; rw [hs]
    have hwf : Spec.wellFormedI r (45 :: textOf r (val x.mag)) = true := by
      unfold Spec.wellFormedI; exact hb
    have hden : Spec.denoteInt r (45 :: textOf r (val x.mag)) = x.val := by
      unfold Spec.denoteInt; simp only [hv, hxv]
    simp only [hs, if_true, List.singleton_append]
    constructor
    · rw [from_str_radix_i_spec _ r h2 h36]
      simp only [Spec.parseI, hwf, if_true, hden, ← hx]
    · rw [parse_bytes_i_spec _ r h2 h36]
      simp only [hwf, if_true, hden, ← hx]
  · have hxv : x.val = (val x.mag : Int) := by
      unfold BigInt.val
      rcases hs' : x.sign with _ | _ | _
      · exact absurd hs' hs
      · have : x.mag = [] := hc.2.1 hs'
        simp [this, val]
      · rfl
    have hwf : Spec.wellFormedI r (textOf r (val x.mag)) = true := by
      rw [hbt]; unfold Spec.wellFormedI
      split
      · rename_i t' heq; injection heq with h1 _; exact absurd h1 hb43
      · rename_i t' heq; injection heq with h1 _; exact absurd h1 hb45
      · rw [← hbt]; exact hb
    have hden : Spec.denoteInt r (textOf r (val x.mag)) = x.val := by
      rw [hxv]
      have hd2 : Spec.denoteBody r (b :: t) = val x.mag := by rw [← hbt]; exact hv
      rw [hbt]; unfold Spec.denoteInt
      split
      · rename_i t' heq; injection heq with h1 _; exact absurd h1 hb45
      · unfold Spec.denoteMag
        split
        · rename_i t' heq; injection heq with h1 _; exact absurd h1 hb43
        · rename_i t' heq; injection heq with h1 _; exact absurd h1 hb45
        · rw [hd2]
    simp only [hs, if_false, List.nil_append]
    constructor
    · rw [from_str_radix_i_spec _ r h2 h36]
      simp only [Spec.parseI, hwf, if_true, hden, ← hx]
    · rw [parse_bytes_i_spec _ r h2 h36]
      simp only [hwf, if_true, hden, ← hx]

/-! ### formatting -/

/-- each `fmt` impl hands `Formatter::pad_integral` the triple (non-negative?, radix prefix, the unique
    positional text of the magnitude — upper-cased only by `UpperHex`); it never panics -/
theorem fmt_triple_spec (P : Params) (k : FmtKind) (x : BigInt) (hc : x.Canon) :
    fmtTriple P k x = .ok (decide (x.sign ≠ .minus), fmtPrefix k,
      if k = .upperHex then (textOf (fmtRadix k) (val x.mag)).map asciiUpper else textOf (fmtRadix k) (val x.mag)) := by
  unfold fmtTriple
  have hr : 2 ≤ fmtRadix k ∧ fmtRadix k ≤ 36 := by cases k <;> decide
  rw [to_str_spec P x.mag hc.1 _ hr.1 hr.2]

/-- `format!` with any of the modelled specs: std's padding applied to that triple -/
theorem format_spec (P : Params) (k : FmtKind) (f : FmtSpec) (x : BigInt) (hc : x.Canon) :
    format P k f x = .ok (padIntegral f (decide (x.sign ≠ .minus)) (fmtPrefix k)
      (if k = .upperHex then (textOf (fmtRadix k) (val x.mag)).map asciiUpper else textOf (fmtRadix k) (val x.mag))) := by
  unfold format; rw [fmt_triple_spec P k x hc]

/-- without width the formatted text is sign, optional prefix, digits — nothing else -/
theorem padIntegral_no_width (f : FmtSpec) (hw : f.width = none) (nonneg : Bool) (pfx buf : List Nat) :
    padIntegral f nonneg pfx buf =
      (if ¬ nonneg then [45] else if f.signPlus then [43] else []) ++ (if f.alternate then pfx else []) ++ buf := by
  unfold padIntegral; simp [hw]

/-- padding only ever adds fill bytes: the output has at least the requested width (in fill units) -/
theorem padIntegral_length (f : FmtSpec) (hf : f.fill.length = 1) (nonneg : Bool) (pfx buf : List Nat) (w : Nat)
    (hw : f.width = some w) :
    (padIntegral f nonneg pfx buf).length
      = max w (buf.length + (if ¬ nonneg then 1 else if f.signPlus then 1 else 0) + (if f.alternate then pfx.length else 0)) := by
  have hfill : ∀ n, (fillN f.fill n).length = n := by
    intro n; unfold fillN
    induction n with
    | zero => simp
    | succ n ih => simp [List.replicate_succ, hf, ih]; omega
  have hzero : ∀ n, (fillN [48] n).length = n := by
    intro n; unfold fillN
    induction n with
    | zero => simp
    | succ n ih => simp [List.replicate_succ, ih]
  have hsplit : ∀ a d n, (padSplit a d n).1 + (padSplit a d n).2 = n := by
    intro a d n; unfold padSplit
    split <;> simp <;> omega
  unfold padIntegral
  simp only [hw]
  set sign : List Nat := if ¬ nonneg = true then [45] else if f.signPlus = true then [43] else [] with hsign
  set pfx' : List Nat := if f.alternate = true then pfx else [] with hpfx
  have hsl : sign.length = (if ¬ nonneg then 1 else if f.signPlus then 1 else 0) := by
    rw [hsign]; split <;> [rfl; (split <;> rfl)]
  have hpl : pfx'.length = (if f.alternate then pfx.length else 0) := by
    rw [hpfx]; split <;> rfl
  rw [← hsl, ← hpl]
  by_cases hle : w ≤ buf.length + sign.length + pfx'.length
  · rw [if_pos hle]; simp only [List.length_append]; omega
  · rw [if_neg hle]
    split
    · have := hsplit .right .right (w - (buf.length + sign.length + pfx'.length))
      simp only [List.length_append, hzero]; omega
    · have := hsplit f.align .right (w - (buf.length + sign.length + pfx'.length))
      simp only [List.length_append, hfill]; omega

/-! ### complete outcome tables (every radix, in range or not) -/

/-- `to_radix_le` for EVERY radix: the positional digits, or `panic radix` — no other outcome exists -/
theorem to_radix_le_outcome (P : Params) (u : List Nat) (hc : Canon u) (r : Nat) :
    toRadixLe P u r = if 2 ≤ r ∧ r ≤ 256 then .ok (digitsOr0 r (val u)) else .error .radix := by
  by_cases h : 2 ≤ r ∧ r ≤ 256
  · rw [if_pos h]; exact to_radix_le_spec P u hc r h.1 h.2
  · rw [if_neg h]; exact to_radix_le_bad_radix P u r h

theorem from_radix_le_outcome (ds : List Nat) (hb : ∀ d ∈ ds, d < 256) (r : Nat) :
    fromRadixLe ds r = if 2 ≤ r ∧ r ≤ 256
      then .ok (if ∀ d ∈ ds, d < r then some (ofNat (Nat.ofDigits r ds)) else none) else .error .radix := by
  by_cases h : 2 ≤ r ∧ r ≤ 256
  · rw [if_pos h]; exact from_radix_le_spec ds hb r h.1 h.2
  · rw [if_neg h]; exact (from_radix_bad_radix ds r h).1

theorem to_str_outcome (P : Params) (x : BigInt) (hc : x.Canon) (r : Nat) :
    toStrRadixI P x r = if 2 ≤ r ∧ r ≤ 36
      then .ok ((if x.sign = .minus then [45] else []) ++ textOf r (val x.mag)) else .error .radix := by
  by_cases h : 2 ≤ r ∧ r ≤ 36
  · rw [if_pos h]; exact bigint_to_str_spec P x hc r h.1 h.2
  · rw [if_neg h]; exact (to_str_bad_radix P [] x r h).2

theorem from_str_radix_outcome (s : List Nat) (r : Nat) :
    fromStrRadixU s r = (if 2 ≤ r ∧ r ≤ 36 then .ok (Spec.parseU r s) else .error .radix) ∧
    fromStrRadixI s r = (if 2 ≤ r ∧ r ≤ 36 then .ok (Spec.parseI r s) else .error .radix) := by
  by_cases h : 2 ≤ r ∧ r ≤ 36
  · rw [if_pos h, if_pos h]
    exact ⟨from_str_radix_u_spec s r h.1 h.2, from_str_radix_i_spec s r h.1 h.2⟩
  · rw [if_neg h, if_neg h]; exact from_str_radix_bad_radix s r h

/-! ### the run-time oracle of the correspondence check is this specification -/

/-- the driver's `Nat` oracle for digit output computes `Nat.digits` (most significant first) -/
theorem oracle_digits_eq (r : Nat) (h2 : 2 ≤ r) : ∀ (n : Nat) (acc : List Nat),
    NB.Drv.C06.oDigitsBE r n acc = (Nat.digits r n).reverse ++ acc := by
  intro n
  induction n using Nat.strong_induction_on with
  | _ n ih =>
    intro acc
    rw [NB.Drv.C06.oDigitsBE]
    by_cases h0 : n = 0
    · subst h0; simp
    · have hc : ¬ (n = 0 ∨ r < 2) := by omega
      simp only [hc, dite_false]
      rw [ih (n / r) (Nat.div_lt_self (by omega) (by omega))]
      have e := Nat.digits_def' (b := r) (n := n) (by omega) (by omega)
      rw [e]; simp

theorem oracle_radix_eq (r n : Nat) (h2 : 2 ≤ r) (h256 : r ≤ 256) :
    NB.Drv.C06.oRadixBE r n = .ok (digitsOr0 r n).reverse := by
  unfold NB.Drv.C06.oRadixBE NB.Drv.C06.oDigitsBE0 digitsOr0
  rw [if_neg (by omega)]
  by_cases h0 : n = 0
  · simp [h0]
  · simp only [h0, if_false]; rw [oracle_digits_eq r h2]; simp

theorem oracle_str_eq (r n : Nat) (h2 : 2 ≤ r) (h36 : r ≤ 36) (neg : Bool) :
    NB.Drv.C06.oStr r neg n = .ok ((if neg then [45] else []) ++ textOf r n) := by
  unfold NB.Drv.C06.oStr NB.Drv.C06.oDigitsBE0 textOf digitsOr0
  rw [if_neg (by omega)]
  have hch : ∀ d, NB.Drv.C06.oAscii d = digitChar d := fun d => rfl
  by_cases h0 : n = 0
  · simp [h0, NB.Drv.C06.oAscii, digitChar]
  · simp only [h0, if_false]
    rw [oracle_digits_eq r h2, List.append_nil, List.map_reverse]
    congr 3

/-! ### digit-level general-radix output (layer link to C02 / C03)

`toRadixDigitsLeD` & co. (NB.Model.RadixD) mirror `to_radix_digits_le` on digit vectors: `div_rem_digit`,
`digits.div_rem(&big_base)` (`div_rem_ref`, Knuth D), `&big_base * &big_base` (`mulRef`, mac3), `digits > big_base`
(`cmp_slice`) are the digit-level models whose exactness is C02 / C03.  The refinement theorems say that on canonical
operands they compute exactly what the value-level model computes; everything above transfers. -/

/-- refinement, inner function: for the radices it is called with (2..=256, not a power of two) -/
theorem to_radix_digits_le_refines (P : Params) (hP : P.ValidMul) (u : List Nat) (hc : Canon u) (r : Nat)
    (h2 : 2 ≤ r) (h256 : r ≤ 256) (hp : isPow2 r = false) :
    toRadixDigitsLeD P u r = toRadixDigitsLe P u r :=
  toRadixDigitsLeD_eq P hP h2 h256 hp u hc

/-- refinement, public functions: EVERY radix (in range or not), every canonical value -/
theorem to_radix_le_refines (P : Params) (hP : P.ValidMul) (u : List Nat) (hc : Canon u) (r : Nat) :
    toRadixLeD P u r = toRadixLe P u r ∧ toRadixBeD P u r = toRadixBe P u r ∧
    toStrRadixUD P u r = toStrRadixU P u r :=
  ⟨toRadixLeD_eq P hP u hc r, toRadixBeD_eq P hP u hc r, toStrRadixUD_eq P hP u hc r⟩

theorem bigint_to_radix_refines (P : Params) (hP : P.ValidMul) (x : BigInt) (hc : x.Canon) (r : Nat) :
    Radix.BigInt.toRadixLeD P x r = Radix.BigInt.toRadixLe P x r ∧
    Radix.BigInt.toRadixBeD P x r = Radix.BigInt.toRadixBe P x r ∧
    toStrRadixID P x r = toStrRadixI P x r :=
  ⟨(bigint_toRadixLeD_eq P hP x hc.1 r).1, (bigint_toRadixLeD_eq P hP x hc.1 r).2, toStrRadixID_eq P hP x hc.1 r⟩

theorem format_refines (P : Params) (hP : P.ValidMul) (k : FmtKind) (f : FmtSpec) (x : BigInt) (hc : x.Canon) :
    fmtTripleD P k x = fmtTriple P k x ∧ formatD P k f x = format P k f x :=
  ⟨fmtTripleD_eq P hP k x hc.1, formatD_eq P hP k f x hc.1⟩

/-- the digit-level loops, separately (any base `≥ 2`, any fuel bounding the bit length): the `div_rem_digit`
    loop and the final-digit loop … -/
theorem slow_loop_refines (radix power base : Nat) (hb : 2 ≤ base) (fuel : Nat) (digits : List Nat)
    (hc : Canon digits) (hf : val digits < 2 ^ fuel) :
    slowLoopD radix power base fuel digits = slowLoop radix power base (val digits) :=
  slowLoopD_eq hb fuel digits hc hf

/-- … the squaring loop (`mulRef` per iteration) … -/
theorem square_loop_refines (P : Params) (hP : P.ValidMul) (t fuel : Nat) (bb : List Nat) (bp : Nat) (hc : Canon bb) :
    squareLoopD P t fuel bb bp = (squareLoop t fuel (val bb) bp).map (fun p => (ofNat p.1, p.2)) :=
  squareLoopD_eq P hP t fuel bb bp hc

/-- … and the super-chunk loop (`cmp_slice`, `div_rem_ref`, `big_power` × `div_rem_digit`) -/
theorem big_loop_refines (P : Params) (radix power base bigPower : Nat) (bigBase : List Nat) (hb : 2 ≤ base)
    (hbb : Canon bigBase) (hbb2 : 2 ≤ val bigBase) (fuel : Nat) (digits : List Nat)
    (hc : Canon digits) (hf : val digits < 2 ^ fuel) :
    bigLoopD P radix power base bigBase bigPower fuel digits
      = bigLoop radix power base (val bigBase) bigPower (val digits) :=
  bigLoopD_eq P hb hbb hbb2 fuel digits hc hf

/-- the fuel the model passes, `BITS * u.len()`, always bounds the bit length (termination of both loops) -/
theorem radix_fuel_sufficient (u : List Nat) (hd : DigitsOk u) : val u < 2 ^ radixFuel u :=
  val_lt_radixFuel hd

/-- `to_radix_le` at digit level: the unique positional representation, on every code path -/
theorem to_radix_leD_spec (P : Params) (hP : P.ValidMul) (u : List Nat) (hc : Canon u) (r : Nat)
    (h2 : 2 ≤ r) (h256 : r ≤ 256) :
    toRadixLeD P u r = .ok (digitsOr0 r (val u)) := by
  rw [toRadixLeD_eq P hP u hc r]; exact to_radix_le_spec P u hc r h2 h256

theorem to_radix_beD_spec (P : Params) (hP : P.ValidMul) (u : List Nat) (hc : Canon u) (r : Nat)
    (h2 : 2 ≤ r) (h256 : r ≤ 256) :
    toRadixBeD P u r = .ok (digitsOr0 r (val u)).reverse := by
  rw [toRadixBeD_eq P hP u hc r]; exact to_radix_be_spec P u hc r h2 h256

/-- complete outcome table at digit level: the positional digits, or `panic radix` — in particular no
    `.divzero` (of `div_rem_digit` / `div_rem`), no internal assertion of `mac3` / `div_rem_core`, no `#DE` of
    `div_wide`, no `digits.data[0]` out of bounds and no fuel exhaustion is reachable -/
theorem to_radix_leD_outcome (P : Params) (hP : P.ValidMul) (u : List Nat) (hc : Canon u) (r : Nat) :
    toRadixLeD P u r = if 2 ≤ r ∧ r ≤ 256 then .ok (digitsOr0 r (val u)) else .error .radix := by
  rw [toRadixLeD_eq P hP u hc r]; exact to_radix_le_outcome P u hc r

theorem to_radixD_no_internal (P : Params) (hP : P.ValidMul) (u : List Nat) (hc : Canon u) (r : Nat) (e : Panic) :
    toRadixLeD P u r = .error e → e = .radix := by
  rw [to_radix_leD_outcome P hP u hc r]
  split
  · intro h; cases h
  · intro h; injection h with h; exact h.symm

theorem bigint_to_radixD_spec (P : Params) (hP : P.ValidMul) (x : BigInt) (hc : x.Canon) (r : Nat)
    (h2 : 2 ≤ r) (h256 : r ≤ 256) :
    Radix.BigInt.toRadixLeD P x r = .ok (x.sign, digitsOr0 r x.val.natAbs) ∧
    Radix.BigInt.toRadixBeD P x r = .ok (x.sign, (digitsOr0 r x.val.natAbs).reverse) := by
  obtain ⟨e1, e2, _⟩ := bigint_to_radix_refines P hP x hc r
  rw [e1, e2]; exact bigint_to_radix_le_spec P x hc r h2 h256

/-- the big-base path at digit level: a super-chunk `big_r` (any digit vector with value below `base^big_power`)
    is emitted by `big_power` calls of `div_rem_digit` as exactly `big_power * power` zero-padded digits -/
theorem big_chunkD_spec (r power bigPower : Nat) (bigR : List Nat) (hd : DigitsOk bigR) (h2 : 2 ≤ r) (h256 : r ≤ 256)
    (hlt : val bigR < (r ^ power) ^ bigPower) :
    emitChunksD r power (r ^ power) bigPower bigR
      = .ok (Nat.digits r (val bigR) ++ List.replicate (bigPower * power - (Nat.digits r (val bigR)).length) 0) := by
  have hb0 : r ^ power ≠ 0 := Nat.pos_iff_ne_zero.1 (Nat.pow_pos (by omega))
  rw [emitChunksD_eq hb0 bigPower bigR hd, (big_chunk_spec r power bigPower (val bigR) h2 h256 hlt).1]

/-- round trips through the digit-level output -/
theorem from_to_radixD (P : Params) (hP : P.ValidMul) (u : List Nat) (hc : Canon u) (r : Nat) (h2 : 2 ≤ r) (h256 : r ≤ 256) :
    ∃ ds, toRadixLeD P u r = .ok ds ∧ fromRadixLe ds r = .ok (some u) ∧ fromRadixBe ds.reverse r = .ok (some u) := by
  rw [toRadixLeD_eq P hP u hc r]; exact from_to_radix P u hc r h2 h256

theorem to_from_radixD (P : Params) (hP : P.ValidMul) (ds : List Nat) (r : Nat) (h2 : 2 ≤ r) (h256 : r ≤ 256)
    (hd : ∀ d ∈ ds, d < r) (hne : ds ≠ []) (hlast : ds.getLast? ≠ some 0) :
    ∃ u, fromRadixLe ds r = .ok (some u) ∧ Canon u ∧ toRadixLeD P u r = .ok ds := by
  obtain ⟨u, e1, hcu, e2⟩ := to_from_radix P ds r h2 h256 hd hne hlast
  exact ⟨u, e1, hcu, by rw [toRadixLeD_eq P hP u hcu r]; exact e2⟩

/-- `to_str_radix` at digit level -/
theorem to_strD_spec (P : Params) (hP : P.ValidMul) (u : List Nat) (hc : Canon u) (r : Nat) (h2 : 2 ≤ r) (h36 : r ≤ 36) :
    toStrRadixUD P u r = .ok (textOf r (val u)) := by
  rw [toStrRadixUD_eq P hP u hc r]; exact to_str_spec P u hc r h2 h36

theorem bigint_to_strD_spec (P : Params) (hP : P.ValidMul) (x : BigInt) (hc : x.Canon) (r : Nat) (h2 : 2 ≤ r) (h36 : r ≤ 36) :
    toStrRadixID P x r = .ok ((if x.sign = .minus then [45] else []) ++ textOf r (val x.mag)) := by
  rw [toStrRadixID_eq P hP x hc.1 r]; exact bigint_to_str_spec P x hc r h2 h36

theorem to_strD_outcome (P : Params) (hP : P.ValidMul) (x : BigInt) (hc : x.Canon) (r : Nat) :
    toStrRadixID P x r = if 2 ≤ r ∧ r ≤ 36
      then .ok ((if x.sign = .minus then [45] else []) ++ textOf r (val x.mag)) else .error .radix := by
  rw [toStrRadixID_eq P hP x hc.1 r]; exact to_str_outcome P x hc r

/-- parsing the text emitted by the digit-level model returns the original value -/
theorem parse_to_strD_u (P : Params) (hP : P.ValidMul) (u : List Nat) (hc : Canon u) (r : Nat) (h2 : 2 ≤ r) (h36 : r ≤ 36) :
    ∃ s, toStrRadixUD P u r = .ok s ∧ fromStrRadixU s r = .ok (.ok u) ∧ parseBytesU s r = .ok (some u) := by
  rw [toStrRadixUD_eq P hP u hc r]; exact parse_to_str_u P u hc r h2 h36

theorem parse_to_strD_i (P : Params) (hP : P.ValidMul) (x : BigInt) (hc : x.Canon) (r : Nat) (h2 : 2 ≤ r) (h36 : r ≤ 36) :
    ∃ s, toStrRadixID P x r = .ok s ∧ fromStrRadixI s r = .ok (.ok x) ∧ parseBytesI s r = .ok (some x) := by
  rw [toStrRadixID_eq P hP x hc.1 r]; exact parse_to_str_i P x hc r h2 h36

/-- formatting at digit level -/
theorem fmt_tripleD_spec (P : Params) (hP : P.ValidMul) (k : FmtKind) (x : BigInt) (hc : x.Canon) :
    fmtTripleD P k x = .ok (decide (x.sign ≠ .minus), fmtPrefix k,
      if k = .upperHex then (textOf (fmtRadix k) (val x.mag)).map asciiUpper else textOf (fmtRadix k) (val x.mag)) := by
  rw [fmtTripleD_eq P hP k x hc.1]; exact fmt_triple_spec P k x hc

theorem formatD_spec (P : Params) (hP : P.ValidMul) (k : FmtKind) (f : FmtSpec) (x : BigInt) (hc : x.Canon) :
    formatD P k f x = .ok (padIntegral f (decide (x.sign ≠ .minus)) (fmtPrefix k)
      (if k = .upperHex then (textOf (fmtRadix k) (val x.mag)).map asciiUpper else textOf (fmtRadix k) (val x.mag))) := by
  rw [formatD_eq P hP k f x hc.1]; exact format_spec P k f x hc

/-- what the driver runs: the digit-level model at the parameters regenerated from the source
    (`gen_params_valid_mul` is C02's proof obligation, re-elaborated on every run) -/
theorem gen_to_radix_leD_spec (u : List Nat) (hc : Canon u) (r : Nat) :
    toRadixLeD NB.Gen.P u r = if 2 ≤ r ∧ r ≤ 256 then .ok (digitsOr0 r (val u)) else .error .radix :=
  to_radix_leD_outcome NB.Gen.P gen_params_valid_mul u hc r

theorem gen_to_strD_spec (x : BigInt) (hc : x.Canon) (r : Nat) :
    toStrRadixID NB.Gen.P x r = if 2 ≤ r ∧ r ≤ 36
      then .ok ((if x.sign = .minus then [45] else []) ++ textOf r (val x.mag)) else .error .radix :=
  to_strD_outcome NB.Gen.P gen_params_valid_mul x hc r

theorem gen_formatD_spec (k : FmtKind) (f : FmtSpec) (x : BigInt) (hc : x.Canon) :
    formatD NB.Gen.P k f x = .ok (padIntegral f (decide (x.sign ≠ .minus)) (fmtPrefix k)
      (if k = .upperHex then (textOf (fmtRadix k) (val x.mag)).map asciiUpper else textOf (fmtRadix k) (val x.mag))) :=
  formatD_spec NB.Gen.P gen_params_valid_mul k f x hc


/-- the driver's model column for the general-radix output ops (NB.Drv.C06.mToRadixLe & co.) is the digit-level
    definition whenever the size cap `dCap` is off (`0`, the delivered setting) or not exceeded … -/
theorem drv_model_is_digit_level (a : List Nat) (r : Nat) (k : FmtKind) (f : FmtSpec) (x : BigInt)
    (ha : NB.Drv.C06.dCap = 0 ∨ a.length ≤ NB.Drv.C06.dCap) (hx : NB.Drv.C06.dCap = 0 ∨ x.mag.length ≤ NB.Drv.C06.dCap) :
    NB.Drv.C06.mToRadixLe a r = toRadixLeD NB.Gen.P a r ∧ NB.Drv.C06.mToRadixBe a r = toRadixBeD NB.Gen.P a r ∧
    NB.Drv.C06.mToStrU a r = toStrRadixUD NB.Gen.P a r ∧ NB.Drv.C06.mToStrI x r = toStrRadixID NB.Gen.P x r ∧
    NB.Drv.C06.mToRadixLeI x r = Radix.BigInt.toRadixLeD NB.Gen.P x r ∧
    NB.Drv.C06.mToRadixBeI x r = Radix.BigInt.toRadixBeD NB.Gen.P x r ∧
    NB.Drv.C06.mFmt k f x = formatD NB.Gen.P k f x := by
  have h1 : NB.Drv.C06.useD a = true := by
    unfold NB.Drv.C06.useD; rcases ha with h | h <;> simp [h]
  have h2 : NB.Drv.C06.useD x.mag = true := by
    unfold NB.Drv.C06.useD; rcases hx with h | h <;> simp [h]
  unfold NB.Drv.C06.mToRadixLe NB.Drv.C06.mToRadixBe NB.Drv.C06.mToStrU NB.Drv.C06.mToStrI
    NB.Drv.C06.mToRadixLeI NB.Drv.C06.mToRadixBeI NB.Drv.C06.mFmt NB.Drv.C06.P
  simp only [h1, h2, if_true, and_self]

/-- … and in either case it equals the specification (so a cap could never mask a model error) -/
theorem drv_model_column_spec (u : List Nat) (hc : Canon u) (r : Nat) :
    NB.Drv.C06.mToRadixLe u r = if 2 ≤ r ∧ r ≤ 256 then .ok (digitsOr0 r (val u)) else .error .radix := by
  unfold NB.Drv.C06.mToRadixLe NB.Drv.C06.P
  split
  · exact gen_to_radix_leD_spec u hc r
  · exact to_radix_le_outcome _ u hc r

/-! ### the extracted parameters; non-vacuity -/

/-- the theorems above hold for every value of the extracted big-base threshold; this records the value
    the current source has (re-elaborated on every run) -/
theorem gen_params_bigbase : NB.Gen.P.bigBase = NB.Gen.bigBase := rfl

example : Canon [B - 1, 1] ∧ Canon [1] := by decide
/-- the hypotheses of the digit-level theorems are satisfiable, also on the big-base path (`u.len() ≥ P.bigBase`) -/
example : NB.Gen.P.ValidMul ∧ Canon (List.replicate 70 7) ∧ NB.Gen.P.bigBase ≤ (List.replicate 70 7).length := by decide
example : toRadixLeD NB.Gen.P (List.replicate 70 7) 10 = .ok (digitsOr0 10 (val (List.replicate 70 7))) :=
  to_radix_leD_spec NB.Gen.P gen_params_valid_mul _ (by decide) 10 (by decide) (by decide)
example : toStrRadixUD NB.Gen.P [B - 1, 1] 36 = .ok (textOf 36 (val [B - 1, 1])) :=
  to_strD_spec NB.Gen.P gen_params_valid_mul _ (by decide) 36 (by decide) (by decide)
example : Spec.wellFormedI 16 [45, 70, 95, 102] = true ∧ Spec.denoteInt 16 [45, 70, 95, 102] = -255 := by decide
example : Spec.wellFormedU 10 [43, 48, 48, 55] = true ∧ Spec.wellFormedU 10 [45, 55] = false
    ∧ Spec.wellFormedU 10 [95, 55] = false ∧ Spec.wellFormedI 10 [43, 45, 55] = false := by decide
example : (radixBaseEntry (B - 1) 10) = (10 ^ 19, 19) ∧ (radixBaseEntry (B - 1) 3) = (3 ^ 40, 40) := by decide +kernel
example : textOf 16 255 = [102, 102] := by
  have : Nat.digits 16 255 = [15, 15] := by norm_num
  simp [textOf, digitsOr0, this, digitChar]
example : padIntegral { signPlus := true, alternate := true, zeroPad := true, width := some 12 } true [48, 120] [102, 102]
    = [43, 48, 120, 48, 48, 48, 48, 48, 48, 48, 102, 102] := by decide

end NB
