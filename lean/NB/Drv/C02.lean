/- driver handlers for stream C02 (multiplication) -/
import NB.Wire
import NB.Model.Mul
import NB.Model.AsmParams
import NB.Model.ScalarD
namespace NB.Drv.C02
open NB NB.Mul NB.Wire

def P := NB.Gen.P

def su := showExcept showLimbs
def si := showExcept showBigInt

/-- digits of `n` padded with high zeros to `len` digits -/
def padTo (len : Nat) (n : Nat) : List Nat :=
  let d := ofNat n
  d ++ List.replicate (len - d.length) 0

def showSome {α} (f : α → String) : Except Panic α → String
  | .ok r => "some " ++ f r
  | .error p => "panic " ++ p.toString

def handle (op : String) (args : List String) : Option (String × String) :=
  match op, args with
  -- scalar forms: `BigUint *= u64/u128` (`scalar_mul` for one digit: 0 / 1 / power of two / general; `mul3` with
  -- the `[lo, hi]` operand for a two-digit u128, WITHOUT a zero test on the receiver) — the digit-level leaf of C10D
  | "u.mul_u64", [a, sc] => do
    let a ← parseLimbs a; let sc ← parseNat sc
    pure (su (NB.SD.dMulAssign .u64 P a sc), su (.ok (ofNat (val a * sc))))
  | "u.mul_u128", [a, sc] => do
    let a ← parseLimbs a; let sc ← parseNat sc
    pure (su (NB.SD.dMulAssign .u128 P a sc), su (.ok (ofNat (val a * sc))))
  | "u.mul", [a, b] => do
    let a ← parseLimbs a; let b ← parseLimbs b
    pure (su (mulRef P a b), su (.ok (ofNat (val a * val b))))
  | "u.mul_assign", [a, b] => do
    let a ← parseLimbs a; let b ← parseLimbs b
    pure (su (mulAssign P a b), su (.ok (ofNat (val a * val b))))
  | "u.checked_mul", [a, b] => do
    let a ← parseLimbs a; let b ← parseLimbs b
    pure (showSome showLimbs (mulRef P a b), "some " ++ showLimbs (ofNat (val a * val b)))
  | "i.mul", [a, b] => do
    let a ← parseBigInt a; let b ← parseBigInt b
    pure (si (bigintMul P a b), si (.ok (BigInt.ofInt (a.val * b.val))))
  | "i.mul_assign", [a, b] => do
    let a ← parseBigInt a; let b ← parseBigInt b
    pure (si (bigintMulAssign P a b), si (.ok (BigInt.ofInt (a.val * b.val))))
  | "i.checked_mul", [a, b] => do
    let a ← parseBigInt a; let b ← parseBigInt b
    pure (showSome showBigInt (bigintMul P a b), "some " ++ showBigInt (BigInt.ofInt (a.val * b.val)))
  -- internal hooks: raw slices
  | "raw.mac3", [acc, b, c] => do
    let acc ← parseLimbs acc; let b ← parseLimbs b; let c ← parseLimbs c
    let tot := val acc + val b * val c
    let n := acc.length
    let o := if tot < B ^ n then su (.ok (padTo n tot)) else "-"
    pure (su (mac3 P (mulFuel b c) acc b c), o)
  | "raw.sub_sign", [a, b] => do
    let a ← parseLimbs a; let b ← parseLimbs b
    let m := match subSign P a b with
      | .ok r => "ok " ++ showSign r.1 ++ showLimbs r.2
      | .error p => "panic " ++ p.toString
    let d : Int := (val a : Int) - (val b : Int)
    pure (m, "ok " ++ showBigInt (BigInt.ofInt d))
  | _, _ => none

end NB.Drv.C02
