//! stream C07: bitwise logic, shifts, bit queries
use crate::wire::*;
use core::ops::{Shl, ShlAssign, Shr, ShrAssign};
use num_bigint::{BigInt, BigUint};

fn ok_n(n: u64) -> String {
    format!("ok {}", n)
}
fn ok_b(b: bool) -> String {
    format!("ok {}", show_bool(b))
}
fn opt_n(n: Option<u64>) -> String {
    match n {
        Some(n) => format!("some {}", n),
        None => "none".to_string(),
    }
}

/// `which`: 0 = `&x << k`, 1 = `&x >> k`, 2 = `x <<= k`, 3 = `x >>= k`
fn sh_u<T: Copy>(x: BigUint, k: T, which: u8) -> BigUint
where
    for<'a> &'a BigUint: Shl<T, Output = BigUint> + Shr<T, Output = BigUint>,
    BigUint: ShlAssign<T> + ShrAssign<T>,
{
    match which {
        0 => &x << k,
        1 => &x >> k,
        2 => {
            let mut y = x;
            y <<= k;
            y
        }
        _ => {
            let mut y = x;
            y >>= k;
            y
        }
    }
}

fn sh_i<T: Copy>(x: BigInt, k: T, which: u8) -> BigInt
where
    for<'a> &'a BigInt: Shl<T, Output = BigInt> + Shr<T, Output = BigInt>,
    BigInt: ShlAssign<T> + ShrAssign<T>,
{
    match which {
        0 => &x << k,
        1 => &x >> k,
        2 => {
            let mut y = x;
            y <<= k;
            y
        }
        _ => {
            let mut y = x;
            y >>= k;
            y
        }
    }
}

/// api-coverage: the BY-VALUE impls `Shl<T> for BigUint` / `Shr<T> for BigUint` (`Cow::Owned`) and
/// `Shl<T> for BigInt` / `Shr<T> for BigInt` (own bodies in `impl_shift!`, `Shr` with its own copy of the
/// round-down adjustment).  `which`: 0 = `x << k`, 1 = `x >> k`
fn shv_u<T: Copy>(x: BigUint, k: T, which: u8) -> BigUint
where
    BigUint: Shl<T, Output = BigUint> + Shr<T, Output = BigUint>,
{
    match which {
        0 => x << k,
        _ => x >> k,
    }
}

fn shv_i<T: Copy>(x: BigInt, k: T, which: u8) -> BigInt
where
    BigInt: Shl<T, Output = BigInt> + Shr<T, Output = BigInt>,
{
    match which {
        0 => x << k,
        _ => x >> k,
    }
}

/// the shift amount is `<type>:<decimal>` and is parsed into exactly that primitive type
macro_rules! shift_dispatch {
    ($x:expr, $k:expr, $which:expr, $f:ident) => {{
        let (ty, v) = $k.split_once(':')?;
        match ty {
            "u8" => $f($x, v.parse::<u8>().ok()?, $which),
            "u16" => $f($x, v.parse::<u16>().ok()?, $which),
            "u32" => $f($x, v.parse::<u32>().ok()?, $which),
            "u64" => $f($x, v.parse::<u64>().ok()?, $which),
            "u128" => $f($x, v.parse::<u128>().ok()?, $which),
            "usize" => $f($x, v.parse::<usize>().ok()?, $which),
            "i8" => $f($x, v.parse::<i8>().ok()?, $which),
            "i16" => $f($x, v.parse::<i16>().ok()?, $which),
            "i32" => $f($x, v.parse::<i32>().ok()?, $which),
            "i64" => $f($x, v.parse::<i64>().ok()?, $which),
            "i128" => $f($x, v.parse::<i128>().ok()?, $which),
            "isize" => $f($x, v.parse::<isize>().ok()?, $which),
            _ => return None,
        }
    }};
}

fn parse_bool(s: &str) -> Option<bool> {
    match s {
        "1" => Some(true),
        "0" => Some(false),
        _ => None,
    }
}

pub fn handle(op: &str, a: &[&str]) -> Option<String> {
    Some(match (op, a) {
        ("u.and", [x, y]) => ok_u(&(&parse_u(x)? & &parse_u(y)?)),
        ("u.or", [x, y]) => ok_u(&(&parse_u(x)? | &parse_u(y)?)),
        ("u.xor", [x, y]) => ok_u(&(&parse_u(x)? ^ &parse_u(y)?)),
        ("u.and_assign", [x, y]) => {
            let mut v = parse_u(x)?;
            v &= &parse_u(y)?;
            ok_u(&v)
        }
        ("u.or_assign", [x, y]) => {
            let mut v = parse_u(x)?;
            v |= &parse_u(y)?;
            ok_u(&v)
        }
        ("u.xor_assign", [x, y]) => {
            let mut v = parse_u(x)?;
            v ^= &parse_u(y)?;
            ok_u(&v)
        }
        ("i.and", [x, y]) => ok_i(&(&parse_i(x)? & &parse_i(y)?)),
        ("i.or", [x, y]) => ok_i(&(&parse_i(x)? | &parse_i(y)?)),
        ("i.xor", [x, y]) => ok_i(&(&parse_i(x)? ^ &parse_i(y)?)),
        ("i.and_assign", [x, y]) => {
            let mut v = parse_i(x)?;
            v &= &parse_i(y)?;
            ok_i(&v)
        }
        ("i.or_assign", [x, y]) => {
            let mut v = parse_i(x)?;
            v |= &parse_i(y)?;
            ok_i(&v)
        }
        ("i.xor_assign", [x, y]) => {
            let mut v = parse_i(x)?;
            v ^= &parse_i(y)?;
            ok_i(&v)
        }
        ("i.not", [x]) => ok_i(&!&parse_i(x)?),
        ("i.not_val", [x]) => ok_i(&!parse_i(x)?),
        ("u.shl", [x, k]) => {
            let v = parse_u(x)?;
            ok_u(&shift_dispatch!(v, k, 0, sh_u))
        }
        ("u.shr", [x, k]) => {
            let v = parse_u(x)?;
            ok_u(&shift_dispatch!(v, k, 1, sh_u))
        }
        ("u.shl_assign", [x, k]) => {
            let v = parse_u(x)?;
            ok_u(&shift_dispatch!(v, k, 2, sh_u))
        }
        ("u.shr_assign", [x, k]) => {
            let v = parse_u(x)?;
            ok_u(&shift_dispatch!(v, k, 3, sh_u))
        }
        ("i.shl", [x, k]) => {
            let v = parse_i(x)?;
            ok_i(&shift_dispatch!(v, k, 0, sh_i))
        }
        ("i.shr", [x, k]) => {
            let v = parse_i(x)?;
            ok_i(&shift_dispatch!(v, k, 1, sh_i))
        }
        ("i.shl_assign", [x, k]) => {
            let v = parse_i(x)?;
            ok_i(&shift_dispatch!(v, k, 2, sh_i))
        }
        ("i.shr_assign", [x, k]) => {
            let v = parse_i(x)?;
            ok_i(&shift_dispatch!(v, k, 3, sh_i))
        }
        ("u.shl_val", [x, k]) => {
            let v = parse_u(x)?;
            ok_u(&shift_dispatch!(v, k, 0, shv_u))
        }
        ("u.shr_val", [x, k]) => {
            let v = parse_u(x)?;
            ok_u(&shift_dispatch!(v, k, 1, shv_u))
        }
        ("i.shl_val", [x, k]) => {
            let v = parse_i(x)?;
            ok_i(&shift_dispatch!(v, k, 0, shv_i))
        }
        ("i.shr_val", [x, k]) => {
            let v = parse_i(x)?;
            ok_i(&shift_dispatch!(v, k, 1, shv_i))
        }
        ("u.bit", [x, k]) => ok_b(parse_u(x)?.bit(k.parse().ok()?)),
        ("i.bit", [x, k]) => ok_b(parse_i(x)?.bit(k.parse().ok()?)),
        ("u.set_bit", [x, k, v]) => {
            let mut n = parse_u(x)?;
            n.set_bit(k.parse().ok()?, parse_bool(v)?);
            ok_u(&n)
        }
        ("i.set_bit", [x, k, v]) => {
            let mut n = parse_i(x)?;
            n.set_bit(k.parse().ok()?, parse_bool(v)?);
            ok_i(&n)
        }
        ("u.bits", [x]) => ok_n(parse_u(x)?.bits()),
        ("i.bits", [x]) => ok_n(parse_i(x)?.bits()),
        ("u.trailing_zeros", [x]) => opt_n(parse_u(x)?.trailing_zeros()),
        ("i.trailing_zeros", [x]) => opt_n(parse_i(x)?.trailing_zeros()),
        ("u.trailing_ones", [x]) => ok_n(parse_u(x)?.trailing_ones()),
        ("u.count_ones", [x]) => ok_n(parse_u(x)?.count_ones()),
        // bit queries on HUGE operands given run-length encoded (`digit*count,digit*count,…`, least significant
        // first): counters kept in a type narrower than u64 only fail beyond 2^32 bits
        ("u.huge", [q, segs]) => {
            let v = parse_rl(segs)?;
            match *q {
                "count_ones" => ok_n(v.count_ones()),
                "bits" => ok_n(v.bits()),
                "trailing_zeros" => opt_n(v.trailing_zeros()),
                "trailing_ones" => ok_n(v.trailing_ones()),
                _ => {
                    let k: u64 = q.strip_prefix("bit:")?.parse().ok()?;
                    ok_b(v.bit(k))
                }
            }
        }
        ("i.huge", [q, sg, segs]) => {
            let m = parse_rl(segs)?;
            let sign = match *sg {
                "-" => num_bigint::Sign::Minus,
                "+" => num_bigint::Sign::Plus,
                _ => return None,
            };
            let v = BigInt::from_biguint(sign, m);
            match *q {
                "bits" => ok_n(v.bits()),
                "trailing_zeros" => opt_n(v.trailing_zeros()),
                _ => return None,
            }
        }
        _ => return None,
    })
}

/// `digit*count,…` (hex digit, decimal count; at most 2^28 digits in total) → the canonical value
fn parse_rl(s: &str) -> Option<BigUint> {
    let mut total: u64 = 0;
    let mut segs = vec![];
    for t in s.split(',') {
        let (d, n) = t.split_once('*')?;
        let d = u64::from_str_radix(d, 16).ok()?;
        let n: u64 = n.parse().ok()?;
        total = total.checked_add(n)?;
        segs.push((d, n));
    }
    if total > 1 << 28 {
        return None;
    }
    let mut w: Vec<u32> = Vec::with_capacity(2 * total as usize);
    for (d, n) in segs {
        for _ in 0..n {
            w.push(d as u32);
            w.push((d >> 32) as u32);
        }
    }
    Some(BigUint::new(w))
}

#[allow(dead_code)]
fn _types(_: BigInt, _: BigUint) {}
