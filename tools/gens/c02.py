"""C02 — multiplication request generator.

Structure first: (shorter length class around every regime threshold) x (longer length shape)
x (digit pattern pair) x (op / sign); random fill second.  Thresholds are read from
build/extract.json (written by tools/extract.py at the start of every check), so the size
classes follow a retuned source.
"""
import json, os
from genlib import *

VERIF = os.path.dirname(os.path.dirname(os.path.dirname(os.path.abspath(__file__))))

# size classes follow the extracted thresholds, but only up to these caps: a "threshold" beyond them
# (e.g. a typo that makes a regime unreachable) must not blow the request sizes up
CAP_SCHOOL, CAP_KARA = 96, 640

def thresholds():
    try:
        v = json.load(open(os.path.join(VERIF, "build", "extract.json")))["values"]
        tS, tK = int(v["tSchool"]), int(v["tKara"])
    except Exception:  # noqa: BLE001
        tS, tK = 32, 256
    tS = max(2, min(tS, CAP_SCHOOL))
    tK = max(tS + 2, min(tK, CAP_KARA))
    return tS, tK

def fval(l):
    """value of a little-endian digit list (linear time)"""
    return int.from_bytes(b"".join(d.to_bytes(8, "little") for d in l), "little")

def flimbs(n):
    """little-endian digit list of n (linear time)"""
    if n == 0:
        return []
    k = (n.bit_length() + 63) // 64
    bs = n.to_bytes(8 * k, "little")
    return [int.from_bytes(bs[8 * i:8 * i + 8], "little") for i in range(k)]

def fwu(n):
    return wl(flimbs(n))

def fwi(n):
    if n == 0:
        return "0."
    return ("+" if n > 0 else "-") + fwu(abs(n))

U_OPS = ["u.mul", "u.mul", "u.mul_assign", "u.checked_mul"]
I_OPS = ["i.mul", "i.mul_assign", "i.checked_mul"]

# ---- digit patterns (raw little-endian digit lists of exactly n digits, top digit non-zero) ----

def pat(rng, n, name):
    if n == 0:
        return []
    if name == "rand":
        l = [rng.randrange(B) for _ in range(n)]
    elif name == "ones":
        l = [MAX] * n
    elif name == "bk":                      # B^(n-1)
        l = [0] * (n - 1) + [1]
    elif name == "bk_top":                  # d * B^(n-1)
        l = [0] * (n - 1) + [rng.randrange(1, B)]
    elif name == "sparse":
        l = [0] * n
        for _ in range(max(1, n // 16)):
            l[rng.randrange(n)] = rng.choice([1, MAX, rng.randrange(1, B)])
    elif name == "magic":                   # few digits from a pool of arithmetic "magic" values, top digit set
        # (multiples / inverses of 3 and 5, halves, all-ones, single bits): with sparse operands each interpolation
        # coefficient of Karatsuba / Toom-3 is (a product of) isolated digits, so an exact-division or carry trick that
        # is wrong for one digit VALUE is hit directly (C02-y1: division by 3 via the modular inverse, borrow threshold
        # off by one for the quotient digit 0xAAAA…AAAB)
        pool = [1, 2, 3, 5, MAX, MAX - 1, MAX - 2, 1 << 63, (1 << 63) - 1, (1 << 63) + 1, 0x5555555555555555, 0x5555555555555556,
                0xAAAAAAAAAAAAAAAA, 0xAAAAAAAAAAAAAAAB, 0xAAAAAAAAAAAAAAAC, 0x3333333333333333, 0xCCCCCCCCCCCCCCCD, MAX // 3, MAX // 3 * 2 + 1,
                MAX // 5, 1 << 32, (1 << 32) - 1]
        l = [0] * n
        for _ in range(rng.choice([1, 2, 3])):
            l[rng.randrange(n)] = rng.choice(pool)
        l[0] = l[0] or rng.choice([0, 1, 1, rng.choice(pool)])
        l[-1] = rng.choice([1, 1, rng.choice(pool)])
    elif name == "lowzero":                 # trailing (least significant) zero digits
        z = rng.randrange(1, n) if n > 1 else 0
        l = [0] * z + [rng.randrange(B) for _ in range(n - z)]
    elif name == "midzero":                 # interior zero digits / zero blocks
        l = [rng.randrange(B) for _ in range(n)]
        for _ in range(1 + n // 24):
            s = rng.randrange(n); e = min(n, s + rng.randrange(1, max(2, n // 3)))
            for i in range(s, e):
                l[i] = 0
        l[0] = l[0] or 1
    elif name == "hi_small":                # high half < low half at every binary split level (x1 < x0)
        l = sorted((rng.randrange(B) for _ in range(n)), reverse=True)
    elif name == "hi_big":                  # x1 > x0
        l = sorted(rng.randrange(B) for _ in range(n))
    elif name == "eqhalves":                # x1 == x0 (even n) -> NoSign middle term
        h = [rng.randrange(1, B) for _ in range((n + 1) // 2)]
        l = (h + h)[:n]
    elif name == "thirds_alt":              # Toom-3: x1 dominates x0 + x2 -> negative evaluation at -1
        l = [0] * n
        t = n // 3 + 1
        for i in range(n):
            l[i] = MAX if t <= i < 2 * t else rng.randrange(0, 1 << 8)
    elif name == "thirds_neg2":             # Toom-3: negative evaluation at -2 for one side only
        l = [0] * n
        t = n // 3 + 1
        for i in range(n):
            l[i] = rng.randrange(B) if t <= i < 2 * t else (1 if i == 0 else 0)
    elif name == "lo1_hiones":              # low half = 1, high half all ones: x1 - x0 maximal (positive cross term,
        h = n // 2                          # and the difference itself is all-ones-ish one level down)
        l = ([1] + [0] * (h - 1) if h else []) + [MAX] * (n - h)
    elif name == "hi1_loones":              # the mirror image: x0 all ones, x1 = 1 (negative cross term)
        h = n // 2
        l = [MAX] * h + [0] * (n - h - 1) + [1]
    elif name == "onebit":                  # one set bit per digit
        l = [1 << rng.randrange(64) for _ in range(n)]
    elif name == "maxm1":
        l = [MAX - 1] + [MAX] * (n - 1)
    elif name == "small":
        l = [rng.randrange(1, 4) for _ in range(n)]
    elif name == "pow2":                    # single-digit operands: power of two fast path
        l = [0] * (n - 1) + [1 << rng.randrange(64)]
    else:
        l = digits(rng, n, name)
    if l[-1] == 0:
        l[-1] = rng.randrange(1, B)
    return l

PAIRS = [("rand", "rand"), ("ones", "ones"), ("bk", "rand"), ("rand", "bk_top"), ("sparse", "sparse"),
         ("lowzero", "midzero"), ("midzero", "lowzero"), ("hi_small", "hi_big"), ("hi_big", "hi_big"),
         ("hi_small", "hi_small"), ("eqhalves", "rand"), ("eqhalves", "eqhalves"), ("thirds_alt", "rand"),
         ("thirds_alt", "thirds_alt"), ("thirds_neg2", "ones"), ("maxm1", "ones"), ("small", "small"),
         ("lowzero", "lowzero"), ("ones", "bk"), ("mixed", "runs"), ("half", "rand"),
         ("lo1_hiones", "lo1_hiones"), ("lo1_hiones", "hi1_loones"), ("hi1_loones", "hi1_loones"), ("onebit", "onebit"),
         ("onebit", "lo1_hiones"), ("magic", "magic"), ("magic", "magic"), ("magic", "bk"), ("magic", "ones")]
# pairs that are never sampled away once the recursive regimes are entered (nested cross terms with extreme carries)
ALWAYS = [("lo1_hiones", "lo1_hiones"), ("lo1_hiones", "hi1_loones"), ("onebit", "onebit"), ("hi1_loones", "onebit"),
          ("magic", "magic"), ("magic", "magic"), ("magic", "magic")]

def short_lengths(tS, tK, tier, rng):
    s = [1, 2, 3]
    for t in (tS, tK):
        s += [max(1, t - 1), t, t + 1]
    s += [2 * tS + 1, 2 * tS + 2, 3 * tS]
    if tier == "thorough":
        s += [tK + 2, tK + tK // 2, 2 * tK + 1, 3 * tK + 2, 3 * tK + 3, 3 * tK + 4]
        s += [rng.randrange(4, tS), rng.randrange(tS + 2, tK), rng.randrange(tK + 2, 2 * tK)]
    out = []
    for x in s:
        if x not in out:
            out.append(x)
    return out

def long_lengths(n, tS, tK, tier):
    cap64 = (tK + 1) if tier == "thorough" else (tS + 1)
    ls = [n, n + 1, 2 * n - 1, 2 * n, 2 * n + 1, 3 * n]
    if n <= cap64:
        ls.append(64 * n)
    # every residue mod 2 and mod 3 of the longer operand in the balanced regimes
    ls += [n + 2, n + 3, n + 4, n + 5]
    out = []
    for x in ls:
        if x >= 1 and x not in out:
            out.append(x)
    return out

def emit(reqs, rng, a, b):
    """a, b: canonical digit lists"""
    if rng.randrange(2):
        a, b = b, a
    if rng.randrange(3):
        reqs.append("C02 %s %s %s" % (rng.choice(U_OPS), wl(a), wl(b)))
    else:
        sa = "+-"[rng.randrange(2)] if a else "0"
        sb = "+-"[rng.randrange(2)] if b else "0"
        reqs.append("C02 %s %s%s %s%s" % (rng.choice(I_OPS), sa, wl(a), sb, wl(b)))

def gen(rng, tier):
    tS, tK = thresholds()
    reqs = []
    # --- trivial shapes: zero, one, single digits, powers of two, every sign pair
    singles = [0, 1, 2, 3, MAX, MAX - 1, 1 << 63, 1 << 32, (1 << 63) + 1, 6, 1 << 1, rng.randrange(1, B)]
    for a in singles:
        for b in singles + [val(pat(rng, 2, "rand")), val(pat(rng, 5, "ones")), val(pat(rng, tS + 1, "rand"))]:
            reqs.append("C02 %s %s %s" % (rng.choice(U_OPS), wu(a), wu(b)))
            reqs.append("C02 %s %s %s" % (rng.choice(U_OPS), wu(b), wu(a)))
    for sa in (-1, 0, 1):
        for sb in (-1, 0, 1):
            for (la, lb) in ((1, 1), (1, 3), (3, 1), (2, 2), (tS + 1, tS + 2)):
                a = sa * val(pat(rng, la, "rand")); b = sb * val(pat(rng, lb, "rand"))
                for op in I_OPS:
                    reqs.append("C02 %s %s %s" % (op, wi(a), wi(b)))
    # --- scalar forms (`* u32/u64/u128`, `*=`, scalar on either side): one-digit fast paths (0, 1, powers of two,
    #     general) and the two-digit u128 path through mul3, on zero / one-digit / long receivers
    for (sfx, bits) in (("u64", 64), ("u128", 128)):
        top = (1 << bits) - 1
        scs = [0, 1, 2, 3, 1 << 31, 1 << 32, 1 << 63, MAX, top, top - 1, 1 << (bits - 1), rng.randrange(top + 1), rng.randrange(1, B)]
        if bits == 128:
            scs += [B, B + 1, 3 * B, B * (B - 1), (1 << 100), (1 << 127) + 1, rng.randrange(B, top)]
        for sc in scs:
            for a in (0, 1, 2, MAX, B, B - 1, B * B - 1, big(rng, 2), big(rng, 3), big(rng, 9), val([MAX] * 4), big(rng, tS + 2)):
                reqs.append("C02 u.mul_%s %s %d" % (sfx, wu(a), sc))
    # --- regime x shape x pattern
    rounds = 3 if tier == "thorough" else 1
    for _ in range(rounds):
        for n in short_lengths(tS, tK, tier, rng):
            for m in long_lengths(n, tS, tK, tier):
                big_case = n * m > 40000
                if n <= 3:
                    pairs = PAIRS
                elif big_case:
                    pairs = rng.sample(PAIRS, 5 if tier == "thorough" else 2) + [("rand", "rand")]
                else:
                    pairs = rng.sample(PAIRS, 10 if tier == "thorough" else 5) + [("rand", "rand"), ("ones", "ones")]
                if n > tS and not big_case:
                    pairs = pairs + ALWAYS
                for (pa, pb) in pairs:
                    emit(reqs, rng, pat(rng, n, pa), pat(rng, m, pb))
                if n == m:
                    a = pat(rng, n, rng.choice(["rand", "ones", "hi_small", "thirds_alt", "midzero"]))
                    reqs.append("C02 %s %s %s" % (rng.choice(U_OPS), wl(a), wl(a)))       # squares
                    reqs.append("C02 i.mul -%s +%s" % (wl(a), wl(a)))
    # every length just inside the recursive regimes (both parities matter for the split sizes): extreme-halves
    # operands against themselves and a slightly longer partner
    hi_len = min(2 * tK, 4 * tS + 12) if tier == "quick" else 2 * tK + 8
    for n in range(tS + 1, hi_len + 1):
        if tier == "quick" and n > 3 * tS and n % 3:
            continue
        for pa in ("lo1_hiones", "onebit"):
            a = pat(rng, n, pa)
            reqs.append("C02 u.mul %s %s" % (wl(a), wl(a)))
            reqs.append("C02 u.mul %s %s" % (wl(a), wl(pat(rng, n + rng.randrange(0, 4), pa))))
    # sparse "magic digit" operands in every regime: a unit-sparse operand (digits 1 at a few places) times an operand with a
    # few magic digits makes the interpolation coefficients (products of) isolated digit values, so an exact-division,
    # halving or carry trick that is wrong for ONE digit value is hit on purpose (C02-y1).  Cheap: the operands are sparse.
    magic = [MAX, MAX - 1, 1 << 63, (1 << 63) + 1, 0x5555555555555555, 0x5555555555555556, 0xAAAAAAAAAAAAAAAA, 0xAAAAAAAAAAAAAAAB,
             0xAAAAAAAAAAAAAAAC, MAX // 3, 2 * (MAX // 3) + 1, 0x3333333333333333, 0xCCCCCCCCCCCCCCCD, 3, 5, 1 << 32]
    regimes = [(tS + 2, tS + 5), (2 * tS + 3, 2 * tS + 3), (tK - 3, tK), (tK + 1, tK + 1), (tK + 44, tK + 44), (tK + 44, tK + 90), (tK + 20, 2 * tK + 30)]
    for (n, m) in regimes:
        for mg in (magic if tier == "thorough" else rng.sample(magic, 6) + [0xAAAAAAAAAAAAAAAB, 0x5555555555555556]):
            x = [0] * n
            x[0] = 1; x[-1] = 1
            if rng.randrange(2):
                x[rng.randrange(n)] = 1
            y = [0] * m
            y[0] = rng.choice([1, 1, mg]); y[-1] = 1
            y[rng.randrange(1, m - 1)] = mg
            if rng.randrange(3) == 0:
                y[rng.randrange(1, m - 1)] = rng.choice(magic)
            emit(reqs, rng, x, y)
    # Toom-3 with nested Karatsuba / Toom-3 (shorter operand well above tKara)
    deep = [(3 * tK + 1, 3 * tK + 1), (3 * tK + 5, 4 * tK), (tK + 1, 2 * tK + 1)]
    if tier == "thorough":
        deep += [(9 * tK + 4, 9 * tK + 5), (4 * tK, 7 * tK + 1), (5 * tK + 2, 5 * tK + 2)]
    for (n, m) in deep:
        for (pa, pb) in [("rand", "rand"), ("ones", "ones"), ("thirds_alt", "thirds_alt"), ("thirds_neg2", "hi_small"),
                         ("midzero", "lowzero")]:
            emit(reqs, rng, pat(rng, n, pa), pat(rng, m, pb))
    # --- internal mac3 on raw slices: non-zero and exactly sized accumulators
    mac_sizes = [(0, 0), (0, 3), (1, 1), (1, 4), (2, 3), (tS, tS), (tS + 1, tS + 1), (tS + 1, 2 * tS + 2), (tS + 2, 2 * tS + 3),
                 (tS + 1, 3 * tS), (2 * tS + 1, 2 * tS + 2), (tK, tK + 1), (tK + 1, tK + 1), (tK + 1, tK + 3), (tK + 2, 2 * tK + 1)]
    if tier == "thorough":
        mac_sizes += [(tK + 1, 2 * tK + 2), (2 * tK + 1, 3 * tK), (3 * tK + 2, 3 * tK + 4), (tS + 1, 10 * tS), (5, 40)]
    RAWP = ["rand", "ones", "lowzero", "midzero", "sparse", "hi_small", "hi_big", "eqhalves", "thirds_alt"]
    for (lb, lc) in mac_sizes:
        for k in range(4 if lb * lc < 20000 or tier == "thorough" else 2):
            b = pat(rng, lb, rng.choice(RAWP)); c = pat(rng, lc, rng.choice(RAWP))
            # raw slices need not be normalised: add high zeros / make an operand all zero now and then
            if k == 1 and lb:
                b = b + [0] * rng.randrange(1, 3)
            if k == 2 and lc:
                c = [0] * rng.randrange(1, 3) + c
            if k == 3 and lb and rng.randrange(3) == 0:
                b = [0] * len(b)
            prod = fval(b) * fval(c)
            for extra in (0, rng.randrange(1, 4)):
                n = len(b) + len(c) + 1 + extra
                room = B ** (n - 1) - prod
                assert room > 0
                for accv in (0, room - 1, rng.randrange(room), fval([MAX] * (n - 2)) if n >= 2 else 0):
                    if accv >= room:
                        continue
                    acc = flimbs(accv)
                    acc = acc + [0] * (n - len(acc))
                    if rng.randrange(2):
                        reqs.append("C02 raw.mac3 %s %s %s" % (wl(acc), wl(b), wl(c)))
                    else:
                        reqs.append("C02 raw.mac3 %s %s %s" % (wl(acc), wl(c), wl(b)))
    # --- internal sub_sign on raw slices
    for la in [0, 1, 2, 3, 5, tS // 2, tS, tK // 2 + 1]:
        for lb in {la, max(0, la - 1), la + 1, la + 3}:
            a = pat(rng, la, rng.choice(["rand", "ones", "sparse", "lowzero"]))
            b = pat(rng, lb, rng.choice(["rand", "ones", "sparse", "lowzero"]))
            z1 = [0] * rng.randrange(0, 3); z2 = [0] * rng.randrange(0, 3)
            reqs.append("C02 raw.sub_sign %s %s" % (wl(a + z1), wl(b + z2)))
            reqs.append("C02 raw.sub_sign %s %s" % (wl(a + z1), wl(a + z2)))
            if a:
                a2 = list(a); a2[0] ^= 1
                reqs.append("C02 raw.sub_sign %s %s" % (wl(a2 + z1), wl(a + z2)))
                a3 = list(a); a3[-1] = max(0, a3[-1] - 1)
                reqs.append("C02 raw.sub_sign %s %s" % (wl(a3 + z1), wl(a + z2)))
            reqs.append("C02 raw.sub_sign %s %s" % (wl([0] * la), wl(b + z2)))
    # api-coverage block: trait `CheckedMul for BigInt` (op `i.checked_mul_t`): every sign pair on zero / one-digit /
    # power-of-two operands and one operand pair per regime (schoolbook, half-Karatsuba, Karatsuba, Toom-3)
    for sa in (-1, 0, 1):
        for sb in (-1, 0, 1):
            for (la, lb) in ((1, 1), (1, 4), (2, 2), (tS + 1, tS + 2)):
                a = sa * val(pat(rng, la, "rand")); b = sb * val(pat(rng, lb, rng.choice(["rand", "pow2", "ones"])))
                reqs.append("C02 i.checked_mul_t %s %s" % (wi(a), wi(b)))
    shapes = [(3, 70), (tS, tS), (tS + 1, tS + 1), (tS + 1, 2 * tS + 3), (2 * tS + 1, 2 * tS + 2), (tK + 1, tK + 2)]
    if tier == "thorough":
        shapes += [(tK + 1, 2 * tK + 2), (3 * tK + 1, 3 * tK + 2)]
    for (n, m) in shapes:
        for (pa, pb) in (("rand", "rand"), ("ones", "ones"), ("hi_small", "hi_big"), ("thirds_alt", "lowzero")):
            a, b = pat(rng, n, pa), pat(rng, m, pb)
            if rng.randrange(2):
                a, b = b, a
            reqs.append("C02 i.checked_mul_t %s%s %s%s" % ("+-"[rng.randrange(2)], wl(a), "+-"[rng.randrange(2)], wl(b)))
    reqs += scalar_requests(rng, tier, tS)
    return reqs


SC_BITS = {"u8": 8, "u16": 16, "u32": 32, "u64": 64, "u128": 128, "usize": 64,
           "i8": 8, "i16": 16, "i32": 32, "i64": 64, "i128": 128, "isize": 64}

def scalar_requests(rng, tier, tS):
    """api-coverage block: scalar multiplication forms (ops `u./i. mul_s s_mul mul_assign_s`).  Scalars: 0, 1, powers of
    two (the shift fast path of `scalar_mul`), MAX / MIN, one- and two-digit values (u128/i128: `mul3` with a 2-digit
    operand, low digit zero, high digit with top bit set); big operand: zero, one digit, all-ones (carry out of every
    digit), low zero digits, lengths on both sides of the schoolbook threshold; all sign pairs for BigInt."""
    out = []
    k = 0
    thorough = tier == "thorough"
    for t, bits in SC_BITS.items():
        sg = t.startswith("i")
        mx = (1 << (bits - 1)) - 1 if sg else (1 << bits) - 1
        mn = -(1 << (bits - 1)) if sg else 0
        scal = [0, 1, 2, mx, mx - 1, 1 << (bits // 2), 1 << (bits - 2), 3, rng.randrange(1, mx + 1)]
        if bits >= 64:
            scal += [(1 << 32) - 1, 1 << 32, (1 << 63) - 1, 1 << 62]
        if bits == 128:
            scal += [MAX, B, B + 1, 1 << 126, (1 << 126) + 1, (MAX << 64) & mx, (1 << 96) + 5, rng.randrange(B, mx + 1)]
        if sg:
            scal += [mn, mn + 1, -1, -2, -(1 << (bits // 2)), -rng.randrange(1, mx + 1)]
        if thorough:
            scal += [rng.randrange(mn, mx + 1) for _ in range(12)]
        scal = [s for s in dict.fromkeys(scal) if mn <= s <= mx]
        for s in scal:
            bigs = [0, 1, rng.randrange(1, B), MAX, val([MAX] * 3), val([0, 0, 1]), val(pat(rng, 2, "rand")),
                    val(pat(rng, 5, "lowzero")), val(pat(rng, tS, "ones")), val(pat(rng, tS + 1, "rand")), val(pat(rng, 40, "rand"))]
            if thorough:
                bigs += [val(pat(rng, 2 * tS + 3, "hi_small")), val(pat(rng, 70, "sparse"))]
            for i, m in enumerate(bigs):
                tok = "%s:%d" % (t, s)
                k += 1
                op = ["mul_s", "s_mul", "mul_assign_s"][k % 3]
                if not sg:
                    if op == "s_mul":
                        out.append("C02 u.%s %s %s" % (op, tok, wu(m)))
                    else:
                        out.append("C02 u.%s %s %s" % (op, wu(m), tok))
                sm = -m if (k // 3) % 2 else m
                op = ["mul_s", "s_mul", "mul_assign_s"][(k + 1 + k // 6) % 3]
                if op == "s_mul":
                    out.append("C02 i.%s %s %s" % (op, tok, wi(sm)))
                else:
                    out.append("C02 i.%s %s %s" % (op, wi(sm), tok))
    return out
