/-
  C08 — Primitive integer and float conversions are exact or correctly rounded.

  Every theorem is about the executable model NB.Conv (NB/Model/Convert.lean, NB/Model/Float.lean),
  written from src/biguint/convert.rs, src/bigint/convert.rs, src/lib.rs and the num-traits 0.2.19
  defaults, and correspondence-checked against the real crate on every run.  `= .ok …` in a
  conclusion also says that none of the modelled overflow / underflow sites can fire.

  Integers (all twelve primitive types `PTy`, both big types, no hypotheses beyond canonicity):
    biguint_to_spec, bigint_to_spec        x.to_T() = Some(v) iff T::MIN ≤ v ≤ T::MAX, else None (MIN edges incl.)
    biguint_try_into_spec, bigint_try_into_spec, biguint_try_from_bigint_spec
                                           TryFrom: Ok(v) iff it fits, otherwise Err carrying exactly the original
    biguint_from_val, biguint_fromPrim_val, bigint_from_val, bigint_fromPrim_val, from_bool_val
                                           From / FromPrimitive / TryFrom<iN> / ToBigUint / ToBigInt: canonical value,
                                           negative into BigUint fails
    bigint_from_biguint_val, bigint_to_biguint_spec
    primTo_spec (Lemmas)                   all 144 instances of num-traits' int→int range macros
  Floats (formats `f` with `f.Valid`: 2 ≤ p, p + 2 ≤ 64, 8 ≤ ebits; `f32_valid`, `f64_valid`):
    high_bits_spec                         m = ⌊v / 2^s⌋ ||| [v mod 2^s ≠ 0], s = bits − 64 (≥ 2 digits)
    round_to_odd_rne (Lemmas)              double rounding: rne_p(m·2^s) = rne_p(v) when p + 2 ≤ 64
    to_float_spec, to_f64_spec, to_f32_spec, bigint_to_float_spec
                                           bit pattern = IEEE encoding of rne_p(v); ±∞ iff rne_p(v) ≥ 2^MAX_EXP
    rneNat_repr, rneNat_nearest, rneNat_tie_even, encode_denotes, to_from_f64_roundtrip
                                           the spec functions mean what their names say
    fromF64_spec, bigint_from_f64_spec, fromF32_spec, bigint_from_f32_spec
                                           None for NaN/±∞ (and values ≤ −1 into BigUint), else trunc toward zero;
                                           −0.0 and (−1, 0) give 0
    drv_oracle_to_float, drv_oracle_from_float, drv_oracle_high_bits, drv_oracle_range
                                           the independently written oracles of the driver equal these specs
  Layer link (NB/Model/FloatD.lean: the float conversions with the BigUint operators `<<=`, `>>=`, `bits()`
  and `fls` as the DIGIT-level models of C07 — `biguintShl`, `biguintShr`, `bitsU`, `lzDigit` — panics propagated):
    high_bitsD_refines, to_floatD_refines, bigint_to_floatD_refines, from_decodedD_refines,
    fromF64D_refines, fromF32D_refines, bigint_from_f64D_refines, bigint_from_f32D_refines
                                           digit level = NB.Model.Float level (every bit pattern / canonical operand)
    to_floatD_spec, to_f64D_spec, to_f32D_spec, bigint_to_floatD_spec,
    fromF64D_spec, fromF32D_spec, bigint_from_f64D_spec, bigint_from_f32D_spec
                                           the specs above, transferred; no shift panic is reachable
    The driver (NB.Drv.C08) computes the model column of u/i.to_f32/f64, u/i.from_f32/f64 and u.high_bits with them.
  All are full strength; nothing is `_partial`.  Modelled-not-verified hardware behaviour is listed in
  the header of NB/Model/Float.lean (u64→float cast is RNE, powi(2,e) exact, ·2^e exact or ∞, trunc,
  integer_decode, f32→f64 widening).
-/
import NB.Lemmas.Convert
import NB.Lemmas.Float
import NB.Lemmas.FloatD
import NB.Drv.C08
namespace NB
open NB.Conv NB.Drv.C08

/-! ## big → primitive integer -/

theorem natOpt_fit_u64 (v : Nat) :
    natOpt (if v < 2 ^ 64 then some v else none) = fitOpt .u64 (v : Int) := by
  have hr : PTy.InRange .u64 (v : Int) ↔ v < 2 ^ 64 := by
    simp [PTy.InRange, PTy.minV, PTy.maxV, PTy.signed, PTy.bits]; omega
  unfold natOpt fitOpt
  by_cases h : v < 2 ^ 64
  · rw [if_pos h, if_pos (hr.mpr h)]; rfl
  · rw [if_neg h, if_neg (fun c => h (hr.mp c))]; rfl

theorem natOpt_fit_u128 (v : Nat) :
    natOpt (if v < 2 ^ 128 then some v else none) = fitOpt .u128 (v : Int) := by
  have hr : PTy.InRange .u128 (v : Int) ↔ v < 2 ^ 128 := by
    simp [PTy.InRange, PTy.minV, PTy.maxV, PTy.signed, PTy.bits]; omega
  unfold natOpt fitOpt
  by_cases h : v < 2 ^ 128
  · rw [if_pos h, if_pos (hr.mpr h)]; rfl
  · rw [if_neg h, if_neg (fun c => h (hr.mp c))]; rfl

/-- a value that fits a type narrower than (or equal to) 64 bits and is non-negative fits `u64` -/
theorem sub_u64 (t : PTy) (v : Int) (hv : 0 ≤ v) (ht : t.bits ≤ 64) :
    t.InRange v → PTy.InRange .u64 v := by
  intro hw
  cases t <;> simp [PTy.InRange, PTy.minV, PTy.maxV, PTy.signed, PTy.bits] at * <;> omega

theorem sub_u128 (t : PTy) (v : Int) (hv : 0 ≤ v) :
    t.InRange v → PTy.InRange .u128 v := by
  intro hw
  cases t <;> simp [PTy.InRange, PTy.minV, PTy.maxV, PTy.signed, PTy.bits] at * <;> omega

theorem sub_i64 (t : PTy) (v : Int) (ht : t.bits ≤ 64) (hs : t.signed = true) :
    t.InRange v → PTy.InRange .i64 v := by
  intro hw
  cases t <;> simp [PTy.InRange, PTy.minV, PTy.maxV, PTy.signed, PTy.bits] at * <;> omega

/-- `BigUint::to_u64` -/
theorem biguint_toU64_fit {x : List Nat} (h : Canon x) :
    (do let r ← U.toU64 x; pure (natOpt r) : Except Panic (Option Int)) = .ok (fitOpt .u64 (val x)) := by
  rw [toU64_spec h, ok_bind, natOpt_fit_u64]; rfl

/-- `BigUint::to_i64` -/
theorem biguint_toI64_fit {x : List Nat} (h : Canon x) :
    U.toI64 x = .ok (fitOpt .i64 (val x)) := by
  unfold U.toI64
  rw [toU64_spec h, ok_bind, natOpt_fit_u64,
    fitOpt_bind .u64 .i64 _ (sub_u64 .i64 _ (by omega) (by decide))]; rfl

/-- `BigUint::to_i128` -/
theorem biguint_toI128_fit {x : List Nat} (h : Canon x) :
    U.toI128 x = .ok (fitOpt .i128 (val x)) := by
  unfold U.toI128
  rw [toU128_spec h, natOpt_fit_u128, fitOpt_bind .u128 .i128 _ (sub_u128 .i128 _ (by omega))]; rfl

/-- **to_T_spec (BigUint)**: for each of the twelve primitive types, `x.to_T()` never panics and is
    `Some(value)` exactly when `T::MIN ≤ value ≤ T::MAX`, `None` otherwise. -/
theorem biguint_to_spec (t : PTy) (x : List Nat) (h : Canon x) :
    U.toPrim t x = .ok (if t.minV ≤ (val x : Int) ∧ (val x : Int) ≤ t.maxV then some (val x : Int) else none) := by
  show U.toPrim t x = .ok (fitOpt t (val x))
  have hv : (0 : Int) ≤ (val x : Int) := by omega
  cases t <;> unfold U.toPrim <;> dsimp only
  case u64 => exact biguint_toU64_fit h
  case u128 => rw [toU128_spec h, natOpt_fit_u128]; rfl
  case i64 => exact biguint_toI64_fit h
  case i128 => exact biguint_toI128_fit h
  case u8 => rw [toU64_spec h, ok_bind, natOpt_fit_u64, fitOpt_bind .u64 .u8 _ (sub_u64 .u8 _ hv (by decide))]; rfl
  case u16 => rw [toU64_spec h, ok_bind, natOpt_fit_u64, fitOpt_bind .u64 .u16 _ (sub_u64 .u16 _ hv (by decide))]; rfl
  case u32 => rw [toU64_spec h, ok_bind, natOpt_fit_u64, fitOpt_bind .u64 .u32 _ (sub_u64 .u32 _ hv (by decide))]; rfl
  case usize => rw [toU64_spec h, ok_bind, natOpt_fit_u64, fitOpt_bind .u64 .usize _ (sub_u64 .usize _ hv (by decide))]; rfl
  case i8 => rw [biguint_toI64_fit h, ok_bind, fitOpt_bind .i64 .i8 _ (sub_i64 .i8 _ (by decide) rfl)]; rfl
  case i16 => rw [biguint_toI64_fit h, ok_bind, fitOpt_bind .i64 .i16 _ (sub_i64 .i16 _ (by decide) rfl)]; rfl
  case i32 => rw [biguint_toI64_fit h, ok_bind, fitOpt_bind .i64 .i32 _ (sub_i64 .i32 _ (by decide) rfl)]; rfl
  case isize => rw [biguint_toI64_fit h, ok_bind, fitOpt_bind .i64 .isize _ (sub_i64 .isize _ (by decide) rfl)]; rfl

/-! ### BigInt → primitive -/

theorem fitOpt_neg_of_unsigned (t : PTy) (hs : t.signed = false) (v : Int) (hv : v < 0) :
    fitOpt t v = none := by
  unfold fitOpt
  have : ¬ t.InRange v := by
    cases t <;> simp [PTy.InRange, PTy.minV, PTy.maxV, PTy.signed, PTy.bits] at * <;> (try omega)
  rw [if_neg this]

/-- the `Minus` arm of `BigInt::to_i64` -/
theorem negArm_i64 (n : Nat) (hn : 0 < n) :
    (if n < 2 ^ 64 then some n else none).bind (negArm .i64) = fitOpt .i64 (-(n : Int)) := by
  have hr : PTy.InRange .i64 (-(n : Int)) ↔ n ≤ 2 ^ 63 := by
    simp [PTy.InRange, PTy.minV, PTy.maxV, PTy.signed, PTy.bits]
  unfold fitOpt
  by_cases h : n < 2 ^ 64
  · rw [if_pos h, Option.bind_some]
    unfold negArm
    dsimp only
    have hb : (2 : Nat) ^ (PTy.bits .i64 - 1) = 2 ^ 63 := rfl
    rw [hb]
    rcases Nat.lt_trichotomy n (2 ^ 63) with c | c | c
    · rw [Nat.compare_eq_lt.mpr c, if_pos (hr.mpr (by omega))]
      have : PTy.InRange .i64 (n : Int) := by
        simp [PTy.InRange, PTy.minV, PTy.maxV, PTy.signed, PTy.bits]; omega
      simp only [asCast_of_inRange _ _ this]
    · rw [Nat.compare_eq_eq.mpr c, if_pos (hr.mpr (by omega))]
      subst c
      simp [PTy.minV, PTy.signed, PTy.bits]
    · rw [Nat.compare_eq_gt.mpr c, if_neg (fun k => by have := hr.mp k; omega)]
  · rw [if_neg h, if_neg (fun k => by have := hr.mp k; omega)]; rfl

/-- the `Minus` arm of `BigInt::to_i128` -/
theorem negArm_i128 (n : Nat) (hn : 0 < n) :
    (if n < 2 ^ 128 then some n else none).bind (negArm .i128) = fitOpt .i128 (-(n : Int)) := by
  have hr : PTy.InRange .i128 (-(n : Int)) ↔ n ≤ 2 ^ 127 := by
    simp [PTy.InRange, PTy.minV, PTy.maxV, PTy.signed, PTy.bits]
  unfold fitOpt
  by_cases h : n < 2 ^ 128
  · rw [if_pos h, Option.bind_some]
    unfold negArm
    dsimp only
    have hb : (2 : Nat) ^ (PTy.bits .i128 - 1) = 2 ^ 127 := rfl
    rw [hb]
    rcases Nat.lt_trichotomy n (2 ^ 127) with c | c | c
    · rw [Nat.compare_eq_lt.mpr c, if_pos (hr.mpr (by omega))]
      have : PTy.InRange .i128 (n : Int) := by
        simp [PTy.InRange, PTy.minV, PTy.maxV, PTy.signed, PTy.bits]; omega
      simp only [asCast_of_inRange _ _ this]
    · rw [Nat.compare_eq_eq.mpr c, if_pos (hr.mpr (by omega))]
      subst c
      simp [PTy.minV, PTy.signed, PTy.bits]
    · rw [Nat.compare_eq_gt.mpr c, if_neg (fun k => by have := hr.mp k; omega)]
  · rw [if_neg h, if_neg (fun k => by have := hr.mp k; omega)]; rfl

theorem fitOpt_zero (t : PTy) : fitOpt t 0 = some 0 := by
  unfold fitOpt
  have : t.InRange 0 := by
    cases t <;> simp [PTy.InRange, PTy.minV, PTy.maxV, PTy.signed, PTy.bits]
  rw [if_pos this]

theorem bigint_toI64_fit {x : BigInt} (h : x.Canon) : I.toI64 x = .ok (fitOpt .i64 x.val) := by
  obtain ⟨s, m⟩ := x
  obtain ⟨hc, hs⟩ := h
  simp only at hc hs
  cases s <;> simp only [I.toI64, BigInt.val]
  · have hne : m ≠ [] := fun e => by simpa using hs.mpr e
    have hpos := canon_val_pos hc hne
    rw [toU64_spec hc, ok_bind, negArm_i64 _ hpos]; rfl
  · exact congrArg _ (fitOpt_zero _).symm
  · exact biguint_toI64_fit hc

theorem bigint_toI128_fit {x : BigInt} (h : x.Canon) : I.toI128 x = .ok (fitOpt .i128 x.val) := by
  obtain ⟨s, m⟩ := x
  obtain ⟨hc, hs⟩ := h
  simp only at hc hs
  cases s <;> simp only [I.toI128, BigInt.val]
  · have hne : m ≠ [] := fun e => by simpa using hs.mpr e
    have hpos := canon_val_pos hc hne
    rw [toU128_spec hc, negArm_i128 _ hpos]; rfl
  · exact congrArg _ (fitOpt_zero _).symm
  · exact biguint_toI128_fit hc

theorem bigint_toU64_fit {x : BigInt} (h : x.Canon) : I.toU64 x = .ok (fitOpt .u64 x.val) := by
  obtain ⟨s, m⟩ := x
  obtain ⟨hc, hs⟩ := h
  simp only at hc hs
  cases s <;> simp only [I.toU64, BigInt.val]
  · have hne : m ≠ [] := fun e => by simpa using hs.mpr e
    have hpos := canon_val_pos hc hne
    rw [fitOpt_neg_of_unsigned .u64 rfl _ (by omega)]; rfl
  · exact congrArg _ (fitOpt_zero _).symm
  · exact biguint_toU64_fit hc

theorem bigint_toU128_fit {x : BigInt} (h : x.Canon) : I.toU128 x = .ok (fitOpt .u128 x.val) := by
  obtain ⟨s, m⟩ := x
  obtain ⟨hc, hs⟩ := h
  simp only at hc hs
  cases s <;> simp only [I.toU128, BigInt.val]
  · have hne : m ≠ [] := fun e => by simpa using hs.mpr e
    have hpos := canon_val_pos hc hne
    rw [fitOpt_neg_of_unsigned .u128 rfl _ (by omega)]; rfl
  · exact congrArg _ (fitOpt_zero _).symm
  · rw [toU128_spec hc, natOpt_fit_u128]; rfl

/-- a value that fits an unsigned type of at most 64 bits fits `u64` -/
theorem sub_u64u (t : PTy) (v : Int) (ht : t.bits ≤ 64) (hs : t.signed = false) :
    t.InRange v → PTy.InRange .u64 v := by
  intro hw
  cases t <;> simp [PTy.InRange, PTy.minV, PTy.maxV, PTy.signed, PTy.bits] at * <;> omega

/-- **to_T_spec (BigInt)**: for each of the twelve primitive types, `x.to_T()` never panics and is
    `Some(value)` exactly when `T::MIN ≤ value ≤ T::MAX` (including the `MIN` edges), else `None`. -/
theorem bigint_to_spec (t : PTy) (x : BigInt) (h : x.Canon) :
    I.toPrim t x = .ok (if t.minV ≤ x.val ∧ x.val ≤ t.maxV then some x.val else none) := by
  show I.toPrim t x = .ok (fitOpt t x.val)
  cases t <;> unfold I.toPrim <;> dsimp only
  case u64 => exact bigint_toU64_fit h
  case u128 => exact bigint_toU128_fit h
  case i64 => exact bigint_toI64_fit h
  case i128 => exact bigint_toI128_fit h
  case u8 => rw [bigint_toU64_fit h, ok_bind, fitOpt_bind .u64 .u8 _ (sub_u64u .u8 _ (by decide) rfl)]; rfl
  case u16 => rw [bigint_toU64_fit h, ok_bind, fitOpt_bind .u64 .u16 _ (sub_u64u .u16 _ (by decide) rfl)]; rfl
  case u32 => rw [bigint_toU64_fit h, ok_bind, fitOpt_bind .u64 .u32 _ (sub_u64u .u32 _ (by decide) rfl)]; rfl
  case usize => rw [bigint_toU64_fit h, ok_bind, fitOpt_bind .u64 .usize _ (sub_u64u .usize _ (by decide) rfl)]; rfl
  case i8 => rw [bigint_toI64_fit h, ok_bind, fitOpt_bind .i64 .i8 _ (sub_i64 .i8 _ (by decide) rfl)]; rfl
  case i16 => rw [bigint_toI64_fit h, ok_bind, fitOpt_bind .i64 .i16 _ (sub_i64 .i16 _ (by decide) rfl)]; rfl
  case i32 => rw [bigint_toI64_fit h, ok_bind, fitOpt_bind .i64 .i32 _ (sub_i64 .i32 _ (by decide) rfl)]; rfl
  case isize => rw [bigint_toI64_fit h, ok_bind, fitOpt_bind .i64 .isize _ (sub_i64 .isize _ (by decide) rfl)]; rfl

/-! ### TryFrom: the error carries the original value -/

/-- `T::try_from(x: BigUint)`: `Ok(value)` iff it fits, otherwise `Err` holding exactly `x` -/
theorem biguint_try_into_spec (t : PTy) (x : List Nat) (h : Canon x) :
    U.tryInto t x = .ok (if t.minV ≤ (val x : Int) ∧ (val x : Int) ≤ t.maxV then .ok (val x : Int) else .err x) := by
  unfold U.tryInto
  rw [biguint_to_spec t x h, ok_bind]
  by_cases c : t.minV ≤ (val x : Int) ∧ (val x : Int) ≤ t.maxV
  · rw [if_pos c, if_pos c]; rfl
  · rw [if_neg c, if_neg c]; rfl

/-- `T::try_from(x: BigInt)`: `Ok(value)` iff it fits, otherwise `Err` holding exactly `x` -/
theorem bigint_try_into_spec (t : PTy) (x : BigInt) (h : x.Canon) :
    I.tryInto t x = .ok (if t.minV ≤ x.val ∧ x.val ≤ t.maxV then .ok x.val else .err x) := by
  unfold I.tryInto
  rw [bigint_to_spec t x h, ok_bind]
  by_cases c : t.minV ≤ x.val ∧ x.val ≤ t.maxV
  · rw [if_pos c, if_pos c]; rfl
  · rw [if_neg c, if_neg c]; rfl

/-! ## primitive integer → big -/

theorem I_fromU64_eq (n : Nat) : I.fromU64 n = BigInt.ofInt (n : Int) := by
  unfold I.fromU64 BigInt.ofInt
  by_cases h : n > 0
  · have h1 : ¬ ((n : Int) < 0) := by omega
    have h2 : ¬ ((n : Int) = 0) := by omega
    rw [if_pos h, if_neg h1, if_neg h2, fromU64_eq_ofNat]; simp
  · have h0 : n = 0 := by omega
    subst h0; simp

theorem I_fromU128_eq (n : Nat) : I.fromU128 n = BigInt.ofInt (n : Int) := by
  unfold I.fromU128 BigInt.ofInt
  by_cases h : n > 0
  · have h1 : ¬ ((n : Int) < 0) := by omega
    have h2 : ¬ ((n : Int) = 0) := by omega
    rw [if_pos h, if_neg h1, if_neg h2, fromU128_eq_ofNat]; simp
  · have h0 : n = 0 := by omega
    subst h0; simp

theorem toNat_cast_of_nonneg {n : Int} (h : 0 ≤ n) : ((n.toNat : Nat) : Int) = n := by omega

theorem negMag_u64 (n : Int) (h : PTy.InRange .i64 n) (hn : n < 0) :
    negMag .u64 n = .ok (-n).toNat := by
  simp [PTy.InRange, PTy.minV, PTy.maxV, PTy.signed, PTy.bits] at h
  unfold negMag
  have e : asCast .u64 n = n + 2 ^ 64 := by
    simp [asCast, PTy.signed, PTy.bits]; omega
  have m : PTy.maxV .u64 = 2 ^ 64 - 1 := by simp [PTy.maxV, PTy.signed, PTy.bits]
  dsimp only
  rw [e, m]
  have h1 : ¬ ((2 : Int) ^ 64 - 1 < n + 2 ^ 64) := by omega
  have h2 : ¬ ((2 : Int) ^ 64 - 1 < 2 ^ 64 - 1 - (n + 2 ^ 64) + 1) := by omega
  rw [if_neg h1, if_neg h2]
  congr 2; omega

theorem negMag_u128 (n : Int) (h : PTy.InRange .i128 n) (hn : n < 0) :
    negMag .u128 n = .ok (-n).toNat := by
  simp [PTy.InRange, PTy.minV, PTy.maxV, PTy.signed, PTy.bits] at h
  unfold negMag
  have e : asCast .u128 n = n + 2 ^ 128 := by
    simp [asCast, PTy.signed, PTy.bits]; omega
  have m : PTy.maxV .u128 = 2 ^ 128 - 1 := by simp [PTy.maxV, PTy.signed, PTy.bits]
  dsimp only
  rw [e, m]
  have h1 : ¬ ((2 : Int) ^ 128 - 1 < n + 2 ^ 128) := by omega
  have h2 : ¬ ((2 : Int) ^ 128 - 1 < 2 ^ 128 - 1 - (n + 2 ^ 128) + 1) := by omega
  rw [if_neg h1, if_neg h2]
  congr 2; omega

theorem ofInt_neg {n : Int} (hn : n < 0) : BigInt.ofInt n = ⟨.minus, ofNat (-n).toNat⟩ := by
  unfold BigInt.ofInt
  rw [if_pos hn]
  congr 2; omega

/-- `impl From<i64> for BigInt`: exact, canonical, neither overflow check can fire (incl. `i64::MIN`) -/
theorem I_fromI64_eq (n : Int) (h : PTy.InRange .i64 n) : I.fromI64 n = .ok (BigInt.ofInt n) := by
  unfold I.fromI64
  by_cases hn : n ≥ 0
  · rw [if_pos hn]
    have hu : PTy.InRange .u64 n := by
      simp [PTy.InRange, PTy.minV, PTy.maxV, PTy.signed, PTy.bits] at *; omega
    rw [asCast_of_inRange _ _ hu, I_fromU64_eq, toNat_cast_of_nonneg hn]
  · rw [if_neg hn, negMag_u64 n h (by omega), ok_bind, fromU64_eq_ofNat, ofInt_neg (by omega)]; rfl

/-- `impl From<i128> for BigInt` (incl. `i128::MIN`) -/
theorem I_fromI128_eq (n : Int) (h : PTy.InRange .i128 n) : I.fromI128 n = .ok (BigInt.ofInt n) := by
  unfold I.fromI128
  by_cases hn : n ≥ 0
  · rw [if_pos hn]
    have hu : PTy.InRange .u128 n := by
      simp [PTy.InRange, PTy.minV, PTy.maxV, PTy.signed, PTy.bits] at *; omega
    rw [asCast_of_inRange _ _ hu, I_fromU128_eq, toNat_cast_of_nonneg hn]
  · rw [if_neg hn, negMag_u128 n h (by omega), ok_bind, fromU128_eq_ofNat, ofInt_neg (by omega)]; rfl

theorem nonneg_of_unsigned (t : PTy) (hs : t.signed = false) (n : Int) (h : t.InRange n) : 0 ≤ n := by
  cases t <;> simp [PTy.InRange, PTy.minV, PTy.maxV, PTy.signed, PTy.bits] at * <;> omega

/-- **from_T_val (BigInt)**: `BigInt::from(n: T)` is the canonical BigInt of `n`, for all twelve types -/
theorem bigint_from_val (t : PTy) (n : Int) (h : t.InRange n) : I.from t n = .ok (BigInt.ofInt n) := by
  cases t <;> unfold I.from <;> dsimp only
  case i64 => exact I_fromI64_eq n h
  case i128 => exact I_fromI128_eq n h
  case u64 => rw [I_fromU64_eq, toNat_cast_of_nonneg (nonneg_of_unsigned _ rfl n h)]
  case u128 => rw [I_fromU128_eq, toNat_cast_of_nonneg (nonneg_of_unsigned _ rfl n h)]
  case i8 => have k := sub_i64 .i8 n (by decide) rfl h; rw [asCast_of_inRange _ _ k]; exact I_fromI64_eq n k
  case i16 => have k := sub_i64 .i16 n (by decide) rfl h; rw [asCast_of_inRange _ _ k]; exact I_fromI64_eq n k
  case i32 => have k := sub_i64 .i32 n (by decide) rfl h; rw [asCast_of_inRange _ _ k]; exact I_fromI64_eq n k
  case isize => have k := sub_i64 .isize n (by decide) rfl h; rw [asCast_of_inRange _ _ k]; exact I_fromI64_eq n k
  case u8 =>
    have k := sub_u64u .u8 n (by decide) rfl h
    rw [asCast_of_inRange _ _ k, I_fromU64_eq, toNat_cast_of_nonneg (nonneg_of_unsigned _ rfl n h)]
  case u16 =>
    have k := sub_u64u .u16 n (by decide) rfl h
    rw [asCast_of_inRange _ _ k, I_fromU64_eq, toNat_cast_of_nonneg (nonneg_of_unsigned _ rfl n h)]
  case u32 =>
    have k := sub_u64u .u32 n (by decide) rfl h
    rw [asCast_of_inRange _ _ k, I_fromU64_eq, toNat_cast_of_nonneg (nonneg_of_unsigned _ rfl n h)]
  case usize =>
    have k := sub_u64u .usize n (by decide) rfl h
    rw [asCast_of_inRange _ _ k, I_fromU64_eq, toNat_cast_of_nonneg (nonneg_of_unsigned _ rfl n h)]

/-- `<BigInt as FromPrimitive>::from_T(n)` is `Some` of the canonical BigInt of `n` -/
theorem bigint_fromPrim_val (t : PTy) (n : Int) (h : t.InRange n) :
    I.fromPrim t n = .ok (some (BigInt.ofInt n)) := by
  cases t <;> unfold I.fromPrim <;> dsimp only
  case i64 => rw [I_fromI64_eq n h]; rfl
  case i128 => rw [I_fromI128_eq n h]; rfl
  case u64 => rw [I_fromU64_eq, toNat_cast_of_nonneg (nonneg_of_unsigned _ rfl n h)]; rfl
  case u128 => rw [I_fromU128_eq, toNat_cast_of_nonneg (nonneg_of_unsigned _ rfl n h)]; rfl
  case i8 => have k := sub_i64 .i8 n (by decide) rfl h; rw [asCast_of_inRange _ _ k, I_fromI64_eq n k]; rfl
  case i16 => have k := sub_i64 .i16 n (by decide) rfl h; rw [asCast_of_inRange _ _ k, I_fromI64_eq n k]; rfl
  case i32 => have k := sub_i64 .i32 n (by decide) rfl h; rw [asCast_of_inRange _ _ k, I_fromI64_eq n k]; rfl
  case isize =>
    have k := sub_i64 .isize n (by decide) rfl h
    rw [primTo_spec _ _ _ h, if_pos k]; dsimp only; rw [I_fromI64_eq n k]; rfl
  case u8 =>
    have k := sub_u64u .u8 n (by decide) rfl h
    rw [asCast_of_inRange _ _ k, I_fromU64_eq, toNat_cast_of_nonneg (nonneg_of_unsigned _ rfl n h)]; rfl
  case u16 =>
    have k := sub_u64u .u16 n (by decide) rfl h
    rw [asCast_of_inRange _ _ k, I_fromU64_eq, toNat_cast_of_nonneg (nonneg_of_unsigned _ rfl n h)]; rfl
  case u32 =>
    have k := sub_u64u .u32 n (by decide) rfl h
    rw [asCast_of_inRange _ _ k, I_fromU64_eq, toNat_cast_of_nonneg (nonneg_of_unsigned _ rfl n h)]; rfl
  case usize =>
    have k := sub_u64u .usize n (by decide) rfl h
    rw [primTo_spec _ _ _ h, if_pos k]; dsimp only
    rw [I_fromU64_eq, toNat_cast_of_nonneg (nonneg_of_unsigned _ rfl n h)]; rfl

/-- **from_T_val (BigUint)**: `BigUint::from(n: T)` (T unsigned) is the canonical digit list of `n` -/
theorem biguint_from_val (t : PTy) (hs : t.signed = false) (n : Int) (h : t.InRange n) :
    U.from t n = some (ofNat n.toNat) := by
  cases t <;> (try exact absurd hs (by decide)) <;> unfold U.from <;> dsimp only
  case u64 => rw [fromU64_eq_ofNat]
  case u128 => rw [fromU128_eq_ofNat]
  case u8 => rw [asCast_of_inRange _ _ (sub_u64u .u8 n (by decide) rfl h), fromU64_eq_ofNat]
  case u16 => rw [asCast_of_inRange _ _ (sub_u64u .u16 n (by decide) rfl h), fromU64_eq_ofNat]
  case u32 => rw [asCast_of_inRange _ _ (sub_u64u .u32 n (by decide) rfl h), fromU64_eq_ofNat]
  case usize => rw [asCast_of_inRange _ _ (sub_u64u .usize n (by decide) rfl h), fromU64_eq_ofNat]

theorem U_fromI64_eq (n : Int) (h : PTy.InRange .i64 n) :
    U.fromI64 n = if n < 0 then none else some (ofNat n.toNat) := by
  unfold U.fromI64
  by_cases hn : n ≥ 0
  · have hu : PTy.InRange .u64 n := by
      simp [PTy.InRange, PTy.minV, PTy.maxV, PTy.signed, PTy.bits] at *; omega
    rw [if_pos hn, if_neg (by omega), asCast_of_inRange _ _ hu, fromU64_eq_ofNat]
  · rw [if_neg hn, if_pos (by omega)]

theorem U_fromI128_eq (n : Int) (h : PTy.InRange .i128 n) :
    U.fromI128 n = if n < 0 then none else some (ofNat n.toNat) := by
  unfold U.fromI128
  by_cases hn : n ≥ 0
  · have hu : PTy.InRange .u128 n := by
      simp [PTy.InRange, PTy.minV, PTy.maxV, PTy.signed, PTy.bits] at *; omega
    rw [if_pos hn, if_neg (by omega), asCast_of_inRange _ _ hu, fromU128_eq_ofNat]
  · rw [if_neg hn, if_pos (by omega)]

/-- `<BigUint as FromPrimitive>::from_T(n)` (also `TryFrom<T>`, `ToBigUint for T`): a negative
    primitive fails, everything else gives the canonical digit list of `n` -/
theorem biguint_fromPrim_val (t : PTy) (n : Int) (h : t.InRange n) :
    U.fromPrim t n = if n < 0 then none else some (ofNat n.toNat) := by
  cases t <;> unfold U.fromPrim <;> dsimp only
  case i64 => exact U_fromI64_eq n h
  case i128 => exact U_fromI128_eq n h
  case u64 => rw [if_neg (by have := nonneg_of_unsigned _ rfl n h; omega), fromU64_eq_ofNat]
  case u128 => rw [if_neg (by have := nonneg_of_unsigned _ rfl n h; omega), fromU128_eq_ofNat]
  case i8 => have k := sub_i64 .i8 n (by decide) rfl h; rw [asCast_of_inRange _ _ k]; exact U_fromI64_eq n k
  case i16 => have k := sub_i64 .i16 n (by decide) rfl h; rw [asCast_of_inRange _ _ k]; exact U_fromI64_eq n k
  case i32 => have k := sub_i64 .i32 n (by decide) rfl h; rw [asCast_of_inRange _ _ k]; exact U_fromI64_eq n k
  case isize =>
    have k := sub_i64 .isize n (by decide) rfl h
    rw [primTo_spec _ _ _ h, if_pos k, Option.bind_some]; exact U_fromI64_eq n k
  case u8 =>
    rw [if_neg (by have := nonneg_of_unsigned _ rfl n h; omega),
      asCast_of_inRange _ _ (sub_u64u .u8 n (by decide) rfl h), fromU64_eq_ofNat]
  case u16 =>
    rw [if_neg (by have := nonneg_of_unsigned _ rfl n h; omega),
      asCast_of_inRange _ _ (sub_u64u .u16 n (by decide) rfl h), fromU64_eq_ofNat]
  case u32 =>
    rw [if_neg (by have := nonneg_of_unsigned _ rfl n h; omega),
      asCast_of_inRange _ _ (sub_u64u .u32 n (by decide) rfl h), fromU64_eq_ofNat]
  case usize =>
    rw [if_neg (by have := nonneg_of_unsigned _ rfl n h; omega),
      primTo_spec _ _ _ h, if_pos (sub_u64u .usize n (by decide) rfl h), Option.bind_some, fromU64_eq_ofNat]

theorem from_bool_val (b : Bool) :
    U.fromBool b = ofNat (if b then 1 else 0) ∧ I.fromBool b = BigInt.ofInt (if b then 1 else 0) := by
  cases b
  · simp [U.fromBool, I.fromBool, BigInt.ofInt, ofNat_zero]
  · simp [U.fromBool, I.fromBool, BigInt.ofInt, ofNat_one]

/-! ## BigUint ↔ BigInt -/

/-- `BigInt::from(x: BigUint)` / `x.to_bigint()` -/
theorem bigint_from_biguint_val {x : List Nat} (h : Canon x) : I.fromBiguint x = BigInt.ofInt (val x) := by
  unfold I.fromBiguint
  by_cases hx : x = []
  · subst hx; simp [val, BigInt.ofInt]
  · rw [if_neg hx]
    have : (⟨.plus, x⟩ : BigInt).Canon := ⟨h, by simp [hx]⟩
    have e := bigint_canon_eq_ofInt this
    simpa [BigInt.val] using e

/-- `x.to_biguint()` for a BigInt: `None` exactly for negative values -/
theorem bigint_to_biguint_spec {x : BigInt} (h : x.Canon) :
    I.toBiguint x = if x.val < 0 then none else some (ofNat x.val.toNat) := by
  obtain ⟨s, m⟩ := x
  obtain ⟨hc, hs⟩ := h
  simp only at hc hs
  cases s
  · have hne : m ≠ [] := fun e => by simpa using hs.mpr e
    have hpos := canon_val_pos hc hne
    have hv : (⟨.minus, m⟩ : BigInt).val = -(val m : Int) := rfl
    rw [if_pos (by rw [hv]; omega)]; rfl
  · have hv : (⟨.nosign, m⟩ : BigInt).val = 0 := rfl
    rw [if_neg (by rw [hv]; omega), hv]
    show some [] = some (ofNat 0)
    rw [ofNat_zero]
  · have hv : (⟨.plus, m⟩ : BigInt).val = (val m : Int) := rfl
    rw [if_neg (by rw [hv]; omega), hv, Int.toNat_natCast, ← canon_eq_ofNat hc]; rfl

/-- `BigUint::try_from(x: BigInt)`: `Ok(magnitude)` for `x ≥ 0`, otherwise `Err` holding exactly `x` -/
theorem biguint_try_from_bigint_spec {x : BigInt} (h : x.Canon) :
    U.tryFromBigInt x = if x.val < 0 then .err x else .ok (ofNat x.val.toNat) := by
  obtain ⟨s, m⟩ := x
  obtain ⟨hc, hs⟩ := h
  simp only at hc hs
  cases s
  · have hne : m ≠ [] := fun e => by simpa using hs.mpr e
    have hpos := canon_val_pos hc hne
    have hv : (⟨.minus, m⟩ : BigInt).val = -(val m : Int) := rfl
    rw [if_pos (by rw [hv]; omega)]; rfl
  · have hv : (⟨.nosign, m⟩ : BigInt).val = 0 := rfl
    have hm : m = [] := hs.mp rfl
    subst hm
    rw [if_neg (by rw [hv]; omega), hv]
    show TryRes.ok [] = TryRes.ok (ofNat 0)
    rw [ofNat_zero]
  · have hv : (⟨.plus, m⟩ : BigInt).val = (val m : Int) := rfl
    rw [if_neg (by rw [hv]; omega), hv, Int.toNat_natCast, ← canon_eq_ofNat hc]; rfl

/-- `BigUint::try_from(&x)` for a `&BigInt` -/
theorem biguint_try_from_bigint_ref_spec {x : BigInt} (h : x.Canon) :
    U.tryFromBigIntRef x = if x.val < 0 then .err () else .ok (ofNat x.val.toNat) := by
  unfold U.tryFromBigIntRef
  rw [bigint_to_biguint_spec h]
  by_cases c : x.val < 0
  · rw [if_pos c, if_pos c]
  · rw [if_neg c, if_neg c]

/-! ## big → float -/

/-- **high_bits_spec**: with at least two digits, `high_bits_to_u64(x)` is the top 64 bits of the value
    with every lower bit or-ed into the LSB: `⌊v / 2^s⌋ ||| [v mod 2^s ≠ 0]`, `s = bits − 64`;
    with at most one digit it is the value itself.  No underflow site is reachable. -/
theorem high_bits_spec {x : List Nat} (h : Canon x) :
    highBitsToU64 x = .ok (if x.length ≤ 1 then val x
      else (val x / 2 ^ (bitsOf x - 64)) ||| (if val x % 2 ^ (bitsOf x - 64) = 0 then 0 else 1)) := by
  by_cases hl : x.length ≤ 1
  · rw [if_pos hl]; exact highBits_small hl
  · rw [if_neg hl, highBits_spec h (by omega), bitsOf_canon h]
    unfold stickyShift
    split
    · rw [Nat.or_zero]
    · rw [or_one_eq]

/-- **to_f64_spec / to_f32_spec**: for every valid format (in particular `f32`, `f64`) and every
    canonical `x`, `x.to_f()` never panics and its bit pattern is the IEEE encoding of `val x` rounded
    to nearest, ties to even, `+∞` exactly when the rounded value is `≥ 2^MAX_EXP`.
    (`castU64`, `powi2`, `fmulPow2` are the recorded model of the hardware operations.) -/
theorem to_float_spec (f : FFmt) (hf : f.Valid) {x : List Nat} (h : Canon x) :
    U.toFloat f x = .ok (ieeeRne f (val x)) := by
  obtain ⟨hp2, hp64, he8⟩ := hf
  have hM := valid_maxExp ⟨hp2, hp64, he8⟩
  have hp1 : 1 ≤ f.p := by omega
  unfold U.toFloat ieeeRne
  rw [bitsOf_canon h]
  by_cases hl : x.length ≤ 1
  · -- zero or one digit: the mantissa is the value, exponent 0
    rw [highBits_small hl, ok_bind]
    rw [if_neg (by omega), Nat.sub_self, if_neg (by omega)]
    unfold castU64
    by_cases hv : val x = 0
    · rw [hv, rneNat_zero]
      rw [encode_zero, fmul_zero hp1 (by omega)]; rfl
    · have hlt : val x < 2 ^ 64 := by
        have := (canon_len_le_one h).mp hl; rwa [B_eq_pow] at this
      have hb : bitLen (val x) ≤ 64 := bitLen_le_iff.mpr hlt
      have hw := rneNat_ne_zero hp1 hv (p := f.p)
      have hwb := (rneNat_bitLen hp1 hv (p := f.p)).2
      have := fmul_encode hp1 (by omega) hw (by omega) (Nat.zero_le _) (f := f) (e := 0)
      rw [Nat.pow_zero, Nat.mul_one] at this
      rw [this]; rfl
  · have hl2 : 2 ≤ x.length := by omega
    rw [highBits_spec h hl2, ok_bind]
    have hbl : 64 < bitLen (val x) := by
      by_contra c
      have h1 : val x < 2 ^ 64 := bitLen_le_iff.mp (by omega)
      have := (canon_len_le_one h).mpr (by rw [B_eq_pow]; exact h1)
      omega
    have hv : val x ≠ 0 := by intro e; rw [e] at hbl; simp [bitLen] at hbl
    generalize hs : bitLen (val x) - 64 = s at *
    have hn : bitLen (val x) = 64 + s := by omega
    have hmb := stickyShift_bitLen (k := 64) (by decide) hn
    have hm0 : stickyShift (val x) s ≠ 0 := by
      intro e; rw [e] at hmb; simp [bitLen] at hmb
    rw [hmb, if_neg (by omega)]
    have hsub : bitLen (val x) - 64 = s := by omega
    rw [hsub]
    by_cases hbig : s > f.maxExp
    · rw [if_pos hbig]
      have := (rneNat_bitLen hp1 hv (p := f.p)).1
      rw [encode_inf (by omega)]; rfl
    · rw [if_neg hbig]
      unfold castU64
      have hw := rneNat_ne_zero hp1 hm0 (p := f.p)
      have hwb := (rneNat_bitLen hp1 hm0 (p := f.p)).2
      rw [fmul_encode hp1 (by omega) hw (by omega) (by omega), ← rneNat_scale hm0,
        round_to_odd_rne (k := 64) hp64 hn]
      rfl

theorem f32_valid : f32.Valid := by decide
theorem f64_valid : f64.Valid := by decide

theorem to_f64_spec {x : List Nat} (h : Canon x) : U.toFloat f64 x = .ok (ieeeRne f64 (val x)) :=
  to_float_spec f64 f64_valid h
theorem to_f32_spec {x : List Nat} (h : Canon x) : U.toFloat f32 x = .ok (ieeeRne f32 (val x)) :=
  to_float_spec f32 f32_valid h

/-- **to_f64_spec / to_f32_spec for BigInt**: the magnitude is rounded as for `BigUint`, a negative
    value sets the sign bit (so the result is `−∞` exactly when the magnitude rounds to `+∞`) -/
theorem bigint_to_float_spec (f : FFmt) (hf : f.Valid) {x : BigInt} (h : x.Canon) :
    I.toFloat f x = .ok (if x.val < 0 then ieeeRne f x.val.natAbs + f.signBit else ieeeRne f x.val.natAbs) := by
  obtain ⟨s, m⟩ := x
  obtain ⟨hc, hs⟩ := h
  simp only at hc hs
  unfold I.toFloat
  rw [to_float_spec f hf hc, ok_bind]
  have hlt := encode_lt_signBit (f := f) (by have := hf.1; omega) (by have := hf.2.2; omega) (rneNat f.p (val m))
  have hlt' : ¬ ieeeRne f (val m) ≥ f.signBit := by unfold ieeeRne; omega
  cases s
  · have hne : m ≠ [] := fun e => by simpa using hs.mpr e
    have hpos := canon_val_pos hc hne
    have hv : (⟨.minus, m⟩ : BigInt).val = -(val m : Int) := rfl
    have hn : (-(val m : Int)).natAbs = val m := by omega
    rw [if_pos (show (⟨Sign.minus, m⟩ : BigInt).sign = Sign.minus from rfl), if_neg hlt',
      if_pos (show (⟨Sign.minus, m⟩ : BigInt).val < 0 by rw [hv]; omega), hv, hn]
    rfl
  · have hm : m = [] := hs.mp rfl
    subst hm
    have hv : (⟨.nosign, []⟩ : BigInt).val = 0 := rfl
    rw [if_neg (show ¬ (⟨Sign.nosign, []⟩ : BigInt).sign = Sign.minus by simp),
      if_neg (show ¬ (⟨Sign.nosign, []⟩ : BigInt).val < 0 by rw [hv]; omega), hv]
    rfl
  · have hv : (⟨.plus, m⟩ : BigInt).val = (val m : Int) := rfl
    rw [if_neg (show ¬ (⟨Sign.plus, m⟩ : BigInt).sign = Sign.minus by simp),
      if_neg (show ¬ (⟨Sign.plus, m⟩ : BigInt).val < 0 by rw [hv]; omega), hv, Int.natAbs_natCast]
    rfl


/-! ### the specification function `rneNat` really is "nearest representable, ties to even" -/

/-- the rounded value is representable -/
theorem rneNat_repr {p : Nat} (hp : 1 ≤ p) (v : Nat) : Repr p (rneNat p v) := by
  by_cases h : bitLen v ≤ p
  · rw [rneNat_small h]
    exact ⟨v, 0, by simp, bitLen_le_iff.mp h⟩
  · have hlt : p < bitLen v := by omega
    have hn : bitLen v = p + (bitLen v - p) := by omega
    obtain ⟨_, hi⟩ := div_pow_bitLen hp hn
    rcases rneNat_cases hlt with ⟨e, _, _⟩ | ⟨e, _, _⟩
    · exact ⟨_, _, e, hi⟩
    · by_cases c : v / 2 ^ (bitLen v - p) + 1 < 2 ^ p
      · exact ⟨_, _, e, c⟩
      · have e2 : v / 2 ^ (bitLen v - p) + 1 = 2 ^ p := by omega
        refine ⟨2 ^ (p - 1), bitLen v - p + 1, ?_, Nat.pow_lt_pow_right (by decide) (by omega)⟩
        rw [e, e2, ← Nat.pow_add, ← Nat.pow_add]; exact congrArg _ (by omega)

/-- **nearest**: no representable number is closer to `v` than `rneNat p v` -/
theorem rneNat_nearest {p : Nat} (hp : 1 ≤ p) (v w : Nat) (hw : Repr p w) :
    absDiff (rneNat p v) v ≤ absDiff w v := by
  by_cases h : bitLen v ≤ p
  · rw [rneNat_small h]; unfold absDiff; omega
  · have hlt : p < bitLen v := by omega
    have hn : bitLen v = p + (bitLen v - p) := by omega
    obtain ⟨lo, _⟩ := div_pow_bitLen hp hn
    have hbt := no_repr_between (S := bitLen v - p) hp lo hw
    have hdm := Nat.div_add_mod v (2 ^ (bitLen v - p))
    have hr := Nat.mod_lt v (Nat.pow_pos (n := bitLen v - p) (by decide : 0 < 2))
    have e1 : (v / 2 ^ (bitLen v - p) + 1) * 2 ^ (bitLen v - p)
        = v / 2 ^ (bitLen v - p) * 2 ^ (bitLen v - p) + 2 ^ (bitLen v - p) := by ring
    rw [Nat.mul_comm] at hdm
    unfold absDiff
    rcases rneNat_cases hlt with ⟨e, c, _⟩ | ⟨e, c, _⟩ <;> rw [e] <;> omega

/-- **ties to even**: when `v` is exactly half-way between two neighbours, the chosen significand
    is even -/
theorem rneNat_tie_even {p v : Nat} (h : p < bitLen v)
    (htie : 2 * (v % 2 ^ (bitLen v - p)) = 2 ^ (bitLen v - p)) :
    (rneNat p v / 2 ^ (bitLen v - p)) % 2 = 0 := by
  have hpos : 0 < (2 : Nat) ^ (bitLen v - p) := Nat.pow_pos (by decide)
  rcases rneNat_cases h with ⟨e, _, c⟩ | ⟨e, _, c⟩
  · rw [e, Nat.mul_div_cancel _ hpos]; exact c htie
  · rw [e, Nat.mul_div_cancel _ hpos]; have := c htie; omega

/-! ## float → big -/

/-- **from_f64_spec (BigUint)** -/
theorem fromF64_spec (b : Nat) : U.fromF64 b = fromFloatSpecU f64 b := by
  unfold U.fromF64 fromFloatSpecU fIsFinite
  by_cases hfin : fExp f64 b = f64.expAll
  · rw [if_pos hfin]; simp [hfin]
  · rw [if_neg hfin]
    have hne : (!(fExp f64 b != f64.expAll)) = false := by simpa using hfin
    rw [hne]
    rw [fExp64, f64_expAll] at hfin
    have hlt : b / 2 ^ 52 % 2048 < 2048 := Nat.mod_lt _ (by decide)
    simp only [Bool.false_eq_true, if_false]
    rw [integerDecode64, fromDecoded_spec, fIsZero64, truncBits64]
    by_cases hsmall : b / 2 ^ 52 % 2048 < 1023
    · rw [if_pos hsmall, truncAbs_small hsmall]
      have hz : ((b / 2 ^ 63 % 2) * 2 ^ 63 % 2 ^ 63 == 0) = true := by simp
      rw [hz]
      simp only [if_true, ne_eq, not_true_eq_false, and_false, if_false, ofNat_zero]
    · rw [if_neg hsmall]
      have hpos := truncAbs_big_pos (b := b) (by omega)
      by_cases hint : b / 2 ^ 52 % 2048 - 1023 ≥ 52
      · rw [if_pos hint]
        have hnz : (b % 2 ^ 63 == 0) = false := by
          have : b % 2 ^ 63 ≠ 0 := by omega
          simpa using this
        rw [hnz]
        have he0 : ¬ (b / 2 ^ 52 % 2048 = 0) := by omega
        simp only [Bool.false_eq_true, if_false, he0]
        have h1075 : 1075 ≤ b / 2 ^ 52 % 2048 := by omega
        rw [truncAbs_big (by omega), if_pos h1075, fSign64]
        have hsg2 : b / 2 ^ 63 % 2 < 2 := Nat.mod_lt _ (by decide)
        rw [truncAbs_big (by omega), if_pos h1075] at hpos
        exact sign_if _ _ hsg2 hpos _
      · rw [if_neg hint]
        have hk : 52 - (b / 2 ^ 52 % 2048 - 1023) = 1075 - b / 2 ^ 52 % 2048 := by omega
        rw [hk]
        have hk52 : 1075 - b / 2 ^ 52 % 2048 ≤ 52 := by omega
        obtain ⟨hn1, hn2⟩ := trunc_fields (b := b) hk52
        generalize b / 2 ^ (1075 - b / 2 ^ 52 % 2048) * 2 ^ (1075 - b / 2 ^ 52 % 2048) = n at *
        have hne' : n / 2 ^ 52 % 2048 = b / 2 ^ 52 % 2048 := by rw [hn1]
        have hns : n / 2 ^ 63 % 2 = b / 2 ^ 63 % 2 := by omega
        have hnz : (n % 2 ^ 63 == 0) = false := by
          have : n % 2 ^ 63 ≠ 0 := by omega
          simpa using this
        have he0 : ¬ (b / 2 ^ 52 % 2048 = 0) := by omega
        have h1075 : ¬ (1075 ≤ b / 2 ^ 52 % 2048) := by omega
        rw [hnz, hne', hns, hn2]
        simp only [Bool.false_eq_true, if_false, he0]
        rw [if_neg h1075, truncAbs_big (by omega), if_neg h1075, fSign64]
        have hsg2 : b / 2 ^ 63 % 2 < 2 := Nat.mod_lt _ (by decide)
        rw [truncAbs_big (by omega), if_neg h1075] at hpos
        have hq := clear_low (m := b % 2 ^ 52) hk52
        rw [hq]
        exact sign_if _ _ hsg2 hpos _

theorem conv_fromBiguint_ofNat (t : Nat) : I.fromBiguint (ofNat t) = BigInt.ofInt (t : Int) := by
  rw [bigint_from_biguint_val (ofNat_canon t), ofNat_val]

theorem conv_neg_ofInt (t : Nat) :
    (⟨(BigInt.ofInt (t : Int)).sign.neg, (BigInt.ofInt (t : Int)).mag⟩ : BigInt) = BigInt.ofInt (-(t : Int)) := by
  unfold BigInt.ofInt
  by_cases h : t = 0
  · subst h; simp [Sign.neg]
  · have h1 : ¬ ((t : Int) < 0) := by omega
    have h2 : ¬ ((t : Int) = 0) := by omega
    have h3 : (-(t : Int) < 0) := by omega
    rw [if_neg h1, if_neg h2, if_pos h3]
    simp [Sign.neg]

theorem spec_u_of_pos {b : Nat} (hfin : ¬ fExp f64 b = f64.expAll) (hs : ¬ fSign f64 b = 1) :
    fromFloatSpecU f64 b = some (ofNat (floatTruncAbs f64 b)) := by
  unfold fromFloatSpecU
  rw [if_neg hfin, if_neg (fun c => hs c.1)]

/-- **from_f64_spec (BigInt)** -/
theorem bigint_from_f64_spec (b : Nat) (hb : b < 2 ^ 64) : I.fromF64 b = fromFloatSpecI f64 b := by
  unfold I.fromF64 fromFloatSpecI fGeZero fIsNan fNeg
  rw [fromF64_spec, fromF64_spec]
  have hsg2 : b / 2 ^ 63 % 2 < 2 := Nat.mod_lt _ (by decide)
  by_cases hfin : fExp f64 b = f64.expAll
  · -- NaN or ±∞: every path ends in `BigUint::from_f64 … = None`
    rw [if_pos hfin]
    have hu : fromFloatSpecU f64 b = none := by unfold fromFloatSpecU; rw [if_pos hfin]
    have hu2 : fromFloatSpecU f64 (if fSign f64 b = 1 then b - f64.signBit else b + f64.signBit) = none := by
      unfold fromFloatSpecU
      rw [if_pos]
      rw [fExp64, f64_expAll] at *
      rw [fSign64, f64_signBit]
      split <;> omega
    rw [hu, hu2]
    split <;> rfl
  · rw [if_neg hfin]
    have hnan : (fExp f64 b == f64.expAll) = false := by simpa using hfin
    rw [hnan]
    simp only [Bool.false_and, Bool.not_false, Bool.true_and]
    by_cases hs : fSign f64 b = 1
    · rw [if_pos hs, if_pos hs]
      have hs0 : (fSign f64 b == 0) = false := by rw [hs]; rfl
      rw [hs0, Bool.false_or]
      by_cases hz : fIsZero f64 b = true
      · -- `-0.0`
        rw [if_pos hz]
        have hT : floatTruncAbs f64 b = 0 := by
          apply truncAbs_small
          rw [fIsZero64] at hz
          have : b % 2 ^ 63 = 0 := by simpa using hz
          omega
        have hu : fromFloatSpecU f64 b = some (ofNat 0) := by
          unfold fromFloatSpecU
          rw [if_neg hfin, hT, if_neg (fun c => c.2 rfl)]
        rw [hu, hT]
        show some (I.fromBiguint (ofNat 0)) = _
        rw [conv_fromBiguint_ofNat]; rfl
      · rw [if_neg hz]
        -- `-n` clears the sign bit and leaves exponent and fraction alone
        rw [fSign64] at hs
        have hfe : fExp f64 (b - f64.signBit) = fExp f64 b := by
          rw [fExp64, fExp64, f64_signBit]; omega
        have hfs : ¬ fSign f64 (b - f64.signBit) = 1 := by
          rw [fSign64, f64_signBit]; omega
        have hT : floatTruncAbs f64 (b - f64.signBit) = floatTruncAbs f64 b := by
          rw [truncAbs_eq, truncAbs_eq, f64_signBit]
          have e1 : (b - 2 ^ 63) / 2 ^ 52 % 2048 = b / 2 ^ 52 % 2048 := by omega
          have e2 : (b - 2 ^ 63) % 2 ^ 52 = b % 2 ^ 52 := by omega
          rw [e1, e2]
        rw [spec_u_of_pos (by rw [hfe]; exact hfin) hfs, hT]
        show some (⟨(I.fromBiguint (ofNat (floatTruncAbs f64 b))).sign.neg,
          (I.fromBiguint (ofNat (floatTruncAbs f64 b))).mag⟩ : BigInt) = _
        rw [conv_fromBiguint_ofNat, conv_neg_ofInt]
    · rw [if_neg hs]
      have hs0 : (fSign f64 b == 0) = true := by
        rw [fSign64] at *
        have : b / 2 ^ 63 % 2 = 0 := by omega
        rw [this]; rfl
      rw [hs0, Bool.true_or, if_pos rfl, spec_u_of_pos hfin hs]
      show some (I.fromBiguint (ofNat (floatTruncAbs f64 b))) = _
      rw [conv_fromBiguint_ofNat, if_neg hs]

theorem f32ToF64_widen (b : Nat) : f32ToF64 b = widen (b / 2 ^ 31 % 2) (b / 2 ^ 23 % 256) (b % 2 ^ 23) :=
  f32ToF64_eq b

theorem truncAbs32_trunc32 (b : Nat) : floatTruncAbs f32 b = trunc32 (b / 2 ^ 23 % 256) (b % 2 ^ 23) := rfl

/-- widening preserves class, sign and truncated magnitude, so both specifications agree -/
theorem spec_widen (b : Nat) :
    f32ToF64 b < 2 ^ 64 ∧ fromFloatSpecU f64 (f32ToF64 b) = fromFloatSpecU f32 b ∧
    fromFloatSpecI f64 (f32ToF64 b) = fromFloatSpecI f32 b := by
  have hsg : b / 2 ^ 31 % 2 < 2 := Nat.mod_lt _ (by decide)
  have he : b / 2 ^ 23 % 256 < 256 := Nat.mod_lt _ (by decide)
  have hm : b % 2 ^ 23 < 2 ^ 23 := Nat.mod_lt _ (by decide)
  unfold fromFloatSpecU fromFloatSpecI
  rw [f32ToF64_widen, fExp64, fSign64, f64_expAll, fExp32, fSign32, f32_expAll, truncAbs32_trunc32]
  by_cases hspec : b / 2 ^ 23 % 256 = 255
  · rw [hspec]
    obtain ⟨h1, h2, h3⟩ := widen_special hsg hm
    rw [if_pos h3, if_pos h3]
    exact ⟨h1, by rw [if_pos rfl], by rw [if_pos rfl]⟩
  · obtain ⟨h1, h2, h3, h4⟩ := widen_finite hsg (show b / 2 ^ 23 % 256 < 255 by omega) hm
    rw [if_neg h3, if_neg h3, if_neg hspec, if_neg hspec, h2, h4]
    exact ⟨h1, rfl, rfl⟩

/-- **from_f32_spec (BigUint)**: through the num-traits default `from_f64(f64::from(n))` -/
theorem fromF32_spec (b : Nat) : U.fromF32 b = fromFloatSpecU f32 b := by
  unfold U.fromF32
  rw [fromF64_spec, (spec_widen b).2.1]

/-- **from_f32_spec (BigInt)** -/
theorem bigint_from_f32_spec (b : Nat) : I.fromF32 b = fromFloatSpecI f32 b := by
  unfold I.fromF32
  rw [bigint_from_f64_spec _ (spec_widen b).1, (spec_widen b).2.2]

/-- the scaled significand of a representable number is exact: `sig · 2^n = w · 2^p` -/
theorem sig_exact {p w : Nat} (hw : w ≠ 0) (hr : Repr p w) :
    w * 2 ^ p / 2 ^ bitLen w * 2 ^ bitLen w = w * 2 ^ p := by
  obtain ⟨m, e, rfl, hm⟩ := hr
  have hm0 : m ≠ 0 := by intro c; subst c; simp at hw
  have hbl := bitLen_mul_pow hm0 e
  have hmp : bitLen m ≤ p := bitLen_le_iff.mpr hm
  rw [hbl]
  have e1 : m * 2 ^ e * 2 ^ p = m * 2 ^ (p - bitLen m) * 2 ^ (bitLen m + e) := by
    have : (2 : Nat) ^ p = 2 ^ (p - bitLen m) * 2 ^ bitLen m := by
      rw [← Nat.pow_add]; exact congrArg _ (by omega)
    rw [this, Nat.pow_add]; ring
  rw [e1, Nat.mul_div_cancel _ (Nat.pow_pos (by decide))]

/-- **encode denotes its argument**: for a representable `w` inside the exponent range the pattern
    `encode f w` is finite, non-negative, and the float it denotes truncates to (indeed equals) `w`.
    Together with `to_float_spec` and `rneNat_repr` this says that the pattern returned by `to_f64`
    denotes exactly the correctly rounded value. -/
theorem encode_denotes {f : FFmt} (hp : 1 ≤ f.p) (he : 2 ≤ f.ebits) {w : Nat} (hw : w ≠ 0)
    (hn : bitLen w ≤ f.maxExp) (hr : Repr f.p w) :
    fExp f (encode f w) ≠ f.expAll ∧ fSign f (encode f w) = 0 ∧ floatTruncAbs f (encode f w) = w := by
  obtain ⟨hbias, hall, hM, h2p, hsb⟩ := fmt_consts f (by omega) hp
  have hM2 : 2 ≤ f.maxExp := by
    unfold FFmt.maxExp
    have : (2 : Nat) ^ 1 ≤ 2 ^ (f.ebits - 1) := Nat.pow_le_pow_right (by decide) (by omega)
    omega
  obtain ⟨henc, hfr⟩ := encode_fields hp hw hn
  obtain ⟨slo, shi⟩ := sig_bounds hp hw (p := f.p)
  have hex := sig_exact hw hr
  have hF : 0 < (2 : Nat) ^ f.fbits := Nat.pow_pos (by decide)
  have hnpos := bitLen_pos hw
  have h2e : (2 : Nat) ^ f.ebits = 2 * f.maxExp := by
    unfold FFmt.maxExp; rw [← Nat.pow_succ']; exact congrArg _ (by omega)
  have hfb : f.fbits = f.p - 1 := rfl
  have hdiv : encode f w / 2 ^ f.fbits = bitLen w - 1 + f.bias := by
    rw [henc, Nat.mul_comm, Nat.mul_add_div hF, Nat.div_eq_of_lt hfr, Nat.add_zero]
  have hmod : encode f w % 2 ^ f.fbits = w * 2 ^ f.p / 2 ^ bitLen w - 2 ^ f.fbits := by
    rw [henc, Nat.mul_comm, Nat.mul_add_mod, Nat.mod_eq_of_lt hfr]
  have hexp : fExp f (encode f w) = bitLen w - 1 + f.bias := by
    unfold fExp; rw [hdiv, h2e]; apply Nat.mod_eq_of_lt; omega
  have hsig : fFrac f (encode f w) + 2 ^ f.fbits = w * 2 ^ f.p / 2 ^ bitLen w := by
    unfold fFrac; rw [hmod]; rw [hfb] at *; omega
  refine ⟨by rw [hexp]; omega, ?_, ?_⟩
  · unfold fSign
    have := encode_lt_signBit hp (by omega) w (f := f)
    rw [Nat.div_eq_of_lt this]
  · unfold floatTruncAbs
    dsimp only
    rw [hexp]
    have hE0 : ¬ (bitLen w - 1 + f.bias = 0) := by omega
    rw [if_neg hE0, if_neg hE0, hsig]
    generalize w * 2 ^ f.p / 2 ^ bitLen w = sg at *
    by_cases hge : bitLen w - 1 + f.bias ≥ f.bias + f.fbits
    · rw [if_pos hge]
      have e1 : bitLen w - 1 + f.bias - (f.bias + f.fbits) = bitLen w - f.p := by omega
      rw [e1]
      have e2 : (2 : Nat) ^ bitLen w = 2 ^ (bitLen w - f.p) * 2 ^ f.p := by
        rw [← Nat.pow_add]; exact congrArg _ (by omega)
      rw [e2, ← Nat.mul_assoc] at hex
      exact Nat.eq_of_mul_eq_mul_right (Nat.pow_pos (by decide)) hex
    · rw [if_neg hge]
      have e1 : f.bias + f.fbits - (bitLen w - 1 + f.bias) = f.p - bitLen w := by omega
      rw [e1]
      have e2 : (2 : Nat) ^ f.p = 2 ^ (f.p - bitLen w) * 2 ^ bitLen w := by
        rw [← Nat.pow_add]; exact congrArg _ (by omega)
      rw [e2, ← Nat.mul_assoc] at hex
      have := Nat.eq_of_mul_eq_mul_right (Nat.pow_pos (by decide)) hex
      rw [this, Nat.mul_div_cancel _ (Nat.pow_pos (by decide))]

/-- round trip: converting `x` to `f64` and back yields exactly the correctly rounded value
    (whenever that is finite) -/
theorem to_from_f64_roundtrip {x : List Nat} (h : Canon x) (hfin : bitLen (rneNat 53 (val x)) ≤ 1024) :
    (U.toFloat f64 x).toOption.bind U.fromF64 = some (ofNat (rneNat 53 (val x))) := by
  rw [to_f64_spec h]
  show U.fromF64 (ieeeRne f64 (val x)) = _
  rw [fromF64_spec]
  unfold ieeeRne fromFloatSpecU
  have hp : f64.p = 53 := rfl
  rw [hp]
  by_cases hv : val x = 0
  · rw [hv, rneNat_zero, encode_zero]
    have h1 : ¬ fExp f64 0 = f64.expAll := by decide
    have h2 : floatTruncAbs f64 0 = 0 := truncAbs_small (by decide)
    rw [if_neg h1, h2, if_neg (fun c => c.2 rfl)]
  · have hw := rneNat_ne_zero (p := 53) (by decide) hv
    obtain ⟨a, b, c⟩ := encode_denotes (f := f64) (by decide) (by decide) hw hfin (rneNat_repr (by decide) _)
    rw [if_neg a, c, b, if_neg (fun k => by have := k.1; omega)]

/-! ## the oracles of the driver (NB.Drv.C08, written independently) ARE the specifications

  so `impl = oracle` on a request is literally `impl = spec`, and `model = oracle` is an instance of
  the theorems above -/

theorem bitLen_half {n : Nat} (hn : n ≠ 0) : bitLen (n / 2) + 1 = bitLen n := by
  obtain ⟨lo, hi⟩ := bitLen_bounds hn
  have hp := bitLen_pos hn
  by_cases h1 : bitLen n = 1
  · rw [h1] at lo hi ⊢
    have : n = 1 := by simp at lo hi; omega
    subst this; simp [bitLen]
  · have : bitLen (n / 2) = bitLen n - 1 := by
      apply bitLen_unique (by omega)
      · have e : (2 : Nat) ^ (bitLen n - 1) = 2 * 2 ^ (bitLen n - 1 - 1) := by
          rw [← Nat.pow_succ']; exact congrArg _ (by omega)
        omega
      · have e : (2 : Nat) ^ bitLen n = 2 * 2 ^ (bitLen n - 1) := by
          rw [← Nat.pow_succ']; exact congrArg _ (by omega)
        omega
    omega

theorem oLen_go (fuel n acc : Nat) (h : bitLen n ≤ fuel) : oLen.go fuel n acc = acc + bitLen n := by
  induction fuel generalizing n acc with
  | zero =>
    have : bitLen n = 0 := by omega
    simp [oLen.go, this]
  | succ k ih =>
    unfold oLen.go
    by_cases hn : n = 0
    · subst hn; simp [bitLen]
    · rw [if_neg hn]
      have := bitLen_half hn
      rw [ih (n / 2) (acc + 1) (by omega)]; omega

theorem oLen_eq (n : Nat) : oLen n = bitLen n := by
  unfold oLen
  rw [oLen_go n n 0 (by
    apply bitLen_le_iff.mpr
    exact Nat.lt_two_pow_self), Nat.zero_add]

/-- the driver's rounding oracle (distance comparison with the two neighbours) is `rneNat` -/
theorem oRound_eq (p v : Nat) : oRound p v = rneNat p v := by
  unfold oRound
  rw [oLen_eq]
  by_cases h : bitLen v ≤ p
  · simp only [h, if_true]; exact (rneNat_small h).symm
  · simp only [h, if_false]
    rw [rneNat_big (by omega)]
    have hS : 1 ≤ bitLen v - p := by omega
    have e2 : (2 : Nat) ^ (bitLen v - p) = 2 * 2 ^ (bitLen v - p - 1) := by
      rw [← Nat.pow_succ']; exact congrArg _ (by omega)
    have hpos : 0 < (2 : Nat) ^ (bitLen v - p) := Nat.pow_pos (by decide)
    have hdm := Nat.div_add_mod v (2 ^ (bitLen v - p))
    have hr := Nat.mod_lt v hpos
    rw [Nat.mul_comm] at hdm
    rw [Nat.mul_div_cancel _ hpos]
    generalize v / 2 ^ (bitLen v - p) = q at *
    generalize v % 2 ^ (bitLen v - p) = r at *
    have e3 : (q + 1) * 2 ^ (bitLen v - p) = q * 2 ^ (bitLen v - p) + 2 ^ (bitLen v - p) := by ring
    generalize 2 ^ (bitLen v - p - 1) = half at *
    generalize 2 ^ (bitLen v - p) = ulp at *
    by_cases c : roundsUp q r half
    · rw [if_pos c, e3]
      unfold roundsUp at c
      generalize q * ulp = lo at *
      split
      · omega
      · split
        · rfl
        · split <;> omega
    · rw [if_neg c]
      unfold roundsUp at c
      generalize q * ulp = lo at *
      split
      · rfl
      · split
        · omega
        · split <;> omega

/-- the driver's encoder is `encode` -/
theorem oEncode_eq (f : FFmt) (hp : 1 ≤ f.p) (w : Nat) :
    oEncode f.p f.ebits w = encode f w := by
  unfold oEncode encode
  by_cases hw : w = 0
  · simp [hw]
  · rw [if_neg hw, if_neg hw, oLen_eq]
    dsimp only
    have hnpos := bitLen_pos hw
    obtain ⟨lo, hi⟩ := bitLen_bounds hw
    have hM : (2 : Nat) ^ (f.ebits - 1) = f.maxExp := rfl
    rw [hM]
    by_cases hinf : bitLen w > f.maxExp
    · have : w ≥ 2 ^ f.maxExp := by
        have : (2 : Nat) ^ f.maxExp ≤ 2 ^ (bitLen w - 1) := Nat.pow_le_pow_right (by decide) (by omega)
        omega
      rw [if_pos this, if_pos hinf]; rfl
    · have : ¬ w ≥ 2 ^ f.maxExp := by
        have := bitLen_le_iff.mp (show bitLen w ≤ f.maxExp by omega)
        omega
      rw [if_neg this, if_neg hinf]
      have hb : f.bias = f.maxExp - 1 := rfl
      have hfb : f.fbits = f.p - 1 := rfl
      rw [hb, hfb]
      congr 2
      by_cases c : bitLen w - 1 ≤ f.p - 1
      · rw [if_pos c]
        have e1 : (2 : Nat) ^ f.p = 2 ^ (f.p - 1 - (bitLen w - 1)) * 2 ^ bitLen w := by
          rw [← Nat.pow_add]; exact congrArg _ (by omega)
        rw [e1, ← Nat.mul_assoc, Nat.mul_div_cancel _ (Nat.pow_pos (by decide))]
      · rw [if_neg c]
        have e1 : (2 : Nat) ^ bitLen w = 2 ^ (bitLen w - 1 - (f.p - 1)) * 2 ^ f.p := by
          rw [← Nat.pow_add]; exact congrArg _ (by omega)
        rw [e1, Nat.mul_div_mul_right _ _ (Nat.pow_pos (by decide))]

/-- **the driver's `to_f64/to_f32` oracle is the specification `ieeeRne`** -/
theorem drv_oracle_to_float (f : FFmt) (hp : 1 ≤ f.p) (v : Nat) :
    oToFloat f.p f.ebits v = ieeeRne f v := by
  unfold oToFloat ieeeRne
  rw [oRound_eq, oEncode_eq f hp]

theorem oDecode_eq (f : FFmt) (b : Nat) :
    oDecode f.p f.ebits b =
      if fExp f b = f.expAll then (false, decide (fSign f b = 1), 0)
      else (true, decide (fSign f b = 1), floatTruncAbs f b) := by
  unfold oDecode fExp fSign floatTruncAbs fExp fFrac FFmt.expAll FFmt.signBit FFmt.bias FFmt.fbits
  dsimp only
  rw [Nat.add_comm (f.p - 1) f.ebits]

/-- **the driver's `from_f64/from_f32` oracles are the specifications** -/
theorem drv_oracle_from_float (f : FFmt) (b : Nat) :
    oFromFloatU f.p f.ebits b = fromFloatSpecU f b ∧ oFromFloatI f.p f.ebits b = fromFloatSpecI f b := by
  unfold oFromFloatU oFromFloatI fromFloatSpecU fromFloatSpecI
  rw [oDecode_eq]
  by_cases h : fExp f b = f.expAll
  · simp [h]
  · simp only [h, if_false, Bool.not_true, Bool.false_eq_true, Bool.and_eq_true, decide_eq_true_eq, ne_eq,
      decide_not, Bool.not_eq_eq_eq_not, Bool.not_true, decide_eq_false_iff_not]
    exact ⟨trivial, trivial⟩

/-- the driver's `high_bits_to_u64` oracle is the round-to-odd summary of the specification -/
theorem drv_oracle_high_bits (v : Nat) :
    oHighBits v = if bitLen v ≤ 64 then v else stickyShift v (bitLen v - 64) := by
  unfold oHighBits stickyShift orOne
  rw [oLen_eq]

/-- the driver's literal range table is `T::MIN ..= T::MAX` -/
theorem drv_oracle_range (t : PTy) (v : Int) : oFits t v = true ↔ t.minV ≤ v ∧ v ≤ t.maxV := by
  cases t <;> simp [oFits, oRange, PTy.minV, PTy.maxV, PTy.signed, PTy.bits] <;>
    exact ⟨fun h => ⟨of_decide_eq_true h.1, of_decide_eq_true h.2⟩,
      fun h => ⟨decide_eq_true h.1, decide_eq_true h.2⟩⟩

/-! ## non-vacuity: the hypotheses are satisfiable and the edges behave as stated -/

-- the D7 input (2^128 + 2^75 + 2: a tie at 53 bits decided by a bit two digits down)
example : Canon [2, 0x800, 1] := by decide
example : U.toFloat f64 [2, 0x800, 1] = .ok 0x47f0000000000001 := by decide +kernel
example : highBitsToU64 [2, 0x800, 1] = .ok 0x8000000000000401 := by decide +kernel
example : I.toPrim .i64 ⟨.minus, [2 ^ 63]⟩ = .ok (some (-9223372036854775808)) := by decide +kernel
example : I.toPrim .i64 ⟨.minus, [2 ^ 63 + 1]⟩ = .ok none := by decide +kernel
example : U.fromF64 0xbfe0000000000000 = some [] := by decide +kernel
example : U.fromF64 0xbff0000000000000 = none := by decide +kernel
example : I.fromF64 0xc008000000000000 = some ⟨.minus, [3]⟩ := by decide +kernel
example : U.toFloat f32 [0, 0xffffff8000000000] = .ok 0x7f800000 := by decide +kernel
example : U.toFloat f32 [0, 0xffffff7fffffffff] = .ok 0x7f7fffff := by decide +kernel
example : PTy.InRange .i8 (-128) ∧ ¬ PTy.InRange .i8 (-129) ∧ PTy.InRange .u128 (2 ^ 128 - 1) := by decide
example : f32.Valid ∧ f64.Valid := by decide

/-! ## layer link: the digit-level float conversions (NB.Model.FloatD) refine NB.Model.Float

  `U.toFloatD`, `I.toFloatD`, `U.fromF64D`, … are the same functions with `self.bits()` = `NB.C07.bitsU`,
  `fls` through the `u64::leading_zeros` model `NB.C07.lzDigit`, `ret <<= e` = `NB.C07.biguintShl`,
  `ret >>= e` = `NB.C07.biguintShr` (`Except Panic`: negative amount / capacity overflow propagated).
  Operator theorems used: `shl_spec`, `shr_spec` (C07), `fromU64_eq_ofNat`. -/

/-- `high_bits_to_u64` started from the digit-level `bits()`: same function on every digit vector -/
theorem high_bitsD_refines (v : List Nat) : highBitsToU64D v = highBitsToU64 v := highBitsToU64D_eq v

/-- digit-level `to_f32/to_f64` (bits through `bitsU`, `fls` through `leading_zeros`) refines the model -/
theorem to_floatD_refines (f : FFmt) {x : List Nat} (h : Canon x) : U.toFloatD f x = U.toFloat f x :=
  toFloatD_eq f h

/-- **to_float_spec, digit level**: the bit pattern is the IEEE encoding of `val x` rounded to nearest even -/
theorem to_floatD_spec (f : FFmt) (hf : f.Valid) {x : List Nat} (h : Canon x) :
    U.toFloatD f x = .ok (ieeeRne f (val x)) := by
  rw [to_floatD_refines f h, to_float_spec f hf h]

theorem to_f64D_spec {x : List Nat} (h : Canon x) : U.toFloatD f64 x = .ok (ieeeRne f64 (val x)) :=
  to_floatD_spec f64 f64_valid h
theorem to_f32D_spec {x : List Nat} (h : Canon x) : U.toFloatD f32 x = .ok (ieeeRne f32 (val x)) :=
  to_floatD_spec f32 f32_valid h

theorem bigint_to_floatD_refines (f : FFmt) {x : BigInt} (h : x.Canon) : I.toFloatD f x = I.toFloat f x :=
  bigintToFloatD_eq f h

theorem bigint_to_floatD_spec (f : FFmt) (hf : f.Valid) {x : BigInt} (h : x.Canon) :
    I.toFloatD f x = .ok (if x.val < 0 then ieeeRne f x.val.natAbs + f.signBit else ieeeRne f x.val.natAbs) := by
  rw [bigint_to_floatD_refines f h, bigint_to_float_spec f hf h]

/-- the tail of `from_f64` with the digit-level `<<=` / `>>=`: for every `u64` mantissa and every exponent
    field the shifts return (no `negshift`, no `capacity overflow`) exactly `* 2^e` resp. `⌊/ 2^e⌋` -/
theorem from_decodedD_refines (mantissa expo : Nat) (neg : Bool) (hm : mantissa < B) (he : expo < B) :
    U.fromDecodedD mantissa expo neg = .ok (U.fromDecoded mantissa expo neg) :=
  fromDecodedD_eq mantissa expo neg hm he

/-- digit-level `BigUint::from_f64` refines the model on EVERY bit pattern -/
theorem fromF64D_refines (b : Nat) : U.fromF64D b = .ok (U.fromF64 b) := fromF64D_eq b
theorem fromF32D_refines (b : Nat) : U.fromF32D b = .ok (U.fromF32 b) := fromF32D_eq b
theorem bigint_from_f64D_refines (b : Nat) : I.fromF64D b = .ok (I.fromF64 b) := bigintFromF64D_eq b
theorem bigint_from_f32D_refines (b : Nat) : I.fromF32D b = .ok (I.fromF32 b) := bigintFromF32D_eq b

/-- **fromF64_spec, digit level**: `None` for NaN/±∞ and values ≤ −1, else the canonical digits of `⌊x⌋` -/
theorem fromF64D_spec (b : Nat) : U.fromF64D b = .ok (fromFloatSpecU f64 b) := by
  rw [fromF64D_refines, fromF64_spec]
theorem fromF32D_spec (b : Nat) : U.fromF32D b = .ok (fromFloatSpecU f32 b) := by
  rw [fromF32D_refines, fromF32_spec]
theorem bigint_from_f64D_spec (b : Nat) (hb : b < 2 ^ 64) : I.fromF64D b = .ok (fromFloatSpecI f64 b) := by
  rw [bigint_from_f64D_refines, bigint_from_f64_spec b hb]
theorem bigint_from_f32D_spec (b : Nat) : I.fromF32D b = .ok (fromFloatSpecI f32 b) := by
  rw [bigint_from_f32D_refines, bigint_from_f32_spec]

-- non-vacuity of the layer link: the D7 input, a left shift by 971 bits (f64::MAX), a right shift
-- (3.5 → 3), a sub-normal shifted out entirely
example : U.toFloatD f64 [2, 0x800, 1] = .ok 0x47f0000000000001 := by decide +kernel
example : U.toFloatD f32 [0, 0xffffff8000000000] = .ok 0x7f800000 := by decide +kernel
example : (U.fromF64D 0x7fefffffffffffff).map (fun o => o.map List.length) = .ok (some 16) := by decide +kernel
example : U.fromF64D 0x400c000000000000 = .ok (some [3]) := by decide +kernel
example : U.fromF64D 0x0000000000000001 = .ok (some []) := by decide +kernel
example : I.fromF64D 0xc008000000000000 = .ok (some ⟨.minus, [3]⟩) := by decide +kernel
example : I.fromF32D 0xff7fffff = .ok (some ⟨.minus, [0, 0xffffff0000000000]⟩) := by decide +kernel

end NB
