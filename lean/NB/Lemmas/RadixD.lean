/- layer link for C06: the digit-level general-radix output path (NB.Model.RadixD) refines the
   value-level one (NB.Model.Radix); the operator theorems used are C02's `mul_spec`, C03's
   `div_rem_spec` / `divRemDigit_spec'` and `cmpSlice_spec` -/
import NB.Lemmas.Radix
import NB.Props.C02
import NB.Props.C03
import NB.Model.RadixD
namespace NB.Radix
open NB

/-! ### small facts about canonical digit vectors -/

/-- `data.len() > 1` is `B ≤ value` for a normalised BigUint -/
theorem canon_length_gt_one_iff {a : List Nat} (h : Canon a) : 1 < a.length ↔ B ≤ val a := by
  constructor
  · intro hl
    have hne : a ≠ [] := by intro e; rw [e] at hl; simp at hl
    have := canon_val_ge h hne
    calc B = B ^ 1 := (pow_one B).symm
      _ ≤ B ^ (a.length - 1) := Nat.pow_le_pow_right B_pos (by omega)
      _ ≤ val a := this
  · intro hB
    by_contra hl
    have h1 := val_lt h.1
    have : B ^ a.length ≤ B ^ 1 := Nat.pow_le_pow_right B_pos (by omega)
    rw [pow_one] at this
    omega

theorem nlimbs_val_canon {a : List Nat} (h : Canon a) : nlimbs (val a) = a.length := by
  unfold nlimbs; rw [← canon_eq_ofNat h]

theorem canon_singleton {d : Nat} (hd : d < B) (h0 : d ≠ 0) : Canon [d] := by
  refine ⟨?_, ?_⟩
  · intro x hx; simp at hx; subst hx; exact hd
  · simp [h0]

theorem fromDigit_canon {d : Nat} (hd : d < B) : Canon (fromDigit d) ∧ val (fromDigit d) = d := by
  unfold fromDigit
  by_cases h0 : d = 0
  · subst h0; exact ⟨canon_nil, rfl⟩
  · rw [if_neg h0]; exact ⟨canon_singleton hd h0, by simp [val]⟩

/-- the iteration budget `BITS * u.len()` bounds the bit length of `u` -/
theorem val_lt_radixFuel {u : List Nat} (h : DigitsOk u) : val u < 2 ^ radixFuel u := by
  have := val_lt h
  unfold radixFuel BITS
  rw [pow_mul]
  rw [B_eq] at this
  exact this

theorem div_lt_pow_of_two_le {v b f : Nat} (hb : 2 ≤ b) (hv : v < 2 ^ (f + 1)) : v / b < 2 ^ f := by
  apply Nat.div_lt_of_lt_mul
  calc v < 2 ^ (f + 1) := hv
    _ = 2 * 2 ^ f := by rw [pow_succ, Nat.mul_comm]
    _ ≤ b * 2 ^ f := Nat.mul_le_mul_right _ hb

/-! ### the loops -/

/-- `div_rem_digit` loop + final digit loop: digit level = value level, for every fuel that bounds the
    bit length of `digits` -/
theorem slowLoopD_eq {radix power base : Nat} (hb2 : 2 ≤ base) :
    ∀ (fuel : Nat) (digits : List Nat), Canon digits → val digits < 2 ^ fuel →
    slowLoopD radix power base fuel digits = slowLoop radix power base (val digits) := by
  have hb0 : base ≠ 0 := by omega
  have hb1 : base ≠ 1 := by omega
  have small : ∀ (fuel : Nat) (digits : List Nat), Canon digits → ¬ B ≤ val digits →
      slowLoopD radix power base fuel digits = slowLoop radix power base (val digits) := by
    intro fuel digits hc hB
    have hl : ¬ 1 < digits.length := fun h => hB ((canon_length_gt_one_iff hc).1 h)
    rw [slowLoop]
    unfold slowLoopD
    rw [if_neg hl]
    simp only [hB, dite_false]
    match digits, hc, hl with
    | [], _, _ => simp [val]
    | [r], hc, _ =>
      have hr : r ≠ 0 := by intro e; exact hc.2 (by simp [e])
      have hv : val [r] = r := by simp [val]
      rw [hv, if_neg hr]
    | _ :: _ :: _, _, hl => exact absurd (by simp) hl
  intro fuel
  induction fuel with
  | zero =>
    intro digits hc hv
    exact small 0 digits hc (by have := B_pos; simp at hv; omega)
  | succ f ih =>
    intro digits hc hv
    by_cases hB : B ≤ val digits
    · have hl : 1 < digits.length := (canon_length_gt_one_iff hc).2 hB
      rw [slowLoop]
      unfold slowLoopD
      rw [if_pos hl]
      simp only [hB, hb0, hb1, dite_true, dite_false]
      rw [divRemDigit_spec' digits base hc.1 hb0]
      dsimp only
      rw [ih (ofNat (val digits / base)) (ofNat_canon _)
        (by rw [ofNat_val]; exact div_lt_pow_of_two_le hb2 hv), ofNat_val]
      cases slowLoop radix power base (val digits / base) <;> rfl
    · exact small (f + 1) digits hc hB

/-- the inner `for _ in 0..big_power` loop -/
theorem emitChunksD_eq {radix power base : Nat} (hb0 : base ≠ 0) :
    ∀ (k : Nat) (bigR : List Nat), DigitsOk bigR →
    emitChunksD radix power base k bigR = .ok (emitChunks radix power base k (val bigR)) := by
  intro k
  induction k with
  | zero => intro _ _; rfl
  | succ k ih =>
    intro bigR h
    simp only [emitChunksD, emitChunks]
    rw [divRemDigit_spec' bigR base h hb0]
    dsimp only
    rw [ih _ (ofNat_digitsOk _), ofNat_val]

/-- the squaring loop: `&big_base * &big_base` is C02's `mulRef` -/
theorem squareLoopD_eq (P : Params) (hP : P.ValidMul) (t : Nat) :
    ∀ (fuel : Nat) (bb : List Nat) (bp : Nat), Canon bb →
    squareLoopD P t fuel bb bp = (squareLoop t fuel (val bb) bp).map (fun p => (ofNat p.1, p.2)) := by
  intro fuel
  induction fuel with
  | zero =>
    intro bb bp hc
    unfold squareLoopD squareLoop
    rw [nlimbs_val_canon hc]
    by_cases hlt : bb.length < t
    · rw [if_pos hlt, if_pos hlt]; rfl
    · rw [if_neg hlt, if_neg hlt]
      show _ = Except.ok (ofNat (val bb), bp)
      rw [← canon_eq_ofNat hc]
  | succ f ih =>
    intro bb bp hc
    unfold squareLoopD squareLoop
    rw [nlimbs_val_canon hc]
    by_cases hlt : bb.length < t
    · rw [if_pos hlt, if_pos hlt]
      dsimp only
      rw [mul_spec P hP bb bb hc hc]
      dsimp only
      rw [ih _ _ (ofNat_canon _), ofNat_val]
    · rw [if_neg hlt, if_neg hlt]
      show _ = Except.ok (ofNat (val bb), bp)
      rw [← canon_eq_ofNat hc]

/-- the super-chunk loop: `digits > big_base` is `cmp_slice`, `digits.div_rem(&big_base)` is C03's
    `divRemRef` (Knuth D) -/
theorem bigLoopD_eq (P : Params) {radix power base bigPower : Nat} {bigBase : List Nat} (hb2 : 2 ≤ base)
    (hbb : Canon bigBase) (hbb2 : 2 ≤ val bigBase) :
    ∀ (fuel : Nat) (digits : List Nat), Canon digits → val digits < 2 ^ fuel →
    bigLoopD P radix power base bigBase bigPower fuel digits
      = bigLoop radix power base (val bigBase) bigPower (val digits) := by
  have hb0 : base ≠ 0 := by omega
  have hv0 : val bigBase ≠ 0 := by omega
  have hv1 : val bigBase ≠ 1 := by omega
  have hne : bigBase ≠ [] := by intro e; rw [e] at hbb2; simp [val] at hbb2
  have small : ∀ (fuel : Nat) (digits : List Nat), Canon digits → val digits < 2 ^ fuel →
      ¬ val bigBase < val digits →
      bigLoopD P radix power base bigBase bigPower fuel digits
        = bigLoop radix power base (val bigBase) bigPower (val digits) := by
    intro fuel digits hc hv hlt
    rw [bigLoop]
    unfold bigLoopD
    rw [cmpSlice_spec hc hbb]
    have hcmp : ¬ compare (val digits) (val bigBase) = .gt := by
      rw [Nat.compare_eq_gt]; exact hlt
    rw [if_neg hcmp]
    simp only [hlt, dite_false]
    exact slowLoopD_eq hb2 fuel digits hc hv
  intro fuel
  induction fuel with
  | zero =>
    intro digits hc hv
    exact small 0 digits hc hv (by simp at hv; omega)
  | succ f ih =>
    intro digits hc hv
    by_cases hlt : val bigBase < val digits
    · rw [bigLoop]
      unfold bigLoopD
      rw [cmpSlice_spec hc hbb]
      have hcmp : compare (val digits) (val bigBase) = .gt := by
        rw [Nat.compare_eq_gt]; exact hlt
      rw [if_pos hcmp]
      simp only [hlt, hv0, hv1, hb0, dite_true, dite_false, if_false]
      rw [div_rem_spec P digits bigBase hc hbb, if_neg hne]
      dsimp only
      rw [emitChunksD_eq hb0 bigPower _ (ofNat_digitsOk _)]
      dsimp only
      rw [ih (ofNat (val digits / val bigBase)) (ofNat_canon _)
        (by rw [ofNat_val]; exact div_lt_pow_of_two_le hbb2 hv), ofNat_val, ofNat_val]
      cases bigLoop radix power base (val bigBase) bigPower (val digits / val bigBase) <;> rfl
    · exact small (f + 1) digits hc hv hlt

/-! ### `to_radix_digits_le` and its callers -/

/-- **refinement theorem**: on canonical operands the digit-level `to_radix_digits_le` computes exactly
    what the value-level model computes (radix 2..=256 and not a power of two: the only way it is called) -/
theorem toRadixDigitsLeD_eq (P : Params) (hP : P.ValidMul) {r : Nat} (h2 : 2 ≤ r) (h256 : r ≤ 256)
    (hp : isPow2 r = false) (u : List Nat) (hc : Canon u) :
    toRadixDigitsLeD P u r = toRadixDigitsLe P u r := by
  obtain ⟨base, power, hg, hb, hbB, hBr, hpw⟩ := getRadixBase_ok h2 h256 hp
  have hb2 : 2 ≤ base := by
    rw [hb]
    calc 2 ≤ r := h2
      _ = r ^ 1 := (pow_one r).symm
      _ ≤ r ^ power := Nat.pow_le_pow_right (by omega) hpw
  have hfuel := val_lt_radixFuel hc.1
  unfold toRadixDigitsLeD toRadixDigitsLe
  rw [hg]
  dsimp only
  split
  · obtain ⟨hcb, hvb⟩ := fromDigit_canon hbB
    rw [squareLoopD_eq P hP _ _ _ _ hcb, hvb]
    have hsq : B ≤ base * base := by
      have : r ≤ base := by
        rw [hb]
        calc r = r ^ 1 := (pow_one r).symm
          _ ≤ r ^ power := Nat.pow_le_pow_right (by omega) hpw
      calc B ≤ base * r := hBr
        _ ≤ base * base := Nat.mul_le_mul_left _ this
    obtain ⟨j, hj⟩ := squareLoop_spec (Nat.sqrt u.length) (BITS * Nat.sqrt u.length + 1) base 1 hsq
      (by unfold BITS; omega)
    rw [hj]
    show bigLoopD P r power base (ofNat (base ^ 2 ^ j)) (1 * 2 ^ j) (radixFuel u) u = _
    have hge : 2 ≤ val (ofNat (base ^ 2 ^ j)) := by
      rw [ofNat_val]
      calc 2 ≤ base := hb2
        _ = base ^ 1 := (pow_one base).symm
        _ ≤ base ^ 2 ^ j := Nat.pow_le_pow_right (by omega) Nat.one_le_two_pow
    rw [bigLoopD_eq P hb2 (ofNat_canon _) hge _ u hc hfuel, ofNat_val]
  · exact slowLoopD_eq hb2 _ u hc hfuel

/-- `to_radix_le`: digit level = value level for EVERY radix (in range or not) -/
theorem toRadixLeD_eq (P : Params) (hP : P.ValidMul) (u : List Nat) (hc : Canon u) (r : Nat) :
    toRadixLeD P u r = toRadixLe P u r := by
  unfold toRadixLeD toRadixLe
  by_cases hr : 2 ≤ r ∧ r ≤ digRadixMax
  · rw [if_neg (not_not.2 hr), if_neg (not_not.2 hr)]
    by_cases hu : u = []
    · rw [if_pos hu, if_pos hu]
    · rw [if_neg hu, if_neg hu]
      by_cases hp : isPow2 r = true
      · rw [if_pos hp, if_pos hp]
      · rw [if_neg hp, if_neg hp]
        exact toRadixDigitsLeD_eq P hP hr.1 hr.2 (by simpa using hp) u hc
  · rw [if_pos hr, if_pos hr]

theorem toRadixBeD_eq (P : Params) (hP : P.ValidMul) (u : List Nat) (hc : Canon u) (r : Nat) :
    toRadixBeD P u r = toRadixBe P u r := by
  unfold toRadixBeD toRadixBe; rw [toRadixLeD_eq P hP u hc r]
  cases toRadixLe P u r <;> rfl

theorem bigint_toRadixLeD_eq (P : Params) (hP : P.ValidMul) (x : BigInt) (hc : Canon x.mag) (r : Nat) :
    BigInt.toRadixLeD P x r = BigInt.toRadixLe P x r ∧ BigInt.toRadixBeD P x r = BigInt.toRadixBe P x r := by
  unfold BigInt.toRadixLeD BigInt.toRadixLe BigInt.toRadixBeD BigInt.toRadixBe
  rw [toRadixLeD_eq P hP x.mag hc r, toRadixBeD_eq P hP x.mag hc r]
  constructor
  · cases toRadixLe P x.mag r <;> rfl
  · cases toRadixBe P x.mag r <;> rfl

theorem toStrRadixReversedD_eq (P : Params) (hP : P.ValidMul) (u : List Nat) (hc : Canon u) (r : Nat) :
    toStrRadixReversedD P u r = toStrRadixReversed P u r := by
  unfold toStrRadixReversedD toStrRadixReversed; rw [toRadixLeD_eq P hP u hc r]
  cases toRadixLe P u r <;> rfl

theorem toStrRadixUD_eq (P : Params) (hP : P.ValidMul) (u : List Nat) (hc : Canon u) (r : Nat) :
    toStrRadixUD P u r = toStrRadixU P u r := by
  unfold toStrRadixUD toStrRadixU; rw [toStrRadixReversedD_eq P hP u hc r]
  cases toStrRadixReversed P u r <;> rfl

theorem toStrRadixID_eq (P : Params) (hP : P.ValidMul) (x : BigInt) (hc : Canon x.mag) (r : Nat) :
    toStrRadixID P x r = toStrRadixI P x r := by
  unfold toStrRadixID toStrRadixI; rw [toStrRadixReversedD_eq P hP x.mag hc r]
  cases toStrRadixReversed P x.mag r <;> rfl

theorem fmtTripleD_eq (P : Params) (hP : P.ValidMul) (k : FmtKind) (x : BigInt) (hc : Canon x.mag) :
    fmtTripleD P k x = fmtTriple P k x := by
  unfold fmtTripleD fmtTriple; rw [toStrRadixUD_eq P hP x.mag hc]
  cases toStrRadixU P x.mag (fmtRadix k) <;> rfl

theorem formatD_eq (P : Params) (hP : P.ValidMul) (k : FmtKind) (f : FmtSpec) (x : BigInt) (hc : Canon x.mag) :
    formatD P k f x = format P k f x := by
  unfold formatD format; rw [fmtTripleD_eq P hP k x hc]
  cases fmtTriple P k x <;> rfl

end NB.Radix
