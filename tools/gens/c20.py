"""C20 — work-count requests and the size-table step.

`gen`: request lines for the ordinary three-way comparison (real work counter vs Cost model):
fixed dense operands `work n m pattern` at sizes around every threshold, and `workv a b` on the
structured operand patterns of the C02 generator (zero digits, sparse, equal halves … make the
count data dependent, which is exactly what the Cost model must reproduce).

`special`: the property itself on the *measured* numbers: the balanced size table
n = 256 … 4096 (quick) / … 16384 (thorough) and the unbalanced bank (n, 2n-1), (n, 2n), (n, 64n).
"""
import json, os
from genlib import *
import c02

def gen(rng, tier):
    tS, tK = c02.thresholds()
    reqs = []
    small = [1, 2, 3, tS - 1, tS, tS + 1, 2 * tS, 2 * tS + 1, 100, tK - 1, tK, tK + 1, 300, 2 * tK, 3 * tK + 1]
    if tier == "thorough":
        small += [tK + 2, 3 * tK + 2, 3 * tK + 3, 5 * tK, 1000, 1500, 2047, 2048, 3000]
    for n in small:
        if n < 1:
            continue
        for m in (n, n + 1, 2 * n - 1, 2 * n, 2 * n + 1, 3 * n):
            if m < 1:
                continue
            reqs.append("C20 work %d %d %d" % (n, m, 0))
            reqs.append("C20 work %d %d %d" % (m, n, rng.randrange(1, 1 << 32)))
    sizes = [(2, 2), (3, 7), (tS, tS), (tS + 1, tS + 1), (tS + 1, 2 * tS + 2), (tS + 2, 3 * tS), (2 * tS + 1, 2 * tS + 3),
             (tK, tK), (tK + 1, tK + 1), (tK + 1, tK + 2), (tK + 3, 2 * tK + 5), (tK + 1, 2 * tK + 2), (3 * tK + 1, 3 * tK + 2)]
    if tier == "thorough":
        sizes += [(3 * tK + 3, 5 * tK), (4 * tK, 4 * tK + 1), (tS + 1, 20 * tS), (tK + 1, 9 * tK)]
    for (n, m) in sizes:
        pairs = c02.PAIRS if tier == "thorough" else rng.sample(c02.PAIRS, 8) + [("rand", "rand"), ("sparse", "sparse")]
        for (pa, pb) in pairs:
            a = val(c02.pat(rng, n, pa)); b = val(c02.pat(rng, m, pb))
            if rng.randrange(2):
                a, b = b, a
            reqs.append("C20 workv %s %s" % (wu(a), wu(b)))
        a = val(c02.pat(rng, n, "rand"))
        reqs.append("C20 workv %s %s" % (wu(a), wu(a)))
    # call shapes: the cost must not depend on how the operands reach mul3 (C20-s1: a squaring fast path keyed on
    # aliased slices).  Two-operand forms on every size pair, one-operand forms (aliased / pow(2)) on every size.
    two = ["rr", "vv", "vr", "rv", "assign", "assignv", "checked", "irr", "ivv", "iassign"]
    one = ["alias", "ialias", "pow2", "pow2v", "ipow2"]
    k = 0
    for (n, m) in sizes:
        for pa in ("rand", rng.choice([p for p, _ in c02.PAIRS])):
            a = val(c02.pat(rng, n, pa)); b = val(c02.pat(rng, m, "rand"))
            fs = two if tier == "thorough" else [two[(k + j) % len(two)] for j in range(3)]
            k += 3
            for f in fs:
                reqs.append("C20 workf %s %s %s" % (f, wu(a), wu(b)))
            for x in (a, b):
                for f in (one if tier == "thorough" else [one[k % len(one)], one[(k + 2) % len(one)]]):
                    reqs.append("C20 workf %s %s %s" % (f, wu(x), wu(x)))
                k += 1
    for n in small:
        for f in one[:3]:
            reqs.append("C20 worksq %s %d %d" % (f, n, rng.randrange(1 << 20)))
    # small top digits: a buffer-size computation that depends on the leading zeros of the top digits (C20-u1: `*=`
    # drops the spare digit and mac3 then falls back to long multiplication) is invisible with full top digits
    for (n, m) in sizes + [(300, 300), (tK + 40, tK + 40)]:
        for (ta, tb) in ((1, 1), (1, MAX), (rng.randrange(1, 1 << 20), rng.randrange(1, 1 << 30)), (1 << 31, 1 << 32), ((1 << 32) - 1, (1 << 32) - 1)):
            a = c02.pat(rng, n, "rand"); b = c02.pat(rng, m, "rand")
            a[-1], b[-1] = ta, tb
            for f in (two if tier == "thorough" else [two[k % len(two)], "assign", "assignv", "iassign"]):
                reqs.append("C20 workf %s %s %s" % (f, wu(val(a)), wu(val(b))))
            k += 1
            reqs.append("C20 workf %s %s %s" % (one[k % len(one)], wu(val(a)), wu(val(a))))
    return reqs

def _num(r):
    if r is None or not r.startswith("ok "):
        return None
    try:
        return int(r.split()[1])
    except ValueError:
        return None

def special(ctx):
    """size table on the measured work counter; returns violations with replays naming the sizes"""
    out = {"coverage": {}, "violations": [], "errors": [], "notes": []}
    if not ctx["hooks_on"] or "release" not in ctx["bins"]:
        out["notes"].append("C20 size table skipped: work counter hook unavailable")
        return out
    tier, pid = ctx["tier"], ctx["pid"]
    top = 16384   # the property's whole balanced table in both tiers (the real counter is cheap; the Lean cost model takes a few seconds)
    balanced = []
    n = 256
    while n <= top:
        balanced.append(n); n *= 2
    if 4096 not in balanced:
        balanced.append(4096)
    unb_n = [33, 100, 256, 257, 300] + ([512, 1000] if tier == "thorough" else [])
    unbalanced = []
    for n in unb_n:
        unbalanced += [(n, 2 * n - 1), (n, 2 * n), (n, 64 * n)]
    patterns = [0] + ([1, 2] if tier == "thorough" else [])
    shapes = [(n, n) for n in balanced] + unbalanced
    lines = ["C20 work %d %d %d" % (n, m, p) for p in patterns for (n, m) in shapes]
    sqlines = ["C20 worksq %s %d %d" % (f, n, p) for p in patterns for n in balanced for f in ("alias", "pow2")]
    wlines = ["C20 wnom %d %d" % (n, m) for (n, m) in shapes]
    impl = [r.split(" # ")[0] if r else r for r in ctx["run_harness"](ctx["bins"]["release"], lines, timeout_per_batch=600)]
    mo = ctx["run_driver"](lines + wlines)
    model = [m for (m, _) in mo[:len(lines)]]
    wnom = {s: _num(m) for s, (m, _) in zip(shapes, mo[len(lines):])}
    table = {}
    viol = []

    def report(kind, sizes, detail, request, suffix=""):
        path = ctx["write_replay"](pid, {"property": pid, "kind": kind, "request": request, "operand_sizes": sizes,
                                        "detail": detail, "tier": tier,
                                        "explanation": "work = sum of row lengths passed to mac_digit while computing the product of the fixed "
                                                       "dense operands of these sizes (harness op `C20 work n m pattern`)"})
        viol.append((path, suffix))

    for l, r, m in zip(lines, impl, model):
        _, _, n, mm, p = l.split()
        n, mm, p = int(n), int(mm), int(p)
        w = _num(r)
        if w is None:
            out["errors"].append("C20 size table: no work count for `%s`: %s" % (l, r))
            continue
        table[(n, mm, p)] = w
        if r != m and len([v for v in viol if v[1]]) < 2:
            report("correspondence", [n, mm], {"impl_work": w, "cost_model": m}, l, " no-failing-input-found")
        wn = wnom.get((n, mm))
        if wn is not None and w > wn and len([v for v in viol if v[1]]) < 2:
            report("correspondence", [n, mm], {"impl_work": w, "nominal_W": wn,
                   "note": "the nominal recurrence W no longer dominates the measured work"}, l, " no-failing-input-found")
    ratios = {}
    for p in patterns:
        for n in balanced:
            a, b = table.get((2 * n, 2 * n, p)), table.get((n, n, p))
            if a is None or b is None:
                continue
            ratios["%d->%d p%d" % (n, 2 * n, p)] = round(a / b, 4)
            if 4 * a > 13 * b:
                report("failing-input", [[n, n], [2 * n, 2 * n]], {"work_n": b, "work_2n": a, "ratio": a / b, "bound": 3.25},
                       "C20 work %d %d %d" % (2 * n, 2 * n, p))
        w4096 = table.get((4096, 4096, p))
        if w4096 is not None and 4 * w4096 >= 4096 ** 2:
            report("failing-input", [4096, 4096], {"work": w4096, "schoolbook": 4096 ** 2, "bound": "4*work < 4096^2"},
                   "C20 work 4096 4096 %d" % p)
        for (n, m) in unbalanced:
            w = table.get((n, m, p))
            if w is not None and w > n * m:
                report("failing-input", [n, m], {"work": w, "schoolbook": n * m}, "C20 work %d %d %d" % (n, m, p))
    # the squaring rows: the same bounds for `&a * &a` and `a.pow(2)` on the dense operand
    simpl = [r.split(" # ")[0] if r else r for r in ctx["run_harness"](ctx["bins"]["release"], sqlines, timeout_per_batch=600)]
    smodel = [m for (m, _) in ctx["run_driver"](sqlines)]
    sq = {}
    for l, r, m in zip(sqlines, simpl, smodel):
        _, _, f, n, p = l.split()
        n, p = int(n), int(p)
        w = _num(r)
        if w is None:
            out["errors"].append("C20 size table: no work count for `%s`: %s" % (l, r))
            continue
        sq[(f, n, p)] = w
        if r != m and len([v for v in viol if v[1]]) < 2:
            report("correspondence", [n, n], {"impl_work": w, "cost_model": m, "form": f}, l, " no-failing-input-found")
    for (f, n, p), b in sorted(sq.items()):
        a = sq.get((f, 2 * n, p))
        if a is not None:
            ratios["sq-%s %d->%d p%d" % (f, n, 2 * n, p)] = round(a / b, 4)
            if 4 * a > 13 * b:
                report("failing-input", [[n, n], [2 * n, 2 * n]], {"work_n": b, "work_2n": a, "ratio": a / b, "bound": 3.25, "form": f},
                       "C20 worksq %s %d %d" % (f, 2 * n, p))
        if n == 4096 and 4 * b >= 4096 ** 2:
            report("failing-input", [4096, 4096], {"work": b, "schoolbook": 4096 ** 2, "bound": "4*work < 4096^2", "form": f},
                   "C20 worksq %s 4096 %d" % (f, p))
    out["violations"] = viol[:6]
    out["coverage"] = {"size_table": {"%dx%d p%d" % k: v for k, v in sorted(table.items())},
                       "doubling_ratios": ratios,
                       "nominal_W": {"%dx%d" % k: v for k, v in sorted(wnom.items())},
                       "squaring_table": {"%s %dx%d p%d" % (f, n, n, p): v for (f, n, p), v in sorted(sq.items())},
                       "size_table_requests": len(lines) + len(sqlines)}
    return out
