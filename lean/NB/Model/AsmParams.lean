/- the parameter record `NB.Gen.P` assembled from the generated constants and asm programs -/
import NB.Base
import NB.Gen.Params
import NB.Gen.AsmProg
namespace NB.Gen
open NB.Asm

/-- how far the loop body advances register `r`: number of `inc r` instructions -/
def idxStep (prog : List Instr) (r : Nat) : Nat :=
  (prog.filter (fun i => i == Instr.inc r)).length

def P : NB.Params where
  addBlk := ⟨idxStep addProg addReg_idx, addDiv⟩
  subBlk := ⟨idxStep subProg subReg_idx, subDiv⟩
  tSchool := tSchool
  halfMul := halfMul
  tKara := tKara
  halfDen := halfDen
  karaDen := karaDen
  toomDen := toomDen
  toomAdd := toomAdd
  karaSlack := karaSlack
  mulSlack := mulSlack
  bigBase := bigBase
  window := window
  squarings := squarings

end NB.Gen
