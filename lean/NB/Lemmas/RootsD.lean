/- helper lemmas for the C11 layer link: the digit-level roots model NB.Model.RootsD refines the
   value-level model NB.Model.Roots (operator theorems of C01, C02, C03, C07, C12 glued together) -/
import NB.Model.RootsD
import NB.Lemmas.Roots
import NB.Lemmas.Convert
import NB.Props.C01
import NB.Props.C02
import NB.Props.C03
import NB.Props.C07
import NB.Props.C12
namespace NB.RootsD
open NB.Roots

/-! ### `ofNat` / `val` bookkeeping -/

theorem ofNat_zero : ofNat 0 = [] := by unfold ofNat; simp

theorem ofNat_one : ofNat 1 = [1] := by
  have h : Canon [1] := by decide
  have := canon_eq_ofNat h
  simpa [val] using this.symm

theorem ofNat_eq_nil_iff (n : Nat) : ofNat n = [] ↔ n = 0 := by
  constructor
  · intro h
    have := ofNat_val n
    rw [h] at this; simpa [val] using this.symm
  · intro h; subst h; exact ofNat_zero

theorem ofNat_eq_one_iff (n : Nat) : ofNat n = [1] ↔ n = 1 := by
  constructor
  · intro h
    have := ofNat_val n
    rw [h] at this; simpa [val] using this.symm
  · intro h; subst h; exact ofNat_one

theorem ofNat_inj {m n : Nat} (h : ofNat m = ofNat n) : m = n := by
  rw [← ofNat_val m, h, ofNat_val]

theorem fromDigit_eq_ofNat {d : Nat} (hd : d < B) : fromDigit d = ofNat d := by
  unfold fromDigit
  by_cases h0 : d = 0
  · subst h0; simp [ofNat_zero]
  · simp only [h0, if_false]
    have hc : Canon [d] := ⟨by intro e he; simp at he; omega, by simpa using h0⟩
    have := canon_eq_ofNat hc
    simpa [val] using this

/-- map of the value-level outcome to canonical digits -/
abbrev liftU (r : Except Panic Nat) : Except Panic (List Nat) := r.map ofNat

theorem liftU_ok (v : Nat) : liftU (.ok v) = .ok (ofNat v) := rfl
theorem liftU_error (e : Panic) : liftU (.error e) = .error e := rfl

/-! ### operators on `ofNat` arguments -/

theorem mulRef_ofNat (P : Params) (hP : P.ValidMul) (a b : Nat) :
    Mul.mulRef P (ofNat a) (ofNat b) = .ok (ofNat (a * b)) := by
  rw [mul_spec P hP _ _ (ofNat_canon a) (ofNat_canon b), ofNat_val, ofNat_val]

theorem mulAssign_ofNat (P : Params) (hP : P.ValidMul) (a b : Nat) :
    Mul.mulAssign P (ofNat a) (ofNat b) = .ok (ofNat (a * b)) := by
  rw [mulAssign_spec P hP _ _ (ofNat_canon a) (ofNat_canon b), ofNat_val, ofNat_val]

theorem divRef_ofNat (P : Params) (a b : Nat) :
    divRef P (ofNat a) (ofNat b) = if b = 0 then .error .divzero else .ok (ofNat (a / b)) := by
  rw [divRef_spec P _ _ (ofNat_canon a) (ofNat_canon b), ofNat_val, ofNat_val]
  by_cases hb : b = 0
  · subst hb; simp [ofNat_zero]
  · have : ofNat b ≠ [] := fun h => hb ((ofNat_eq_nil_iff b).mp h)
    simp [hb, this]

theorem addAssign_ofNat (P : Params) (a b : Nat) : addAssign P (ofNat a) (ofNat b) = ofNat (a + b) := by
  rw [addAssign_spec P _ _ (ofNat_canon a) (ofNat_canon b), ofNat_val, ofNat_val]

theorem scalarMul_ofNat (a d : Nat) (hd : d < B) : Mul.scalarMul (ofNat a) d = ofNat (a * d) := by
  rw [scalar_mul_val _ d (ofNat_canon a) hd, ofNat_val]

theorem divRemDigit_ofNat (a b : Nat) :
    divRemDigit (ofNat a) b = if b = 0 then .error .divzero else .ok (ofNat (a / b), a % b) := by
  rw [div_rem_digit_spec _ b (ofNat_digitsOk a), ofNat_val]

theorem shl_ofNat (a k : Nat) (hk : k / C07.BITS < C07.USIZE_RANGE) :
    C07.biguintShl (ofNat a) (k : Int) = .ok (ofNat (a * 2 ^ k)) := by
  have := C07.shl_spec (ofNat a) (k : Int) (ofNat_canon a) (by omega) (fun _ => by simpa using hk)
  rw [this, ofNat_val]; simp

/-- `>>` without the length hypothesis of `C07.shr_spec`, for amounts whose digit count fits `usize` -/
theorem shr_ofNat (a k : Nat) (hk : k / C07.BITS < C07.USIZE_RANGE) :
    C07.biguintShr (ofNat a) (k : Int) = .ok (ofNat (a / 2 ^ k)) := by
  unfold C07.biguintShr
  have hk' : ¬ ((k : Int) < 0) := by omega
  simp only [hk', if_false]
  by_cases h0 : ofNat a = []
  · have ha : a = 0 := (ofNat_eq_nil_iff a).mp h0
    subst ha; simp [ofNat_zero]
  · simp only [h0, if_false, Int.toNat_natCast, hk, if_true]
    obtain ⟨h1, h2⟩ := C07.shr2_spec (ofNat a) (k / C07.BITS) (k % C07.BITS) (ofNat_digitsOk a)
      (Nat.mod_lt _ (by decide))
    rw [Nat.div_add_mod] at h1
    rw [canon_eq_ofNat h2, h1, ofNat_val]

theorem oneShl_spec (mb : Nat) (hmb : mb / C07.BITS < C07.USIZE_RANGE) : oneShl mb = .ok (ofNat (2 ^ mb)) := by
  unfold oneShl
  rw [← ofNat_one, shl_ofNat 1 mb hmb, Nat.one_mul]

/-- `BigUint::bits` on canonical digits is the value-level bit length -/
theorem bitsU_eq_bits {a : List Nat} (ha : Canon a) : C07.bitsU a = bits (val a) := by
  by_cases h0 : a = []
  · subst h0; simp [C07.bitsU, val, bits]
  · obtain ⟨hlo, hhi⟩ := C07.bits_bounds_u a ha h0
    have hpos := canon_val_pos ha h0
    have h1 : bits (val a) > C07.bitsU a - 1 := (bits_gt_iff _ _).mpr hlo
    have h2 : ¬ bits (val a) > C07.bitsU a := fun h => by
      have := (bits_gt_iff _ _).mp h; omega
    have h3 : 0 < C07.bitsU a := by
      by_contra hc
      have : C07.bitsU a = 0 := by omega
      rw [this] at hhi; simp at hhi; omega
    omega

theorem bitsU_ofNat (v : Nat) : C07.bitsU (ofNat v) = bits v := by
  rw [bitsU_eq_bits (ofNat_canon v), ofNat_val]

theorem cmpSlice_ofNat (a b : Nat) : cmpSlice (ofNat a) (ofNat b) = compare a b := by
  rw [cmpSlice_spec (ofNat_canon a) (ofNat_canon b), ofNat_val, ofNat_val]

theorem cmpSlice_lt_iff (a b : Nat) : cmpSlice (ofNat a) (ofNat b) = .lt ↔ a < b := by
  rw [cmpSlice_ofNat]; exact Nat.compare_eq_lt

theorem cmpSlice_gt_iff (a b : Nat) : cmpSlice (ofNat a) (ofNat b) = .gt ↔ a > b := by
  rw [cmpSlice_ofNat]; exact Nat.compare_eq_gt

/-! ### `pow` on digits -/

theorem sqLoopD_refines (P : Params) (hP : P.ValidMul) : ∀ (fuel b e : Nat),
    sqLoopD P fuel (ofNat b) e = (Pow.sqLoop fuel b e).map (fun p => (ofNat p.1, p.2)) := by
  intro fuel
  induction fuel with
  | zero => intro b e; rfl
  | succ fuel ih =>
    intro b e
    simp only [sqLoopD, Pow.sqLoop]
    by_cases hc : e &&& 1 = 0
    · simp only [hc, if_true, mulRef_ofNat P hP]
      exact ih _ _
    · simp only [hc, if_false]; rfl

theorem accLoopD_refines (P : Params) (hP : P.ValidMul) : ∀ (fuel b e acc : Nat),
    accLoopD P fuel (ofNat b) e (ofNat acc) = liftU (Pow.accLoop fuel b e acc) := by
  intro fuel
  induction fuel with
  | zero => intro b e acc; rfl
  | succ fuel ih =>
    intro b e acc
    simp only [accLoopD, Pow.accLoop]
    by_cases hc : e > 1
    · simp only [hc, if_true, mulRef_ofNat P hP]
      by_cases hb : (e >>> 1) &&& 1 = 1
      · simp only [hb, if_true, mulAssign_ofNat P hP]
        exact ih _ _ _
      · simp only [hb, if_false]
        exact ih _ _ _
    · simp only [hc, if_false]; rfl

theorem powVVD_refines (P : Params) (hP : P.ValidMul) (x e : Nat) :
    powVVD P (ofNat x) e = liftU (Pow.powVV x e) := by
  unfold powVVD Pow.powVV
  by_cases h0 : e = 0
  · simp only [h0, if_true]; rw [← ofNat_one]; rfl
  · simp only [h0, if_false, sqLoopD_refines P hP]
    cases h : Pow.sqLoop (Pow.powFuel e) x e with
    | error p => rfl
    | ok p =>
      obtain ⟨b', e'⟩ := p
      simp only [Except.map]
      by_cases h1 : e' = 1
      · simp only [h1, if_true]; rfl
      · simp only [h1, if_false]
        exact accLoopD_refines P hP _ _ _ _

/-- `s.pow(e)` on canonical digits returns the canonical digits of `val s ^ e` -/
theorem powRVD_spec (P : Params) (hP : P.ValidMul) (x e : Nat) :
    powRVD P (ofNat x) e = .ok (ofNat (x ^ e)) := by
  unfold powRVD
  by_cases h0 : e = 0
  · subst h0; simp [ofNat_one]
  · simp only [h0, if_false, powVVD_refines P hP, Pow.powVV_ok]
    rfl

/-! ### the three closures -/

/-- a digit-level closure refines a value-level closure (on canonical arguments) -/
def StepRefines (fD : List Nat → Except Panic (List Nat)) (f : Nat → Except Panic Nat) : Prop :=
  ∀ v, fD (ofNat v) = liftU (f v)

theorem stepNthD_refines (P : Params) (hP : P.ValidMul) (x n : Nat) (hn : n ≤ B) :
    StepRefines (stepNthD P (ofNat x) n) (stepNth x n) := by
  intro s
  unfold stepNthD stepNth
  simp only [powRVD_spec P hP, divRef_ofNat]
  by_cases hd : s ^ (n - 1) = 0
  · simp only [hd, if_true]; rfl
  · simp only [hd, if_false]
    rw [scalarMul_ofNat _ _ (by have := B_pos; omega), addAssign_ofNat, divRemDigit_ofNat]
    by_cases h0 : n = 0
    · simp only [h0, if_true]; rfl
    · simp only [h0, if_false]; rw [Nat.mul_comm s]; rfl

theorem stepSqrtD_refines (P : Params) (x : Nat) : StepRefines (stepSqrtD P (ofNat x)) (stepSqrt x) := by
  intro s
  unfold stepSqrtD stepSqrt
  simp only [divRef_ofNat]
  by_cases hd : s = 0
  · simp only [hd, if_true]; rfl
  · simp only [hd, if_false]
    rw [addAssign_ofNat]
    have := shr_ofNat (x / s + s) 1 (by decide)
    rw [Nat.cast_one] at this
    rw [this, Nat.shiftRight_eq_div_pow, Nat.add_comm]; rfl

theorem stepCbrtD_refines (P : Params) (hP : P.ValidMul) (x : Nat) :
    StepRefines (stepCbrtD P (ofNat x)) (stepCbrt x) := by
  intro s
  unfold stepCbrtD stepCbrt
  simp only [mulRef_ofNat P hP, divRef_ofNat]
  by_cases hd : s * s = 0
  · simp only [hd, if_true]; rfl
  · simp only [hd, if_false]
    have := shl_ofNat s 1 (by decide)
    rw [Nat.cast_one] at this
    simp only [this, addAssign_ofNat, divRemDigit_ofNat, Nat.shiftLeft_eq]
    rfl

/-! ### `fixpoint` -/

theorem climbD_refines {fD : List Nat → Except Panic (List Nat)} {f : Nat → Except Panic Nat}
    (hf : StepRefines fD f) (mb : Nat) (hmb : mb / C07.BITS < C07.USIZE_RANGE) : ∀ (fuel x xn : Nat),
    climbD fD mb fuel (ofNat x) (ofNat xn) =
      (climb f mb fuel x xn).map (fun p => (ofNat p.1, ofNat p.2)) := by
  intro fuel
  induction fuel with
  | zero => intro x xn; rfl
  | succ fuel ih =>
    intro x xn
    simp only [climbD, climb]
    by_cases hc : x < xn
    · rw [if_pos ((cmpSlice_lt_iff _ _).mpr hc), if_pos hc, bitsU_ofNat]
      by_cases hb : bits xn > mb
      · simp only [hb, if_true, oneShl_spec mb hmb, Nat.one_shiftLeft, hf (2 ^ mb)]
        cases h : f (2 ^ mb) with
        | error e => rfl
        | ok v => exact ih _ _
      · simp only [hb, if_false, hf xn]
        cases h : f xn with
        | error e => rfl
        | ok v => exact ih _ _
    · have : ¬ cmpSlice (ofNat x) (ofNat xn) = .lt := fun h => hc ((cmpSlice_lt_iff _ _).mp h)
      rw [if_neg this, if_neg hc]; rfl

theorem descendD_refines {fD : List Nat → Except Panic (List Nat)} {f : Nat → Except Panic Nat}
    (hf : StepRefines fD f) : ∀ (fuel x xn : Nat),
    descendD fD fuel (ofNat x) (ofNat xn) = liftU (descend f fuel x xn) := by
  intro fuel
  induction fuel with
  | zero => intro x xn; rfl
  | succ fuel ih =>
    intro x xn
    simp only [descendD, descend]
    by_cases hc : x > xn
    · rw [if_pos ((cmpSlice_gt_iff _ _).mpr hc), if_pos hc, hf xn]
      cases h : f xn with
      | error e => rfl
      | ok v => exact ih _ _
    · have : ¬ cmpSlice (ofNat x) (ofNat xn) = .gt := fun h => hc ((cmpSlice_gt_iff _ _).mp h)
      rw [if_neg this, if_neg hc]; rfl

/-- `fixpoint` on digits = `fixpoint` on values, for every fuel, guess and closure pair -/
theorem fixpointD_refines {fD : List Nat → Except Panic (List Nat)} {f : Nat → Except Panic Nat}
    (hf : StepRefines fD f) (mb : Nat) (hmb : mb / C07.BITS < C07.USIZE_RANGE) (fuel g : Nat) :
    fixpointD fuel (ofNat g) mb fD = liftU (fixpoint fuel g mb f) := by
  unfold fixpointD fixpoint
  rw [hf g]
  cases h : f g with
  | error e => rfl
  | ok xn =>
    simp only [liftU, Except.map, climbD_refines hf mb hmb]
    cases h2 : climb f mb fuel g xn with
    | error e => rfl
    | ok p =>
      obtain ⟨a, b⟩ := p
      exact descendD_refines hf fuel a b

/-! ### sizes: every shift amount of the root code has a digit count that fits `usize` -/

/-- "a `Vec` is shorter than `usize::MAX`" (the hypothesis of `C07.shr_spec`) -/
def SizeOk (x : List Nat) : Prop := x.length < C07.USIZE_RANGE

theorem bits_le_len (x : Nat) : bits x ≤ C07.BITS * (ofNat x).length := by
  by_contra hc
  have h1 : 2 ^ (C07.BITS * (ofNat x).length) ≤ x := (bits_gt_iff _ _).mp (by omega)
  have h2 := val_lt (ofNat_digitsOk x)
  rw [ofNat_val, B_eq, ← pow_mul] at h2
  exact absurd h1 (by simpa [C07.BITS] using h2)

theorem shift_ok {x k : Nat} (hlen : SizeOk (ofNat x)) (hk : k ≤ bits x + 1) :
    k / C07.BITS < C07.USIZE_RANGE := by
  have h1 := bits_le_len x
  unfold SizeOk at hlen
  have : k / C07.BITS ≤ (ofNat x).length := by
    have : k ≤ C07.BITS * (ofNat x).length + 1 := by omega
    simp only [C07.BITS] at *
    omega
  omega

theorem maxBits_ok (x n : Nat) (hlen : SizeOk (ofNat x)) : (bits x / n + 1) / C07.BITS < C07.USIZE_RANGE :=
  shift_ok hlen (by have := Nat.div_le_self (bits x) n; omega)

theorem ofNat_length_mono {m n : Nat} (h : m ≤ n) : (ofNat m).length ≤ (ofNat n).length := by
  by_cases h0 : ofNat m = []
  · rw [h0]; exact Nat.zero_le _
  · have h1 := canon_val_ge (ofNat_canon m) h0
    have h2 := val_lt (ofNat_digitsOk n)
    rw [ofNat_val] at h1 h2
    by_contra hc
    have : B ^ (ofNat n).length ≤ B ^ ((ofNat m).length - 1) := Nat.pow_le_pow_right B_pos (by omega)
    omega

theorem sizeOk_mono {m n : Nat} (h : m ≤ n) (hn : SizeOk (ofNat n)) : SizeOk (ofNat m) :=
  lt_of_le_of_lt (ofNat_length_mono h) hn

/-! ### the `to_u64` fast path -/

theorem floorRoot_le (x : Nat) {n : Nat} (hn : 1 ≤ n) : floorRoot x n ≤ x := by
  rw [floorRoot_eq x hn]
  have h1 : Nat.nthRoot n x ^ n ≤ x := Nat.pow_nthRoot_le (.inl (by omega))
  by_cases h0 : Nat.nthRoot n x = 0
  · omega
  · exact le_trans (Nat.le_self_pow (by omega) _) h1

theorem u64Path_ofNat (x : Nat) {n : Nat} (hn : 1 ≤ n) :
    u64Path (ofNat x) n = .ok (if x < B then some (ofNat (floorRoot x n)) else none) := by
  unfold u64Path
  rw [Conv.toU64_spec (ofNat_canon x), ofNat_val, ← B_eq]
  by_cases hB : x < B
  · simp only [hB, if_true]
    rw [fromDigit_eq_ofNat (lt_of_le_of_lt (floorRoot_le x hn) hB)]
  · simp only [hB, if_false]

/-! ### guess sources -/

/-- the digit-level source returns the digits of what the value-level source returns, at the
    arguments with which the root functions call it -/
structure SrcRefines (SD : GuessSrcD) (S : GuessSrc) : Prop where
  nth : ∀ x n, 1 ≤ n → n ≤ B → SizeOk (ofNat x) →
    SD.nth (ofNat x) n (bits x) (bits x / n + 1) = liftU (S.nth x n (bits x) (bits x / n + 1))
  sqrt : ∀ x, SizeOk (ofNat x) →
    SD.sqrt (ofNat x) (bits x) (bits x / 2 + 1) = liftU (S.sqrt x (bits x) (bits x / 2 + 1))
  cbrt : ∀ x, SizeOk (ofNat x) →
    SD.cbrt (ofNat x) (bits x) (bits x / 3 + 1) = liftU (S.cbrt x (bits x) (bits x / 3 + 1))

/-! ### the three root functions -/

theorem sqrtD_refines (P : Params) (_hP : P.ValidMul) {SD : GuessSrcD} {S : GuessSrc} (hS : SrcRefines SD S)
    (x : Nat) (hlen : SizeOk (ofNat x)) : sqrtD P SD (ofNat x) = liftU (sqrtG S x) := by
  unfold sqrtD sqrtG
  simp only [ofNat_eq_nil_iff, ofNat_eq_one_iff]
  by_cases h01 : x = 0 ∨ x = 1
  · simp only [h01, if_true]; rfl
  · simp only [h01, if_false, u64Path_ofNat x (show 1 ≤ 2 by decide)]
    by_cases hB : x < B
    · simp only [hB, if_true]; rfl
    · simp only [hB, if_false, bitsU_ofNat, hS.sqrt x hlen]
      cases h : S.sqrt x (bits x) (bits x / 2 + 1) with
      | error e => rfl
      | ok g =>
        simp only [liftU, Except.map, ofNat_val]
        exact fixpointD_refines (stepSqrtD_refines P x) _ (maxBits_ok x 2 hlen) _ g

theorem cbrtD_refines (P : Params) (hP : P.ValidMul) {SD : GuessSrcD} {S : GuessSrc} (hS : SrcRefines SD S)
    (x : Nat) (hlen : SizeOk (ofNat x)) : cbrtD P SD (ofNat x) = liftU (cbrtG S x) := by
  unfold cbrtD cbrtG
  simp only [ofNat_eq_nil_iff, ofNat_eq_one_iff]
  by_cases h01 : x = 0 ∨ x = 1
  · simp only [h01, if_true]; rfl
  · simp only [h01, if_false, u64Path_ofNat x (show 1 ≤ 3 by decide)]
    by_cases hB : x < B
    · simp only [hB, if_true]; rfl
    · simp only [hB, if_false, bitsU_ofNat, hS.cbrt x hlen]
      cases h : S.cbrt x (bits x) (bits x / 3 + 1) with
      | error e => rfl
      | ok g =>
        simp only [liftU, Except.map, ofNat_val]
        exact fixpointD_refines (stepCbrtD_refines P hP x) _ (maxBits_ok x 3 hlen) _ g

theorem nthRootD_refines (P : Params) (hP : P.ValidMul) {SD : GuessSrcD} {S : GuessSrc} (hS : SrcRefines SD S)
    (x n : Nat) (hn : n ≤ B) (hlen : SizeOk (ofNat x)) : nthRootD P SD (ofNat x) n = liftU (nthRootG S x n) := by
  unfold nthRootD nthRootG
  simp only [ofNat_eq_nil_iff, ofNat_eq_one_iff]
  by_cases hn0 : n = 0
  · simp only [hn0, if_true]; rfl
  simp only [hn0, if_false]
  by_cases h01 : x = 0 ∨ x = 1
  · simp only [h01, if_true]; rfl
  simp only [h01, if_false]
  by_cases hn1 : n = 1
  · simp only [hn1, if_true]; rfl
  simp only [hn1, if_false]
  by_cases hn2 : n = 2
  · simp only [hn2, if_true]; exact sqrtD_refines P hP hS x hlen
  simp only [hn2, if_false]
  by_cases hn3 : n = 3
  · simp only [hn3, if_true]; exact cbrtD_refines P hP hS x hlen
  simp only [hn3, if_false, bitsU_ofNat]
  by_cases hb : bits x ≤ n
  · simp only [hb, if_true]; rw [← ofNat_one]; rfl
  simp only [hb, if_false, u64Path_ofNat x (show 1 ≤ n by omega)]
  by_cases hB : x < B
  · simp only [hB, if_true]; rfl
  · simp only [hB, if_false, hS.nth x n (by omega) hn hlen]
    cases h : S.nth x n (bits x) (bits x / n + 1) with
    | error e => rfl
    | ok g =>
      simp only [liftU, Except.map, ofNat_val]
      exact fixpointD_refines (stepNthD_refines P hP x n hn) _ (maxBits_ok x n hlen) _ g

/-! ### the two configurations -/

theorem nostd_refines : SrcRefines nostdSrcD nostdSrc where
  nth := fun x n _ _ hlen => by
    simp only [nostdSrcD, nostdSrc, oneShl_spec _ (maxBits_ok x n hlen), Nat.one_shiftLeft]; rfl
  sqrt := fun x hlen => by
    simp only [nostdSrcD, nostdSrc, oneShl_spec _ (maxBits_ok x 2 hlen), Nat.one_shiftLeft]; rfl
  cbrt := fun x hlen => by
    simp only [nostdSrcD, nostdSrc, oneShl_spec _ (maxBits_ok x 3 hlen), Nat.one_shiftLeft]; rfl

theorem extraBits_le {b e : Nat} (h : extraBits b = .ok e) : e + 1023 = b := by
  unfold extraBits at h
  have h1023 : f64MaxExp - 1 = 1023 := rfl
  rw [h1023] at h
  by_cases hb : b < 1023
  · rw [if_pos hb] at h; cases h
  · rw [if_neg hb] at h
    have h' : b - 1023 = e := by injection h
    omega

theorem divCeil_le (e : Nat) {n : Nat} (hn : 1 ≤ n) : Roots.divCeil e n ≤ Roots.divCeil e n * n :=
  Nat.le_mul_of_pos_right _ hn

/-- the std source on digits refines the std source on values, at every depth: the float arm is the
    same abstract evaluation, the scaled arm is `>>`, the recursive root (one level down) and `<<`
    on digits, the fallback is `1 << max_bits` -/
theorem std_refines (P : Params) (hP : P.ValidMul) (Fl : F64) : ∀ d, SrcRefines (stdSrcD P Fl d) (stdSrc Fl d) := by
  intro d
  induction d with
  | zero => exact ⟨fun _ _ _ _ _ => rfl, fun _ _ => rfl, fun _ _ => rfl⟩
  | succ d ih =>
    refine ⟨?_, ?_, ?_⟩
    · intro x n hn1 hnB hlen
      simp only [stdSrcD, stdSrc, ofNat_val]
      cases hF : Fl.nth x n with
      | some g => rfl
      | none =>
        simp only
        cases he : extraBits (bits x) with
        | error e => rfl
        | ok extra =>
          simp only
          have hle := extraBits_le he
          by_cases hc : Roots.divCeil extra n * n < bits x ∧ bits x - Roots.divCeil extra n * n > n
          · simp only [hc, and_self, if_true]
            rw [shr_ofNat x _ (shift_ok hlen (by omega))]
            simp only [Nat.shiftRight_eq_div_pow]
            rw [nthRootD_refines P hP ih _ n hnB (sizeOk_mono (Nat.div_le_self _ _) hlen)]
            cases hr : nthRootG (stdSrc Fl d) (x / 2 ^ (Roots.divCeil extra n * n)) n with
            | error e => rfl
            | ok r =>
              simp only [liftU, Except.map]
              have hrs := divCeil_le extra hn1
              rw [shl_ofNat r _ (shift_ok hlen (by omega)), Nat.shiftLeft_eq]
          · rw [if_neg hc, if_neg hc, oneShl_spec _ (maxBits_ok x n hlen), Nat.one_shiftLeft]; rfl
    · intro x hlen
      simp only [stdSrcD, stdSrc, ofNat_val]
      cases hF : Fl.sqrt x with
      | some g => rfl
      | none =>
        simp only
        cases he : extraBits (bits x) with
        | error e => rfl
        | ok extra =>
          simp only
          have hle := extraBits_le he
          rw [shr_ofNat x _ (shift_ok hlen (by omega))]
          simp only [Nat.shiftRight_eq_div_pow]
          rw [sqrtD_refines P hP ih _ (sizeOk_mono (Nat.div_le_self _ _) hlen)]
          cases hr : sqrtG (stdSrc Fl d) (x / 2 ^ ((extra + 1) / 2 * 2)) with
          | error e => rfl
          | ok r =>
            simp only [liftU, Except.map]
            rw [shl_ofNat r _ (shift_ok hlen (by omega)), Nat.shiftLeft_eq]
    · intro x hlen
      simp only [stdSrcD, stdSrc, ofNat_val]
      cases hF : Fl.cbrt x with
      | some g => rfl
      | none =>
        simp only
        cases he : extraBits (bits x) with
        | error e => rfl
        | ok extra =>
          simp only
          have hle := extraBits_le he
          rw [shr_ofNat x _ (shift_ok hlen (by omega))]
          simp only [Nat.shiftRight_eq_div_pow]
          rw [cbrtD_refines P hP ih _ (sizeOk_mono (Nat.div_le_self _ _) hlen)]
          cases hr : cbrtG (stdSrc Fl d) (x / 2 ^ ((extra + 2) / 3 * 3)) with
          | error e => rfl
          | ok r =>
            simp only [liftU, Except.map]
            rw [shl_ofNat r _ (shift_ok hlen (by omega)), Nat.shiftLeft_eq]

/-! ### statements on canonical digit vectors -/

theorem sqrtD_eq (P : Params) (hP : P.ValidMul) {SD : GuessSrcD} {S : GuessSrc} (hS : SrcRefines SD S)
    {x : List Nat} (hx : Canon x) (hlen : SizeOk x) : sqrtD P SD x = liftU (sqrtG S (val x)) := by
  have := sqrtD_refines P hP hS (val x) (by rw [← canon_eq_ofNat hx]; exact hlen)
  rwa [← canon_eq_ofNat hx] at this

theorem cbrtD_eq (P : Params) (hP : P.ValidMul) {SD : GuessSrcD} {S : GuessSrc} (hS : SrcRefines SD S)
    {x : List Nat} (hx : Canon x) (hlen : SizeOk x) : cbrtD P SD x = liftU (cbrtG S (val x)) := by
  have := cbrtD_refines P hP hS (val x) (by rw [← canon_eq_ofNat hx]; exact hlen)
  rwa [← canon_eq_ofNat hx] at this

theorem nthRootD_eq (P : Params) (hP : P.ValidMul) {SD : GuessSrcD} {S : GuessSrc} (hS : SrcRefines SD S)
    {x : List Nat} (hx : Canon x) (hlen : SizeOk x) {n : Nat} (hn : n ≤ B) :
    nthRootD P SD x n = liftU (nthRootG S (val x) n) := by
  have := nthRootD_refines P hP hS (val x) n hn (by rw [← canon_eq_ofNat hx]; exact hlen)
  rwa [← canon_eq_ofNat hx] at this

/-! ### BigInt wrappers -/

/-- map of the value-level BigInt outcome to the canonical BigInt -/
abbrev liftI (r : Except Panic Int) : Except Panic BigInt := r.map BigInt.ofInt

theorem fromBiguint_ofNat (s : Sign) (r : Nat) :
    BigInt.fromBiguint s (ofNat r) = BigInt.ofInt (IntVal.fromBiguint s r) := by
  cases s with
  | minus => rw [fromBiguint_minus (ofNat_canon r), ofNat_val]; rfl
  | nosign => simp [BigInt.fromBiguint, IntVal.fromBiguint, BigInt.ofInt]
  | plus => rw [fromBiguint_plus (ofNat_canon r), ofNat_val]; rfl

theorem canon_sign_facts {x : BigInt} (h : x.Canon) :
    IntVal.signOf x.val = x.sign ∧ x.mag = ofNat x.val.natAbs ∧ (x.sign = .minus ↔ x.val < 0) := by
  obtain ⟨hc, hs⟩ := h
  rcases x with ⟨s, m⟩
  simp only at hc hs
  cases s with
  | nosign =>
    have : m = [] := hs.mp rfl
    subst this
    simp [BigInt.val, IntVal.signOf, ofNat_zero]
  | plus =>
    have hne : m ≠ [] := fun h => by simpa using hs.mpr h
    have hpos := canon_val_pos hc hne
    simp only [BigInt.val, IntVal.signOf, Int.natAbs_natCast]
    have h1 : ¬ ((val m : Int) < 0) := by omega
    have h2 : ¬ ((val m : Int) = 0) := by omega
    simp only [h1, h2, if_false]
    exact ⟨trivial, canon_eq_ofNat hc, by simp⟩
  | minus =>
    have hne : m ≠ [] := fun h => by simpa using hs.mpr h
    have hpos := canon_val_pos hc hne
    simp only [BigInt.val, IntVal.signOf, Int.natAbs_neg, Int.natAbs_natCast]
    have h1 : (-(val m : Int) < 0) := by omega
    simp only [h1, if_true]
    exact ⟨trivial, canon_eq_ofNat hc, by simp⟩

theorem bigintNthRootD_eq (P : Params) (hP : P.ValidMul) {SD : GuessSrcD} {S : GuessSrc} (hS : SrcRefines SD S)
    {x : BigInt} (hx : x.Canon) (hlen : SizeOk x.mag) {n : Nat} (hn : n ≤ B) :
    bigintNthRootD P SD x n = liftI (bigintNthRoot S x.val n) := by
  obtain ⟨h1, h2, h3⟩ := canon_sign_facts hx
  unfold bigintNthRootD bigintNthRoot
  simp only [h3]
  by_cases hc : x.val < 0 ∧ n % 2 = 0
  · rw [if_pos hc, if_pos hc]; rfl
  · rw [if_neg hc, if_neg hc, nthRootD_eq P hP hS hx.1 hlen hn]
    have hv : val x.mag = x.val.natAbs := by rw [h2, ofNat_val]
    rw [hv]
    cases nthRootG S x.val.natAbs n with
    | error e => rfl
    | ok r => simp only [liftU, liftI, Except.map, h1, fromBiguint_ofNat]

theorem bigintSqrtD_eq (P : Params) (hP : P.ValidMul) {SD : GuessSrcD} {S : GuessSrc} (hS : SrcRefines SD S)
    {x : BigInt} (hx : x.Canon) (hlen : SizeOk x.mag) :
    bigintSqrtD P SD x = liftI (bigintSqrt S x.val) := by
  obtain ⟨h1, h2, h3⟩ := canon_sign_facts hx
  unfold bigintSqrtD bigintSqrt
  simp only [h3]
  by_cases hc : x.val < 0
  · rw [if_pos hc, if_pos hc]; rfl
  · rw [if_neg hc, if_neg hc, sqrtD_eq P hP hS hx.1 hlen]
    have hv : val x.mag = x.val.natAbs := by rw [h2, ofNat_val]
    rw [hv]
    cases sqrtG S x.val.natAbs with
    | error e => rfl
    | ok r => simp only [liftU, liftI, Except.map, h1, fromBiguint_ofNat]

theorem bigintCbrtD_eq (P : Params) (hP : P.ValidMul) {SD : GuessSrcD} {S : GuessSrc} (hS : SrcRefines SD S)
    {x : BigInt} (hx : x.Canon) (hlen : SizeOk x.mag) :
    bigintCbrtD P SD x = liftI (bigintCbrt S x.val) := by
  obtain ⟨h1, h2, _⟩ := canon_sign_facts hx
  unfold bigintCbrtD bigintCbrt
  rw [cbrtD_eq P hP hS hx.1 hlen]
  have hv : val x.mag = x.val.natAbs := by rw [h2, ofNat_val]
  rw [hv]
  cases cbrtG S x.val.natAbs with
  | error e => rfl
  | ok r => simp only [liftU, liftI, Except.map, h1, fromBiguint_ofNat]

end NB.RootsD
