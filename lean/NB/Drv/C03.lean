/- driver handlers for stream C03 (division) -/
import NB.Wire
import NB.Model.Div
import NB.Model.AsmParams
import NB.Model.Scalar
import NB.Model.ScalarD
namespace NB.Drv.C03
open NB NB.Wire

def P := NB.Gen.P

def su := showExcept showLimbs
def si := showExcept showBigInt
def showPairU (p : List Nat × List Nat) : String := showLimbs p.1 ++ " " ++ showLimbs p.2
def showPairI (p : BigInt × BigInt) : String := showBigInt p.1 ++ " " ++ showBigInt p.2
def sup := showExcept showPairU
def sip := showExcept showPairI

def showChecked {α} (f : α → String) : Except Panic (Option α) → String
  | .ok r => showOpt f r
  | .error p => "panic " ++ p.toString

/-- oracle wrappers: mathematical result or the documented zero-divisor panic -/
def oU (b : Nat) (r : Nat) : Except Panic (List Nat) :=
  if b = 0 then .error .divzero else .ok (ofNat r)
def oUP (b : Nat) (q r : Nat) : Except Panic (List Nat × List Nat) :=
  if b = 0 then .error .divzero else .ok (ofNat q, ofNat r)
def oI (b : Int) (r : Int) : Except Panic BigInt :=
  if b = 0 then .error .divzero else .ok (BigInt.ofInt r)
def oIP (b : Int) (q r : Int) : Except Panic (BigInt × BigInt) :=
  if b = 0 then .error .divzero else .ok (BigInt.ofInt q, BigInt.ofInt r)
def oC {α} (z : Bool) (v : α) : Except Panic (Option α) := .ok (if z then none else some v)

def ceilDivNat (a b : Nat) : Nat := if a % b = 0 then a / b else a / b + 1
def ceilDivInt (a b : Int) : Int := - (Int.fdiv (-a) b)

def pad (l : List Nat) (n : Nat) : List Nat := l ++ List.replicate (n - l.length) 0

/-! #### api-coverage: scalar division forms (`<type>:<decimal>` tokens), modelled by the digit-level leaves of
     NB.Model.ScalarD (promotion cast, then the leaf impl as written) -/

def styOfName (s : String) : Option STy :=
  if s == "u8" then some .u8 else if s == "u16" then some .u16 else if s == "u32" then some .u32
  else if s == "u64" then some .u64 else if s == "u128" then some .u128 else if s == "usize" then some .usize
  else if s == "i8" then some .i8 else if s == "i16" then some .i16 else if s == "i32" then some .i32
  else if s == "i64" then some .i64 else if s == "i128" then some .i128 else if s == "isize" then some .isize
  else none

def parseScalarTok (s : String) : Option (STy × Int) :=
  match s.splitOn ":" with
  | [t, v] => do
    let ty ← styOfName t
    let x ← parseInt v
    if ty.InRange x then pure (ty, x) else none
  | _ => none

/-- (operator, position, dividend-is-the-scalar) of a scalar op name -/
def scalarOpOf : String → Option (AOp × SPos × Bool)
  | "div_s" => some (.div, .bigScalar, false) | "rem_s" => some (.rem, .bigScalar, false)
  | "s_div" => some (.div, .scalarBig, true) | "s_rem" => some (.rem, .scalarBig, true)
  | "div_assign_s" => some (.div, .assign, false) | "rem_assign_s" => some (.rem, .assign, false)
  | _ => none

def scalarHandle (op : String) (args : List String) : Option (String × String) :=
  match op, args with
  | "s.rem_assign_u", [tv, a] => do
    let (t, s) ← parseScalarTok tv; let a ← parseLimbs a
    pure (showExcept showBigInt ((SD.dRemAssignScalar t s a).map BigInt.ofInt),
          si (oI (val a) (Int.tmod s (val a))))
  | _, [p, q] =>
    if op.startsWith "u." then do
      let (aop, pos, sLeft) ← scalarOpOf (op.drop 2).toString
      let (a, tv) := if sLeft then (q, p) else (p, q)
      let a ← parseLimbs a; let (t, s) ← parseScalarTok tv
      if t.signed then none else
      let x : Nat := if sLeft then s.toNat else val a
      let y : Nat := if sLeft then val a else s.toNat
      pure (su (SD.uScalarForm P aop pos t a s), su (oU y (if aop == .div then x / y else x % y)))
    else if op.startsWith "i." then do
      let (aop, pos, sLeft) ← scalarOpOf (op.drop 2).toString
      let (a, tv) := if sLeft then (q, p) else (p, q)
      let a ← parseBigInt a; let (t, s) ← parseScalarTok tv
      let x : Int := if sLeft then s else a.val
      let y : Int := if sLeft then a.val else s
      pure (si (SD.iScalarForm P aop pos t a s), si (oI y (if aop == .div then Int.tdiv x y else Int.tmod x y)))
    else none
  | _, _ => none

def handle (op : String) (args : List String) : Option (String × String) :=
  match op, args with
  -- BigUint
  | "u.div", [a, b] | "u.div_assign", [a, b] | "u.div_floor", [a, b] | "u.div_euclid", [a, b] => do
    let a ← parseLimbs a; let b ← parseLimbs b
    pure (su (divRef P a b), su (oU (val b) (val a / val b)))
  | "u.div_vv", [a, b] => do
    let a ← parseLimbs a; let b ← parseLimbs b
    pure (su (divVal P a b), su (oU (val b) (val a / val b)))
  | "u.rem", [a, b] | "u.rem_assign", [a, b] | "u.rem_euclid", [a, b] => do
    let a ← parseLimbs a; let b ← parseLimbs b
    pure (su (remRef P a b), su (oU (val b) (val a % val b)))
  | "u.rem_vv", [a, b] => do
    let a ← parseLimbs a; let b ← parseLimbs b
    pure (su (remVal P a b), su (oU (val b) (val a % val b)))
  | "u.mod_floor", [a, b] => do
    let a ← parseLimbs a; let b ← parseLimbs b
    pure (su (modFloor P a b), su (oU (val b) (val a % val b)))
  | "u.div_rem", [a, b] | "u.div_mod_floor", [a, b] | "u.div_rem_euclid", [a, b] => do
    let a ← parseLimbs a; let b ← parseLimbs b
    pure (sup (divRemRef P a b), sup (oUP (val b) (val a / val b) (val a % val b)))
  | "u.div_ceil", [a, b] => do
    let a ← parseLimbs a; let b ← parseLimbs b
    pure (su (divCeil P a b), su (oU (val b) (ceilDivNat (val a) (val b))))
  | "u.checked_div", [a, b] => do
    let a ← parseLimbs a; let b ← parseLimbs b
    pure (showChecked showLimbs (checkedDiv P a b), showChecked showLimbs (oC (val b == 0) (ofNat (val a / val b))))
  | "u.checked_div_euclid", [a, b] => do
    let a ← parseLimbs a; let b ← parseLimbs b
    pure (showChecked showLimbs (checkedDivEuclid P a b), showChecked showLimbs (oC (val b == 0) (ofNat (val a / val b))))
  | "u.checked_rem_euclid", [a, b] => do
    let a ← parseLimbs a; let b ← parseLimbs b
    pure (showChecked showLimbs (checkedRemEuclid P a b), showChecked showLimbs (oC (val b == 0) (ofNat (val a % val b))))
  | "u.checked_div_rem_euclid", [a, b] => do
    let a ← parseLimbs a; let b ← parseLimbs b
    pure (showChecked showPairU (checkedDivRemEuclid P a b),
          showChecked showPairU (oC (val b == 0) (ofNat (val a / val b), ofNat (val a % val b))))
  -- BigInt
  | "i.div", [a, b] | "i.div_assign", [a, b] => do
    let a ← parseBigInt a; let b ← parseBigInt b
    pure (si (BigInt.div P a b), si (oI b.val (Int.tdiv a.val b.val)))
  | "i.rem", [a, b] | "i.rem_assign", [a, b] => do
    let a ← parseBigInt a; let b ← parseBigInt b
    pure (si (BigInt.rem P a b), si (oI b.val (Int.tmod a.val b.val)))
  | "i.div_rem", [a, b] => do
    let a ← parseBigInt a; let b ← parseBigInt b
    pure (sip (BigInt.divRem P a b), sip (oIP b.val (Int.tdiv a.val b.val) (Int.tmod a.val b.val)))
  | "i.div_floor", [a, b] => do
    let a ← parseBigInt a; let b ← parseBigInt b
    pure (si (BigInt.divFloor P a b), si (oI b.val (Int.fdiv a.val b.val)))
  | "i.mod_floor", [a, b] => do
    let a ← parseBigInt a; let b ← parseBigInt b
    pure (si (BigInt.modFloor P a b), si (oI b.val (Int.fmod a.val b.val)))
  | "i.div_mod_floor", [a, b] => do
    let a ← parseBigInt a; let b ← parseBigInt b
    pure (sip (BigInt.divModFloor P a b), sip (oIP b.val (Int.fdiv a.val b.val) (Int.fmod a.val b.val)))
  | "i.div_ceil", [a, b] => do
    let a ← parseBigInt a; let b ← parseBigInt b
    pure (si (BigInt.divCeil P a b), si (oI b.val (ceilDivInt a.val b.val)))
  | "i.div_euclid", [a, b] => do
    let a ← parseBigInt a; let b ← parseBigInt b
    pure (si (BigInt.divEuclid P a b), si (oI b.val (a.val / b.val)))
  | "i.rem_euclid", [a, b] => do
    let a ← parseBigInt a; let b ← parseBigInt b
    pure (si (BigInt.remEuclid P a b), si (oI b.val (a.val % b.val)))
  | "i.div_rem_euclid", [a, b] => do
    let a ← parseBigInt a; let b ← parseBigInt b
    pure (sip (BigInt.divRemEuclid P a b), sip (oIP b.val (a.val / b.val) (a.val % b.val)))
  | "i.checked_div", [a, b] => do
    let a ← parseBigInt a; let b ← parseBigInt b
    pure (showChecked showBigInt (BigInt.checkedDiv P a b),
          showChecked showBigInt (oC (b.val == 0) (BigInt.ofInt (Int.tdiv a.val b.val))))
  | "i.checked_div_euclid", [a, b] => do
    let a ← parseBigInt a; let b ← parseBigInt b
    pure (showChecked showBigInt (BigInt.checkedDivEuclid P a b),
          showChecked showBigInt (oC (b.val == 0) (BigInt.ofInt (a.val / b.val))))
  | "i.checked_rem_euclid", [a, b] => do
    let a ← parseBigInt a; let b ← parseBigInt b
    pure (showChecked showBigInt (BigInt.checkedRemEuclid P a b),
          showChecked showBigInt (oC (b.val == 0) (BigInt.ofInt (a.val % b.val))))
  | "i.checked_div_rem_euclid", [a, b] => do
    let a ← parseBigInt a; let b ← parseBigInt b
    pure (showChecked showPairI (BigInt.checkedDivRemEuclid P a b),
          showChecked showPairI (oC (b.val == 0) (BigInt.ofInt (a.val / b.val), BigInt.ofInt (a.val % b.val))))
  -- api-coverage: inherent `BigInt::checked_div` (`if v.is_zero() { return None } Some(self / v)`: the same
  -- body as the trait impl, modelled by `BigInt.checkedDiv`)
  | "i.checked_div_m", [a, b] => do
    let a ← parseBigInt a; let b ← parseBigInt b
    pure (showChecked showBigInt (BigInt.checkedDiv P a b),
          showChecked showBigInt (oC (b.val == 0) (BigInt.ofInt (Int.tdiv a.val b.val))))
  -- api-coverage: scalar division forms
  | "s.rem_assign_u", [p, q] | "u.div_s", [p, q] | "u.rem_s", [p, q] | "u.s_div", [p, q] | "u.s_rem", [p, q]
  | "u.div_assign_s", [p, q] | "u.rem_assign_s", [p, q] | "i.div_s", [p, q] | "i.rem_s", [p, q] | "i.s_div", [p, q]
  | "i.s_rem", [p, q] | "i.div_assign_s", [p, q] | "i.rem_assign_s", [p, q] => scalarHandle op [p, q]
  -- internal hooks on raw slices
  | "raw.div_rem_core", [a, b] => do
    let a ← parseLimbs a; let b ← parseLimbs b
    -- preconditions of div_rem_core (anything else is not a valid request)
    if ¬ (a.length ≥ b.length ∧ b.length > 1 ∧ B / 2 ≤ b.getLast?.getD 0) then none else
    pure (sup (divRemCore P a b), sup (.ok (ofNat (val a / val b), ofNat (val a % val b))))
  | "raw.submul", [a, b, c] => do
    let a ← parseLimbs a; let b ← parseLimbs b; let c ← parseHex c
    if a.length ≠ b.length ∨ c ≥ B then none else
    let n := a.length
    let prod := c * val b
    let borrow := if prod ≤ val a then 0 else (prod - val a + B ^ n - 1) / B ^ n
    let r := val a + borrow * B ^ n - prod
    let m := match subMulDigitSameLen a b c with
      | .ok (d, bo) => "ok " ++ showLimbs d ++ " " ++ showHex bo
      | .error p => "panic " ++ p.toString
    pure (m, "ok " ++ showLimbs (pad (ofNat r) n) ++ " " ++ showHex borrow)
  | _, _ => none

end NB.Drv.C03
