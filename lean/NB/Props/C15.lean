/-
  C15 — unsafe code stays in bounds (the part that is logic).

  Obligations over the asm programs *generated from the source on every run* (NB.Gen.AsmProg),
  under the mini x86 semantics of NB.Model.Asm.  Nothing in this file depends on the instruction
  lists: the two generated programs are passed through the CERTIFIED CHECKER `NB.Asm.checkLoop`
  (NB.Model.AsmCheck; soundness proved once for every program in NB.Props.C15G) by the two facts
  `add_checked` / `sub_checked` (`by decide`), and everything else follows:
    * the program has the single-loop shape; it never stores through the `b` pointer;
    * one loop iteration, started with `idx + w ≤ len a, len b`, does not fault, leaves `b`
      untouched, advances `idx` by exactly `w`, changes `a` only inside `[idx, idx+w)` and
      computes the adc/sbb chain there (`add_body_spec`, `sub_body_spec`);
    * the whole routine called with `n ≥ 1` iterations and `w*n ≤ len a, len b` does not fault,
      touches only `a[0 .. w*n)`, returns `idx = w*n` and the carry of the chain (`add_run_spec`, …);
    * on the caller's side: `w * (len / d) ≤ len` (NB.blk_done_le, C01), so the Rust wrappers
      pass lengths that satisfy those preconditions;
    * list-level corollary (C01 tier B): the routine computes exactly `adcZip` / `sbbZip` on the
      first `w*n` digits — which is what NB.add2c / NB.sub2 assume about it
      (`asm_add_refines`, `asm_sub_refines`).
  A maintainer edit of the asm (memory operands, `lea`, another unroll factor, reordered
  independent instructions, other scratch registers) re-proves as long as the checker accepts the
  new instruction list; an edit the checker rejects makes `add_checked`/`sub_checked` fail.
  What this cannot show: that the machine code rustc emits honours the operand constraints and
  that real memory behaves like the two bounded arrays — observed by the valgrind run instead.
-/
import NB.Props.C15G
import NB.Model.AsmParams
import NB.Props.C01
namespace NB.Asm
open NB NB.Gen

def addRegs : Regs := ⟨addReg_size, addReg_a, addReg_b, addReg_c, addReg_idx⟩
def subRegs : Regs := ⟨subReg_size, subReg_a, subReg_b, subReg_c, subReg_idx⟩

/-- THE CHECKER ACCEPTS THE GENERATED ADD PROGRAM, with the block width the C01 model uses
    (`P.addBlk.w`, read off the `inc`/`lea` instructions by `NB.Gen.idxStep`) -/
theorem add_checked : checkLoop false addProg addRegs addNRegs = some NB.Gen.P.addBlk.w := by decide
/-- THE CHECKER ACCEPTS THE GENERATED SUB PROGRAM -/
theorem sub_checked : checkLoop true subProg subRegs subNRegs = some NB.Gen.P.subBlk.w := by decide

def addLoop : Loop := (splitLoop addProg).getD ⟨[], [], []⟩
def subLoop : Loop := (splitLoop subProg).getD ⟨[], [], []⟩

/-- both generated programs have the shape `pre; L: body; jnz L; post` -/
theorem add_prog_shape : splitLoop addProg = some addLoop := by
  obtain ⟨l, _, hs, _⟩ := checkLoop_inv add_checked
  simp only [addLoop, hs, Option.getD_some]
theorem sub_prog_shape : splitLoop subProg = some subLoop := by
  obtain ⟨l, _, hs, _⟩ := checkLoop_inv sub_checked
  simp only [subLoop, hs, Option.getD_some]

def storesThrough (r : Nat) : Instr → Bool
  | .store base _ _ _ => base == r
  | .storen base _ _ => base == r
  | _ => false

/-- no instruction of either program stores through the read-only pointer `b` -/
theorem asm_b_readonly :
    (addProg.all fun i => !storesThrough addReg_b i) = true ∧
    (subProg.all fun i => !storesThrough subReg_b i) = true := by decide

def addCfg (la lb : Nat) : Cfg := ⟨addReg_a, addReg_b, la, lb⟩
def subCfg (la lb : Nat) : Cfg := ⟨subReg_a, subReg_b, la, lb⟩

/-- block width of the add loop: the checker's certified width is the one the C01 model uses and
    the divisor of the wrapper covers it -/
theorem add_width : NB.Gen.P.addBlk.w ≤ addDiv := gen_params_valid_addsub.1.2
theorem sub_width : NB.Gen.P.subBlk.w ≤ subDiv := gen_params_valid_addsub.2.2

/-- ONE ITERATION of the add loop: no fault, `b` untouched, `idx += w`, `size -= 1`,
    `a` and CF are exactly the adc chain over `[idx, idx+w)` -/
theorem add_body_spec (la lb : Nat) (regs : Nat → Nat) (cf zf : Bool) (a b : Nat → Nat) (i : Nat)
    (hi : regs addReg_idx = i) (hla : i + NB.Gen.P.addBlk.w ≤ la) (hlb : i + NB.Gen.P.addBlk.w ≤ lb) (hB : la < B) :
    ∃ s', exec (addCfg la lb) addLoop.body ⟨regs, cf, zf, a, b⟩ = some s' ∧
      BodyPost s' b (chainAdd a b cf i NB.Gen.P.addBlk.w) (i + NB.Gen.P.addBlk.w)
        ((regs addReg_size + B - 1) % B) addReg_idx addReg_size := by
  obtain ⟨l, σ, hs, _, _, _, _, hex, hfin⟩ := checkLoop_inv add_checked
  have hl : addLoop = l := by simp only [addLoop, hs, Option.getD_some]
  rw [hl, ← chainG_adc]
  exact checkBody_sound hex hfin la lb regs cf zf a b i hi hla hlb hB

/-- ONE ITERATION of the sub loop -/
theorem sub_body_spec (la lb : Nat) (regs : Nat → Nat) (cf zf : Bool) (a b : Nat → Nat) (i : Nat)
    (hi : regs subReg_idx = i) (hla : i + NB.Gen.P.subBlk.w ≤ la) (hlb : i + NB.Gen.P.subBlk.w ≤ lb) (hB : la < B) :
    ∃ s', exec (subCfg la lb) subLoop.body ⟨regs, cf, zf, a, b⟩ = some s' ∧
      BodyPost s' b (chainSub a b cf i NB.Gen.P.subBlk.w) (i + NB.Gen.P.subBlk.w)
        ((regs subReg_size + B - 1) % B) subReg_idx subReg_size := by
  obtain ⟨l, σ, hs, _, _, _, _, hex, hfin⟩ := checkLoop_inv sub_checked
  have hl : subLoop = l := by simp only [subLoop, hs, Option.getD_some]
  rw [hl, ← chainG_sbb]
  exact checkBody_sound hex hfin la lb regs cf zf a b i hi hla hlb hB

/-- THE WHOLE ADD ROUTINE: `n ≥ 1` iterations with `w*n` digits available behind both pointers:
    no fault, `b` untouched, `a` = adc chain on `[0, w*n)` (nothing outside is written), returned
    `idx = w*n`, returned `c` = final carry -/
theorem add_run_spec (la lb n : Nat) (hn : 1 ≤ n) (hnB : n < B) (hB : la < B)
    (hla : NB.Gen.P.addBlk.w * n ≤ la) (hlb : NB.Gen.P.addBlk.w * n ≤ lb)
    (regs : Nat → Nat) (cf zf : Bool) (a b : Nat → Nat) (hidx : regs addReg_idx = 0) (hsize : regs addReg_size = n) :
    ∃ s', run (addCfg la lb) addProg (n + 1) ⟨regs, cf, zf, a, b⟩ = some s' ∧
      s'.a = (chainAdd a b false 0 (NB.Gen.P.addBlk.w * n)).1 ∧ s'.b = b ∧
      s'.regs addReg_idx = NB.Gen.P.addBlk.w * n ∧
      s'.regs addReg_c = b2n (chainAdd a b false 0 (NB.Gen.P.addBlk.w * n)).2 := by
  rw [← chainG_adc]
  exact checkLoop_run add_checked la lb n hn hnB hB hla hlb regs cf zf a b hidx hsize

theorem sub_run_spec (la lb n : Nat) (hn : 1 ≤ n) (hnB : n < B) (hB : la < B)
    (hla : NB.Gen.P.subBlk.w * n ≤ la) (hlb : NB.Gen.P.subBlk.w * n ≤ lb)
    (regs : Nat → Nat) (cf zf : Bool) (a b : Nat → Nat) (hidx : regs subReg_idx = 0) (hsize : regs subReg_size = n) :
    ∃ s', run (subCfg la lb) subProg (n + 1) ⟨regs, cf, zf, a, b⟩ = some s' ∧
      s'.a = (chainSub a b false 0 (NB.Gen.P.subBlk.w * n)).1 ∧ s'.b = b ∧
      s'.regs subReg_idx = NB.Gen.P.subBlk.w * n ∧
      s'.regs subReg_c = b2n (chainSub a b false 0 (NB.Gen.P.subBlk.w * n)).2 := by
  rw [← chainG_sbb]
  exact checkLoop_run sub_checked la lb n hn hnB hB hla hlb regs cf zf a b hidx hsize

/-- writes are confined: nothing outside `[0, w*n)` of `a` changes -/
theorem add_run_confined (f g : Nat → Nat) (c : Bool) (m j : Nat) (h : m ≤ j) :
    (chainAdd f g c 0 m).1 j = f j := chainAdd_outside f g c 0 m j (by omega)
theorem sub_run_confined (f g : Nat → Nat) (c : Bool) (m j : Nat) (h : m ≤ j) :
    (chainSub f g c 0 m).1 j = f j := chainSub_outside f g c 0 m j (by omega)

/-- REFINEMENT (what NB.add2c assumes about the asm routine): called like the Rust wrapper on
    slices of `size` digits, the generated add program returns carry, `idx = w * (size / d)` and
    the digits of the `adcZip` chain on that prefix, and never faults -/
theorem asm_add_refines (a b : List Nat) (size : Nat) (hsa : size ≤ a.length) (hsb : size ≤ b.length)
    (hB : a.length < B) (ha : DigitsOk a) (hb : DigitsOk b) :
    call addProg addRegs addDiv a b size =
      some (decide ((adcZip 0 (a.take (NB.Gen.P.addBlk.done size)) (b.take (NB.Gen.P.addBlk.done size))).2 > 0),
            NB.Gen.P.addBlk.done size,
            (adcZip 0 (a.take (NB.Gen.P.addBlk.done size)) (b.take (NB.Gen.P.addBlk.done size))).1
              ++ a.drop (NB.Gen.P.addBlk.done size)) :=
  checkLoop_sound_div add_checked addDiv add_width a b size hsa hsb hB ha hb

theorem asm_sub_refines (a b : List Nat) (size : Nat) (hsa : size ≤ a.length) (hsb : size ≤ b.length)
    (hB : a.length < B) (ha : DigitsOk a) (hb : DigitsOk b) :
    call subProg subRegs subDiv a b size =
      some (decide ((sbbZip 0 (a.take (NB.Gen.P.subBlk.done size)) (b.take (NB.Gen.P.subBlk.done size))).2 > 0),
            NB.Gen.P.subBlk.done size,
            (sbbZip 0 (a.take (NB.Gen.P.subBlk.done size)) (b.take (NB.Gen.P.subBlk.done size))).1
              ++ a.drop (NB.Gen.P.subBlk.done size)) :=
  checkLoop_sound_div sub_checked subDiv sub_width a b size hsa hsb hB ha hb

/-- the u64-as-u32 view used by `gen_biguint`: `⌈n/32⌉` u32 words always fit in `⌈n/64⌉` u64 digits -/
theorem rand_view_fits (n : Nat) : (n + 31) / 32 ≤ 2 * ((n + 63) / 64) := by omega

/- non-vacuity: the routine runs, and the checker is not trivially `none`/`some` -/
example : (call addProg addRegs addDiv (List.replicate NB.Gen.P.addBlk.w (B - 1) ++ [7])
      (1 :: List.replicate (NB.Gen.P.addBlk.w - 1) 0 ++ [9]) (NB.Gen.P.addBlk.w + 1)).map (fun r => (r.1, r.2.1))
    = some (true, NB.Gen.P.addBlk.w) := by decide

end NB.Asm
