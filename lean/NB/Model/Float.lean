/-
  NB.Model.Float — model of the float conversions of src/biguint/convert.rs
  (`high_bits_to_u64`, `to_f32`, `to_f64`, `FromPrimitive::from_f64`), src/bigint/convert.rs
  (`to_f32/to_f64` sign wrapper, `from_f64`) and the num-traits default `from_f32`.

  Floats are IEEE-754 binary interchange BIT PATTERNS held in a `Nat` (never Lean `Float`):
  a format is `⟨p, ebits⟩` (precision including the hidden bit, exponent field width),
  `f32 = ⟨24, 8⟩`, `f64 = ⟨53, 11⟩`.

  Hardware / core-library behaviour that is MODELLED, not verified (recorded assumptions):
  * `castU64`  — `u64 as f32/f64` rounds to nearest, ties to even (`rneNat`), never overflows;
  * `powi2`    — `2.0.powi(e)` for `0 ≤ e` is exactly `2^e`, `+∞` from `MAX_EXP` on;
  * `fmulPow2` — multiplying a finite non-negative normal float by such a power of two only adds to
                 the exponent field, or overflows to `+∞`; `0 * ∞ = NaN`, `x * ∞ = ∞`;
  * `truncBits`— `f64::trunc` clears the fraction bits below the binary point (|x| < 1 ↦ ±0);
  * `integerDecode` — num-traits 0.2.19 `integer_decode_f64`, as coded;
  * `f32ToF64` — `f64::from(f32)` is exact (sub-normals are normalised, NaN/∞ stay NaN/∞);
  * `u64 <<`/`>>` by less than 64 and `|` are the obvious operations on `Nat` modulo 2^64;
  * `ret <<= e`, `ret >>= e` on `BigUint` (operators covered by C07) are `* 2^e`, `/ 2^e` on values.
-/
import NB.Base
import NB.Model.Convert
namespace NB.Conv

/-- bit length: `fls` (= 64 − leading_zeros) of src/biguint/convert.rs -/
def bitLen (n : Nat) : Nat := if n = 0 then 0 else Nat.log2 n + 1

/-- `BigUint::bits`: `len * BITS - last.leading_zeros()` (0 for zero) -/
def bitsOf (v : List Nat) : Nat :=
  match v.getLast? with
  | none => 0
  | some last =>
    let zeros := digitBits - bitLen last
    v.length * digitBits - zeros

/-! ### `high_bits_to_u64` -/

/-- one iteration of the digit walk (from the top digit down); state `(bits, ret, ret_bits)`.
    `bits - 1` is an underflow site. -/
def hbStep (d bits ret retBits : Nat) : Except Panic (Nat × Nat × Nat) :=
  if bits = 0 then .error (.internal "high_bits bits underflow") else
  let digitBitsNow := (bits - 1) % digitBits + 1
  let bitsWant := min (64 - retBits) digitBitsNow
  let ret1 :=
    if bitsWant ≠ 0 then
      let r := if bitsWant ≠ 64 then (ret <<< bitsWant) % 2 ^ 64 else ret
      let d0 := d >>> (digitBitsNow - bitsWant)
      r ||| d0
    else ret
  -- round-to-odd: any lower bit set ⇒ set the LSB
  let ret2 :=
    if digitBitsNow - bitsWant ≠ 0 then
      let masked := (d <<< (64 - (digitBitsNow - bitsWant))) % 2 ^ 64
      ret1 ||| (if masked ≠ 0 then 1 else 0)
    else ret1
  .ok (bits - digitBitsNow, ret2, retBits + bitsWant)

def hbLoop : List Nat → Nat → Nat → Nat → Except Panic Nat
  | [], _, ret, _ => .ok ret
  | d :: ds, bits, ret, retBits => do
    let s ← hbStep d bits ret retBits
    hbLoop ds s.1 s.2.1 s.2.2

/-- `high_bits_to_u64(v)` -/
def highBitsToU64 (v : List Nat) : Except Panic Nat :=
  match v with
  | [] => .ok 0
  | [d] => .ok d
  | _ => hbLoop v.reverse (bitsOf v) 0 0

/-! ### float formats and the modelled hardware operations -/

structure FFmt where
  p : Nat
  ebits : Nat
  deriving DecidableEq, Repr

def f32 : FFmt := ⟨24, 8⟩
def f64 : FFmt := ⟨53, 11⟩

/-- `MAX_EXP` (128 / 1024) -/
def FFmt.maxExp (f : FFmt) : Nat := 2 ^ (f.ebits - 1)
def FFmt.bias (f : FFmt) : Nat := 2 ^ (f.ebits - 1) - 1
/-- number of explicit fraction bits -/
def FFmt.fbits (f : FFmt) : Nat := f.p - 1
def FFmt.expAll (f : FFmt) : Nat := 2 ^ f.ebits - 1
def FFmt.infBits (f : FFmt) : Nat := f.expAll * 2 ^ f.fbits
/-- the default quiet NaN produced by an invalid operation (sign clear) -/
def FFmt.nanBits (f : FFmt) : Nat := f.infBits + 2 ^ (f.fbits - 1)
def FFmt.signBit (f : FFmt) : Nat := 2 ^ (f.ebits + f.fbits)

/-- round a natural number to `p` significant bits, nearest, ties to even; the result is again a
    natural number (a `p`-bit value times a power of two) -/
def rneNat (p v : Nat) : Nat :=
  let n := bitLen v
  if n ≤ p then v
  else
    let s := n - p
    let q := v / 2 ^ s
    let r := v % 2 ^ s
    let half := 2 ^ (s - 1)
    let up := half < r ∨ (r = half ∧ q % 2 = 1)
    (if up then q + 1 else q) * 2 ^ s

/-- bit pattern of a non-negative value `w` that is exactly representable as a normal number
    (`w = m·2^k`, `m < 2^p`, `w ≥ 1`) or zero; `+∞` when `w ≥ 2^MAX_EXP` -/
def encode (f : FFmt) (w : Nat) : Nat :=
  if w = 0 then 0
  else
    let n := bitLen w
    if n > f.maxExp then f.infBits
    else (n - 1 + f.bias) * 2 ^ f.fbits + (w * 2 ^ f.p / 2 ^ n - 2 ^ f.fbits)

/-- `m as f32` / `m as f64` for `m : u64` (ASSUMED round-to-nearest-even) -/
def castU64 (f : FFmt) (m : Nat) : Nat := encode f (rneNat f.p m)

/-- `2.0f.powi(e)` for `e ≥ 0` -/
def powi2 (f : FFmt) (e : Nat) : Nat :=
  if e ≥ f.maxExp then f.infBits else (e + f.bias) * 2 ^ f.fbits

/-- `a * b` where `a` is `+0` or a positive normal number and `b` is `powi2 f e` -/
def fmulPow2 (f : FFmt) (a b : Nat) : Nat :=
  let ea := a / 2 ^ f.fbits
  let ma := a % 2 ^ f.fbits
  let eb := b / 2 ^ f.fbits
  if eb = f.expAll then (if a = 0 then f.nanBits else f.infBits)
  else if a = 0 then 0
  else
    let e := ea + eb - f.bias
    if e ≥ f.expAll then f.infBits else e * 2 ^ f.fbits + ma

/-- `BigUint::to_f32` / `to_f64` (always `Some`); `self.bits() - fls(mantissa)` is an underflow site -/
def U.toFloat (f : FFmt) (x : List Nat) : Except Panic Nat := do
  let mantissa ← highBitsToU64 x
  if bitsOf x < bitLen mantissa then .error (.internal "to_float exponent underflow") else
  let exponent := bitsOf x - bitLen mantissa
  if exponent > f.maxExp then pure f.infBits
  else pure (fmulPow2 f (castU64 f mantissa) (powi2 f exponent))

/-- `BigInt::to_f32` / `to_f64`: `if sign == Minus { -n } else { n }` (negation flips the sign bit) -/
def I.toFloat (f : FFmt) (x : BigInt) : Except Panic Nat := do
  let n ← U.toFloat f x.mag
  pure (if x.sign = .minus then (if n ≥ f.signBit then n - f.signBit else n + f.signBit) else n)

/-! ### float → big integer -/

def fSign (f : FFmt) (b : Nat) : Nat := (b / f.signBit) % 2
def fExp (f : FFmt) (b : Nat) : Nat := (b / 2 ^ f.fbits) % 2 ^ f.ebits
def fFrac (f : FFmt) (b : Nat) : Nat := b % 2 ^ f.fbits

/-- `n.is_finite()` -/
def fIsFinite (f : FFmt) (b : Nat) : Bool := fExp f b != f.expAll
/-- `n.is_nan()` -/
def fIsNan (f : FFmt) (b : Nat) : Bool := fExp f b == f.expAll && fFrac f b != 0
/-- `n.is_zero()` (`±0`) -/
def fIsZero (f : FFmt) (b : Nat) : Bool := b % f.signBit == 0

/-- `n.trunc()` on a finite pattern: exponent below the bias ⇒ `±0`; at least `fbits` above ⇒
    already integral; otherwise clear the `fbits − E` lowest fraction bits -/
def truncBits (f : FFmt) (b : Nat) : Nat :=
  let e := fExp f b
  if e < f.bias then (fSign f b) * f.signBit
  else
    let E := e - f.bias
    if E ≥ f.fbits then b
    else
      let k := f.fbits - E
      b / 2 ^ k * 2 ^ k

/-- num-traits `integer_decode_f64`: `(mantissa, exponent + (bias + fbits), sign is negative)`;
    the exponent is returned with its offset, the caller compares it with `bias + fbits` -/
def integerDecode (f : FFmt) (b : Nat) : Nat × Nat × Bool :=
  let sign := b / f.signBit % 2 != 0          -- `bits >> 63 == 0`
  let exponent := (b / 2 ^ f.fbits) % 2 ^ f.ebits
  let mantissa :=
    if exponent = 0 then (b % 2 ^ f.fbits) * 2   -- `<< 1`
    else (b % 2 ^ f.fbits) + 2 ^ f.fbits         -- `| 0x10000000000000`
  (mantissa, exponent, sign)

/-- the part of `BigUint::from_f64` after `integer_decode`: sign test, `BigUint::from(mantissa)`,
    shift by the (offset) exponent -/
def U.fromDecoded (mantissa expo : Nat) (neg : Bool) : Option (List Nat) :=
  if neg then none else
  let ret := U.fromU64 mantissa
  let off := f64.bias + f64.fbits       -- `exponent -= 1023 + 52`
  match compare expo off with
  | .gt => some (ofNat (val ret * 2 ^ (expo - off)))      -- `ret <<= exponent`
  | .eq => some ret
  | .lt => some (ofNat (val ret / 2 ^ (off - expo)))      -- `ret >>= -exponent`

/-- `BigUint::from_f64(n)` on the 64-bit pattern `b` -/
def U.fromF64 (b : Nat) : Option (List Nat) :=
  if !fIsFinite f64 b then none else
  let n := truncBits f64 b
  if fIsZero f64 n then some [] else
  let d := integerDecode f64 n
  U.fromDecoded d.1 d.2.1 d.2.2

/-- `f64::from(x: f32)` on bit patterns -/
def f32ToF64 (b : Nat) : Nat :=
  let s := fSign f32 b
  let e := fExp f32 b
  let m := fFrac f32 b
  let d := f64.fbits - f32.fbits                       -- 29
  let body :=
    if e = f32.expAll then
      -- ∞ stays ∞; a NaN stays a NaN (quiet bit set by the conversion)
      f64.infBits + (if m = 0 then 0 else (m * 2 ^ d) ||| 2 ^ (f64.fbits - 1))
    else if e = 0 then
      if m = 0 then 0
      else
        -- sub-normal: value m·2^(1−bias32−fbits32); normalise
        let n := bitLen m
        let ex := n - 1 + (f64.bias + 1) - (f32.bias + f32.fbits)
        ex * 2 ^ f64.fbits + (m * 2 ^ (f64.fbits + 1 - n) - 2 ^ f64.fbits)
    else (e + (f64.bias - f32.bias)) * 2 ^ f64.fbits + m * 2 ^ d
  s * f64.signBit + body

/-- num-traits default `from_f32(n) = from_f64(From::from(n))` -/
def U.fromF32 (b : Nat) : Option (List Nat) := U.fromF64 (f32ToF64 b)

/-- `n >= 0.0` on a pattern: false for NaN, true for `-0.0` -/
def fGeZero (f : FFmt) (b : Nat) : Bool := !fIsNan f b && (fSign f b == 0 || fIsZero f b)

/-- `-n`: flip the sign bit -/
def fNeg (f : FFmt) (b : Nat) : Nat := if fSign f b = 1 then b - f.signBit else b + f.signBit

/-- `BigInt::from_f64` -/
def I.fromF64 (b : Nat) : Option BigInt :=
  if fGeZero f64 b then (U.fromF64 b).map I.fromBiguint
  else
    match U.fromF64 (fNeg f64 b) with
    | none => none
    | some x =>
      let y := I.fromBiguint x
      some ⟨y.sign.neg, y.mag⟩          -- `-BigInt::from(x)`

def I.fromF32 (b : Nat) : Option BigInt := I.fromF64 (f32ToF64 b)

end NB.Conv
