/-
  NB.Wire — line-protocol helpers for the driver (import-free).

  Values on the wire:
    BigUint  : little-endian 64-bit limbs in lower-case hex separated by ',' ; '.' = no limbs
    BigInt   : sign char '+', '-' or '0' followed by the limbs
    scalar   : decimal with optional '-'
    bytes    : 'x' followed by hex pairs ('x' alone = empty)
    u32 list : 'w' followed by ','-separated hex words ('w' alone = empty)
  Results: `ok <v>…`, `none`, `some <v>…`, `panic <class>`, `err`.
-/
import NB.Base
namespace NB.Wire

def hexVal (c : Char) : Option Nat :=
  if '0' ≤ c ∧ c ≤ '9' then some (c.toNat - '0'.toNat)
  else if 'a' ≤ c ∧ c ≤ 'f' then some (c.toNat - 'a'.toNat + 10)
  else none

def parseHex (s : String) : Option Nat :=
  if s.isEmpty then none else
  s.toList.foldl (fun acc c => match acc, hexVal c with
    | some a, some d => some (a * 16 + d)
    | _, _ => none) (some 0)

def hexDigit (n : Nat) : Char :=
  if n < 10 then Char.ofNat (n + '0'.toNat) else Char.ofNat (n - 10 + 'a'.toNat)

def showHex (n : Nat) : String := String.ofList ((Nat.toDigits 16 n))

def parseLimbs (s : String) : Option (List Nat) :=
  if s == "." then some [] else
  (s.splitOn ",").foldr (fun t acc => match parseHex t, acc with
    | some d, some l => some (d :: l)
    | _, _ => none) (some [])

def showLimbs (l : List Nat) : String :=
  if l.isEmpty then "." else ",".intercalate (l.map showHex)

def parseSign (c : Char) : Option Sign :=
  if c == '+' then some .plus else if c == '-' then some .minus
  else if c == '0' then some .nosign else none

def showSign : Sign → String
  | .plus => "+" | .minus => "-" | .nosign => "0"

def parseBigInt (s : String) : Option BigInt :=
  match s.toList with
  | c :: rest => match parseSign c, parseLimbs (String.ofList rest) with
    | some sg, some l => some ⟨sg, l⟩
    | _, _ => none
  | [] => none

def showBigInt (x : BigInt) : String := showSign x.sign ++ showLimbs x.mag

def parseNat (s : String) : Option Nat := s.toNat?

def parseInt (s : String) : Option Int :=
  match s.toList with
  | '-' :: rest => (String.ofList rest).toNat?.map (fun n => - (n : Int))
  | _ => s.toNat?.map (fun n => (n : Int))

def showInt (i : Int) : String := toString i

def parseBytes (s : String) : Option (List Nat) :=
  match s.toList with
  | 'x' :: rest =>
    let rec go : List Char → Option (List Nat)
      | [] => some []
      | [_] => none
      | a :: b :: t => match hexVal a, hexVal b, go t with
        | some x, some y, some l => some ((x * 16 + y) :: l)
        | _, _, _ => none
    go rest
  | _ => none

def showBytes (l : List Nat) : String :=
  "x" ++ String.ofList (l.flatMap (fun b => [hexDigit (b / 16), hexDigit (b % 16)]))

def parseWords (s : String) : Option (List Nat) :=
  match s.toList with
  | 'w' :: rest =>
    if rest.isEmpty then some [] else
    ((String.ofList rest).splitOn ",").foldr (fun t acc => match parseHex t, acc with
      | some d, some l => some (d :: l)
      | _, _ => none) (some [])
  | _ => none

def showWords (l : List Nat) : String := "w" ++ ",".intercalate (l.map showHex)

def showOrd : Ordering → String
  | .lt => "-1" | .eq => "0" | .gt => "1"

def showBool (b : Bool) : String := if b then "1" else "0"

/-- render an `Except Panic α` -/
def showExcept {α} (f : α → String) : Except Panic α → String
  | .ok v => "ok " ++ f v
  | .error p => "panic " ++ p.toString

def showOpt {α} (f : α → String) : Option α → String
  | some v => "some " ++ f v
  | none => "none"

end NB.Wire
