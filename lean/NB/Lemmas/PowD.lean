/- helper lemmas for the digit-level layer of C12 (NB.Model.PowD): every digit-level function equals the
   value-level function of NB.Model.Pow on the values, mapped back through `ofNat` / `BigInt.ofInt`. -/
import NB.Model.PowD
import NB.Lemmas.Pow
import NB.Lemmas.Gcd
import NB.Lemmas.Convert
import NB.Lemmas.Div
import NB.Lemmas.DivInt
import NB.Props.C02
namespace NB.PowD
open NB.Pow (Form powFuel)

/-! ### operators on `ofNat` states -/

theorem mulRef_ofNat (P : Params) (hP : P.ValidMul) (x y : Nat) :
    NB.Mul.mulRef P (ofNat x) (ofNat y) = .ok (ofNat (x * y)) := by
  rw [mul_spec P hP _ _ (ofNat_canon x) (ofNat_canon y), ofNat_val, ofNat_val]

theorem mulAssign_ofNat (P : Params) (hP : P.ValidMul) (x y : Nat) :
    NB.Mul.mulAssign P (ofNat x) (ofNat y) = .ok (ofNat (x * y)) := by
  rw [mulAssign_spec P hP _ _ (ofNat_canon x) (ofNat_canon y), ofNat_val, ofNat_val]

theorem one_eq : one = ofNat 1 := ofNat_one.symm

theorem ofNat_eq_one {x : Nat} : ofNat x = [1] ↔ x = 1 := by
  constructor
  · intro h; have := congrArg val h; rw [ofNat_val] at this; simpa [val] using this
  · intro h; subst h; exact ofNat_one

/-! ### the two loops -/

theorem sqLoop_refines (P : Params) (hP : P.ValidMul) : ∀ (fuel b e : Nat),
    sqLoop P fuel (ofNat b) e = (NB.Pow.sqLoop fuel b e).map (fun p => (ofNat p.1, p.2)) := by
  intro fuel
  induction fuel with
  | zero => intro b e; rfl
  | succ fuel ih =>
    intro b e
    unfold sqLoop NB.Pow.sqLoop
    by_cases h : e &&& 1 = 0
    · simp only [h, if_true, mulRef_ofNat P hP]
      exact ih _ _
    · simp only [h, if_false]; rfl

theorem accLoop_refines (P : Params) (hP : P.ValidMul) : ∀ (fuel b e acc : Nat),
    accLoop P fuel (ofNat b) e (ofNat acc) = (NB.Pow.accLoop fuel b e acc).map ofNat := by
  intro fuel
  induction fuel with
  | zero => intro b e acc; rfl
  | succ fuel ih =>
    intro b e acc
    unfold accLoop NB.Pow.accLoop
    by_cases h : e > 1
    · simp only [h, if_true, mulRef_ofNat P hP]
      by_cases hb : e >>> 1 &&& 1 = 1
      · simp only [hb, if_true, mulAssign_ofNat P hP]
        exact ih _ _ _
      · simp only [hb, if_false]
        exact ih _ _ _
    · simp only [h, if_false]; rfl

/-! ### primitive exponents -/

theorem powVV_ofNat (P : Params) (hP : P.ValidMul) (x e : Nat) :
    powVV P (ofNat x) e = (NB.Pow.powVV x e).map ofNat := by
  unfold powVV NB.Pow.powVV
  by_cases h0 : e = 0
  · simp only [h0, if_true, one_eq]; rfl
  · simp only [h0, if_false, sqLoop_refines P hP]
    cases NB.Pow.sqLoop (powFuel e) x e with
    | error p => rfl
    | ok r =>
      obtain ⟨base, exp⟩ := r
      simp only [Except.map]
      by_cases h1 : exp = 1
      · simp [h1]
      · simp only [h1, if_false]
        exact accLoop_refines P hP _ _ _ _

theorem powPrim_ofNat (P : Params) (hP : P.ValidMul) (f : Form) (x e : Nat) :
    powPrim P f (ofNat x) e = (NB.Pow.powPrim f x e).map ofNat := by
  have hrv : powRV P (ofNat x) e = (NB.Pow.powRV x e).map ofNat := by
    unfold powRV NB.Pow.powRV
    by_cases h0 : e = 0
    · simp only [h0, if_true, one_eq]; rfl
    · simp only [h0, if_false]; exact powVV_ofNat P hP x e
  cases f
  · exact powVV_ofNat P hP x e
  · exact powVV_ofNat P hP x e
  · exact hrv
  · exact hrv

/-! ### BigUint exponents -/

theorem powBigVR_ofNat (P : Params) (hP : P.ValidMul) (x e : Nat) :
    powBigVR P (ofNat x) (ofNat e) = (NB.Pow.powBigVR x e).map ofNat := by
  unfold powBigVR NB.Pow.powBigVR
  simp only [ofNat_eq_one, ofNat_eq_nil, NB.Conv.toU64_spec (ofNat_canon e), NB.Conv.toU128_spec (ofNat_canon e),
    ofNat_val]
  have hB : B = 2 ^ 64 := B_eq
  have hBB : B * B = 2 ^ 128 := by decide
  by_cases h1 : x = 1 ∨ e = 0
  · simp only [h1, if_true, one_eq]; rfl
  · simp only [h1, if_false]
    by_cases h2 : x = 0
    · simp [h2, ofNat_zero, Except.map]
    · simp only [h2, if_false]
      by_cases h3 : e < 2 ^ 64
      · have h3' : e < B := by omega
        simp only [h3, h3', if_true]
        exact powVV_ofNat P hP x e
      · have h3' : ¬ e < B := by omega
        simp only [h3, h3', if_false]
        by_cases h4 : e < 2 ^ 128
        · have h4' : e < B * B := by omega
          simp only [h4, h4', if_true]
          exact powVV_ofNat P hP x e
        · have h4' : ¬ e < B * B := by omega
          simp only [h4, h4', if_false]; rfl

theorem powBig_ofNat (P : Params) (hP : P.ValidMul) (f : Form) (x e : Nat) :
    powBig P f (ofNat x) (ofNat e) = (NB.Pow.powBig f x e).map ofNat := by
  have hrr : powBigRR P (ofNat x) (ofNat e) = (NB.Pow.powBigRR x e).map ofNat := by
    unfold powBigRR NB.Pow.powBigRR
    simp only [ofNat_eq_one, ofNat_eq_nil]
    by_cases h1 : x = 1 ∨ e = 0
    · simp only [h1, if_true, one_eq]; rfl
    · simp only [h1, if_false]
      by_cases h2 : x = 0
      · simp [h2, ofNat_zero, Except.map]
      · simp only [h2, if_false]; exact powBigVR_ofNat P hP x e
  cases f
  · exact powBigVR_ofNat P hP x e
  · exact powBigVR_ofNat P hP x e
  · exact hrr
  · exact hrr

/-! ### BigInt -/

theorem ofInt_sign (x : Int) : (BigInt.ofInt x).sign = NB.IntVal.signOf x := by
  unfold BigInt.ofInt NB.IntVal.signOf
  by_cases h1 : x < 0
  · simp [h1]
  · by_cases h2 : x = 0 <;> simp [h1, h2]

theorem fromBiguint_ofNat (s : Sign) (m : Nat) :
    BigInt.fromBiguint s (ofNat m) = BigInt.ofInt (NB.IntVal.fromBiguint s m) := by
  cases s
  · exact fromBiguint_ofNat_minus m
  · exact fromBiguint_nosign _
  · exact fromBiguint_ofNat_plus m

theorem powsign_eq (s : Sign) (e : Nat) : powsign s e = NB.Pow.powsign s e := by
  unfold powsign powsignOf NB.Pow.powsign
  by_cases h0 : e = 0
  · simp [h0]
  · by_cases h1 : e % 2 = 1 <;> simp [h0, h1]

theorem powsignBig_eq (s : Sign) (e : Nat) : powsignBig s (ofNat e) = NB.Pow.powsign s e := by
  rw [← powsign_eq]
  unfold powsignBig powsign
  have h1 : decide (ofNat e = []) = decide (e = 0) := by simp only [ofNat_eq_nil]
  have h2 : NB.Gcd.isOdd (ofNat e) = decide (e % 2 = 1) := by
    unfold NB.Gcd.isOdd
    rw [NB.Gcd.isEven_ok, ofNat_val]
    by_cases h : e % 2 = 0
    · simp [h]
    · have : e % 2 = 1 := by omega
      simp [this]
  rw [h1, h2]

theorem bigintPow_ofInt (P : Params) (hP : P.ValidMul) (f : Form) (x : Int) (e : Nat) :
    bigintPow P f (BigInt.ofInt x) e = (NB.Pow.bigintPow f x e).map BigInt.ofInt := by
  unfold bigintPow NB.Pow.bigintPow
  simp only [ofInt_mag, ofInt_sign, powsign_eq, powPrim_ofNat P hP]
  cases NB.Pow.powPrim f x.natAbs e with
  | error p => rfl
  | ok m => simp only [Except.map, fromBiguint_ofNat]

theorem bigintPowBig_ofInt (P : Params) (hP : P.ValidMul) (f : Form) (x : Int) (e : Nat) :
    bigintPowBig P f (BigInt.ofInt x) (ofNat e) = (NB.Pow.bigintPowBig f x e).map BigInt.ofInt := by
  unfold bigintPowBig NB.Pow.bigintPowBig
  simp only [ofInt_mag, ofInt_sign, powsignBig_eq, powBig_ofNat P hP]
  cases NB.Pow.powBig f x.natAbs e with
  | error p => rfl
  | ok m => simp only [Except.map, fromBiguint_ofNat]

end NB.PowD
