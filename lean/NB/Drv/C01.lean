/- driver handlers for stream C01 (addition / subtraction) -/
import NB.Wire
import NB.Model.AddSub
import NB.Model.AsmParams
import NB.Model.Scalar
import NB.Model.ScalarD
namespace NB.Drv.C01
open NB NB.Wire

def blk := NB.Gen.P

def oSubU (a b : Nat) : Except Panic (List Nat) :=
  if a < b then .error .underflow else .ok (ofNat (a - b))

def su := showExcept showLimbs
def si := showExcept showBigInt

/-! #### api-coverage: scalar addition / subtraction forms (`<type>:<decimal>` tokens), modelled by the digit-level
     leaves of NB.Model.ScalarD (promotion cast, then `AddAssign/SubAssign<u32|u64|u128>`, `sub2rev` for the
     scalar-left forms, the BigInt sign cases as written) -/

def styOfName (s : String) : Option STy :=
  if s == "u8" then some .u8 else if s == "u16" then some .u16 else if s == "u32" then some .u32
  else if s == "u64" then some .u64 else if s == "u128" then some .u128 else if s == "usize" then some .usize
  else if s == "i8" then some .i8 else if s == "i16" then some .i16 else if s == "i32" then some .i32
  else if s == "i64" then some .i64 else if s == "i128" then some .i128 else if s == "isize" then some .isize
  else none

def parseScalarTok (s : String) : Option (STy × Int) :=
  match s.splitOn ":" with
  | [t, v] => do
    let ty ← styOfName t
    let x ← parseInt v
    if ty.InRange x then pure (ty, x) else none
  | _ => none

def scalarOpOf : String → Option (AOp × SPos × Bool)
  | "add_s" => some (.add, .bigScalar, false) | "s_add" => some (.add, .scalarBig, true)
  | "add_assign_s" => some (.add, .assign, false)
  | "sub_s" => some (.sub, .bigScalar, false) | "s_sub" => some (.sub, .scalarBig, true)
  | "sub_assign_s" => some (.sub, .assign, false)
  | _ => none

def scalarHandle (op : String) (args : List String) : Option (String × String) :=
  match args with
  | [p, q] => do
    let (aop, pos, sLeft) ← scalarOpOf (op.drop 2).toString
    let (a, tv) := if sLeft then (q, p) else (p, q)
    let (t, s) ← parseScalarTok tv
    if op.startsWith "u." then do
      let a ← parseLimbs a
      if t.signed then none else
      let x : Nat := if sLeft then s.toNat else val a
      let y : Nat := if sLeft then val a else s.toNat
      pure (su (SD.uScalarForm blk aop pos t a s),
            su (if aop == .add then .ok (ofNat (x + y)) else oSubU x y))
    else do
      let a ← parseBigInt a
      let x : Int := if sLeft then s else a.val
      let y : Int := if sLeft then a.val else s
      pure (si (SD.iScalarForm blk aop pos t a s), si (.ok (BigInt.ofInt (if aop == .add then x + y else x - y))))
  | _ => none

def handle (op : String) (args : List String) : Option (String × String) :=
  match op, args with
  | "u.add", [a, b] => do
    let a ← parseLimbs a; let b ← parseLimbs b
    pure (su (.ok (addRef blk a b)), su (.ok (ofNat (val a + val b))))
  | "u.add_assign", [a, b] => do
    let a ← parseLimbs a; let b ← parseLimbs b
    pure (su (.ok (addAssign blk a b)), su (.ok (ofNat (val a + val b))))
  | "u.checked_add", [a, b] => do
    let a ← parseLimbs a; let b ← parseLimbs b
    pure (showOpt showLimbs (some (addRef blk a b)), showOpt showLimbs (some (ofNat (val a + val b))))
  | "u.sub", [a, b] => do
    let a ← parseLimbs a; let b ← parseLimbs b
    pure (su (subRef blk a b), su (oSubU (val a) (val b)))
  | "u.sub_assign", [a, b] => do
    let a ← parseLimbs a; let b ← parseLimbs b
    pure (su (subAssign blk a b), su (oSubU (val a) (val b)))
  | "u.sub_refval", [a, b] => do
    let a ← parseLimbs a; let b ← parseLimbs b
    pure (su (subRefVal blk a b), su (oSubU (val a) (val b)))
  | "u.checked_sub", [a, b] => do
    let a ← parseLimbs a; let b ← parseLimbs b
    let m := match checkedSub blk a b with
      | .ok r => showOpt showLimbs r
      | .error p => "panic " ++ p.toString
    let o := if val a < val b then "none" else "some " ++ showLimbs (ofNat (val a - val b))
    pure (m, o)
  | "i.add", [a, b] | "i.add_assign", [a, b] => do
    let a ← parseBigInt a; let b ← parseBigInt b
    pure (si (BigInt.add blk a b), si (.ok (BigInt.ofInt (a.val + b.val))))
  | "i.sub", [a, b] | "i.sub_assign", [a, b] => do
    let a ← parseBigInt a; let b ← parseBigInt b
    pure (si (BigInt.sub blk a b), si (.ok (BigInt.ofInt (a.val - b.val))))
  | "i.checked_add", [a, b] => do
    let a ← parseBigInt a; let b ← parseBigInt b
    let m := match BigInt.add blk a b with
      | .ok r => "some " ++ showBigInt r
      | .error p => "panic " ++ p.toString
    pure (m, "some " ++ showBigInt (BigInt.ofInt (a.val + b.val)))
  | "i.checked_sub", [a, b] => do
    let a ← parseBigInt a; let b ← parseBigInt b
    let m := match BigInt.sub blk a b with
      | .ok r => "some " ++ showBigInt r
      | .error p => "panic " ++ p.toString
    pure (m, "some " ++ showBigInt (BigInt.ofInt (a.val - b.val)))
  -- api-coverage: trait impls `CheckedAdd/CheckedSub for BigInt` = `Some(&self + v)` / `Some(&self - v)`
  | "i.checked_add_t", [a, b] => do
    let a ← parseBigInt a; let b ← parseBigInt b
    let m := match BigInt.add blk a b with
      | .ok r => "some " ++ showBigInt r
      | .error p => "panic " ++ p.toString
    pure (m, "some " ++ showBigInt (BigInt.ofInt (a.val + b.val)))
  | "i.checked_sub_t", [a, b] => do
    let a ← parseBigInt a; let b ← parseBigInt b
    let m := match BigInt.sub blk a b with
      | .ok r => "some " ++ showBigInt r
      | .error p => "panic " ++ p.toString
    pure (m, "some " ++ showBigInt (BigInt.ofInt (a.val - b.val)))
  -- api-coverage: scalar addition / subtraction forms
  | "u.add_s", [p, q] | "u.s_add", [p, q] | "u.add_assign_s", [p, q] | "u.sub_s", [p, q] | "u.s_sub", [p, q]
  | "u.sub_assign_s", [p, q] | "i.add_s", [p, q] | "i.s_add", [p, q] | "i.add_assign_s", [p, q] | "i.sub_s", [p, q]
  | "i.s_sub", [p, q] | "i.sub_assign_s", [p, q] => scalarHandle op [p, q]
  -- scalar on the left: `u32/u64/u128 - BigUint` (computed inside the big operand's buffer through `sub2rev`)
  | "u.sub_from_u32", [sc, b] | "u.sub_from_u64", [sc, b] => do
    let sc ← parseNat sc; let b ← parseLimbs b
    pure (su (dSubRev .u64 sc b), su (oSubU sc (val b)))
  | "u.sub_from_u128", [sc, b] => do
    let sc ← parseNat sc; let b ← parseLimbs b
    pure (su (dSubRev .u128 sc b), su (oSubU sc (val b)))
  -- scalar on the right: `BigUint ± u32/u64/u128` (digit splitting into `[lo, hi]`, zero padding, `__add2` / `sub2`)
  | "u.add_u64", [a, sc] => do
    let a ← parseLimbs a; let sc ← parseNat sc
    pure (su (.ok (dAddAssign .u64 blk a sc)), su (.ok (ofNat (val a + sc))))
  | "u.add_u128", [a, sc] => do
    let a ← parseLimbs a; let sc ← parseNat sc
    pure (su (.ok (dAddAssign .u128 blk a sc)), su (.ok (ofNat (val a + sc))))
  | "u.sub_u64", [a, sc] => do
    let a ← parseLimbs a; let sc ← parseNat sc
    pure (su (dSubAssign .u64 blk a sc), su (oSubU (val a) sc))
  | "u.sub_u128", [a, sc] => do
    let a ← parseLimbs a; let sc ← parseNat sc
    pure (su (dSubAssign .u128 blk a sc), su (oSubU (val a) sc))
  -- internal hooks: raw slices
  | "raw.add2", [a, b] => do
    let a ← parseLimbs a; let b ← parseLimbs b
    if a.length < b.length then none else
    let r := add2c blk a b
    let tot := val a + val b
    let n := a.length
    -- oracle: digits of (a+b) mod B^n padded to n digits, and the carry
    let lo := tot % (B ^ n)
    let pad := ofNat lo ++ List.replicate (n - (ofNat lo).length) 0
    pure (showLimbs r.1 ++ " " ++ toString r.2, showLimbs pad ++ " " ++ toString (tot / B ^ n))
  | _, _ => none

end NB.Drv.C01
