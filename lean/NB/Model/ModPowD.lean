/-
  NB.Model.ModPowD — DIGIT-LEVEL model of
    src/biguint/power.rs   `modpow` (parity dispatch), `plain_modpow`
    src/biguint/monty.rs   `monty_modpow` (the BigUint-operator steps around the Montgomery core)
    src/biguint.rs         `BigUint::modinv`
    src/bigint/power.rs    `modpow` (sign placement)
    src/bigint.rs          `BigInt::modinv`

  NB.Model.ModPow models the same functions with the mathematical `* % / - <` on `Nat`.  Here every
  BigUint operator the Rust code uses is the digit-vector model of that very operator form:

    `&a * &b`, `a * &b`            → `Mul.mulRef`     (impl_mul!: all four forms are one body)
    `a *= &b`                      → `Mul.mulAssign`  (impl_mul_assign!)
    `&a % &b`, `a % &b`, `a %= &b` → `remRef`         (val-ref forwards to ref-ref; `%=` is `&*self % other`)
    `a.div_rem(&b)`                → `divRemRef`
    `a -= &b`, `a - b`             → `subAssign`      (val-val forwards to val-ref = `-=`)
    `&a - b`                       → `subRefVal`      (Sub<BigUint> for &BigUint: reuses b's buffer)
    `a + b`                        → `addRef`         (val-val picks the operand with the larger *capacity*
                                                       as the accumulator; capacity is not modelled, `addRef`
                                                       picks the longer one — both orders are `addAssign`
                                                       and C01 proves them equal)
    `a < b`, `a >= b`              → `cmpSlice`
    `one << k`                     → `C07.biguintShl`
    `is_zero()` / `is_one()`       → `= []` / `= [1]` (`data.is_empty()`, `data[..] == [1]`)
    `normalize()`                  → `normalize`

  Every operator panic is propagated.  Machine integers (`r: u64`, `b: u8`, loop counters) stay `Nat` exactly
  as in NB.Model.ModPow.  NB.Lemmas.ModPowD proves each function here equal to its value-level
  counterpart on canonical inputs.
-/
import NB.Base
import NB.Model.AddSub
import NB.Model.Mul
import NB.Model.Div
import NB.Model.Shift
import NB.Model.Monty
import NB.Model.ModPow
namespace NB

/-! ## `plain_modpow` -/

/-- `&base * &base % modulus` -/
def sqModD (P : Params) (m base : List Nat) : Except Panic (List Nat) :=
  match Mul.mulRef P base base with
  | .error e => .error e
  | .ok p => remRef P p m

/-- `base = &base * &base % modulus`, `k` times -/
def sqTimesD (P : Params) (m : List Nat) : Nat → List Nat → Except Panic (List Nat)
  | 0, base => .ok base
  | k + 1, base =>
    match sqModD P m base with
    | .error e => .error e
    | .ok base => sqTimesD P m k base

/-- `while r.is_even() { base = base² % m; r >>= 1; b += 1 }`; returns `(r, b, base)` -/
def stripZerosD (P : Params) (m : List Nat) (r b : Nat) (base : List Nat) :
    Except Panic (Nat × Nat × List Nat) :=
  if h0 : r = 0 then .error (.internal "plain_modpow: zero digit in trailing-zero loop")
  else if h : r % 2 = 0 then
    match sqModD P m base with
    | .error e => .error e
    | .ok base => stripZerosD P m (r / 2) (b + 1) base
  else .ok (r, b, base)
termination_by r
decreasing_by omega

/-- the closure `unit(exp_is_odd)`: `base = &base * &base % modulus; if odd { acc *= &base; acc %= modulus }` -/
def unitStepD (P : Params) (m : List Nat) (odd : Bool) (s : List Nat × List Nat) :
    Except Panic (List Nat × List Nat) :=
  match sqModD P m s.1 with
  | .error e => .error e
  | .ok base =>
    if odd then
      match Mul.mulAssign P s.2 base with
      | .error e => .error e
      | .ok acc =>
        match remRef P acc m with
        | .error e => .error e
        | .ok acc => .ok (base, acc)
    else .ok (base, s.2)

/-- `for _ in 0..k { unit(r.is_odd()); r >>= 1 }` -/
def bitsLoopD (P : Params) (m : List Nat) : Nat → Nat → List Nat × List Nat → Except Panic (List Nat × List Nat)
  | 0, _, s => .ok s
  | k + 1, r, s =>
    match unitStepD P m (r % 2 = 1) s with
    | .error e => .error e
    | .ok s => bitsLoopD P m k (r / 2) s

/-- `for &r in exp_iter { … 64 × unit … }` -/
def midLoopD (P : Params) (m : List Nat) : List Nat → List Nat × List Nat → Except Panic (List Nat × List Nat)
  | [], s => .ok s
  | r :: rs, s =>
    match bitsLoopD P m BITS r s with
    | .error e => .error e
    | .ok s => midLoopD P m rs s

/-- `while !r.is_zero() { unit(r.is_odd()); r >>= 1 }` -/
def whileLoopD (P : Params) (m : List Nat) (r : Nat) (s : List Nat × List Nat) :
    Except Panic (List Nat × List Nat) :=
  if h : r = 0 then .ok s
  else
    match unitStepD P m (r % 2 = 1) s with
    | .error e => .error e
    | .ok s => whileLoopD P m (r / 2) s
termination_by r
decreasing_by omega

/-- `plain_modpow(base, exp_data, modulus)` on digit vectors -/
def plainModpowD (P : Params) (base exp m : List Nat) : Except Panic (List Nat) :=
  if m = [] then .error .zeromod else
  match firstNonzero exp with
  | none => .ok [1]                                   -- `BigUint::one()`
  | some i =>
    match remRef P base m with                        -- `base % modulus`
    | .error e => .error e
    | .ok base =>
      match sqTimesD P m (i * BITS) base with
      | .error e => .error e
      | .ok base =>
        match stripZerosD P m (exp.getD i 0) 0 base with
        | .error e => .error e
        | .ok (r, b, base) =>
          let rest := exp.drop (i + 1)
          if rest.length = 0 ∧ r = 1 then .ok base else
          let acc := base
          let r := r / 2
          let b := b + 1
          match rest.getLast? with
          | some last =>
            match bitsLoopD P m (BITS - b) r (base, acc) with
            | .error e => .error e
            | .ok s =>
              match midLoopD P m rest.dropLast s with
              | .error e => .error e
              | .ok s =>
                if last = 0 then .error (.internal "plain_modpow: debug_assert_ne!(r, 0)")
                else
                  match whileLoopD P m last s with
                  | .error e => .error e
                  | .ok s => .ok s.2
          | none =>
            if r = 0 then .error (.internal "plain_modpow: debug_assert_ne!(r, 0)")
            else
              match whileLoopD P m r (base, acc) with
              | .error e => .error e
              | .ok s => .ok s.2

/-! ## `monty_modpow`: the BigUint-operator steps around the Montgomery core -/

/-- everything between the preparation of `x`, `rr` and the final reduction: `one`, the table of
    powers, the window loop over the exponent digits and the conversion out of Montgomery form
    (`zz = montgomery(&z, &one, …)`).  Textually the middle of `NB.montyModpow`. -/
def montyCore (P : Params) (x rr m : List Nat) (k n : Nat) (y : List Nat) : Except Panic (List Nat) :=
  let one := padTo [1] n
  let w := P.window
  if w = 0 then .error (.internal "monty_modpow: window loop does not terminate") else
  match montgomery one rr m k n with
  | .error e => .error e
  | .ok p0 =>
    match montgomery x rr m k n with
    | .error e => .error e
    | .ok p1 =>
      match tableLoop m k n p1 (2 ^ w - 2) p1 with
      | .error e => .error e
      | .ok rest =>
        let powers := p0 :: p1 :: rest
        let z := resize p0 n
        match digitLoop w P.squarings m k n powers y.length y.reverse z with
        | .error e => .error e
        | .ok z => montgomery z one m k n

/-- `zz.normalize(); if zz >= *m { zz -= m; if zz >= *m { zz %= m } } zz.normalize()` -/
def montyFinalD (P : Params) (zz m : List Nat) : Except Panic (List Nat) :=
  let zz := normalize zz
  if cmpSlice zz m ≠ .lt then
    match subAssign P zz m with
    | .error e => .error e
    | .ok zz =>
      if cmpSlice zz m ≠ .lt then
        match remRef P zz m with
        | .error e => .error e
        | .ok zz => .ok (normalize zz)
      else .ok (normalize zz)
  else .ok (normalize zz)

/-- `rr = (BigUint::one() << (2 * num_words as u64 * u64::from(BITS))) % m`; the `u64` product is an
    overflow site (debug builds) -/
def montyRRD (P : Params) (m : List Nat) (n : Nat) : Except Panic (List Nat) :=
  if 2 * n * BITS ≥ C07.U64_RANGE then .error (.internal "monty_modpow: shift amount overflows u64") else
  match C07.biguintShl [1] ((2 * n * BITS : Nat) : Int) with
  | .error e => .error e
  | .ok s => remRef P s m

/-- `monty_modpow(x, y, m)` with its BigUint operators at digit level -/
def montyModpowD (P : Params) (x y m : List Nat) : Except Panic (List Nat) :=
  match m with
  | [] => .error (.internal "monty_modpow: m.data[0]")
  | m0 :: _ =>
    if m0 &&& 1 ≠ 1 then .error (.internal "monty_modpow: assert odd") else
    match invModAlt m0 with
    | .error e => .error e
    | .ok k =>
      let n := m.length
      match (if x.length > n then remRef P x m else .ok x) with       -- `x %= m`
      | .error e => .error e
      | .ok x =>
        let x := if x.length < n then padTo x n else x
        match montyRRD P m n with
        | .error e => .error e
        | .ok rr =>
          let rr := if rr.length < n then padTo rr n else rr
          match montyCore P x rr m k n y with
          | .error e => .error e
          | .ok zz => montyFinalD P zz m

/-- `BigUint::modpow` = `power::modpow`: parity dispatch, both arms at digit level -/
def modpowD (P : Params) (x e m : List Nat) : Except Panic (List Nat) :=
  if m = [] then .error .zeromod
  else if isOddU m then montyModpowD P x e m
  else plainModpowD P x e m

/-! ## `BigUint::modinv` -/

/-- the `while !r1.is_zero()` loop of `BigUint::modinv`; returns `(r0, t0)`.  The Rust loop has no
    counter; `fuel` bounds the number of iterations.  `modinvD` passes `64·(len r0 + len r1) + 1`: the
    product `r0·r1` at least halves in every iteration (`r0 > r1`, so `r0 mod r1 < r0/2`), and
    NB.modinvLoopD_ofNat shows the fuel never runs out. -/
def modinvLoopD (P : Params) (m : List Nat) : Nat → List Nat → List Nat → List Nat → List Nat →
    Except Panic (List Nat × List Nat)
  | 0, _, _, _, _ => .error (.internal "modinv: loop fuel")
  | fuel + 1, r0, r1, t0, t1 =>
    if r1 = [] then .ok (r0, t0)
    else
      match divRemRef P r0 r1 with                     -- `r0.div_rem(&r1)`
      | .error e => .error e
      | .ok (q, r2) =>
        match Mul.mulRef P q t1 with                   -- `q * &t1`
        | .error e => .error e
        | .ok p =>
          match remRef P p m with                      -- `… % modulus`
          | .error e => .error e
          | .ok qt1 =>
            if cmpSlice t0 qt1 = .lt then
              match subRefVal P m qt1 with             -- `modulus - qt1`
              | .error e => .error e
              | .ok d => modinvLoopD P m fuel r1 r2 t1 (addRef P t0 d)
            else
              match subAssign P t0 qt1 with            -- `t0 - qt1`
              | .error e => .error e
              | .ok t2 => modinvLoopD P m fuel r1 r2 t1 t2

/-- `BigUint::modinv(self, modulus)` on digit vectors -/
def modinvD (P : Params) (a m : List Nat) : Except Panic (Option (List Nat)) :=
  if m = [] then .error .zeromod
  else if m = [1] then .ok (some [])
  else
    match remRef P a m with                            -- `self % modulus`
    | .error e => .error e
    | .ok r1 =>
      if r1 = [] then .ok none
      else if r1 = [1] then .ok (some r1)
      else
        match divRemRef P m r1 with                    -- `modulus.div_rem(&r1)`
        | .error e => .error e
        | .ok (q, r2) =>
          if r2 = [] then .ok none
          else
            match subRefVal P m q with                 -- `modulus - q`
            | .error e => .error e
            | .ok t1 =>
              match modinvLoopD P m (BITS * (r1.length + r2.length) + 1) r1 r2 [1] t1 with
              | .error e => .error e
              | .ok (r0, t0) => if r0 = [1] then .ok (some t0) else .ok none

/-! ## BigInt wrappers -/

/-- the `match (…is_negative…, modulus.is_negative())` table with `&modulus.data - result` at digit level -/
def signPlaceD (P : Params) (xneg mneg : Bool) (m result : List Nat) : Except Panic (Sign × List Nat) :=
  match xneg, mneg with
  | false, false => .ok (.plus, result)
  | true, false => match subRefVal P m result with
    | .error e => .error e
    | .ok d => .ok (.plus, d)
  | false, true => match subRefVal P m result with
    | .error e => .error e
    | .ok d => .ok (.minus, d)
  | true, true => .ok (.minus, result)

/-- `BigInt::modpow` -/
def BigInt.modpowD (P : Params) (x e m : BigInt) : Except Panic BigInt :=
  if e.sign = .minus then .error .negexp
  else if m.sign = .nosign then .error .zeromod
  else
    match NB.modpowD P x.mag e.mag m.mag with
    | .error p => .error p
    | .ok result =>
      if result = [] then .ok ⟨.nosign, []⟩
      else
        match signPlaceD P (x.sign = .minus && isOddU e.mag) (m.sign = .minus) m.mag result with
        | .error p => .error p
        | .ok (s, mag) => .ok (BigInt.fromBiguint s mag)

/-- `BigInt::modinv` (as it is after the fix for modulus ±1) -/
def BigInt.modinvD (P : Params) (x m : BigInt) : Except Panic (Option BigInt) :=
  match NB.modinvD P x.mag m.mag with
  | .error p => .error p
  | .ok none => .ok none
  | .ok (some result) =>
    if result = [] then .ok (some ⟨.nosign, []⟩)
    else
      match signPlaceD P (x.sign = .minus) (m.sign = .minus) m.mag result with
      | .error p => .error p
      | .ok (s, mag) => .ok (some (BigInt.fromBiguint s mag))

end NB
