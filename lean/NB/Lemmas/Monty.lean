/- helper lemmas for C05 (Tier B): inv_mod_alt, add_mul_vvw, sub_vv, montgomery, monty_modpow -/
import NB.Lemmas.Base
import NB.Lemmas.ModPow
import NB.Model.Monty
import Mathlib.Data.Nat.ModEq
import Mathlib.Tactic.Ring
import Mathlib.Tactic.Linarith
import Mathlib.Data.Nat.Prime.Basic
namespace NB

/-! ### inv_mod_alt -/

theorem even_B : B % 2 = 0 := by decide

/-- loop invariant of `inv_mod_alt`: `k0·b + t² ≡ 1`, `t ≡ (b-1)^i`, `t` even -/
theorem invLoop_spec (b : Nat) (hb : b % 2 = 1) : ∀ fuel i t k0, 1 ≤ i → BITS ≤ i * 2 ^ fuel →
    t % 2 = 0 → t < B → k0 < B → t ≡ (b - 1) ^ i [MOD B] → k0 * b + t * t ≡ 1 [MOD B] →
    ∃ t' k0', invLoop (fuel + 1) i t k0 = .ok (t', k0') ∧ k0' < B ∧ k0' * b ≡ 1 [MOD B]
  | 0, i, t, k0, hi, hf, ht2, htB, hkB, htc, hkc => by
    have hi64 : ¬ i < BITS := by simpa using hf
    refine ⟨t, k0, by simp [invLoop, hi64], hkB, ?_⟩
    -- t ≡ (b-1)^i with i ≥ 64 and b-1 even: t ≡ 0
    obtain ⟨c, hc⟩ : ∃ c, b - 1 = 2 * c := ⟨(b - 1) / 2, by omega⟩
    have h0 : (b - 1) ^ i ≡ 0 [MOD B] := by
      rw [hc, mul_pow]
      obtain ⟨j, hj⟩ : ∃ j, i = 64 + j := ⟨i - 64, by rw [BITS_eq] at hi64; omega⟩
      rw [hj, pow_add, ← B_eq]
      rw [Nat.modEq_zero_iff_dvd]
      exact Dvd.intro (2 ^ j * c ^ (64 + j)) (by ring)
    have ht0 : t ≡ 0 [MOD B] := htc.trans h0
    have : k0 * b + t * t ≡ k0 * b + 0 * 0 [MOD B] := Nat.ModEq.add_left _ (ht0.mul ht0)
    simp only [Nat.mul_zero, Nat.add_zero] at this
    exact this.symm.trans hkc
  | fuel + 1, i, t, k0, hi, hf, ht2, htB, hkB, htc, hkc => by
    rw [invLoop]
    by_cases hi64 : i < BITS
    · simp only [hi64, if_true]
      have ht'2 : wmul t t % 2 = 0 := by
        unfold wmul
        rw [Nat.mod_mod_of_dvd _ (Nat.dvd_of_mod_eq_zero even_B), Nat.mul_mod, ht2]
      have ht'B : wmul t t < B := Nat.mod_lt _ B_pos
      have hov : ¬ (wmul t t + 1 ≥ B) := by
        have := even_B; omega
      simp only [hov, if_false]
      have ht'c : wmul t t ≡ t * t [MOD B] := Nat.mod_modEq _ _
      apply invLoop_spec b hb fuel (i * 2) (wmul t t) (wmul k0 (wmul t t + 1)) (by omega)
        (by rw [pow_succ] at hf; linarith) ht'2 ht'B (Nat.mod_lt _ B_pos)
      · have := (htc.mul htc)
        rw [← pow_add] at this
        have e : i + i = i * 2 := by ring
        rw [e] at this
        exact ht'c.trans this
      · -- k0' b + t'^2 ≡ 1
        generalize wmul t t = t' at *
        have h1 : k0 * b + t' ≡ 1 [MOD B] := (Nat.ModEq.add_left _ ht'c).trans hkc
        have h2 : wmul k0 (t' + 1) * b + t' * t' ≡ k0 * (t' + 1) * b + t' * t' [MOD B] :=
          Nat.ModEq.add_right _ ((Nat.mod_modEq _ _).mul_right _)
        apply h2.trans
        apply Nat.ModEq.add_right_cancel' t'
        have e : k0 * (t' + 1) * b + t' * t' + t' = (k0 * b + t') * (t' + 1) := by ring
        rw [e]
        have := h1.mul_right (t' + 1)
        rw [Nat.one_mul] at this
        rw [Nat.add_comm 1 t']
        exact this
    · simp only [hi64, if_false]
      exact invLoop_spec b hb 0 i t k0 hi (by simpa using Nat.le_of_not_lt hi64) ht2 htB hkB htc hkc
        |> fun ⟨t', k0', h, h1, h2⟩ => ⟨t', k0', by simpa [invLoop, hi64] using h, h1, h2⟩

/-- `inv_mod_alt(b)` for an odd digit: no assertion fires and `k·b ≡ −1 (mod 2^64)` -/
theorem invModAlt_spec (b : Nat) (hbB : b < B) (hb : b % 2 = 1) :
    ∃ k, invModAlt b = .ok k ∧ k < B ∧ (k * b + 1) % B = 0 := by
  unfold invModAlt
  have h1 : ¬ (b &&& 1 = 0) := by rw [Nat.and_one_is_mod]; omega
  simp only [h1, if_false]
  obtain ⟨c, rfl⟩ : ∃ c, b = c + 1 := ⟨b - 1, by omega⟩
  have hu : wsub 2 (c + 1) + c = B + 1 ∨ wsub 2 (c + 1) + c = 1 := by
    unfold wsub; unfold B at *; omega
  have hinit : wsub 2 (c + 1) * (c + 1) + (c + 1 - 1) * (c + 1 - 1) ≡ 1 [MOD B] := by
    simp only [Nat.add_sub_cancel]
    generalize wsub 2 (c + 1) = u at *
    have e : u * (c + 1) + c * c = c * (u + c) + u := by ring
    rw [e]
    rcases hu with hu | hu
    · rw [hu]
      have : c * (B + 1) + u = B * (c + 1) + 1 := by
        have : c * (B + 1) + u = c * B + (u + c) := by ring
        rw [this, hu]; ring
      rw [this]
      simp [Nat.ModEq]
    · rw [hu]
      have : c * 1 + u = 1 := by omega
      rw [this]
  obtain ⟨t', k0', hl, hk0, hkc⟩ := invLoop_spec (c + 1) hb 63 1 (c + 1 - 1) (wsub 2 (c + 1)) (by omega)
    (by decide) (by omega) (by omega) (Nat.mod_lt _ B_pos) (by simp [Nat.ModEq]) hinit
  have : BITS = 63 + 1 := rfl
  rw [this, hl]
  simp only []
  have hw : wmul k0' (c + 1) = 1 := by
    unfold wmul
    have := hkc
    unfold Nat.ModEq at this
    rw [this]; decide
  simp only [hw, ne_eq, not_true_eq_false, if_false]
  refine ⟨wneg k0', rfl, Nat.mod_lt _ B_pos, ?_⟩
  -- (B - k0') (c+1) + 1 ≡ 0
  have h2 : wneg k0' * (c + 1) + 1 ≡ (B - k0') * (c + 1) + k0' * (c + 1) [MOD B] := by
    unfold wneg
    exact Nat.ModEq.add ((Nat.mod_modEq _ _).mul_right _) hkc.symm
  have e : (B - k0') * (c + 1) + k0' * (c + 1) = B * (c + 1) := by
    rw [← Nat.add_mul]; congr 1; omega
  rw [e] at h2
  have h3 : B * (c + 1) ≡ 0 [MOD B] := by
    rw [Nat.modEq_zero_iff_dvd]; exact Dvd.intro _ rfl
  exact h2.trans h3

/-! ### one digit of add_mul_vvw -/

theorem amv_step (xi y zi c : Nat) (hx : xi < B) (hy : y < B) (hz : zi < B) (hc : c < B) :
    (addWW (mulAddWWW xi y zi).2 c 0).2 < B ∧
    wadd (addWW (mulAddWWW xi y zi).2 c 0).1 (mulAddWWW xi y zi).1 < B ∧
    (addWW (mulAddWWW xi y zi).2 c 0).2
      + B * wadd (addWW (mulAddWWW xi y zi).2 c 0).1 (mulAddWWW xi y zi).1 = xi * y + zi + c := by
  have hP : xi * y ≤ (B - 1) * (B - 1) := Nat.mul_le_mul (by omega) (by omega)
  unfold mulAddWWW addWW wadd
  simp only []
  generalize xi * y = p at *
  unfold B at *
  simp only [Nat.add_zero]
  split_ifs <;> omega

/-- `add_mul_vvw` over operands of equal length: exact multiply-accumulate with a carry word -/
theorem addMulVVW_spec : ∀ (z x : List Nat) (y c : Nat), x.length = z.length → DigitsOk z → DigitsOk x →
    y < B → c < B →
    (addMulVVW z x y c).1.length = z.length ∧ DigitsOk (addMulVVW z x y c).1 ∧ (addMulVVW z x y c).2 < B ∧
    val (addMulVVW z x y c).1 + B ^ z.length * (addMulVVW z x y c).2 = val z + val x * y + c
  | [], [], y, c, _, _, _, _, hc => by simp [addMulVVW, val, DigitsOk.nil, hc]
  | [], _ :: _, _, _, h, _, _, _, _ => by simp at h
  | _ :: _, [], _, _, h, _, _, _, _ => by simp at h
  | zi :: zs, xi :: xs, y, c, hl, hz, hx, hy, hc => by
    obtain ⟨s1, s2, s3⟩ := amv_step xi y zi c hx.head hy hz.head hc
    simp only [addMulVVW]
    generalize (addWW (mulAddWWW xi y zi).2 c 0).2 = d at *
    generalize wadd (addWW (mulAddWWW xi y zi).2 c 0).1 (mulAddWWW xi y zi).1 = c' at *
    obtain ⟨i1, i2, i3, i4⟩ := addMulVVW_spec zs xs y c' (by simpa using hl) hz.tail hx.tail hy s2
    refine ⟨by simp [i1], DigitsOk.cons s1 i2, i3, ?_⟩
    simp only [val, List.length_cons, pow_succ]
    have : d + B * val (addMulVVW zs xs y c').1 + B ^ zs.length * B * (addMulVVW zs xs y c').2
        = d + B * (val (addMulVVW zs xs y c').1 + B ^ zs.length * (addMulVVW zs xs y c').2) := by ring
    rw [this, i4]
    have : d + B * (val zs + val xs * y + c') = (d + B * c') + B * val zs + B * val xs * y := by ring
    rw [this, s3]; ring

/-! ### sub_vv: the Hacker's Delight borrow formula, proved arithmetically (no bit-blasting) -/

theorem top_bit (v : Nat) (hv : v < B) : v.testBit 63 = decide (9223372036854775808 ≤ v) := by
  rw [Nat.testBit_eq_decide_div_mod_eq]
  congr 1
  unfold B at hv
  simp only [eq_iff_iff]
  constructor <;> intro h <;> omega

theorem wnot_lt (x : Nat) : wnot x < B := by unfold wnot B; omega

theorem top_bit_wnot (x : Nat) (hx : x < B) : (wnot x).testBit 63 = !decide (9223372036854775808 ≤ x) := by
  rw [top_bit _ (wnot_lt x)]
  unfold wnot; unfold B at *
  by_cases h : 9223372036854775808 ≤ x
  · simp only [h, decide_true, Bool.not_true, decide_eq_false_iff_not]; omega
  · simp only [h, decide_false, Bool.not_false, decide_eq_true_eq]; omega

theorem hdBorrow_eq (x y z : Nat) (hx : x < B) (hy : y < B) (hz : z < B) :
    hdBorrow x y z =
      if (9223372036854775808 ≤ y ∧ ¬ 9223372036854775808 ≤ x) ∨
         ((9223372036854775808 ≤ y ∨ ¬ 9223372036854775808 ≤ x) ∧ 9223372036854775808 ≤ z) then 1 else 0 := by
  unfold hdBorrow
  have hB : B = 2 ^ 64 := B_eq
  have hw : ((y &&& wnot x) ||| ((y ||| wnot x) &&& z)) < 2 ^ 64 := by
    rw [← hB]
    have h1 : (y &&& wnot x) < 2 ^ 64 := Nat.and_lt_two_pow _ (by rw [← hB]; exact wnot_lt x)
    have h2 : ((y ||| wnot x) &&& z) < 2 ^ 64 := Nat.and_lt_two_pow _ (by rw [← hB]; exact hz)
    rw [hB]; exact Nat.or_lt_two_pow h1 h2
  have hsh : BITS - 1 = 63 := rfl
  rw [hsh, Nat.shiftRight_eq_div_pow]
  generalize hwd : ((y &&& wnot x) ||| ((y ||| wnot x) &&& z)) = w at *
  have htb : w.testBit 63 = ((decide (9223372036854775808 ≤ y) && !decide (9223372036854775808 ≤ x)) ||
      ((decide (9223372036854775808 ≤ y) || !decide (9223372036854775808 ≤ x)) && decide (9223372036854775808 ≤ z))) := by
    rw [← hwd]
    simp only [Nat.testBit_or, Nat.testBit_and, top_bit y hy, top_bit z hz, top_bit_wnot x hx]
  have hwB : w < B := by rw [hB]; exact hw
  rw [top_bit w hwB] at htb
  unfold B at hwB
  by_cases h1 : 9223372036854775808 ≤ y <;> by_cases h2 : 9223372036854775808 ≤ x <;>
    by_cases h3 : 9223372036854775808 ≤ z <;> simp [h1, h2, h3] at htb ⊢ <;> omega

/-- one digit of `sub_vv`: the wrapped difference and the borrow out -/
theorem sub_step (x y c : Nat) (hx : x < B) (hy : y < B) (hc : c ≤ 1) :
    wsub (wsub x y) c < B ∧
    hdBorrow x y (wsub (wsub x y) c) = (if x < y + c then 1 else 0) ∧
    wsub (wsub x y) c + y + c = x + B * (if x < y + c then 1 else 0) := by
  have hz : wsub (wsub x y) c < B := Nat.mod_lt _ B_pos
  rw [hdBorrow_eq x y _ hx hy hz]
  unfold wsub at *
  unfold B at *
  refine ⟨hz, ?_, ?_⟩
  · split_ifs <;> omega
  · split_ifs <;> omega

theorem subVV_spec : ∀ (z x y : List Nat) (c : Nat), x.length = z.length → y.length = z.length →
    DigitsOk x → DigitsOk y → c ≤ 1 →
    (subVV z x y c).1.length = z.length ∧ DigitsOk (subVV z x y c).1 ∧ (subVV z x y c).2 ≤ 1 ∧
    val (subVV z x y c).1 + val y + c = val x + B ^ z.length * (subVV z x y c).2
  | [], [], [], c, _, _, _, _, hc => by simp [subVV, val, DigitsOk.nil, hc]
  | [], _ :: _, _, _, h, _, _, _, _ => by simp at h
  | [], [], _ :: _, _, _, h, _, _, _ => by simp at h
  | _ :: _, [], _, _, h, _, _, _, _ => by simp at h
  | _ :: _, _ :: _, [], _, _, h, _, _, _ => by simp at h
  | zi :: zs, xi :: xs, yi :: ys, c, hlx, hly, hx, hy, hc => by
    obtain ⟨s1, s2, s3⟩ := sub_step xi yi c hx.head hy.head hc
    simp only [subVV]
    rw [s2]
    generalize wsub (wsub xi yi) c = d at *
    generalize hb : (if xi < yi + c then 1 else 0) = bo at *
    have hbo : bo ≤ 1 := by rw [← hb]; split <;> omega
    obtain ⟨i1, i2, i3, i4⟩ := subVV_spec zs xs ys bo (by simpa using hlx) (by simpa using hly) hx.tail hy.tail hbo
    refine ⟨by simp [i1], DigitsOk.cons s1 i2, i3, ?_⟩
    simp only [val, List.length_cons, pow_succ]
    have e1 : d + B * val (subVV zs xs ys bo).1 + (yi + B * val ys) + c
        = (d + yi + c) + B * (val (subVV zs xs ys bo).1 + val ys) := by ring
    have e2 : B * (val (subVV zs xs ys bo).1 + val ys) + B * bo = B * (val xs + B ^ zs.length * (subVV zs xs ys bo).2) := by
      rw [← i4]; ring
    rw [e1, s3]
    have e3 : xi + B * val xs + B ^ zs.length * B * (subVV zs xs ys bo).2
        = xi + B * (val xs + B ^ zs.length * (subVV zs xs ys bo).2) := by ring
    rw [e3, ← e2]; ring

/-! ### the `montgomery` loop seen through its sliding window `z[i .. i+n]` -/

theorem addMulVVW_length : ∀ (z x : List Nat) (y c : Nat), (addMulVVW z x y c).1.length = z.length
  | [], [], _, _ => by simp [addMulVVW]
  | [], _ :: _, _, _ => by simp [addMulVVW]
  | _ :: _, [], _, _ => by simp [addMulVVW]
  | zi :: zs, xi :: xs, y, c => by simp [addMulVVW, addMulVVW_length zs xs]

theorem getD_append_len {α} (pre : List α) (a : α) (l : List α) (d : α) :
    (pre ++ a :: l).getD pre.length d = a := by
  induction pre with
  | nil => simp
  | cons p ps ih => simpa using ih

theorem set_append_len {α} (pre : List α) (a b : α) (l : List α) :
    (pre ++ a :: l).set pre.length b = pre ++ b :: l := by
  induction pre with
  | nil => simp
  | cons p ps ih => simp [ih]

/-- one iteration of the loop on the window: (digit shifted out, new window, new `c`) -/
def winStep (x m : List Nat) (k : Nat) (w : List Nat) (c yi : Nat) : Nat × List Nat × Nat :=
  let r2 := addMulVVW w x yi 0
  let t := wmul (r2.1.headD 0) k
  let r3 := addMulVVW r2.1 m t 0
  let cx := wadd c r2.2
  let cy := wadd cx r3.2
  (r3.1.headD 0, r3.1.tail ++ [cy], if cx < r2.2 ∨ cy < r3.2 then 1 else 0)

/-- the whole loop on the window: (digits shifted out, final window, final `c`) -/
def winLoop (x m : List Nat) (k : Nat) : List Nat → List Nat → Nat → List Nat × List Nat × Nat
  | [], w, c => ([], w, c)
  | yi :: ys, w, c =>
    let s := winStep x m k w c yi
    let r := winLoop x m k ys s.2.1 s.2.2
    (s.1 :: r.1, r.2.1, r.2.2)

theorem winStep_length (x m : List Nat) (k : Nat) (w : List Nat) (c yi : Nat) (hw : w ≠ []) :
    (winStep x m k w c yi).2.1.length = w.length := by
  unfold winStep
  simp only [List.length_append, List.length_tail, addMulVVW_length, List.length_cons, List.length_nil]
  have : 0 < w.length := List.length_pos_iff.mpr hw
  omega

theorem slice_window (pre u rest : List Nat) (n : Nat) (h : u.length = n) :
    ((pre ++ u ++ rest).drop pre.length).take n = u := by
  rw [List.append_assoc, List.drop_left' rfl, List.take_left' h]

theorem setSlice_window (pre u v rest : List Nat) (n : Nat) (h : u.length = n) :
    setSlice (pre ++ u ++ rest) pre.length n v = pre ++ v ++ rest := by
  unfold setSlice
  have h1 : (pre ++ u ++ rest).take pre.length = pre := by
    rw [List.append_assoc]; exact List.take_left' rfl
  have h2 : (pre ++ u ++ rest).drop (pre.length + n) = rest :=
    List.drop_left' (by simp [h])
  rw [h1, h2]

theorem getD_window (pre u rest : List Nat) (h : 0 < u.length) :
    (pre ++ u ++ rest).getD pre.length 0 = u.headD 0 := by
  cases u with
  | nil => simp at h
  | cons a l => rw [List.append_assoc]; simpa using getD_append_len pre a (l ++ rest) 0

theorem set_window (pre u rest : List Nat) (a b n : Nat) (h : u.length = n) :
    (pre ++ u ++ a :: rest).set (n + pre.length) b = pre ++ u ++ b :: rest := by
  have : n + pre.length = (pre ++ u).length := by simp [h]; omega
  rw [this, set_append_len]

theorem head_tail_of_pos (u : List Nat) (h : 0 < u.length) : u = u.headD 0 :: u.tail := by
  cases u with
  | nil => simp at h
  | cons a l => simp

theorem montLoop_window (x m : List Nat) (k : Nat) : ∀ (ys pre w : List Nat) (c : Nat),
    0 < w.length →
    montLoop x m k w.length ys pre.length (pre ++ w ++ List.replicate ys.length 0) c =
      (pre ++ (winLoop x m k ys w c).1 ++ (winLoop x m k ys w c).2.1, (winLoop x m k ys w c).2.2)
  | [], pre, w, c, _ => by simp [montLoop, winLoop]
  | yi :: ys, pre, w, c, hw => by
    rw [montLoop]
    simp only [List.length_cons, List.replicate_succ]
    simp only [slice_window, setSlice_window, getD_window, set_window, addMulVVW_length, hw]
    rw [winLoop]
    simp only [winStep]
    generalize hr2 : addMulVVW w x yi 0 = r2
    generalize hr3 : addMulVVW r2.1 m (wmul (r2.1.headD 0) k) 0 = r3
    have hr3l : r3.1.length = w.length := by rw [← hr3, addMulVVW_length, ← hr2, addMulVVW_length]
    generalize hcy : wadd (wadd c r2.2) r3.2 = cy
    generalize hc' : (if wadd c r2.2 < r2.2 ∨ cy < r3.2 then 1 else 0) = c'
    have hwl : (r3.1.tail ++ [cy]).length = w.length := by simp [hr3l]; omega
    have hsplit : pre ++ r3.1 ++ cy :: List.replicate ys.length 0
        = (pre ++ [r3.1.headD 0]) ++ (r3.1.tail ++ [cy]) ++ List.replicate ys.length 0 := by
      conv_lhs => rw [head_tail_of_pos r3.1 (by omega)]
      simp
    have hpl : pre.length + 1 = (pre ++ [r3.1.headD 0]).length := by simp
    rw [hsplit, hpl, ← hwl]
    rw [montLoop_window x m k ys (pre ++ [r3.1.headD 0]) (r3.1.tail ++ [cy]) c' (by omega)]
    simp

theorem carry_words (c c2 c3 : Nat) (hc : c ≤ 1) (h2 : c2 < B) (h3 : c3 < B) :
    (if wadd c c2 < c2 ∨ wadd (wadd c c2) c3 < c3 then 1 else 0) ≤ 1 ∧
    wadd (wadd c c2) c3 < B ∧
    c + c2 + c3 = wadd (wadd c c2) c3 + B * (if wadd c c2 < c2 ∨ wadd (wadd c c2) c3 < c3 then 1 else 0) := by
  unfold wadd; unfold B at *
  split_ifs <;> omega

theorem val_mod_B (l : List Nat) (h : DigitsOk l) : val l % B = l.headD 0 := by
  cases l with
  | nil => simp [val]
  | cons a t =>
    simp only [val, List.headD_cons]
    rw [Nat.add_mul_mod_self_left, Nat.mod_eq_of_lt h.head]

theorem winStep_spec (x m : List Nat) (k : Nat) (w : List Nat) (c yi m0 : Nat) (mt : List Nat)
    (hm : m = m0 :: mt) (hk : (k * m0 + 1) % B = 0)
    (hn : 0 < w.length) (hxl : x.length = w.length) (hml : m.length = w.length)
    (hw : DigitsOk w) (hx : DigitsOk x) (hmo : DigitsOk m) (hy : yi < B) (hc : c ≤ 1) :
    (winStep x m k w c yi).2.1.length = w.length ∧ DigitsOk (winStep x m k w c yi).2.1 ∧
    (winStep x m k w c yi).2.2 ≤ 1 ∧
    ∃ t, t < B ∧ (val (winStep x m k w c yi).2.1 + B ^ w.length * (winStep x m k w c yi).2.2) * B
        = (val w + B ^ w.length * c) + val x * yi + val m * t := by
  unfold winStep
  simp only []
  obtain ⟨a1, a2, a3, a4⟩ := addMulVVW_spec w x yi 0 hxl hw hx hy B_pos
  generalize addMulVVW w x yi 0 = r2 at *
  have htB : wmul (r2.1.headD 0) k < B := Nat.mod_lt _ B_pos
  obtain ⟨b1, b2, b3, b4⟩ := addMulVVW_spec r2.1 m (wmul (r2.1.headD 0) k) 0 (by rw [hml, a1]) a2 hmo htB B_pos
  -- the low digit of the second row is zero
  have hlow : (val r2.1 + val m * wmul (r2.1.headD 0) k) % B = 0 := by
    have e1 : val r2.1 ≡ r2.1.headD 0 [MOD B] := by
      have := val_mod_B r2.1 a2; unfold Nat.ModEq; rw [this, Nat.mod_eq_of_lt]
      cases h : r2.1 with
      | nil => simp; exact B_pos
      | cons a t => rw [h] at a2; simpa using a2.head
    have e2 : val m ≡ m0 [MOD B] := by
      rw [hm]; simp only [val]; unfold Nat.ModEq; rw [Nat.add_mul_mod_self_left]
    generalize r2.1.headD 0 = h2 at *
    have e3 : wmul h2 k ≡ h2 * k [MOD B] := Nat.mod_modEq _ _
    have e4 : val r2.1 + val m * wmul h2 k ≡ h2 + m0 * (h2 * k) [MOD B] := e1.add (e2.mul e3)
    have e5 : h2 + m0 * (h2 * k) = h2 * (k * m0 + 1) := by ring
    rw [e5] at e4
    have e6 : h2 * (k * m0 + 1) ≡ h2 * 0 [MOD B] := Nat.ModEq.mul_left _ hk
    exact (e4.trans e6)
  generalize wmul (r2.1.headD 0) k = t at *
  generalize addMulVVW r2.1 m t 0 = r3 at *
  obtain ⟨cw1, cw2, cw3⟩ := carry_words c r2.2 r3.2 hc a3 b3
  generalize wadd (wadd c r2.2) r3.2 = cy at *
  generalize (if wadd c r2.2 < r2.2 ∨ cy < r3.2 then 1 else 0) = c' at *
  have hr3pos : 0 < r3.1.length := by rw [b1, a1]; exact hn
  have hr3e := head_tail_of_pos r3.1 hr3pos
  have hh0 : r3.1.headD 0 = 0 := by
    have h1 := val_mod_B r3.1 b2
    have h2 : (val r3.1 + B ^ r2.1.length * r3.2) % B = 0 := by rw [b4, Nat.add_zero]; exact hlow
    obtain ⟨j, hj⟩ : ∃ j, r2.1.length = j + 1 := ⟨r2.1.length - 1, by rw [a1]; omega⟩
    rw [hj, pow_succ, Nat.mul_comm (B ^ j) B, Nat.mul_assoc, Nat.add_mul_mod_self_left] at h2
    rw [← h1]; exact h2
  have hvr3 : val r3.1 = B * val r3.1.tail := by
    have := congrArg val hr3e
    simp only [val] at this
    rw [hh0] at this; omega
  have htl : r3.1.tail.length + 1 = w.length := by
    have := b1; rw [a1] at this; rw [← this]; simp; omega
  refine ⟨by simp; omega, ?_, cw1, t, htB, ?_⟩
  · refine DigitsOk.append ?_ (DigitsOk.cons cw2 DigitsOk.nil)
    intro d hd; exact b2 d (List.mem_of_mem_tail hd)
  · rw [val_append]
    simp only [val, Nat.mul_zero, Nat.add_zero]
    have hpw : B ^ w.length = B ^ r3.1.tail.length * B := by rw [← htl, pow_succ]
    rw [a1] at b4
    -- everything in terms of the atoms
    have hb4 : B * val r3.1.tail + B ^ w.length * r3.2 = val r2.1 + val m * t := by
      rw [← hvr3]; simpa using b4
    have ha4 : val r2.1 + B ^ w.length * r2.2 = val w + val x * yi := by simpa using a4
    generalize B ^ w.length = Bn at *
    generalize B ^ r3.1.tail.length = Bn1 at *
    subst hpw
    have : (val r3.1.tail + Bn1 * cy + Bn1 * B * c') * B
        = B * val r3.1.tail + Bn1 * B * (cy + B * c') := by ring
    rw [this, ← cw3]
    nlinarith [hb4, ha4]


theorem prod_bound (x y P Q : Nat) (hx : x < P) (hy : y < Q) : x * y + P + Q ≤ P * Q + 1 := by
  obtain ⟨a, rfl⟩ : ∃ a, P = x + a + 1 := ⟨P - x - 1, by omega⟩
  obtain ⟨b, rfl⟩ : ∃ b, Q = y + b + 1 := ⟨Q - y - 1, by omega⟩
  have : (x + a + 1) * (y + b + 1) = x * y + x * b + x + a * y + a * b + a + y + b + 1 := by ring
  rw [this]
  have h1 := Nat.zero_le (x * b)
  have h2 := Nat.zero_le (a * y)
  have h3 := Nat.zero_le (a * b)
  omega

theorem winLoop_spec (x m : List Nat) (k m0 : Nat) (mt : List Nat)
    (hm : m = m0 :: mt) (hk : (k * m0 + 1) % B = 0) (hx : DigitsOk x) (hmo : DigitsOk m) :
    ∀ (ys w : List Nat) (c : Nat), 0 < w.length → x.length = w.length → m.length = w.length →
    DigitsOk w → DigitsOk ys → c ≤ 1 → val w + B ^ w.length * c < B ^ w.length + val m →
    (winLoop x m k ys w c).2.1.length = w.length ∧ DigitsOk (winLoop x m k ys w c).2.1 ∧
    (winLoop x m k ys w c).2.2 ≤ 1 ∧ (winLoop x m k ys w c).1.length = ys.length ∧
    val (winLoop x m k ys w c).2.1 + B ^ w.length * (winLoop x m k ys w c).2.2 < B ^ w.length + val m ∧
    ∃ u, (val (winLoop x m k ys w c).2.1 + B ^ w.length * (winLoop x m k ys w c).2.2) * B ^ ys.length
        = (val w + B ^ w.length * c) + val x * val ys + val m * u
  | [], w, c, hn, hxl, hml, hw, hys, hc, hT => by
    refine ⟨rfl, hw, hc, rfl, hT, 0, ?_⟩
    simp [winLoop, val]
  | yi :: ys, w, c, hn, hxl, hml, hw, hys, hc, hT => by
    obtain ⟨s1, s2, s3, t, htB, s4⟩ := winStep_spec x m k w c yi m0 mt hm hk hn hxl hml hw hx hmo hys.head hc
    simp only [winLoop]
    generalize winStep x m k w c yi = s at *
    -- the bound is preserved
    have hxlt : val x < B ^ w.length := by rw [← hxl]; exact val_lt hx
    have hT' : val s.2.1 + B ^ w.length * s.2.2 < B ^ w.length + val m := by
      have p1 := prod_bound (val x) yi (B ^ w.length) B hxlt hys.head
      have p2 : val m * t + val m ≤ val m * B := by
        have := Nat.mul_le_mul_left (val m) (show t + 1 ≤ B from htB)
        rw [Nat.mul_add, Nat.mul_one] at this; exact this
      apply Nat.lt_of_mul_lt_mul_right (a := B)
      rw [s4, Nat.add_mul]
      have hB := B_pos
      generalize val x * yi = xy at *
      generalize val m * t = mt' at *
      generalize B ^ w.length * B = BnB at *
      generalize val m * B = mB at *
      omega
    obtain ⟨i1, i2, i3, i4, i5, u, i6⟩ := winLoop_spec x m k m0 mt hm hk hx hmo ys s.2.1 s.2.2 (by omega)
      (by omega) (by omega) s2 hys.tail s3 (by rw [s1]; exact hT')
    rw [s1] at i1 i5 i6
    refine ⟨i1, i2, i3, by simp [i4], i5, t + B * u, ?_⟩
    simp only [List.length_cons, pow_succ, val]
    generalize val (winLoop x m k ys s.2.1 s.2.2).2.1 + B ^ w.length * (winLoop x m k ys s.2.1 s.2.2).2.2 = Tf at *
    generalize val s.2.1 + B ^ w.length * s.2.2 = T' at *
    calc Tf * (B ^ ys.length * B) = (Tf * B ^ ys.length) * B := by ring
      _ = (T' + val x * val ys + val m * u) * B := by rw [i6]
      _ = T' * B + val x * val ys * B + val m * u * B := by ring
      _ = (val w + B ^ w.length * c + val x * yi + val m * t) + val x * val ys * B + val m * u * B := by rw [s4]
      _ = val w + B ^ w.length * c + val x * (yi + B * val ys) + val m * (t + B * u) := by ring

theorem val_replicate_zero (n : Nat) : val (List.replicate n 0) = 0 := by
  induction n with
  | zero => rfl
  | succ n ih => simp [List.replicate_succ, val, ih]

theorem digitsOk_replicate_zero (n : Nat) : DigitsOk (List.replicate n 0) := by
  intro d hd
  rw [List.eq_of_mem_replicate hd]; exact B_pos

theorem modEq_of_add_mul {a b m p q : Nat} (h : a + m * p = b + m * q) : a ≡ b [MOD m] := by
  unfold Nat.ModEq
  have := congrArg (· % m) h
  simpa [Nat.add_mul_mod_self_left] using this

/-- `montgomery(x, y, m, k, n)` for operands of `n` digits and `k·m[0] ≡ −1 (mod B)`: the result has
    `n` proper digits (so it is `< B^n`) and `z·B^n ≡ x·y (mod m)` -/
theorem montgomery_core (x y m : List Nat) (k n m0 : Nat) (mt : List Nat)
    (hm : m = m0 :: mt) (hk : (k * m0 + 1) % B = 0)
    (hxl : x.length = n) (hyl : y.length = n) (hml : m.length = n)
    (hx : DigitsOk x) (hy : DigitsOk y) (hmo : DigitsOk m) :
    ∃ z, montgomery x y m k n = .ok z ∧ z.length = n ∧ DigitsOk z ∧
      val z * B ^ n ≡ val x * val y [MOD val m] := by
  have hn : 0 < n := by rw [← hml, hm]; simp
  unfold montgomery
  simp only [hxl, hyl, hml, and_self, not_true_eq_false, if_false]
  have hbuf : List.replicate (n * 2) 0 = [] ++ List.replicate n 0 ++ List.replicate y.length 0 := by
    rw [hyl, List.nil_append, List.replicate_append_replicate]; congr 1; omega
  have hwl : (List.replicate n 0).length = n := by simp
  have hwin := montLoop_window x m k y [] (List.replicate n 0) 0 (by rw [hwl]; exact hn)
  rw [hwl] at hwin
  simp only [List.length_nil] at hwin
  rw [hbuf, hwin]
  obtain ⟨l1, l2, l3, l4, l5, u, l6⟩ := winLoop_spec x m k m0 mt hm hk hx hmo y (List.replicate n 0) 0
    (by rw [hwl]; exact hn) (by rw [hwl]; exact hxl) (by rw [hwl]; exact hml)
    (digitsOk_replicate_zero n) hy (Nat.zero_le _)
    (by rw [val_replicate_zero]; simp; exact Or.inl (Nat.pow_pos B_pos))
  rw [hwl] at l1 l5 l6
  rw [val_replicate_zero, hyl] at l6
  simp only [Nat.mul_zero, Nat.add_zero, Nat.zero_add] at l6
  generalize winLoop x m k y (List.replicate n 0) 0 = r at *
  rw [hyl] at l4
  simp only [List.nil_append]
  have hdrop : (r.1 ++ r.2.1).drop n = r.2.1 := List.drop_left' l4
  have htake : (r.1 ++ r.2.1).take n = r.1 := List.take_left' l4
  by_cases hc : r.2.2 = 0
  · simp only [hc, if_true, hdrop]
    refine ⟨r.2.1, rfl, l1, l2, ?_⟩
    rw [hc] at l6
    simp only [Nat.mul_zero, Nat.add_zero] at l6
    exact modEq_of_add_mul (p := 0) (q := u) (by rw [Nat.mul_zero, Nat.add_zero]; exact l6)
  · have hc1 : r.2.2 = 1 := by omega
    simp only [hc, if_false, hdrop, htake]
    obtain ⟨s1, s2, s3, s4⟩ := subVV_spec r.1 r.2.1 m 0 (by rw [l1, l4]) (by rw [hml, l4]) l2 hmo (Nat.zero_le _)
    rw [l4] at s1 s4
    refine ⟨_, rfl, s1, s2, ?_⟩
    rw [hc1] at l5 l6
    simp only [Nat.mul_one, Nat.add_zero] at l5 l6 s4
    generalize (subVV r.1 r.2.1 m 0) = sv at *
    have hbo : sv.2 = 1 := by
      rcases Nat.lt_or_ge 0 sv.2 with h | h
      · omega
      · have : sv.2 = 0 := by omega
        rw [this] at s4; simp at s4; omega
    rw [hbo, Nat.mul_one] at s4
    apply modEq_of_add_mul (p := B ^ n) (q := u)
    rw [← l6, ← s4]; ring

/-! ### monty_modpow: Montgomery representatives, the table, the windows -/

/-- the standing assumptions of `monty_modpow` about the modulus and the Montgomery constant -/
def MCtx (m : List Nat) (k : Nat) : Prop :=
  ∃ m0 mt, m = m0 :: mt ∧ m0 % 2 = 1 ∧ (k * m0 + 1) % B = 0 ∧ DigitsOk m

/-- `z` is an `n`-digit vector congruent to `a·R`, `R = B^n` -/
def Rep (m z : List Nat) (a : Nat) : Prop :=
  z.length = m.length ∧ DigitsOk z ∧ val z ≡ a * B ^ m.length [MOD val m]

theorem mctx_odd {m : List Nat} {k : Nat} (h : MCtx m k) : val m % 2 = 1 := by
  obtain ⟨m0, mt, rfl, h1, _, _⟩ := h
  simp only [val]
  have : B * val mt = 2 * (9223372036854775808 * val mt) := by unfold B; ring
  rw [this]; omega

theorem mctx_coprime {m : List Nat} {k : Nat} (h : MCtx m k) : Nat.gcd (val m) (B ^ m.length) = 1 := by
  have h1 : Nat.Coprime (val m) 2 := Nat.coprime_two_right.mpr (Nat.odd_iff.mpr (mctx_odd h))
  rw [B_eq, ← pow_mul]
  exact Nat.Coprime.pow_right _ h1

theorem mctx_pos {m : List Nat} {k : Nat} (h : MCtx m k) : 0 < val m := by
  have := mctx_odd h; omega

theorem rep_congr {m z : List Nat} {a a' : Nat} (h : Rep m z a) (ha : a ≡ a' [MOD val m]) : Rep m z a' :=
  ⟨h.1, h.2.1, h.2.2.trans (ha.mul_right _)⟩

/-- Montgomery product of two vectors: `mont(z1, z2)·R ≡ z1·z2` -/
theorem mont_mul {m : List Nat} {k : Nat} (h : MCtx m k) (z1 z2 : List Nat)
    (h1 : z1.length = m.length) (h2 : z2.length = m.length) (d1 : DigitsOk z1) (d2 : DigitsOk z2) :
    ∃ z, montgomery z1 z2 m k m.length = .ok z ∧ z.length = m.length ∧ DigitsOk z ∧
      val z * B ^ m.length ≡ val z1 * val z2 [MOD val m] := by
  obtain ⟨m0, mt, hm, _, hk, hd⟩ := h
  exact montgomery_core z1 z2 m k m.length m0 mt hm hk h1 h2 rfl d1 d2 hd

theorem mont_rep {m : List Nat} {k : Nat} (h : MCtx m k) (z1 z2 : List Nat) (a b : Nat)
    (r1 : Rep m z1 a) (r2 : Rep m z2 b) :
    ∃ z, montgomery z1 z2 m k m.length = .ok z ∧ Rep m z (a * b) := by
  obtain ⟨z, e, l, d, c⟩ := mont_mul h z1 z2 r1.1 r2.1 r1.2.1 r2.2.1
  refine ⟨z, e, l, d, ?_⟩
  apply Nat.ModEq.cancel_right_of_coprime (mctx_coprime h)
  have := r1.2.2.mul r2.2.2
  have e2 : a * B ^ m.length * (b * B ^ m.length) = a * b * B ^ m.length * B ^ m.length := by ring
  rw [e2] at this
  exact c.trans this

/-- `s` Montgomery squarings of a representative of `a` give a representative of `a^(2^s)` -/
theorem squaringsN_rep {m : List Nat} {k : Nat} (h : MCtx m k) :
    ∀ (s : Nat) (z : List Nat) (a : Nat), Rep m z a →
      ∃ z', squaringsN m k m.length s z = .ok z' ∧ Rep m z' (a ^ (2 ^ s))
  | 0, z, a, r => ⟨z, rfl, by simpa using r⟩
  | s + 1, z, a, r => by
    obtain ⟨z1, e1, r1⟩ := mont_rep h z z a a r r
    obtain ⟨z', e2, r2⟩ := squaringsN_rep h s z1 (a * a) r1
    refine ⟨z', by simp only [squaringsN, e1, e2], ?_⟩
    have : (a * a) ^ (2 ^ s) = a ^ (2 ^ (s + 1)) := by
      rw [← pow_two, ← pow_mul, pow_succ, Nat.mul_comm]
    rw [← this]; exact r2

/-- the table invariant: entry `i` represents `b^i` -/
def Table (m : List Nat) (b : Nat) (powers : List (List Nat)) (cnt : Nat) : Prop :=
  ∀ i, i < cnt → ∃ p, powers[i]? = some p ∧ Rep m p (b ^ i)

theorem tableLoop_spec {m : List Nat} {k : Nat} (h : MCtx m k) (b : Nat) (p1 : List Nat) (hp1 : Rep m p1 b) :
    ∀ cnt prev j, Rep m prev (b ^ j) →
      ∃ rest, tableLoop m k m.length p1 cnt prev = .ok rest ∧
        ∀ i, i < cnt → ∃ p, rest[i]? = some p ∧ Rep m p (b ^ (j + 1 + i))
  | 0, prev, j, _ => ⟨[], rfl, by intro i hi; omega⟩
  | cnt + 1, prev, j, hprev => by
    obtain ⟨r, e, hr⟩ := mont_rep h prev p1 _ _ hprev hp1
    rw [← pow_succ] at hr
    obtain ⟨rest, e2, hrest⟩ := tableLoop_spec h b p1 hp1 cnt r (j + 1) hr
    refine ⟨r :: rest, by simp [tableLoop, e, e2], ?_⟩
    intro i hi
    cases i with
    | zero => exact ⟨r, rfl, by simpa using hr⟩
    | succ i =>
      obtain ⟨p, hp, hrp⟩ := hrest i (by omega)
      refine ⟨p, by simpa using hp, ?_⟩
      have : j + 1 + (i + 1) = j + 1 + 1 + i := by omega
      rw [this]; exact hrp


/-- the window loop with `w`-bit windows and `w` squarings per window: `cnt` windows left, the current
    digit holds them in its top `w·cnt` bits (`yi = u · 2^(64 - w·cnt)`); squarings may be skipped only
    while the accumulated exponent is still 0 -/
theorem windowLoop_spec {m : List Nat} {k : Nat} (h : MCtx m k) (b : Nat) (powers : List (List Nat))
    (w : Nat) (hw : 0 < w) (hT : Table m b powers (2 ^ w)) (first : Bool) :
    ∀ cnt j u z E, w * cnt ≤ 64 → u < 2 ^ (w * cnt) → Rep m z (b ^ E) → (first = true ∧ j = 0 → E = 0) →
      ∃ z', windowLoop w w m k m.length powers first cnt j (u * 2 ^ (64 - w * cnt)) z = .ok z' ∧
        Rep m z' (b ^ (E * 2 ^ (w * cnt) + u))
  | 0, j, u, z, E, _, hu, hz, _ => by
    have : u = 0 := by simpa using hu
    subst this
    exact ⟨z, rfl, by simpa using hz⟩
  | cnt + 1, j, u, z, E, hcnt, hu, hz, hskip => by
    rw [windowLoop]
    have hs : w * (cnt + 1) = w * cnt + w := Nat.mul_succ w cnt
    -- the squarings
    have hsq : ∃ z1, (if ¬ first = true ∨ j ≠ 0 then squaringsN m k m.length w z else .ok z) = .ok z1 ∧
        Rep m z1 (b ^ (E * 2 ^ w)) := by
      by_cases hc : ¬ first = true ∨ j ≠ 0
      · simp only [hc, if_true]
        obtain ⟨z1, e1, r1⟩ := squaringsN_rep h w z _ hz
        exact ⟨z1, e1, by rw [← pow_mul] at r1; exact r1⟩
      · simp only [hc, if_false]
        have hE : E = 0 := hskip (by
          constructor
          · by_contra h1; exact hc (Or.inl h1)
          · by_contra h1; exact hc (Or.inr h1))
        subst hE
        exact ⟨z, rfl, by simpa using hz⟩
    obtain ⟨z1, e1, r1⟩ := hsq
    simp only [e1]
    -- the window value
    have hp : (2:Nat) ^ (w * (cnt + 1)) = 2 ^ (w * cnt) * 2 ^ w := by rw [hs, pow_add]
    have hq : (2:Nat) ^ (64 - w * cnt) = 2 ^ (64 - w * (cnt + 1)) * 2 ^ w := by
      rw [← pow_add]; congr 1; omega
    have h60 : (2:Nat) ^ (64 - w) = 2 ^ (w * cnt) * 2 ^ (64 - w * (cnt + 1)) := by
      rw [← pow_add]; congr 1; omega
    have hidx : (u * 2 ^ (64 - w * (cnt + 1))) >>> (BITS - w) = u / 2 ^ (w * cnt) := by
      have : BITS - w = 64 - w := rfl
      rw [this, Nat.shiftRight_eq_div_pow, h60]
      exact Nat.mul_div_mul_right _ _ (Nat.pow_pos (by decide))
    have hidxw : u / 2 ^ (w * cnt) < 2 ^ w := by
      rw [Nat.div_lt_iff_lt_mul (Nat.pow_pos (by decide)), Nat.mul_comm]
      rw [hp] at hu; exact hu
    obtain ⟨p, hp1, hp2⟩ := hT _ hidxw
    rw [hidx, hp1]
    simp only []
    obtain ⟨zz, e2, r2⟩ := mont_rep h z1 p _ _ r1 hp2
    rw [e2]
    simp only []
    -- the shifted digit
    have hshift : ((u * 2 ^ (64 - w * (cnt + 1))) <<< w) % B = (u % 2 ^ (w * cnt)) * 2 ^ (64 - w * cnt) := by
      rw [Nat.shiftLeft_eq, hq]
      have hB : B = 2 ^ (w * cnt) * (2 ^ (64 - w * (cnt + 1)) * 2 ^ w) := by
        rw [B_eq, ← hq, ← pow_add]; congr 1; omega
      rw [hB, Nat.mul_assoc]
      exact Nat.mul_mod_mul_right _ _ _
    rw [hshift]
    have hu' : u % 2 ^ (w * cnt) < 2 ^ (w * cnt) := Nat.mod_lt _ (Nat.pow_pos (by decide))
    rw [← pow_add] at r2
    obtain ⟨z', e3, r3⟩ := windowLoop_spec h b powers w hw hT first cnt (j + w) (u % 2 ^ (w * cnt)) zz
      (E * 2 ^ w + u / 2 ^ (w * cnt)) (by omega) hu' r2 (by intro ⟨_, h0⟩; omega)
    refine ⟨z', e3, ?_⟩
    have : (E * 2 ^ w + u / 2 ^ (w * cnt)) * 2 ^ (w * cnt) + u % 2 ^ (w * cnt)
        = E * 2 ^ (w * (cnt + 1)) + u := by
      rw [hp]
      have := Nat.div_add_mod u (2 ^ (w * cnt))
      calc (E * 2 ^ w + u / 2 ^ (w * cnt)) * 2 ^ (w * cnt) + u % 2 ^ (w * cnt)
          = E * (2 ^ (w * cnt) * 2 ^ w) + (2 ^ (w * cnt) * (u / 2 ^ (w * cnt)) + u % 2 ^ (w * cnt)) := by ring
        _ = E * (2 ^ (w * cnt) * 2 ^ w) + u := by rw [this]
    rw [← this]; exact r3

/-- the number of windows per exponent digit when the window width divides the digit width -/
theorem window_count (w : Nat) (hw : 0 < w) (hwd : w ∣ 64) : (BITS + w - 1) / w = 64 / w := by
  obtain ⟨c, hc⟩ := hwd
  have h1 : BITS + w - 1 = w * c + (w - 1) := by unfold BITS; omega
  rw [h1, Nat.mul_add_div hw, Nat.div_eq_of_lt (by omega), hc, Nat.mul_div_cancel_left _ hw, Nat.add_zero]

theorem digitLoop_spec {m : List Nat} {k : Nat} (h : MCtx m k) (b : Nat) (powers : List (List Nat))
    (w : Nat) (hw : 0 < w) (hwd : w ∣ 64) (hT : Table m b powers (2 ^ w)) (ylen : Nat) :
    ∀ yrev z E, DigitsOk yrev → yrev.length ≤ ylen → (yrev.length = ylen → E = 0) → Rep m z (b ^ E) →
      ∃ z', digitLoop w w m k m.length powers ylen yrev z = .ok z' ∧
        Rep m z' (b ^ (E * B ^ yrev.length + val yrev.reverse))
  | [], z, E, _, _, _, hz => ⟨z, rfl, by simpa [val] using hz⟩
  | yi :: rest, z, E, hd, hl, hE, hz => by
    rw [digitLoop]
    have hmul : w * (64 / w) = 64 := Nat.mul_div_cancel' hwd
    have hyi : yi < 2 ^ (w * (64 / w)) := by rw [hmul]; have := hd.head; rw [B_eq] at this; exact this
    have hwl := windowLoop_spec h b powers w hw hT (rest.length == ylen - 1) (64 / w) 0 yi z E
      (Nat.le_of_eq hmul) hyi hz (by
      intro ⟨h1, _⟩
      apply hE
      have : rest.length = ylen - 1 := by simpa using h1
      simp only [List.length_cons] at hl ⊢
      omega)
    rw [hmul, Nat.sub_self, pow_zero, Nat.mul_one, ← B_eq] at hwl
    obtain ⟨z1, e1, r1⟩ := hwl
    rw [window_count w hw hwd, e1]
    simp only []
    obtain ⟨z', e2, r2⟩ := digitLoop_spec h b powers w hw hwd hT ylen rest z1 (E * B + yi) hd.tail
      (by simp only [List.length_cons] at hl; omega)
      (by intro h0; simp only [List.length_cons] at hl; omega) r1
    refine ⟨z', e2, ?_⟩
    have : (E * B + yi) * B ^ rest.length + val rest.reverse
        = E * B ^ (yi :: rest).length + val (yi :: rest).reverse := by
      simp only [List.length_cons, List.reverse_cons, val_append, List.length_reverse, val, pow_succ]
      ring
    rw [← this]; exact r2


theorem ofNat_length_le (v n : Nat) (h : v < B ^ n) : (ofNat v).length ≤ n := by
  by_cases hne : ofNat v = []
  · rw [hne]; simp
  · have h1 := canon_val_ge (ofNat_canon v) hne
    rw [ofNat_val] at h1
    have h2 : B ^ ((ofNat v).length - 1) < B ^ n := Nat.lt_of_le_of_lt h1 h
    have h3 := (Nat.pow_lt_pow_iff_right (show 1 < B by decide)).mp h2
    omega

theorem padTo_val (v : List Nat) (n : Nat) : val (padTo v n) = val v := by
  unfold padTo; rw [val_append, val_replicate_zero]; simp

theorem padTo_ok (v : List Nat) (n : Nat) (h : DigitsOk v) : DigitsOk (padTo v n) :=
  h.append (digitsOk_replicate_zero _)

theorem padTo_length (v : List Nat) (n : Nat) (h : v.length ≤ n) : (padTo v n).length = n := by
  unfold padTo; simp; omega

/-- `if v.len() < n { v.resize(n, 0) }` on a vector of at most `n` digits -/
theorem fit_spec (v : List Nat) (n : Nat) (h : v.length ≤ n) (hd : DigitsOk v) :
    (if v.length < n then padTo v n else v).length = n ∧
    DigitsOk (if v.length < n then padTo v n else v) ∧
    val (if v.length < n then padTo v n else v) = val v := by
  by_cases hl : v.length < n
  · simp only [hl, if_true]; exact ⟨padTo_length v n h, padTo_ok v n hd, padTo_val v n⟩
  · simp only [hl, if_false]; exact ⟨by omega, hd, trivial⟩

theorem resize_self (v : List Nat) : resize v v.length = v := by
  unfold resize padTo; simp

theorem last_reduction (v M : Nat) (hM : 0 < M) :
    (if v ≥ M then (if v - M ≥ M then (v - M) % M else v - M) else v) = v % M := by
  by_cases h : v ≥ M
  · simp only [h, if_true]
    rw [Nat.mod_eq_sub_mod h]
    by_cases h2 : v - M ≥ M
    · simp only [h2, if_true]
    · simp only [h2, if_false]; rw [Nat.mod_eq_of_lt (by omega)]
  · simp only [h, if_false]; rw [Nat.mod_eq_of_lt (by omega)]

/-- `monty_modpow(x, y, m)` for an odd modulus returns `x^y mod m` -/
theorem montyModpow_spec (P : Params) (hw0 : 0 < P.window) (hwd : P.window ∣ 64)
    (hsq : P.squarings = P.window) (x y m : List Nat) (m0 : Nat) (mt : List Nat)
    (hm : m = m0 :: mt) (hodd : m0 % 2 = 1)
    (hx : DigitsOk x) (hy : DigitsOk y) (hmd : DigitsOk m) :
    montyModpow P x y m = .ok (ofNat (val x ^ val y % val m)) := by
  subst hm
  unfold montyModpow
  simp only []
  have h1 : ¬ (m0 &&& 1 ≠ 1) := by rw [Nat.and_one_is_mod]; omega
  simp only [h1, if_false]
  obtain ⟨k, hk, hkB, hkm⟩ := invModAlt_spec m0 hmd.head hodd
  rw [hk]
  simp only [hsq]
  generalize P.window = w at *
  have hctx : MCtx (m0 :: mt) k := ⟨m0, mt, rfl, hodd, hkm, hmd⟩
  have hMpos := mctx_pos hctx
  have hcop := mctx_coprime hctx
  have hMlt : val (m0 :: mt) < B ^ (m0 :: mt).length := val_lt hmd
  generalize hmm : m0 :: mt = m at *
  have hnpos : 0 < m.length := by rw [← hmm]; simp
  -- the padded base
  have hx1 : ∃ x1, (if x.length > m.length then ofNat (val x % val m) else x) = x1 ∧ x1.length ≤ m.length ∧
      DigitsOk x1 ∧ val x1 ≡ val x [MOD val m] := by
    by_cases hl : x.length > m.length
    · simp only [hl, if_true]
      refine ⟨_, rfl, ofNat_length_le _ _ (Nat.lt_trans (Nat.mod_lt _ hMpos) hMlt), ofNat_digitsOk _, ?_⟩
      rw [ofNat_val]; exact Nat.mod_modEq _ _
    · simp only [hl, if_false]
      exact ⟨x, rfl, by omega, hx, Nat.ModEq.refl _⟩
  obtain ⟨x1, ex1, lx1, dx1, cx1⟩ := hx1
  rw [ex1]
  obtain ⟨lx2, dx2, vx2⟩ := fit_spec x1 m.length lx1 dx1
  generalize (if x1.length < m.length then padTo x1 m.length else x1) = x2 at *
  -- rr
  have hrr1 : (ofNat (2 ^ (2 * m.length * BITS) % val m)).length ≤ m.length :=
    ofNat_length_le _ _ (Nat.lt_trans (Nat.mod_lt _ hMpos) hMlt)
  obtain ⟨lrr, drr, vrr⟩ := fit_spec _ m.length hrr1 (ofNat_digitsOk _)
  generalize (if (ofNat (2 ^ (2 * m.length * BITS) % val m)).length < m.length
    then padTo (ofNat (2 ^ (2 * m.length * BITS) % val m)) m.length
    else ofNat (2 ^ (2 * m.length * BITS) % val m)) = rr at *
  rw [ofNat_val] at vrr
  have crr : val rr ≡ B ^ m.length * B ^ m.length [MOD val m] := by
    rw [vrr]
    have : 2 ^ (2 * m.length * BITS) = B ^ m.length * B ^ m.length := by
      rw [B_eq, ← pow_mul, ← pow_add, BITS_eq]; congr 1; ring
    rw [this]; exact Nat.mod_modEq _ _
  -- one
  have lone : (padTo [1] m.length).length = m.length := padTo_length _ _ (by simp; omega)
  have done : DigitsOk (padTo [1] m.length) := padTo_ok _ _ (DigitsOk.cons (by decide) DigitsOk.nil)
  have vone : val (padTo [1] m.length) = 1 := by rw [padTo_val]; simp [val]
  generalize padTo [1] m.length = one at *
  have hwne : ¬ (w = 0) := by omega
  simp only [hwne, if_false]
  -- powers[0], powers[1]
  obtain ⟨p0, e0, l0, d0, c0⟩ := mont_mul hctx one rr lone lrr done drr
  have r0 : Rep m p0 (val x ^ 0) := by
    refine ⟨l0, d0, ?_⟩
    apply Nat.ModEq.cancel_right_of_coprime hcop
    rw [vone, Nat.one_mul] at c0
    rw [pow_zero, Nat.one_mul]
    exact c0.trans crr
  obtain ⟨p1, e1, l1, d1, c1⟩ := mont_mul hctx x2 rr lx2 lrr dx2 drr
  have r1 : Rep m p1 (val x) := by
    refine ⟨l1, d1, ?_⟩
    apply Nat.ModEq.cancel_right_of_coprime hcop
    have : val x2 * val rr ≡ val x * (B ^ m.length * B ^ m.length) [MOD val m] := by
      rw [vx2]; exact cx1.mul crr
    rw [← Nat.mul_assoc] at this
    exact c1.trans this
  rw [e0]; simp only []
  rw [e1]; simp only []
  have r1' : Rep m p1 (val x ^ 1) := by simpa using r1
  obtain ⟨rest, et, ht⟩ := tableLoop_spec hctx (val x) p1 r1 (2 ^ w - 2) p1 1 r1'
  rw [et]; simp only []
  have hT : Table m (val x) (p0 :: p1 :: rest) (2 ^ w) := by
    intro i hi
    match i with
    | 0 => exact ⟨p0, rfl, r0⟩
    | 1 => exact ⟨p1, rfl, r1'⟩
    | i + 2 =>
      obtain ⟨p, hp, hr⟩ := ht i (by omega)
      refine ⟨p, by simpa using hp, ?_⟩
      have : 1 + 1 + i = i + 2 := by omega
      rw [this] at hr; exact hr
  have hrs : resize p0 m.length = p0 := by rw [← l0]; exact resize_self p0
  rw [hrs]
  obtain ⟨z, ez, rz⟩ := digitLoop_spec hctx (val x) (p0 :: p1 :: rest) w hw0 hwd hT y.length y.reverse p0 0
    (by intro d hd; exact hy d (List.mem_reverse.mp hd)) (by simp) (fun _ => rfl) r0
  rw [ez]; simp only []
  rw [List.reverse_reverse, Nat.zero_mul, Nat.zero_add] at rz
  obtain ⟨zz, ezz, lzz, dzz, czz⟩ := mont_mul hctx z one rz.1 lone rz.2.1 done
  rw [ezz]; simp only []
  have hfin : val zz ≡ val x ^ val y [MOD val m] := by
    apply Nat.ModEq.cancel_right_of_coprime hcop
    rw [vone, Nat.mul_one] at czz
    exact czz.trans rz.2.2
  have := last_reduction (val zz) (val m) hMpos
  rw [this]
  congr 2

end NB
