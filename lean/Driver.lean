/-
  nbdrv — line-protocol driver.  One request per input line: `<stream> <op> <arg>*`.
  One answer per line: `<model result> | <oracle result>` or `unsupported`.
  Imports only import-free model/spec modules so that it links as a native executable.
-/
import NB.Drv.C01
import NB.Drv.C15
import NB.Drv.C05
import NB.Drv.C09
import NB.Drv.C17
import NB.Drv.C10
import NB.Drv.C18
import NB.Drv.C06
import NB.Drv.C08
import NB.Drv.C03
import NB.Drv.C07
import NB.Drv.C11
import NB.Drv.C12
import NB.Drv.C13
import NB.Drv.C02
import NB.Drv.C20
import NB.Drv.C04
import NB.Drv.C19

def handlers : List (String × (String → List String → Option (String × String))) :=
  [ ("C01", NB.Drv.C01.handle),
    ("C15", NB.Drv.C15.handle),
    ("C05", NB.Drv.C05.handle),
    ("C09", NB.Drv.C09.handle),
    ("C17", NB.Drv.C17.handle),
    ("C10", NB.Drv.C10.handle),
    ("C18", NB.Drv.C18.handle),
    ("C06", NB.Drv.C06.handle),
    ("C08", NB.Drv.C08.handle),
    ("C03", NB.Drv.C03.handle),
    ("C07", NB.Drv.C07.handle),
    ("C11", NB.Drv.C11.handle),
    ("C12", NB.Drv.C12.handle),
    ("C13", NB.Drv.C13.handle),
    ("C02", NB.Drv.C02.handle),
    ("C20", NB.Drv.C20.handle),
    ("C04", NB.Drv.C04.handle),
    ("C19", NB.Drv.C19.handle) ]

def answer (line : String) : String :=
  match (line.trimAscii.toString.splitOn " ").filter (· ≠ "") with
  | stream :: op :: args =>
    match handlers.lookup stream with
    | some h => match h op args with
      | some (m, o) => m ++ " | " ++ o
      | none => "unsupported"
    | none => "unsupported"
  | _ => "unsupported"

partial def loop (h : IO.FS.Stream) (out : IO.FS.Stream) : IO Unit := do
  let line ← h.getLine
  if line.isEmpty then return ()
  out.putStrLn (answer line)
  loop h out

def main : IO Unit := do
  let stdin ← IO.getStdin
  let stdout ← IO.getStdout
  loop stdin stdout
