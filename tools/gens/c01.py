"""C01 — addition / subtraction request generator."""
from genlib import *

def lengths(rng, tier):
    base = list(range(0, 13)) + [5 * k + d for k in range(1, 9) for d in (-1, 0, 1)]
    mx = 400 if tier == "thorough" else 64
    return base + [rng.randrange(0, mx) for _ in range(20)]

def pair_patterns(rng, la, lb):
    """operand pairs (as ints) that stress carry / borrow chains"""
    out = []
    a = big(rng, la); b = big(rng, lb); out.append((a, b))
    # all-ones chain crossing block boundaries and running into the longer tail
    lo, hi = min(la, lb), max(la, lb)
    if hi > 0:
        ones = val([MAX] * hi)
        out.append((ones, 1))
        out.append((ones, val([MAX] * lo)))
        out.append((val([MAX] * lo + [0] * (hi - lo - 1) + ([1] if hi > lo else [])), val([1] + [0] * (lo - 1)) if lo else 0))
        k = rng.randrange(hi)
        out.append((val([MAX] * k + [rng.randrange(B)] + [MAX] * (hi - k - 1)), val([rng.randrange(1, B)] + [0] * max(0, lo - 1))))
        # borrow chain ending at the top digit: B^(hi-1) - small
        out.append((val([0] * (hi - 1) + [1]), rng.randrange(1, B)))
        out.append((val([0] * (hi - 1) + [1]), val([MAX] * lo) if lo < hi else 1))
        out.append((a, a)); out.append((a, a + 1)); out.append((a + 1, a))
        out.append((a, max(a - 1, 0)))
        # carry start/stop at each offset relative to a block boundary
        s = rng.randrange(hi); e = rng.randrange(s, hi)
        x = [rng.randrange(B) for _ in range(hi)]
        for i in range(s, e + 1): x[i] = MAX
        y = [0] * hi; y[s] = rng.randrange(1, B)
        out.append((val(canon(x)), val(y[:max(lo, s + 1)])))
    return out

def gen(rng, tier):
    reqs = []
    n_rounds = 12 if tier == "thorough" else 1
    for _ in range(n_rounds):
        ls = lengths(rng, tier)
        for la in ls:
            for lb in {la, max(0, la - 1), la + 1, max(0, la - 4), la + 5, la + 6, rng.choice(ls)}:
                for (a, b) in pair_patterns(rng, la, lb):
                    if rng.randrange(2): a, b = b, a
                    op = rng.choice(["u.add", "u.add_assign", "u.checked_add", "u.sub", "u.sub", "u.sub_assign",
                                     "u.sub_refval", "u.checked_sub"])
                    reqs.append("C01 %s %s %s" % (op, wu(a), wu(b)))
                    if op.startswith("u.sub") and a < b and rng.randrange(3):
                        reqs.append("C01 %s %s %s" % (op, wu(b), wu(a)))
                    iop = rng.choice(["i.add", "i.sub", "i.add_assign", "i.sub_assign", "i.checked_add", "i.checked_sub"])
                    reqs.append("C01 %s %s %s" % (iop, wi(signed(rng, a)), wi(signed(rng, b))))
        # scalar on the left (`u32/u64/u128 - BigUint`): the result is computed in the big operand's buffer;
        # underflow must panic for every width, also when the subtrahend has a single digit
        for (op, bits) in (("u.sub_from_u32", 32), ("u.sub_from_u64", 64), ("u.sub_from_u128", 128)):
            top = (1 << bits) - 1
            for sc in (0, 1, 2, 5, top, top - 1, 1 << (bits - 1), rng.randrange(top + 1)):
                for b in (0, 1, 2, sc, sc + 1, max(sc - 1, 0), MAX, B, B + 1, B * B, rng.randrange(1, B), big(rng, 2), big(rng, 3),
                          (sc + rng.randrange(1, 1 << 20))):
                    reqs.append("C01 %s %d %s" % (op, sc, wu(b)))
        # scalar on the right (`BigUint ± u64/u128`, also `+=`/`-=`): a u128 is always split into `[lo, hi]`, also when
        # hi == 0; zero and one-digit receivers; underflow must panic for every width
        for (sfx, bits) in (("u64", 64), ("u128", 128)):
            top = (1 << bits) - 1
            for sc in (0, 1, 5, MAX, top, top - 1, 1 << (bits - 1), B if bits > 64 else 7, rng.randrange(top + 1), rng.randrange(1, B)):
                for a in (0, 1, sc, sc + 1, max(sc - 1, 0), MAX, B, B + 1, B * B, B * B - 1, big(rng, 2), big(rng, 3), big(rng, 6),
                          val([MAX] * 3)):
                    reqs.append("C01 u.add_%s %s %d" % (sfx, wu(a), sc))
                    reqs.append("C01 u.sub_%s %s %d" % (sfx, wu(a), sc))
        # internal add2 on raw slices
        for la in ls:
            for lb in {0, 1, la, max(0, la - 1), max(0, la - 5), la // 2}:
                if lb > la: continue
                a = digits(rng, la); b = digits(rng, lb)
                reqs.append("C01 raw.add2 %s %s" % (wl(a), wl(b)))
                reqs.append("C01 raw.add2 %s %s" % (wl([MAX] * la), wl([MAX] * lb)))
    return reqs
