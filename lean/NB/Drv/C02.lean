/- driver handlers for stream C02 (multiplication) -/
import NB.Wire
import NB.Model.Mul
import NB.Model.AsmParams
import NB.Model.Scalar
import NB.Model.ScalarD
namespace NB.Drv.C02
open NB NB.Mul NB.Wire

def P := NB.Gen.P

def su := showExcept showLimbs
def si := showExcept showBigInt

/-- digits of `n` padded with high zeros to `len` digits -/
def padTo (len : Nat) (n : Nat) : List Nat :=
  let d := ofNat n
  d ++ List.replicate (len - d.length) 0

def showSome {α} (f : α → String) : Except Panic α → String
  | .ok r => "some " ++ f r
  | .error p => "panic " ++ p.toString

/-! #### api-coverage: scalar multiplication forms (`<type>:<decimal>` tokens), modelled by the digit-level leaves
     of NB.Model.ScalarD (promotion cast, then `MulAssign<u32|u64|u128>` / the BigInt sign handling as written) -/

def styOfName (s : String) : Option STy :=
  if s == "u8" then some .u8 else if s == "u16" then some .u16 else if s == "u32" then some .u32
  else if s == "u64" then some .u64 else if s == "u128" then some .u128 else if s == "usize" then some .usize
  else if s == "i8" then some .i8 else if s == "i16" then some .i16 else if s == "i32" then some .i32
  else if s == "i64" then some .i64 else if s == "i128" then some .i128 else if s == "isize" then some .isize
  else none

def parseScalarTok (s : String) : Option (STy × Int) :=
  match s.splitOn ":" with
  | [t, v] => do
    let ty ← styOfName t
    let x ← parseInt v
    if ty.InRange x then pure (ty, x) else none
  | _ => none

def scalarHandle (op : String) (args : List String) : Option (String × String) :=
  match args with
  | [p, q] => do
    let name := (op.drop 2).toString
    let (pos, a, tv) ← (if name == "mul_s" then some (SPos.bigScalar, p, q)
                        else if name == "s_mul" then some (SPos.scalarBig, q, p)
                        else if name == "mul_assign_s" then some (SPos.assign, p, q) else none)
    let (t, s) ← parseScalarTok tv
    if op.startsWith "u." then do
      let a ← parseLimbs a
      if t.signed then none else
      pure (su (SD.uScalarForm P .mul pos t a s), su (.ok (ofNat (val a * s.toNat))))
    else do
      let a ← parseBigInt a
      pure (si (SD.iScalarForm P .mul pos t a s), si (.ok (BigInt.ofInt (a.val * s))))
  | _ => none

def handle (op : String) (args : List String) : Option (String × String) :=
  match op, args with
  -- scalar forms: `BigUint *= u64/u128` (`scalar_mul` for one digit: 0 / 1 / power of two / general; `mul3` with
  -- the `[lo, hi]` operand for a two-digit u128, WITHOUT a zero test on the receiver) — the digit-level leaf of C10D
  | "u.mul_u64", [a, sc] => do
    let a ← parseLimbs a; let sc ← parseNat sc
    pure (su (NB.SD.dMulAssign .u64 P a sc), su (.ok (ofNat (val a * sc))))
  | "u.mul_u128", [a, sc] => do
    let a ← parseLimbs a; let sc ← parseNat sc
    pure (su (NB.SD.dMulAssign .u128 P a sc), su (.ok (ofNat (val a * sc))))
  | "u.mul", [a, b] => do
    let a ← parseLimbs a; let b ← parseLimbs b
    pure (su (mulRef P a b), su (.ok (ofNat (val a * val b))))
  | "u.mul_assign", [a, b] => do
    let a ← parseLimbs a; let b ← parseLimbs b
    pure (su (mulAssign P a b), su (.ok (ofNat (val a * val b))))
  | "u.checked_mul", [a, b] => do
    let a ← parseLimbs a; let b ← parseLimbs b
    pure (showSome showLimbs (mulRef P a b), "some " ++ showLimbs (ofNat (val a * val b)))
  | "i.mul", [a, b] => do
    let a ← parseBigInt a; let b ← parseBigInt b
    pure (si (bigintMul P a b), si (.ok (BigInt.ofInt (a.val * b.val))))
  | "i.mul_assign", [a, b] => do
    let a ← parseBigInt a; let b ← parseBigInt b
    pure (si (bigintMulAssign P a b), si (.ok (BigInt.ofInt (a.val * b.val))))
  | "i.checked_mul", [a, b] => do
    let a ← parseBigInt a; let b ← parseBigInt b
    pure (showSome showBigInt (bigintMul P a b), "some " ++ showBigInt (BigInt.ofInt (a.val * b.val)))
  -- api-coverage: trait impl `CheckedMul for BigInt` = `Some(&self * v)`
  | "i.checked_mul_t", [a, b] => do
    let a ← parseBigInt a; let b ← parseBigInt b
    pure (showSome showBigInt (bigintMul P a b), "some " ++ showBigInt (BigInt.ofInt (a.val * b.val)))
  -- api-coverage: scalar multiplication forms
  | "u.mul_s", [p, q] | "u.s_mul", [p, q] | "u.mul_assign_s", [p, q]
  | "i.mul_s", [p, q] | "i.s_mul", [p, q] | "i.mul_assign_s", [p, q] => scalarHandle op [p, q]
  -- internal hooks: raw slices
  | "raw.mac3", [acc, b, c] => do
    let acc ← parseLimbs acc; let b ← parseLimbs b; let c ← parseLimbs c
    let tot := val acc + val b * val c
    let n := acc.length
    let o := if tot < B ^ n then su (.ok (padTo n tot)) else "-"
    pure (su (mac3 P (mulFuel b c) acc b c), o)
  | "raw.sub_sign", [a, b] => do
    let a ← parseLimbs a; let b ← parseLimbs b
    let m := match subSign P a b with
      | .ok r => "ok " ++ showSign r.1 ++ showLimbs r.2
      | .error p => "panic " ++ p.toString
    let d : Int := (val a : Int) - (val b : Int)
    pure (m, "ok " ++ showBigInt (BigInt.ofInt d))
  | _, _ => none

end NB.Drv.C02
