"""C13 — gcd / lcm / Bezout / multiple-of helpers request generator.

pairs: zeros, equal, one dividing the other, common powers of two spanning digits with different
trailing-zero counts, coprime large (consecutive, consecutive Fibonacci = Euclid worst case),
random multi-digit with a planted common factor; all sign combinations for BigInt.
"""
from genlib import *

BIN_U = ["u.gcd", "u.lcm", "u.gcd_lcm", "u.is_multiple_of", "u.next_multiple_of", "u.prev_multiple_of"]
BIN_I = ["i.gcd", "i.lcm", "i.gcd_lcm", "i.extended_gcd", "i.extended_gcd.id", "i.extended_gcd_lcm", "i.extended_gcd_lcm.id",
         "i.is_multiple_of", "i.next_multiple_of", "i.prev_multiple_of"]
UN_U = ["u.is_even", "u.is_odd", "u.inc", "u.dec"]
UN_I = ["i.is_even", "i.is_odd", "i.inc", "i.dec"]

def odd(rng, la):
    return big(rng, la) | 1

def fib_pair(n):
    a, b = 0, 1
    for _ in range(n):
        a, b = b, a + b
    return a, b

def pairs(rng, tier):
    thorough = tier == "thorough"
    out = []
    small = [0, 1, 2, 3, 4, 6, 12, 18, MAX, MAX - 1, 1 << 63, 1 << 64, (1 << 64) + 1, (1 << 64) - 2, 1 << 128]
    for a in small:
        for b in small:
            out.append((a, b))
    # 36/40/90 digits: the digit-level model's `self / gcd * other` and the Euclid loop's `q * r` reach the
    # Karatsuba regime of mulRef and multi-digit Knuth division
    lens = [1, 2, 3, 4, 7] + ([16, 40, 90] if thorough else [12, 36])
    reps = 6 if thorough else 2
    for _ in range(reps):
        for la in lens:
            for lb in {1, la, max(1, la - 1), la + 1, rng.choice(lens)}:
                a, b = big(rng, la), big(rng, lb)
                out.append((a, b))
                out.append((a, a))
                out.append((a, 0)); out.append((0, a))
                # divisibility
                k = rng.randrange(1, 1 << 70)
                out.append((a * k, a)); out.append((a, a * k)); out.append((a * k, a * (k + 1)))
                # planted common factor
                g = big(rng, rng.choice([1, 1, 2, 3]))
                out.append((a * g, b * g))
                # coprime large
                out.append((a, a + 1)); out.append((a | 1, (a | 1) + 2))
                # off by one around a multiple (next/prev_multiple_of, is_multiple_of)
                out.append((a * k + 1, a)); out.append((a * k - 1, a)); out.append((a * k + a - 1, a))
    # large LENGTH GAP with exact divisibility (any Euclid-style pre-reduction `long % short` must not lose the
    # common power of two): short operand even / odd, gaps of 2..24 digits, both argument orders
    for gap in (2, 3, 5, 8, 9, 10, 12, 17, 24) + ((40, 90) if thorough else ()):
        for ls in (1, 2, 3):
            for tz in (0, 1, 3, 10, 63, 64, 70):
                s_ = (odd(rng, ls) << tz)
                mult = big(rng, gap + rng.randrange(0, 2)) | 1
                shift = rng.choice([0, 1, 64 * gap, 64 * gap + 7])
                long_ = (s_ * mult) << shift if rng.randrange(2) else s_ << (64 * gap + rng.randrange(0, 9))
                out.append((long_, s_)); out.append((s_, long_))
                out.append((long_ + s_ // 2 if s_ > 1 else long_ + 1, s_))     # same shape, not divisible
    # digit-level operator paths of the gcd family: `%` with a divisor below / at / above 2^32 (`to_u32` fast
    # path of `&a % &b` vs `div_rem_ref`), single-digit divisors 1 and MAX, dividend shorter than divisor
    # (`&b - m`, `&a + d` with the longer operand on either side), carries out of `+= 1` / borrows of `-= 1`
    for d in [1, 2, (1 << 32) - 1, 1 << 32, (1 << 32) + 1, MAX, 1 << 64, (1 << 64) + 1]:
        for la in [1, 2, 3, 5]:
            a = big(rng, la)
            out.append((a, d)); out.append((d, a)); out.append((a * d, d)); out.append((a * d + d - 1, d))
            out.append((val([MAX] * la), d)); out.append((val([MAX] * la) + 1, d))
    # primitive-type boundaries (any native i64/i128/u64/u128 fast path must agree with the big path; the gcd of
    # -2^127 with 0 or itself is +2^127, which no i128 holds): all sign combinations come from gen()
    edges = []
    for k in (31, 32, 63, 64, 127, 128):
        edges += [(1 << k) - 1, 1 << k, (1 << k) + 1]
    for a in edges:
        for b in (0, 1, 2, 3, a, a - 1, a + 1, 1 << 63, 1 << 127, (1 << 127) - 1, 6, 1 << 20):
            out.append((a, b)); out.append((b, a))
    # common powers of two spanning digits with different trailing-zero counts
    tzs = [0, 1, 2, 63, 64, 65, 127, 128, 130, 200] + ([700, 1999] if thorough else [])
    for i in tzs:
        for j in tzs:
            oa, ob = odd(rng, rng.choice([1, 2, 3])), odd(rng, rng.choice([1, 2, 3]))
            out.append((oa << i, ob << j))
            if rng.randrange(3) == 0:
                g = odd(rng, 1)
                out.append(((oa * g) << i, (ob * g) << j))
            if rng.randrange(4) == 0:
                out.append((1 << i, ob << j)); out.append((oa << i, 1 << j)); out.append((1 << i, 1 << j))
    # pairs constructed from their Euclidean quotient sequence: runs of tiny quotients with huge (2^32 … multi-digit)
    # quotients in the middle, with and without a common factor (genlib.cf_pair)
    for nq, huge in [(12, None), (40, {7}), (80, {30}), (150, {75}), (300, {150}), (300, {3, 150, 290}), (420, {200, 201})] + ([(800, {400}), (1000, {10, 500, 990})] if thorough else []):
        a, b = cf_pair(rng, nq, huge)
        out.append((a, b)); out.append((b, a))
    # exact multiples g·c where g and g·c share their leading digit (c = 2^(64k), 2^(64k) + small): an exact division of
    # an operand by the gcd (lcm = a / g · b) sees equal leading digits (C13-y1: Hensel division one quotient digit short)
    for gl in (1, 2, 3, 5):
        g = odd(rng, gl) if gl > 1 else (1 << 64) + 3
        for c in ((1 << 64), (1 << 64) + 1, (1 << 128) + rng.randrange(1 << 20), (1 << 130) + 1, (1 << 192)):
            a = g * c
            b = g * (rng.randrange(1, B * B) | 1)
            out.append((a, b)); out.append((b, a)); out.append((a << 6, b << 3)); out.append((a, g)); out.append((g << 70, a << 1))
    # Fibonacci neighbours (longest Euclid chains), various sizes
    for n in [10, 90, 93, 94, 185, 186, 500] + ([3000] if thorough else [1200]):
        a, b = fib_pair(n)
        out.append((a, b)); out.append((b, a))
    return out

def gen(rng, tier):
    reqs = []
    k = 0
    for (a, b) in pairs(rng, tier):
        k += 1
        if a < 0 or b < 0:
            continue
        # two BigUint ops and three BigInt ops per pair, cycling through all ops; signs cycle too
        for d in range(2):
            reqs.append("C13 %s %s %s" % (BIN_U[(k + 3 * d) % len(BIN_U)], wu(a), wu(b)))
        for d in range(3):
            sa = -a if ((k + d) >> 1) & 1 else a
            sb = -b if (k + d) & 1 else b
            reqs.append("C13 %s %s %s" % (BIN_I[(k + 3 * d) % len(BIN_I)], wi(sa), wi(sb)))
    # every op on every sign combination for a fixed small set (complete sign tables)
    vals = [0, 1, 2, 3, 5, 6, 8, 12, 18, 35, 1 << 64, (1 << 64) + 2, 3 << 65]
    for a in vals:
        for b in vals:
            for op in BIN_U:
                reqs.append("C13 %s %s %s" % (op, wu(a), wu(b)))
            for sa in (a, -a):
                for sb in (b, -b):
                    for op in BIN_I:
                        reqs.append("C13 %s %s %s" % (op, wi(sa), wi(sb)))
    # unary helpers
    uns = [0, 1, 2, 3, MAX - 1, MAX, 1 << 64, (1 << 64) + 1, (1 << 128) - 1, 1 << 128, val([MAX] * 5), 1 << 320]
    uns += [big(rng, rng.choice([1, 2, 3, 9])) for _ in range(20)]
    uns += [big(rng, 3) << 64, (big(rng, 2) << 64) | 1]
    for a in uns:
        for op in UN_U:
            reqs.append("C13 %s %s" % (op, wu(a)))
        for op in UN_I:
            reqs.append("C13 %s %s" % (op, wi(a)))
            reqs.append("C13 %s %s" % (op, wi(-a)))
    # api-coverage block: `Integer::divides` (deprecated alias with its own body) on multiples, near-multiples,
    # zero operands (only zero is a multiple of zero), multi-digit divisors, every sign combination
    dv = []
    for la in (1, 2, 3, 5) + ((12, 40) if tier == "thorough" else ()):
        for lb in (1, 2, 3):
            a, b = big(rng, la), big(rng, lb)
            k = rng.randrange(1, 1 << 70)
            dv += [(a * b, b), (a * b, a), (a * b + 1, b), (a * b - 1, a), (b, a * b), (a, a), (a, 0), (0, a), (a * k, a),
                   (a * k + a - 1, a), ((b << 64) * a, b << 64), (a, b)]
    dv += [(0, 0), (1, 0), (0, 1), (1, 1), (MAX, 1), (B, 2), (B + 1, 2), (B * B, B), (B * B + 1, B)]
    for (a, b) in dv:
        reqs.append("C13 u.divides %s %s" % (wu(a), wu(b)))
        sa = -a if rng.randrange(2) else a
        sb_ = -b if rng.randrange(2) else b
        reqs.append("C13 i.divides %s %s" % (wi(sa), wi(sb_)))
    for a in (0, 6, B + 2):
        for b in (0, 3, 4, B + 2):
            for sa in (a, -a):
                for sb_ in (b, -b):
                    reqs.append("C13 i.divides %s %s" % (wi(sa), wi(sb_)))
    return reqs
