/-
  C04 — Equal integers are indistinguishable: Eq, Ord, Hash and exports follow the value.

  All statements are about the model NB.Model.Core (written from src/biguint.rs, src/bigint.rs,
  src/bigint/convert.rs and correspondence-checked against the real crate on every run).

  * a canonical representation is determined by the integer it denotes (`biguint_canon_unique`,
    `bigint_canon_unique`), hence EVERY function of the representation — `==`, `cmp`, the hash
    input, every export — is a function of the value (`biguint_export_congr`, `bigint_export_congr`);
  * `==` holds exactly for equal integers, `cmp` is numerical order, the hash input is equal
    exactly for equal integers, `NoSign` exactly for zero;
  * every constructor maps ARBITRARY input (redundant high zero words, any Sign request, also
    inconsistent with the magnitude) to the canonical representation of the denoted integer;
  * the history theorem: starting from canonical registers, after ANY finite sequence of the
    in-place operations in `uOps` / `iOps` every register is the canonical representation of the
    value computed by the spec machine over Nat / Int (`reachable_eq`, `reachable_canon`,
    `reachable_val`), so values reached along different histories that denote the same integer
    are identical (`history_biguint_indistinguishable`, `history_bigint_indistinguishable`).

  The operation list of the history theorem is `uOps` / `iOps` of NB.Model.Core: for both types
  `+=`, `-=`, `*=` (register operand and the u32/u64/u128 — BigInt: u128/i128 — scalar forms),
  `/=`, `%=` (a zero divisor is a documented failure: not executed), `<<=`, `>>=` (usize amounts),
  `&=`, `|=`, `^=`, `set_bit`, `set_zero`, `set_one`, `clone_from`, `assign_from_slice`, and negation
  for BigInt.  The soundness lemmas of `* / % << >> & | ^ set_bit` (NB.Lemmas.Core) rest on the
  operation theorems of NB.Props.C02 / C03 / C07; the spec machine's bit operations on `Int` are
  Mathlib's `Int.land/lor/xor/ldiff` (`intLand_eq` …).
  Adding an operation = one `…Op.Sound` lemma + one entry in the tuples of `uOps_sound` / `iOps_sound`.
  std's hasher is not modelled: `hashInput` is what `Hash::hash` feeds to it.
-/
import NB.Lemmas.Core
namespace NB
open Core

/-! ## uniqueness of the canonical representation -/

/-- two canonical digit vectors denoting the same natural number are the same vector -/
theorem biguint_canon_unique {a b : List Nat} (ha : Canon a) (hb : Canon b) (h : val a = val b) : a = b :=
  canon_unique ha hb h

/-- two canonical BigInts denoting the same integer are the same (sign, digits) pair -/
theorem bigint_repr_unique {x y : BigInt} (hx : x.Canon) (hy : y.Canon) (h : x.val = y.val) : x = y :=
  bigint_canon_unique hx hy h

/-- every observation (export, comparison, hash, text, bytes …) of a canonical BigUint is a
    function of its value -/
theorem biguint_export_congr {α : Sort _} (f : List Nat → α) {a b : List Nat} (ha : Canon a) (hb : Canon b)
    (h : val a = val b) : f a = f b := by rw [canon_unique ha hb h]

theorem bigint_export_congr {α : Sort _} (f : BigInt → α) {x y : BigInt} (hx : x.Canon) (hy : y.Canon)
    (h : x.val = y.val) : f x = f y := by rw [bigint_canon_unique hx hy h]

/-- `to_u64_digits` exports exactly the base-2^64 digits of the value -/
theorem to_u64_digits_spec {a : List Nat} (ha : Canon a) : BigUint.toU64Digits a = ofNat (val a) :=
  canon_eq_ofNat ha

/-! ## Eq -/

theorem biguint_eq_iff_val {a b : List Nat} (ha : Canon a) (hb : Canon b) :
    BigUint.eq a b = true ↔ val a = val b := by
  unfold BigUint.eq
  rw [beq_iff_eq]
  exact ⟨fun h => by rw [h], canon_unique ha hb⟩

theorem bigint_eq_iff_val {x y : BigInt} (hx : x.Canon) (hy : y.Canon) :
    BigInt.eq x y = true ↔ x.val = y.val := by
  constructor
  · intro h
    unfold BigInt.eq BigUint.eq at h
    simp only [Bool.and_eq_true, Bool.or_eq_true, beq_iff_eq] at h
    obtain ⟨hs, hm⟩ := h
    rcases hm with hm | hm
    · have h1 := (bigint_canon_sign hx).2.1.mp hm
      have h2 := (bigint_canon_sign hy).2.1.mp (hs ▸ hm)
      omega
    · rw [bigint_val_eq x, bigint_val_eq y, hs, hm]
  · intro h
    have := bigint_canon_unique hx hy h
    subst this
    simp [BigInt.eq, BigUint.eq]

/-! ## Ord -/

theorem biguint_cmp_spec {a b : List Nat} (ha : Canon a) (hb : Canon b) :
    BigUint.cmp a b = compare (val a) (val b) := cmpSlice_spec ha hb

theorem compare_int_eq (a b : Int) : compare a b = if a < b then .lt else if a = b then .eq else .gt := by
  simp only [compare, compareOfLessAndEq]

theorem compare_nat_eq (a b : Nat) : compare a b = if a < b then .lt else if a = b then .eq else .gt := by
  simp only [compare, compareOfLessAndEq]

theorem compare_cast (a b : Nat) : compare (a : Int) (b : Int) = compare a b := by
  rw [compare_int_eq, compare_nat_eq]; simp only [Int.ofNat_lt, Int.natCast_inj]

theorem compare_neg_cast (a b : Nat) : compare (-(a : Int)) (-(b : Int)) = compare b a := by
  rw [compare_int_eq, compare_nat_eq]
  have e1 : (-(a : Int) < -(b : Int)) ↔ b < a := by omega
  have e2 : (-(a : Int) = -(b : Int)) ↔ b = a := by omega
  simp only [e1, e2]

theorem compare_int_lt {a b : Int} (h : a < b) : compare a b = .lt := by
  rw [compare_int_eq, if_pos h]

theorem compare_int_gt {a b : Int} (h : b < a) : compare a b = .gt := by
  rw [compare_int_eq, if_neg (by omega), if_neg (by omega)]

/-- `BigInt::cmp` is the numerical order of the denoted integers (sign first, magnitudes
    reversed for negatives) -/
theorem bigint_cmp_spec {x y : BigInt} (hx : x.Canon) (hy : y.Canon) :
    BigInt.cmp x y = compare x.val y.val := by
  obtain ⟨hcx, hsx⟩ := hx
  obtain ⟨hcy, hsy⟩ := hy
  rcases x with ⟨sx, mx⟩
  rcases y with ⟨sy, my⟩
  simp only at hcx hsx hcy hsy
  have px : sx ≠ .nosign → 0 < val mx := fun h =>
    canon_val_pos hcx (fun e => h (hsx.mpr e))
  have py : sy ≠ .nosign → 0 < val my := fun h =>
    canon_val_pos hcy (fun e => h (hsy.mpr e))
  cases sx <;> cases sy <;>
    simp only [BigInt.cmp, Sign.cmp, Sign.disc, BigInt.val, BigUint.cmp, ne_eq, reduceCtorEq,
      not_false_eq_true, not_true_eq_false, if_true, if_false, Nat.lt_irrefl, Nat.reduceLT,
      gt_iff_lt] at *
  · rw [cmpSlice_spec hcy hcx, compare_neg_cast]
  · have := px trivial; exact (compare_int_lt (by omega)).symm
  · have := px trivial; have := py trivial; exact (compare_int_lt (by omega)).symm
  · have := py trivial; exact (compare_int_gt (by omega)).symm
  · simp
  · have := py trivial; exact (compare_int_lt (by omega)).symm
  · have := px trivial; have := py trivial; exact (compare_int_gt (by omega)).symm
  · have := px trivial; exact (compare_int_gt (by omega)).symm
  · rw [cmpSlice_spec hcx hcy, compare_cast]

/-- `<=` (default `PartialOrd::le` through `cmp`) is numerical `≤` -/
theorem bigint_le_spec {x y : BigInt} (hx : x.Canon) (hy : y.Canon) :
    ordIsLe (BigInt.cmp x y) = true ↔ x.val ≤ y.val := by
  rw [bigint_cmp_spec hx hy, compare_int_eq]
  by_cases h1 : x.val < y.val
  · simp [h1, ordIsLe]; omega
  · by_cases h2 : x.val = y.val
    · simp [h2, ordIsLe]
    · simp [h1, h2, ordIsLe]; omega

theorem biguint_le_spec {a b : List Nat} (ha : Canon a) (hb : Canon b) :
    ordIsLe (BigUint.cmp a b) = true ↔ val a ≤ val b := by
  rw [biguint_cmp_spec ha hb, compare_nat_eq]
  by_cases h1 : val a < val b
  · simp [h1, ordIsLe]; omega
  · by_cases h2 : val a = val b
    · simp [h2, ordIsLe]
    · simp [h1, h2, ordIsLe]; omega

/-! ## Hash -/

/-- equal integers feed identical data to the hasher -/
theorem biguint_hash_congr {a b : List Nat} (ha : Canon a) (hb : Canon b) (h : val a = val b) :
    BigUint.hashInput a = BigUint.hashInput b := biguint_export_congr _ ha hb h

/-- … and different integers feed different data (no collision before the hasher) -/
theorem biguint_hash_iff {a b : List Nat} (ha : Canon a) (hb : Canon b) :
    BigUint.hashInput a = BigUint.hashInput b ↔ val a = val b := by
  refine ⟨fun h => ?_, biguint_hash_congr ha hb⟩
  unfold BigUint.hashInput at h
  rw [(List.cons.inj h).2]

theorem bigint_hash_congr {x y : BigInt} (hx : x.Canon) (hy : y.Canon) (h : x.val = y.val) :
    BigInt.hashInput x = BigInt.hashInput y := bigint_export_congr _ hx hy h

theorem Sign.disc_inj {s t : Sign} (h : Sign.disc s = Sign.disc t) : s = t := by
  cases s <;> cases t <;> first | rfl | (simp [Sign.disc] at h)

theorem bigint_hash_iff {x y : BigInt} (hx : x.Canon) (hy : y.Canon) :
    BigInt.hashInput x = BigInt.hashInput y ↔ x.val = y.val := by
  refine ⟨fun h => ?_, bigint_hash_congr hx hy⟩
  unfold BigInt.hashInput at h
  obtain ⟨h1, h2⟩ := List.cons.inj h
  have hs := Sign.disc_inj h1
  by_cases hn : x.sign = .nosign
  · have h1 := (bigint_canon_sign hx).2.1.mp hn
    have h2 := (bigint_canon_sign hy).2.1.mp (hs ▸ hn)
    omega
  · have hn' : y.sign ≠ .nosign := hs ▸ hn
    simp only [ne_eq, hn, hn', not_false_eq_true, if_true, BigUint.hashInput] at h2
    rw [bigint_val_eq x, bigint_val_eq y, hs, (List.cons.inj h2).2]

/-! ## NoSign exactly for zero -/

theorem nosign_iff_zero {x : BigInt} (hx : x.Canon) : x.sign = .nosign ↔ x.val = 0 :=
  (bigint_canon_sign hx).2.1

theorem core_bigint_isZero_iff {x : BigInt} (hx : x.Canon) : Core.BigInt.isZero x = true ↔ x.val = 0 := by
  unfold Core.BigInt.isZero; rw [beq_iff_eq]; exact nosign_iff_zero hx

/-! ## constructors: arbitrary input → canonical representation of the denoted value -/

/-- `biguint_from_vec` (internal constructor): any proper digit vector, any number of high zeros -/
theorem biguint_from_vec_spec (ds : List Nat) (h : DigitsOk ds) : BigUint.fromVec ds = ofNat (val ds) :=
  normalize_eq_ofNat h

/-- `BigUint::new` with arbitrary u32 words (any number of trailing zero words, odd or even count) -/
theorem biguint_new_spec (ws : List Nat) (h : WordsOk ws) : BigUint.new ws = ofNat (val32 ws) :=
  assignFromSlice_eq _ ws h

theorem biguint_from_slice_spec (ws : List Nat) (h : WordsOk ws) : BigUint.fromSlice ws = ofNat (val32 ws) :=
  assignFromSlice_eq _ ws h

/-- `assign_from_slice` overwrites whatever the target held (no hypothesis on `old`) -/
theorem biguint_assign_from_slice_spec (old ws : List Nat) (h : WordsOk ws) :
    BigUint.assignFromSlice old ws = ofNat (val32 ws) := assignFromSlice_eq old ws h

/-- `BigInt::from_biguint` with ANY sign request: `NoSign` forces zero, a zero magnitude forces `NoSign` -/
theorem bigint_from_biguint_spec (s : Sign) (m : List Nat) (h : Canon m) :
    BigInt.fromBiguint s m = BigInt.ofInt (Sign.toInt s * (val m : Int)) := fromBiguint_eq s h

theorem bigint_new_spec (s : Sign) (ws : List Nat) (h : WordsOk ws) :
    BigInt.new s ws = BigInt.ofInt (Sign.toInt s * (val32 ws : Int)) := by
  unfold BigInt.new
  rw [biguint_new_spec ws h, fromBiguint_eq s (ofNat_canon _), ofNat_val]

theorem bigint_from_slice_spec (s : Sign) (ws : List Nat) (h : WordsOk ws) :
    BigInt.fromSlice s ws = BigInt.ofInt (Sign.toInt s * (val32 ws : Int)) := by
  unfold BigInt.fromSlice
  rw [biguint_from_slice_spec ws h, fromBiguint_eq s (ofNat_canon _), ofNat_val]

/-- `BigInt::assign_from_slice` with any sign request, whatever the target held -/
theorem bigint_assign_from_slice_spec (x : BigInt) (s : Sign) (ws : List Nat) (h : WordsOk ws) :
    BigInt.assignFromSlice x s ws = BigInt.ofInt (Sign.toInt s * (val32 ws : Int)) := by
  unfold BigInt.assignFromSlice
  by_cases hs : s = .nosign
  · subst hs; simp [BigInt.setZero, BigUint.setZero, Sign.toInt, ofInt_zero]
  · simp only [hs, if_false]
    rw [assignFromSlice_eq _ ws h]
    by_cases hz : val32 ws = 0
    · rw [hz, ofNat_zero]; simp [BigUint.isZero, ofInt_zero]
    · have hne : ¬ (BigUint.isZero (ofNat (val32 ws)) = true) := by
        rw [isZero_iff, ofNat_eq_nil_iff]; exact hz
      rw [if_neg hne]
      cases s with
      | nosign => exact absurd rfl hs
      | plus => simp only [Sign.toInt, Int.one_mul, ofInt_natCast, hz, if_false]
      | minus =>
        have : (-1 : Int) * (val32 ws : Int) = -((val32 ws : Nat) : Int) := by omega
        simp only [Sign.toInt, this, ofInt_negNatCast, hz, if_false]

/-- the results of all constructors are canonical -/
theorem ctor_canon (s : Sign) (ws old : List Nat) (x : BigInt) (h : WordsOk ws) :
    Canon (BigUint.new ws) ∧ Canon (BigUint.fromSlice ws) ∧ Canon (BigUint.assignFromSlice old ws) ∧
    (BigInt.new s ws).Canon ∧ (BigInt.fromSlice s ws).Canon ∧ (BigInt.assignFromSlice x s ws).Canon := by
  rw [biguint_new_spec ws h, biguint_from_slice_spec ws h, biguint_assign_from_slice_spec old ws h,
    bigint_new_spec s ws h, bigint_from_slice_spec s ws h, bigint_assign_from_slice_spec x s ws h]
  exact ⟨ofNat_canon _, ofNat_canon _, ofNat_canon _, bigint_ofInt_canon _, bigint_ofInt_canon _, bigint_ofInt_canon _⟩

/-! ## histories -/

theorem uAddOp_sound : uAddOp.Sound := by
  intro P _ a b imm ha hb _
  simp [uAddOp, addAssign_spec P a b ha hb, Except.toOption]

theorem uSubOp_sound : uSubOp.Sound := by
  intro P _ a b imm ha hb _
  simp only [uSubOp, subAssign_spec P a b ha hb]
  split <;> simp [Except.toOption]

theorem uZeroOp_sound : uZeroOp.Sound := by
  intro P _ a b imm _ _ _
  simp [uZeroOp, BigUint.setZero, Except.toOption, ofNat_zero]

theorem uOneOp_sound : uOneOp.Sound := by
  intro P _ a b imm _ _ _
  simp [uOneOp, BigUint.setOne, Except.toOption, ofNat_one]

theorem uCloneOp_sound : uCloneOp.Sound := by
  intro P _ a b imm _ hb _
  simp only [uCloneOp, BigUint.cloneFrom, Except.toOption, Option.map_some]
  rw [← canon_eq_ofNat hb]

theorem uAsgOp_sound : uAsgOp.Sound := by
  intro P _ a b imm _ _ hi
  have hw : WordsOk imm := by simpa [uAsgOp, wordsOkB] using hi
  simp only [uAsgOp, assignFromSlice_eq a imm hw, Except.toOption, Option.map_some]

/-- every operation of `uOps` is sound (one entry per operation) -/
theorem uOps_sound : ∀ o ∈ uOps, o.Sound := by
  unfold uOps
  simp only [List.forall_mem_cons, List.not_mem_nil, false_imp_iff, implies_true, and_true]
  exact ⟨uAddOp_sound, uSubOp_sound, uZeroOp_sound, uOneOp_sound, uCloneOp_sound, uAsgOp_sound,
    uMulOp_sound, uMul32Op_sound, uMul64Op_sound, uMul128Op_sound, uDivOp_sound, uRemOp_sound,
    uShlOp_sound, uShrOp_sound, uAndOp_sound, uOrOp_sound, uXorOp_sound, uSetBitOp_sound⟩

theorem iAddOp_sound : iAddOp.Sound := by
  intro P _ a b imm ha hb _
  simp [iAddOp, bigint_addAssign_spec P a b ha hb, Except.toOption]

theorem iSubOp_sound : iSubOp.Sound := by
  intro P _ a b imm ha hb _
  simp [iSubOp, bigint_subAssign_spec P a b ha hb, Except.toOption]

theorem iZeroOp_sound : iZeroOp.Sound := by
  intro P _ a b imm _ _ _
  simp [iZeroOp, BigInt.setZero, BigUint.setZero, Except.toOption, ofInt_zero]

theorem iOneOp_sound : iOneOp.Sound := by
  intro P _ a b imm _ _ _
  have : BigInt.ofInt 1 = ⟨.plus, [1]⟩ := by
    have := ofInt_natCast 1; simpa [ofNat_one] using this
  simp [iOneOp, BigInt.setOne, BigUint.setOne, Except.toOption, this]

theorem iCloneOp_sound : iCloneOp.Sound := by
  intro P _ a b imm _ hb _
  simp only [iCloneOp, BigInt.cloneFrom, BigUint.cloneFrom, Except.toOption, Option.map_some]
  rw [← bigint_canon_eq_ofInt hb]

theorem iAsgOp_sound : iAsgOp.Sound := by
  intro P _ a b imm _ _ hi
  cases imm with
  | nil => simp [iAsgOp, iAsgOk] at hi
  | cons c ws =>
    simp only [iAsgOp, iAsgOk, Bool.and_eq_true, wordsOkB, decide_eq_true_eq] at hi
    obtain ⟨hc, hw⟩ := hi
    obtain ⟨s, hs⟩ := Option.isSome_iff_exists.mp hc
    simp only [iAsgOp, iAsgStep, iAsgSpec, hs, Except.toOption, Option.map_some]
    rw [bigint_assign_from_slice_spec a s ws hw]

theorem iNegOp_sound : iNegOp.Sound := by
  intro P _ a b imm ha _ _
  simp only [iNegOp, Except.toOption, Option.map_some]
  rw [bigint_negVal_eq ha]

/-- every operation of `iOps` is sound (one entry per operation) -/
theorem iOps_sound : ∀ o ∈ iOps, o.Sound := by
  unfold iOps
  simp only [List.forall_mem_cons, List.not_mem_nil, false_imp_iff, implies_true, and_true]
  exact ⟨iAddOp_sound, iSubOp_sound, iZeroOp_sound, iOneOp_sound, iCloneOp_sound, iAsgOp_sound, iNegOp_sound,
    iMulOp_sound, iMul128Op_sound, iMulI128Op_sound, iDivOp_sound, iRemOp_sound,
    iShlOp_sound, iShrOp_sound, iAndOp_sound, iOrOp_sound, iXorOp_sound, iSetBitOp_sound⟩

/-- proof obligation over the generated parameters (re-elaborated on every run) -/
theorem gen_params_valid_ops : OpsValid NB.Gen.P := by decide

theorem toOption_eq_some {α} {e : Except Panic α} {v : α} (h : e.toOption = some v) : e = .ok v := by
  cases e with
  | ok x => simp [Except.toOption] at h; rw [h]
  | error p => simp [Except.toOption] at h

theorem toOption_eq_none {α} {e : Except Panic α} (h : e.toOption = none) : ∃ p, e = .error p := by
  cases e with
  | ok x => simp [Except.toOption] at h
  | error p => exact ⟨p, rfl⟩

/-- one machine step on canonical representations = one spec step on the values -/
theorem step_repr (P : Params) (hP : OpsValid P) (s : SRegs) (op : Op) :
    (s.repr).step P op = (s.step op).repr := by
  cases op with
  | u name dst src imm =>
    simp only [Regs.step, SRegs.step, SRegs.repr, List.getElem?_map]
    cases hf : findU name with
    | none => simp
    | some o =>
      have hmem : o ∈ uOps := List.mem_of_find?_eq_some hf
      have hsound := uOps_sound o hmem
      have hval := hP.1 o hmem
      cases hd : s.u[dst]? with
      | none => simp
      | some x =>
        cases hsrc : s.u[src]? with
        | none => simp
        | some y =>
          simp only [Option.map_some]
          by_cases hi : o.immOk imm = true
          · simp only [hi, if_true]
            have := hsound P hval (ofNat x) (ofNat y) imm (ofNat_canon _) (ofNat_canon _) hi
            rw [ofNat_val, ofNat_val] at this
            cases hspec : o.spec x y imm with
            | none =>
              rw [hspec] at this
              obtain ⟨p, hp⟩ := toOption_eq_none this
              simp [hp]
            | some v =>
              rw [hspec] at this
              rw [toOption_eq_some this]
              simp [List.map_set]
          · simp [hi]
  | i name dst src imm =>
    simp only [Regs.step, SRegs.step, SRegs.repr, List.getElem?_map]
    cases hf : findI name with
    | none => simp
    | some o =>
      have hmem : o ∈ iOps := List.mem_of_find?_eq_some hf
      have hsound := iOps_sound o hmem
      have hval := hP.2 o hmem
      cases hd : s.i[dst]? with
      | none => simp
      | some x =>
        cases hsrc : s.i[src]? with
        | none => simp
        | some y =>
          simp only [Option.map_some]
          by_cases hi : o.immOk imm = true
          · simp only [hi, if_true]
            have := hsound P hval (BigInt.ofInt x) (BigInt.ofInt y) imm (bigint_ofInt_canon _) (bigint_ofInt_canon _) hi
            rw [bigint_ofInt_val, bigint_ofInt_val] at this
            cases hspec : o.spec x y imm with
            | none =>
              rw [hspec] at this
              obtain ⟨p, hp⟩ := toOption_eq_none this
              simp [hp]
            | some v =>
              rw [hspec] at this
              rw [toOption_eq_some this]
              simp [List.map_set]
          · simp [hi]

theorem run_repr (P : Params) (hP : OpsValid P) (ops : List Op) (s : SRegs) :
    (s.repr).run P ops = (s.run ops).repr := by
  induction ops generalizing s with
  | nil => rfl
  | cons op ops ih =>
    simp only [Regs.run, SRegs.run, List.foldl_cons] at *
    rw [step_repr P hP s op]
    exact ih (s.step op)

theorem repr_vals {r : Regs} (h : r.Canon) : r.vals.repr = r := by
  obtain ⟨hu, hi⟩ := h
  rcases r with ⟨u, i⟩
  simp only [Regs.vals, SRegs.repr, List.map_map, Regs.mk.injEq]
  constructor
  · conv_rhs => rw [← List.map_id u]
    exact List.map_congr_left (fun a ha => (canon_eq_ofNat (hu a ha)).symm)
  · conv_rhs => rw [← List.map_id i]
    exact List.map_congr_left (fun x hx => (bigint_canon_eq_ofInt (hi x hx)).symm)

theorem vals_repr (s : SRegs) : s.repr.vals = s := by
  rcases s with ⟨u, i⟩
  simp only [Regs.vals, SRegs.repr, List.map_map, SRegs.mk.injEq]
  constructor
  · conv_rhs => rw [← List.map_id u]
    exact List.map_congr_left (fun a _ => ofNat_val a)
  · conv_rhs => rw [← List.map_id i]
    exact List.map_congr_left (fun x _ => bigint_ofInt_val x)

theorem repr_canon (s : SRegs) : s.repr.Canon := by
  constructor
  · intro a ha
    obtain ⟨n, _, rfl⟩ := List.mem_map.mp ha
    exact ofNat_canon n
  · intro x hx
    obtain ⟨n, _, rfl⟩ := List.mem_map.mp hx
    exact bigint_ofInt_canon n

/-- HISTORY THEOREM (strong form): after any finite history of in-place operations started from
    canonical registers, the machine state is exactly the canonical representation of the state
    of the spec machine over Nat / Int. -/
theorem reachable_eq (P : Params) (hP : OpsValid P) (ops : List Op) (r : Regs) (hr : r.Canon) :
    r.run P ops = (r.vals.run ops).repr := by
  conv_lhs => rw [← repr_vals hr]
  exact run_repr P hP ops r.vals

/-- every value reachable by any history of the listed public operations is canonical -/
theorem reachable_canon (P : Params) (hP : OpsValid P) (ops : List Op) (r : Regs) (hr : r.Canon) :
    (r.run P ops).Canon := by
  rw [reachable_eq P hP ops r hr]; exact repr_canon _

/-- the registers track the mathematical values of the spec machine -/
theorem reachable_val (P : Params) (hP : OpsValid P) (ops : List Op) (r : Regs) (hr : r.Canon) :
    (r.run P ops).vals = r.vals.run ops := by
  rw [reachable_eq P hP ops r hr]; exact vals_repr _

/-- the quantifier is not vacuous and the element-wise reading of `reachable_canon` -/
theorem reachable_canon_mem (P : Params) (hP : OpsValid P) (ops : List Op) (r : Regs) (hr : r.Canon) :
    (∀ a ∈ (r.run P ops).u, Canon a) ∧ (∀ x ∈ (r.run P ops).i, BigInt.Canon x) :=
  reachable_canon P hP ops r hr

/-- values reached along two different histories are indistinguishable exactly when they denote the
    same integer: identical representation (hence identical exports), `==`, `cmp`, hash input -/
theorem history_biguint_indistinguishable (P : Params) (hP : OpsValid P) (ops₁ ops₂ : List Op) (r₁ r₂ : Regs)
    (h₁ : r₁.Canon) (h₂ : r₂.Canon) (a b : List Nat)
    (ha : a ∈ (r₁.run P ops₁).u) (hb : b ∈ (r₂.run P ops₂).u) :
    (a = b ↔ val a = val b) ∧ (BigUint.eq a b = true ↔ val a = val b) ∧
    BigUint.cmp a b = compare (val a) (val b) ∧
    (BigUint.hashInput a = BigUint.hashInput b ↔ val a = val b) := by
  have ca := (reachable_canon P hP ops₁ r₁ h₁).1 a ha
  have cb := (reachable_canon P hP ops₂ r₂ h₂).1 b hb
  exact ⟨⟨fun h => by rw [h], canon_unique ca cb⟩, biguint_eq_iff_val ca cb, biguint_cmp_spec ca cb,
    biguint_hash_iff ca cb⟩

theorem history_bigint_indistinguishable (P : Params) (hP : OpsValid P) (ops₁ ops₂ : List Op) (r₁ r₂ : Regs)
    (h₁ : r₁.Canon) (h₂ : r₂.Canon) (x y : BigInt)
    (hx : x ∈ (r₁.run P ops₁).i) (hy : y ∈ (r₂.run P ops₂).i) :
    (x = y ↔ x.val = y.val) ∧ (BigInt.eq x y = true ↔ x.val = y.val) ∧
    BigInt.cmp x y = compare x.val y.val ∧
    (BigInt.hashInput x = BigInt.hashInput y ↔ x.val = y.val) ∧
    (x.sign = .nosign ↔ x.val = 0) := by
  have cx := (reachable_canon P hP ops₁ r₁ h₁).2 x hx
  have cy := (reachable_canon P hP ops₂ r₂ h₂).2 y hy
  exact ⟨⟨fun h => by rw [h], bigint_canon_unique cx cy⟩, bigint_eq_iff_val cx cy, bigint_cmp_spec cx cy,
    bigint_hash_iff cx cy, nosign_iff_zero cx⟩

/-! ## non-vacuity -/

-- redundant high zero words, odd word count
example : BigUint.new [0xffffffff, 1, 0, 0, 0] = [0x1ffffffff] := by decide
example : BigInt.new .nosign [1] = ⟨.nosign, []⟩ ∧ BigInt.new .minus [0, 0, 0] = ⟨.nosign, []⟩ := by decide
-- length first: a shorter vector of large digits is smaller than a longer one of small digits
example : BigUint.cmp [B - 1, B - 1] [0, 0, 1] = .lt ∧ BigInt.cmp ⟨.minus, [B - 1, B - 1]⟩ ⟨.minus, [0, 0, 1]⟩ = .gt := by
  decide
-- a history that grows a register by a carry and shrinks it back; a failed `-=` leaves the register alone
example : (Regs.run NB.Gen.P
      [.u "add" 0 1 [], .u "sub" 0 1 [], .u "sub" 2 0 [], .i "add" 0 1 [], .i "neg" 0 0 [], .i "asg" 1 1 [1, 7, 0, 0]]
      ⟨[[B - 1, B - 1], [1], [5]], [⟨.minus, [3]⟩, ⟨.plus, [3]⟩]⟩)
    = ⟨[[B - 1, B - 1], [1], [5]], [⟨.nosign, []⟩, ⟨.nosign, []⟩]⟩ := by decide
-- the further operations: `-(2^64)` with bit 0 set loses its top digit; zero times a two-digit scalar
-- is the empty vector; `>>=` / `%=` down to zero; `/=` shortening; a zero divisor leaves the register alone
example : (Regs.run NB.Gen.P
      [.i "setbit" 0 0 [0, 1], .u "mul128" 0 0 [0, 1], .u "shr" 1 1 [64], .u "div" 2 0 [], .u "rem" 2 2 [],
       .i "and" 1 0 [], .i "div" 1 1 []]
      ⟨[[], [7], [5]], [⟨.minus, [0, 1]⟩, ⟨.plus, [0, 0, 4]⟩]⟩)
    = ⟨[[], [], []], [⟨.minus, [B - 1]⟩, ⟨.plus, [1]⟩]⟩ := by decide
example : Regs.Canon ⟨[[B - 1, B - 1], [1], [5]], [⟨.minus, [3]⟩, ⟨.plus, [3]⟩]⟩ := by
  constructor <;> decide

/-! ## API-coverage additions: `PartialOrd`, and values produced by the `Arbitrary` generator impls -/

/-- `partial_cmp` is `Some` of the numerical order -/
theorem biguint_partial_cmp_spec {a b : List Nat} (ha : Canon a) (hb : Canon b) :
    BigUint.partialCmp a b = some (compare (val a) (val b)) := by
  unfold BigUint.partialCmp; rw [biguint_cmp_spec ha hb]

theorem bigint_partial_cmp_spec {x y : BigInt} (hx : x.Canon) (hy : y.Canon) :
    BigInt.partialCmp x y = some (compare x.val y.val) := by
  unfold BigInt.partialCmp; rw [bigint_cmp_spec hx hy]

/-- the provided `<` of `PartialOrd` is numerical `<` (both types) -/
theorem biguint_lt_spec {a b : List Nat} (ha : Canon a) (hb : Canon b) :
    pLt (BigUint.partialCmp a b) = true ↔ val a < val b := by
  rw [biguint_partial_cmp_spec ha hb, compare_nat_eq]
  by_cases h1 : val a < val b
  · simp [h1, pLt]
  · by_cases h2 : val a = val b
    · simp [h2, pLt]
    · simp [h1, h2, pLt]

theorem bigint_lt_spec {x y : BigInt} (hx : x.Canon) (hy : y.Canon) :
    pLt (BigInt.partialCmp x y) = true ↔ x.val < y.val := by
  rw [bigint_partial_cmp_spec hx hy, compare_int_eq]
  by_cases h1 : x.val < y.val
  · simp [h1, pLt]
  · by_cases h2 : x.val = y.val
    · simp [h2, pLt]
    · simp [h1, h2, pLt]

/-- bytes are `u8`s (the type invariant of `&[u8]`) -/
def BytesOk (bs : List Nat) : Prop := ∀ b ∈ bs, b < 256

theorem leBytes_lt (l : List Nat) (h : BytesOk l) : leBytes l < 256 ^ l.length := by
  induction l with
  | nil => simp [leBytes]
  | cons b bs ih =>
    have hb : b < 256 := h b (by simp)
    have hbs : BytesOk bs := fun x hx => h x (by simp [hx])
    have := ih hbs
    simp only [leBytes, List.length_cons, Nat.pow_succ]
    omega

theorem leBytes_take_lt_B (l : List Nat) (h : BytesOk l) : leBytes (l.take u64Bytes) < B := by
  have hk : BytesOk (l.take u64Bytes) := fun x hx => h x (List.mem_of_mem_take hx)
  have h1 := leBytes_lt _ hk
  have h2 : (l.take u64Bytes).length ≤ 8 := by simp [u64Bytes]
  have h3 : 256 ^ (l.take u64Bytes).length ≤ 256 ^ 8 := Nat.pow_le_pow_right (by decide) h2
  have h4 : (256 : Nat) ^ 8 = B := by decide
  omega

/-- every element decoded by the `arbitrary` crate's `Vec<u64>` impl is a proper digit -/
theorem arbVecU64_digitsOk (fuel : Nat) (bs : List Nat) (h : BytesOk bs) : DigitsOk (arbVecU64 fuel bs).1 := by
  induction fuel generalizing bs with
  | zero => simp [arbVecU64]; exact DigitsOk.nil
  | succ n ih =>
    cases bs with
    | nil => simp [arbVecU64]; exact DigitsOk.nil
    | cons b rest =>
      have hrest : BytesOk rest := fun x hx => h x (by simp [hx])
      simp only [arbVecU64]
      split
      · exact DigitsOk.cons (leBytes_take_lt_B rest hrest)
          (ih _ (fun x hx => hrest x (List.mem_of_mem_drop hx)))
      · exact DigitsOk.nil

/-- `arbitrary::Arbitrary for BigUint` (both `arbitrary` and `arbitrary_take_rest`): for EVERY byte buffer the
    result is the canonical representation of the integer denoted by the decoded digit vector — whatever number
    of high zero digits the buffer encodes -/
theorem arb_biguint_spec (bs : List Nat) (h : BytesOk bs) :
    BigUint.arbitrary bs = ofNat (val (arbVecU64 (bs.length + 1) bs).1) := by
  unfold BigUint.arbitrary
  exact biguint_from_vec_spec _ (arbVecU64_digitsOk _ _ h)

theorem arb_biguint_canon (bs : List Nat) (h : BytesOk bs) : Canon (BigUint.arbitrary bs) := by
  rw [arb_biguint_spec bs h]; exact ofNat_canon _

/-- `arbitrary::Arbitrary for BigInt`: canonical for every byte buffer (a zero magnitude gives `NoSign` whichever
    sign the leading bool byte requests) -/
theorem arb_bigint_canon (bs : List Nat) (h : BytesOk bs) : (BigInt.arbitrary bs).Canon := by
  unfold BigInt.arbitrary
  have hd : BytesOk (bs.drop 1) := fun x hx => h x (List.mem_of_mem_drop hx)
  rw [bigint_from_biguint_spec _ _ (arb_biguint_canon _ hd)]
  exact bigint_ofInt_canon _

example : BigUint.arbitrary [1, 5, 0, 0, 0, 0, 0, 0, 0, 3, 0, 0, 0, 0, 0, 0, 0, 0, 2, 9] = [5] := by decide
example : BigInt.arbitrary [0, 1, 0, 0, 0, 0, 0, 0, 0, 0] = ⟨.nosign, []⟩ ∧ BigInt.arbitrary [2, 1, 7] = ⟨.minus, [7]⟩ := by
  decide

end NB
