/-
  NB.Model.Mul — model of src/biguint/multiplication.rs and src/bigint/multiplication.rs.

  Function by function: `mac_with_carry`/`mac_digit` (`macZip`, `macDigit`), the schoolbook loop
  (`school`), `mac3` with zero stripping, operand ordering and the four regimes (`mac3Body`,
  `halfKara`, `karatsuba`, `toom3`), `sub_sign` (`subSign`), `mul3`, `scalar_mul`
  (`scalarMul`), `impl_mul!` (`mulRef`), `impl_mul_assign!` (`mulAssign`), `Sign * Sign`
  (`Sign.mul`, in NB.Base), BigInt `*` and `*=` (`bigintMul`, `bigintMulAssign`).
  Everything lives in `namespace NB.Mul`.

  All thresholds and split rules come from `P : Params` (regenerated from the source).
  Every assertion / slice-bound / debug-assertion site is an explicit `.error`:
    * `assert_eq!(final_carry, 0, "carry overflow during multiplication!")`   (macDigit)
    * `split_at_mut` / `&mut acc[k..]` out of range                            (lenGe guards)
    * `debug_assert!(carry == 0)` of `add2`                                    (NB.add2)
    * the mandatory underflow assertion of `sub2`                              (NB.sub2)
  `mac3` is recursive through itself and (Toom-3) through BigInt multiplication, so the model
  is open recursion (`mac3Body … rec …`) closed by a fuel argument (`mac3`); NB.Props.C02 proves
  `x.length + y.length + 1` fuel sufficient.

  Toom-3 intermediates are BigInts in the source; here they are `Int` values (a BigInt is always
  canonical, so value + sign determine it).  BigInt `+`/`-`/`<< 1`/`* 2` are the mathematical
  operations (justified by C01), `/ 3` is `Int.tdiv`, `>> 1` is `>>>` (floor).  The five
  point-wise products go through the model's own multiplication (`mulInt` → `mulMagWith` →
  `scalarMul` / `mul3With` → `rec`).
-/
import NB.Base
import NB.Model.AddSub
namespace NB.Mul

/-- `big_digit::BITS` -/
def BITS : Nat := 64

/-- structural `n ≤ l.length` (does not walk the whole list) -/
def lenGe : List Nat → Nat → Bool
  | _, 0 => true
  | [], _ + 1 => false
  | _ :: t, n + 1 => lenGe t n

/-- `f(&mut acc[off..])` including the slice bound check -/
def onSuffix (off : Nat) (acc : List Nat) (f : List Nat → Except Panic (List Nat)) :
    Except Panic (List Nat) :=
  if lenGe acc off then
    match f (acc.drop off) with
    | .ok t => .ok (acc.take off ++ t)
    | .error e => .error e
  else .error (.internal "slice index out of range")

/-- `add2(a, b)`: `split_at_mut(b.len())` bound check, then `__add2` and the debug assertion -/
def add2g (P : Params) (a b : List Nat) : Except Panic (List Nat) :=
  if lenGe a b.length then add2 P a b else .error (.internal "split_at_mut: mid > len")

/-- the zip loop of `mac_digit`: `*a = mac_with_carry(*a, b, c, &mut carry)`.
    `mac_with_carry`: `acc += a; acc += b * c; lo = acc as u64; acc >>= 64`. -/
def macZip (c : Nat) (carry : Nat) : List Nat → List Nat → List Nat × Nat
  | a :: as, b :: bs =>
    let t := carry + a + b * c
    let r := macZip c (t / B) as bs
    (t % B :: r.1, r.2)
  | _, _ => ([], carry)

/-- `mac_digit(acc, b, c)`: acc += b * c -/
def macDigit (P : Params) (acc b : List Nat) (c : Nat) : Except Panic (List Nat) :=
  if c = 0 then .ok acc
  else if lenGe acc b.length then
    let r := macZip c 0 (acc.take b.length) b
    let aHi := acc.drop b.length
    let carryHi := r.2 / B
    let carryLo := r.2 % B
    -- the source really passes `&[carry_hi, carry_lo]` (high half first); the branch is
    -- unreachable because the loop carry is always `< B` (`macDigit_carryHi_zero`)
    let cs := if carryHi = 0 then [carryLo] else [carryHi, carryLo]
    if lenGe aHi cs.length then
      let s := add2c P aHi cs
      if s.2 = 0 then .ok (r.1 ++ s.1)
      else .error (.internal "carry overflow during multiplication!")
    else .error (.internal "split_at_mut: mid > len")
  else .error (.internal "split_at_mut: mid > len")

/-- long multiplication: `for (i, xi) in x.iter().enumerate() { mac_digit(&mut acc[i..], y, *xi) }` -/
def school (P : Params) : List Nat → List Nat → List Nat → Except Panic (List Nat)
  | acc, _, [] => .ok acc
  | acc, y, xi :: xs =>
    match macDigit P acc y xi with
    | .error e => .error e
    | .ok acc1 =>
      match xs with
      | [] => .ok acc1
      | _ :: _ =>
        match acc1 with
        | [] => .error (.internal "slice index out of range")
        | a0 :: rest =>
          match school P rest y xs with
          | .ok r => .ok (a0 :: r)
          | .error e => .error e

/-- number of low (least significant) zero digits: `iter().position(|&d| d != 0)` -/
def lowZeros : List Nat → Nat
  | 0 :: t => lowZeros t + 1
  | _ => 0

/-- the slice normalisation at the head of `sub_sign` -/
def stripHigh (a : List Nat) : List Nat :=
  if a.getLast? = some 0 then normalize a else a

/-- `sub_sign(a, b)`: sign and magnitude of a - b -/
def subSign (P : Params) (a b : List Nat) : Except Panic (Sign × List Nat) :=
  let a := stripHigh a
  let b := stripHigh b
  match cmpSlice a b with
  | .gt => match sub2 P a b with
    | .ok r => .ok (.plus, normalize r)
    | .error e => .error e
  | .lt => match sub2 P b a with
    | .ok r => .ok (.minus, normalize r)
    | .error e => .error e
  | .eq => .ok (.nosign, [])

/-- `trailing_zeros` of a non-zero u64 -/
def trailingZeros (b : Nat) : Nat :=
  go BITS b
where
  go : Nat → Nat → Nat
    | 0, _ => 0
    | f + 1, b => if b % 2 = 1 then 0 else go f (b / 2) + 1

/-- `u64::is_power_of_two` -/
def isPow2 (b : Nat) : Bool := b != 0 && b == 2 ^ trailingZeros b

/-- the bit-shift loop of `biguint_shl2` for `digits = 0`, `0 < shift < 64`, with the final push -/
def shlLoop (k : Nat) (carry : Nat) : List Nat → List Nat
  | [] => if carry ≠ 0 then [carry] else []
  | e :: es => (((e <<< k) % B) ||| carry) :: shlLoop k (e >>> (BITS - k)) es

/-- `*a <<= k` for `0 < k < 64` (`biguint_shl`: zero stays, else shift loop and normalise) -/
def shlBits (a : List Nat) (k : Nat) : List Nat :=
  if a = [] then [] else normalize (if k > 0 then shlLoop k 0 a else a)

/-- the `mul_with_carry` loop of `scalar_mul` with the final `push(carry as BigDigit)` -/
def mulCarryLoop (b : Nat) (carry : Nat) : List Nat → List Nat
  | [] => if carry ≠ 0 then [carry % B] else []
  | a :: as =>
    let t := carry + a * b
    (t % B) :: mulCarryLoop b (t / B) as

/-- `scalar_mul(a, b)` -/
def scalarMul (a : List Nat) (b : Nat) : List Nat :=
  if b = 0 then []
  else if b = 1 then a
  else if isPow2 b then shlBits a (trailingZeros b)
  else mulCarryLoop b 0 a

/-- `mul3(x, y)` over a given `mac3` -/
def mul3With (P : Params) (mac : List Nat → List Nat → List Nat → Except Panic (List Nat))
    (x y : List Nat) : Except Panic (List Nat) :=
  match mac (List.replicate (x.length + y.length + P.mulSlack) 0) x y with
  | .ok r => .ok (normalize r)
  | .error e => .error e

/-- the shape match of `impl_mul!` (`&a * &b`) over a given `mac3` -/
def mulMagWith (P : Params) (mac : List Nat → List Nat → List Nat → Except Panic (List Nat))
    (a b : List Nat) : Except Panic (List Nat) :=
  match a, b with
  | [], _ => .ok []
  | _, [] => .ok []
  | _, [d] => .ok (scalarMul a d)
  | [d], _ => .ok (scalarMul b d)
  | x, y => mul3With P mac x y

/-- `&BigInt * &BigInt` on values: `from_biguint(sign * sign, |a| * |b|)` -/
def mulInt (P : Params) (mac : List Nat → List Nat → List Nat → Except Panic (List Nat))
    (a b : Int) : Except Panic Int :=
  match mulMagWith P mac (ofNat a.natAbs) (ofNat b.natAbs) with
  | .ok m => .ok (a.sign * b.sign * (val m : Int))
  | .error e => .error e

/-- Half-Karatsuba: `mac3(acc, x, low2); mac3(&mut acc[m2..], x, high2)` -/
def halfKara (P : Params) (rec : List Nat → List Nat → List Nat → Except Panic (List Nat))
    (acc x y : List Nat) : Except Panic (List Nat) :=
  let m2 := y.length / P.halfDen
  match rec acc x (y.take m2) with
  | .error e => .error e
  | .ok acc1 => onSuffix m2 acc1 (fun s => rec s x (y.drop m2))

/-- the `match j0_sign * j1_sign` at the end of the Karatsuba branch -/
def karaMiddle (P : Params) (rec : List Nat → List Nat → List Nat → Except Panic (List Nat))
    (b len : Nat) (acc : List Nat) (s : Sign) (j0 j1 : List Nat) : Except Panic (List Nat) :=
  match s with
  | .plus =>
    match rec (List.replicate len 0) j0 j1 with
    | .ok p => onSuffix b acc (fun t => sub2 P t (normalize p))
    | .error e => .error e
  | .minus => onSuffix b acc (fun t => rec t j0 j1)
  | .nosign => .ok acc

/-- Karatsuba branch of `mac3` -/
def karatsuba (P : Params) (rec : List Nat → List Nat → List Nat → Except Panic (List Nat))
    (acc x y : List Nat) : Except Panic (List Nat) := do
  let b := x.length / P.karaDen
  let x0 := x.take b
  let x1 := x.drop b
  let y0 := y.take b
  let y1 := y.drop b
  let len := x1.length + y1.length + P.karaSlack
  -- p2 = x1 * y1
  let p2 ← rec (List.replicate len 0) x1 y1
  let p2 := normalize p2
  let acc ← onSuffix b acc (fun t => add2g P t p2)
  let acc ← onSuffix (b * 2) acc (fun t => add2g P t p2)
  -- p0 = x0 * y0
  let p0 ← rec (List.replicate len 0) x0 y0
  let p0 := normalize p0
  let acc ← add2g P acc p0
  let acc ← onSuffix b acc (fun t => add2g P t p0)
  -- p1 = (x1 - x0) * (y1 - y0)
  let j0 ← subSign P x1 x0
  let j1 ← subSign P y1 y0
  karaMiddle P rec b len acc (j0.1.mul j1.1) j0.2 j1.2

/-- one side of the Toom-3 evaluation: from the three parts `(d0, d1, d2)` of an operand the
    five values multiplied at the points `0, ∞, 1, -1, -2`:
    `d0`, `d2`, `p + d1`, `p2 = p - d1`, `(p2 + d2) * 2 - d0` with `p = d0 + d2`. -/
def toomPts (d0 d1 d2 : Int) : Int × Int × Int × Int × Int :=
  let p := d0 + d2
  let p2 := p - d1
  (d0, d2, p + d1, p2, (p2 + d2) * 2 - d0)

/-- the three parts of the operands: `x0_len = min(x.len, i)`, `x1_len = min(x.len - x0_len, i)` -/
def toomSplit (l0 l1 : Nat) (x : List Nat) : Int × Int × Int :=
  ((val (x.take l0) : Int), (val ((x.drop l0).take l1) : Int), (val (x.drop (l0 + l1)) : Int))

/-- one step of the recomposition loop: `match result.sign() { Plus => add2(&mut acc[i*j..], digits),
    Minus => sub2(…), NoSign => {} }` -/
def toomAdd1 (P : Params) (off : Nat) (w : Int) (acc : List Nat) : Except Panic (List Nat) :=
  if w > 0 then onSuffix off acc (fun t => add2g P t (ofNat w.natAbs))
  else if w < 0 then onSuffix off acc (fun t => sub2 P t (ofNat w.natAbs))
  else .ok acc

/-- Toom-3 branch of `mac3` -/
def toom3 (P : Params) (rec : List Nat → List Nat → List Nat → Except Panic (List Nat))
    (acc x y : List Nat) : Except Panic (List Nat) :=
  let i := y.length / P.toomDen + P.toomAdd
  -- `y.len() - y0_len` and `&y[..y0_len]` need `i ≤ y.len()`
  if lenGe y i then do
    let x0len := min x.length i
    let x1len := min (x.length - x0len) i
    let y0len := i
    let y1len := min (y.length - y0len) i
    let xs := toomSplit x0len x1len x
    let ys := toomSplit y0len y1len y
    let px := toomPts xs.1 xs.2.1 xs.2.2
    let py := toomPts ys.1 ys.2.1 ys.2.2
    let r0 ← mulInt P rec px.1 py.1
    let r4 ← mulInt P rec px.2.1 py.2.1
    let r1 ← mulInt P rec px.2.2.1 py.2.2.1
    let r2 ← mulInt P rec px.2.2.2.1 py.2.2.2.1
    let r3 ← mulInt P rec px.2.2.2.2 py.2.2.2.2
    -- Bodrato interpolation
    let comp3 := (r3 - r1).tdiv 3
    let comp1 := (r1 - r2) >>> 1
    let comp2 := r2 - r0
    let comp3 := ((comp2 - comp3) >>> 1) + r4 * 2
    let comp2 := comp2 + (comp1 - r4)
    let comp1 := comp1 - comp3
    -- recomposition from j = 4 down
    let acc ← toomAdd1 P (i * 4) r4 acc
    let acc ← toomAdd1 P (i * 3) comp3 acc
    let acc ← toomAdd1 P (i * 2) comp2 acc
    let acc ← toomAdd1 P (i * 1) comp1 acc
    toomAdd1 P (i * 0) r0 acc
  else .error (.internal "slice index out of range")

/-- the regime dispatch of `mac3` after zero stripping -/
def mac3Core (P : Params) (rec : List Nat → List Nat → List Nat → Except Panic (List Nat))
    (acc b c : List Nat) : Except Panic (List Nat) :=
  let x := if b.length < c.length then b else c
  let y := if b.length < c.length then c else b
  if x.length ≤ P.tSchool then school P acc y x
  else if x.length * P.halfMul ≤ y.length then halfKara P rec acc x y
  else if x.length ≤ P.tKara then karatsuba P rec acc x y
  else toom3 P rec acc x y

/-- `mac3(acc, b, c)`: strip low zero digits of `b` then `c` (returning at once when an operand
    is non-empty and all zero), then dispatch -/
def mac3Body (P : Params) (rec : List Nat → List Nat → List Nat → Except Panic (List Nat))
    (acc b c : List Nat) : Except Panic (List Nat) :=
  let nb := lowZeros b
  if nb ≠ 0 ∧ nb = b.length then .ok acc
  else onSuffix nb acc (fun acc1 =>
    let nc := lowZeros c
    if nc ≠ 0 ∧ nc = c.length then .ok acc1
    else onSuffix nc acc1 (fun acc2 => mac3Core P rec acc2 (b.drop nb) (c.drop nc)))

/-- `mac3` with a recursion budget -/
def mac3 (P : Params) : Nat → List Nat → List Nat → List Nat → Except Panic (List Nat)
  | 0, _, _, _ => .error (.internal "model fuel exhausted")
  | fuel + 1, acc, b, c => mac3Body P (mac3 P fuel) acc b c

/-- recursion budget that NB.Props.C02 proves sufficient -/
def mulFuel (a b : List Nat) : Nat := a.length + b.length + 1

/-- `mul3(x, y)` -/
def mul3 (P : Params) (x y : List Nat) : Except Panic (List Nat) :=
  mul3With P (mac3 P (mulFuel x y)) x y

/-- `&a * &b` for BigUint -/
def mulRef (P : Params) (a b : List Nat) : Except Panic (List Nat) :=
  mulMagWith P (mac3 P (mulFuel a b)) a b

/-- `a *= &b` for BigUint (`impl_mul_assign!`) -/
def mulAssign (P : Params) (a b : List Nat) : Except Panic (List Nat) :=
  match a, b with
  | [], _ => .ok []
  | _, [] => .ok []
  | _, [d] => .ok (scalarMul a d)
  | [d], _ => .ok (scalarMul b d)
  | x, y => mul3 P x y

/-- `&a * &b` for BigInt -/
def bigintMul (P : Params) (a b : BigInt) : Except Panic BigInt :=
  match mulRef P a.mag b.mag with
  | .ok m => .ok (BigInt.fromBiguint (a.sign.mul b.sign) m)
  | .error e => .error e

/-- `a *= &b` for BigInt -/
def bigintMulAssign (P : Params) (a b : BigInt) : Except Panic BigInt :=
  match mulAssign P a.mag b.mag with
  | .ok m => .ok (if m = [] then ⟨.nosign, m⟩ else ⟨a.sign.mul b.sign, m⟩)
  | .error e => .error e

end NB.Mul
