/- helper lemmas for C10: casts, `VInt` normal forms, digit counts, trailing zeros, the pow loops -/
import NB.Model.Scalar
import NB.Lemmas.Base
import NB.Lemmas.Canon
import Mathlib.Tactic.Ring
import Mathlib.Tactic.Linarith
namespace NB

/-! ## casts -/

theorem castTo_id (t : STy) (v : Int) (h : t.InRange v) : castTo t v = v := by
  cases t <;> simp [STy.InRange, STy.lo, STy.hi, STy.signed, STy.half, STy.modulus] at h <;>
    simp [castTo, STy.signed, STy.half, STy.modulus] <;> omega

theorem inRange_promo (t : STy) (v : Int) (h : t.InRange v) : t.promo.InRange v := by
  cases t <;> simp [STy.InRange, STy.lo, STy.hi, STy.signed, STy.half, STy.modulus, STy.promo] at h ⊢ <;> omega

theorem promo_signed (t : STy) : t.promo.signed = t.signed := by cases t <;> rfl

theorem promo_idem (t : STy) : t.promo.promo = t.promo := by cases t <;> rfl

theorem inRange_unsigned_nonneg (t : STy) (v : Int) (ht : t.signed = false) (h : t.InRange v) : 0 ≤ v := by
  cases t <;> simp [STy.InRange, STy.lo, STy.hi, STy.signed] at h ht ⊢ <;> omega

/-! ## VInt normal forms -/

namespace VInt

theorem ofInt_val (i : Int) : (ofInt i).val = i := by
  unfold ofInt
  by_cases h1 : i < 0
  · simp only [h1, if_true, val]; omega
  · by_cases h2 : i = 0
    · subst h2; simp [val]
    · simp only [h1, h2, if_false, val]; omega

theorem ofInt_canon (i : Int) : (ofInt i).Canon := by
  unfold ofInt Canon
  by_cases h1 : i < 0
  · simp only [h1, if_true]; simp; omega
  · by_cases h2 : i = 0
    · subst h2; simp
    · simp only [h1, h2, if_false]; simp; omega

theorem eq_ofInt_of {x : VInt} {i : Int} (hc : x.Canon) (hv : x.val = i) : x = ofInt i := by
  obtain ⟨s, m⟩ := x
  subst hv
  unfold Canon at hc
  cases s
  · have hm : m ≠ 0 := by simpa using hc
    have h1 : -(m : Int) < 0 := by omega
    simp only [val, ofInt, h1, if_true]
    congr 1; omega
  · have hm : m = 0 := by simpa using hc
    subst hm
    simp [val, ofInt]
  · have hm : m ≠ 0 := by simpa using hc
    have h1 : ¬ ((m : Int) < 0) := by omega
    have h2 : ¬ ((m : Int) = 0) := by omega
    simp only [val, ofInt, h1, h2, if_false]
    congr 1

theorem canon_eq_ofInt {x : VInt} (hc : x.Canon) : x = ofInt x.val := eq_ofInt_of hc rfl

theorem zero_eq : zero = ofInt 0 := by simp [zero, ofInt]

theorem fromNat_eq (n : Nat) : fromNat n = ofInt (n : Int) := by
  unfold fromNat ofInt zero
  by_cases h : n = 0
  · simp [h]
  · have : ¬ ((n : Int) < 0) := by omega
    have h2 : ¬ ((n : Int) = 0) := by omega
    simp [h, this, h2]

theorem neg_ofInt (i : Int) : (ofInt i).neg = ofInt (-i) := by
  apply eq_ofInt_of
  · have := ofInt_canon i
    unfold Canon at this ⊢
    unfold neg
    simp only
    rw [← this]
    cases (ofInt i).sign <;> simp [Sign.neg]
  · have := ofInt_val i
    unfold val at this ⊢
    unfold neg
    simp only
    revert this
    cases (ofInt i).sign <;> simp [Sign.neg] <;> omega

theorem fromBiguint_plus (m : Nat) : fromBiguint .plus m = ofInt (m : Int) := by
  unfold fromBiguint
  rw [← fromNat_eq]; unfold fromNat
  simp

theorem fromBiguint_minus (m : Nat) : fromBiguint .minus m = ofInt (-(m : Int)) := by
  unfold fromBiguint ofInt zero
  by_cases h : m = 0
  · simp [h]
  · have : -(m : Int) < 0 := by omega
    simp [h, this]

theorem fromBiguint_nosign (m : Nat) : fromBiguint .nosign m = ofInt 0 := by
  simp [fromBiguint, zero, ofInt]

/-- `from_biguint(sign, m)` denotes `sign * m` -/
theorem fromBiguint_eq (a : VInt) (ha : a.Canon) (m : Nat) (c : Int)
    (h : a.val * c = match a.sign with | .minus => -(m : Int) | .nosign => 0 | .plus => (m : Int)) :
    fromBiguint a.sign m = ofInt (a.val * c) := by
  obtain ⟨s, k⟩ := a
  cases s <;> simp only [] at h ⊢
  · rw [fromBiguint_minus, h]
  · rw [fromBiguint_nosign, h]
  · rw [fromBiguint_plus, h]

/-- the three shapes of a canonical value -/
theorem canon_cases {P : VInt → Prop} (a : VInt) (ha : a.Canon)
    (h0 : P ⟨.nosign, 0⟩) (hp : ∀ m, 0 < m → P ⟨.plus, m⟩) (hm : ∀ m, 0 < m → P ⟨.minus, m⟩) : P a := by
  obtain ⟨s, m⟩ := a
  unfold Canon at ha
  cases s
  · exact hm m (by simp at ha; omega)
  · simp at ha; subst ha; exact h0
  · exact hp m (by simp at ha; omega)

end VInt

/-! ## digit count -/

theorem nd_zero_iff (a : Nat) : nd a = 0 ↔ a = 0 := by
  unfold nd
  constructor
  · intro h
    have := ofNat_val a
    rw [List.length_eq_zero_iff] at h
    rw [h] at this; simpa [val] using this.symm
  · intro h; subst h; unfold ofNat; simp

theorem nd_bounds (a : Nat) (h : a ≠ 0) : B ^ (nd a - 1) ≤ a ∧ a < B ^ nd a := by
  unfold nd
  have hv := ofNat_val a
  have hc := ofNat_canon a
  have hne : ofNat a ≠ [] := by
    intro e; rw [e] at hv; simp [val] at hv; omega
  constructor
  · have := canon_val_ge hc hne; rwa [hv] at this
  · have := val_lt hc.1; rwa [hv] at this

theorem nd_one (a : Nat) (h : nd a = 1) : 0 < a ∧ a < B := by
  have h0 : a ≠ 0 := by intro e; rw [(nd_zero_iff a).2 e] at h; omega
  have := nd_bounds a h0
  rw [h] at this; simp at this; omega

theorem nd_two (a : Nat) (h : nd a = 2) : B ≤ a ∧ a < B * B := by
  have h0 : a ≠ 0 := by intro e; rw [(nd_zero_iff a).2 e] at h; omega
  have := nd_bounds a h0
  rw [h] at this; simp at this
  constructor
  · exact this.1
  · have e : B ^ 2 = B * B := by ring
    omega

theorem nd_ge_two (a : Nat) (h : 2 ≤ nd a) : B ≤ a := by
  have h0 : a ≠ 0 := by intro e; rw [(nd_zero_iff a).2 e] at h; omega
  have := (nd_bounds a h0).1
  calc B = B ^ 1 := by ring
    _ ≤ B ^ (nd a - 1) := Nat.pow_le_pow_right B_pos (by omega)
    _ ≤ a := this

theorem nd_ge_three (a : Nat) (h : 3 ≤ nd a) : B * B ≤ a := by
  have h0 : a ≠ 0 := by intro e; rw [(nd_zero_iff a).2 e] at h; omega
  have := (nd_bounds a h0).1
  calc B * B = B ^ 2 := by ring
    _ ≤ B ^ (nd a - 1) := Nat.pow_le_pow_right B_pos (by omega)
    _ ≤ a := this

/-! ## trailing zeros -/

theorem tz_spec : ∀ (m : Nat), 0 < m → ∀ k, (tz m < k ↔ ¬ (2 ^ k ∣ m)) := by
  intro m
  induction m using Nat.strong_induction_on with
  | _ m ih =>
    intro hm k
    rw [tz]
    have hm0 : ¬ m = 0 := by omega
    simp only [hm0, dite_false]
    by_cases hodd : m % 2 = 1
    · simp only [hodd, if_true]
      cases k with
      | zero => simp
      | succ k =>
        simp only [Nat.zero_lt_succ, true_iff]
        intro hd
        have : 2 ∣ m := Dvd.dvd.trans (Dvd.intro (2 ^ k) (by ring)) hd
        omega
    · simp only [hodd, if_false]
      have h2 : m % 2 = 0 := by omega
      have hm2 : 0 < m / 2 := by omega
      cases k with
      | zero => simp
      | succ k =>
        have := ih (m / 2) (by omega) hm2 k
        rw [Nat.succ_lt_succ_iff, this]
        have hm' : m = 2 * (m / 2) := by omega
        constructor
        · intro h hd
          apply h
          rw [hm'] at hd
          rw [pow_succ, Nat.mul_comm] at hd
          exact Nat.dvd_of_mul_dvd_mul_left (by decide) hd
        · intro h hd
          apply h
          rw [hm', pow_succ, Nat.mul_comm]
          exact Nat.mul_dvd_mul_left 2 hd

/-! ## powers -/

theorem powStrip_spec : ∀ (e b : Nat), e ≠ 0 →
    (powStrip b e).1 ^ (powStrip b e).2 = b ^ e ∧ (powStrip b e).2 % 2 = 1 := by
  intro e
  induction e using Nat.strong_induction_on with
  | _ e ih =>
    intro b he
    rw [powStrip]
    by_cases h : e % 2 = 0
    · have hc : e ≠ 0 ∧ e % 2 = 0 := ⟨he, h⟩
      simp only [hc, ne_eq, not_false_eq_true, and_self, dite_true]
      have := ih (e / 2) (by omega) (b * b) (by omega)
      refine ⟨?_, this.2⟩
      rw [this.1]
      have he2 : e = 2 * (e / 2) := by omega
      conv_rhs => rw [he2]
      rw [pow_mul]; ring_nf
    · have hc : ¬ (e ≠ 0 ∧ e % 2 = 0) := by intro hh; exact h hh.2
      simp only [hc, dite_false]
      exact ⟨trivial, by omega⟩

theorem powAcc_spec : ∀ (e b acc : Nat), powAcc b e acc = acc * b ^ (2 * (e / 2)) := by
  intro e
  induction e using Nat.strong_induction_on with
  | _ e ih =>
    intro b acc
    rw [powAcc]
    by_cases h : e > 1
    · simp only [h, dite_true]
      rw [ih (e / 2) (by omega)]
      by_cases hodd : e / 2 % 2 = 1
      · simp only [hodd, if_true]
        have : e / 2 = 2 * (e / 2 / 2) + 1 := by omega
        conv_rhs => rw [this]
        rw [pow_mul, pow_succ, pow_mul]; ring
      · simp only [hodd, if_false]
        have : e / 2 = 2 * (e / 2 / 2) := by omega
        conv_rhs => rw [this]
        rw [pow_mul, pow_mul]; ring_nf
    · simp only [h, dite_false]
      have : e / 2 = 0 := by omega
      rw [this]; simp

theorem powPrim_spec (x e : Nat) : powPrim x e = x ^ e := by
  unfold powPrim
  by_cases he : e = 0
  · simp [he]
  · simp only [he, if_false]
    obtain ⟨h1, h2⟩ := powStrip_spec e x he
    generalize powStrip x e = r at *
    by_cases hr : r.2 = 1
    · simp only [hr, if_true]; rw [← h1, hr]; simp
    · simp only [hr, if_false]
      rw [powAcc_spec, ← h1]
      have : r.2 = 2 * (r.2 / 2) + 1 := by omega
      conv_rhs => rw [this]
      rw [pow_succ]; ring

/-! ## signs as integers, truncated division by cases on the sign -/

def Sign.toInt : Sign → Int
  | .minus => -1 | .nosign => 0 | .plus => 1

namespace VInt

theorem val_eq_toInt (a : VInt) : a.val = a.sign.toInt * a.mag := by
  obtain ⟨s, m⟩ := a
  cases s <;> simp [val, Sign.toInt]

theorem fromBiguint_toInt (s : Sign) (n : Nat) : fromBiguint s n = ofInt (s.toInt * n) := by
  cases s
  · rw [fromBiguint_minus]; simp [Sign.toInt]
  · rw [fromBiguint_nosign]; simp [Sign.toInt]
  · rw [fromBiguint_plus]; simp [Sign.toInt]

theorem neg_toInt (s : Sign) : s.neg.toInt = - s.toInt := by cases s <;> simp [Sign.neg, Sign.toInt]

theorem neg_val (a : VInt) : a.neg.val = - a.val := by
  rw [val_eq_toInt, val_eq_toInt]; simp [neg, neg_toInt]

theorem neg_canon {a : VInt} (h : a.Canon) : a.neg.Canon := by
  unfold Canon neg at *
  simp only
  rw [← h]
  cases a.sign <;> simp [Sign.neg]

/-- a record whose sign is NoSign exactly for magnitude 0 is what `from_biguint` builds -/
theorem mk_eq_fromBiguint (sg : Sign) (n : Nat) (h : sg = .nosign ↔ n = 0) :
    (⟨sg, n⟩ : VInt) = fromBiguint sg n := by
  unfold fromBiguint zero
  by_cases h1 : sg = .nosign
  · have := h.1 h1; subst this; subst h1; simp
  · have : n ≠ 0 := fun e => h1 (h.2 e)
    simp [h1, this]

/-- the `if self.data.is_zero() { self.sign = NoSign }` idiom of the assign impls -/
theorem assign_eq_fromBiguint (sg : Sign) (n : Nat) (h : sg = .nosign → n = 0) :
    (if n = 0 then (⟨.nosign, n⟩ : VInt) else ⟨sg, n⟩) = fromBiguint sg n := by
  unfold fromBiguint zero
  by_cases h0 : n = 0
  · subst h0; simp
  · have : sg ≠ .nosign := fun e => h0 (h e)
    simp [h0, this]

end VInt

theorem tdiv_sign (s : Sign) (m u : Nat) : Int.tdiv (s.toInt * m) u = s.toInt * ↑(m / u) := by
  cases s <;> simp only [Sign.toInt]
  · rw [neg_one_mul, neg_one_mul, Int.neg_tdiv, Int.ofNat_tdiv]
  · simp
  · rw [one_mul, one_mul, Int.ofNat_tdiv]

theorem tmod_sign (s : Sign) (m u : Nat) : Int.tmod (s.toInt * m) u = s.toInt * ↑(m % u) := by
  cases s <;> simp only [Sign.toInt]
  · rw [neg_one_mul, neg_one_mul, Int.neg_tmod, Int.ofNat_tmod]
  · simp
  · rw [one_mul, one_mul, Int.ofNat_tmod]

theorem tdiv_sign_right (s : Sign) (u m : Nat) : Int.tdiv u (s.toInt * m) = s.toInt * ↑(u / m) := by
  cases s <;> simp only [Sign.toInt]
  · rw [neg_one_mul, neg_one_mul, Int.tdiv_neg, Int.ofNat_tdiv]
  · simp
  · rw [one_mul, one_mul, Int.ofNat_tdiv]

theorem tmod_sign_right (s : Sign) (u m : Nat) (h : s ≠ .nosign) : Int.tmod u (s.toInt * m) = ↑(u % m) := by
  cases s <;> simp only [Sign.toInt]
  · rw [neg_one_mul, Int.tmod_neg, Int.ofNat_tmod]
  · exact absurd rfl h
  · rw [one_mul, Int.ofNat_tmod]

end NB
