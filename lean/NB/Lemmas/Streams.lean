/- the digit streams of the signed bit routines: negate_carry, the zip loop and the tail loops at value level -/
import NB.Lemmas.IntBits
namespace NB.C07

theorem negCarry_spec {a c : Nat} (ha : a < B) (hc : c ≤ 1) :
    (negCarry a c).1 + B * (negCarry a c).2 = c + (B - 1 - a) ∧ (negCarry a c).1 < B ∧ (negCarry a c).2 ≤ 1 := by
  unfold negCarry dnot MAXD
  refine ⟨Nat.mod_add_div _ _, Nat.mod_lt _ B_pos, ?_⟩
  have : c + (B - 1 - a) < 2 * B := by omega
  have := (Nat.div_lt_iff_lt_mul B_pos).2 this
  omega

/-- what a (possibly negated) digit stream of value `v < P` with pending carry `c` produces:
    the stream value `s < P` and the carry `c'` left afterwards -/
def StreamRel (neg : Bool) (c v P s c' : Nat) : Prop :=
  s < P ∧ c' ≤ 1 ∧ (if neg then s + P * c' = c + (P - 1 - v) else s = v ∧ c' = c)

theorem twos_rel (neg : Bool) {d c : Nat} (hd : d < B) (hc : c ≤ 1) :
    StreamRel neg c d B (twos neg d c).1 (twos neg d c).2 := by
  unfold twos StreamRel
  cases neg with
  | true =>
    obtain ⟨h1, h2, h3⟩ := negCarry_spec hd hc
    simp only [if_true]; exact ⟨h2, h3, h1⟩
  | false => simp [hd, hc]

theorem streamRel_nil (neg : Bool) {c : Nat} (hc : c ≤ 1) : StreamRel neg c 0 1 0 c := by
  unfold StreamRel; cases neg <;> simp [hc]

/-- composing a digit with the rest of the stream -/
theorem streamRel_cons {neg : Bool} {c d s0 c1 v' P' s' c' : Nat} (hd : d < B) (hv : v' < P')
    (h0 : StreamRel neg c d B s0 c1) (h1 : StreamRel neg c1 v' P' s' c') :
    StreamRel neg c (d + B * v') (B * P') (s0 + B * s') c' := by
  unfold StreamRel at *
  obtain ⟨a1, a2, a3⟩ := h0
  obtain ⟨b1, b2, b3⟩ := h1
  have hlt : s0 + B * s' < B * P' := by
    have : B * (s' + 1) ≤ B * P' := Nat.mul_le_mul_left _ b1
    rw [Nat.mul_succ] at this; omega
  refine ⟨hlt, b2, ?_⟩
  cases neg with
  | true =>
    simp only [if_true] at *
    have hvv : d + B * v' < B * P' := by
      have : B * (v' + 1) ≤ B * P' := Nat.mul_le_mul_left _ hv
      rw [Nat.mul_succ] at this; omega
    have e1 : B * (s' + P' * c') = B * (c1 + (P' - 1 - v')) := by rw [b3]
    have e2 : B * (P' - 1 - v') = B * P' - B - B * v' := by
      rw [Nat.mul_sub, Nat.mul_sub]; simp
    have e3 : B * (v' + 1) ≤ B * P' := Nat.mul_le_mul_left _ hv
    rw [Nat.mul_add, Nat.mul_add, e2] at e1
    rw [Nat.mul_succ] at e3
    have e4 : B * (P' * c') = B * P' * c' := by ring
    rw [e4] at e1
    omega
  | false =>
    simp only [Bool.false_eq_true, if_false] at *
    obtain ⟨x1, x2⟩ := a3
    obtain ⟨y1, y2⟩ := b3
    subst x1 y1 x2 y2
    exact ⟨rfl, rfl⟩



theorem zipLoop_spec {op : Nat → Nat → Nat} (hop : DigitOp op) (na nb nr : Bool) :
    ∀ (a b : List Nat) (ca cb cr : Nat), DigitsOk a → DigitsOk b → ca ≤ 1 → cb ≤ 1 → cr ≤ 1 →
    ∃ sa sb,
      StreamRel na ca (val (a.take (min a.length b.length))) (B ^ (min a.length b.length)) sa
        (zipLoop op na nb nr ca cb cr a b).2.1 ∧
      StreamRel nb cb (val (b.take (min a.length b.length))) (B ^ (min a.length b.length)) sb
        (zipLoop op na nb nr ca cb cr a b).2.2.1 ∧
      StreamRel nr cr (op sa sb) (B ^ (min a.length b.length)) (val (zipLoop op na nb nr ca cb cr a b).1)
        (zipLoop op na nb nr ca cb cr a b).2.2.2 ∧
      (zipLoop op na nb nr ca cb cr a b).1.length = min a.length b.length ∧
      DigitsOk (zipLoop op na nb nr ca cb cr a b).1 := by
  intro a
  induction a with
  | nil =>
    intro b ca cb cr _ _ hca hcb hcr
    refine ⟨0, 0, ?_⟩
    simp only [zipLoop, List.length_nil, Nat.zero_min, List.take_zero, val, pow_zero, hop.zero]
    exact ⟨streamRel_nil na hca, streamRel_nil nb hcb, streamRel_nil nr hcr, trivial, DigitsOk.nil⟩
  | cons x xs ih =>
    intro b ca cb cr ha hb hca hcb hcr
    cases b with
    | nil =>
      refine ⟨0, 0, ?_⟩
      simp only [zipLoop, List.length_nil, Nat.min_zero, List.take_zero, val, pow_zero, hop.zero]
      exact ⟨streamRel_nil na hca, streamRel_nil nb hcb, streamRel_nil nr hcr, trivial, DigitsOk.nil⟩
    | cons y ys =>
      have ta := twos_rel na ha.head hca
      have tb := twos_rel nb hb.head hcb
      have hr : op (twos na x ca).1 (twos nb y cb).1 < B := by
        rw [B_eq_bits]; apply hop.lt <;> rw [← B_eq_bits]
        · exact ta.1
        · exact tb.1
      have tr := twos_rel nr hr hcr
      obtain ⟨sa', sb', i1, i2, i3, i4, i5⟩ := ih ys (twos na x ca).2 (twos nb y cb).2
        (twos nr (op (twos na x ca).1 (twos nb y cb).1) cr).2 ha.tail hb.tail ta.2.1 tb.2.1 tr.2.1
      simp only [zipLoop, List.length_cons, Nat.succ_min_succ, List.take_succ_cons, val_cons, pow_succ']
      have hva := val_lt (ha.tail.take (min xs.length ys.length))
      have hvb := val_lt (hb.tail.take (min xs.length ys.length))
      rw [List.length_take, Nat.min_eq_left (Nat.min_le_left _ _)] at hva
      rw [List.length_take, Nat.min_eq_left (Nat.min_le_right _ _)] at hvb
      refine ⟨(twos na x ca).1 + B * sa', (twos nb y cb).1 + B * sb',
        streamRel_cons ha.head hva ta i1, streamRel_cons hb.head hvb tb i2, ?_, by rw [i4], DigitsOk.cons tr.1 i5⟩
      have hblk : op ((twos na x ca).1 + B * sa') ((twos nb y cb).1 + B * sb')
          = op (twos na x ca).1 (twos nb y cb).1 + B * op sa' sb' := by
        rw [B_eq_bits]; apply hop.block <;> rw [← B_eq_bits]
        · exact ta.1
        · exact tb.1
      rw [hblk]
      have hopl : op sa' sb' < B ^ (min xs.length ys.length) := by
        rw [B_pow]; apply hop.lt <;> rw [← B_pow]
        · exact i1.1
        · exact i2.1
      exact streamRel_cons hr hopl tr i3

theorem xor_maxd {t : Nat} (ht : t < B) : t ^^^ MAXD = B - 1 - t := by
  apply Nat.eq_of_testBit_eq; intro i
  have e1 : MAXD = 2 ^ BITS - 1 := by unfold MAXD; rw [B_eq_bits]
  have ht' : t < 2 ^ BITS := by rw [← B_eq_bits]; exact ht
  rw [Nat.testBit_xor, e1, Nat.testBit_two_pow_sub_one, B_eq_bits,
    show 2 ^ BITS - 1 - t = 2 ^ BITS - (t + 1) by omega, Nat.testBit_two_pow_sub_succ ht']
  by_cases hi : i < BITS
  · simp [hi]
  · have : t.testBit i = false :=
      Nat.testBit_lt_two_pow (Nat.lt_of_lt_of_le ht' (Nat.pow_le_pow_right (by decide) (by omega)))
    simp [hi, this]

theorem tailLoop_spec (negIn flip negOut : Bool) :
    ∀ (ds : List Nat) (cin cout : Nat), DigitsOk ds → cin ≤ 1 → cout ≤ 1 →
    ∃ s,
      StreamRel negIn cin (val ds) (B ^ ds.length) s (tailLoop negIn flip negOut cin cout ds).2.1 ∧
      StreamRel negOut cout (if flip then B ^ ds.length - 1 - s else s) (B ^ ds.length)
        (val (tailLoop negIn flip negOut cin cout ds).1) (tailLoop negIn flip negOut cin cout ds).2.2 ∧
      (tailLoop negIn flip negOut cin cout ds).1.length = ds.length ∧
      DigitsOk (tailLoop negIn flip negOut cin cout ds).1 := by
  intro ds
  induction ds with
  | nil =>
    intro cin cout _ hci hco
    refine ⟨0, ?_⟩
    simp only [tailLoop, List.length_nil, val, pow_zero]
    refine ⟨streamRel_nil negIn hci, ?_, trivial, DigitsOk.nil⟩
    cases flip <;> simpa using streamRel_nil negOut hco
  | cons d ds ih =>
    intro cin cout hd hci hco
    have t := twos_rel negIn hd.head hci
    have hm : (if flip then (twos negIn d cin).1 ^^^ MAXD else (twos negIn d cin).1) < B := by
      split
      · rw [xor_maxd t.1]; have := B_pos; omega
      · exact t.1
    have r := twos_rel negOut hm hco
    obtain ⟨s', i1, i2, i3, i4⟩ := ih (twos negIn d cin).2
      (twos negOut (if flip then (twos negIn d cin).1 ^^^ MAXD else (twos negIn d cin).1) cout).2 hd.tail t.2.1 r.2.1
    simp only [tailLoop, List.length_cons, val_cons, pow_succ']
    have hv := val_lt hd.tail
    refine ⟨(twos negIn d cin).1 + B * s', streamRel_cons hd.head hv t i1, ?_, by rw [i3], DigitsOk.cons r.1 i4⟩
    have hs' : s' < B ^ ds.length := i1.1
    have ht1 := t.1
    have hfl : (if flip then B * B ^ ds.length - 1 - ((twos negIn d cin).1 + B * s') else (twos negIn d cin).1 + B * s')
        = (if flip then (twos negIn d cin).1 ^^^ MAXD else (twos negIn d cin).1)
          + B * (if flip then B ^ ds.length - 1 - s' else s') := by
      cases flip with
      | false => simp
      | true =>
        simp only [if_true]
        rw [xor_maxd ht1]
        have e3 : B * (s' + 1) ≤ B * B ^ ds.length := Nat.mul_le_mul_left _ hs'
        have e2 : B * (B ^ ds.length - 1 - s') = B * B ^ ds.length - B - B * s' := by
          rw [Nat.mul_sub, Nat.mul_sub]; simp
        rw [Nat.mul_succ] at e3
        rw [e2]; omega
    rw [hfl]
    refine streamRel_cons hm ?_ r i2
    split <;> omega

/-- the integer a (possibly negated) stream stands for: a magnitude tail `z` whose two's
    complement is being produced with pending carry `c` is `-z - 1 + c`; a plain one is `z` -/
def I (neg : Bool) (c : Nat) (z : Int) : Int := if neg then -z - 1 + c else z

theorem streamRel_int {neg : Bool} {c v P s c' : Nat} (h : StreamRel neg c v P s c') (hv : v < P) (W : Int) :
    I neg c ((v : Int) + P * W) = (s : Int) + P * I neg c' W := by
  unfold StreamRel at h
  obtain ⟨_, _, h3⟩ := h
  unfold I
  cases neg with
  | true =>
    simp only [if_true] at *
    have e : (s : Int) + P * c' = c + (P - 1 - v) := by
      have : ((s + P * c' : Nat) : Int) = ((c + (P - 1 - v) : Nat) : Int) := by rw [h3]
      rw [show P - 1 - v = P - (v + 1) by omega] at this
      push_cast [Nat.cast_sub (show v + 1 ≤ P from hv)] at this
      linarith
    linarith
  | false =>
    simp only [Bool.false_eq_true, if_false] at *
    rw [h3.1]

structure IntOp (opN : Nat → Nat → Nat) (opZ : Int → Int → Int) : Prop where
  dig : DigitOp opN
  block : ∀ {k d e : Nat} (x y : Int), d < 2 ^ k → e < 2 ^ k →
    opZ ((d : Int) + 2 ^ k * x) ((e : Int) + 2 ^ k * y) = ((opN d e : Nat) : Int) + 2 ^ k * opZ x y

theorem intOp_and : IntOp (· &&& ·) Int.land := ⟨digitOp_and, fun x y hd he => int_land_block x y hd he⟩
theorem intOp_or : IntOp (· ||| ·) Int.lor := ⟨digitOp_or, fun x y hd he => int_lor_block x y hd he⟩
theorem intOp_xor : IntOp (· ^^^ ·) Int.xor := ⟨digitOp_xor, fun x y hd he => int_xor_block x y hd he⟩

theorem B_pow_cast (k : Nat) : ((B ^ k : Nat) : Int) = (2 : Int) ^ (BITS * k) := by
  rw [B_pow]; push_cast; rfl

/-- the zip loop in terms of the integers the operands stand for -/
theorem zip_int {opN : Nat → Nat → Nat} {opZ : Int → Int → Int} (hop : IntOp opN opZ) (na nb nr : Bool)
    (a b : List Nat) (ca cb cr : Nat) (ha : DigitsOk a) (hb : DigitsOk b)
    (hca : ca ≤ 1) (hcb : cb ≤ 1) (hcr : cr ≤ 1) :
    let k := min a.length b.length
    let z := zipLoop opN na nb nr ca cb cr a b
    I nr cr (opZ (I na ca (val a)) (I nb cb (val b)))
      = (val z.1 : Int) + (B ^ k : Nat) * I nr z.2.2.2 (opZ (I na z.2.1 (val (a.drop k))) (I nb z.2.2.1 (val (b.drop k))))
    ∧ (∃ sa : Nat, sa < B ^ k ∧ I na ca (val a) = (sa : Int) + (B ^ k : Nat) * I na z.2.1 (val (a.drop k)))
    ∧ (∃ sb : Nat, sb < B ^ k ∧ I nb cb (val b) = (sb : Int) + (B ^ k : Nat) * I nb z.2.2.1 (val (b.drop k)))
    ∧ z.1.length = k ∧ DigitsOk z.1 ∧ z.2.1 ≤ 1 ∧ z.2.2.1 ≤ 1 ∧ z.2.2.2 ≤ 1 := by
  intro k z
  obtain ⟨sa, sb, h1, h2, h3, h4, h5⟩ := zipLoop_spec hop.dig na nb nr a b ca cb cr ha hb hca hcb hcr
  have hva := val_lt (ha.take k)
  have hvb := val_lt (hb.take k)
  rw [List.length_take, Nat.min_eq_left (Nat.min_le_left _ _)] at hva
  rw [List.length_take, Nat.min_eq_left (Nat.min_le_right _ _)] at hvb
  have ea : (val a : Int) = (val (a.take k) : Int) + (B ^ k : Nat) * (val (a.drop k) : Int) := by
    have := val_take_drop a k (Nat.min_le_left _ _); exact_mod_cast this
  have eb : (val b : Int) = (val (b.take k) : Int) + (B ^ k : Nat) * (val (b.drop k) : Int) := by
    have := val_take_drop b k (Nat.min_le_right _ _); exact_mod_cast this
  have ia := streamRel_int h1 hva (val (a.drop k))
  have ib := streamRel_int h2 hvb (val (b.drop k))
  rw [← ea] at ia; rw [← eb] at ib
  have hopl : opN sa sb < B ^ k := by
    rw [B_pow]; apply hop.dig.lt <;> rw [← B_pow]
    · exact h1.1
    · exact h2.1
  refine ⟨?_, ⟨sa, h1.1, ia⟩, ⟨sb, h2.1, ib⟩, h4, h5, h1.2.1, h2.2.1, h3.2.1⟩
  rw [ia, ib]
  have hblk := hop.block (k := BITS * k) (d := sa) (e := sb) (I na z.2.1 (val (a.drop k))) (I nb z.2.2.1 (val (b.drop k)))
    (by rw [← B_pow]; exact h1.1) (by rw [← B_pow]; exact h2.1)
  rw [B_pow_cast, hblk, ← B_pow_cast]
  exact streamRel_int h3 hopl _

/-- the sign-extension transformer of a tail loop -/
def F (flip : Bool) (z : Int) : Int := if flip then -z - 1 else z

/-- a tail loop in terms of the integer the remaining operand stands for -/
theorem tail_int (negIn flip negOut : Bool) (ds : List Nat) (cin cout : Nat) (hd : DigitsOk ds)
    (hci : cin ≤ 1) (hco : cout ≤ 1) :
    let t := tailLoop negIn flip negOut cin cout ds
    I negOut cout (F flip (I negIn cin (val ds)))
      = (val t.1 : Int) + (B ^ ds.length : Nat) * I negOut t.2.2 (F flip (I negIn t.2.1 0))
    ∧ (∃ s : Nat, s < B ^ ds.length ∧ I negIn cin (val ds) = (s : Int) + (B ^ ds.length : Nat) * I negIn t.2.1 0)
    ∧ t.1.length = ds.length ∧ DigitsOk t.1 ∧ t.2.1 ≤ 1 ∧ t.2.2 ≤ 1 := by
  intro t
  obtain ⟨s, h1, h2, h3, h4⟩ := tailLoop_spec negIn flip negOut ds cin cout hd hci hco
  have hv := val_lt hd
  have i1 := streamRel_int h1 hv 0
  simp only [Int.mul_zero, Int.add_zero] at i1
  refine ⟨?_, ⟨s, h1.1, i1⟩, h3, h4, h1.2.1, h2.2.1⟩
  rw [i1]
  have hs := h1.1
  have hy : (if flip then B ^ ds.length - 1 - s else s) < B ^ ds.length := by split <;> omega
  have := streamRel_int h2 hy (F flip (I negIn t.2.1 0))
  rw [← this]
  congr 1
  unfold F
  cases flip with
  | false => simp only [Bool.false_eq_true, if_false]; rfl
  | true =>
    simp only [if_true]
    rw [show B ^ ds.length - 1 - s = B ^ ds.length - (s + 1) by omega]
    push_cast [Nat.cast_sub (show s + 1 ≤ B ^ ds.length from hs)]
    ring

theorem I_neg_one (z : Int) : I true 1 z = -z := by unfold I; simp
theorem I_pos (c : Nat) (z : Int) : I false c z = z := by unfold I; simp
theorem I_neg_zero_zero : I true 0 0 = -1 := by unfold I; simp
theorem I_neg_of_neg_one (c : Nat) : I true c (-1) = c := by unfold I; simp
theorem F_false (z : Int) : F false z = z := by unfold F; simp
theorem F_true (z : Int) : F true z = -z - 1 := by unfold F; simp

/-- a negated operand that has been consumed completely leaves no carry (it is non-zero) -/
theorem carry_zero_of_pos {A sa P c : Nat} (hA : 0 < A) (hc : c ≤ 1)
    (h : I true 1 (A : Int) = (sa : Int) + (P : Nat) * I true c 0) : c = 0 := by
  rw [I_neg_one] at h
  unfold I at h
  simp only [if_true] at h
  rcases Nat.le_one_iff_eq_zero_or_eq_one.mp hc with h0 | h1
  · exact h0
  · subst h1; simp at h; omega

theorem carry_zero_of_pos2 {A sa s2 P P2 c1 c : Nat} (hA : 0 < A) (hc : c ≤ 1) {a2 : Int}
    (h : I true 1 (A : Int) = (sa : Int) + (P : Nat) * I true c1 a2)
    (h2 : I true c1 a2 = (s2 : Int) + (P2 : Nat) * I true c 0) : c = 0 := by
  rw [I_neg_one, h2] at h
  unfold I at h
  simp only [if_true] at h
  rcases Nat.le_one_iff_eq_zero_or_eq_one.mp hc with h0 | h1
  · exact h0
  · subst h1
    simp at h
    have : (0 : Int) ≤ (sa : Int) + (P : Int) * (s2 : Int) := by positivity
    omega

theorem fin_val {d : List Nat} {c : Nat} (hd : DigitsOk d) (hc : c ≤ 1) :
    (val (if c ≠ 0 then d ++ [1] else d) : Int) = (val d : Int) + (B ^ d.length : Nat) * (c : Int)
    ∧ DigitsOk (if c ≠ 0 then d ++ [1] else d) := by
  rcases Nat.le_one_iff_eq_zero_or_eq_one.mp hc with h0 | h1
  · subst h0; simp [hd]
  · subst h1
    simp only [ne_eq, Nat.succ_ne_zero, not_false_eq_true, if_true]
    refine ⟨?_, hd.append (by decide)⟩
    rw [val_append]; simp [val]

theorem val_drop_nil (a : List Nat) {k : Nat} (h : a.length ≤ k) : (val (a.drop k) : Int) = 0 := by
  rw [val_drop_of_le a h]; rfl

end NB.C07
