/-
  NB.Model.Serde — the serde format of src/biguint/serde.rs and src/bigint/serde.rs
  (64-bit digit variants), import-free.

  The serde data model itself is trusted (DESIGN.md §2): a `Serializer` is abstracted to the
  record of what it is told (`serialize_seq(Some(len))`, the `serialize_element(&u32)` calls,
  `serialize_i8`), a `Deserializer` to the token list it replays (`SeqAccess::size_hint`, the
  `u32` elements, the integer handed to `i8::deserialize`).
-/
import NB.Base
import NB.Model.Bytes
namespace NB.Serde
open NB NB.Bytes

/-- what `Serialize for BigUint` tells the serializer -/
structure SeqRec where
  declared : Option Nat
  elems : List Nat
  deriving DecidableEq, Repr

/-- `Serialize for BigUint` (64-bit arm).  The empty case goes through `<[u32]>::serialize`,
    i.e. `collect_seq` = `serialize_seq(Some(0))` and no element. -/
def ser (data : List Nat) : SeqRec :=
  match data.getLast? with
  | some last =>
    let init := data.dropLast
    let lastLo := last % W
    let lastHi := (last >>> halfBits) % W
    let u32Len := init.length * 2 + 1 + (if lastHi ≠ 0 then 1 else 0)
    let body := init.flatMap (fun x => [x % W, (x >>> halfBits) % W])
    ⟨some u32Len, body ++ [lastLo] ++ (if lastHi ≠ 0 then [lastHi] else [])⟩
  | none => ⟨some 0, []⟩

/-- `MAX_PREALLOC_BYTES` and `mem::size_of::<u32>()` -/
def maxPreallocBytes : Nat := 1024 * 1024
def sizeOfU32 : Nat := 4

/-- `cautious(hint)` -/
def cautious (hint : Option Nat) : Nat := min (hint.getD 0) (maxPreallocBytes / sizeOfU32)

/-- the `while let Some(lo) = seq.next_element::<u32>()?` loop of `U32Visitor::visit_seq` -/
def joinPairs : List Nat → List Nat
  | [] => []
  | [lo] => [lo]
  | lo :: hi :: rest => (lo ||| ((hi <<< halfBits) % B)) :: joinPairs rest

/-- `U32Visitor::visit_seq` (64-bit arm): the size hint only chooses the initial capacity
    `div_ceil(cautious(hint), 2)`, which is returned for inspection and otherwise unused -/
def visitSeq (hint : Option Nat) (tokens : List Nat) : Nat × List Nat :=
  let u32Len := cautious hint
  let len := (u32Len + 1) / 2
  (len, normalize (joinPairs tokens))

/-- `Deserialize for BigUint` on a well-typed token sequence -/
def de (hint : Option Nat) (tokens : List Nat) : List Nat := (visitSeq hint tokens).2

/-- `Serialize for Sign` -/
def serSign : Sign → Int
  | .minus => -1 | .nosign => 0 | .plus => 1

/-- `Deserialize for Sign`: `i8::deserialize` (serde's primitive visitor rejects integers
    outside the `i8` range) followed by the `match` -/
def deSign (v : Int) : Option Sign :=
  if v < -128 ∨ v > 127 then none
  else if v = -1 then some .minus
  else if v = 0 then some .nosign
  else if v = 1 then some .plus
  else none

/-- the kinds of token a serde `Deserializer` may hand to the visitor for the sign field (`other` stands for
    every non-integer token: bool, float, char, str, bytes, unit, none, seq, map) -/
inductive TokKind where
  | i8 | i16 | i32 | i64 | i128 | u8 | u16 | u32 | u64 | u128 | other
  deriving DecidableEq, Repr

/-- serde's primitive visitor for `i8` (`impl_deserialize_num! { i8, … }`, serde_core 1.0.229): `visit_i8`,
    `visit_i16/i32/i64` and `visit_u8/u16/u32/u64` convert with a range check; every other `visit_*` (also
    `visit_i128/u128`) is the provided "invalid type" error -/
def TokKind.accepted : TokKind → Bool
  | .i8 | .i16 | .i32 | .i64 | .u8 | .u16 | .u32 | .u64 => true
  | .i128 | .u128 | .other => false

/-- `Deserialize for Sign` on a typed token: the value is the mathematical integer the token carries -/
def deSignTok (k : TokKind) (v : Int) : Option Sign :=
  if k.accepted then deSign v else none

/-- `Serialize for BigInt`: the tuple `(sign, &data)` -/
def serBigInt (x : BigInt) : Int × SeqRec := (serSign x.sign, ser x.mag)

/-- `Deserialize for BigInt`: tuple, then `BigInt::from_biguint(sign, data)` -/
def deBigInt (v : Int) (hint : Option Nat) (tokens : List Nat) : Option BigInt :=
  match deSign v with
  | none => none
  | some s => some (BigInt.fromBiguint s (de hint tokens))

/-- one element of the digit sequence delivered as a typed token: serde's primitive visitor for `u32` accepts the
    same integer kinds as the one for `i8`, range-checked against `u32` -/
def deElemTok (t : TokKind × Int) : Option Nat :=
  if t.1.accepted && decide (0 ≤ t.2) && decide (t.2 < 4294967296) then some t.2.toNat else none

/-- `seq.next_element::<u32>()?` over typed tokens: the first rejected element fails the whole sequence -/
def deElems : List (TokKind × Int) → Option (List Nat)
  | [] => some []
  | t :: ts =>
    match deElemTok t with
    | none => none
    | some w =>
      match deElems ts with
      | none => none
      | some ws => some (w :: ws)

/-- `Deserialize for BigUint` on a sequence of typed tokens -/
def deTokSeq (hint : Option Nat) (toks : List (TokKind × Int)) : Option (List Nat) :=
  match deElems toks with
  | none => none
  | some ws => some (de hint ws)

/-! ### type hints

A non-self-describing format (bincode / postcard style) decodes by the `deserialize_*` hint it is given, so the hints
requested by `Deserialize` are part of the wire contract: they have to name the types that `Serialize` wrote. -/

/-- the kinds of `Serializer` call (`serialize_tuple(2)`, `serialize_i8`, `serialize_seq`, `serialize_u32`) -/
inductive Kind where
  | tuple2 | i8 | seq | u32
  deriving DecidableEq, Repr

/-- what `Serialize for BigUint` writes, as kinds -/
def serKindsU (data : List Nat) : List Kind := .seq :: (ser data).elems.map (fun _ => Kind.u32)

/-- what `Serialize for BigInt` writes, as kinds -/
def serKindsI (x : BigInt) : List Kind := .tuple2 :: .i8 :: serKindsU x.mag

/-- the hints `Deserialize for BigUint` asks for on a sequence of `n` well-typed tokens -/
def deHintsU (tokens : List Nat) : List Kind := .seq :: tokens.map (fun _ => Kind.u32)

/-- the hints `Deserialize for BigInt` asks for: the tuple, the sign as `i8`, and (only if the sign is accepted —
    serde's tuple visitor stops at the first error) the magnitude -/
def deHintsI (v : Int) (tokens : List Nat) : List Kind :=
  .tuple2 :: .i8 :: (match deSign v with | none => [] | some _ => deHintsU tokens)

/-- `Deserialize for BigInt` with a typed sign token -/
def deBigIntTok (k : TokKind) (v : Int) (hint : Option Nat) (tokens : List Nat) : Option BigInt :=
  match deSignTok k v with
  | none => none
  | some s => some (BigInt.fromBiguint s (de hint tokens))

end NB.Serde
