/-
  NB.Model.Radix — model of the text / radix conversions:
    src/biguint/convert.rs  fls, ilog2, from_bitwise_digits_le, from_inexact_bitwise_digits_le,
                            from_radix_digits_be, from_radix_be/le, Num::from_str_radix,
                            to_bitwise_digits_le, to_inexact_bitwise_digits_le, to_radix_digits_le,
                            to_radix_le, to_str_radix_reversed, get_radix_base, generate_radix_bases
    src/biguint.rs          parse_bytes, to_str_radix, to_radix_be/le, from_radix_be/le, fmt impls
    src/bigint/convert.rs   Num::from_str_radix
    src/bigint.rs           parse_bytes, to_str_radix, to_radix_be/le, from_radix_be/le, fmt impls
    core::fmt::Formatter::pad_integral (std's algorithm, modelled — trusted)

  Conventions.  A `&str` / `&[u8]` / `Vec<u8>` is a `List Nat` of bytes (every element `< 256`;
  the wire guarantees it, the theorems assume it where it matters).  A BigUint is its canonical
  limb list.  Bit regrouping (power-of-two radices) and the chunked Horner input loop
  (`mac_with_carry` sweep + `add2`) are modelled on the limbs; the general radix output path uses
  `Nat` for the BigUint operations (`div_rem_digit`, `div_rem`, `*`) and keeps the loop / chunk
  structure and every primitive-integer truncation (`as u8`, wrapping `u64` arithmetic of the
  release profile) of the source.
  `Vec::push` loops are rendered as "emitted prefix ++ result of the remaining iterations".

  Failure sites are explicit: `.error .radix` (the range asserts), `.error .divzero`
  (`div_rem_digit`/`div_rem` by 0), `.error (.internal "diverge")` where the Rust loop would not
  terminate, `.error (.internal "index")` for `data[0]` of an empty vector etc.  NB.Props.C06
  proves that none but `.radix` is reachable.
-/
import NB.Base
import NB.Model.AddSub
set_option linter.unusedVariables false
namespace NB.Radix
open NB

/-- `big_digit::BITS` -/
def BITS : Nat := 64

/-- range of `u8` -/
def U8 : Nat := 256

/-- upper radix bound of the text functions (`assert!(2 <= radix && radix <= 36)`) -/
def strRadixMax : Nat := 36
/-- upper radix bound of the digit-vector functions (`assert!(2 <= radix && radix <= 256)`) -/
def digRadixMax : Nat := 256

def diverge : Panic := .internal "diverge"

/-- `ParseBigIntError` kinds -/
inductive ParseErr where
  | empty | invalid
  deriving DecidableEq, Repr, Inhabited

/-! ### fls / ilog2 / is_power_of_two -/

/-- `fls(v)`: position of the highest set bit, `fls(0) = 0` -/
def fls (v : Nat) : Nat := if v = 0 then 0 else Nat.log2 v + 1

/-- `ilog2(v) = fls(v) - 1` in `u8` (wrapping in the release profile; only called with `v ≥ 2`) -/
def ilog2 (v : Nat) : Nat := (fls v + (U8 - 1)) % U8

/-- `u32::is_power_of_two` -/
def isPow2 (v : Nat) : Bool := decide (v = 2 ^ Nat.log2 v)

/-! ### the per-radix tables: `generate_radix_bases(max)` as a function of the radix -/

/-- the inner `while let Some(b) = base.checked_mul(radix) { if b > max {break}; base = b; power += 1 }`.
    `checked_mul` is `Some` iff the product is `< B`.  Fuel `BITS` always suffices for `radix ≥ 2`
    (`radix_base_spec` shows the returned pair is maximal, i.e. the loop ended by `break`/`None`). -/
def radixBaseLoop (max radix : Nat) : Nat → Nat → Nat → Nat × Nat
  | 0, base, power => (base, power)
  | f + 1, base, power =>
    let b := base * radix
    if b < B then
      if b > max then (base, power) else radixBaseLoop max radix f b (power + 1)
    else (base, power)

/-- entry `bases[radix]` of `generate_radix_bases(max)`: `(0,0)` for powers of two and outside 3..255 -/
def radixBaseEntry (max radix : Nat) : Nat × Nat :=
  if 3 ≤ radix ∧ radix < 256 ∧ ¬ isPow2 radix then radixBaseLoop max radix BITS radix 1 else (0, 0)

/-- `get_radix_base(radix)` = `BASES[radix as usize]` of the 257-entry table for `big_digit::MAX`
    (`FAST_DIV_WIDE` is true on x86_64, so `to_radix_digits_le` uses the same table). -/
def getRadixBase (radix : Nat) : Except Panic (Nat × Nat) :=
  if radix < 257 then .ok (radixBaseEntry (B - 1) radix) else .error (.internal "index")

/-! ### input: power-of-two radices (digit level) -/

/-- `slice::chunks(n)`; `n = 0` panics in Rust and is excluded by the callers' guards -/
def chunksOf (n : Nat) (l : List Nat) : List (List Nat) :=
  if h : n = 0 ∨ l = [] then [] else l.take n :: chunksOf n (l.drop n)
termination_by l.length
decreasing_by
  have : l.length ≠ 0 := fun h0 => h (Or.inr (List.eq_nil_of_length_eq_zero h0))
  simp only [List.length_drop]; omega

/-- `chunk.iter().rev().fold(0, |acc, &c| (acc << bits) | BigDigit::from(c))` (u64 shift truncates) -/
def foldChunk (bits : Nat) (chunk : List Nat) : Nat :=
  chunk.foldr (fun c acc => ((acc <<< bits) % B) ||| c) 0

/-- `from_bitwise_digits_le(v, bits)` -/
def fromBitwiseDigitsLe (v : List Nat) (bits : Nat) : Except Panic (List Nat) :=
  if bits = 0 then .error .divzero                     -- `big_digit::BITS / bits`
  else
    let digitsPerBigDigit := BITS / bits
    if digitsPerBigDigit = 0 then .error (.internal "chunk size") -- `chunks(0)`
    else .ok (normalize ((chunksOf digitsPerBigDigit v).map (foldChunk bits)))

/-- loop state of `from_inexact_bitwise_digits_le`: `d`, `dbits`, and `data` (reversed) -/
structure InexSt where
  d : Nat
  dbits : Nat
  dataRev : List Nat
  deriving Repr

/-- one iteration of `for &c in v` -/
def inexStep (bits : Nat) (s : InexSt) (c : Nat) : InexSt :=
  let d := s.d ||| ((c <<< s.dbits) % B)
  let dbits := s.dbits + bits
  if BITS ≤ dbits then
    let dbits' := dbits - BITS
    ⟨c >>> (bits - dbits'), dbits', d :: s.dataRev⟩
  else ⟨d, dbits, s.dataRev⟩

/-- `from_inexact_bitwise_digits_le(v, bits)` -/
def fromInexactBitwiseDigitsLe (v : List Nat) (bits : Nat) : List Nat :=
  let s := v.foldl (inexStep bits) ⟨0, 0, []⟩
  let data := if 0 < s.dbits then s.d :: s.dataRev else s.dataRev
  normalize data.reverse

/-! ### input: general radix (chunked Horner) -/

/-- `iter().fold(0, |acc, &d| acc * radix + BigDigit::from(d))` in wrapping u64 arithmetic -/
def beFold (radix : Nat) (ds : List Nat) : Nat :=
  ds.foldl (fun acc d => (acc * radix + d) % B) 0

/-- `mac_with_carry(a, b, c, &mut acc)`: `acc += a + b*c` in `DoubleBigDigit`, returns the low digit and
    leaves the high part in `acc` (no u128 overflow for digit operands and `acc < B`) -/
def macWithCarry (a b c acc : Nat) : Nat × Nat :=
  let t := acc + a + b * c
  (t % B, t / B)

/-- `let mut carry = 0; for d in data.iter_mut() { *d = mac_with_carry(0, *d, base, &mut carry); }` -/
def mulSweep (base : Nat) : List Nat → Nat → List Nat × Nat
  | [], carry => ([], carry)
  | d :: ds, carry =>
    let o := macWithCarry 0 d base carry
    let r := mulSweep base ds o.2
    (o.1 :: r.1, r.2)

/-- `add2(&mut data, &[n])` = `__add2` with a one-digit addend, i.e. the carry chain of NB.Model.AddSub
    (`add2Digit_eq_add2` in NB.Props.C06: equal to `NB.add2 P data [n]` for every asm block layout `P`);
    `debug_assert!(carry == 0)` is an explicit error -/
def add2Digit (a : List Nat) (n : Nat) : Except Panic (List Nat) :=
  let lo := adcZip 0 (a.take 1) [n]
  let hi := adcProp lo.2 (a.drop 1)
  if hi.2 = 0 then .ok (lo.1 ++ hi.1) else .error (.internal "add2 carry")

/-- one iteration of `for chunk in tail.chunks(power)` on the digit vector `data`:
    push a zero digit unless the top digit is zero, multiply every digit by `base` with carry
    (`debug_assert!(carry == 0)`), add the chunk value -/
def hornerStep (radix base : Nat) (data chunk : List Nat) : Except Panic (List Nat) :=
  let data := if data.getLast? ≠ some 0 then data ++ [0] else data
  let r := mulSweep base data 0
  if r.2 ≠ 0 then .error (.internal "debug_assert carry")
  else add2Digit r.1 (beFold radix chunk)

/-- `for chunk in tail.chunks(power) { … }` -/
def hornerLoop (radix base power : Nat) (data : List Nat) (tail : List Nat) : Except Panic (List Nat) :=
  if h : tail = [] ∨ power = 0 then .ok data
  else match hornerStep radix base data (tail.take power) with
    | .ok d => hornerLoop radix base power d (tail.drop power)
    | .error e => .error e
termination_by tail.length
decreasing_by
  have : tail.length ≠ 0 := fun h0 => h (Or.inl (List.eq_nil_of_length_eq_zero h0))
  simp only [List.length_drop]; omega

/-- `from_radix_digits_be(v, radix)` (big-endian digits, `v` non-empty, radix not a power of two) -/
def fromRadixDigitsBe (v : List Nat) (radix : Nat) : Except Panic (List Nat) :=
  match getRadixBase radix with
  | .error e => .error e
  | .ok (base, power) =>
    if power = 0 then .error (.internal "rem by zero")      -- `v.len() % power`
    else
      let r := v.length % power
      let i := if r = 0 then power else r
      if v.length < i then .error (.internal "split_at")
      else
        let first := beFold radix (v.take i)
        match hornerLoop radix base power [first] (v.drop i) with
        | .ok data => .ok (normalize data)                  -- `biguint_from_vec(data)`
        | .error e => .error e

/-- the shared tail of `from_radix_be/le` and `from_str_radix`: little-endian digits for the
    power-of-two paths, big-endian digits for the Horner path -/
def digitsToBigUint (radix : Nat) (le be : List Nat) : Except Panic (List Nat) :=
  if isPow2 radix then
    let bits := ilog2 radix
    if BITS % bits = 0 then fromBitwiseDigitsLe le bits
    else .ok (fromInexactBitwiseDigitsLe le bits)
  else fromRadixDigitsBe be radix

/-- `convert::from_radix_le(buf, radix)` -/
def fromRadixLe (buf : List Nat) (radix : Nat) : Except Panic (Option (List Nat)) :=
  if ¬ (2 ≤ radix ∧ radix ≤ digRadixMax) then .error .radix
  else if buf = [] then .ok (some [])
  else if radix ≠ 256 ∧ buf.any (fun b => radix % U8 ≤ b) then .ok none
  else match digitsToBigUint radix buf buf.reverse with
    | .ok r => .ok (some r)
    | .error e => .error e

/-- `convert::from_radix_be(buf, radix)` -/
def fromRadixBe (buf : List Nat) (radix : Nat) : Except Panic (Option (List Nat)) :=
  if ¬ (2 ≤ radix ∧ radix ≤ digRadixMax) then .error .radix
  else if buf = [] then .ok (some [])
  else if radix ≠ 256 ∧ buf.any (fun b => radix % U8 ≤ b) then .ok none
  else match digitsToBigUint radix buf.reverse buf with
    | .ok r => .ok (some r)
    | .error e => .error e

/-- `BigInt::from_radix_le(sign, buf, radix)` -/
def BigInt.fromRadixLe (sign : Sign) (buf : List Nat) (radix : Nat) : Except Panic (Option BigInt) :=
  match Radix.fromRadixLe buf radix with
  | .ok (some u) => .ok (some (BigInt.fromBiguint sign u))
  | .ok none => .ok none
  | .error e => .error e

/-- `BigInt::from_radix_be(sign, buf, radix)` -/
def BigInt.fromRadixBe (sign : Sign) (buf : List Nat) (radix : Nat) : Except Panic (Option BigInt) :=
  match Radix.fromRadixBe buf radix with
  | .ok (some u) => .ok (some (BigInt.fromBiguint sign u))
  | .ok none => .ok none
  | .error e => .error e

/-! ### input: text -/

/-- the `match b { b'0'..=b'9' => …, b'a'..=b'z' => …, b'A'..=b'Z' => …, _ => u8::MAX }` table
    (`b'_'` is filtered out before) -/
def byteDigit (b : Nat) : Nat :=
  if 48 ≤ b ∧ b ≤ 57 then b - 48
  else if 97 ≤ b ∧ b ≤ 122 then b - 97 + 10
  else if 65 ≤ b ∧ b ≤ 90 then b - 65 + 10
  else 255

/-- `if let Some(tail) = s.strip_prefix('+') { if !tail.starts_with('+') { s = tail } }` -/
def stripPlus (s : List Nat) : List Nat :=
  match s with
  | 43 :: tail => (match tail with
    | 43 :: _ => s
    | _ => tail)
  | _ => s

/-- `<BigUint as Num>::from_str_radix(s, radix)` on the bytes of `s` -/
def fromStrRadixU (s : List Nat) (radix : Nat) : Except Panic (Except ParseErr (List Nat)) :=
  if ¬ (2 ≤ radix ∧ radix ≤ strRadixMax) then .error .radix
  else
    let s := stripPlus s
    if s = [] then .ok (.error .empty)
    else if s.head? = some 95 then .ok (.error .invalid)
    else
      let v := (s.filter (fun b => b != 95)).map byteDigit
      if v.all (fun d => d < radix % U8) then
        match digitsToBigUint radix v.reverse v with
        | .ok r => .ok (.ok r)
        | .error e => .error e
      else .ok (.error .invalid)

/-- the sign split of `<BigInt as Num>::from_str_radix` -/
def stripMinus (s : List Nat) : Sign × List Nat :=
  match s with
  | 45 :: tail => (match tail with
    | 43 :: _ => (.minus, s)
    | _ => (.minus, tail))
  | _ => (.plus, s)

/-- `<BigInt as Num>::from_str_radix(s, radix)` -/
def fromStrRadixI (s : List Nat) (radix : Nat) : Except Panic (Except ParseErr BigInt) :=
  let p := stripMinus s
  match fromStrRadixU p.2 radix with
  | .ok (.ok bu) => .ok (.ok (BigInt.fromBiguint p.1 bu))
  | .ok (.error e) => .ok (.error e)
  | .error e => .error e

/-- continuation byte -/
def utf8Cont (b : Nat) : Bool := 128 ≤ b && b ≤ 191

/-- `core::str::from_utf8(buf).is_ok()` (well-formed UTF-8 byte sequences, Unicode table 3-7) -/
def utf8Valid : List Nat → Bool
  | [] => true
  | b0 :: rest =>
    if b0 < 128 then utf8Valid rest
    else if 194 ≤ b0 ∧ b0 ≤ 223 then
      match rest with
      | b1 :: r => if utf8Cont b1 then utf8Valid r else false
      | _ => false
    else if 224 ≤ b0 ∧ b0 ≤ 239 then
      match rest with
      | b1 :: b2 :: r =>
        let ok1 := if b0 = 224 then 160 ≤ b1 && b1 ≤ 191
                   else if b0 = 237 then 128 ≤ b1 && b1 ≤ 159
                   else utf8Cont b1
        if ok1 && utf8Cont b2 then utf8Valid r else false
      | _ => false
    else if 240 ≤ b0 ∧ b0 ≤ 244 then
      match rest with
      | b1 :: b2 :: b3 :: r =>
        let ok1 := if b0 = 240 then 144 ≤ b1 && b1 ≤ 191
                   else if b0 = 244 then 128 ≤ b1 && b1 ≤ 143
                   else utf8Cont b1
        if ok1 && utf8Cont b2 && utf8Cont b3 then utf8Valid r else false
      | _ => false
    else false

/-- `BigUint::parse_bytes(buf, radix)` -/
def parseBytesU (buf : List Nat) (radix : Nat) : Except Panic (Option (List Nat)) :=
  if ¬ utf8Valid buf then .ok none
  else match fromStrRadixU buf radix with
    | .ok (.ok v) => .ok (some v)
    | .ok (.error _) => .ok none
    | .error e => .error e

/-- `BigInt::parse_bytes(buf, radix)` -/
def parseBytesI (buf : List Nat) (radix : Nat) : Except Panic (Option BigInt) :=
  if ¬ utf8Valid buf then .ok none
  else match fromStrRadixI buf radix with
    | .ok (.ok v) => .ok (some v)
    | .ok (.error _) => .ok none
    | .error e => .error e

/-! ### output: power-of-two radices (digit level) -/

/-- `for _ in 0..n { res.push((r & mask) as u8); r >>= bits }` -/
def emitBits (bits mask : Nat) : Nat → Nat → List Nat
  | 0, _ => []
  | n + 1, r => ((r &&& mask) % U8) :: emitBits bits mask n (r >>> bits)

/-- `while r != 0 { res.push((r & mask) as u8); r >>= bits }` -/
def lastBits (bits mask : Nat) (r : Nat) : Except Panic (List Nat) :=
  if h0 : r = 0 then .ok []
  else if hb : bits = 0 then .error diverge
  else match lastBits bits mask (r >>> bits) with
    | .ok tl => .ok (((r &&& mask) % U8) :: tl)
    | .error e => .error e
termination_by r
decreasing_by
  rw [Nat.shiftRight_eq_div_pow]
  exact Nat.div_lt_self (Nat.pos_of_ne_zero h0) (Nat.one_lt_two_pow hb)

/-- the two loops of `to_bitwise_digits_le` over `u.data[..last_i]` and `u.data[last_i]` -/
def bitwiseLoop (bits mask dpb : Nat) : List Nat → Except Panic (List Nat)
  | [] => .error (.internal "index")          -- `u.data.len() - 1` underflows / `u.data[last_i]`
  | [last] => lastBits bits mask last
  | d :: ds => match bitwiseLoop bits mask dpb ds with
    | .ok tl => .ok (emitBits bits mask dpb d ++ tl)
    | .error e => .error e

/-- `to_bitwise_digits_le(u, bits)` -/
def toBitwiseDigitsLe (u : List Nat) (bits : Nat) : Except Panic (List Nat) :=
  if bits = 0 then .error .divzero            -- `big_digit::BITS / bits`
  else bitwiseLoop bits ((1 <<< bits) - 1) (BITS / bits) u

/-- the `while rbits >= bits` loop for one big digit `c`; returns (pushed digits, r, rbits).
    `bits = 0` (the Rust loop would not terminate) is excluded by the caller's guard. -/
def inexInner (bits mask c : Nat) (r rbits : Nat) : List Nat × Nat × Nat :=
  if h : bits ≤ rbits ∧ 0 < bits then
    let dig := (r &&& mask) % U8
    let r1 := r >>> bits
    let r2 := if BITS < rbits then c >>> (BITS - (rbits - bits)) else r1
    let rest := inexInner bits mask c r2 (rbits - bits)
    (dig :: rest.1, rest.2.1, rest.2.2)
  else ([], r, rbits)
termination_by rbits
decreasing_by omega

/-- `for c in &u.data { r |= *c << rbits; rbits += BITS; while … }` then `if rbits != 0 { push(r as u8) }` -/
def inexOuter (bits mask : Nat) : List Nat → Nat → Nat → List Nat
  | [], r, rbits => if rbits ≠ 0 then [r % U8] else []
  | c :: cs, r, rbits =>
    let r0 := r ||| ((c <<< rbits) % B)
    let st := inexInner bits mask c r0 (rbits + BITS)
    st.1 ++ inexOuter bits mask cs st.2.1 st.2.2

/-- `while let Some(&0) = res.last() { res.pop(); }` -/
def stripTrailingZeros (l : List Nat) : List Nat :=
  (l.reverse.dropWhile (fun d => d == 0)).reverse

/-- `to_inexact_bitwise_digits_le(u, bits)` -/
def toInexactBitwiseDigitsLe (u : List Nat) (bits : Nat) : Except Panic (List Nat) :=
  if bits = 0 ∧ u ≠ [] then .error diverge
  else .ok (stripTrailingZeros (inexOuter bits ((1 <<< bits) - 1) u 0 0))

/-! ### output: general radix -/

/-- `for _ in 0..n { res.push((r % radix) as u8); r /= radix }` -/
def emitN (radix : Nat) : Nat → Nat → List Nat
  | 0, _ => []
  | n + 1, r => ((r % radix) % U8) :: emitN radix n (r / radix)

/-- `while r != 0 { res.push((r % radix) as u8); r /= radix }` -/
def lastDigits (radix : Nat) (r : Nat) : Except Panic (List Nat) :=
  if h0 : r = 0 then .ok []
  else if h1 : radix = 0 then .error (.internal "rem by zero")
  else if h2 : radix = 1 then .error diverge
  else match lastDigits radix (r / radix) with
    | .ok tl => .ok (((r % radix) % U8) :: tl)
    | .error e => .error e
termination_by r
decreasing_by exact Nat.div_lt_self (Nat.pos_of_ne_zero h0) (by omega)

/-- `data.len()` of the normalised BigUint with value `n` -/
def nlimbs (n : Nat) : Nat := (ofNat n).length

/-- `while digits.data.len() > 1 { (q, r) = div_rem_digit(digits, base); emit power digits of r; digits = q }`
    followed by `let mut r = digits.data[0]; while r != 0 {…}`.
    (`digits.data.len() > 1` iff `B ≤ digits`: `nlimbs_gt_one_iff`.) -/
def slowLoop (radix power base : Nat) (digits : Nat) : Except Panic (List Nat) :=
  if h : B ≤ digits then
    if h0 : base = 0 then .error .divzero
    else if h1 : base = 1 then .error diverge
    else match slowLoop radix power base (digits / base) with
      | .ok tl => .ok (emitN radix power (digits % base) ++ tl)
      | .error e => .error e
  else if digits = 0 then .error (.internal "index")      -- `digits.data[0]`
  else lastDigits radix digits
termination_by digits
decreasing_by
  have hB : 0 < B := by decide
  exact Nat.div_lt_self (by omega) (by omega)

/-- `for _ in 0..big_power { (q, r) = div_rem_digit(big_r, base); big_r = q; emit power digits of r }` -/
def emitChunks (radix power base : Nat) : Nat → Nat → List Nat
  | 0, _ => []
  | k + 1, bigR => emitN radix power (bigR % base) ++ emitChunks radix power base k (bigR / base)

/-- `while big_base.data.len() < target_len { big_base = &big_base * &big_base; big_power *= 2 }`.
    Fuelled (the caller passes `BITS * target_len + 1`); exhaustion is reported as `diverge`.
    `squareLoop_spec` proves the fuel sufficient whenever `B ≤ big_base²`, which holds for every
    table entry (`base * radix > MAX` and `radix ≤ base`). -/
def squareLoop (targetLen : Nat) : Nat → Nat → Nat → Except Panic (Nat × Nat)
  | fuel, bigBase, bigPower =>
    if nlimbs bigBase < targetLen then
      match fuel with
      | 0 => .error diverge
      | f + 1 => squareLoop targetLen f (bigBase * bigBase) (bigPower * 2)
    else .ok (bigBase, bigPower)

/-- `while digits > big_base { (q, big_r) = digits.div_rem(&big_base); digits = q; … }`, then the
    remaining loops of `to_radix_digits_le` -/
def bigLoop (radix power base bigBase bigPower : Nat) (digits : Nat) : Except Panic (List Nat) :=
  if h : bigBase < digits then
    if h0 : bigBase = 0 then .error .divzero
    else if h1 : bigBase = 1 then .error diverge
    else if base = 0 then .error .divzero
    else match bigLoop radix power base bigBase bigPower (digits / bigBase) with
      | .ok tl => .ok (emitChunks radix power base bigPower (digits % bigBase) ++ tl)
      | .error e => .error e
  else slowLoop radix power base digits
termination_by digits
decreasing_by exact Nat.div_lt_self (by omega) (by omega)

/-- `to_radix_digits_le(u, radix)` (u non-zero, radix not a power of two) -/
def toRadixDigitsLe (P : Params) (u : List Nat) (radix : Nat) : Except Panic (List Nat) :=
  match getRadixBase radix with
  | .error e => .error e
  | .ok (base, power) =>
    let digits := val u
    if P.bigBase ≤ u.length then
      let targetLen := Nat.sqrt u.length
      match squareLoop targetLen (BITS * targetLen + 1) base 1 with
      | .error e => .error e
      | .ok (bigBase, bigPower) => bigLoop radix power base bigBase bigPower digits
    else slowLoop radix power base digits

/-- `convert::to_radix_le(u, radix)` (the `radix == 10` arm calls the same function) -/
def toRadixLe (P : Params) (u : List Nat) (radix : Nat) : Except Panic (List Nat) :=
  if ¬ (2 ≤ radix ∧ radix ≤ digRadixMax) then .error .radix
  else if u = [] then .ok [0]
  else if isPow2 radix then
    let bits := ilog2 radix
    if BITS % bits = 0 then toBitwiseDigitsLe u bits else toInexactBitwiseDigitsLe u bits
  else toRadixDigitsLe P u radix

/-- `BigUint::to_radix_be` -/
def toRadixBe (P : Params) (u : List Nat) (radix : Nat) : Except Panic (List Nat) :=
  match toRadixLe P u radix with
  | .ok v => .ok v.reverse
  | .error e => .error e

/-- `BigInt::to_radix_le` -/
def BigInt.toRadixLe (P : Params) (x : BigInt) (radix : Nat) : Except Panic (Sign × List Nat) :=
  match Radix.toRadixLe P x.mag radix with
  | .ok v => .ok (x.sign, v)
  | .error e => .error e

/-- `BigInt::to_radix_be` -/
def BigInt.toRadixBe (P : Params) (x : BigInt) (radix : Nat) : Except Panic (Sign × List Nat) :=
  match Radix.toRadixBe P x.mag radix with
  | .ok v => .ok (x.sign, v)
  | .error e => .error e

/-- `if *r < 10 { *r += b'0' } else { *r += b'a' - 10 }` (u8 arithmetic) -/
def asciiDigit (r : Nat) : Nat := if r < 10 then (r + 48) % U8 else (r + 87) % U8

/-- `to_str_radix_reversed(u, radix)` -/
def toStrRadixReversed (P : Params) (u : List Nat) (radix : Nat) : Except Panic (List Nat) :=
  if ¬ (2 ≤ radix ∧ radix ≤ strRadixMax) then .error .radix
  else if u = [] then .ok [48]
  else match toRadixLe P u radix with
    | .ok res => .ok (res.map asciiDigit)
    | .error e => .error e

/-- `BigUint::to_str_radix` (the bytes handed to `String::from_utf8_unchecked`) -/
def toStrRadixU (P : Params) (u : List Nat) (radix : Nat) : Except Panic (List Nat) :=
  match toStrRadixReversed P u radix with
  | .ok v => .ok v.reverse
  | .error e => .error e

/-- `BigInt::to_str_radix` -/
def toStrRadixI (P : Params) (x : BigInt) (radix : Nat) : Except Panic (List Nat) :=
  match toStrRadixReversed P x.mag radix with
  | .ok v => .ok ((if x.sign = .minus then v ++ [45] else v).reverse)
  | .error e => .error e

/-! ### formatting: the `fmt` impls and `Formatter::pad_integral` -/

inductive FmtKind where
  | display | binary | octal | lowerHex | upperHex | debug
  deriving DecidableEq, Repr, Inhabited

inductive Align where
  | left | right | center | unknown
  deriving DecidableEq, Repr, Inhabited

/-- the fields of `core::fmt::Formatter` that `pad_integral` reads -/
structure FmtSpec where
  /-- UTF-8 bytes of the fill character -/
  fill : List Nat := [32]
  align : Align := .unknown
  signPlus : Bool := false
  alternate : Bool := false
  zeroPad : Bool := false
  width : Option Nat := none
  deriving Repr, Inhabited

/-- `make_ascii_uppercase` -/
def asciiUpper (b : Nat) : Nat := if 97 ≤ b ∧ b ≤ 122 then b - 32 else b

/-- radix, prefix and upper-casing of each `fmt` impl (Debug forwards to Display) -/
def fmtRadix : FmtKind → Nat
  | .display | .debug => 10 | .binary => 2 | .octal => 8 | .lowerHex | .upperHex => 16

def fmtPrefix : FmtKind → List Nat
  | .display | .debug => [] | .binary => [48, 98] | .octal => [48, 111] | .lowerHex | .upperHex => [48, 120]

/-- the triple `(is_nonnegative, prefix, buf)` that the `fmt` impl hands to `pad_integral` -/
def fmtTriple (P : Params) (k : FmtKind) (x : BigInt) : Except Panic (Bool × List Nat × List Nat) :=
  match toStrRadixU P x.mag (fmtRadix k) with
  | .ok s => .ok (decide (x.sign ≠ .minus), fmtPrefix k, if k = .upperHex then s.map asciiUpper else s)
  | .error e => .error e

/-- `Formatter::padding(n, default)`: (pre, post) fill counts -/
def padSplit (a : Align) (dflt : Align) (n : Nat) : Nat × Nat :=
  match (if a = .unknown then dflt else a) with
  | .left => (0, n)
  | .right | .unknown => (n, 0)
  | .center => (n / 2, (n + 1) / 2)

def fillN (fill : List Nat) (n : Nat) : List Nat := (List.replicate n fill).flatten

/-- `Formatter::pad_integral(is_nonnegative, prefix, buf)`: the bytes written -/
def padIntegral (f : FmtSpec) (nonneg : Bool) (pfx buf : List Nat) : List Nat :=
  let sign : List Nat := if ¬ nonneg then [45] else if f.signPlus then [43] else []
  let pfx' : List Nat := if f.alternate then pfx else []
  let width := buf.length + sign.length + pfx'.length
  match f.width with
  | none => sign ++ pfx' ++ buf
  | some min =>
    if min ≤ width then sign ++ pfx' ++ buf
    else if f.zeroPad then
      let p := padSplit .right .right (min - width)     -- fill '0', align Right
      sign ++ pfx' ++ fillN [48] p.1 ++ buf ++ fillN [48] p.2
    else
      let p := padSplit f.align .right (min - width)
      fillN f.fill p.1 ++ sign ++ pfx' ++ buf ++ fillN f.fill p.2

/-- `format!(spec, x)` for a BigInt (a BigUint is the BigInt with sign Plus/NoSign) -/
def format (P : Params) (k : FmtKind) (f : FmtSpec) (x : BigInt) : Except Panic (List Nat) :=
  match fmtTriple P k x with
  | .ok t => .ok (padIntegral f t.1 t.2.1 t.2.2)
  | .error e => .error e

/-- the fixed table of format strings shared with harness/src/c06.rs (index = format id) -/
def fmtTable : List (FmtKind × FmtSpec) :=
  [ (.display, {}),                                                        -- 0  {}
    (.binary, {}),                                                         -- 1  {:b}
    (.octal, {}),                                                          -- 2  {:o}
    (.lowerHex, {}),                                                       -- 3  {:x}
    (.upperHex, {}),                                                       -- 4  {:X}
    (.debug, {}),                                                          -- 5  {:?}
    (.lowerHex, { alternate := true }),                                    -- 6  {:#x}
    (.upperHex, { alternate := true }),                                    -- 7  {:#X}
    (.binary, { alternate := true }),                                      -- 8  {:#b}
    (.octal, { alternate := true }),                                       -- 9  {:#o}
    (.display, { signPlus := true }),                                      -- 10 {:+}
    (.display, { zeroPad := true, width := some 8 }),                      -- 11 {:08}
    (.display, { align := .right, width := some 12 }),                     -- 12 {:>12}
    (.display, { align := .center, width := some 12 }),                    -- 13 {:^12}
    (.display, { fill := [42], align := .left, width := some 12 }),        -- 14 {:*<12}
    (.lowerHex, { signPlus := true, alternate := true, zeroPad := true, width := some 12 }), -- 15 {:+#012x}
    (.display, { width := some 12 }),                                      -- 16 {:12}
    (.display, { align := .left, width := some 12 }),                      -- 17 {:<12}
    (.display, { signPlus := true, zeroPad := true, width := some 8 }),    -- 18 {:+08}
    (.display, { fill := [35], align := .center, width := some 13 }),      -- 19 {:#^13}   (fill '#')
    (.binary, { alternate := true, zeroPad := true, width := some 20 }),   -- 20 {:#020b}
    (.octal, { fill := [43], align := .right, width := some 15 }),         -- 21 {:+>15o}  (fill '+')
    (.upperHex, { alternate := true, zeroPad := true, width := some 10 }), -- 22 {:#010X}
    (.display, { fill := [48], align := .left, width := some 10 }),        -- 23 {:0<10}   (fill '0')
    (.display, { align := .left, zeroPad := true, width := some 10 }),     -- 24 {:<010}
    (.display, { width := some 1 }),                                       -- 25 {:1}
    (.display, { width := some 40 }),                                      -- 26 {:40}
    (.lowerHex, { fill := [45], align := .center, signPlus := true, alternate := true, width := some 21 }), -- 27 {:-^+#21x}
    (.debug, { alternate := true, width := some 9 }),                      -- 28 {:#9?}
    (.debug, { zeroPad := true, width := some 8 }),                        -- 29 {:08?}
    (.display, { fill := [226, 134, 146], align := .center, width := some 9 }), -- 30 {:→^9}
    (.binary, { signPlus := true, zeroPad := true, width := some 70 }),    -- 31 {:+070b}
    (.display, { fill := [95], align := .right, signPlus := true, width := some 6 }), -- 32 {:_>+6}
    (.upperHex, { align := .center, signPlus := true, alternate := true, zeroPad := true, width := some 12 }), -- 33 {:^+#012X}
    (.octal, { align := .left, alternate := true, width := some 7 }),      -- 34 {:<#7o}
    (.display, { zeroPad := true, width := some 3 }),                      -- 35 {:03}
    (.display, { width := some 10 }),                                      -- 36 {:10.3}   (precision ignored)
    (.display, {}),                                                        -- 37 {:.0}
    (.debug, {}),                                                          -- 38 {:x?}     (Debug forwards to Display)
    (.lowerHex, { width := some 33 }) ]                                    -- 39 {:33x}

/-! ### import-free specification side (used by the driver's oracle and by NB.Props.C06) -/

namespace Spec

/-- value of an ASCII digit/letter, `none` for any other byte -/
def digitVal? (b : Nat) : Option Nat :=
  if 48 ≤ b ∧ b ≤ 57 then some (b - 48)
  else if 97 ≤ b ∧ b ≤ 122 then some (b - 87)
  else if 65 ≤ b ∧ b ≤ 90 then some (b - 55)
  else none

/-- `b` is a digit of the radix (either letter case) -/
def isDigit (radix b : Nat) : Bool :=
  match digitVal? b with
  | some d => decide (d < radix)
  | none => false

/-- the unsigned body of the grammar: one digit, then digits or `_` -/
def body (radix : Nat) : List Nat → Bool
  | [] => false
  | b :: rest => isDigit radix b && rest.all (fun c => c == 95 || isDigit radix c)

/-- well-formed BigUint text: optional `+`, then the body -/
def wellFormedU (radix : Nat) (s : List Nat) : Bool :=
  match s with
  | 43 :: t => body radix t
  | _ => body radix s

/-- well-formed BigInt text: optional `+` or `-`, then the body -/
def wellFormedI (radix : Nat) (s : List Nat) : Bool :=
  match s with
  | 43 :: t => body radix t
  | 45 :: t => body radix t
  | _ => body radix s

/-- Horner value of big-endian digit values -/
def beValue (radix : Nat) (ds : List Nat) : Nat := ds.foldl (fun acc d => acc * radix + d) 0

/-- the natural number denoted by a body: `_` skipped, digits big-endian -/
def denoteBody (radix : Nat) (s : List Nat) : Nat :=
  beValue radix ((s.filter (fun b => b != 95)).map (fun b => (digitVal? b).getD 0))

/-- magnitude denoted by a (well-formed) text: the sign byte, if any, is dropped -/
def denoteMag (radix : Nat) (s : List Nat) : Nat :=
  match s with
  | 43 :: t => denoteBody radix t
  | 45 :: t => denoteBody radix t
  | _ => denoteBody radix s

/-- the integer denoted by a (well-formed) BigInt text -/
def denoteInt (radix : Nat) (s : List Nat) : Int :=
  match s with
  | 45 :: t => - (denoteBody radix t : Int)
  | _ => (denoteMag radix s : Int)

/-- the error kind of an ill-formed text: `Empty` iff nothing is left after one sign byte -/
def errKindU (s : List Nat) : ParseErr :=
  if s = [] ∨ s = [43] then .empty else .invalid

def errKindI (s : List Nat) : ParseErr :=
  if s = [] ∨ s = [43] ∨ s = [45] then .empty else .invalid

/-- specification of `BigUint::from_str_radix` for a radix in range -/
def parseU (radix : Nat) (s : List Nat) : Except ParseErr (List Nat) :=
  if wellFormedU radix s then .ok (ofNat (denoteMag radix s)) else .error (errKindU s)

/-- specification of `BigInt::from_str_radix` for a radix in range -/
def parseI (radix : Nat) (s : List Nat) : Except ParseErr BigInt :=
  if wellFormedI radix s then .ok (BigInt.ofInt (denoteInt radix s)) else .error (errKindI s)

end Spec

end NB.Radix
