/-
  C05, layer link — modpow / modinv with every BigUint operator at DIGIT level.

  NB.Model.ModPowD mirrors `plain_modpow`, `modpow` (src/biguint/power.rs), the operator steps of `monty_modpow`
  (`x %= m`, `rr = (1 << 2·64·n) % m`, the final `normalize / >= / -= / >= / %= / normalize`; src/biguint/monty.rs),
  `BigUint::modinv` (src/biguint.rs) and the sign placement of `BigInt::modpow` / `BigInt::modinv`
  (`&modulus.data - result`; src/bigint/power.rs, src/bigint.rs) on digit vectors, calling the digit-level models
  of the operators (`Mul.mulRef`, `Mul.mulAssign`, `remRef`, `divRemRef`, `subAssign`, `subRefVal`, `addRef`,
  `cmpSlice`, `C07.biguintShl`, `normalize`) and propagating each of their panics.

  Theorems (all fully proved, nothing is `_partial`):
    refinement   `plain_modpowD_refines`, `monty_modpow_core_decomposition`, `monty_modpowD_refines`, `modpowD_refines`, `modinvD_refines`,
                 `bigint_modpowD_refines`, `bigint_modinvD_refines` — digit level = value level (NB.Model.ModPow /
                 NB.montyModpow), panics included, for canonical inputs;
    transferred  `plain_modpowD_spec`, `monty_modpowD_spec`, `modpowD_spec`, `modinvD_spec`, `bigint_modpowD_spec`,
                 `bigint_modinvD_spec` (+ the zero-modulus panics) — the C05 specs hold for the digit-level model.
  Consequently no operator panic (`underflow` of `-`/`-=`, `divzero` of `%`/`div_rem`, `capacity`/`negshift` of `<<`,
  the internal assertions of `mac3`/`sub2rev`/Knuth division), no exhausted loop fuel of `modinvLoopD` (fuel
  `64·(len r0 + len r1) + 1`: the product `r0·r1` halves per Euclid step, `euclid_product_halves`) and no `u64`
  overflow of the shift amount is reachable for canonical inputs.

  Hypotheses beyond canonicity: `P.ValidModPowD` = window width valid and equal to the squarings per window (C05) ∧ the multiplication thresholds valid (C02),
  discharged for the extracted parameters by `gen_params_valid_modpowD`; and, on the odd-modulus path only,
  `m.length < 2^57`, i.e. the `u64` product `2 * num_words * 64` of `monty_modpow` does not overflow (a modulus of
  2^57 digits needs 2^60 bytes).
-/
import NB.Lemmas.ModPowD
import NB.Props.C05
namespace NB

/-- what the operator theorems used by the digit-level model need: C05's window width and C02's thresholds
    (C01, C03, C07 have no parameter side conditions for the operators used here) -/
def Params.ValidModPowD (P : Params) : Prop := P.ValidMonty ∧ P.ValidMul
instance (P : Params) : Decidable P.ValidModPowD := by unfold Params.ValidModPowD; infer_instance

/-- proof obligation over the generated parameters (re-elaborated on every run) -/
theorem gen_params_valid_modpowD : NB.Gen.P.ValidModPowD := ⟨gen_params_valid_monty, gen_params_valid_mul⟩

theorem monty_shift_fits {n : Nat} (h : n < 2 ^ 57) : 2 * n * BITS < C07.U64_RANGE := by
  unfold BITS C07.U64_RANGE B; omega

/-! ## `plain_modpow` (even moduli) -/

/-- digit level = value level, including every panic outcome -/
theorem plain_modpowD_refines (P : Params) (hP : P.ValidMul) (b e m : List Nat) (hb : Canon b) (hm : Canon m) :
    plainModpowD P b e m = (plainModpow (val b) e (val m)).map ofNat :=
  plainModpowD_refines P hP b e m hb hm

theorem plain_modpowD_spec (P : Params) (hP : P.ValidMul) (b e m : List Nat) (hb : Canon b) (he : Canon e)
    (hm : Canon m) (hm0 : val m ≠ 0) :
    plainModpowD P b e m = .ok (ofNat (if val e = 0 then 1 else val b ^ val e % val m)) := by
  rw [plainModpowD_refines P hP b e m hb hm, plain_modpow_spec (val b) e (val m) he hm0]; rfl

theorem plain_modpowD_spec_ge_two (P : Params) (hP : P.ValidMul) (b e m : List Nat) (hb : Canon b)
    (he : Canon e) (hm : Canon m) (hm2 : 2 ≤ val m) :
    plainModpowD P b e m = .ok (ofNat (val b ^ val e % val m)) := by
  rw [plainModpowD_refines P hP b e m hb hm, plain_modpow_spec_ge_two (val b) e (val m) he hm2]; rfl

theorem plain_modpowD_zero_mod (P : Params) (b e : List Nat) : plainModpowD P b e [] = .error .zeromod := by
  simp [plainModpowD]

/-! ## `monty_modpow` (odd moduli) -/

/-- `montyCore` (shared by the digit-level model) is literally the middle of the value-level `montyModpow`:
    for ALL arguments, without hypotheses, `montyModpow` = value-level preparation of `x` and `rr`, then
    `montyCore`, then the value-level final reduction -/
theorem monty_modpow_core_decomposition (P : Params) (x y : List Nat) (m0 : Nat) (mt : List Nat) :
    montyModpow P x y (m0 :: mt) =
      if m0 &&& 1 ≠ 1 then .error (.internal "monty_modpow: assert odd") else
      match invModAlt m0 with
      | .error e => .error e
      | .ok k =>
        let m := m0 :: mt
        let n := m.length
        let x := if x.length > n then ofNat (val x % val m) else x
        let x := if x.length < n then padTo x n else x
        let rr := ofNat (2 ^ (2 * n * BITS) % val m)
        let rr := if rr.length < n then padTo rr n else rr
        match montyCore P x rr m k n y with
        | .error e => .error e
        | .ok zz =>
          let v := val zz
          let vm := val m
          let v := if v ≥ vm then
              let v := v - vm
              if v ≥ vm then v % vm else v
            else v
          .ok (ofNat v) :=
  montyModpow_eq_core P x y m0 mt

theorem monty_modpowD_spec (P : Params) (hP : P.ValidMonty) (x y m : List Nat) (m0 : Nat) (mt : List Nat)
    (hm : m = m0 :: mt) (hodd : m0 % 2 = 1) (hx : Canon x) (hy : DigitsOk y) (hmc : Canon m)
    (hsz : m.length < 2 ^ 57) :
    montyModpowD P x y m = .ok (ofNat (val x ^ val y % val m)) :=
  montyModpowD_spec P hP.1 hP.2.1 hP.2.2.2 x y m m0 mt hm hodd hx hy hmc (monty_shift_fits hsz)

/-- the digit-level operator steps (`%=`, `<<`, `%`, `>=`, `-=`) compute what the value-level steps of
    `NB.montyModpow` compute -/
theorem monty_modpowD_refines (P : Params) (hP : P.ValidMonty) (x y m : List Nat) (m0 : Nat) (mt : List Nat)
    (hm : m = m0 :: mt) (hodd : m0 % 2 = 1) (hx : Canon x) (hy : DigitsOk y) (hmc : Canon m)
    (hsz : m.length < 2 ^ 57) :
    montyModpowD P x y m = montyModpow P x y m := by
  rw [monty_modpowD_spec P hP x y m m0 mt hm hodd hx hy hmc hsz,
    monty_modpow_spec P hP x y m m0 mt hm hodd hx.1 hy hmc.1]

/-! ## `BigUint::modpow` -/

theorem modpowD_zero_mod (P : Params) (b e : List Nat) : modpowD P b e [] = .error .zeromod := by
  simp [modpowD]

/-- **`BigUint::modpow` at digit level**: for every non-zero canonical modulus — odd (Montgomery core with
    digit-level preparation and final reduction) or even (square-and-multiply with digit-level `*`, `%`) — the
    result is the canonical representation of `b^e mod m`; no operator panics. -/
theorem modpowD_spec (P : Params) (hP : P.ValidModPowD) (b e m : List Nat) (hb : Canon b) (he : Canon e)
    (hm : Canon m) (hm0 : val m ≠ 0) (hsz : m.length < 2 ^ 57) :
    modpowD P b e m = .ok (ofNat (val b ^ val e % val m)) := by
  unfold modpowD
  cases m with
  | nil => simp [val] at hm0
  | cons m0 mt =>
    simp only [reduceCtorEq, if_false, isOddU]
    by_cases hodd : m0 % 2 = 1
    · simp only [hodd, decide_true, if_true]
      exact monty_modpowD_spec P hP.1 b e (m0 :: mt) m0 mt rfl hodd hb he.1 hm hsz
    · simp only [hodd, decide_false, Bool.false_eq_true, if_false]
      have hev : val (m0 :: mt) % 2 = 0 := by
        simp only [val]
        have : B * val mt = 2 * (9223372036854775808 * val mt) := by unfold B; ring
        rw [this]; omega
      exact plain_modpowD_spec_ge_two P hP.2 b e _ hb he hm (by omega)

/-- digit level = value level for the public `modpow` -/
theorem modpowD_refines (P : Params) (hP : P.ValidModPowD) (b e m : List Nat) (hb : Canon b) (he : Canon e)
    (hm : Canon m) (hsz : m.length < 2 ^ 57) :
    modpowD P b e m = modpowU P b e m := by
  by_cases hm0 : val m = 0
  · have : m = [] := canon_val_zero hm hm0
    subst this; rw [modpowD_zero_mod, modpow_zero_mod]
  · rw [modpowD_spec P hP b e m hb he hm hm0 hsz, modpow_spec P hP.1 b e m hb he hm hm0]

/-! ## `BigUint::modinv` -/

/-- digit level = value level, including every panic outcome; in particular the loop fuel never runs out -/
theorem modinvD_refines (P : Params) (hP : P.ValidMul) (a m : List Nat) (ha : Canon a) (hm : Canon m) :
    modinvD P a m = (modinvU (val a) (val m)).map (Option.map ofNat) :=
  modinvD_eq P hP a m ha hm

/-- **`BigUint::modinv` at digit level**: `Some x` exactly when `gcd(a, m) = 1`; then `x` is canonical, `x < m`
    and `a·x ≡ 1 (mod m)`; never panics for `m ≠ 0`. -/
theorem modinvD_spec (P : Params) (hP : P.ValidMul) (a m : List Nat) (ha : Canon a) (hm : Canon m)
    (hm0 : val m ≠ 0) :
    ∃ r, modinvD P a m = .ok r ∧ (r.isSome ↔ Nat.gcd (val a) (val m) = 1) ∧
      ∀ x, r = some x → Canon x ∧ val x < val m ∧ val a * val x % val m = 1 % val m := by
  obtain ⟨r, h1, h2, h3⟩ := modinv_spec (val a) (val m) hm0
  refine ⟨r.map ofNat, ?_, ?_, ?_⟩
  · rw [modinvD_refines P hP a m ha hm, h1]; rfl
  · rw [Option.isSome_map]; exact h2
  · intro x hx
    cases r with
    | none => simp at hx
    | some v =>
      simp only [Option.map, Option.some.injEq] at hx
      subst hx
      rw [ofNat_val]
      exact ⟨ofNat_canon v, h3 v rfl⟩

theorem modinvD_zero_mod (P : Params) (a : List Nat) : modinvD P a [] = .error .zeromod := by
  simp [modinvD]

/-! ## BigInt wrappers -/

theorem bigint_modpowD_refines (P : Params) (hP : P.ValidModPowD) (b e m : BigInt) (hb : b.Canon) (he : e.Canon)
    (hm : m.Canon) (hsz : m.mag.length < 2 ^ 57) :
    BigInt.modpowD P b e m = BigInt.modpow P b e m := by
  apply bigint_modpowD_of P b e m hm
  intro hne
  have h0 : val m.mag ≠ 0 := Nat.pos_iff_ne_zero.mp (canon_val_pos hm.1 hne)
  exact ⟨_, modpowD_spec P hP b.mag e.mag m.mag hb.1 he.1 hm.1 h0 hsz,
    modpow_spec P hP.1 b.mag e.mag m.mag hb.1 he.1 hm.1 h0⟩

/-- **`BigInt::modpow` at digit level** -/
theorem bigint_modpowD_spec (P : Params) (hP : P.ValidModPowD) (b e m : BigInt) (hb : b.Canon) (he : e.Canon)
    (hm : m.Canon) (hsz : m.mag.length < 2 ^ 57) :
    BigInt.modpowD P b e m =
      if e.val < 0 then .error .negexp
      else if m.val = 0 then .error .zeromod
      else .ok (BigInt.ofInt (Int.fmod (b.val ^ e.val.toNat) m.val)) := by
  rw [bigint_modpowD_refines P hP b e m hb he hm hsz, bigint_modpow_spec P hP.1 b e m hb he hm]

theorem bigint_modinvD_refines (P : Params) (hP : P.ValidMul) (a m : BigInt) (ha : a.Canon) (hm : m.Canon) :
    BigInt.modinvD P a m = BigInt.modinv a m :=
  bigint_modinvD_eq P hP a m ha.1 hm.1

/-- **`BigInt::modinv` at digit level** -/
theorem bigint_modinvD_spec (P : Params) (hP : P.ValidMul) (a m : BigInt) (ha : a.Canon) (hm : m.Canon)
    (hm0 : m.val ≠ 0) :
    ∃ r, BigInt.modinvD P a m = .ok r ∧ (r.isSome ↔ Int.gcd a.val m.val = 1) ∧
      ∀ y, r = some y → y.Canon ∧
        (if 0 < m.val then 0 ≤ y.val ∧ y.val < m.val else m.val < y.val ∧ y.val ≤ 0) ∧
        m.val ∣ a.val * y.val - 1 := by
  rw [bigint_modinvD_refines P hP a m ha hm]
  exact bigint_modinv_spec a m ha hm hm0

theorem bigint_modinvD_zero_mod (P : Params) (hP : P.ValidMul) (a m : BigInt) (ha : a.Canon) (hm : m.Canon)
    (hm0 : m.val = 0) :
    BigInt.modinvD P a m = .error .zeromod := by
  rw [bigint_modinvD_refines P hP a m ha hm]
  exact bigint_modinv_zero_mod a m hm hm0

/-! ## non-vacuity: the hypotheses are satisfiable on non-trivial inputs, and the digit-level model runs -/

example : NB.Gen.P.ValidModPowD := gen_params_valid_modpowD
example : Canon [B - 1, B - 1, 1] ∧ val [B - 1, B - 1, 1] ≠ 0 ∧ [B - 1, B - 1, 1].length < 2 ^ 57 := by decide
example : modpowD NB.Gen.P [5, 7] [3] [B - 1, 2] = .ok (ofNat ((5 + 7 * B) ^ 3 % (B - 1 + 2 * B))) :=
  modpowD_spec _ gen_params_valid_modpowD _ _ _ (by decide) (by decide) (by decide) (by decide) (by decide)
example : ∃ r, modinvD NB.Gen.P [3, 1] [B - 1, 5] = .ok r :=
  let ⟨r, h, _⟩ := modinvD_spec NB.Gen.P gen_params_valid_mul [3, 1] [B - 1, 5] (by decide) (by decide) (by decide)
  ⟨r, h⟩
example : modpowD NB.Gen.P [5, 7] [3] [B - 2, 2] = .ok (ofNat ((5 + 7 * B) ^ 3 % (B - 2 + 2 * B))) :=
  modpowD_spec _ gen_params_valid_modpowD _ _ _ (by decide) (by decide) (by decide) (by decide) (by decide)

end NB
