/- driver handlers for stream C19 (sign, negation and identity helpers) -/
import NB.Wire
import NB.Model.Core
import NB.Model.AsmParams
namespace NB.Drv.C19
open NB NB.Wire NB.Core

def P := NB.Gen.P

def parseSignS (s : String) : Option Sign :=
  match s.toList with
  | [c] => parseSign c
  | _ => none

def signOfInt (v : Int) : Sign := Sign.ofInt v

def okI (x : BigInt) : String := "ok " ++ showBigInt x
def okU (x : List Nat) : String := "ok " ++ showLimbs x
def optU := showOpt showLimbs
def optI := showOpt showBigInt
def oI (v : Int) : String := okI (BigInt.ofInt v)
def oU (v : Nat) : String := okU (ofNat v)

def signMulInt (s t : Sign) : Sign := signOfInt (Sign.toInt s * Sign.toInt t)

/-- ops whose name ends in `@` carry a predecessor value as first argument: the harness first
    builds the predecessor and then `clone_from`s the subject into it (larger capacity, reused
    buffer); capacity is not modelled, so the model drops it (`clone_from` = copy) -/
def stripPred (op : String) (args : List String) : String × List String :=
  if op.endsWith "@" then ((op.dropEnd 1).toString, args.drop 1) else (op, args)

def handle1 (op : String) (args : List String) : Option (String × String) :=
  match op, args with
  | "i.neg", [x] => do
    let x ← parseBigInt x
    pure (okI (BigInt.negVal x), oI (-x.val))
  | "i.neg_ref", [x] => do
    let x ← parseBigInt x
    pure (okI (BigInt.negRef x), oI (-x.val))
  | "i.abs", [x] => do
    let x ← parseBigInt x
    pure (okI (BigInt.abs x), oI (x.val.natAbs : Int))
  | "i.signum", [x] => do
    let x ← parseBigInt x
    pure (okI (BigInt.signum x), oI (Int.sign x.val))
  | "i.is_positive", [x] => do
    let x ← parseBigInt x
    pure (showBool (BigInt.isPositive x), showBool (decide (x.val > 0)))
  | "i.is_negative", [x] => do
    let x ← parseBigInt x
    pure (showBool (BigInt.isNegative x), showBool (decide (x.val < 0)))
  | "i.sign", [x] => do
    let x ← parseBigInt x
    pure (showSign (BigInt.getSign x), showSign (signOfInt x.val))
  | "i.magnitude", [x] => do
    let x ← parseBigInt x
    pure (okU (BigInt.magnitude x), oU x.val.natAbs)
  | "i.abs_sub", [x, y] => do
    let x ← parseBigInt x; let y ← parseBigInt y
    pure (showExcept showBigInt (BigInt.absSub P x y), oI (max (x.val - y.val) 0))
  | "i.into_parts", [x] => do
    let x ← parseBigInt x
    let p := BigInt.intoParts x
    pure (showSign p.1 ++ " " ++ showLimbs p.2, showSign (signOfInt x.val) ++ " " ++ showLimbs (ofNat x.val.natAbs))
  | "i.from_biguint", [s, m] => do
    let s ← parseSignS s; let m ← parseLimbs m
    pure (okI (BigInt.fromBiguint s m), oI (Sign.toInt s * (val m : Int)))
  -- into_parts ∘ from_biguint on an arbitrary (also inconsistent) pair
  | "i.parts_of", [s, m] => do
    let s ← parseSignS s; let m ← parseLimbs m
    let p := BigInt.intoParts (BigInt.fromBiguint s m)
    let v : Int := Sign.toInt s * (val m : Int)
    pure (showSign p.1 ++ " " ++ showLimbs p.2, showSign (signOfInt v) ++ " " ++ showLimbs (ofNat v.natAbs))
  -- from_biguint ∘ into_parts
  | "i.roundtrip", [x] => do
    let x ← parseBigInt x
    let p := BigInt.intoParts x
    pure (okI (BigInt.fromBiguint p.1 p.2), oI x.val)
  | "i.to_biguint", [x] | "i.to_biguint_trait", [x] | "i.try_from_ref", [x] => do
    let x ← parseBigInt x
    pure (optU (BigInt.toBiguint x), optU (if x.val < 0 then none else some (ofNat x.val.natAbs)))
  | "i.try_into", [x] => do
    let x ← parseBigInt x
    pure (optU (BigInt.tryIntoBiguint x), optU (if x.val < 0 then none else some (ofNat x.val.natAbs)))
  | "i.to_bigint", [x] => do
    let x ← parseBigInt x
    pure (optI (BigInt.toBigint x), optI (some (BigInt.ofInt x.val)))
  | "u.to_bigint", [a] => do
    let a ← parseLimbs a
    pure (optI (BigUint.toBigint a), optI (some (BigInt.ofInt (val a))))
  | "u.to_biguint", [a] => do
    let a ← parseLimbs a
    pure (optU (BigUint.toBiguint a), optU (some (ofNat (val a))))
  | "i.from_u", [a] => do
    let a ← parseLimbs a
    pure (okI (Core.BigInt.fromU a), oI (val a))
  | "u.zero", [] | "u.const_zero", [] => pure (okU BigUint.zero, oU 0)
  | "u.default", [] => pure (okU BigUint.default, oU 0)
  | "u.one", [] => pure (okU BigUint.one, oU 1)
  | "i.zero", [] | "i.const_zero", [] => pure (okI BigInt.zero, oI 0)
  | "i.default", [] => pure (okI BigInt.default, oI 0)
  | "i.one", [] => pure (okI BigInt.one, oI 1)
  | "u.is_zero", [a] => do
    let a ← parseLimbs a
    pure (showBool (BigUint.isZero a), showBool (val a == 0))
  | "u.is_one", [a] => do
    let a ← parseLimbs a
    pure (showBool (BigUint.isOne a), showBool (val a == 1))
  | "i.is_zero", [x] => do
    let x ← parseBigInt x
    pure (showBool (Core.BigInt.isZero x), showBool (x.val == 0))
  | "i.is_one", [x] => do
    let x ← parseBigInt x
    pure (showBool (BigInt.isOne x), showBool (x.val == 1))
  | "u.set_zero", [a] => do
    let a ← parseLimbs a
    pure (okU (BigUint.setZero a), oU 0)
  | "u.set_one", [a] => do
    let a ← parseLimbs a
    pure (okU (BigUint.setOne a), oU 1)
  | "i.set_zero", [x] => do
    let x ← parseBigInt x
    pure (okI (BigInt.setZero x), oI 0)
  | "i.set_one", [x] => do
    let x ← parseBigInt x
    pure (okI (BigInt.setOne x), oI 1)
  -- api-coverage: inherent `BigUint::ZERO` / `BigInt::ZERO`
  | "u.inherent_zero", [] => pure (okU BigUint.zero, oU 0)
  | "i.inherent_zero", [] => pure (okI BigInt.zero, oI 0)
  | "sign.neg", [s] => do
    let s ← parseSignS s
    pure (showSign s.neg, showSign (signOfInt (- Sign.toInt s)))
  | "sign.mul", [s, t] => do
    let s ← parseSignS s; let t ← parseSignS t
    pure (showSign (s.mul t), showSign (signMulInt s t))
  | _, _ => none

def handle (op : String) (args : List String) : Option (String × String) :=
  let (op, args) := stripPred op args
  handle1 op args

end NB.Drv.C19
