/- the work count of the Cost model never exceeds the schoolbook count -/
import NB.Lemmas.Toom3
import NB.Model.Cost
namespace NB.Mul

/-- parameter conditions under which every regime of `mac3` costs at most the schoolbook count
    (Karatsuba must split in halves; the Toom-3 split is thirds; both thresholds are large
    enough that three half-size / five third-size products beat the full rectangle) -/
def _root_.NB.Params.ValidCost (P : Params) : Prop :=
  P.karaDen = 2 ∧ P.halfMul ≤ 2 ∧ P.toomDen = 3 ∧ P.toomAdd = 1 ∧ 6 ≤ P.tSchool ∧ 80 ≤ P.tKara

instance (P : Params) : Decidable P.ValidCost := by unfold Params.ValidCost; infer_instance

/-- `rec` never counts more than the schoolbook rectangle -/
def CostBound (rec : Cost.CostFn) : Prop :=
  ∀ b c, DigitsOk b → DigitsOk c → rec b c ≤ b.length * c.length

theorem kara_cost_arith (lx ly : Nat) (h7 : 7 ≤ lx) (hxy : lx ≤ ly) (hy : ly < 2 * lx) :
    (lx - lx / 2) * (ly - lx / 2) + (lx / 2) * (lx / 2) + (lx - lx / 2) * (ly - lx / 2) ≤ lx * ly := by
  have h2 := Nat.div_add_mod lx 2
  have h3 : lx % 2 < 2 := Nat.mod_lt _ (by omega)
  generalize lx / 2 = b at *
  obtain ⟨y', rfl⟩ : ∃ y', ly = b + y' := ⟨ly - b, by omega⟩
  rcases (show lx % 2 = 0 ∨ lx % 2 = 1 by omega) with h | h
  · have : lx = 2 * b := by omega
    subst this
    have e1 : 2 * b - b = b := by omega
    have e2 : b + y' - b = y' := by omega
    rw [e1, e2]; nlinarith
  · have : lx = 2 * b + 1 := by omega
    subst this
    have e1 : 2 * b + 1 - b = b + 1 := by omega
    have e2 : b + y' - b = y' := by omega
    rw [e1, e2]
    have hb : 3 ≤ b := by omega
    have hy' : y' ≤ 3 * b + 1 := by omega
    nlinarith

theorem toom_cost_arith (lx ly : Nat) (hxy : lx ≤ ly) (hy : ly < 2 * lx) (hk : 81 ≤ lx) :
    (ly / 3 + 1) * (ly / 3 + 1) + (lx - 2 * (ly / 3 + 1)) * (ly - 2 * (ly / 3 + 1))
      + 3 * ((ly / 3 + 1 + 1) * (ly / 3 + 1 + 1)) ≤ lx * ly := by
  have h2 := Nat.div_add_mod ly 3
  have h3 : ly % 3 < 3 := Nat.mod_lt _ (by omega)
  generalize ly / 3 = q at *
  generalize ly % 3 = r at *
  have hq : 27 ≤ q := by omega
  subst h2
  by_cases hA : 2 * (q + 1) ≤ lx
  · obtain ⟨d, rfl⟩ : ∃ d, lx = 2 * (q + 1) + d := ⟨lx - 2 * (q + 1), by omega⟩
    obtain ⟨s, rfl⟩ : ∃ s, q = s + 2 := ⟨q - 2, by omega⟩
    have e1 : 2 * (s + 2 + 1) + d - 2 * (s + 2 + 1) = d := by omega
    have e2 : 3 * (s + 2) + r - 2 * (s + 2 + 1) = s + r := by omega
    rw [e1, e2]
    nlinarith
  · have e1 : lx - 2 * (q + 1) = 0 := by omega
    rw [e1, Nat.zero_mul, Nat.add_zero]
    have h1 : 3 * q + r + 1 ≤ 2 * lx := by omega
    have h4 : (3 * q + 1) * (3 * q) ≤ 2 * lx * (3 * q + r) :=
      Nat.mul_le_mul (by omega) (by omega)
    nlinarith

theorem cost_mulMag_le {rec : Cost.CostFn} (hrec : CostBound rec) (a b : List Nat) (ha : DigitsOk a)
    (hb : DigitsOk b) : Cost.mulMag rec a b ≤ a.length * b.length := by
  rcases a with _ | ⟨a1, _ | ⟨a2, at'⟩⟩ <;> rcases b with _ | ⟨b1, _ | ⟨b2, bt⟩⟩ <;>
    simp only [Cost.mulMag, Nat.zero_le]
  exact hrec _ _ ha hb

theorem cost_mulInt_le {rec : Cost.CostFn} (hrec : CostBound rec) (a b : Int) {la lb : Nat}
    (ha : (ofNat a.natAbs).length ≤ la) (hb : (ofNat b.natAbs).length ≤ lb) :
    Cost.mulInt rec a b ≤ la * lb :=
  le_trans (cost_mulMag_le hrec _ _ (ofNat_digitsOk _) (ofNat_digitsOk _)) (Nat.mul_le_mul ha hb)

theorem cost_karatsuba_le (P : Params) (hC : P.ValidCost) {rec : Cost.CostFn} (hrec : CostBound rec)
    (x y : List Nat) (hx : DigitsOk x) (hy : DigitsOk y) (hxy : x.length ≤ y.length)
    (hxs : P.tSchool < x.length) (hh : ¬ x.length * P.halfMul ≤ y.length) :
    Cost.karatsuba P rec x y ≤ x.length * y.length := by
  obtain ⟨hkd, hhm, _, _, hts, _⟩ := hC
  have hy2 : y.length < 2 * x.length := by
    have : x.length * P.halfMul ≤ x.length * 2 := Nat.mul_le_mul_left _ hhm
    omega
  have harith := kara_cost_arith x.length y.length (by omega) hxy hy2
  unfold Cost.karatsuba
  dsimp only
  rw [hkd]
  have hb2 : 2 * (x.length / 2) ≤ x.length := Nat.mul_div_le _ _
  generalize x.length / 2 = b at *
  have hx0l : (x.take b).length = b := by rw [List.length_take]; omega
  have hy0l : (y.take b).length = b := by rw [List.length_take]; omega
  have hx1l : (x.drop b).length = x.length - b := List.length_drop
  have hy1l : (y.drop b).length = y.length - b := List.length_drop
  have c2 := hrec (x.drop b) (y.drop b) (hx.drop b) (hy.drop b)
  have c0 := hrec (x.take b) (y.take b) (hx.take b) (hy.take b)
  rw [hx1l, hy1l] at c2
  rw [hx0l, hy0l] at c0
  obtain ⟨s0, j0, e7, c7, h7⟩ := subSign_spec P (x.drop b) (x.take b) (hx.drop b) (hx.take b)
  obtain ⟨s1, j1, e8, c8, h8⟩ := subSign_spec P (y.drop b) (y.take b) (hy.drop b) (hy.take b)
  have hX0 : val (x.take b) < B ^ b := by have := val_lt (hx.take b); rwa [hx0l] at this
  have hY0 : val (y.take b) < B ^ b := by have := val_lt (hy.take b); rwa [hy0l] at this
  have hX1 : val (x.drop b) < B ^ (x.length - b) := by have := val_lt (hx.drop b); rwa [hx1l] at this
  have hY1 : val (y.drop b) < B ^ (y.length - b) := by have := val_lt (hy.drop b); rwa [hy1l] at this
  have hpx : B ^ b ≤ B ^ (x.length - b) := mx_pow_le_pow_B (by omega)
  have hpy : B ^ b ≤ B ^ (y.length - b) := mx_pow_le_pow_B (by omega)
  have hj0l : j0.length ≤ x.length - b := by
    apply mx_canon_length_le c7
    rcases h7 with ⟨_, _, h⟩ | ⟨_, _, h⟩ | ⟨_, _, h⟩
    · omega
    · omega
    · rw [h]; exact Nat.pow_pos B_pos
  have hj1l : j1.length ≤ y.length - b := by
    apply mx_canon_length_le c8
    rcases h8 with ⟨_, _, h⟩ | ⟨_, _, h⟩ | ⟨_, _, h⟩
    · omega
    · omega
    · rw [h]; exact Nat.pow_pos B_pos
  have c1 : rec j0 j1 ≤ (x.length - b) * (y.length - b) :=
    le_trans (hrec j0 j1 c7.1 c8.1) (Nat.mul_le_mul hj0l hj1l)
  simp only [e7, e8]
  generalize rec j0 j1 = k1 at *
  generalize rec (x.drop b) (y.drop b) = k2 at *
  generalize rec (x.take b) (y.take b) = k0 at *
  cases s0.mul s1 <;> simp only <;> omega

theorem cost_toom3_le (P : Params) (hP : P.ValidMul) (hC : P.ValidCost) {rec : Cost.CostFn}
    (hrec : CostBound rec) (x y : List Nat) (hx : DigitsOk x) (hy : DigitsOk y)
    (hxy : x.length ≤ y.length) (hk : P.tKara < x.length) (hh : ¬ x.length * P.halfMul ≤ y.length) :
    Cost.toom3 P rec x y ≤ x.length * y.length := by
  have hi := toom_i_bound P hP x.length y.length hk hh
  obtain ⟨_, hhm, htd, hta, _, htk⟩ := hC
  have hy2 : y.length < 2 * x.length := by
    have : x.length * P.halfMul ≤ x.length * 2 := Nat.mul_le_mul_left _ hhm
    omega
  have harith := toom_cost_arith x.length y.length hxy hy2 (by omega)
  unfold Cost.toom3
  dsimp only
  rw [htd, hta] at hi ⊢
  have h3 := Nat.div_add_mod y.length 3
  have h3' : y.length % 3 < 3 := Nat.mod_lt _ (by omega)
  generalize y.length / 3 = q at *
  generalize hi' : q + 1 = i at *
  have hmx : min x.length i = i := Nat.min_eq_right (by omega)
  rw [hmx]
  obtain ⟨X0, X1, X2, ex, _, bx0, bx1, bx2⟩ := toomSplit_spec x hx i (by omega)
  obtain ⟨Y0, Y1, Y2, ey, _, by0, by1, by2⟩ := toomSplit_spec y hy i (by omega)
  rw [ex, ey]
  have hMx2 : B ^ (x.length - 2 * i) ≤ B ^ i := mx_pow_le_pow_B (by omega)
  have hMy2 : B ^ (y.length - 2 * i) ≤ B ^ i := mx_pow_le_pow_B (by omega)
  obtain ⟨_, _, px2, px3, px4⟩ := toomPts_bound X0 X1 X2 (B ^ i) bx0 bx1 (by omega)
  obtain ⟨_, _, py2, py3, py4⟩ := toomPts_bound Y0 Y1 Y2 (B ^ i) by0 by1 (by omega)
  have lx0 : (ofNat (toomPts X0 X1 X2).1.natAbs).length ≤ i := by
    apply mx_ofNat_length_le; simp only [toomPts, Int.natAbs_natCast]; exact bx0
  have ly0 : (ofNat (toomPts Y0 Y1 Y2).1.natAbs).length ≤ i := by
    apply mx_ofNat_length_le; simp only [toomPts, Int.natAbs_natCast]; exact by0
  have lx4 : (ofNat (toomPts X0 X1 X2).2.1.natAbs).length ≤ x.length - 2 * i := by
    apply mx_ofNat_length_le; simp only [toomPts, Int.natAbs_natCast]; exact bx2
  have ly4 : (ofNat (toomPts Y0 Y1 Y2).2.1.natAbs).length ≤ y.length - 2 * i := by
    apply mx_ofNat_length_le; simp only [toomPts, Int.natAbs_natCast]; exact by2
  have m0 := cost_mulInt_le hrec _ _ lx0 ly0
  have m4 := cost_mulInt_le hrec _ _ lx4 ly4
  have m1 := cost_mulInt_le hrec _ _ (ofNat_natAbs_length px2 (Nat.le_refl _)) (ofNat_natAbs_length py2 (Nat.le_refl _))
  have m2 := cost_mulInt_le hrec _ _ (ofNat_natAbs_length px3 (Nat.le_refl _)) (ofNat_natAbs_length py3 (Nat.le_refl _))
  have m3 := cost_mulInt_le hrec _ _ (ofNat_natAbs_length px4 (Nat.le_refl _)) (ofNat_natAbs_length py4 (Nat.le_refl _))
  dsimp only
  omega

theorem cost_mac3Core_le (P : Params) (hP : P.ValidMul) (hC : P.ValidCost) {rec : Cost.CostFn}
    (hrec : CostBound rec) : CostBound (Cost.mac3Core P rec) := by
  have ordered : ∀ x y : List Nat, DigitsOk x → DigitsOk y → x.length ≤ y.length →
      (if x.length ≤ P.tSchool then Cost.school x y
       else if x.length * P.halfMul ≤ y.length then Cost.halfKara P rec x y
       else if x.length ≤ P.tKara then Cost.karatsuba P rec x y
       else Cost.toom3 P rec x y) ≤ x.length * y.length := by
    intro x y hx hy hxy
    by_cases h1 : x.length ≤ P.tSchool
    · simp only [h1, if_true]
      unfold Cost.school
      exact Nat.mul_le_mul_right _ (List.length_filter_le _ _)
    · simp only [h1, if_false]
      by_cases h2 : x.length * P.halfMul ≤ y.length
      · simp only [h2, if_true]
        unfold Cost.halfKara
        dsimp only
        have a1 := hrec x (y.take (y.length / P.halfDen)) hx (hy.take _)
        have a2 := hrec x (y.drop (y.length / P.halfDen)) hx (hy.drop _)
        have hm : y.length / P.halfDen ≤ y.length := Nat.div_le_self _ _
        rw [List.length_take, Nat.min_eq_left hm] at a1
        rw [List.length_drop] at a2
        have : x.length * (y.length / P.halfDen) + x.length * (y.length - y.length / P.halfDen)
            = x.length * y.length := by rw [← Nat.mul_add]; congr 1; omega
        omega
      · simp only [h2, if_false]
        by_cases h3 : x.length ≤ P.tKara
        · simp only [h3, if_true]
          exact cost_karatsuba_le P hC hrec x y hx hy hxy (by omega) h2
        · simp only [h3, if_false]
          exact cost_toom3_le P hP hC hrec x y hx hy hxy (by omega) h2
  intro b c hb hc
  unfold Cost.mac3Core
  dsimp only
  by_cases h : b.length < c.length
  · simp only [h, if_true]; exact ordered b c hb hc (by omega)
  · simp only [h, if_false]; exact le_of_le_of_eq (ordered c b hc hb (by omega)) (Nat.mul_comm _ _)

theorem cost_mac3Body_le (P : Params) (hP : P.ValidMul) (hC : P.ValidCost) {rec : Cost.CostFn}
    (hrec : CostBound rec) : CostBound (Cost.mac3Body P rec) := by
  intro b c hb hc
  unfold Cost.mac3Body
  dsimp only
  split
  · exact Nat.zero_le _
  · split
    · exact Nat.zero_le _
    · have := cost_mac3Core_le P hP hC hrec (b.drop (lowZeros b)) (c.drop (lowZeros c)) (hb.drop _) (hc.drop _)
      rw [List.length_drop, List.length_drop] at this
      exact le_trans this (Nat.mul_le_mul (Nat.sub_le _ _) (Nat.sub_le _ _))

theorem cost_mac3_bound (P : Params) (hP : P.ValidMul) (hC : P.ValidCost) :
    ∀ fuel, CostBound (Cost.mac3 P fuel)
  | 0 => fun _ _ _ _ => Nat.zero_le _
  | fuel + 1 => cost_mac3Body_le P hP hC (cost_mac3_bound P hP hC fuel)

end NB.Mul
