/-
  C16 — all documented feature configurations build and compute identical results.

  The part that is logic: no model function takes a feature/configuration parameter — the model is
  configuration-free by construction — so two configurations can only differ where the Rust
  source is `cfg(feature = …)`-conditional.  There are exactly two such computations:
    (1) `Vec::with_capacity` estimates in radix output (biguint/convert.rs) — capacity is not an
        input of any model function (and not observable through the API);
    (2) the initial guess of the Newton iteration for roots (f64-based with `std`, bit-length
        based without) — handled by C11's theorem that the result is the floor root for EVERY
        initial guess ≥ 1 (restated below once C11 is merged).
  Compile success and transcript identity are observed by tools/special.py (c16_special).
-/
import NB.Base
import NB.Props.C11
namespace NB
open NB.Roots NB.IntVal

/-- configurations as the CI script enumerates them -/
structure FeatureSet where
  std : Bool
  rand : Bool
  serde : Bool
  quickcheck : Bool
  arbitrary : Bool
  deriving DecidableEq, Repr

/-- std-only features are excluded without std (ci/test_full.sh) -/
def FeatureSet.Documented (f : FeatureSet) : Prop := f.std = true ∨ (f.quickcheck = false ∧ f.arbitrary = false)
instance (f : FeatureSet) : Decidable f.Documented := by unfold FeatureSet.Documented; infer_instance

def allFeatureSets : List FeatureSet :=
  [true, false].flatMap fun s => [true, false].flatMap fun r => [true, false].flatMap fun se =>
    [true, false].flatMap fun q => [true, false].map fun a => ⟨s, r, se, q, a⟩

/-- the documented configuration set has exactly the 20 members the check enumerates -/
theorem documented_count : (allFeatureSets.filter (fun f => decide f.Documented)).length = 20 := by decide

/-- the only feature-conditional *computation* that can influence a result: the initial guess of the
    root iteration.  With `std` the guess comes from an f64 evaluation (any evaluator satisfying
    `F64.Valid`), without it from the bit length; the three root functions return the same outcome
    in both configurations, for every operand and degree (restated from C11). -/
theorem roots_same_in_std_and_no_std {Fl : F64} (hF : Fl.Valid) (d x n : Nat) (hd : 2 ≤ d) :
    nthRootG (stdSrc Fl d) x n = nthRootG nostdSrc x n ∧ sqrtG (stdSrc Fl d) x = sqrtG nostdSrc x ∧
    cbrtG (stdSrc Fl d) x = cbrtG nostdSrc x :=
  root_config_independent hF d x n hd

end NB
