#!/usr/bin/env python3
"""Translator: regenerate lean/NB/Gen/*.lean from /repo/src on every run.

Extracted mechanically (regex level, see DESIGN.md §1.4):
  * the two inline-asm programs of biguint/addition.rs and biguint/subtraction.rs as
    `List Instr`, with the operand table (name -> register id, class in/out/inout/lateout);
    instruction forms: clc, N:, jnz Nb, setc, inc, dec, lea {d}, [{s} + imm], add/sub {r}, imm,
    adc/sbb {d}, {s}, and mov load / mov store / adc / sbb with a memory operand
    `qword ptr [{base} + 8*{idx} + off]` (index and offset optional)
  * the divisor of `size /= D` in front of each asm block
  * the regime thresholds and split rules of `mac3` / `mul3`
  * the big-base threshold of radix output, the Montgomery window and the number of Montgomery
    squarings per window (literal statements, or `for _ in 0..N { … }` times the statements in its body)
If an anchor no longer matches, the previously generated value is kept and the item is
reported as stale (not by itself a violation).
Writes lean/NB/Gen/Params.lean, lean/NB/Gen/AsmProg.lean and build/extract.json.
"""
import json, os, re, sys

REPO = os.environ.get("NB_REPO", "/repo")
VERIF = os.path.dirname(os.path.dirname(os.path.abspath(__file__)))
GEN = os.path.join(VERIF, "lean", "NB", "Gen")

DEFAULTS = {
    "addDiv": 5, "subDiv": 5,
    "tSchool": 32, "halfMul": 2, "tKara": 256, "halfDen": 2, "karaDen": 2,
    "toomDen": 3, "toomAdd": 1, "karaSlack": 1, "mulSlack": 1,
    "bigBase": 64, "window": 4, "squarings": 4,
    "randDiv": 32, "randShift": 32, "randNative": 64,
}

def read(p):
    with open(os.path.join(REPO, p)) as f:
        return f.read()

def cfg64_fn(src, name):
    """text of the 64-bit definition of fn `name` (first occurrence: inside cfg_64!)"""
    i = src.find("fn " + name)
    if i < 0:
        return None
    j = src.find("\n);", i)
    return src[i:j if j > 0 else len(src)]

def parse_asm(fn_src, stale, tag):
    m = re.search(r"asm!\((.*?)\n\s*\);", fn_src, re.S)
    if not m:
        stale.append(tag + ":asm!")
        return None
    body = m.group(1)
    lines = []
    operands = []
    options = None
    for raw in body.split("\n"):
        s = raw.strip()
        if not s or s.startswith("//"):
            continue
        ms = re.match(r'^"(.*)",?$', s)
        if ms:
            lines.append(ms.group(1).strip())
            continue
        mo = re.match(r"^(\w+)\s*=\s*(in|out|inout|lateout|inlateout)\((\w+)\)\s*(.*?),?$", s)
        if mo:
            operands.append((mo.group(1), mo.group(2), mo.group(3), mo.group(4)))
            continue
        mopt = re.match(r"^options\((.*)\),?$", s)
        if mopt:
            options = mopt.group(1)
            continue
        stale.append(tag + ":asm-line:" + s[:40])
        return None
    regs = {name: i for i, (name, _, _, _) in enumerate(operands)}
    prog = []
    def R(n):
        if n not in regs:
            raise KeyError(n)
        return regs[n]
    def mem(text):
        """`[{base} + 8*{idx} + off]` with the index and/or the offset optional (any order after the base,
        `{idx}*8` accepted) -> (base reg, index reg or None, digit offset)"""
        terms = [t.strip() for t in text.split("+")]
        mb = re.fullmatch(r"\{(\w+)\}", terms[0])
        if not mb:
            raise ValueError("memory operand without base register")
        base, idx, off = R(mb.group(1)), None, 0
        for t in terms[1:]:
            if (mi := re.fullmatch(r"8\s*\*\s*\{(\w+)\}|\{(\w+)\}\s*\*\s*8", t)):
                if idx is not None:
                    raise ValueError("two index registers")
                idx = R(mi.group(1) or mi.group(2))
            elif re.fullmatch(r"\d+", t):
                off += int(t)
            else:
                raise ValueError("memory operand term " + t)
        if off % 8:
            raise ValueError("unaligned offset")
        return base, idx, off // 8
    MEM = r"qword ptr \[([^\]]*)\]"
    try:
        for l in lines:
            l = re.sub(r"\s+", " ", l)
            if l == "clc":
                prog.append(".clc")
            elif re.fullmatch(r"(\d+):", l):
                prog.append(".label %s" % l[:-1])
            elif (m2 := re.fullmatch(r"mov \{(\w+)\}, " + MEM, l)):
                b, i, o = mem(m2.group(2))
                prog.append(".load %d %d %d %d" % (R(m2.group(1)), b, i, o) if i is not None
                            else ".loadn %d %d %d" % (R(m2.group(1)), b, o))
            elif (m2 := re.fullmatch(r"mov " + MEM + r", \{(\w+)\}", l)):
                b, i, o = mem(m2.group(1))
                prog.append(".store %d %d %d %d" % (b, i, o, R(m2.group(2))) if i is not None
                            else ".storen %d %d %d" % (b, o, R(m2.group(2))))
            elif (m2 := re.fullmatch(r"(adc|sbb) \{(\w+)\}, \{(\w+)\}", l)):
                prog.append(".%s %d %d" % (m2.group(1), R(m2.group(2)), R(m2.group(3))))
            elif (m2 := re.fullmatch(r"(adc|sbb) \{(\w+)\}, " + MEM, l)):
                b, i, o = mem(m2.group(3))
                prog.append(".%sm %d %d %d %d" % (m2.group(1), R(m2.group(2)), b, i, o) if i is not None
                            else ".%smn %d %d %d" % (m2.group(1), R(m2.group(2)), b, o))
            elif (m2 := re.fullmatch(r"lea \{(\w+)\}, \[\{(\w+)\}(?: \+ (\d+))?\]", l)):
                prog.append(".lea %d %d %d" % (R(m2.group(1)), R(m2.group(2)), int(m2.group(3) or 0)))
            elif (m2 := re.fullmatch(r"(add|sub) \{(\w+)\}, (\d+)", l)):
                if int(m2.group(3)) >= 2 ** 31:
                    raise ValueError("immediate too large")
                prog.append(".%si %d %d" % (m2.group(1), R(m2.group(2)), int(m2.group(3))))
            elif (m2 := re.fullmatch(r"(inc|dec) \{(\w+)\}", l)):
                prog.append(".%s %d" % (m2.group(1), R(m2.group(2))))
            elif (m2 := re.fullmatch(r"jnz (\d+)b", l)):
                prog.append(".jnz %s" % m2.group(1))
            elif (m2 := re.fullmatch(r"setc \{(\w+)\}", l)):
                prog.append(".setc %d" % R(m2.group(1)))
            else:
                stale.append(tag + ":asm-instr:" + l[:40])
                return None
    except (KeyError, ValueError) as e:
        stale.append(tag + ":asm-operand:" + str(e))
        return None
    return {"prog": prog, "operands": operands, "options": options, "regs": regs}

NUM = r"(\d[\d_]*|[A-Za-z_][A-Za-z0-9_:]*)"     # a literal or the name of a constant

def resolve(tok, ctx):
    """value of a numeric token: a literal (`32`, `1_024`, `32usize`) or a named constant defined as
    `const NAME: <int type> = <literal>;` / `let NAME = <literal>;` / `let NAME: T = <literal>;` in the same file"""
    tok = tok.strip()
    m = re.fullmatch(r"(\d[\d_]*)(?:usize|u8|u16|u32|u64|u128|isize|i32|i64)?", tok)
    if m:
        return int(m.group(1).replace("_", ""))
    name = tok.split("::")[-1]
    for pat in (r"\bconst\s+%s\s*:\s*\w+\s*=\s*(\d[\d_]*)\w*\s*;" % re.escape(name),
                r"\bstatic\s+%s\s*:\s*\w+\s*=\s*(\d[\d_]*)\w*\s*;" % re.escape(name),
                r"\blet\s+%s\s*(?::\s*\w+\s*)?=\s*(\d[\d_]*)\w*\s*;" % re.escape(name)):
        mm = re.search(pat, ctx)
        if mm:
            return int(mm.group(1).replace("_", ""))
    return None

def grab(src, pattern, stale, tag, conv=int, ctx=None):
    """first match of `pattern` (written with (\\d+) groups) in `src`; the group may also be a named constant, which
    is looked up in `ctx` (default: `src`), so that `if x.len() <= 32` and `if x.len() <= LONG_MUL_MAX_LEN` both work"""
    m = re.search(pattern.replace(r"(\d+)", NUM), src)
    if not m:
        stale.append(tag)
        return None
    v = resolve(m.group(1), ctx if ctx is not None else src)
    if v is None:
        stale.append(tag + ":unresolved:" + m.group(1)[:30])
        return None
    return conv(v)

def brace_block(src, open_idx):
    """text between the `{` at `open_idx` and its matching `}` (exclusive), and the index after the `}`"""
    depth = 0
    for p in range(open_idx, len(src)):
        if src[p] == "{":
            depth += 1
        elif src[p] == "}":
            depth -= 1
            if depth == 0:
                return src[open_idx + 1:p], p + 1
    return None, None

def strip_comments(src):
    return re.sub(r"//[^\n]*", "", re.sub(r"/\*.*?\*/", "", src, flags=re.S))

SQUARING = r"montgomery\(\s*&(zz?)\s*,\s*&\1\s*,"      # montgomery(&z, &z, …) / montgomery(&zz, &zz, …)

def loop_count(expr, ctx):
    """value of the upper bound of `0..<expr>`: NUM, or NUM (+|-|*) NUM"""
    m = re.fullmatch(r"\s*%s\s*(?:([-+*])\s*%s\s*)?" % (NUM, NUM), expr)
    if not m:
        return None
    a = resolve(m.group(1), ctx)
    if a is None:
        return None
    if m.group(2) is None:
        return a
    b = resolve(m.group(3), ctx)
    if b is None:
        return None
    return {"+": a + b, "-": max(a - b, 0), "*": a * b}[m.group(2)]

def monty_squarings(mon, stale):
    """number of Montgomery squarings per window of `monty_modpow`: the squaring statements inside the
    `if i != y.data.len() - 1 || j != 0 { … }` block; a `for _ in 0..N { … }` loop in that block counts
    N times the squaring statements of its body"""
    m = re.search(r"if\s+i\s*!=\s*y\.data\.len\(\)\s*-\s*1\s*\|\|\s*j\s*!=\s*0\s*\{", mon)
    if not m:
        stale.append("monty:squarings")
        return None
    block, _ = brace_block(mon, m.end() - 1)
    if block is None:
        stale.append("monty:squarings:block")
        return None
    block = strip_comments(block)
    total, pos, rest = 0, 0, []
    for lm in re.finditer(r"\bfor\s+\w+\s+in\s+0\s*\.\.(=?)([^{]*)\{", block):
        if lm.start() < pos:
            stale.append("monty:squarings:nested-loop")
            return None
        body, after = brace_block(block, lm.end() - 1)
        n = loop_count(lm.group(2), mon)
        if body is None or n is None:
            stale.append("monty:squarings:loop-bound:" + lm.group(2).strip()[:30])
            return None
        if lm.group(1):
            n += 1
        total += n * len(re.findall(SQUARING, body))
        rest.append(block[pos:lm.start()])
        pos = after
    rest.append(block[pos:])
    if re.search(r"\b(while|loop|for)\b", "".join(rest)):
        stale.append("monty:squarings:unknown-loop")
        return None
    return total + len(re.findall(SQUARING, "".join(rest)))

def main():
    stale = []
    vals = dict(DEFAULTS)
    asm = {}
    for tag, path, fn in (("add", "src/biguint/addition.rs", "schoolbook_add_assign_x86_64"),
                          ("sub", "src/biguint/subtraction.rs", "schoolbook_sub_assign_x86_64")):
        try:
            src = read(path)
        except OSError:
            stale.append(tag + ":file")
            continue
        f = cfg64_fn(src, fn)
        if f is None:
            stale.append(tag + ":fn")
            continue
        d = grab(f, r"size\s*/=\s*(\d+)\s*;", stale, tag + ":div", ctx=src)
        if d is not None:
            vals[tag + "Div"] = d
        a = parse_asm(f, stale, tag)
        if a is not None:
            asm[tag] = a
    try:
        mul = read("src/biguint/multiplication.rs")
        i = mul.find("fn mac3(")
        j = mul.find("\nfn mul3(", i)
        mac3 = mul[i:j]
        mul3 = mul[j:mul.find("\nfn scalar_mul", j)]
        for key, pat in (("tSchool", r"if x\.len\(\) <= (\d+) \{"),
                         ("halfMul", r"else if x\.len\(\) \* (\d+) <= y\.len\(\)"),
                         ("tKara", r"else if x\.len\(\) <= (\d+) \{"),
                         ("halfDen", r"let m2 = y\.len\(\) / (\d+);"),
                         ("karaDen", r"let b = x\.len\(\) / (\d+);"),
                         ("karaSlack", r"let len = x1\.len\(\) \+ y1\.len\(\) \+ (\d+);")):
            v = grab(mac3, pat, stale, "mul:" + key, ctx=mul)
            if v is not None:
                vals[key] = v
        m = re.search(r"let i = y\.len\(\) / %s \+ %s;" % (NUM, NUM), mac3)
        td, ta = (resolve(m.group(1), mul), resolve(m.group(2), mul)) if m else (None, None)
        if td is not None and ta is not None:
            vals["toomDen"], vals["toomAdd"] = td, ta
        else:
            stale.append("mul:toom")
        v = grab(mul3, r"let len = x\.len\(\) \+ y\.len\(\) \+ (\d+);", stale, "mul:mulSlack", ctx=mul)
        if v is not None:
            vals["mulSlack"] = v
    except (OSError, ValueError):
        stale.append("mul:file")
    try:
        conv = read("src/biguint/convert.rs")
        v = grab(conv, r"if digits\.data\.len\(\) >= (\d+) \{", stale, "radix:bigBase")
        if v is not None:
            vals["bigBase"] = v
    except OSError:
        stale.append("radix:file")
    try:
        mon = read("src/biguint/monty.rs")
        # `let n = 4; … Vec::with_capacity(1 << n)` or a named constant
        v = grab(mon, r"powers = Vec::with_capacity\(1 << (\d+)\)", stale, "monty:window")
        if v is not None:
            vals["window"] = v
        v = monty_squarings(mon, stale)
        if v is not None:
            vals["squarings"] = v
    except OSError:
        stale.append("monty:file")

    try:
        rnd = read("src/bigrand.rs")
        # gen_bits: `data[last] >>= 32 - rem;`
        v = grab(rnd, r"data\[last\] >>= (\d+) - rem;", stale, "rand:randShift")
        if v is not None:
            vals["randShift"] = v
        # the 64-bit variant of gen_biguint is the second item of cfg_digit!( … )
        i0 = rnd.find("RandBigInt for R")
        i = rnd.find("fn gen_biguint(&mut self", i0)
        i2 = rnd.find("fn gen_biguint(&mut self", i + 1)
        j = rnd.find("fn gen_bigint(&mut self", i0)
        g64 = rnd[i2:j] if 0 <= i < i2 < j else ""
        v = grab(g64, r"bit_size\.div_rem\(&(\d+)\)", stale, "rand:randDiv", ctx=rnd)
        if v is not None:
            vals["randDiv"] = v
        v = grab(g64, r"Integer::div_ceil\(&bit_size, &(\d+)\)", stale, "rand:randNative", ctx=rnd)
        if v is not None:
            vals["randNative"] = v
    except OSError:
        stale.append("rand:file")

    os.makedirs(GEN, exist_ok=True)
    params = ["/- GENERATED by tools/extract.py from /repo/src on every check run — do not edit. -/",
              "namespace NB.Gen"]
    for k in sorted(vals):
        params.append("def %s : Nat := %d" % (k, vals[k]))
    params.append("end NB.Gen")
    write_if_changed(os.path.join(GEN, "Params.lean"), "\n".join(params) + "\n")

    # asm programs: keep the previous file if extraction failed for either program
    if "add" in asm and "sub" in asm:
        out = ["/- GENERATED by tools/extract.py from the asm! blocks of /repo/src/biguint/{addition,subtraction}.rs — do not edit. -/",
               "import NB.Model.AsmDefs", "namespace NB.Gen", "open NB.Asm"]
        for tag in ("add", "sub"):
            a = asm[tag]
            out.append("/-- operands: %s -/" % ", ".join("%s=%d:%s(%s)" % (n, i, c, k) for i, (n, c, k, _) in enumerate(a["operands"])))
            out.append("def %sProg : List Instr := [" % tag)
            out.append(",\n".join("  " + p for p in a["prog"]))
            out.append("]")
            r = a["regs"]
            for role in ("a", "b", "idx", "size", "c"):
                out.append("def %sReg_%s : Nat := %d" % (tag, role, r.get(role, 999)))
            out.append("def %sNRegs : Nat := %d" % (tag, len(a["operands"])))
        out.append("end NB.Gen")
        write_if_changed(os.path.join(GEN, "AsmProg.lean"), "\n".join(out) + "\n")
    notes = []
    for tag in asm:
        for (n, c, k, _) in asm[tag]["operands"]:
            writes = any(re.match(r"\.(dec|inc) %d$|\.(lea|addi|subi) %d " % (asm[tag]["regs"][n], asm[tag]["regs"][n]), p)
                         for p in asm[tag]["prog"])
            if c == "in" and writes:
                notes.append("%s asm: operand `%s` is declared in(reg) but modified by inc/dec" % (tag, n))
    info = {"values": vals, "stale": stale, "notes": notes,
            "asm": {t: {"prog": asm[t]["prog"], "operands": asm[t]["operands"], "options": asm[t]["options"]} for t in asm}}
    os.makedirs(os.path.join(VERIF, "build"), exist_ok=True)
    with open(os.path.join(VERIF, "build", "extract.json"), "w") as f:
        json.dump(info, f, indent=1)
    return info

def write_if_changed(path, text):
    try:
        with open(path) as f:
            if f.read() == text:
                return False
    except OSError:
        pass
    with open(path, "w") as f:
        f.write(text)
    return True

if __name__ == "__main__":
    info = main()
    print(json.dumps({"values": info["values"], "stale": info["stale"], "notes": info["notes"]}))
