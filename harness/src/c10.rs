//! stream C10: the operator FORM MATRIX.
//!
//! Every provided operator form of BigUint / BigInt (val/ref permutations, compound assignment,
//! primitive scalar on either side, scalar `%=` big, shifts by the 12 amount types, Pow, checked_*,
//! Sum/Product) is one match arm below; a form that does not exist is a compile error, so the
//! matrix itself is checked by rustc.  Each form has a stable numeric id
//!
//!     id = K*1_000_000 + OP*10_000 + SHAPE*1_000 + STY*10 + VAR
//!
//!   K     1 BigUint, 2 BigInt
//!   OP    1 +  2 -  3 *  4 /  5 %  6 &  7 |  8 ^  9 <<  10 >>  11 pow
//!         12 checked_add 13 checked_sub 14 checked_mul 15 checked_div 16 Sum 17 Product
//!   SHAPE 0 big∘big   1 big∘scalar   2 scalar∘big   3 big∘=scalar   4 big∘=big   5 scalar∘=big
//!         6 iterator
//!   STY   0 none, 1 u8 2 u16 3 u32 4 u64 5 u128 6 usize 7 i8 8 i16 9 i32 10 i64 11 i128 12 isize,
//!         13 BigUint (Pow exponent)
//!   VAR   shapes 0,1,2: 0 val∘val 1 val∘ref 2 ref∘val 3 ref∘ref (left operand first);
//!         shape 0 also: 4 val∘val with spare capacity in the left operand, 5 … in the right operand
//!         (the commutative forwarders pick the buffer to reuse by capacity);
//!         shapes 3,4,5: 0 right operand by value, 1 by reference; shape 6: 0 items by value, 1 by reference
//!
//! Op `form <id> <lhs> <rhs>` (`form <id> <item>*` for shape 6) runs the form under catch_unwind and
//! ALSO the canonical ref/ref big∘big operation on the losslessly converted operands; if the two
//! differ in value or in panic-vs-return it answers `panic internal:form-mismatch:<id>`.
//! Op `forms` prints the table id=description of every form that exists.
use crate::wire::*;
use num_bigint::{BigInt, BigUint};
use num_traits::{CheckedAdd, CheckedDiv, CheckedMul, CheckedSub, One, Pow, Zero};
use std::panic::{catch_unwind, AssertUnwindSafe};

#[derive(Clone, Copy, Debug, PartialEq)]
enum Sc {
    U8(u8),
    U16(u16),
    U32(u32),
    U64(u64),
    U128(u128),
    Usize(usize),
    I8(i8),
    I16(i16),
    I32(i32),
    I64(i64),
    I128(i128),
    Isize(isize),
}

const STY_NAMES: [&str; 14] =
    ["", "u8", "u16", "u32", "u64", "u128", "usize", "i8", "i16", "i32", "i64", "i128", "isize", "BigUint"];

impl Sc {
    fn parse(s: &str) -> Option<Sc> {
        let (t, v) = s.split_once(':')?;
        Some(match t {
            "u8" => Sc::U8(v.parse().ok()?),
            "u16" => Sc::U16(v.parse().ok()?),
            "u32" => Sc::U32(v.parse().ok()?),
            "u64" => Sc::U64(v.parse().ok()?),
            "u128" => Sc::U128(v.parse().ok()?),
            "usize" => Sc::Usize(v.parse().ok()?),
            "i8" => Sc::I8(v.parse().ok()?),
            "i16" => Sc::I16(v.parse().ok()?),
            "i32" => Sc::I32(v.parse().ok()?),
            "i64" => Sc::I64(v.parse().ok()?),
            "i128" => Sc::I128(v.parse().ok()?),
            "isize" => Sc::Isize(v.parse().ok()?),
            _ => return None,
        })
    }
    fn sty(&self) -> u32 {
        match self {
            Sc::U8(_) => 1,
            Sc::U16(_) => 2,
            Sc::U32(_) => 3,
            Sc::U64(_) => 4,
            Sc::U128(_) => 5,
            Sc::Usize(_) => 6,
            Sc::I8(_) => 7,
            Sc::I16(_) => 8,
            Sc::I32(_) => 9,
            Sc::I64(_) => 10,
            Sc::I128(_) => 11,
            Sc::Isize(_) => 12,
        }
    }
    fn of(sty: u32, v: i8) -> Option<Sc> {
        Some(match sty {
            1 => Sc::U8(v as u8),
            2 => Sc::U16(v as u16),
            3 => Sc::U32(v as u32),
            4 => Sc::U64(v as u64),
            5 => Sc::U128(v as u128),
            6 => Sc::Usize(v as usize),
            7 => Sc::I8(v),
            8 => Sc::I16(v as i16),
            9 => Sc::I32(v as i32),
            10 => Sc::I64(v as i64),
            11 => Sc::I128(v as i128),
            12 => Sc::Isize(v as isize),
            _ => return None,
        })
    }
    fn signed(&self) -> bool {
        self.sty() >= 7
    }
    /// lossless conversion (From impls of the crate)
    fn to_bigint(&self) -> BigInt {
        match *self {
            Sc::U8(v) => BigInt::from(v),
            Sc::U16(v) => BigInt::from(v),
            Sc::U32(v) => BigInt::from(v),
            Sc::U64(v) => BigInt::from(v),
            Sc::U128(v) => BigInt::from(v),
            Sc::Usize(v) => BigInt::from(v),
            Sc::I8(v) => BigInt::from(v),
            Sc::I16(v) => BigInt::from(v),
            Sc::I32(v) => BigInt::from(v),
            Sc::I64(v) => BigInt::from(v),
            Sc::I128(v) => BigInt::from(v),
            Sc::Isize(v) => BigInt::from(v),
        }
    }
    fn to_biguint(&self) -> Option<BigUint> {
        Some(match *self {
            Sc::U8(v) => BigUint::from(v),
            Sc::U16(v) => BigUint::from(v),
            Sc::U32(v) => BigUint::from(v),
            Sc::U64(v) => BigUint::from(v),
            Sc::U128(v) => BigUint::from(v),
            Sc::Usize(v) => BigUint::from(v),
            _ => return None,
        })
    }
    /// the scalar as a result value (signed types as BigInt, unsigned as BigUint)
    fn to_r(&self) -> R {
        match self.to_biguint() {
            Some(u) => R::U(u),
            None => R::I(self.to_bigint()),
        }
    }
    /// amount as (negative?, magnitude)
    fn amount(&self) -> (bool, u128) {
        match *self {
            Sc::U8(v) => (false, v as u128),
            Sc::U16(v) => (false, v as u128),
            Sc::U32(v) => (false, v as u128),
            Sc::U64(v) => (false, v as u128),
            Sc::U128(v) => (false, v),
            Sc::Usize(v) => (false, v as u128),
            Sc::I8(v) => (v < 0, v.unsigned_abs() as u128),
            Sc::I16(v) => (v < 0, v.unsigned_abs() as u128),
            Sc::I32(v) => (v < 0, v.unsigned_abs() as u128),
            Sc::I64(v) => (v < 0, v.unsigned_abs() as u128),
            Sc::I128(v) => (v < 0, v.unsigned_abs()),
            Sc::Isize(v) => (v < 0, v.unsigned_abs() as u128),
        }
    }
}

#[derive(Clone, Debug, PartialEq)]
enum R {
    U(BigUint),
    I(BigInt),
    OU(Option<BigUint>),
    OI(Option<BigInt>),
}

impl R {
    fn show(&self) -> String {
        match self {
            R::U(v) => ok_u(v),
            R::I(v) => ok_i(v),
            R::OU(v) => opt_u(v),
            R::OI(v) => opt_i(v),
        }
    }
}

/// give `x` spare capacity (about 3*len+2 digits) without changing its value
fn inflate_u(x: BigUint) -> BigUint {
    let n = x.to_u64_digits().len();
    if n == 0 {
        return x;
    }
    let k = 64 * (2 * n + 1);
    (x << k) >> k
}
fn inflate_i(x: BigInt) -> BigInt {
    let (s, m) = x.into_parts();
    BigInt::from_biguint(s, inflate_u(m))
}

// ---------------------------------------------------------------------------------------------
// form matrix: macros that expand to match arms

/// big∘big (shape 0, var 0..5) and big∘=big (shape 4, var 0..1)
macro_rules! bigbig {
    ($wrap:path, $infl:ident, $x:expr, $y:expr, $shape:expr, $var:expr, $op:tt, $opa:tt) => {
        match ($shape, $var) {
            (0, 0) => Some($wrap($x.clone() $op $y.clone())),
            (0, 1) => Some($wrap($x.clone() $op $y)),
            (0, 2) => Some($wrap($x $op $y.clone())),
            (0, 3) => Some($wrap($x $op $y)),
            (0, 4) => Some($wrap($infl($x.clone()) $op $y.clone())),
            (0, 5) => Some($wrap($x.clone() $op $infl($y.clone()))),
            (4, 0) => {
                let mut t = $x.clone();
                t $opa $y.clone();
                Some($wrap(t))
            }
            (4, 1) => {
                let mut t = $x.clone();
                t $opa $y;
                Some($wrap(t))
            }
            _ => None,
        }
    };
}

/// big∘scalar (shape 1), scalar∘big (shape 2), big∘=scalar (shape 3)
macro_rules! arith_scalar {
    ($wrap:path, $x:expr, $s:expr, $shape:expr, $var:expr, $op:tt, $opa:tt, $($V:ident),*) => {
        match ($s, $shape, $var) {
            $(
                (Sc::$V(v), 1, 0) => Some($wrap($x.clone() $op v)),
                (Sc::$V(v), 1, 1) => Some($wrap($x.clone() $op &v)),
                (Sc::$V(v), 1, 2) => Some($wrap($x $op v)),
                (Sc::$V(v), 1, 3) => Some($wrap($x $op &v)),
                (Sc::$V(v), 2, 0) => Some($wrap(v $op $x.clone())),
                (Sc::$V(v), 2, 1) => Some($wrap(v $op $x)),
                (Sc::$V(v), 2, 2) => Some($wrap(&v $op $x.clone())),
                (Sc::$V(v), 2, 3) => Some($wrap(&v $op $x)),
                (Sc::$V(v), 3, 0) => {
                    let mut t = $x.clone();
                    t $opa v;
                    Some($wrap(t))
                }
            )*
            _ => None,
        }
    };
}

/// big << amount (shape 1, 4 variants), big <<= amount (shape 3, by value and by reference)
macro_rules! shift_forms {
    ($wrap:path, $x:expr, $s:expr, $shape:expr, $var:expr, $op:tt, $opa:tt, $($V:ident),*) => {
        match ($s, $shape, $var) {
            $(
                (Sc::$V(v), 1, 0) => Some($wrap($x.clone() $op v)),
                (Sc::$V(v), 1, 1) => Some($wrap($x.clone() $op &v)),
                (Sc::$V(v), 1, 2) => Some($wrap($x $op v)),
                (Sc::$V(v), 1, 3) => Some($wrap($x $op &v)),
                (Sc::$V(v), 3, 0) => {
                    let mut t = $x.clone();
                    t $opa v;
                    Some($wrap(t))
                }
                (Sc::$V(v), 3, 1) => {
                    let mut t = $x.clone();
                    t $opa &v;
                    Some($wrap(t))
                }
            )*
            _ => None,
        }
    };
}

/// Pow by a primitive exponent (shape 1, 4 variants)
macro_rules! pow_forms {
    ($wrap:path, $x:expr, $s:expr, $var:expr, $($V:ident),*) => {
        match ($s, $var) {
            $(
                (Sc::$V(v), 0) => Some($wrap(Pow::pow($x.clone(), v))),
                (Sc::$V(v), 1) => Some($wrap(Pow::pow($x.clone(), &v))),
                (Sc::$V(v), 2) => Some($wrap(Pow::pow($x, v))),
                (Sc::$V(v), 3) => Some($wrap(Pow::pow($x, &v))),
            )*
            _ => None,
        }
    };
}

/// scalar %= BigUint (shape 5; impl_rem_assign_scalar!), by value and by reference
macro_rules! rem_assign_scalar_forms {
    ($s:expr, $y:expr, $var:expr, $($V:ident),*) => {
        match ($s, $var) {
            $(
                (Sc::$V(v), 0) => {
                    let mut t = v;
                    t %= $y.clone();
                    Some(Sc::$V(t).to_r())
                }
                (Sc::$V(v), 1) => {
                    let mut t = v;
                    t %= $y;
                    Some(Sc::$V(t).to_r())
                }
            )*
            _ => None,
        }
    };
}

// one function per (type, operator) keeps the generated functions small

macro_rules! u_scalar_fn {
    ($name:ident, $op:tt, $opa:tt) => {
        #[inline(never)]
        fn $name(x: &BigUint, s: Sc, shape: u32, var: u32) -> Option<R> {
            arith_scalar!(R::U, x, s, shape, var, $op, $opa, U8, U16, U32, U64, U128, Usize)
        }
    };
}
u_scalar_fn!(u_add_s, +, +=);
u_scalar_fn!(u_sub_s, -, -=);
u_scalar_fn!(u_mul_s, *, *=);
u_scalar_fn!(u_div_s, /, /=);
u_scalar_fn!(u_rem_s, %, %=);

macro_rules! i_scalar_fn {
    ($name:ident, $op:tt, $opa:tt) => {
        #[inline(never)]
        fn $name(x: &BigInt, s: Sc, shape: u32, var: u32) -> Option<R> {
            arith_scalar!(R::I, x, s, shape, var, $op, $opa, U8, U16, U32, U64, U128, Usize, I8, I16, I32, I64, I128, Isize)
        }
    };
}
i_scalar_fn!(i_add_s, +, +=);
i_scalar_fn!(i_sub_s, -, -=);
i_scalar_fn!(i_mul_s, *, *=);
i_scalar_fn!(i_div_s, /, /=);
i_scalar_fn!(i_rem_s, %, %=);

macro_rules! u_bigbig_fn {
    ($name:ident, $op:tt, $opa:tt) => {
        #[inline(never)]
        fn $name(x: &BigUint, y: &BigUint, shape: u32, var: u32) -> Option<R> {
            bigbig!(R::U, inflate_u, x, y, shape, var, $op, $opa)
        }
    };
}
u_bigbig_fn!(u_add_b, +, +=);
u_bigbig_fn!(u_sub_b, -, -=);
u_bigbig_fn!(u_mul_b, *, *=);
u_bigbig_fn!(u_div_b, /, /=);
u_bigbig_fn!(u_rem_b, %, %=);
u_bigbig_fn!(u_and_b, &, &=);
u_bigbig_fn!(u_or_b, |, |=);
u_bigbig_fn!(u_xor_b, ^, ^=);

macro_rules! i_bigbig_fn {
    ($name:ident, $op:tt, $opa:tt) => {
        #[inline(never)]
        fn $name(x: &BigInt, y: &BigInt, shape: u32, var: u32) -> Option<R> {
            bigbig!(R::I, inflate_i, x, y, shape, var, $op, $opa)
        }
    };
}
i_bigbig_fn!(i_add_b, +, +=);
i_bigbig_fn!(i_sub_b, -, -=);
i_bigbig_fn!(i_mul_b, *, *=);
i_bigbig_fn!(i_div_b, /, /=);
i_bigbig_fn!(i_rem_b, %, %=);
i_bigbig_fn!(i_and_b, &, &=);
i_bigbig_fn!(i_or_b, |, |=);
i_bigbig_fn!(i_xor_b, ^, ^=);

#[inline(never)]
fn u_shl(x: &BigUint, s: Sc, shape: u32, var: u32) -> Option<R> {
    shift_forms!(R::U, x, s, shape, var, <<, <<=, U8, U16, U32, U64, U128, Usize, I8, I16, I32, I64, I128, Isize)
}
#[inline(never)]
fn u_shr(x: &BigUint, s: Sc, shape: u32, var: u32) -> Option<R> {
    shift_forms!(R::U, x, s, shape, var, >>, >>=, U8, U16, U32, U64, U128, Usize, I8, I16, I32, I64, I128, Isize)
}
#[inline(never)]
fn i_shl(x: &BigInt, s: Sc, shape: u32, var: u32) -> Option<R> {
    shift_forms!(R::I, x, s, shape, var, <<, <<=, U8, U16, U32, U64, U128, Usize, I8, I16, I32, I64, I128, Isize)
}
#[inline(never)]
fn i_shr(x: &BigInt, s: Sc, shape: u32, var: u32) -> Option<R> {
    shift_forms!(R::I, x, s, shape, var, >>, >>=, U8, U16, U32, U64, U128, Usize, I8, I16, I32, I64, I128, Isize)
}
#[inline(never)]
fn u_pow_s(x: &BigUint, s: Sc, var: u32) -> Option<R> {
    pow_forms!(R::U, x, s, var, U8, U16, U32, U64, U128, Usize)
}
#[inline(never)]
fn i_pow_s(x: &BigInt, s: Sc, var: u32) -> Option<R> {
    pow_forms!(R::I, x, s, var, U8, U16, U32, U64, U128, Usize)
}
#[inline(never)]
fn u_pow_b(x: &BigUint, e: &BigUint, var: u32) -> Option<R> {
    match var {
        0 => Some(R::U(Pow::pow(x.clone(), e.clone()))),
        1 => Some(R::U(Pow::pow(x.clone(), e))),
        2 => Some(R::U(Pow::pow(x, e.clone()))),
        3 => Some(R::U(Pow::pow(x, e))),
        _ => None,
    }
}
#[inline(never)]
fn i_pow_b(x: &BigInt, e: &BigUint, var: u32) -> Option<R> {
    match var {
        0 => Some(R::I(Pow::pow(x.clone(), e.clone()))),
        1 => Some(R::I(Pow::pow(x.clone(), e))),
        2 => Some(R::I(Pow::pow(x, e.clone()))),
        3 => Some(R::I(Pow::pow(x, e))),
        _ => None,
    }
}
#[inline(never)]
fn s_rem_assign_u(s: Sc, y: &BigUint, var: u32) -> Option<R> {
    rem_assign_scalar_forms!(s, y, var, U8, U16, U32, U64, U128, Usize, I8, I16, I32, I64, I128, Isize)
}

/// Sum / Product over iterators of scalars (by value and by reference)
macro_rules! scalar_iter {
    ($Big:ty, $wrap:path, $items:expr, $op:expr, $var:expr, $V:ident, $T:ty) => {{
        let mut xs: Vec<$T> = Vec::new();
        for it in $items {
            match it {
                Arg::S(Sc::$V(v)) => xs.push(*v),
                _ => return None,
            }
        }
        match ($op, $var) {
            (16, 0) => Some($wrap(xs.into_iter().sum::<$Big>())),
            (16, 1) => Some($wrap(xs.iter().sum::<$Big>())),
            (17, 0) => Some($wrap(xs.into_iter().product::<$Big>())),
            (17, 1) => Some($wrap(xs.iter().product::<$Big>())),
            _ => None,
        }
    }};
}

#[derive(Clone, Debug)]
enum Arg {
    U(BigUint),
    I(BigInt),
    S(Sc),
}

struct Form {
    k: u32,
    op: u32,
    shape: u32,
    sty: u32,
    var: u32,
}

fn decode(id: u32) -> Form {
    Form { k: id / 1_000_000, op: id / 10_000 % 100, shape: id / 1_000 % 10, sty: id / 10 % 100, var: id % 10 }
}

/// run the form itself
fn run_form(f: &Form, a: &[Arg]) -> Option<R> {
    match (f.k, f.op, f.shape) {
        // Sum / Product
        (1, 16 | 17, 6) => match f.sty {
            0 => {
                let mut xs: Vec<BigUint> = Vec::new();
                for it in a {
                    match it {
                        Arg::U(v) => xs.push(v.clone()),
                        _ => return None,
                    }
                }
                match (f.op, f.var) {
                    (16, 0) => Some(R::U(xs.into_iter().sum::<BigUint>())),
                    (16, 1) => Some(R::U(xs.iter().sum::<BigUint>())),
                    (17, 0) => Some(R::U(xs.into_iter().product::<BigUint>())),
                    (17, 1) => Some(R::U(xs.iter().product::<BigUint>())),
                    _ => None,
                }
            }
            3 => scalar_iter!(BigUint, R::U, a, f.op, f.var, U32, u32),
            4 => scalar_iter!(BigUint, R::U, a, f.op, f.var, U64, u64),
            5 => scalar_iter!(BigUint, R::U, a, f.op, f.var, U128, u128),
            _ => None,
        },
        (2, 16 | 17, 6) => match f.sty {
            0 => {
                let mut xs: Vec<BigInt> = Vec::new();
                for it in a {
                    match it {
                        Arg::I(v) => xs.push(v.clone()),
                        _ => return None,
                    }
                }
                match (f.op, f.var) {
                    (16, 0) => Some(R::I(xs.into_iter().sum::<BigInt>())),
                    (16, 1) => Some(R::I(xs.iter().sum::<BigInt>())),
                    (17, 0) => Some(R::I(xs.into_iter().product::<BigInt>())),
                    (17, 1) => Some(R::I(xs.iter().product::<BigInt>())),
                    _ => None,
                }
            }
            4 => scalar_iter!(BigInt, R::I, a, f.op, f.var, U64, u64),
            7 => scalar_iter!(BigInt, R::I, a, f.op, f.var, I8, i8),
            10 => scalar_iter!(BigInt, R::I, a, f.op, f.var, I64, i64),
            11 => scalar_iter!(BigInt, R::I, a, f.op, f.var, I128, i128),
            _ => None,
        },
        _ => {
            if a.len() != 2 {
                return None;
            }
            run_binary(f, &a[0], &a[1])
        }
    }
}

fn run_binary(f: &Form, l: &Arg, r: &Arg) -> Option<R> {
    match (f.k, l, r) {
        // ---- BigUint
        (1, Arg::U(x), Arg::U(y)) => match (f.op, f.shape, f.sty) {
            (1, 0 | 4, 0) => u_add_b(x, y, f.shape, f.var),
            (2, 0 | 4, 0) => u_sub_b(x, y, f.shape, f.var),
            (3, 0 | 4, 0) => u_mul_b(x, y, f.shape, f.var),
            (4, 0 | 4, 0) => u_div_b(x, y, f.shape, f.var),
            (5, 0 | 4, 0) => u_rem_b(x, y, f.shape, f.var),
            (6, 0 | 4, 0) => u_and_b(x, y, f.shape, f.var),
            (7, 0 | 4, 0) => u_or_b(x, y, f.shape, f.var),
            (8, 0 | 4, 0) => u_xor_b(x, y, f.shape, f.var),
            (11, 1, 13) => u_pow_b(x, y, f.var),
            (12, 0, 0) if f.var == 3 => Some(R::OU(x.checked_add(y))),
            (13, 0, 0) if f.var == 3 => Some(R::OU(x.checked_sub(y))),
            (14, 0, 0) if f.var == 3 => Some(R::OU(x.checked_mul(y))),
            (15, 0, 0) if f.var == 3 => Some(R::OU(x.checked_div(y))),
            _ => None,
        },
        (1, Arg::U(x), Arg::S(s)) if s.sty() == f.sty && (f.shape == 1 || f.shape == 3) => match f.op {
            1 => u_add_s(x, *s, f.shape, f.var),
            2 => u_sub_s(x, *s, f.shape, f.var),
            3 => u_mul_s(x, *s, f.shape, f.var),
            4 => u_div_s(x, *s, f.shape, f.var),
            5 => u_rem_s(x, *s, f.shape, f.var),
            9 => u_shl(x, *s, f.shape, f.var),
            10 => u_shr(x, *s, f.shape, f.var),
            11 if f.shape == 1 => u_pow_s(x, *s, f.var),
            _ => None,
        },
        (1, Arg::S(s), Arg::U(x)) if s.sty() == f.sty => match (f.op, f.shape) {
            (1, 2) => u_add_s(x, *s, 2, f.var),
            (2, 2) => u_sub_s(x, *s, 2, f.var),
            (3, 2) => u_mul_s(x, *s, 2, f.var),
            (4, 2) => u_div_s(x, *s, 2, f.var),
            (5, 2) => u_rem_s(x, *s, 2, f.var),
            (5, 5) => s_rem_assign_u(*s, x, f.var),
            _ => None,
        },
        // ---- BigInt
        (2, Arg::I(x), Arg::I(y)) => match (f.op, f.shape, f.sty) {
            (1, 0 | 4, 0) => i_add_b(x, y, f.shape, f.var),
            (2, 0 | 4, 0) => i_sub_b(x, y, f.shape, f.var),
            (3, 0 | 4, 0) => i_mul_b(x, y, f.shape, f.var),
            (4, 0 | 4, 0) => i_div_b(x, y, f.shape, f.var),
            (5, 0 | 4, 0) => i_rem_b(x, y, f.shape, f.var),
            (6, 0 | 4, 0) => i_and_b(x, y, f.shape, f.var),
            (7, 0 | 4, 0) => i_or_b(x, y, f.shape, f.var),
            (8, 0 | 4, 0) => i_xor_b(x, y, f.shape, f.var),
            (12, 0, 0) if f.var == 3 => Some(R::OI(x.checked_add(y))),
            (13, 0, 0) if f.var == 3 => Some(R::OI(x.checked_sub(y))),
            (14, 0, 0) if f.var == 3 => Some(R::OI(x.checked_mul(y))),
            (15, 0, 0) if f.var == 3 => Some(R::OI(x.checked_div(y))),
            _ => None,
        },
        (2, Arg::I(x), Arg::U(e)) if f.op == 11 && f.shape == 1 && f.sty == 13 => i_pow_b(x, e, f.var),
        (2, Arg::I(x), Arg::S(s)) if s.sty() == f.sty && (f.shape == 1 || f.shape == 3) => match f.op {
            1 => i_add_s(x, *s, f.shape, f.var),
            2 => i_sub_s(x, *s, f.shape, f.var),
            3 => i_mul_s(x, *s, f.shape, f.var),
            4 => i_div_s(x, *s, f.shape, f.var),
            5 => i_rem_s(x, *s, f.shape, f.var),
            9 => i_shl(x, *s, f.shape, f.var),
            10 => i_shr(x, *s, f.shape, f.var),
            11 if f.shape == 1 => i_pow_s(x, *s, f.var),
            _ => None,
        },
        (2, Arg::S(s), Arg::I(x)) if s.sty() == f.sty && f.shape == 2 => match f.op {
            1 => i_add_s(x, *s, 2, f.var),
            2 => i_sub_s(x, *s, 2, f.var),
            3 => i_mul_s(x, *s, 2, f.var),
            4 => i_div_s(x, *s, 2, f.var),
            5 => i_rem_s(x, *s, 2, f.var),
            _ => None,
        },
        _ => None,
    }
}

// ---------------------------------------------------------------------------------------------
// canonical operation: ref/ref big∘big on the losslessly converted operands

fn canon_uu(op: u32, x: &BigUint, y: &BigUint) -> R {
    R::U(match op {
        1 | 12 => x + y,
        2 | 13 => x - y,
        3 | 14 => x * y,
        4 | 15 => x / y,
        5 => x % y,
        6 => x & y,
        7 => x | y,
        8 => x ^ y,
        _ => unreachable!(),
    })
}
fn canon_ii(op: u32, x: &BigInt, y: &BigInt) -> R {
    R::I(match op {
        1 | 12 => x + y,
        2 | 13 => x - y,
        3 | 14 => x * y,
        4 | 15 => x / y,
        5 => x % y,
        6 => x & y,
        7 => x | y,
        8 => x ^ y,
        _ => unreachable!(),
    })
}

fn negshift() -> ! {
    panic!("attempt to shift with negative")
}

fn run_canon(f: &Form, a: &[Arg]) -> Option<R> {
    if f.shape == 6 {
        return Some(if f.k == 1 {
            let mut acc = if f.op == 16 { BigUint::zero() } else { BigUint::one() };
            for it in a {
                let v = match it {
                    Arg::U(v) => v.clone(),
                    Arg::S(s) => s.to_biguint()?,
                    _ => return None,
                };
                acc = if f.op == 16 { &acc + &v } else { &acc * &v };
            }
            R::U(acc)
        } else {
            let mut acc = if f.op == 16 { BigInt::zero() } else { BigInt::one() };
            for it in a {
                let v = match it {
                    Arg::I(v) => v.clone(),
                    Arg::S(s) => s.to_bigint(),
                    _ => return None,
                };
                acc = if f.op == 16 { &acc + &v } else { &acc * &v };
            }
            R::I(acc)
        });
    }
    let (l, r) = (&a[0], &a[1]);
    // shifts and pow: the big operand is on the left, the amount / exponent is converted
    if f.op == 9 || f.op == 10 {
        let s = match r {
            Arg::S(s) => s,
            _ => return None,
        };
        let (neg, k) = s.amount();
        if neg {
            negshift();
        }
        return Some(match (l, f.op) {
            (Arg::U(x), 9) => R::U(x << k),
            (Arg::U(x), _) => R::U(x >> k),
            (Arg::I(x), 9) => R::I(x << k),
            (Arg::I(x), _) => R::I(x >> k),
            _ => return None,
        });
    }
    if f.op == 11 {
        let e = match r {
            Arg::S(s) => s.to_biguint()?,
            Arg::U(e) => e.clone(),
            _ => return None,
        };
        return Some(match l {
            Arg::U(x) => R::U(Pow::pow(x, &e)),
            Arg::I(x) => R::I(Pow::pow(x, &e)),
            _ => return None,
        });
    }
    if f.shape == 5 {
        // scalar %= BigUint: signed scalars are compared through BigInt
        let (s, y) = match (l, r) {
            (Arg::S(s), Arg::U(y)) => (s, y),
            _ => return None,
        };
        return Some(if s.signed() {
            canon_ii(5, &s.to_bigint(), &BigInt::from(y.clone()))
        } else {
            canon_uu(5, &s.to_biguint()?, y)
        });
    }
    if f.k == 1 {
        let cv = |x: &Arg| -> Option<BigUint> {
            match x {
                Arg::U(v) => Some(v.clone()),
                Arg::S(s) => s.to_biguint(),
                _ => None,
            }
        };
        Some(canon_uu(f.op, &cv(l)?, &cv(r)?))
    } else {
        let cv = |x: &Arg| -> Option<BigInt> {
            match x {
                Arg::I(v) => Some(v.clone()),
                Arg::S(s) => Some(s.to_bigint()),
                _ => None,
            }
        };
        Some(canon_ii(f.op, &cv(l)?, &cv(r)?))
    }
}

// ---------------------------------------------------------------------------------------------

fn caught<T>(f: impl FnOnce() -> T) -> Result<T, String> {
    catch_unwind(AssertUnwindSafe(f)).map_err(|e| {
        let msg = if let Some(s) = e.downcast_ref::<&str>() {
            s.to_string()
        } else if let Some(s) = e.downcast_ref::<String>() {
            s.clone()
        } else {
            "?".to_string()
        };
        classify(&msg)
    })
}

/// equality of two printed outcomes up to the wording of a crate-written panic message (`wire::classify`'s
/// `custom:` class stands for whichever documented class is expected)
fn same_outcome(got: &str, want: &str) -> bool {
    got == want
        || (got.starts_with("panic custom:") && want.starts_with("panic ") && !want.starts_with("panic internal:"))
        || (want.starts_with("panic custom:") && got.starts_with("panic ") && !got.starts_with("panic internal:"))
}

/// what the form is expected to print given the canonical outcome
fn expected(f: &Form, canon: &Result<R, String>) -> String {
    let checked = (12..=15).contains(&f.op);
    match canon {
        Ok(r) if checked => match r {
            R::U(v) => opt_u(&Some(v.clone())),
            R::I(v) => opt_i(&Some(v.clone())),
            other => other.show(),
        },
        Ok(r) => r.show(),
        // `custom:`: an explicit panic of the crate whose wording `wire::classify` does not know
        Err(c) if checked && (c == "divzero" || c == "underflow" || c.starts_with("custom:")) => "none".to_string(),
        Err(c) => format!("panic {}", c),
    }
}

fn parse_args(f: &Form, toks: &[&str]) -> Option<Vec<Arg>> {
    let mut out = Vec::with_capacity(toks.len());
    for (i, t) in toks.iter().enumerate() {
        let a = if t.contains(':') {
            Arg::S(Sc::parse(t)?)
        } else if f.k == 1 || (f.op == 11 && f.sty == 13 && i == 1) {
            Arg::U(parse_u(t)?)
        } else {
            Arg::I(parse_i(t)?)
        };
        out.push(a);
    }
    Some(out)
}

fn run(id: u32, toks: &[&str]) -> Option<String> {
    let f = decode(id);
    let args = parse_args(&f, toks)?;
    let form = caught(|| run_form(&f, &args));
    let form: Result<R, String> = match form {
        Ok(None) => return None,
        Ok(Some(r)) => Ok(r),
        Err(c) => Err(c),
    };
    let canon = match caught(|| run_canon(&f, &args)) {
        Ok(None) => return None,
        Ok(Some(r)) => Ok(r),
        Err(c) => Err(c),
    };
    let got = match &form {
        Ok(r) => r.show(),
        Err(c) => format!("panic {}", c),
    };
    if !same_outcome(&got, &expected(&f, &canon)) {
        return Some(format!("panic internal:form-mismatch:{}", id));
    }
    Some(got)
}

/// api-coverage: the `num_traits::{CheckedAdd, CheckedSub, CheckedMul, CheckedDiv}` TRAIT impls called
/// trait-qualified (op `tform`, ids K*10^6 + OP*10^4 + 3 with OP = 12..15).  For BigInt the method-call syntax of
/// `run_binary` resolves to the inherent `BigInt::checked_*`, so the trait impls are only reached here.
fn run_form_t(f: &Form, a: &[Arg]) -> Option<R> {
    if a.len() != 2 || f.shape != 0 || f.sty != 0 || f.var != 3 {
        return None;
    }
    match (f.k, &a[0], &a[1]) {
        (1, Arg::U(x), Arg::U(y)) => match f.op {
            12 => Some(R::OU(CheckedAdd::checked_add(x, y))),
            13 => Some(R::OU(CheckedSub::checked_sub(x, y))),
            14 => Some(R::OU(CheckedMul::checked_mul(x, y))),
            15 => Some(R::OU(CheckedDiv::checked_div(x, y))),
            _ => None,
        },
        (2, Arg::I(x), Arg::I(y)) => match f.op {
            12 => Some(R::OI(CheckedAdd::checked_add(x, y))),
            13 => Some(R::OI(CheckedSub::checked_sub(x, y))),
            14 => Some(R::OI(CheckedMul::checked_mul(x, y))),
            15 => Some(R::OI(CheckedDiv::checked_div(x, y))),
            _ => None,
        },
        _ => None,
    }
}

fn run_t(id: u32, toks: &[&str]) -> Option<String> {
    let f = decode(id);
    let args = parse_args(&f, toks)?;
    let form: Result<R, String> = match caught(|| run_form_t(&f, &args)) {
        Ok(None) => return None,
        Ok(Some(r)) => Ok(r),
        Err(c) => Err(c),
    };
    let canon = match caught(|| run_canon(&f, &args)) {
        Ok(None) => return None,
        Ok(Some(r)) => Ok(r),
        Err(c) => Err(c),
    };
    let got = match &form {
        Ok(r) => r.show(),
        Err(c) => format!("panic {}", c),
    };
    if !same_outcome(&got, &expected(&f, &canon)) {
        return Some(format!("panic internal:form-mismatch:t{}", id));
    }
    Some(got)
}

fn describe(f: &Form) -> String {
    let big = if f.k == 1 { "BigUint" } else { "BigInt" };
    let sym = ["", "+", "-", "*", "/", "%", "&", "|", "^", "<<", ">>", "pow", "checked_add", "checked_sub", "checked_mul", "checked_div", "Sum", "Product"][f.op as usize];
    let sc = STY_NAMES[f.sty as usize];
    let (lref, rref) = (f.var == 2 || f.var == 3, f.var == 1 || f.var == 3);
    let amp = |b: bool| if b { "&" } else { "" };
    match f.shape {
        0 if f.op >= 12 => format!("{}::{}(&self,&{})", big, sym, big),
        0 => format!(
            "{}{}{}{}{}{}",
            amp(lref),
            big,
            sym,
            amp(rref),
            big,
            match f.var {
                4 => "[lhs-spare-capacity]",
                5 => "[rhs-spare-capacity]",
                _ => "",
            }
        ),
        1 if f.op == 11 => format!("Pow::pow({}{},{}{})", amp(lref), big, amp(rref), sc),
        1 => format!("{}{}{}{}{}", amp(lref), big, sym, amp(rref), sc),
        2 => format!("{}{}{}{}{}", amp(lref), sc, sym, amp(rref), big),
        3 => format!("{}{}={}{}", big, sym, amp(f.var == 1), sc),
        4 => format!("{}{}={}{}", big, sym, amp(f.var == 1), big),
        5 => format!("{}{}={}BigUint", sc, sym, amp(f.var == 1)),
        6 => format!("{}::{}(Iterator<Item={}{}>)", big, sym, amp(f.var == 1), if f.sty == 0 { big } else { sc }),
        _ => "?".to_string(),
    }
}

/// enumerate the id space and keep the ids whose form exists (the dispatcher accepts benign operands)
fn forms() -> Vec<(u32, String)> {
    let mut out = Vec::new();
    for k in 1..=2u32 {
        for op in 1..=17u32 {
            for shape in 0..=6u32 {
                for sty in 0..=13u32 {
                    for var in 0..=5u32 {
                        let id = k * 1_000_000 + op * 10_000 + shape * 1_000 + sty * 10 + var;
                        let f = decode(id);
                        let big = |v: u32| if k == 1 { Arg::U(BigUint::from(v)) } else { Arg::I(BigInt::from(v)) };
                        let sc = Sc::of(sty, 2).map(Arg::S);
                        let args: Vec<Arg> = match shape {
                            0 | 4 if sty == 0 => vec![big(6), big(3)],
                            1 if sty == 13 => vec![big(6), Arg::U(BigUint::from(3u32))],
                            1 | 3 => match sc {
                                Some(s) => vec![big(6), s],
                                None => continue,
                            },
                            2 | 5 => match sc {
                                Some(s) => vec![s, if shape == 5 { Arg::U(BigUint::from(3u32)) } else { big(3) }],
                                None => continue,
                            },
                            6 => match (sty, sc) {
                                (0, _) => vec![big(6), big(3)],
                                (_, Some(s)) => vec![s.clone(), s],
                                _ => continue,
                            },
                            _ => continue,
                        };
                        // a panic (e.g. `2 - 6` on BigUint) still means that the arm exists
                        if !matches!(caught(|| run_form(&f, &args)), Ok(None)) {
                            out.push((id, describe(&f)));
                        }
                    }
                }
            }
        }
    }
    out
}

pub fn handle(op: &str, a: &[&str]) -> Option<String> {
    match op {
        "form" => {
            let id: u32 = a.first()?.parse().ok()?;
            run(id, &a[1..])
        }
        "tform" => {
            let id: u32 = a.first()?.parse().ok()?;
            run_t(id, &a[1..])
        }
        "forms" => {
            let fs = forms();
            let body: Vec<String> = fs.iter().map(|(id, d)| format!("{}={}", id, d)).collect();
            Some(format!("ok {} {}", fs.len(), body.join(";")))
        }
        _ => None,
    }
}
