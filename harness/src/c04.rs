//! stream C04: Eq / Ord / Hash / constructors / histories of in-place operations
use crate::wire::*;
use num_bigint::{BigInt, BigUint, Sign};
use num_traits::{One, Zero};
use std::collections::hash_map::DefaultHasher;
use std::hash::{Hash, Hasher};
use std::panic::{self, AssertUnwindSafe};

fn h<T: Hash>(v: &T) -> u64 {
    let mut s = DefaultHasher::new();
    v.hash(&mut s);
    s.finish()
}

/// the digit vector exactly as stored (NOT re-normalised)
pub fn raw_u(v: &BigUint) -> String {
    #[cfg(num_bigint_verif)]
    {
        show_limbs(num_bigint::verif::raw_digits(v))
    }
    #[cfg(not(num_bigint_verif))]
    {
        show_limbs(&v.to_u64_digits())
    }
}

fn canon_u(v: &BigUint) -> bool {
    #[cfg(num_bigint_verif)]
    {
        num_bigint::verif::raw_digits(v).last() != Some(&0)
    }
    #[cfg(not(num_bigint_verif))]
    {
        let _ = v;
        true
    }
}

pub fn raw_i(v: &BigInt) -> String {
    format!("{}{}", show_sign(v.sign()), raw_u(v.magnitude()))
}

fn sign_arg(s: &str) -> Option<Sign> {
    let mut it = s.chars();
    let c = it.next()?;
    if it.next().is_some() {
        return None;
    }
    parse_sign(c)
}

fn ord_c(o: core::cmp::Ordering) -> char {
    match o {
        core::cmp::Ordering::Less => '<',
        core::cmp::Ordering::Equal => '=',
        core::cmp::Ordering::Greater => '>',
    }
}

fn b(x: bool) -> char {
    if x {
        '1'
    } else {
        '0'
    }
}

fn dump(us: &[BigUint], is: &[BigInt]) -> String {
    let mut out = String::new();
    out.push_str("U ");
    out.push_str(&us.iter().map(raw_u).collect::<Vec<_>>().join(" "));
    out.push_str(" I ");
    out.push_str(&is.iter().map(raw_i).collect::<Vec<_>>().join(" "));
    out.push_str(" P ");
    for j in 0..us.len() {
        for k in j + 1..us.len() {
            out.push(ord_c(us[j].cmp(&us[k])));
            out.push(b(us[j] == us[k]));
            out.push(b(h(&us[j]) == h(&us[k])));
        }
    }
    out.push(';');
    for j in 0..is.len() {
        for k in j + 1..is.len() {
            out.push(ord_c(is[j].cmp(&is[k])));
            out.push(b(is[j] == is[k]));
            out.push(b(h(&is[j]) == h(&is[k])));
        }
    }
    out.push_str(" F ");
    for a in us {
        if !canon_u(a) {
            // broken invariant: already visible in the raw dump above; the export routines may not
            // terminate on such a value, so they are not called
            out.push_str("!!!!");
            continue;
        }
        // the same integer, freshly built through another public path
        let f = BigUint::from_slice(&a.to_u32_digits());
        out.push(ord_c(a.cmp(&f)));
        out.push(b(*a == f));
        out.push(b(h(a) == h(&f)));
        out.push(b(a.to_u64_digits() == f.to_u64_digits()
            && a.to_bytes_le() == f.to_bytes_le()
            && a.to_u32_digits() == f.to_u32_digits()));
    }
    out.push(';');
    for a in is {
        if !canon_u(a.magnitude()) || ((a.sign() == Sign::NoSign) != a.magnitude().is_zero()) {
            out.push_str("!!!!");
            continue;
        }
        let f = BigInt::from_slice(a.sign(), &a.magnitude().to_u32_digits());
        out.push(ord_c(a.cmp(&f)));
        out.push(b(*a == f));
        out.push(b(h(a) == h(&f)));
        out.push(b(a.to_u64_digits() == f.to_u64_digits()
            && a.to_bytes_le() == f.to_bytes_le()
            && a.to_signed_bytes_le() == f.to_signed_bytes_le()
            && a.to_u32_digits() == f.to_u32_digits()));
    }
    out
}

fn parse_imm(s: &str) -> Option<Vec<u64>> {
    if s.is_empty() {
        return Some(vec![]);
    }
    s.split(',').map(|t| u64::from_str_radix(t, 16).ok()).collect()
}

fn words(imm: &[u64]) -> Option<Vec<u32>> {
    imm.iter().map(|&w| u32::try_from(w).ok()).collect()
}

fn sign_code(c: u64) -> Option<Sign> {
    match c {
        0 => Some(Sign::Minus),
        1 => Some(Sign::NoSign),
        2 => Some(Sign::Plus),
        _ => None,
    }
}

fn panic_class(e: &(dyn std::any::Any + Send)) -> String {
    let msg = if let Some(s) = e.downcast_ref::<&str>() {
        s.to_string()
    } else if let Some(s) = e.downcast_ref::<String>() {
        s.clone()
    } else {
        "?".to_string()
    };
    classify(&msg)
}

/// a `u128` from two 64-bit immediates `[lo, hi]` starting at index `at`
fn u128_of(imm: &[u64], at: usize) -> Option<u128> {
    Some((*imm.get(at)? as u128) | ((*imm.get(at + 1)? as u128) << 64))
}

/// an in-place operation with a documented failure (`-=` underflow, `/=` `%=` by zero): it is
/// attempted in place; if it panics with the documented class the target is restored from a clone
/// taken before the attempt (the register keeps its value); any other panic propagates
fn attempt<T: Clone>(reg: &mut T, class: &str, f: impl FnOnce(&mut T)) {
    let backup = reg.clone();
    let r = panic::catch_unwind(AssertUnwindSafe(|| f(reg)));
    if let Err(e) = r {
        let c = panic_class(&*e);
        // `custom:`: a message the crate wrote itself whose wording the table does not know (see wire::classify)
        if c == class || c.starts_with("custom:") {
            *reg = backup;
        } else {
            panic::resume_unwind(e);
        }
    }
}

fn hist(a: &[&str]) -> Option<String> {
    let nu: usize = a.first()?.parse().ok()?;
    let ni: usize = a.get(1)?.parse().ok()?;
    let semi = a.iter().position(|t| *t == ";")?;
    if semi != 2 + nu + ni {
        return None;
    }
    let mut us: Vec<BigUint> = a[2..2 + nu].iter().map(|t| parse_u(t)).collect::<Option<_>>()?;
    let mut is: Vec<BigInt> = a[2 + nu..semi].iter().map(|t| parse_i(t)).collect::<Option<_>>()?;
    let mut dumps = Vec::new();
    for t in &a[semi + 1..] {
        if *t == "!" {
            dumps.push(dump(&us, &is));
            continue;
        }
        let f: Vec<&str> = t.split(':').collect();
        if f.len() < 4 || f.len() > 5 {
            return None;
        }
        let d: usize = f[2].parse().ok()?;
        let s: usize = f[3].parse().ok()?;
        let imm = parse_imm(if f.len() == 5 { f[4] } else { "" })?;
        match f[0] {
            "u" => {
                if d >= nu || s >= nu {
                    return None;
                }
                let src = us[s].clone();
                match f[1] {
                    "add" => us[d] += &src,
                    "sub" => attempt(&mut us[d], "underflow", |x| *x -= &src),
                    "zero" => us[d].set_zero(),
                    "one" => us[d].set_one(),
                    "clone" => us[d].clone_from(&src),
                    "asg" => us[d].assign_from_slice(&words(&imm)?),
                    "mul" => us[d] *= &src,
                    "mul32" => us[d] *= u32::try_from(*imm.first()?).ok()?,
                    "mul64" => us[d] *= *imm.first()?,
                    "mul128" => us[d] *= u128_of(&imm, 0)?,
                    "div" => attempt(&mut us[d], "divzero", |x| *x /= &src),
                    "rem" => attempt(&mut us[d], "divzero", |x| *x %= &src),
                    "shl" => us[d] <<= usize::try_from(*imm.first()?).ok()?,
                    "shr" => us[d] >>= usize::try_from(*imm.first()?).ok()?,
                    "and" => us[d] &= &src,
                    "or" => us[d] |= &src,
                    "xor" => us[d] ^= &src,
                    "setbit" => us[d].set_bit(*imm.first()?, *imm.get(1)? != 0),
                    _ => return None,
                }
            }
            "i" => {
                if d >= ni || s >= ni {
                    return None;
                }
                let src = is[s].clone();
                match f[1] {
                    "add" => is[d] += &src,
                    "sub" => is[d] -= &src,
                    "zero" => is[d].set_zero(),
                    "one" => is[d].set_one(),
                    "clone" => is[d].clone_from(&src),
                    "asg" => {
                        let sg = sign_code(*imm.first()?)?;
                        is[d].assign_from_slice(sg, &words(&imm[1..])?)
                    }
                    "neg" => {
                        let v = std::mem::take(&mut is[d]);
                        is[d] = -v;
                    }
                    "mul" => is[d] *= &src,
                    "mul128" => is[d] *= u128_of(&imm, 0)?,
                    "muli128" => {
                        let m = u128_of(&imm, 1)?;
                        let v: i128 = if *imm.first()? == 1 { m.wrapping_neg() as i128 } else { m as i128 };
                        is[d] *= v
                    }
                    "div" => attempt(&mut is[d], "divzero", |x| *x /= &src),
                    "rem" => attempt(&mut is[d], "divzero", |x| *x %= &src),
                    "shl" => is[d] <<= usize::try_from(*imm.first()?).ok()?,
                    "shr" => is[d] >>= usize::try_from(*imm.first()?).ok()?,
                    "and" => is[d] &= &src,
                    "or" => is[d] |= &src,
                    "xor" => is[d] ^= &src,
                    "setbit" => is[d].set_bit(*imm.first()?, *imm.get(1)? != 0),
                    _ => return None,
                }
            }
            _ => return None,
        }
    }
    dumps.push(dump(&us, &is));
    Some(format!("ok {}", dumps.join(" / ")))
}

// ---------------------------------------------------------------------------------------------
// api-coverage additions: PartialOrd (provided `< <= > >=` through `partial_cmp`), `!=`, Clone::clone, and the
// values produced by the crate's `arbitrary::Arbitrary` / `quickcheck::Arbitrary` impls (harness features
// `arbitrary` / `quickcheck`).

fn opt_ord(o: Option<core::cmp::Ordering>) -> String {
    match o {
        Some(o) => format!("some {}", show_ord(o)),
        None => "none".to_string(),
    }
}

/// `< <= > >= !=` as five flags
fn rel5<T: PartialOrd>(x: &T, y: &T) -> String {
    format!("ok {}{}{}{}{}", b(x < y), b(x <= y), b(x > y), b(x >= y), b(x != y))
}

fn canon_i(v: &BigInt) -> bool {
    canon_u(v.magnitude()) && ((v.sign() == Sign::NoSign) == v.magnitude().is_zero())
}

#[cfg(feature = "arbitrary")]
fn arb_u(r: arbitrary::Result<BigUint>) -> String {
    match r {
        Ok(v) => format!("ok {}", raw_u(&v)),
        Err(_) => "err".to_string(),
    }
}
#[cfg(feature = "arbitrary")]
fn arb_i(r: arbitrary::Result<BigInt>) -> String {
    match r {
        Ok(v) => format!("ok {}", raw_i(&v)),
        Err(_) => "err".to_string(),
    }
}
#[cfg(feature = "arbitrary")]
fn hint(h: (usize, Option<usize>)) -> String {
    match h {
        (lo, Some(hi)) => format!("ok {} {}", lo, hi),
        (lo, None) => format!("ok {} none", lo),
    }
}

/// `normalize` as the specification of `biguint_from_vec`: drop high zero digits (independent of the crate)
#[cfg(feature = "quickcheck")]
fn strip(mut v: Vec<u64>) -> Vec<u64> {
    while v.last() == Some(&0) {
        v.pop();
    }
    v
}

/// `quickcheck::Arbitrary for BigUint`: the value generated from `Gen::from_size_and_seed(size, seed)` must be
/// canonical and must be the normalised `Vec::<u64>::arbitrary` of an identically seeded `Gen` (the impl makes
/// exactly that one call); every `shrink()` candidate (first `lim`) likewise against `Vec<u64>::shrink`.
/// Answer: `ok <canonical> <matches the reference> <all shrink candidates canonical and matching>`.
#[cfg(feature = "quickcheck")]
fn qc_u(size: usize, seed: u64, lim: usize) -> String {
    use quickcheck::{Arbitrary, Gen};
    let mut g1 = Gen::from_size_and_seed(size, seed);
    let mut g2 = Gen::from_size_and_seed(size, seed);
    let x = BigUint::arbitrary(&mut g1);
    let reference = Vec::<u64>::arbitrary(&mut g2);
    let want = strip(reference);
    let canon = canon_u(&x);
    let same = raw_u(&x) == show_limbs(&want);
    let mut shr_ok = true;
    if canon {
        let mut refs = x.to_u64_digits().shrink();
        let mut n = 0;
        for c in x.shrink() {
            let r = refs.next();
            if !canon_u(&c) || r.map(|r| show_limbs(&strip(r))) != Some(raw_u(&c)) {
                shr_ok = false;
                break;
            }
            n += 1;
            if n >= lim {
                break;
            }
        }
        if n < lim && shr_ok && refs.next().is_some() {
            shr_ok = false; // the crate's shrinker stopped early
        }
    }
    format!("ok {}{}{}", b(canon), b(same), b(shr_ok))
}

/// `quickcheck::Arbitrary for BigInt`: `bool::arbitrary` picks Plus / Minus, then `BigUint::arbitrary`; the
/// result must be canonical (NoSign exactly for a zero magnitude) and equal to that reference; shrink candidates
/// keep the sign of the value and shrink the magnitude.
#[cfg(feature = "quickcheck")]
fn qc_i(size: usize, seed: u64, lim: usize) -> String {
    use quickcheck::{Arbitrary, Gen};
    let mut g1 = Gen::from_size_and_seed(size, seed);
    let mut g2 = Gen::from_size_and_seed(size, seed);
    let x = BigInt::arbitrary(&mut g1);
    let positive = bool::arbitrary(&mut g2);
    let want = strip(Vec::<u64>::arbitrary(&mut g2));
    let want_sign = if want.is_empty() {
        Sign::NoSign
    } else if positive {
        Sign::Plus
    } else {
        Sign::Minus
    };
    let canon = canon_i(&x);
    let same = raw_i(&x) == format!("{}{}", show_sign(want_sign), show_limbs(&want));
    let mut shr_ok = true;
    if canon {
        let sign = x.sign();
        let mut refs = x.magnitude().to_u64_digits().shrink();
        let mut n = 0;
        for c in x.shrink() {
            let r = refs.next().map(strip);
            let ok = match r {
                Some(r) => {
                    let s = if r.is_empty() { Sign::NoSign } else { sign };
                    raw_i(&c) == format!("{}{}", show_sign(s), show_limbs(&r))
                }
                None => false,
            };
            if !canon_i(&c) || !ok {
                shr_ok = false;
                break;
            }
            n += 1;
            if n >= lim {
                break;
            }
        }
        if n < lim && shr_ok && refs.next().is_some() {
            shr_ok = false;
        }
    }
    format!("ok {}{}{}", b(canon), b(same), b(shr_ok))
}

pub fn handle(op: &str, a: &[&str]) -> Option<String> {
    Some(match (op, a) {
        ("u.partial_cmp", [x, y]) => opt_ord(parse_u(x)?.partial_cmp(&parse_u(y)?)),
        ("i.partial_cmp", [x, y]) => opt_ord(parse_i(x)?.partial_cmp(&parse_i(y)?)),
        ("u.rel", [x, y]) => rel5(&parse_u(x)?, &parse_u(y)?),
        ("i.rel", [x, y]) => rel5(&parse_i(x)?, &parse_i(y)?),
        ("u.clone", [x]) => format!("ok {}", raw_u(&parse_u(x)?.clone())),
        ("i.clone", [x]) => format!("ok {}", raw_i(&parse_i(x)?.clone())),
        #[cfg(feature = "arbitrary")]
        ("arb.u", [bs]) => {
            let bytes = parse_bytes(bs)?;
            arb_u(<BigUint as arbitrary::Arbitrary>::arbitrary(&mut arbitrary::Unstructured::new(&bytes)))
        }
        #[cfg(feature = "arbitrary")]
        ("arb.u_rest", [bs]) => {
            let bytes = parse_bytes(bs)?;
            arb_u(<BigUint as arbitrary::Arbitrary>::arbitrary_take_rest(arbitrary::Unstructured::new(&bytes)))
        }
        #[cfg(feature = "arbitrary")]
        ("arb.i", [bs]) => {
            let bytes = parse_bytes(bs)?;
            arb_i(<BigInt as arbitrary::Arbitrary>::arbitrary(&mut arbitrary::Unstructured::new(&bytes)))
        }
        #[cfg(feature = "arbitrary")]
        ("arb.i_rest", [bs]) => {
            let bytes = parse_bytes(bs)?;
            arb_i(<BigInt as arbitrary::Arbitrary>::arbitrary_take_rest(arbitrary::Unstructured::new(&bytes)))
        }
        #[cfg(feature = "arbitrary")]
        ("arb.u_size_hint", [d]) => hint(<BigUint as arbitrary::Arbitrary>::size_hint(d.parse().ok()?)),
        #[cfg(feature = "arbitrary")]
        ("arb.i_size_hint", [d]) => hint(<BigInt as arbitrary::Arbitrary>::size_hint(d.parse().ok()?)),
        #[cfg(feature = "quickcheck")]
        ("qc.u", [size, seed]) => {
            let size: usize = size.parse().ok()?;
            if size == 0 {
                return None; // `Vec::arbitrary` samples `0..size`
            }
            qc_u(size, seed.parse().ok()?, 300)
        }
        #[cfg(feature = "quickcheck")]
        ("qc.i", [size, seed]) => {
            let size: usize = size.parse().ok()?;
            if size == 0 {
                return None;
            }
            qc_i(size, seed.parse().ok()?, 300)
        }
        ("u.cmp", [x, y]) => show_ord(parse_u(x)?.cmp(&parse_u(y)?)).to_string(),
        ("i.cmp", [x, y]) => show_ord(parse_i(x)?.cmp(&parse_i(y)?)).to_string(),
        ("u.eq", [x, y]) => show_bool(parse_u(x)? == parse_u(y)?).to_string(),
        ("i.eq", [x, y]) => show_bool(parse_i(x)? == parse_i(y)?).to_string(),
        ("u.hash_eq", [x, y]) => show_bool(h(&parse_u(x)?) == h(&parse_u(y)?)).to_string(),
        ("i.hash_eq", [x, y]) => show_bool(h(&parse_i(x)?) == h(&parse_i(y)?)).to_string(),
        ("u.max", [x, y]) => format!("ok {}", raw_u(&parse_u(x)?.max(parse_u(y)?))),
        ("u.min", [x, y]) => format!("ok {}", raw_u(&parse_u(x)?.min(parse_u(y)?))),
        ("i.max", [x, y]) => format!("ok {}", raw_i(&parse_i(x)?.max(parse_i(y)?))),
        ("i.min", [x, y]) => format!("ok {}", raw_i(&parse_i(x)?.min(parse_i(y)?))),
        ("u.sort", l) => {
            let mut v: Vec<BigUint> = l.iter().map(|t| parse_u(t)).collect::<Option<_>>()?;
            v.sort();
            format!("ok {}", v.iter().map(raw_u).collect::<Vec<_>>().join(" "))
        }
        ("i.sort", l) => {
            let mut v: Vec<BigInt> = l.iter().map(|t| parse_i(t)).collect::<Option<_>>()?;
            v.sort();
            format!("ok {}", v.iter().map(raw_i).collect::<Vec<_>>().join(" "))
        }
        ("u.new", [w]) => format!("ok {}", raw_u(&BigUint::new(parse_words(w)?))),
        ("u.from_slice", [w]) => format!("ok {}", raw_u(&BigUint::from_slice(&parse_words(w)?))),
        ("u.assign_from_slice", [old, w]) => {
            let mut v = parse_u(old)?;
            v.assign_from_slice(&parse_words(w)?);
            format!("ok {}", raw_u(&v))
        }
        ("i.from_biguint", [s, m]) => format!("ok {}", raw_i(&BigInt::from_biguint(sign_arg(s)?, parse_u(m)?))),
        ("i.new", [s, w]) => format!("ok {}", raw_i(&BigInt::new(sign_arg(s)?, parse_words(w)?))),
        ("i.from_slice", [s, w]) => format!("ok {}", raw_i(&BigInt::from_slice(sign_arg(s)?, &parse_words(w)?))),
        ("i.assign_from_slice", [old, s, w]) => {
            let mut v = parse_i(old)?;
            v.assign_from_slice(sign_arg(s)?, &parse_words(w)?);
            format!("ok {}", raw_i(&v))
        }
        ("hist", l) => hist(l)?,
        _ => return None,
    })
}

#[allow(dead_code)]
fn _types(_: BigInt, _: BigUint) {
    let _ = (BigUint::one(), BigInt::zero());
}
