/- driver handlers for stream C13 (gcd, lcm, Bézout coefficients, multiple-of helpers).
   `extended_gcd` / `extended_gcd_lcm` print the coefficients (not unique mathematically, so the
   oracle column is `-`: implementation vs model only); the `.id` variants print `g` and `a*x + b*y`
   (computed by the harness with BigInt arithmetic) against the oracle `gcd gcd`. -/
import NB.Wire
import NB.Model.Gcd
namespace NB.Drv.C13
open NB NB.Wire NB.Gcd NB.IntVal

def lu (n : Nat) : String := showLimbs (ofNat n)
def li (i : Int) : String := showBigInt (BigInt.ofInt i)
def su := showExcept lu
def si := showExcept li
def sb := showExcept (fun b : Bool => showBool b)
def suu := showExcept (fun (p : Nat × Nat) => lu p.1 ++ " " ++ lu p.2)
def sii := showExcept (fun (p : Int × Int) => li p.1 ++ " " ++ li p.2)

def oNextU (a b : Nat) : Except Panic Nat := if b = 0 then .error .divzero else .ok ((a + b - 1) / b * b)
def oPrevU (a b : Nat) : Except Panic Nat := if b = 0 then .error .divzero else .ok (a / b * b)
def oNextI (a b : Int) : Except Panic Int := if b = 0 then .error .divzero else .ok (a + Int.fmod (-a) b)
def oPrevI (a b : Int) : Except Panic Int := if b = 0 then .error .divzero else .ok (a - Int.fmod a b)
def oDecU (a : Nat) : Except Panic Nat := if a = 0 then .error .underflow else .ok (a - 1)

def handle (op : String) (args : List String) : Option (String × String) :=
  match op, args with
  | "u.gcd", [a, b] => do
    let a ← parseLimbs a; let b ← parseLimbs b
    pure (su (gcd (val a) (val b)), su (.ok (Nat.gcd (val a) (val b))))
  | "u.lcm", [a, b] => do
    let a ← parseLimbs a; let b ← parseLimbs b
    pure (su (lcm (val a) (val b)), su (.ok (Nat.lcm (val a) (val b))))
  | "u.gcd_lcm", [a, b] => do
    let a ← parseLimbs a; let b ← parseLimbs b
    pure (suu (gcdLcm (val a) (val b)), suu (.ok (Nat.gcd (val a) (val b), Nat.lcm (val a) (val b))))
  | "u.is_multiple_of", [a, b] => do
    let a ← parseLimbs a; let b ← parseLimbs b
    pure (sb (isMultipleOf (val a) (val b)), sb (.ok (decide (val a % val b = 0))))
  | "u.next_multiple_of", [a, b] => do
    let a ← parseLimbs a; let b ← parseLimbs b
    pure (su (nextMultipleOf (val a) (val b)), su (oNextU (val a) (val b)))
  | "u.prev_multiple_of", [a, b] => do
    let a ← parseLimbs a; let b ← parseLimbs b
    pure (su (prevMultipleOf (val a) (val b)), su (oPrevU (val a) (val b)))
  | "u.is_even", [a] => do
    let a ← parseLimbs a
    pure (sb (.ok (isEven a)), sb (.ok (decide (val a % 2 = 0))))
  | "u.is_odd", [a] => do
    let a ← parseLimbs a
    pure (sb (.ok (isOdd a)), sb (.ok (decide (val a % 2 = 1))))
  | "u.inc", [a] => do
    let a ← parseLimbs a
    pure (su (inc (val a)), su (.ok (val a + 1)))
  | "u.dec", [a] => do
    let a ← parseLimbs a
    pure (su (dec (val a)), su (oDecU (val a)))
  | "i.gcd", [a, b] => do
    let a ← parseBigInt a; let b ← parseBigInt b
    pure (si (bigintGcd a.val b.val), si (.ok (Int.gcd a.val b.val : Nat)))
  | "i.lcm", [a, b] => do
    let a ← parseBigInt a; let b ← parseBigInt b
    pure (si (bigintLcm a.val b.val), si (.ok (Int.lcm a.val b.val : Nat)))
  | "i.gcd_lcm", [a, b] => do
    let a ← parseBigInt a; let b ← parseBigInt b
    pure (sii (bigintGcdLcm a.val b.val), sii (.ok ((Int.gcd a.val b.val : Nat), (Int.lcm a.val b.val : Nat))))
  | "i.extended_gcd", [a, b] => do
    let a ← parseBigInt a; let b ← parseBigInt b
    let m := showExcept (fun (r : Int × Int × Int) => li r.1 ++ " " ++ li r.2.1 ++ " " ++ li r.2.2) (extendedGcd a.val b.val)
    pure (m, "-")
  | "i.extended_gcd.id", [a, b] => do
    let a ← parseBigInt a; let b ← parseBigInt b
    let m := showExcept (fun (r : Int × Int × Int) => li r.1 ++ " " ++ li (a.val * r.2.1 + b.val * r.2.2)) (extendedGcd a.val b.val)
    let g : Int := (Int.gcd a.val b.val : Nat)
    pure (m, "ok " ++ li g ++ " " ++ li g)
  | "i.extended_gcd_lcm", [a, b] => do
    let a ← parseBigInt a; let b ← parseBigInt b
    let m := showExcept (fun (r : (Int × Int × Int) × Int) =>
      li r.1.1 ++ " " ++ li r.1.2.1 ++ " " ++ li r.1.2.2 ++ " " ++ li r.2) (extendedGcdLcm a.val b.val)
    pure (m, "-")
  | "i.extended_gcd_lcm.id", [a, b] => do
    let a ← parseBigInt a; let b ← parseBigInt b
    let m := showExcept (fun (r : (Int × Int × Int) × Int) =>
      li r.1.1 ++ " " ++ li (a.val * r.1.2.1 + b.val * r.1.2.2) ++ " " ++ li r.2) (extendedGcdLcm a.val b.val)
    let g : Int := (Int.gcd a.val b.val : Nat)
    let l : Int := (Int.lcm a.val b.val : Nat)
    pure (m, "ok " ++ li g ++ " " ++ li g ++ " " ++ li l)
  | "i.is_multiple_of", [a, b] => do
    let a ← parseBigInt a; let b ← parseBigInt b
    pure (sb (bigintIsMultipleOf a.val b.val), sb (.ok (decide (a.val % b.val = 0))))
  | "i.next_multiple_of", [a, b] => do
    let a ← parseBigInt a; let b ← parseBigInt b
    pure (si (bigintNextMultipleOf a.val b.val), si (oNextI a.val b.val))
  | "i.prev_multiple_of", [a, b] => do
    let a ← parseBigInt a; let b ← parseBigInt b
    pure (si (bigintPrevMultipleOf a.val b.val), si (oPrevI a.val b.val))
  | "i.is_even", [a] => do
    let a ← parseBigInt a
    pure (sb (.ok (isEven a.mag)), sb (.ok (decide (a.val % 2 = 0))))
  | "i.is_odd", [a] => do
    let a ← parseBigInt a
    pure (sb (.ok (isOdd a.mag)), sb (.ok (decide (a.val % 2 = 1))))
  | "i.inc", [a] => do
    let a ← parseBigInt a
    pure (si (bigintInc a.val), si (.ok (a.val + 1)))
  | "i.dec", [a] => do
    let a ← parseBigInt a
    pure (si (bigintDec a.val), si (.ok (a.val - 1)))
  | _, _ => none

end NB.Drv.C13
