/-
  C09 — Byte and digit-vector import/export is exact, minimal and order-consistent; the u32/u64
  digit iterators are exact-size double-ended iterators under any interleaving of calls.

  All theorems are about the executable models NB.Model.Bytes / NB.Model.Iter (transcribed from
  src/biguint.rs, src/biguint/{convert,iter}.rs, src/bigint.rs, src/bigint/convert.rs, 64-bit digit
  configuration, and correspondence-checked against the real crate on every run).  The specs are
  Mathlib's positional digits `Nat.digits` / `Nat.ofDigits` in base 2^8, 2^32, 2^64 and the
  two's-complement value `tcDecode` of a little-endian byte string.

  Shape: "for ALL canonical values / ALL byte or word slices (any padding, any length, odd word
  counts, empty) the model returns exactly the spec", and for the iterator a REFINEMENT:
  abstraction `Iter.abs`, invariant `Iter.Inv`, one lemma per method, lifted by induction to every
  finite sequence of calls (`iter32_refines`).  Nothing is `_partial`: D3 (`last`) is fixed in the
  tree (`last = next_back`) and `last` refines like every other method.
-/
import NB.Lemmas.Bytes
import NB.Lemmas.Iter
namespace NB
open NB.Bytes NB.Iter

/-! ## magnitude bytes -/

/-- `to_bytes_le`: `[0]` for zero, otherwise exactly the base-256 digits (LSB first, no padding) -/
theorem to_bytes_le_spec (u : List Nat) (hc : Canon u) :
    toBytesLe u = .ok (if val u = 0 then [0] else Nat.digits 256 (val u)) := by
  by_cases hne : u = []
  · subst hne; simp [toBytesLe, val]
  · obtain ⟨bytes, h1, h2, h3, _, h5⟩ := toBytesLe_struct hc hne
    have hpos := canon_val_pos hc hne
    have : ¬ (val u = 0) := by omega
    simp only [this, if_false]
    rw [h1, ← h5, ← digits_unique (by decide) h2 h3]

/-- `to_bytes_be` is the same digit string, most significant byte first -/
theorem to_bytes_be_spec (u : List Nat) (hc : Canon u) :
    toBytesBe u = .ok (if val u = 0 then [0] else (Nat.digits 256 (val u)).reverse) := by
  unfold toBytesBe
  rw [to_bytes_le_spec u hc]
  by_cases h : val u = 0 <;> simp [h]

/-- `from_bytes_le/be` accept ANY byte slice (empty, all-zero, arbitrary zero padding at the
    significant end) and return the canonical representation of the denoted value -/
theorem from_bytes_val (bs : List Nat) (h : Below 256 bs) :
    fromBytesLe bs = .ok (ofNat (Nat.ofDigits 256 bs)) ∧
    fromBytesBe bs = .ok (ofNat (Nat.ofDigits 256 bs.reverse)) := by
  rw [← valBase_eq_ofDigits, ← valBase_eq_ofDigits]
  exact ⟨fromBytesLe_eq bs h, fromBytesBe_eq bs h⟩

/-- redundant zero padding does not change the imported value -/
theorem from_bytes_padding (bs : List Nat) (k : Nat) (h : Below 256 bs) :
    fromBytesLe (bs ++ List.replicate k 0) = fromBytesLe bs ∧
    fromBytesBe (List.replicate k 0 ++ bs) = fromBytesBe bs := by
  have hp : Below 256 (bs ++ List.replicate k 0) :=
    h.append (fun x hx => by rw [List.eq_of_mem_replicate hx]; decide)
  have hp' : Below 256 (List.replicate k 0 ++ bs) :=
    Below.append (fun x hx => by rw [List.eq_of_mem_replicate hx]; decide) h
  constructor
  · rw [(from_bytes_val _ hp).1, (from_bytes_val _ h).1, Nat.ofDigits_append_replicate_zero]
  · rw [(from_bytes_val _ hp').2, (from_bytes_val _ h).2, List.reverse_append, List.reverse_replicate,
      Nat.ofDigits_append_replicate_zero]

/-- export then import is the identity -/
theorem bytes_round_trip (u : List Nat) (hc : Canon u) :
    ∃ bs, toBytesLe u = .ok bs ∧ fromBytesLe bs = .ok u ∧ fromBytesBe bs.reverse = .ok u := by
  refine ⟨_, to_bytes_le_spec u hc, ?_⟩
  have hb : Below 256 (if val u = 0 then [0] else Nat.digits 256 (val u)) := by
    split
    · exact Below.cons (by decide) Below.nil
    · exact fun x hx => Nat.digits_lt_base (by decide) hx
  have hv : Nat.ofDigits 256 (if val u = 0 then [0] else Nat.digits 256 (val u)) = val u := by
    split
    · next h => simp [h]
    · exact Nat.ofDigits_digits _ _
  rw [(from_bytes_val _ hb).1, (from_bytes_val _ hb.reverse).2, List.reverse_reverse, hv,
    ← canon_eq_ofNat hc]
  exact ⟨rfl, rfl⟩

/-! ## two's-complement bytes -/

/-- big-endian forms are the little-endian forms on the reversed string -/
theorem from_signed_bytes_be_eq (bs : List Nat) : fromSignedBytesBe bs = fromSignedBytesLe bs.reverse := by
  unfold fromSignedBytesBe fromSignedBytesLe
  cases bs with
  | nil => rfl
  | cons b rest =>
    have hne : ((b :: rest).isEmpty) = false := rfl
    have hne2 : (twosGo true (b :: rest).reverse).reverse.isEmpty = false := by
      cases h : (twosGo true (b :: rest).reverse).reverse with
      | nil =>
        have := congrArg List.length h
        simp [twosGo_length] at this
      | cons _ _ => rfl
    simp only [List.head?_cons, List.getLast?_reverse, fromBytesBe, hne, hne2, Bool.false_eq_true, if_false,
      twosComplementBe, twosComplementLe, List.reverse_reverse]


theorem to_signed_bytes_be_eq (x : BigInt) :
    toSignedBytesBe x = (toSignedBytesLe x).map List.reverse := by
  unfold toSignedBytesBe toSignedBytesLe toBytesBe
  cases h : toBytesLe x.mag with
  | error e => rfl
  | ok bytes =>
    simp only [Except.map, List.head?_reverse, twosComplementBe, twosComplementLe]
    split_ifs <;> simp

/-- `from_signed_bytes_le/be`: ANY byte string (empty, any amount of 0x00… / 0xff… sign-extension
    padding) is read as its two's-complement value, and the result is canonical -/
theorem from_signed_bytes_val (bs : List Nat) (h : Below 256 bs) :
    fromSignedBytesLe bs = .ok (BigInt.ofInt (tcDecode bs)) ∧
    fromSignedBytesBe bs = .ok (BigInt.ofInt (tcDecode bs.reverse)) := by
  have le : ∀ bs, Below 256 bs → fromSignedBytesLe bs = .ok (BigInt.ofInt (tcDecode bs)) := by
    intro bs h
    rcases List.eq_nil_or_concat bs with h0 | ⟨init, t, rfl⟩
    · subst h0; simp [fromSignedBytesLe, tcDecode, BigInt.ofInt]
    · simp only [List.concat_eq_append] at *
      rw [tcDecode_snoc]
      unfold fromSignedBytesLe
      simp only [List.getLast?_append, List.getLast?_singleton, Option.some_or]
      by_cases ht : t > 127
      · obtain ⟨t1, t2, t3⟩ := twosGo_true_spec (init ++ [t]) h
        have hge := (top_gt_iff (t := t) h.left).mp ht
        have hpos : 0 < 256 ^ init.length := Nat.pow_pos (by decide)
        have hne : ¬ (valBase 256 (init ++ [t]) = 0) := by omega
        simp only [hne, if_false, List.length_append, List.length_cons, List.length_nil, Nat.zero_add] at t3
        simp only [ht, if_true, twosComplementLe, fromBytesLe_eq _ t2]
        rw [fromBiguint_minus (ofNat_canon _), ofNat_val]
        congr 2
        have hlt := valBase_lt h
        simp only [List.length_append, List.length_cons, List.length_nil, Nat.zero_add] at hlt
        generalize valBase 256 (twosGo true (init ++ [t])) = V at *
        generalize valBase 256 (init ++ [t]) = M at *
        generalize 256 ^ (init.length + 1) = P at *
        omega
      · simp only [ht, if_false, fromBytesLe_eq _ h]
        have : (Sign.plus = Sign.minus) = False := by simp
        simp only [this, if_false]
        rw [fromBiguint_plus (ofNat_canon _), ofNat_val]
  refine ⟨le bs h, ?_⟩
  rw [from_signed_bytes_be_eq, le _ h.reverse]

/-- sign-extension padding (0xff… for negative, 0x00… for non-negative values) at the significant
    end does not change the two's-complement value -/
theorem tcDecode_sign_extend (bs : List Nat) (k : Nat) (h : Below 256 bs) (hne : bs ≠ []) :
    tcDecode (bs ++ List.replicate k (if tcDecode bs < 0 then 255 else 0)) = tcDecode bs := by
  induction k with
  | zero => simp
  | succ k ih =>
    rw [List.replicate_succ', ← List.append_assoc]
    generalize he : (if tcDecode bs < 0 then 255 else 0) = e at *
    have hb' : Below 256 (bs ++ List.replicate k e) := by
      refine h.append (fun x hx => ?_)
      rw [List.eq_of_mem_replicate hx, ← he]; split <;> decide
    have hne' : bs ++ List.replicate k e ≠ [] := by simp [hne]
    have hr := tcDecode_range hb' hne'
    have heq := tcDecode_eq hb' hne'
    rw [ih] at hr heq
    rw [tcDecode_snoc, valBase_append]
    simp only [valBase, Nat.mul_zero, Nat.add_zero]
    have hlt := valBase_lt hb'
    have hlen : 0 < (bs ++ List.replicate k e).length := List.length_pos_iff.mpr hne'
    have hp : 256 ^ (bs ++ List.replicate k e).length = 256 * 256 ^ ((bs ++ List.replicate k e).length - 1) := by
      obtain ⟨j, hj⟩ : ∃ j, (bs ++ List.replicate k e).length = j + 1 := ⟨_, (Nat.succ_pred_eq_of_pos hlen).symm⟩
      rw [hj]; simp [pow_succ]; ring
    rw [pow_succ]
    rw [hp] at hlt heq ⊢
    generalize (bs ++ List.replicate k e).length = n at *
    generalize valBase 256 (bs ++ List.replicate k e) = v at *
    generalize 256 ^ (n - 1) = q at *
    generalize tcDecode bs = d at *
    by_cases hneg : d < 0
    · simp only [hneg, if_true] at he
      subst he
      simp only [show (255:Nat) > 127 by decide, if_true]
      by_cases hc : 128 * q ≤ v
      · simp only [hc, if_true] at heq; push_cast at *; omega
      · simp only [hc, if_false] at heq; push_cast at *; omega
    · simp only [hneg, if_false] at he
      subst he
      simp only [show ¬ ((0:Nat) > 127) by decide, if_false]
      by_cases hc : 128 * q ≤ v
      · simp only [hc, if_true] at heq; push_cast at *; omega
      · simp only [hc, if_false] at heq; push_cast at *; omega

/-- everything the model of `to_signed_bytes_le` guarantees, in one statement -/
theorem to_signed_bytes_full (x : BigInt) (hx : x.Canon) :
    ∃ out, toSignedBytesLe x = .ok out ∧
      Below 256 out ∧ out ≠ [] ∧ tcDecode out = x.val ∧
      (2 ≤ out.length → (x.val < - ((128 * 256 ^ (out.length - 2) : Nat) : Int) ∨
                          ((128 * 256 ^ (out.length - 2) : Nat) : Int) ≤ x.val)) := by
  obtain ⟨s, m⟩ := x
  obtain ⟨hc, hs⟩ := hx
  simp only at hc hs
  by_cases hm : m = []
  · subst hm
    have : s = .nosign := hs.mpr rfl
    subst this
    refine ⟨[0], by simp [toSignedBytesLe, toBytesLe], Below.cons (by decide) Below.nil, by simp, ?_, ?_⟩
    · simp [tcDecode, valBase, BigInt.val]
    · intro h; simp at h
  · obtain ⟨bytes, h1, h2, h3, h4, h5⟩ := toBytesLe_struct hc hm
    rcases List.eq_nil_or_concat bytes with h0 | ⟨init, t, rfl⟩
    · exact absurd h0 h4
    · simp only [List.concat_eq_append] at *
      have ht0 : t ≠ 0 := by
        intro h; apply h3; simp [h]
      obtain ⟨c1, c2, c3, c4⟩ := signed_core' init t h2 ht0 (decide (s = .minus))
      have hsn : s ≠ .nosign := fun h => hm (hs.mp h)
      have hval : (if decide (s = .minus) = true then - (valBase 256 (init ++ [t]) : Int)
          else (valBase 256 (init ++ [t]) : Int)) = (BigInt.val ⟨s, m⟩) := by
        rw [h5]
        cases s with
        | nosign => exact absurd rfl hsn
        | plus => simp [BigInt.val]
        | minus => simp [BigInt.val]
      rw [hval] at c3 c4
      exact ⟨_, toSignedBytesLe_eq_core s m init t h1, c1, c2, c3, c4⟩

/-- `to_signed_bytes_le/be`: the output is a two's-complement encoding of the value and no
    (non-empty) encoding of the same value is shorter — including the exception that exactly
    `-2^(8k-1)` needs no extension byte -/
theorem to_signed_bytes_spec (x : BigInt) (hx : x.Canon) :
    ∃ out, toSignedBytesLe x = .ok out ∧ toSignedBytesBe x = .ok out.reverse ∧
      Below 256 out ∧ out ≠ [] ∧ tcDecode out = x.val ∧
      ∀ bs, Below 256 bs → bs ≠ [] → tcDecode bs = x.val → out.length ≤ bs.length := by
  obtain ⟨out, h1, h2, h3, h4, h5⟩ := to_signed_bytes_full x hx
  refine ⟨out, h1, by rw [to_signed_bytes_be_eq, h1]; rfl, h2, h3, h4, ?_⟩
  have hn : 1 ≤ out.length := by
    have := List.length_pos_iff.mpr h3; omega
  exact minimal_of_outside hn h5

/-- the length rule in closed form: the output has exactly `n` bytes iff `n ≥ 1` is the least byte
    count with `-2^(8n-1) ≤ v < 2^(8n-1)` (written `128·256^(n-1) = 2^(8n-1)`) -/
theorem to_signed_bytes_len (x : BigInt) (hx : x.Canon) (n : Nat) (hn : 1 ≤ n)
    (hin : - ((128 * 256 ^ (n - 1) : Nat) : Int) ≤ x.val ∧ x.val < ((128 * 256 ^ (n - 1) : Nat) : Int))
    (hout : 2 ≤ n → (x.val < - ((128 * 256 ^ (n - 2) : Nat) : Int) ∨ ((128 * 256 ^ (n - 2) : Nat) : Int) ≤ x.val)) :
    ∃ out, toSignedBytesLe x = .ok out ∧ out.length = n := by
  obtain ⟨out, h1, h2, h3, h4, h5⟩ := to_signed_bytes_full x hx
  refine ⟨out, h1, ?_⟩
  have hL : 1 ≤ out.length := by
    have := List.length_pos_iff.mpr h3; omega
  obtain ⟨r1, r2⟩ := tcDecode_range h2 h3
  rw [h4] at r1 r2
  rcases Nat.lt_trichotomy out.length n with hlt | heq | hgt
  · -- the value would fit in fewer bytes than n-1 allows
    exfalso
    have hp : 256 ^ (out.length - 1) ≤ 256 ^ (n - 2) := Nat.pow_le_pow_right (by decide) (by omega)
    generalize 256 ^ (out.length - 1) = a at *
    generalize 256 ^ (n - 2) = b at *
    rcases hout (by omega) with h | h <;> push_cast at * <;> omega
  · exact heq
  · exfalso
    have hp : 256 ^ (n - 1) ≤ 256 ^ (out.length - 2) := Nat.pow_le_pow_right (by decide) (by omega)
    obtain ⟨i1, i2⟩ := hin
    generalize 256 ^ (n - 1) = a at *
    generalize 256 ^ (out.length - 2) = b at *
    rcases h5 (by omega) with h | h <;> push_cast at * <;> omega

/-- the edge of the rule: `-2^(8k-1)` takes `k` bytes while `+2^(8k-1)` takes `k+1` -/
theorem to_signed_bytes_len_edge (x : BigInt) (hx : x.Canon) (k : Nat) (hk : 1 ≤ k) :
    (x.val = - ((128 * 256 ^ (k - 1) : Nat) : Int) → ∃ out, toSignedBytesLe x = .ok out ∧ out.length = k) ∧
    (x.val = ((128 * 256 ^ (k - 1) : Nat) : Int) → ∃ out, toSignedBytesLe x = .ok out ∧ out.length = k + 1) := by
  have hp : 0 < 256 ^ (k - 1) := Nat.pow_pos (by decide)
  have e1 : 256 ^ k = 256 * 256 ^ (k - 1) := by
    obtain ⟨j, hj⟩ : ∃ j, k = j + 1 := ⟨k - 1, by omega⟩
    subst hj; simp [pow_succ]; ring
  constructor
  · intro hv
    apply to_signed_bytes_len x hx k hk
    · rw [hv]
      generalize 256 ^ (k - 1) = p at *
      push_cast; constructor <;> omega
    · intro h2
      left
      have e2 : 256 ^ (k - 1) = 256 * 256 ^ (k - 2) := by
        obtain ⟨j, hj⟩ : ∃ j, k = j + 2 := ⟨k - 2, by omega⟩
        subst hj; simp [pow_succ]; ring
      have hq : 0 < 256 ^ (k - 2) := Nat.pow_pos (by decide)
      rw [hv, e2]
      generalize 256 ^ (k - 2) = q at *
      push_cast; omega
  · intro hv
    apply to_signed_bytes_len x hx (k + 1) (by omega)
    · simp only [Nat.add_sub_cancel]
      rw [hv, e1]
      generalize 256 ^ (k - 1) = p at *
      push_cast; constructor <;> omega
    · intro _
      right
      rw [show k + 1 - 2 = k - 1 by omega, hv]

/-- export then import of the signed encoding is the identity -/
theorem signed_bytes_round_trip (x : BigInt) (hx : x.Canon) :
    ∃ out, toSignedBytesLe x = .ok out ∧ fromSignedBytesLe out = .ok x ∧
      fromSignedBytesBe out.reverse = .ok x := by
  obtain ⟨out, h1, _, h3, _, h5, _⟩ := to_signed_bytes_spec x hx
  refine ⟨out, h1, ?_, ?_⟩
  · rw [(from_signed_bytes_val out h3).1, h5, ← bigint_canon_eq_ofInt hx]
  · rw [(from_signed_bytes_val _ h3.reverse).2, List.reverse_reverse, h5, ← bigint_canon_eq_ofInt hx]


/-! ## digit vectors -/

/-- `to_u32_digits` = the base-2^32 digits of the value (LSB first, no high zero, empty for 0) -/
theorem u32_digits_spec (u : List Nat) (hc : Canon u) : toU32Digits u = Nat.digits (2 ^ 32) (val u) := by
  rw [toU32Digits_eq_abs u hc.1, abs_new hc, W_eq]

/-- `to_u64_digits` = the base-2^64 digits of the value -/
theorem u64_digits_spec (u : List Nat) (hc : Canon u) : toU64Digits u = Nat.digits (2 ^ 64) (val u) := by
  rw [toU64Digits_eq, ← B_eq]; exact canon_eq_digits hc

/-- `BigUint::new`, `from_slice`, `assign_from_slice`: ANY u32 word slice (odd word counts,
    trailing zero words, empty, all-zero; any previous contents) yields the canonical
    representation of `Σ wᵢ·2^(32i)` -/
theorem new_from_slice_val (ws : List Nat) (h : Below (2 ^ 32) ws) (old : List Nat) :
    Bytes.new ws = .ok (ofNat (Nat.ofDigits (2 ^ 32) ws)) ∧
    fromSlice ws = .ok (ofNat (Nat.ofDigits (2 ^ 32) ws)) ∧
    assignFromSlice old ws = .ok (ofNat (Nat.ofDigits (2 ^ 32) ws)) := by
  rw [← W_eq] at *
  rw [← valBase_eq_ofDigits]
  exact ⟨assignFromSlice_eq [] ws h, assignFromSlice_eq [] ws h, assignFromSlice_eq old ws h⟩

/-- trailing zero words are redundant -/
theorem from_slice_padding (ws : List Nat) (k : Nat) (h : Below (2 ^ 32) ws) :
    fromSlice (ws ++ List.replicate k 0) = fromSlice ws := by
  have hp : Below (2 ^ 32) (ws ++ List.replicate k 0) :=
    h.append (fun x hx => by rw [List.eq_of_mem_replicate hx]; decide)
  rw [(new_from_slice_val _ hp []).2.1, (new_from_slice_val _ h []).2.1, Nat.ofDigits_append_replicate_zero]

/-- digits out, digits in: `from_slice (to_u32_digits u) = u` -/
theorem u32_digits_round_trip (u : List Nat) (hc : Canon u) : fromSlice (toU32Digits u) = .ok u := by
  rw [u32_digits_spec u hc]
  have hb : Below (2 ^ 32) (Nat.digits (2 ^ 32) (val u)) := fun x hx => Nat.digits_lt_base (by decide) hx
  rw [(new_from_slice_val _ hb []).2.1, Nat.ofDigits_digits, ← canon_eq_ofNat hc]

/-! ## BigInt forms (sign + the BigUint routine, canonicalised by `from_biguint`) -/

/-- the integer denoted by a `Sign` argument and a magnitude value (NoSign forces zero) -/
def signedOf (s : Sign) (m : Nat) : Int :=
  match s with
  | .minus => - (m : Int) | .nosign => 0 | .plus => (m : Int)

theorem fromBiguint_ofNat (s : Sign) (n : Nat) : BigInt.fromBiguint s (ofNat n) = BigInt.ofInt (signedOf s n) := by
  cases s with
  | nosign => simp [BigInt.fromBiguint, signedOf, BigInt.ofInt]
  | plus => rw [fromBiguint_plus (ofNat_canon n), ofNat_val]; rfl
  | minus => rw [fromBiguint_minus (ofNat_canon n), ofNat_val]; rfl

/-- `BigInt::new / from_slice / assign_from_slice / from_bytes_le / from_bytes_be` -/
theorem bigint_import_val (s : Sign) (ws : List Nat) (hw : Below (2 ^ 32) ws) (bs : List Nat) (hb : Below 256 bs)
    (old : BigInt) :
    inew s ws = .ok (BigInt.ofInt (signedOf s (Nat.ofDigits (2 ^ 32) ws))) ∧
    ifromSlice s ws = .ok (BigInt.ofInt (signedOf s (Nat.ofDigits (2 ^ 32) ws))) ∧
    iassignFromSlice old s ws = .ok (BigInt.ofInt (signedOf s (Nat.ofDigits (2 ^ 32) ws))) ∧
    ifromBytesLe s bs = .ok (BigInt.ofInt (signedOf s (Nat.ofDigits 256 bs))) ∧
    ifromBytesBe s bs = .ok (BigInt.ofInt (signedOf s (Nat.ofDigits 256 bs.reverse))) := by
  obtain ⟨h1, h2, h3⟩ := new_from_slice_val ws hw old.mag
  obtain ⟨h4, h5⟩ := from_bytes_val bs hb
  refine ⟨?_, ?_, ?_, ?_, ?_⟩
  · simp only [inew, h1, liftU, fromBiguint_ofNat]
  · simp only [ifromSlice, h2, liftU, fromBiguint_ofNat]
  · unfold iassignFromSlice
    rw [h3]
    have hf := fromBiguint_ofNat s (Nat.ofDigits (2 ^ 32) ws)
    generalize ofNat (Nat.ofDigits (2 ^ 32) ws) = m at *
    rw [← hf]
    cases s <;> (by_cases he : m = [] <;> simp [BigInt.fromBiguint, he])
  · simp only [ifromBytesLe, h4, liftU, fromBiguint_ofNat]
  · simp only [ifromBytesBe, h5, liftU, fromBiguint_ofNat]

/-- `BigInt::to_bytes_le/be`, `to_u32_digits`, `to_u64_digits`: the sign and the magnitude export -/
theorem bigint_export_spec (x : BigInt) (hx : x.Canon) :
    itoBytesLe x = .ok (x.sign, if val x.mag = 0 then [0] else Nat.digits 256 (val x.mag)) ∧
    itoBytesBe x = .ok (x.sign, if val x.mag = 0 then [0] else (Nat.digits 256 (val x.mag)).reverse) ∧
    toU32Digits x.mag = Nat.digits (2 ^ 32) (val x.mag) ∧
    toU64Digits x.mag = Nat.digits (2 ^ 64) (val x.mag) := by
  refine ⟨?_, ?_, u32_digits_spec _ hx.1, u64_digits_spec _ hx.1⟩
  · simp only [itoBytesLe, to_bytes_le_spec _ hx.1]
  · simp only [itoBytesBe, to_bytes_be_spec _ hx.1]

/-! ## the iterator refinement -/

/-- the fresh iterator satisfies the invariant (for any proper digit vector) -/
theorem iter_inv_new (d : List Nat) (h : DigitsOk d) : Inv (U32Digits.new d) := new_inv d h

/-- for a canonical value the abstraction of the fresh iterator is its base-2^32 digit list -/
theorem iter_abs_new (d : List Nat) (hc : Canon d) : Iter.abs (U32Digits.new d) = Nat.digits (2 ^ 32) (val d) := by
  rw [abs_new hc, W_eq]

/-- `next` is `head?` / `tail` on the abstraction and preserves the invariant -/
theorem iter_next_refines (s : U32Digits) (hi : Inv s) :
    s.next.1 = (Iter.abs s).head? ∧ Iter.abs s.next.2 = (Iter.abs s).tail ∧ Inv s.next.2 := next_spec s hi

/-- `next_back` is `getLast?` / `dropLast` -/
theorem iter_next_back_refines (s : U32Digits) (hi : Inv s) :
    s.nextBack.1 = (Iter.abs s).getLast? ∧ Iter.abs s.nextBack.2 = (Iter.abs s).dropLast ∧ Inv s.nextBack.2 :=
  nextBack_spec s hi

/-- `len`, `size_hint`, `count` are the exact remaining length (no `usize` underflow), `last` is `getLast?` -/
theorem iter_observers_refine (s : U32Digits) (hi : Inv s) :
    s.len = .ok (Iter.abs s).length ∧
    s.sizeHint = .ok ((Iter.abs s).length, some (Iter.abs s).length) ∧
    s.count = .ok (Iter.abs s).length ∧
    s.last = (Iter.abs s).getLast? :=
  ⟨len_spec s hi, sizeHint_spec s hi, count_spec s hi, last_spec s hi⟩

/-- `nth n` skips `n` digits and yields the next one -/
theorem iter_nth_refines (n : Nat) (s : U32Digits) (hi : Inv s) :
    (U32Digits.nth n s).1 = ((Iter.abs s).drop n).head? ∧
    Iter.abs (U32Digits.nth n s).2 = (Iter.abs s).drop (n + 1) ∧ Inv (U32Digits.nth n s).2 := nth_spec n s hi

/-- REFINEMENT, all call sequences: from any state satisfying the invariant the state machine
    answers every finite sequence of calls exactly like a list iterator over `abs` -/
theorem iter32_refines_from (calls : List Call) (s : U32Digits) (hi : Inv s) :
    run32 calls s = specRun calls (Iter.abs s) := run32_spec calls s hi

/-- … in particular `x.iter_u32_digits()` of a canonical value behaves, under ANY interleaving of
    `next, next_back, nth, len, size_hint, last, count`, as an exact-size double-ended iterator over
    the base-2^32 digits of the value -/
theorem iter32_refines (d : List Nat) (hc : Canon d) (calls : List Call) :
    run32 calls (U32Digits.new d) = specRun calls (Nat.digits (2 ^ 32) (val d)) := by
  rw [run32_spec calls _ (new_inv d hc.1), abs_new hc, W_eq]

/-- `iter_u64_digits()` likewise over the base-2^64 digits -/
theorem iter64_refines (d : List Nat) (hc : Canon d) (calls : List Call) :
    run64 calls (U64Digits.new d) = specRun calls (Nat.digits (2 ^ 64) (val d)) := by
  unfold U64Digits.new
  rw [run64_spec, ← B_eq, ← canon_eq_digits hc]

/-- no call sequence can make `len`/`size_hint`/`count` underflow -/
theorem iter32_no_panic (d : List Nat) (hc : Canon d) (calls : List Call) :
    ∀ r ∈ run32 calls (U32Digits.new d), ∀ p, r ≠ Res.panic p := by
  rw [iter32_refines d hc]
  generalize Nat.digits (2 ^ 32) (val d) = l
  induction calls generalizing l with
  | nil => intro r hr; cases hr
  | cons c cs ih =>
    intro r hr p
    cases c <;> simp only [specRun, List.mem_cons, List.not_mem_nil, or_false] at hr <;>
      first
        | (rcases hr with h | h
           · rw [h]; intro h'; cases h'
           · exact ih _ r h p)
        | (rw [hr]; intro h'; cases h')

/-- the D3 scenario (x = 0x1_0000_0002: next, next_back, then last) now answers `None`, with `len = 0` -/
theorem d3_fixed : run32 [.next, .nextBack, .len, .last] (U32Digits.new [0x100000002]) =
    [.item (some 2), .item (some 1), .num 0, .item none] := by decide

/-! ## the oracles used by the driver are the Mathlib notions -/

theorem oracle_digits (b n : Nat) (hb : 2 ≤ b) : digitsBase b n = Nat.digits b n := digitsBase_eq_digits hb n
theorem oracle_ofDigits (b : Nat) (l : List Nat) : valBase b l = Nat.ofDigits b l := valBase_eq_ofDigits b l

/-! ## non-vacuity -/

example : Canon [0xffffffffffffffff, 0x80000000] := by decide
example : (⟨.minus, [0x8000000000000000]⟩ : BigInt).Canon := by decide
example : Below 256 [0x00, 0x80, 0xff, 0xff] ∧ tcDecode [0x00, 0x80, 0xff, 0xff] = -32768 := by decide
example : Inv (U32Digits.new [5, 0x100000000]) := by decide
example : Iter.abs (U32Digits.new [5, 7]) = [5, 0, 7] := by decide

end NB
