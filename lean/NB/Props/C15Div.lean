/-
  NB.Props.C15Div — C15's clause about the hardware divide: `div_wide` executes the x86 `div`
  instruction, which raises #DE (SIGFPE) unless `hi < divisor`.  In the model `divWide` returns the
  internal error "div_wide: hi >= divisor (#DE)" exactly in that case, so "never faults" is the statement
  that no routine reaching `divWide` can return an internal error.  These are corollaries of C03's
  exactness theorems (the loop invariant `rem < b` / the normalised estimate `a0 < b0`), restated here
  so that the C15 check audits them and re-checks them against the current source on every run.
-/
import NB.Props.C03
namespace NB.C15Div
open NB

/-- the instruction itself: with `hi < d` it is the exact 128-by-64 division and cannot fault -/
theorem div_wide_ok (hi lo d : Nat) (h : hi < d) :
    divWide hi lo d = .ok ((hi * B + lo) / d, (hi * B + lo) % d) := by
  simp [divWide, h]

/-- … and with `hi ≥ d` (in particular `d = 0`) the model reports the fault -/
theorem div_wide_fault (hi lo d : Nat) (h : ¬ hi < d) : ∃ tag, divWide hi lo d = .error (.internal tag) := by
  simp [divWide, h, ierr]

/-- `div_rem_digit` (every `BigUint / u32|u64`, `/=`, the radix output loop): a zero divisor is the documented
    panic BEFORE the loop, and no `div` instruction inside it can fault, for every digit vector -/
theorem div_rem_digit_no_fault (a : List Nat) (b : Nat) (ha : DigitsOk a) (tag : String) :
    divRemDigit a b ≠ .error (.internal tag) :=
  not_internal_of_spec (div_rem_digit_spec a b ha) tag

theorem rem_digit_no_fault (a : List Nat) (b : Nat) (ha : DigitsOk a) (tag : String) :
    remDigit a b ≠ .error (.internal tag) :=
  not_internal_of_spec (rem_digit_spec a b ha) tag

/-- Knuth D (`div_rem_ref`, hence every BigUint/BigInt division form): the 2-by-1 estimate `div_wide(a0, a1, b0)` is only
    issued with `a0 < b0` -/
theorem div_rem_no_fault (P : Params) (a b : List Nat) (ha : Canon a) (hb : Canon b) (tag : String) :
    divRemRef P a b ≠ .error (.internal tag) :=
  div_rem_no_internal P a b ha hb tag

/-- the zero divisor is reported as the documented panic, never handed to the instruction -/
theorem div_rem_digit_zero (a : List Nat) : divRemDigit a 0 = .error .divzero := by
  simp [divRemDigit]

theorem rem_digit_zero (a : List Nat) : remDigit a 0 = .error .divzero := by
  simp [remDigit]

end NB.C15Div
