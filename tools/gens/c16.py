"""C16 — cross-section transcript: a deterministic sample of every other stream's requests
(only operations that exist in every feature configuration), emphasising the feature-conditional
code: radix conversion (capacity estimates) and roots (initial guesses)."""
import importlib, random
from genlib import *

# streams whose requests go into the cross-section; extended as streams are merged
CROSS = ["c01", "c02", "c03", "c05", "c06", "c07", "c08", "c09", "c11", "c12", "c13", "c04", "c19", "c10"]
ALL_OF = ["c06", "c11"]          # feature-conditional code: take (almost) everything
SKIP_PREFIX = ("raw.",)           # internal hooks exist only in the hooked build

def gen(rng, tier):
    reqs = []
    per = 400 if tier == "quick" else 3000
    for name in CROSS:
        try:
            mod = importlib.import_module(name)
        except ImportError:
            continue
        r = random.Random(rng.randrange(1 << 30))
        lines = [l for l in mod.gen(r, "quick") if not l.split()[1].startswith(SKIP_PREFIX)]
        r.shuffle(lines)
        n = per * 4 if name in ALL_OF else per
        reqs += lines[:n]
    # the capacity-estimate boundaries of radix parsing in full (feature-conditional estimate)
    try:
        import c06 as _c06
        reqs += _c06.capacity_boundary_reqs(random.Random(rng.randrange(1 << 30)), tier)
    except Exception:  # noqa: BLE001
        pass
    # text of every radix on a few sizes (C15 stream op; exists everywhere)
    for v in [0, 1, B - 1, B, big(rng, 3), big(rng, 17), big(rng, 65)]:
        for rdx in range(2, 37):
            reqs.append("C15 u.text %d %s" % (rdx, wu(v)))
    return reqs
