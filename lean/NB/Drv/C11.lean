/- driver handlers for stream C11 (integer roots).
   Model column: the DIGIT-level model NB.Model.RootsD (`sqrtD`, `cbrtD`, `nthRootD`, `bigint*D`: every
   BigUint operator of the Rust text is the digit-level operator model on the wire limbs), in the std
   configuration (`stdSrcD P floatF64`: the float guess is computed on the value with Lean's native Float
   and converted with `ofNat`, the scaled recursive guess runs on digits); the no_std configuration
   (`nostdSrcD`) is evaluated too and any difference is appended as `!nostd=…`
   (NB.Props.C11.root_config_independent_D says there is none).  The std column has no size cap; the
   no_std column runs at digit level up to `nostdCap` = 64 digits (4096 bits; every quick-tier request
   but a handful) and on the value-level model NB.Model.Roots above.  Oracle column: bisection floor
   root on the value. -/
import NB.Wire
import NB.Model.Roots
import NB.Model.RootsD
import NB.Model.AsmParams
namespace NB.Drv.C11
open NB NB.Wire NB.Roots NB.IntVal NB.RootsD

def P := NB.Gen.P

def su (r : Except Panic Nat) : String := showExcept showLimbs (r.map ofNat)
def si (r : Except Panic Int) : String := showExcept showBigInt (r.map BigInt.ofInt)
def sud (r : Except Panic (List Nat)) : String := showExcept showLimbs r
def sid (r : Except Panic BigInt) : String := showExcept showBigInt r

def stdSD : GuessSrcD := stdSrcD P floatF64 stdDepth

/-- size cap (digits of the magnitude) for evaluating the SECOND configuration (no_std, guess
    `1 << max_bits`, many more Newton iterations) at digit level; above it the no_std column is the
    value-level model.  The primary (std) column is always digit-level. -/
def nostdCap : Nat := 64

def both (len : Nat) (f : GuessSrcD → String) (g : GuessSrc → String) : String :=
  let a := f stdSD
  let b := if len ≤ nostdCap then f nostdSrcD else g nostdSrc
  if a == b then a else a ++ " !nostd=" ++ b

def oRootU (x n : Nat) : Except Panic Nat :=
  if n = 0 then .error .zeroroot else .ok (floorRoot x n)

def oRootI (x : Int) (n : Nat) : Except Panic Int :=
  if x < 0 ∧ n % 2 = 0 then .error .imaginary
  else if n = 0 then .error .zeroroot
  else if x < 0 then .ok (- (floorRoot x.natAbs n : Int)) else .ok (floorRoot x.natAbs n : Int)

def handle (op : String) (args : List String) : Option (String × String) :=
  match op, args with
  | "u.sqrt", [a] => do
    let a ← parseLimbs a
    pure (both a.length (fun S => sud (sqrtD P S a)) (fun S => su (sqrtG S (val a))), su (oRootU (val a) 2))
  | "u.cbrt", [a] => do
    let a ← parseLimbs a
    pure (both a.length (fun S => sud (cbrtD P S a)) (fun S => su (cbrtG S (val a))), su (oRootU (val a) 3))
  | "u.nth_root", [a, n] => do
    let a ← parseLimbs a; let n ← parseNat n
    pure (both a.length (fun S => sud (nthRootD P S a n)) (fun S => su (nthRootG S (val a) n)), su (oRootU (val a) n))
  | "i.sqrt", [a] => do
    let a ← parseBigInt a
    pure (both a.mag.length (fun S => sid (bigintSqrtD P S a)) (fun S => si (bigintSqrt S a.val)), si (oRootI a.val 2))
  | "i.cbrt", [a] => do
    let a ← parseBigInt a
    pure (both a.mag.length (fun S => sid (bigintCbrtD P S a)) (fun S => si (bigintCbrt S a.val)), si (oRootI a.val 3))
  | "i.nth_root", [a, n] => do
    let a ← parseBigInt a; let n ← parseNat n
    pure (both a.mag.length (fun S => sid (bigintNthRootD P S a n)) (fun S => si (bigintNthRoot S a.val n)), si (oRootI a.val n))
  -- api-coverage: the inherent forwarders `BigUint::{sqrt,cbrt,nth_root}`, `BigInt::{sqrt,cbrt,nth_root}`
  -- (`Roots::sqrt(self)` …) execute the `Roots` impl, so they share its (digit-level) model
  | "u.sqrt_m", [a] => do
    let a ← parseLimbs a
    pure (both a.length (fun S => sud (sqrtD P S a)) (fun S => su (sqrtG S (val a))), su (oRootU (val a) 2))
  | "u.cbrt_m", [a] => do
    let a ← parseLimbs a
    pure (both a.length (fun S => sud (cbrtD P S a)) (fun S => su (cbrtG S (val a))), su (oRootU (val a) 3))
  | "u.nth_root_m", [a, n] => do
    let a ← parseLimbs a; let n ← parseNat n
    pure (both a.length (fun S => sud (nthRootD P S a n)) (fun S => su (nthRootG S (val a) n)), su (oRootU (val a) n))
  | "i.sqrt_m", [a] => do
    let a ← parseBigInt a
    pure (both a.mag.length (fun S => sid (bigintSqrtD P S a)) (fun S => si (bigintSqrt S a.val)), si (oRootI a.val 2))
  | "i.cbrt_m", [a] => do
    let a ← parseBigInt a
    pure (both a.mag.length (fun S => sid (bigintCbrtD P S a)) (fun S => si (bigintCbrt S a.val)), si (oRootI a.val 3))
  | "i.nth_root_m", [a, n] => do
    let a ← parseBigInt a; let n ← parseNat n
    pure (both a.mag.length (fun S => sid (bigintNthRootD P S a n)) (fun S => si (bigintNthRoot S a.val n)), si (oRootI a.val n))
  | _, _ => none

end NB.Drv.C11
