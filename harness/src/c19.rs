//! stream C19: sign, negation and identity helpers
use crate::c04::{raw_i, raw_u};
use crate::wire::*;
use core::convert::TryFrom;
use num_bigint::{BigInt, BigUint, Sign, ToBigInt, ToBigUint};
use num_traits::{ConstZero, One, Signed, Zero};

fn sign_arg(s: &str) -> Option<Sign> {
    let mut it = s.chars();
    let c = it.next()?;
    if it.next().is_some() {
        return None;
    }
    parse_sign(c)
}

fn ok_ri(v: &BigInt) -> String {
    format!("ok {}", raw_i(v))
}
fn ok_ru(v: &BigUint) -> String {
    format!("ok {}", raw_u(v))
}
fn opt_ru(v: &Option<BigUint>) -> String {
    match v {
        Some(v) => format!("some {}", raw_u(v)),
        None => "none".to_string(),
    }
}
fn opt_ri(v: &Option<BigInt>) -> String {
    match v {
        Some(v) => format!("some {}", raw_i(v)),
        None => "none".to_string(),
    }
}

/// subject value; with a predecessor the subject is `clone_from`ed into the (usually larger)
/// predecessor's buffer
fn mk_u(pred: Option<&str>, x: &str) -> Option<BigUint> {
    let x = parse_u(x)?;
    Some(match pred {
        Some(p) => {
            let mut v = parse_u(p)?;
            v.clone_from(&x);
            v
        }
        None => x,
    })
}

fn mk_i(pred: Option<&str>, x: &str) -> Option<BigInt> {
    let x = parse_i(x)?;
    Some(match pred {
        Some(p) => {
            let mut v = parse_i(p)?;
            v.clone_from(&x);
            v
        }
        None => x,
    })
}

pub fn handle(op: &str, a: &[&str]) -> Option<String> {
    let (op, pred, a): (&str, Option<&str>, &[&str]) = match op.strip_suffix('@') {
        Some(o) => (o, Some(*a.first()?), &a[1..]),
        None => (op, None, a),
    };
    Some(match (op, a) {
        ("i.neg", [x]) => ok_ri(&-mk_i(pred, x)?),
        ("i.neg_ref", [x]) => ok_ri(&-&mk_i(pred, x)?),
        ("i.abs", [x]) => ok_ri(&mk_i(pred, x)?.abs()),
        ("i.signum", [x]) => ok_ri(&mk_i(pred, x)?.signum()),
        ("i.is_positive", [x]) => show_bool(mk_i(pred, x)?.is_positive()).to_string(),
        ("i.is_negative", [x]) => show_bool(mk_i(pred, x)?.is_negative()).to_string(),
        ("i.sign", [x]) => show_sign(mk_i(pred, x)?.sign()).to_string(),
        ("i.magnitude", [x]) => ok_ru(mk_i(pred, x)?.magnitude()),
        ("i.abs_sub", [x, y]) => ok_ri(&mk_i(pred, x)?.abs_sub(&parse_i(y)?)),
        ("i.into_parts", [x]) => {
            let (s, m) = mk_i(pred, x)?.into_parts();
            format!("{} {}", show_sign(s), raw_u(&m))
        }
        ("i.from_biguint", [s, m]) => ok_ri(&BigInt::from_biguint(sign_arg(s)?, mk_u(pred, m)?)),
        ("i.parts_of", [s, m]) => {
            let (s, m) = BigInt::from_biguint(sign_arg(s)?, mk_u(pred, m)?).into_parts();
            format!("{} {}", show_sign(s), raw_u(&m))
        }
        ("i.roundtrip", [x]) => {
            let (s, m) = mk_i(pred, x)?.into_parts();
            ok_ri(&BigInt::from_biguint(s, m))
        }
        ("i.to_biguint", [x]) => opt_ru(&BigInt::to_biguint(&mk_i(pred, x)?)),
        ("i.to_biguint_trait", [x]) => opt_ru(&ToBigUint::to_biguint(&mk_i(pred, x)?)),
        ("i.try_from_ref", [x]) => opt_ru(&BigUint::try_from(&mk_i(pred, x)?).ok()),
        ("i.try_into", [x]) => opt_ru(&BigUint::try_from(mk_i(pred, x)?).ok()),
        ("i.to_bigint", [x]) => opt_ri(&ToBigInt::to_bigint(&mk_i(pred, x)?)),
        ("u.to_bigint", [x]) => opt_ri(&ToBigInt::to_bigint(&mk_u(pred, x)?)),
        ("u.to_biguint", [x]) => opt_ru(&ToBigUint::to_biguint(&mk_u(pred, x)?)),
        ("i.from_u", [x]) => ok_ri(&BigInt::from(mk_u(pred, x)?)),
        ("u.zero", []) => ok_ru(&<BigUint as Zero>::zero()),
        ("u.const_zero", []) => ok_ru(&<BigUint as ConstZero>::ZERO),
        ("u.default", []) => ok_ru(&BigUint::default()),
        ("u.one", []) => ok_ru(&<BigUint as One>::one()),
        ("i.zero", []) => ok_ri(&<BigInt as Zero>::zero()),
        ("i.const_zero", []) => ok_ri(&<BigInt as ConstZero>::ZERO),
        ("i.default", []) => ok_ri(&BigInt::default()),
        ("i.one", []) => ok_ri(&<BigInt as One>::one()),
        ("u.is_zero", [x]) => show_bool(mk_u(pred, x)?.is_zero()).to_string(),
        ("u.is_one", [x]) => show_bool(mk_u(pred, x)?.is_one()).to_string(),
        ("i.is_zero", [x]) => show_bool(mk_i(pred, x)?.is_zero()).to_string(),
        ("i.is_one", [x]) => show_bool(mk_i(pred, x)?.is_one()).to_string(),
        ("u.set_zero", [x]) => {
            let mut v = mk_u(pred, x)?;
            v.set_zero();
            ok_ru(&v)
        }
        ("u.set_one", [x]) => {
            let mut v = mk_u(pred, x)?;
            v.set_one();
            ok_ru(&v)
        }
        ("i.set_zero", [x]) => {
            let mut v = mk_i(pred, x)?;
            v.set_zero();
            ok_ri(&v)
        }
        ("i.set_one", [x]) => {
            let mut v = mk_i(pred, x)?;
            v.set_one();
            ok_ri(&v)
        }
        // api-coverage: the INHERENT associated consts `BigUint::ZERO` / `BigInt::ZERO` (the trait const
        // `ConstZero::ZERO`, `zero()` and `default()` forward to them)
        ("u.inherent_zero", []) => ok_ru(&BigUint::ZERO),
        ("i.inherent_zero", []) => ok_ri(&BigInt::ZERO),
        ("sign.neg", [s]) => show_sign(-sign_arg(s)?).to_string(),
        ("sign.mul", [s, t]) => show_sign(sign_arg(s)? * sign_arg(t)?).to_string(),
        _ => return None,
    })
}
