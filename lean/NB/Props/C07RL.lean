/-
  C07 (run-length layer) — the bit queries on run-length encoded operands (NB.Model.BitsRL) are
  the bit queries of NB.Model.Bits on the expanded digit vector.

  The correspondence check sends huge operands (2^26 digits and more) as segment lists
  `(digit, count)`; the driver answers with `countOnesRL`, `bitsRL`, `trailingZerosRL`,
  `trailingOnesRL`, `bitRL`, which never expand.  The `_eq` theorems hold for ALL segment lists
  (zero counts, unmerged neighbours, digits ≥ B included); the `_rl_spec` corollaries transfer the
  specs of NB.Props.C07 (`count_ones_spec_u`, `bits_spec_u`, `trailing_zeros_spec_u`,
  `trailing_ones_spec_u`, `bit_spec_u`) to operands whose expansion is canonical.
  All theorems are full strength; none is `_partial`.
-/
import NB.Model.BitsRL
import NB.Props.C07
namespace NB.C07

/-! ## the three access paths -/

theorem lengthRL_eq (s : List (Nat × Nat)) : lengthRL s = (expandRL s).length := by
  induction s with
  | nil => rfl
  | cons x s ih =>
    obtain ⟨d, n⟩ := x
    simp only [lengthRL, expandRL, List.length_append, List.length_replicate, ih]

theorem lastRL_eq (s : List (Nat × Nat)) : lastRL s = (expandRL s).getLast? := by
  induction s with
  | nil => rfl
  | cons x s ih =>
    obtain ⟨d, n⟩ := x
    simp only [lastRL, expandRL, List.getLast?_append, List.getLast?_replicate, ih]
    cases (expandRL s).getLast? <;> simp

theorem getRL?_eq (s : List (Nat × Nat)) (i : Nat) : getRL? s i = (expandRL s)[i]? := by
  induction s generalizing i with
  | nil => rfl
  | cons x s ih =>
    obtain ⟨d, n⟩ := x
    simp only [getRL?, expandRL, List.getElem?_append, List.length_replicate,
      List.getElem?_replicate, ih]
    split <;> rfl

theorem position_replicate_append (p : Nat → Bool) (d n : Nat) (l : List Nat) :
    position p (List.replicate n d ++ l) =
      if n ≠ 0 ∧ p d = true then some 0 else (position p l).map (· + n) := by
  induction n with
  | zero => cases h : position p l <;> simp [h]
  | succ n ih =>
    rw [List.replicate_succ, List.cons_append, position, ih]
    by_cases hp : p d = true
    · simp [hp]
    · simp only [hp, and_false, if_false, Bool.false_eq_true]
      cases position p l <;> simp [Nat.add_assoc]

theorem positionRL_eq (p : Nat → Bool) (s : List (Nat × Nat)) :
    positionRL p s = position p (expandRL s) := by
  induction s with
  | nil => rfl
  | cons x s ih =>
    obtain ⟨d, n⟩ := x
    rw [positionRL, expandRL, position_replicate_append, ih]

/-! ## refinement: RL function = list function on the expansion (all segment lists) -/

theorem countOnesRL_eq (s : List (Nat × Nat)) : countOnesRL s = countOnesU (expandRL s) := by
  induction s with
  | nil => rfl
  | cons x s ih =>
    obtain ⟨d, n⟩ := x
    unfold countOnesU at ih ⊢
    simp only [countOnesRL, expandRL, List.map_append, List.sum_append, List.map_replicate,
      List.sum_replicate_nat, ih, Nat.mul_comm]

theorem bitsRL_eq (s : List (Nat × Nat)) : bitsRL s = bitsU (expandRL s) := by
  unfold bitsRL bitsU
  rw [lastRL_eq, lengthRL_eq]
  cases (expandRL s).getLast? <;> rfl

theorem trailingZerosRL_eq (s : List (Nat × Nat)) :
    trailingZerosRL s = trailingZerosU (expandRL s) := by
  unfold trailingZerosRL trailingZerosU
  rw [positionRL_eq]
  cases position (fun d => d != 0) (expandRL s) with
  | none => rfl
  | some i => simp only [getRL?_eq, List.getD_eq_getElem?_getD]

theorem trailingOnesRL_eq (s : List (Nat × Nat)) :
    trailingOnesRL s = trailingOnesU (expandRL s) := by
  unfold trailingOnesRL trailingOnesU
  rw [positionRL_eq, lengthRL_eq]
  cases position (fun d => dnot d != 0) (expandRL s) with
  | none => rfl
  | some i => simp only [getRL?_eq, List.getD_eq_getElem?_getD]

theorem bitRL_eq (s : List (Nat × Nat)) (k : Nat) : bitRL s k = bitU (expandRL s) k := by
  unfold bitRL bitU
  rw [getRL?_eq]
  cases (expandRL s)[k / BITS]? <;> rfl

/-! ## the specs of NB.Props.C07, transferred to run-length encoded operands -/

/-- `BigUint::count_ones` on an RL operand: the number of set bits of the value -/
theorem count_ones_rl_spec (s : List (Nat × Nat)) (h : Canon (expandRL s)) :
    countOnesRL s =
      ((List.range (BITS * (expandRL s).length)).filter
        (fun i => (val (expandRL s)).testBit i)).length := by
  rw [countOnesRL_eq]; exact count_ones_spec_u (expandRL s) h

/-- … with the digit count computed on the segments as well -/
theorem count_ones_rl_spec_len (s : List (Nat × Nat)) (h : Canon (expandRL s)) :
    countOnesRL s =
      ((List.range (BITS * lengthRL s)).filter (fun i => (val (expandRL s)).testBit i)).length := by
  rw [lengthRL_eq]; exact count_ones_rl_spec s h

/-- `BigUint::bits` on an RL operand: `Nat.size` of the value -/
theorem bits_rl_spec (s : List (Nat × Nat)) (h : Canon (expandRL s)) :
    bitsRL s = Nat.size (val (expandRL s)) := by
  rw [bitsRL_eq]; exact bits_spec_u (expandRL s) h

/-- `BigUint::trailing_zeros` on an RL operand: `None` exactly for zero, otherwise the exponent of
    2 in the value -/
theorem trailing_zeros_rl_spec (s : List (Nat × Nat)) (h : Canon (expandRL s)) :
    (val (expandRL s) = 0 → trailingZerosRL s = none) ∧
    (val (expandRL s) ≠ 0 →
      ∃ t m, trailingZerosRL s = some t ∧ val (expandRL s) = 2 ^ t * (2 * m + 1)) := by
  rw [trailingZerosRL_eq]; exact trailing_zeros_spec_u (expandRL s) h

/-- `BigUint::trailing_ones` on an RL operand: the exponent of 2 in `value + 1` -/
theorem trailing_ones_rl_spec (s : List (Nat × Nat)) (h : Canon (expandRL s)) :
    ∃ m, val (expandRL s) + 1 = 2 ^ (trailingOnesRL s) * (2 * m + 1) := by
  rw [trailingOnesRL_eq]; exact trailing_ones_spec_u (expandRL s) h

/-- … in bit form -/
theorem trailing_ones_testBit_rl (s : List (Nat × Nat)) (h : Canon (expandRL s)) :
    (∀ j, j < trailingOnesRL s → (val (expandRL s)).testBit j = true) ∧
    (val (expandRL s)).testBit (trailingOnesRL s) = false := by
  rw [trailingOnesRL_eq]; exact trailing_ones_testBit_u (expandRL s) h

/-- `BigUint::bit` on an RL operand: `Nat.testBit` of the value -/
theorem bit_rl_spec (s : List (Nat × Nat)) (h : Canon (expandRL s)) (k : Nat) :
    bitRL s k = (val (expandRL s)).testBit k := by
  rw [bitRL_eq]; exact bit_spec_u (expandRL s) h k

/-! ## non-vacuity: concrete segment lists (zero-count segments, unmerged neighbours, all-ones
    runs, a canonical expansion) -/

/-- 3 zero digits, an empty segment, 0x…f0, 2 all-ones digits, digit 5, an empty top segment -/
def exRL : List (Nat × Nat) :=
  [(0, 3), (7, 0), (0xfffffffffffffff0, 1), (0xffffffffffffffff, 2), (5, 1), (9, 0)]

/-- 4 all-ones digits (split in two segments) then 0x00ff: trailing ones cross segments -/
def exRL1 : List (Nat × Nat) := [(0xffffffffffffffff, 3), (0xffffffffffffffff, 1), (0xff, 2)]

example : expandRL exRL =
    [0, 0, 0, 0xfffffffffffffff0, 0xffffffffffffffff, 0xffffffffffffffff, 5] := by decide
example : Canon (expandRL exRL) := by decide
example : Canon (expandRL exRL1) := by decide
example : lengthRL exRL = 7 ∧ lengthRL exRL = (expandRL exRL).length := by decide
example : countOnesRL exRL = 190 ∧ countOnesRL exRL = countOnesU (expandRL exRL) := by decide
example : bitsRL exRL = 387 ∧ bitsRL exRL = bitsU (expandRL exRL) := by decide
example : trailingZerosRL exRL = some 196 ∧
    trailingZerosRL exRL = trailingZerosU (expandRL exRL) := by decide
example : trailingZerosRL [(0, 5), (1, 0)] = none ∧
    trailingZerosU (expandRL [(0, 5), (1, 0)]) = none := by decide
example : trailingOnesRL exRL1 = 264 ∧ trailingOnesRL exRL1 = trailingOnesU (expandRL exRL1) := by
  decide
example : trailingOnesRL [(0xffffffffffffffff, 2), (3, 0)] = 128 ∧
    trailingOnesU (expandRL [(0xffffffffffffffff, 2), (3, 0)]) = 128 := by decide
example : trailingOnesRL exRL = 0 ∧ trailingOnesU (expandRL exRL) = 0 := by decide
example : bitRL exRL 196 = true ∧ bitRL exRL 195 = false ∧ bitRL exRL 384 = true ∧
    bitRL exRL 385 = false ∧ bitRL exRL 448 = false ∧
    (∀ k ∈ [0, 63, 191, 192, 195, 196, 255, 256, 383, 384, 385, 386, 447, 448, 1000],
      bitRL exRL k = bitU (expandRL exRL) k) := by decide

end NB.C07
