/- helper lemmas for NB.Model.Radix (C06): the inexact-width bit-regrouping loops (radices 8, 32, 64, 128)
   and zero-stripping -/
import NB.Lemmas.Radix
import Mathlib.Data.Nat.Digits.Lemmas
namespace NB.Radix
open NB

/-! ### padding / stripping -/

theorem emitN_zero (r k : Nat) : emitN r k 0 = List.replicate k 0 := by
  induction k with
  | zero => rfl
  | succ k ih => simp [emitN, ih, List.replicate_succ]

/-- `k` digits of a value below `r^k` are its positional digits padded with zeros -/
theorem emitN_digits {r : Nat} (h2 : 2 ≤ r) (h256 : r ≤ 256) : ∀ (k n : Nat), n < r ^ k →
    emitN r k n = Nat.digits r n ++ List.replicate (k - (Nat.digits r n).length) 0 := by
  intro k
  induction k with
  | zero => intro n hn; have : n = 0 := by simpa using hn
            subst this; simp [emitN]
  | succ k ih =>
    intro n hn
    by_cases h0 : n = 0
    · subst h0; simp [emitN_zero]
    · have hnr : n / r < r ^ k := by
        apply Nat.div_lt_of_lt_mul
        rw [pow_succ] at hn; rw [Nat.mul_comm]; exact hn
      have e := Nat.digits_def' (b := r) (n := n) (by omega) (by omega)
      have hlt : n % r < U8 := Nat.lt_of_lt_of_le (Nat.mod_lt _ (by omega)) (by unfold U8; omega)
      rw [e, emitN, ih _ hnr, Nat.mod_eq_of_lt hlt]
      simp

theorem dropWhile_zero_replicate (j : Nat) (M : List Nat) :
    List.dropWhile (fun d => d == 0) (List.replicate j 0 ++ M) = List.dropWhile (fun d => d == 0) M := by
  induction j with
  | zero => simp
  | succ j ih => simp [List.replicate_succ, List.dropWhile_cons, ih]

theorem stripTrailingZeros_digits {r : Nat} (h2 : 2 ≤ r) (n j : Nat) :
    stripTrailingZeros (Nat.digits r n ++ List.replicate j 0) = Nat.digits r n := by
  unfold stripTrailingZeros
  rw [List.reverse_append, List.reverse_replicate, dropWhile_zero_replicate]
  by_cases h0 : n = 0
  · subst h0; simp
  · have hne : Nat.digits r n ≠ [] := Nat.digits_ne_nil_iff_ne_zero.mpr h0
    have hl := Nat.getLast_digit_ne_zero r h0
    obtain ⟨init, last, hil⟩ : ∃ init last, Nat.digits r n = init ++ [last] :=
      ⟨_, _, (List.dropLast_append_getLast hne).symm⟩
    have hlast : last ≠ 0 := by
      have : (Nat.digits r n).getLast hne = last := by simp [hil]
      rw [← this]; exact hl
    rw [hil]
    simp [List.dropWhile_cons, hlast]

/-! ### output, inexact widths -/

/-- `r |= c << rbits` on u64 when `r` has only its low `k` bits set -/
theorem or_shl_mod {k ro c : Nat} (hk : k ≤ 64) (hro : ro < 2 ^ k) :
    ro ||| ((c <<< k) % B) = (ro + c * 2 ^ k) % B := by
  have hB : B = 2 ^ k * 2 ^ (64 - k) := by
    rw [← pow_add, B_eq]; congr 1; omega
  have h1 : (c <<< k) % B = (c % 2 ^ (64 - k)) * 2 ^ k := by
    rw [Nat.shiftLeft_eq, hB, Nat.mul_comm (2 ^ k), Nat.mul_mod_mul_right]
  have h2 : (ro + c * 2 ^ k) % B = ro + 2 ^ k * (c % 2 ^ (64 - k)) := by
    rw [hB, Nat.mod_mul]
    have ha : (ro + c * 2 ^ k) % 2 ^ k = ro := by
      rw [Nat.add_mul_mod_self_right]; exact Nat.mod_eq_of_lt hro
    have hb : (ro + c * 2 ^ k) / 2 ^ k = c := by
      rw [Nat.add_mul_div_right _ _ (Nat.pow_pos (by omega)), Nat.div_eq_of_lt hro, Nat.zero_add]
    rw [ha, hb]
  rw [h1, h2, Nat.or_comm, ← Nat.shiftLeft_eq, ← Nat.shiftLeft_add_eq_or_of_lt hro, Nat.shiftLeft_eq]
  ring

/-- the inner loop once `r` holds the exact remaining bits (no digit straddles a limb any more) -/
theorem inexInner_plain {bits : Nat} (h1 : 1 ≤ bits) (c : Nat) :
    ∀ (nb y : Nat), nb ≤ BITS →
    inexInner bits (2 ^ bits - 1) c y nb = (emitN (2 ^ bits) (nb / bits) y, y / (2 ^ bits) ^ (nb / bits), nb % bits) := by
  intro nb
  induction nb using Nat.strong_induction_on with
  | _ nb ih =>
    intro y hnb
    rw [inexInner]
    by_cases hc : bits ≤ nb
    · have hcond : bits ≤ nb ∧ 0 < bits := ⟨hc, h1⟩
      simp only [hcond, and_self, dite_true]
      have hnot : ¬ BITS < nb := by omega
      simp only [hnot, if_false]
      rw [ih (nb - bits) (by omega) _ (by omega)]
      have hk : nb / bits = (nb - bits) / bits + 1 := by
        have : nb = (nb - bits) + bits := by omega
        conv_lhs => rw [this]
        exact Nat.add_div_right _ h1
      have hm : nb % bits = (nb - bits) % bits := by
        have : nb = (nb - bits) + bits := by omega
        conv_lhs => rw [this]
        exact Nat.add_mod_right _ _
      rw [hk, hm]
      simp only [emitN, Nat.and_two_pow_sub_one_eq_mod, Nat.shiftRight_eq_div_pow]
      rw [Nat.div_div_eq_div_mul, pow_succ, Nat.mul_comm]
    · have hcond : ¬ (bits ≤ nb ∧ 0 < bits) := by omega
      simp only [hcond, dite_false]
      have : nb / bits = 0 := Nat.div_eq_of_lt (by omega)
      rw [this, Nat.mod_eq_of_lt (by omega)]
      simp [emitN]

/-- the inner loop for one limb `c`, entered with `rb < bits` left-over bits `ro` -/
theorem inexInner_first {bits : Nat} (h1 : 1 ≤ bits) (h8 : bits ≤ 8) {c ro rb : Nat} (hc : c < B)
    (hrb : rb < bits) (hro : ro < 2 ^ rb) :
    inexInner bits (2 ^ bits - 1) c (ro ||| ((c <<< rb) % B)) (rb + BITS) =
      (emitN (2 ^ bits) ((rb + BITS) / bits) (ro + c * 2 ^ rb),
       (ro + c * 2 ^ rb) / (2 ^ bits) ^ ((rb + BITS) / bits), (rb + BITS) % bits) := by
  have hBITS : BITS = 64 := rfl
  rw [or_shl_mod (by omega) hro]
  generalize hX : ro + c * 2 ^ rb = X
  rw [inexInner]
  have hcond : bits ≤ rb + BITS ∧ 0 < bits := by omega
  simp only [hcond, and_self, dite_true]
  -- the digit pushed
  have hdvd : 2 ^ bits ∣ B := by rw [B_eq]; exact Nat.pow_dvd_pow 2 (by omega)
  have hdig : (X % B) &&& (2 ^ bits - 1) = X % 2 ^ bits := by
    rw [Nat.and_two_pow_sub_one_eq_mod, Nat.mod_mod_of_dvd _ hdvd]
  -- the new `r`
  have hr2 : (if BITS < rb + BITS then c >>> (BITS - (rb + BITS - bits)) else (X % B) >>> bits) = X / 2 ^ bits := by
    by_cases h0 : rb = 0
    · subst h0
      have : ro = 0 := by simpa using hro
      subst this
      simp only [Nat.zero_add, Nat.lt_irrefl, if_false, Nat.shiftRight_eq_div_pow]
      have : X = c := by rw [← hX]; simp
      rw [this, Nat.mod_eq_of_lt hc]
    · have hlt : BITS < rb + BITS := by omega
      simp only [hlt, if_true, Nat.shiftRight_eq_div_pow]
      have e : BITS - (rb + BITS - bits) = bits - rb := by omega
      rw [e, ← hX]
      have hsplit : 2 ^ bits = 2 ^ rb * 2 ^ (bits - rb) := by rw [← pow_add]; congr 1; omega
      rw [hsplit, ← Nat.div_div_eq_div_mul, Nat.add_mul_div_right _ _ (Nat.pow_pos (by omega)),
        Nat.div_eq_of_lt hro, Nat.zero_add]
  rw [hdig, hr2, inexInner_plain h1 c (rb + BITS - bits) _ (by omega)]
  have hk : (rb + BITS) / bits = (rb + BITS - bits) / bits + 1 := by
    have : rb + BITS = (rb + BITS - bits) + bits := by omega
    conv_lhs => rw [this]
    exact Nat.add_div_right _ h1
  have hm : (rb + BITS) % bits = (rb + BITS - bits) % bits := by
    have : rb + BITS = (rb + BITS - bits) + bits := by omega
    conv_lhs => rw [this]
    exact Nat.add_mod_right _ _
  rw [hk, hm]
  simp only [emitN]
  rw [Nat.div_div_eq_div_mul, pow_succ, Nat.mul_comm ((2 ^ bits) ^ _)]

/-- the whole digit stream before zero-stripping: `⌈64·len/bits⌉` digits of the value -/
theorem inexOuter_spec {bits : Nat} (h1 : 1 ≤ bits) (h8 : bits ≤ 8) :
    ∀ (cs : List Nat) (ro rb : Nat), DigitsOk cs → rb < bits → ro < 2 ^ rb →
    inexOuter bits (2 ^ bits - 1) cs ro rb =
      emitN (2 ^ bits) ((rb + BITS * cs.length + (bits - 1)) / bits) (ro + 2 ^ rb * val cs) := by
  have hBITS : BITS = 64 := rfl
  have hR : 0 < 2 ^ bits := Nat.pow_pos (by omega)
  intro cs
  induction cs with
  | nil =>
    intro ro rb _ hrb hro
    simp only [inexOuter, List.length_nil, Nat.mul_zero, Nat.add_zero, val]
    by_cases h0 : rb = 0
    · subst h0
      have : (bits - 1) / bits = 0 := Nat.div_eq_of_lt (by omega)
      simp [this, emitN]
    · have : (rb + (bits - 1)) / bits = 1 := by
        have e : rb + (bits - 1) = (rb - 1) + bits := by omega
        rw [e, Nat.add_div_right _ h1, Nat.div_eq_of_lt (by omega)]
      rw [this]
      have hlt : ro < 2 ^ bits := Nat.lt_of_lt_of_le hro (Nat.pow_le_pow_right (by omega) (by omega))
      simp [h0, emitN, Nat.mod_eq_of_lt hlt]
  | cons c cs ih =>
    intro ro rb hok hrb hro
    have hc : c < B := hok.head
    rw [inexOuter]
    rw [inexInner_first h1 h8 hc hrb hro]
    dsimp only
    set k := (rb + BITS) / bits with hk
    set rb' := (rb + BITS) % bits with hrb'
    have hdecomp : rb + BITS = bits * k + rb' := (Nat.div_add_mod _ _).symm
    have hrb'lt : rb' < bits := Nat.mod_lt _ h1
    set X := ro + c * 2 ^ rb with hX
    have hXlt : X < 2 ^ (rb + BITS) := by
      have : c * 2 ^ rb + 2 ^ rb ≤ B * 2 ^ rb := by
        have : (c + 1) * 2 ^ rb ≤ B * 2 ^ rb := Nat.mul_le_mul_right _ hc
        linarith [this, Nat.add_mul c 1 (2 ^ rb)]
      rw [pow_add, hBITS, ← B_eq, Nat.mul_comm]
      omega
    have hRk : (2 ^ bits) ^ k = 2 ^ (bits * k) := (pow_mul 2 bits k).symm
    have hro' : X / (2 ^ bits) ^ k < 2 ^ rb' := by
      rw [hRk, Nat.div_lt_iff_lt_mul (Nat.pow_pos (by omega)), ← pow_add, Nat.add_comm, ← hdecomp]
      exact hXlt
    rw [ih _ _ hok.tail hrb'lt hro']
    -- glue the two emissions
    have hT : (rb + BITS * (c :: cs).length + (bits - 1)) / bits
        = k + (rb' + BITS * cs.length + (bits - 1)) / bits := by
      have : rb + BITS * (c :: cs).length + (bits - 1) = (rb' + BITS * cs.length + (bits - 1)) + bits * k := by
        simp only [List.length_cons]; rw [Nat.mul_add, Nat.mul_one]; omega
      rw [this, Nat.add_mul_div_left _ _ h1, Nat.add_comm]
    have hN : ro + 2 ^ rb * val (c :: cs) = X + (2 ^ bits) ^ k * (2 ^ rb' * val cs) := by
      rw [val_cons, hRk, ← Nat.mul_assoc, ← pow_add, ← hdecomp, pow_add, hBITS, ← B_eq, hX]
      ring
    rw [hT, emitN_add, hN]
    congr 1
    · rw [← emitN_mod (2 ^ bits) k (X + _), Nat.add_mul_mod_self_left, emitN_mod]
    · rw [Nat.add_mul_div_left _ _ (Nat.pow_pos hR)]

theorem toInexactBitwiseDigitsLe_spec {bits : Nat} (h1 : 1 ≤ bits) (h8 : bits ≤ 8)
    (u : List Nat) (hc : Canon u) :
    toInexactBitwiseDigitsLe u bits = .ok (Nat.digits (2 ^ bits) (val u)) := by
  have hr2 : 2 ≤ 2 ^ bits := by
    calc 2 = 2 ^ 1 := rfl
      _ ≤ 2 ^ bits := Nat.pow_le_pow_right (by omega) h1
  have hr256 : 2 ^ bits ≤ 256 := by
    calc 2 ^ bits ≤ 2 ^ 8 := Nat.pow_le_pow_right (by omega) h8
      _ = 256 := rfl
  unfold toInexactBitwiseDigitsLe
  rw [if_neg (by omega), mask_eq, inexOuter_spec h1 h8 u 0 0 hc.1 (by omega) (by simp)]
  simp only [Nat.zero_add, pow_zero, Nat.one_mul]
  have hlt : val u < (2 ^ bits) ^ ((BITS * u.length + (bits - 1)) / bits) := by
    have h := val_lt hc.1
    rw [← pow_mul]
    refine Nat.lt_of_lt_of_le h ?_
    rw [B_eq, ← pow_mul]
    apply Nat.pow_le_pow_right (by omega)
    have hBITS : BITS = 64 := rfl
    -- bits * ceil(64 n / bits) ≥ 64 n
    have := Nat.div_add_mod (BITS * u.length + (bits - 1)) bits
    have hm : (BITS * u.length + (bits - 1)) % bits < bits := Nat.mod_lt _ h1
    rw [hBITS] at this hm ⊢
    omega
  rw [emitN_digits hr2 hr256 _ _ hlt, stripTrailingZeros_digits hr2]

end NB.Radix
