/- helper lemmas for C13: trailing zeros, Stein's loop, the extended Euclid loop, mod_floor -/
import NB.Model.Gcd
import NB.Lemmas.Base
import Mathlib.Tactic.Ring
import Mathlib.Tactic.Linarith
namespace NB.Gcd
open NB.IntVal

/-! ### trailing zeros -/

theorem tzLoop_spec : ∀ (fuel x : Nat), x ≠ 0 → x < 2 ^ fuel →
    2 ^ tzLoop fuel x ∣ x ∧ (x / 2 ^ tzLoop fuel x) % 2 = 1 := by
  intro fuel
  induction fuel with
  | zero => intro x h0 h; simp at h; omega
  | succ fuel ih =>
    intro x h0 h
    simp only [tzLoop]
    by_cases hc : x % 2 = 1
    · simp [hc]
    · simp only [hc, if_false]
      have hp : 2 ^ (fuel + 1) = 2 * 2 ^ fuel := by rw [pow_succ]; ring
      obtain ⟨h1, h2⟩ := ih (x / 2) (by omega) (by omega)
      have e : 2 ^ (1 + tzLoop fuel (x / 2)) = 2 * 2 ^ tzLoop fuel (x / 2) := by rw [pow_add, pow_one]
      rw [e]
      constructor
      · have hx : x = 2 * (x / 2) := by omega
        rw [hx]
        exact Nat.mul_dvd_mul_left 2 (by rwa [← hx])
      · rw [← Nat.div_div_eq_div_mul]; exact h2

/-- `twos x` is the 2-adic valuation: `x = 2^(twos x) · odd` -/
theorem twos_spec {x : Nat} (hx : x ≠ 0) : 2 ^ twos x ∣ x ∧ (x / 2 ^ twos x) % 2 = 1 := by
  unfold twos
  simp only [hx, if_false]
  exact tzLoop_spec _ x hx Nat.lt_log2_self

theorem shr_twos_odd {x : Nat} (hx : x ≠ 0) : (x >>> twos x) % 2 = 1 := by
  rw [Nat.shiftRight_eq_div_pow]; exact (twos_spec hx).2

theorem shr_twos_mul {x : Nat} (hx : x ≠ 0) : (x >>> twos x) * 2 ^ twos x = x := by
  rw [Nat.shiftRight_eq_div_pow]; exact Nat.div_mul_cancel (twos_spec hx).1

theorem coprime_two_of_odd {n : Nat} (h : n % 2 = 1) : Nat.Coprime 2 n := by
  unfold Nat.Coprime; rw [Nat.gcd_rec, h]; rfl

/-- powers of two can be dropped against an odd number -/
theorem gcd_mul_two_pow_odd (m k : Nat) {n : Nat} (h : n % 2 = 1) : Nat.gcd (m * 2 ^ k) n = Nat.gcd m n :=
  Nat.Coprime.gcd_mul_right_cancel m (Nat.Coprime.pow_left k (coprime_two_of_odd h))

theorem gcd_shr_twos {m n : Nat} (hm : m ≠ 0) (hn : n % 2 = 1) : Nat.gcd (m >>> twos m) n = Nat.gcd m n := by
  conv_rhs => rw [← shr_twos_mul hm]
  rw [gcd_mul_two_pow_odd _ _ hn]

/-! ### Stein's loop -/

/-- with `n` odd the loop returns `gcd m n`; fuel `m + n + 1` suffices; `m -= &n` never underflows -/
theorem steinLoop_spec : ∀ (fuel m n : Nat), n % 2 = 1 → m + n < fuel → steinLoop fuel m n = .ok (Nat.gcd m n) := by
  intro fuel
  induction fuel with
  | zero => intro m n _ h; omega
  | succ fuel ih =>
    intro m n hn hf
    simp only [steinLoop]
    by_cases hm : m = 0
    · subst hm; simp
    · simp only [hm, ne_eq, not_false_eq_true, if_true]
      have hodd := shr_twos_odd hm
      have hg := gcd_shr_twos hm hn
      have hle : m >>> twos m ≤ m := by rw [Nat.shiftRight_eq_div_pow]; exact Nat.div_le_self _ _
      generalize m >>> twos m = m1 at *
      by_cases hc : n > m1
      · simp only [hc, if_true]
        have : ¬ (n < m1) := by omega
        simp only [this, if_false]
        rw [ih (n - m1) m1 hodd (by omega), Nat.gcd_sub_self_left (by omega), Nat.gcd_comm, hg]
      · simp only [hc, if_false]
        have : ¬ (m1 < n) := by omega
        try simp only [this, if_false]
        rw [ih (m1 - n) n hn (by omega), Nat.gcd_sub_self_left (by omega), hg]

theorem gcd_ok (a b : Nat) : gcd a b = .ok (Nat.gcd a b) := by
  unfold gcd
  by_cases ha : a = 0
  · subst ha; simp
  · by_cases hb : b = 0
    · subst hb; simp [ha]
    · simp only [ha, hb, if_false]
      have hodd := shr_twos_odd hb
      rw [steinLoop_spec _ a (b >>> twos b) hodd (by unfold steinFuel; omega)]
      simp only
      congr 1
      rw [Nat.shiftLeft_eq]
      -- a = a' 2^ta, b = b' 2^tb
      have ea := shr_twos_mul ha
      have eb := shr_twos_mul hb
      have hodda := shr_twos_odd ha
      generalize a >>> twos a = a' at *
      generalize b >>> twos b = b' at *
      generalize twos a = ta at *
      generalize twos b = tb at *
      subst ea eb
      rw [gcd_mul_two_pow_odd a' ta hodd]
      rcases Nat.le_total tb ta with h | h
      · rw [Nat.min_eq_left h]
        obtain ⟨d, rfl⟩ : ∃ d, ta = tb + d := ⟨ta - tb, by omega⟩
        have e1 : a' * 2 ^ (tb + d) = 2 ^ tb * (a' * 2 ^ d) := by rw [pow_add]; ring
        have e2 : b' * 2 ^ tb = 2 ^ tb * b' := by ring
        rw [e1, e2, Nat.gcd_mul_left, gcd_mul_two_pow_odd a' d hodd]; ring
      · rw [Nat.min_eq_right h]
        obtain ⟨d, rfl⟩ : ∃ d, tb = ta + d := ⟨tb - ta, by omega⟩
        have e1 : b' * 2 ^ (ta + d) = 2 ^ ta * (b' * 2 ^ d) := by rw [pow_add]; ring
        have e2 : a' * 2 ^ ta = 2 ^ ta * a' := by ring
        rw [e1, e2, Nat.gcd_mul_left, Nat.gcd_comm a' (b' * 2 ^ d), gcd_mul_two_pow_odd b' d hodda, Nat.gcd_comm b' a']; ring

theorem div_gcd_mul (a b : Nat) (h : Nat.gcd a b ≠ 0) : a / Nat.gcd a b * b = Nat.lcm a b := by
  unfold Nat.lcm
  obtain ⟨k, hk⟩ := Nat.gcd_dvd_left a b
  have hpos : 0 < Nat.gcd a b := Nat.pos_of_ne_zero h
  generalize Nat.gcd a b = g at *
  rw [Nat.div_eq_of_eq_mul_right hpos hk]
  exact (Nat.div_eq_of_eq_mul_right hpos (by rw [hk, Nat.mul_assoc])).symm

theorem lcm_ok (a b : Nat) : lcm a b = .ok (Nat.lcm a b) := by
  unfold lcm
  by_cases h0 : a = 0 ∧ b = 0
  · obtain ⟨rfl, rfl⟩ := h0; simp
  · simp only [h0, if_false, gcd_ok, udiv]
    have hg : Nat.gcd a b ≠ 0 := by
      intro h; rw [Nat.gcd_eq_zero_iff] at h; exact h0 h
    simp only [hg, if_false, div_gcd_mul a b hg]

theorem gcdLcm_ok (a b : Nat) : gcdLcm a b = .ok (Nat.gcd a b, Nat.lcm a b) := by
  unfold gcdLcm
  simp only [gcd_ok, udiv]
  by_cases hg : Nat.gcd a b = 0
  · have := Nat.gcd_eq_zero_iff.mp hg
    obtain ⟨rfl, rfl⟩ := this; simp
  · simp only [hg, if_false, div_gcd_mul a b hg]

/-! ### divisibility helpers -/

theorem isMultipleOf_ok (a b : Nat) : isMultipleOf a b = .ok (decide (b ∣ a)) := by
  unfold isMultipleOf umod
  by_cases hb : b = 0
  · subst hb; simp
  · simp only [hb, if_false]
    congr 1
    exact decide_eq_decide.mpr (Nat.dvd_iff_mod_eq_zero ..).symm

theorem isEven_ok (ds : List Nat) : isEven ds = decide (val ds % 2 = 0) := by
  unfold isEven
  cases ds with
  | nil => simp [val]
  | cons d t =>
    simp only [List.head?_cons, val]
    have : (d + B * val t) % 2 = d % 2 := by
      have : B * val t = 2 * (9223372036854775808 * val t) := by unfold B; ring
      omega
    exact decide_eq_decide.mpr (by rw [this])

/-! ### extended Euclid (num-integer's loop) -/

theorem egcdLoop_spec (a b : Int) : ∀ (fuel : Nat) (s0 s1 t0 t1 r0 r1 : Int),
    a * s0 + b * t0 = r0 → a * s1 + b * t1 = r1 → r0.natAbs < fuel →
    ∃ g x y, egcdLoop fuel s0 s1 t0 t1 r0 r1 = .ok (g, x, y) ∧ a * x + b * y = g ∧ g.natAbs = Int.gcd r0 r1 := by
  intro fuel
  induction fuel with
  | zero => intro _ _ _ _ _ _ _ _ h; omega
  | succ fuel ih =>
    intro s0 s1 t0 t1 r0 r1 h0 h1 hf
    simp only [egcdLoop]
    by_cases hr : r0 = 0
    · subst hr
      simp only [ne_eq, not_true_eq_false, if_false]
      exact ⟨r1, s1, t1, rfl, h1, by simp⟩
    · simp only [hr, ne_eq, not_false_eq_true, if_true, idiv, if_false]
      have hdec : (r1 - Int.tdiv r1 r0 * r0).natAbs < fuel := by
        have e : r1 - Int.tdiv r1 r0 * r0 = Int.tmod r1 r0 := by rw [Int.tmod_def]; ring
        rw [e, Int.natAbs_tmod]
        have : r1.natAbs % r0.natAbs < r0.natAbs := Nat.mod_lt _ (by omega)
        omega
      obtain ⟨g, x, y, e, hxy, hg⟩ := ih (s1 - Int.tdiv r1 r0 * s0) s0 (t1 - Int.tdiv r1 r0 * t0) t0
        (r1 - Int.tdiv r1 r0 * r0) r0 (by rw [← h0, ← h1]; ring) h0 hdec
      refine ⟨g, x, y, e, hxy, ?_⟩
      rw [hg, Int.gcd_sub_mul_right_left, Int.gcd_comm]

theorem extendedGcd_ok (a b : Int) : ∃ x y, extendedGcd a b = .ok ((Int.gcd a b : Int), x, y) ∧
    a * x + b * y = (Int.gcd a b : Int) := by
  unfold extendedGcd
  obtain ⟨g, x, y, e, hxy, hg⟩ := egcdLoop_spec a b (egcdFuel b) 0 1 1 0 b a (by ring) (by ring)
    (by unfold egcdFuel; omega)
  rw [e]
  simp only
  rw [Int.gcd_comm] at hg
  by_cases hpos : g ≥ 0
  · simp only [hpos, if_true]
    have : g = (Int.gcd a b : Int) := by omega
    subst this
    exact ⟨x, y, rfl, hxy⟩
  · simp only [hpos, if_false]
    have : 0 - g = (Int.gcd a b : Int) := by omega
    rw [this]
    refine ⟨0 - x, 0 - y, rfl, ?_⟩
    rw [← this, ← hxy]; ring

/-! ### floored modulus -/

theorem fmod_unique {a b q m : Int} (h : a = b * q + m) (hp : 0 < b → 0 ≤ m ∧ m < b) (hn : b < 0 → b < m ∧ m ≤ 0)
    (hb : b ≠ 0) : Int.fmod a b = m := by
  rcases Int.lt_or_gt_of_ne hb with hneg | hpos
  · have h1 : Int.fmod a b = - Int.fmod (-a) (-b) := by
      rw [Int.neg_fmod_neg]; ring
    rw [h1, Int.fmod_eq_emod_of_nonneg _ (by omega)]
    have := (Int.ediv_emod_unique (a := -a) (b := -b) (r := -m) (q := q) (by omega)).mpr
      ⟨by rw [h]; ring, by have := hn hneg; omega, by have := hn hneg; omega⟩
    rw [this.2]; ring
  · rw [Int.fmod_eq_emod_of_nonneg _ (by omega)]
    have := (Int.ediv_emod_unique (a := a) (b := b) (r := m) (q := q) hpos).mpr
      ⟨by rw [h]; ring, (hp hpos).1, (hp hpos).2⟩
    exact this.2

theorem fmod_decomp (a : Int) {b : Int} (hb : b ≠ 0) :
    a = b * Int.fdiv a b + Int.fmod a b ∧ (0 < b → 0 ≤ Int.fmod a b ∧ Int.fmod a b < b) ∧
    (b < 0 → b < Int.fmod a b ∧ Int.fmod a b ≤ 0) := by
  refine ⟨by rw [Int.fmod_def]; ring, fun h => ⟨Int.fmod_nonneg_of_pos a h, Int.fmod_lt_of_pos a h⟩, fun h => ?_⟩
  have e : Int.fmod a b = - Int.fmod (-a) (-b) := by rw [Int.neg_fmod_neg]; ring
  have h1 := Int.fmod_nonneg_of_pos (-a) (show 0 < -b by omega)
  have h2 := Int.fmod_lt_of_pos (-a) (show 0 < -b by omega)
  omega

theorem bigintModFloor_ok (a : Int) {b : Int} (hb : b ≠ 0) : bigintModFloor a b = .ok (Int.fmod a b) := by
  unfold bigintModFloor umod
  have hbn : b.natAbs ≠ 0 := by omega
  simp only [hbn, if_false]
  have hdiv := Nat.div_add_mod a.natAbs b.natAbs
  have hlt := Nat.mod_lt a.natAbs (show b.natAbs > 0 by omega)
  generalize hk : a.natAbs / b.natAbs = k at hdiv
  generalize hr : a.natAbs % b.natAbs = r at hdiv hlt
  have hA : (a.natAbs : Int) = (b.natAbs : Int) * k + r := by exact_mod_cast hdiv.symm
  rcases Int.lt_trichotomy a 0 with ha | ha | ha <;> rcases Int.lt_or_gt_of_ne hb with hb' | hb'
  · -- minus, minus
    have sa : signOf a = .minus := by simp [signOf, ha]
    have sb : signOf b = .minus := by simp [signOf, hb']
    simp only [sa, sb, fromBiguint]
    congr 1
    have e1 : a = - (a.natAbs : Int) := by omega
    have e2 : b = - (b.natAbs : Int) := by omega
    refine (fmod_unique (q := k) ?_ (by omega) (by omega) hb).symm
    clear hk hr hdiv hbn
    generalize (a.natAbs : Int) = A at *
    generalize (b.natAbs : Int) = Bn at *
    subst e1 e2
    rw [hA]; ring
  · -- minus, plus
    have sa : signOf a = .minus := by simp [signOf, ha]
    have sb : signOf b = .plus := by
      have : ¬ b < 0 := by omega
      simp [signOf, this, hb]
    simp only [sa, sb, fromBiguint]
    have e1 : a = - (a.natAbs : Int) := by omega
    have e2 : b = (b.natAbs : Int) := by omega
    by_cases h0 : (r : Int) = 0
    · simp only [h0, if_true]
      congr 1
      refine (fmod_unique (q := -k) ?_ (by omega) (by omega) hb).symm
      clear hk hr hdiv hbn
      generalize (a.natAbs : Int) = A at *
      generalize (b.natAbs : Int) = Bn at *
      subst e1 e2
      rw [hA, h0]; ring
    · simp only [h0, if_false]
      congr 1
      refine (fmod_unique (q := -k - 1) ?_ (by omega) (by omega) hb).symm
      clear hk hr hdiv hbn
      generalize (a.natAbs : Int) = A at *
      generalize (b.natAbs : Int) = Bn at *
      subst e1 e2
      rw [hA]; ring
  · -- nosign, minus
    subst ha
    have sb : signOf b = .minus := by simp [signOf, hb']
    have hr0 : r = 0 := by simp at hr; omega
    subst hr0
    have sa : signOf (0 : Int) = .nosign := by simp [signOf]
    simp only [sa, sb, fromBiguint]
    simp
  · -- nosign, plus
    subst ha
    have sb : signOf b = .plus := by
      have : ¬ b < 0 := by omega
      simp [signOf, this, hb]
    have hr0 : r = 0 := by simp at hr; omega
    subst hr0
    have sa : signOf (0 : Int) = .nosign := by simp [signOf]
    simp only [sa, sb, fromBiguint]
    simp
  · -- plus, minus
    have sa : signOf a = .plus := by
      have : ¬ a < 0 := by omega
      have : a ≠ 0 := by omega
      simp [signOf, *]
    have sb : signOf b = .minus := by simp [signOf, hb']
    simp only [sa, sb, fromBiguint]
    have e1 : a = (a.natAbs : Int) := by omega
    have e2 : b = - (b.natAbs : Int) := by omega
    by_cases h0 : (r : Int) = 0
    · have : (-(r : Int) = 0) := by omega
      simp only [this, if_true]
      congr 1
      refine (fmod_unique (q := -k) ?_ (by omega) (by omega) hb).symm
      clear hk hr hdiv hbn
      generalize (a.natAbs : Int) = A at *
      generalize (b.natAbs : Int) = Bn at *
      subst e1 e2
      rw [hA, h0]; ring
    · have : ¬ (-(r : Int) = 0) := by omega
      simp only [this, if_false]
      congr 1
      refine (fmod_unique (q := -k - 1) ?_ (by omega) (by omega) hb).symm
      clear hk hr hdiv hbn
      generalize (a.natAbs : Int) = A at *
      generalize (b.natAbs : Int) = Bn at *
      subst e1 e2
      rw [hA]; ring
  · -- plus, plus
    have sa : signOf a = .plus := by
      have : ¬ a < 0 := by omega
      have : a ≠ 0 := by omega
      simp [signOf, *]
    have sb : signOf b = .plus := by
      have : ¬ b < 0 := by omega
      simp [signOf, this, hb]
    simp only [sa, sb, fromBiguint]
    congr 1
    have e1 : a = (a.natAbs : Int) := by omega
    have e2 : b = (b.natAbs : Int) := by omega
    refine (fmod_unique (q := k) ?_ (by omega) (by omega) hb).symm
    clear hk hr hdiv hbn
    generalize (a.natAbs : Int) = A at *
    generalize (b.natAbs : Int) = Bn at *
    subst e1 e2
    rw [hA]

theorem bigintModFloor_zero (a : Int) : bigintModFloor a 0 = .error .divzero := by
  simp [bigintModFloor, umod]

/-- `(-a) fmod b` in terms of `a fmod b` -/
theorem fmod_neg_left (a : Int) {b : Int} (hb : b ≠ 0) :
    Int.fmod (-a) b = if Int.fmod a b = 0 then 0 else b - Int.fmod a b := by
  obtain ⟨h1, h2, h3⟩ := fmod_decomp a hb
  by_cases h0 : Int.fmod a b = 0
  · rw [if_pos h0]
    refine fmod_unique (q := - Int.fdiv a b) ?_ (by omega) (by omega) hb
    rw [h0] at h1; conv_lhs => rw [h1]
    ring
  · rw [if_neg h0]
    refine fmod_unique (q := - Int.fdiv a b - 1) ?_ (fun h => by have := h2 h; omega) (fun h => by have := h3 h; omega) hb
    conv_lhs => rw [h1]
    ring

end NB.Gcd
