-- root of the NB library: import-free model + wire + driver handlers
import NB.Base
import NB.Wire
import NB.Model.AddSub
import NB.Drv.C01
import NB.Drv.C05
import NB.Drv.C09
import NB.Drv.C17
import NB.Drv.C10
import NB.Drv.C18
import NB.Drv.C06
import NB.Drv.C08
import NB.Drv.C03
import NB.Drv.C07
import NB.Drv.C11
import NB.Drv.C12
import NB.Drv.C13
