/- driver handlers for stream C15: the generated asm programs run in the mini x86 interpreter -/
import NB.Wire
import NB.Model.Asm
import NB.Model.AddSub
import NB.Model.AsmParams
namespace NB.Drv.C15
open NB NB.Wire NB.Asm

def addRegs : Regs := ⟨NB.Gen.addReg_size, NB.Gen.addReg_a, NB.Gen.addReg_b, NB.Gen.addReg_c, NB.Gen.addReg_idx⟩
def subRegs : Regs := ⟨NB.Gen.subReg_size, NB.Gen.subReg_a, NB.Gen.subReg_b, NB.Gen.subReg_c, NB.Gen.subReg_idx⟩

def showCall : Option (Bool × Nat × List Nat) → String
  | none => "fault"
  | some (c, idx, a) => showBool c ++ " " ++ toString idx ++ " " ++ showLimbs a

/-- what the block routine must compute: the carry chain over the first `done` digits -/
def expect (zip : Nat → List Nat → List Nat → List Nat × Nat) (blk : Blk) (a b : List Nat) (size : Nat) : String :=
  let done := blk.done size
  if done > size then "fault" else
  let r := zip 0 (a.take done) (b.take done)
  showBool (r.2 > 0) ++ " " ++ toString done ++ " " ++ showLimbs (r.1 ++ a.drop done)

def handle (op : String) (args : List String) : Option (String × String) :=
  match op, args with
  | "raw.asm_add", [a, b, n] => do
    let a ← parseLimbs a; let b ← parseLimbs b; let n ← parseNat n
    if n > a.length ∨ n > b.length then none else
    pure (showCall (call NB.Gen.addProg addRegs NB.Gen.addDiv (a.take n) (b.take n) n |>.map
            (fun (c, i, l) => (c, i, l ++ a.drop n))),
          expect adcZip NB.Gen.P.addBlk a b n)
  | "raw.asm_sub", [a, b, n] => do
    let a ← parseLimbs a; let b ← parseLimbs b; let n ← parseNat n
    if n > a.length ∨ n > b.length then none else
    pure (showCall (call NB.Gen.subProg subRegs NB.Gen.subDiv (a.take n) (b.take n) n |>.map
            (fun (c, i, l) => (c, i, l ++ a.drop n))),
          expect sbbZip NB.Gen.P.subBlk a b n)
  | "raw.add2x", [a, b] => do
    let a ← parseLimbs a; let b ← parseLimbs b
    if a.length < b.length then none else
    let r := add2c NB.Gen.P a b
    let tot := val a + val b
    let n := a.length
    let lo := tot % (B ^ n)
    let pad := ofNat lo ++ List.replicate (n - (ofNat lo).length) 0
    pure (showLimbs r.1 ++ " " ++ toString r.2, showLimbs pad ++ " " ++ toString (tot / B ^ n))
  | "raw.sub2x", [a, b] => do
    let a ← parseLimbs a; let b ← parseLimbs b
    let o : Except Panic (List Nat) :=
      if val a < val b then .error .underflow else
        let d := ofNat (val a - val b)
        .ok (d ++ List.replicate (a.length - d.length) 0)
    pure (showExcept showLimbs (sub2 NB.Gen.P a b), showExcept showLimbs o)
  | "u.addsub", [a, b] => do
    let a ← parseLimbs a; let b ← parseLimbs b
    let m := "ok " ++ showLimbs (addRef NB.Gen.P a b) ++ " " ++
      (match subRef NB.Gen.P a b with | .ok d => showLimbs d | .error _ => "lt")
    let o := "ok " ++ showLimbs (ofNat (val a + val b)) ++ " " ++
      (if val a < val b then "lt" else showLimbs (ofNat (val a - val b)))
    pure (m, o)
  | "u.text", [r, x] => do
    let r ← parseNat r; let x ← parseLimbs x
    if r < 2 ∨ r > 36 then pure ("panic radix", "panic radix") else
    let n := (Nat.toDigits r (val x)).length
    pure ("ok " ++ toString n, "ok " ++ toString n)
  -- the BigInt text entry points on their own (`BigInt::to_str_radix` does not go through `BigUint::to_str_radix`):
  -- length of the text of ±x, or the radix panic
  | "i.text", [r, sg, x] => do
    let r ← parseNat r; let x ← parseLimbs x
    if r < 2 ∨ r > 36 then pure ("panic radix", "panic radix") else
    let n := (Nat.toDigits r (val x)).length + (if sg == "-" ∧ val x ≠ 0 then 1 else 0)
    pure ("ok " ++ toString n, "ok " ++ toString n)
  | "gen_biguint", [_, _] => pure ("ok", "ok")
  | _, _ => none

end NB.Drv.C15
