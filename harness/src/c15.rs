//! stream C15: unsafe code — asm block routines on exact-size heap slices, borrowed operands
//! compared with saved copies, text validated as ASCII within the radix alphabet, the u64-as-u32
//! view of gen_biguint.  The same requests are replayed under valgrind by check.py.
use crate::wire::*;
use num_bigint::BigUint;

fn boxed(v: Vec<u64>) -> Box<[u64]> {
    v.into_boxed_slice() // exact-size allocation: the slice ends at the end of its heap block
}

#[cfg(feature = "rand")]
struct SplitMix(u64);
#[cfg(feature = "rand")]
impl rand::RngCore for SplitMix {
    fn next_u32(&mut self) -> u32 {
        self.next_u64() as u32
    }
    fn next_u64(&mut self) -> u64 {
        self.0 = self.0.wrapping_add(0x9E3779B97F4A7C15);
        let mut z = self.0;
        z = (z ^ (z >> 30)).wrapping_mul(0xBF58476D1CE4E5B9);
        z = (z ^ (z >> 27)).wrapping_mul(0x94D049BB133111EB);
        z ^ (z >> 31)
    }
    fn fill_bytes(&mut self, dest: &mut [u8]) {
        for chunk in dest.chunks_mut(8) {
            let w = self.next_u64().to_le_bytes();
            chunk.copy_from_slice(&w[..chunk.len()]);
        }
    }
    fn try_fill_bytes(&mut self, dest: &mut [u8]) -> Result<(), rand::Error> {
        self.fill_bytes(dest);
        Ok(())
    }
}

pub fn handle(op: &str, a: &[&str]) -> Option<String> {
    Some(match (op, a) {
        #[cfg(num_bigint_verif)]
        ("raw.asm_add", [x, y, n]) | ("raw.asm_sub", [x, y, n]) => {
            let full_a = parse_limbs(x)?;
            let full_b = parse_limbs(y)?;
            let n: usize = n.parse().ok()?;
            if n > full_a.len() || n > full_b.len() {
                return None;
            }
            // the routine receives exactly `n` digits behind each pointer
            let mut pa = boxed(full_a[..n].to_vec());
            let pb = boxed(full_b[..n].to_vec());
            let saved = pb.clone();
            let (c, idx) = if op == "raw.asm_add" {
                num_bigint::verif::asm_add(&mut pa, &pb, n)
            } else {
                num_bigint::verif::asm_sub(&mut pa, &pb, n)
            };
            if pb != saved {
                return Some("panic internal:operand-modified".to_string());
            }
            let mut out = pa.to_vec();
            out.extend_from_slice(&full_a[n..]);
            format!("{} {} {}", show_bool(c), idx, show_limbs(&out))
        }
        #[cfg(num_bigint_verif)]
        ("raw.add2x", [x, y]) | ("raw.sub2x", [x, y]) => {
            // exact-size buffers, borrowed operand checked afterwards; value checked by C01
            let mut pa = boxed(parse_limbs(x)?);
            let pb = boxed(parse_limbs(y)?);
            let saved = pb.clone();
            if op == "raw.add2x" {
                if pa.len() < pb.len() {
                    return None;
                }
                let c = num_bigint::verif::add2c(&mut pa, &pb);
                if pb != saved {
                    return Some("panic internal:operand-modified".to_string());
                }
                format!("{} {}", show_limbs(&pa), c)
            } else {
                num_bigint::verif::sub2(&mut pa, &pb);
                if pb != saved {
                    return Some("panic internal:operand-modified".to_string());
                }
                format!("ok {}", show_limbs(&pa))
            }
        }
        ("u.addsub", [x, y]) => {
            // public API on values whose buffers are exactly full; borrowed operand unchanged
            let a = parse_u(x)?;
            let b = parse_u(y)?;
            let bs = b.clone();
            let s = &a + &b;
            let mut t = a.clone();
            t += &b;
            let d = if a >= b { Some(&a - &b) } else { None };
            if b != bs || s != t {
                return Some("panic internal:operand-modified".to_string());
            }
            match d {
                Some(d) => format!("ok {} {}", show_u(&s), show_u(&d)),
                None => format!("ok {} lt", show_u(&s)),
            }
        }
        ("u.text", [r, x]) => {
            let radix: u32 = r.parse().ok()?;
            let v = parse_u(x)?;
            let s = v.to_str_radix(radix);
            let ok = !s.is_empty()
                && s.bytes().all(|c| {
                    let d = match c {
                        b'0'..=b'9' => (c - b'0') as u32,
                        b'a'..=b'z' => (c - b'a') as u32 + 10,
                        _ => 99,
                    };
                    d < radix
                });
            let i = num_bigint::BigInt::from_biguint(num_bigint::Sign::Minus, v.clone());
            let si = i.to_str_radix(radix);
            let oki = if v == BigUint::default() { si == s } else { si.len() == s.len() + 1 && si.as_bytes()[0] == b'-' && si[1..] == s };
            let f = format!("{}|{:x}|{:o}|{:b}|{:X}", v, v, v, v, v);
            if !ok || !oki || !f.is_ascii() {
                return Some("panic internal:invalid-text".to_string());
            }
            format!("ok {}", s.len())
        }
        // the BigInt text entry point on its own: a radix outside 2..=36 must be rejected HERE too (the bytes go to
        // `from_utf8_unchecked`), and the text must be ASCII digits of the radix after an optional `-`
        ("i.text", [r, sg, x]) => {
            let radix: u32 = r.parse().ok()?;
            let m = parse_u(x)?;
            let sign = match *sg {
                "-" => num_bigint::Sign::Minus,
                "+" => num_bigint::Sign::Plus,
                _ => return None,
            };
            let i = num_bigint::BigInt::from_biguint(sign, m);
            let s = i.to_str_radix(radix);
            let body = s.strip_prefix('-').unwrap_or(&s);
            let ok = std::str::from_utf8(s.as_bytes()).is_ok()
                && !body.is_empty()
                && body.bytes().all(|c| {
                    let d = match c {
                        b'0'..=b'9' => (c - b'0') as u32,
                        b'a'..=b'z' => (c - b'a') as u32 + 10,
                        _ => 99,
                    };
                    d < radix
                });
            let f = format!("{}|{:x}|{:o}|{:b}|{:X}|{:?}", i, i, i, i, i, i);
            if !ok || !f.is_ascii() {
                return Some("panic internal:invalid-text".to_string());
            }
            format!("ok {}", s.len())
        }
        #[cfg(feature = "rand")]
        ("gen_biguint", [n, seed]) => {
            use num_bigint::RandBigInt;
            let n: u64 = n.parse().ok()?;
            let seed: u64 = seed.parse().ok()?;
            let mut rng = SplitMix(seed);
            let v = rng.gen_biguint(n);
            if v.bits() > n {
                return Some("panic internal:gen_biguint-out-of-range".to_string());
            }
            let w = rng.gen_bigint(n);
            if w.bits() > n {
                return Some("panic internal:gen_bigint-out-of-range".to_string());
            }
            "ok".to_string()
        }
        _ => return None,
    })
}
