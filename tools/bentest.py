#!/usr/bin/env python3
"""Negative controls: run ALL checks against a HARMLESS change (a refactoring / retuning / rewording that keeps every
property true) and record which checks raise an alarm.  Usage: tools/bentest.py <dir with patch.diff meta.json> [Cxx ...]
Applies the patch to the repository the checks are tied to (NB_REPO, default /repo), runs the quick tier of the named
checks (default: all 20), undoes the patch, restores generated files and committed evidence, writes <dir>/alarms.json."""
import json, os, subprocess, sys, time
VERIF = os.path.dirname(os.path.dirname(os.path.abspath(__file__)))
REPO = os.environ.get("NB_REPO", "/repo")

def main():
    d = os.path.abspath(sys.argv[1])
    pids = sys.argv[2:] or ["C%02d" % i for i in range(1, 21)]
    st = subprocess.run(["git", "-C", REPO, "status", "--porcelain"], capture_output=True, text=True).stdout.strip()
    if st:
        print("refusing: repository has uncommitted changes:\n" + st); return 2
    r = subprocess.run(["git", "-C", REPO, "apply", os.path.join(d, "patch.diff")], capture_output=True, text=True)
    if r.returncode != 0:
        print("patch does not apply:", r.stderr); return 2
    res = {}
    try:
        for pid in pids:
            t0 = time.time()
            p = subprocess.run([sys.executable, os.path.join(VERIF, "tools", "check.py"), pid, "--tier", "quick"],
                               cwd=VERIF, capture_output=True, text=True)
            viol = [l for l in p.stdout.split("\n") if l.startswith("VIOLATION")]
            first = None
            if viol:
                try:
                    rp = json.load(open(viol[0].split("replay=")[1].split()[0]))
                    first = {k: str(v)[:300] for k, v in rp.items() if k in ("kind", "request", "impl", "oracle", "model", "detail", "theorem", "obligation", "errors", "profile")}
                except Exception:  # noqa: BLE001
                    pass
            res[pid] = {"rc": p.returncode, "violations": viol[:3], "first_replay": first, "wall_s": round(time.time() - t0, 1),
                        "tail": (p.stdout[-400:] + p.stderr[-300:]) if p.returncode != 0 else ""}
            print(pid, "rc=%d" % p.returncode, "violations=%d" % len(viol), flush=True)
    finally:
        subprocess.run(["git", "-C", REPO, "checkout", "--", "."])
        subprocess.run(["git", "-C", REPO, "clean", "-fdq", "src", "tests", "examples"])
        subprocess.run([sys.executable, os.path.join(VERIF, "tools", "extract.py")], capture_output=True)
        subprocess.run(["git", "-C", VERIF, "checkout", "--", "evidence"], capture_output=True)
        subprocess.run(["rm", "-rf", os.path.join(VERIF, "evidence", "replays")])
    json.dump(res, open(os.path.join(d, "alarms.json"), "w"), indent=1)
    return 0

if __name__ == "__main__":
    sys.exit(main())
