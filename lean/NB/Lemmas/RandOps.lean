/- helper lemmas for C18 that need the C01 operator theorems: scalar `+ u32`, lifting spec-level
   results through the BigUint/BigInt additions of the range forms -/
import NB.Lemmas.Rand
import NB.Props.C01
namespace NB
open NB.Rand

/-- spec-level result (value : Int) lifted to the model's result type -/
def Rand.liftI (r : Option (Int × List Nat)) : R BigInt :=
  .ok (r.map fun (c, t) => (BigInt.ofInt c, t))

theorem fromU_ofNat (c : Nat) : fromU (ofNat c) = BigInt.ofInt (c : Int) := by
  unfold fromU
  by_cases hc : c = 0
  · subst hc; simp [(ofNat_eq_nil_iff 0).mpr rfl, BigInt.ofInt]
  · have : ofNat c ≠ [] := fun h => hc ((ofNat_eq_nil_iff c).mp h)
    simp only [this, if_false]
    unfold BigInt.ofInt
    have h1 : ¬ ((c : Int) < 0) := by omega
    have h2 : ¬ ((c : Int) = 0) := by omega
    simp [h1, hc]


theorem fromU_canon {u : List Nat} (h : Canon u) : fromU u = BigInt.ofInt (val u) := by
  rw [← fromU_ofNat, ← canon_eq_ofNat h]

/-- `a += d` for a u32/u64 scalar: exact canonical sum -/
theorem addAssignU32_spec (P : Params) (a : List Nat) (d : Nat) (ha : Canon a) (hd : d < B) :
    addAssignU32 P a d = ofNat (val a + d) := by
  unfold addAssignU32
  by_cases hd0 : d = 0
  · subst hd0; simp only [ne_eq, not_true_eq_false, if_false, Nat.add_zero]
    exact canon_eq_ofNat ha
  · simp only [hd0, ne_eq, not_false_eq_true, if_true]
    have key : ∀ a' : List Nat, DigitsOk a' → 1 ≤ a'.length → val a' = val a →
        (a'.length = 1 ∨ B ^ (a'.length - 1) ≤ val a') →
        (if (add2c P a' [d]).2 ≠ 0 then (add2c P a' [d]).1 ++ [(add2c P a' [d]).2] else (add2c P a' [d]).1)
          = ofNat (val a + d) := by
      intro a' hok hlen hval hge
      obtain ⟨l1, l2, l3, l4⟩ := add2c_spec P a' [d] (by simpa using hlen) hok
        (DigitsOk.cons hd DigitsOk.nil)
      have hone : val [d] = d := by simp [val]
      rw [hone, hval] at l1
      generalize add2c P a' [d] = r at *
      have hv : val (if r.2 ≠ 0 then r.1 ++ [r.2] else r.1) = val a + d ∧
          Canon (if r.2 ≠ 0 then r.1 ++ [r.2] else r.1) := by
        by_cases hc : r.2 = 0
        · simp only [hc, ne_eq, not_true_eq_false, if_false]
          rw [hc] at l1
          refine ⟨by omega, canon_of_val_ge l3 ?_⟩
          intro _
          rw [l2]
          rcases hge with h | h
          · rw [h]; simp; omega
          · omega
        · have hc1 : r.2 = 1 := by omega
          simp only [hc, ne_eq, not_false_eq_true, if_true]
          refine ⟨?_, canon_append_singleton l3 (by rw [hc1]; decide) hc⟩
          rw [val_append, l2]; simp only [val, Nat.mul_zero, Nat.add_zero]; omega
      rw [canon_eq_ofNat hv.2, hv.1]
    by_cases hz : a = []
    · subst hz
      simp only [if_true]
      exact key [0] (DigitsOk.cons B_pos DigitsOk.nil) (by simp) (by simp [val]) (Or.inl rfl)
    · simp only [hz, if_false]
      have hl : 1 ≤ a.length := List.length_pos_iff.mpr hz
      exact key a ha.1 hl rfl (Or.inr (canon_val_ge ha hz))

/-- `a + d` for a BigInt and a u32/u64 scalar: exact, never panics -/
theorem bigintAddU32_spec (P : Params) (a : BigInt) (d : Nat) (ha : a.Canon) (hd : d < B) :
    bigintAddU32 P a d = .ok (BigInt.ofInt (a.val + (d : Int))) := by
  obtain ⟨s, m⟩ := a
  obtain ⟨hc, hs⟩ := ha
  simp only at hc hs
  have hdC : Canon (uFromU32 d) := by
    unfold uFromU32
    by_cases h : d = 0
    · simp [h]; exact canon_nil
    · simp only [h, ne_eq, not_false_eq_true, if_true]
      exact ⟨DigitsOk.cons hd DigitsOk.nil, by simp [h]⟩
  have hdV : val (uFromU32 d) = d := by
    unfold uFromU32
    by_cases h : d = 0 <;> simp [h, val]
  have hdOk : DigitsOk [d] := DigitsOk.cons hd DigitsOk.nil
  have hone : val [d] = d := by simp [val]
  cases s with
  | nosign =>
    simp only [bigintAddU32, BigInt.val, Int.zero_add]
    by_cases h : d > 0
    · simp only [h, if_true]
      have : uFromU32 d ≠ [] := by unfold uFromU32; simp; omega
      have e := fromU_canon hdC
      unfold fromU at e; simp only [this, if_false] at e
      rw [e, hdV]
    · have : d = 0 := by omega
      subst this; simp [BigInt.ofInt]
  | plus =>
    simp only [bigintAddU32, BigInt.val]
    rw [addAssignU32_spec P m d hc hd, fromU_ofNat]
    congr 2
  | minus =>
    have hm : m ≠ [] := fun e => by have := hs.mpr e; cases this
    have hpos := canon_val_pos hc hm
    simp only [bigintAddU32, BigInt.val]
    rw [cmpSlice_spec hc hdC, hdV]
    rcases Nat.lt_trichotomy (val m) d with h | h | h
    · rw [Nat.compare_eq_lt.mpr h]
      simp only [hm, if_false]
      obtain ⟨_, h2⟩ := sub2rev_spec [d] m (List.length_pos_iff.mpr hm) hdOk hc.1
      rw [hone] at h2
      obtain ⟨r, hr, hv, hok⟩ := h2 (by omega)
      rw [hr]
      show Except.ok (fromU (normalize r)) = _
      rw [fromU_canon (normalize_canon hok), normalize_val, hv]
      congr 2; omega
    · rw [Nat.compare_eq_eq.mpr h]
      simp only
      congr 1
      have : -(val m : Int) + (d : Int) = 0 := by omega
      rw [this]; rfl
    · rw [Nat.compare_eq_gt.mpr h]
      obtain ⟨_, h2⟩ := sub2_spec P m [d] hc.1 hdOk
      rw [hone] at h2
      obtain ⟨r, hr, hv, _, hok⟩ := h2 (by omega)
      simp only [hr]
      show Except.ok (fromU (normalize r)).neg = _
      have hnz : normalize r ≠ [] := by
        intro e
        have := normalize_val r; rw [e] at this; simp [val] at this; omega
      have hC := normalize_canon hok
      have e1 : fromU (normalize r) = ⟨.plus, normalize r⟩ := by unfold fromU; simp [hnz]
      rw [e1]
      have hcanon : (BigInt.neg ⟨.plus, normalize r⟩).Canon := ⟨hC, by simp [BigInt.neg, Sign.neg, hnz]⟩
      rw [bigint_canon_eq_ofInt hcanon]
      congr 2
      simp only [BigInt.neg, Sign.neg, BigInt.val, normalize_val, hv]
      omega


theorem liftU_bindE_add (P : Params) (r : Option (Nat × List Nat)) (lo : List Nat) (hlo : Canon lo) :
    (liftU r).bindE (fun x => .ok (addAssign P x lo)) = liftU r (val lo) := by
  unfold liftU R.bindE
  cases r with
  | none => rfl
  | some ct =>
    obtain ⟨c, t⟩ := ct
    simp only [Option.map]
    rw [addAssign_spec P _ lo (ofNat_canon _) hlo, ofNat_val, Nat.zero_add, Nat.add_comm]

theorem liftU_mem {r : Option (Nat × List Nat)} {off w : Nat} {v : List Nat} {rest : Tape}
    (hr : ∀ c t, r = some (c, t) → c < w) (h : liftU r off = .ok (some (v, rest))) :
    Canon v ∧ off ≤ val v ∧ val v < off + w := by
  unfold liftU at h
  cases r with
  | none => simp at h
  | some ct =>
    obtain ⟨c, t⟩ := ct
    simp only [Option.map, Except.ok.injEq, Option.some.injEq, Prod.mk.injEq] at h
    obtain ⟨rfl, _⟩ := h
    have := hr c t rfl
    refine ⟨ofNat_canon _, ?_, ?_⟩ <;> rw [ofNat_val] <;> omega

theorem bigint_mag {x : BigInt} (hx : x.Canon) : Canon x.mag ∧ val x.mag = x.val.natAbs := by
  obtain ⟨s, m⟩ := x
  obtain ⟨hc, hs⟩ := hx
  simp only at hc hs
  refine ⟨hc, ?_⟩
  cases s <;> simp only [BigInt.val]
  · simp
  · have : m = [] := hs.mp rfl
    subst this; simp [val]
  · simp

theorem bigint_nosign_iff {x : BigInt} (hx : x.Canon) : x.sign = .nosign ↔ x.val = 0 := by
  obtain ⟨s, m⟩ := x
  obtain ⟨hc, hs⟩ := hx
  simp only at hc hs
  have hp : s ≠ .nosign → 0 < val m := fun h => canon_val_pos hc (fun e => h (hs.mpr e))
  cases s <;> simp only [BigInt.val]
  · have := hp (by decide); simp; omega
  · have := hp (by decide); simp; omega

theorem liftU_bindE_int (r : Option (Nat × List Nat)) (f : List Nat → Except Panic BigInt) (g : Nat → Int)
    (hf : ∀ c, f (ofNat c) = .ok (BigInt.ofInt (g c))) :
    (liftU r).bindE f = liftI (r.map fun (c, t) => (g c, t)) := by
  unfold liftU liftI R.bindE
  cases r with
  | none => rfl
  | some ct =>
    obtain ⟨c, t⟩ := ct
    simp only [Option.map, Nat.zero_add, hf]

theorem add_fromU (P : Params) (lo : BigInt) (hlo : lo.Canon) (c : Nat) :
    BigInt.add P lo (fromU (ofNat c)) = .ok (BigInt.ofInt (lo.val + (c : Int))) := by
  rw [fromU_ofNat, bigint_add_spec P lo _ hlo (bigint_ofInt_canon _), bigint_ofInt_val]

theorem liftI_mem {r : Option (Nat × List Nat)} {lo : Int} {w : Nat} {v : BigInt} {rest : Tape}
    (hr : ∀ c t, r = some (c, t) → c < w)
    (h : liftI (r.map fun (c, t) => (lo + (c : Int), t)) = .ok (some (v, rest))) :
    v.Canon ∧ lo ≤ v.val ∧ v.val < lo + w := by
  unfold liftI at h
  cases r with
  | none => simp at h
  | some ct =>
    obtain ⟨c, t⟩ := ct
    simp only [Option.map, Except.ok.injEq, Option.some.injEq, Prod.mk.injEq] at h
    obtain ⟨rfl, _⟩ := h
    have := hr c t rfl
    refine ⟨bigint_ofInt_canon _, ?_, ?_⟩ <;> rw [bigint_ofInt_val] <;> omega

end NB
