/-
  NB.Model.AsmDefs — instruction subset of the two inline-asm loops (import-free).
  Registers are numbered by their position in the asm! operand list (see NB.Gen.AsmProg).
-/
namespace NB.Asm

inductive Instr where
  | clc
  | label (n : Nat)
  /-- `mov {dst}, qword ptr [{base} + 8*{idx} + 8*off]` -/
  | load (dst base idx off : Nat)
  /-- `mov qword ptr [{base} + 8*{idx} + 8*off], {src}` -/
  | store (base idx off src : Nat)
  | adc (dst src : Nat)
  | sbb (dst src : Nat)
  | inc (r : Nat)
  | dec (r : Nat)
  | jnz (n : Nat)
  | setc (r : Nat)
  deriving DecidableEq, Repr, Inhabited

end NB.Asm
